import Vata.Apply
/-!
# Executable model of the MTBDD package operations (property C17)

Mirrors `src/mtbdd/ondriks_mtbdd.hh`, `apply{1,2,3}func.hh`, `void_apply{1,2}func.hh`, `classify_case.hh`.

Modelling conventions
* An MTBDD is a `Vata.M.Node α` (a tree; the hash-consing of `spawnLeaf`/`spawnInternal` makes pointer equality of the
  C++ coincide with structural equality `=` of the model, which is what `operator==` compares).
* A `SymbolicVarAsgn` is a `List (Option Bool)`: position `i` is variable `i`, `none` is `DONT_CARE` (`'X'`),
  `some false` is `ZERO`, `some true` is `ONE`.
* The variable with the LARGER index is nearer the root.
* The result caches (`ht`) of the apply functors are not modelled (they only memoise).

Definitions: `constructLoop`, `constructOn`, `construct`, `extendWith`, `getValue`, `getPrefix`, `apply1`, `apply3`
(`leafOrLe`, `branch3`, `lowIf`, `highIf`, `varOf`, `leafVal`, `topVar3`), `project`, `projectVar`, `rename`,
`addUpTo`, `getPathsRec`, `getPaths`, `agrees`, `voidApply1`, `voidApply2`.
(`mk`, `apply2` are in `Vata/Apply.lean`.)
-/
namespace Vata.M
variable {α β γ δ : Type}

/-! ## construction (`constructMTBDD`, `ExtendWith`) -/

/-- the `for` loop of `constructMTBDD`: `i` is the loop counter, `p` is `procNode`, `tr` is `varTrans` -/
def constructLoop (tr : Nat → Nat) (sink : Node α) : List (Option Bool) → Nat → Node α → Node α
  | [], _, p => p
  | some true :: as, i, p => constructLoop tr sink as (i + 1) (.node (tr i) sink p)
  | some false :: as, i, p => constructLoop tr sink as (i + 1) (.node (tr i) p sink)
  | none :: as, i, p => constructLoop tr sink as (i + 1) p

/-- the 4-argument `constructMTBDD(asgn, node, defaultValue, varTrans)` -/
def constructOn [DecidableEq α] (tr : Nat → Nat) (asgn : List (Option Bool)) (node : Node α) (d : α) : Node α :=
  if node = .leaf d then node else constructLoop tr (.leaf d) asgn 0 node

/-- the 3-argument `constructMTBDD(asgn, value, defaultValue)` (the constructor `OndriksMTBDD(asgn, value, default)`) -/
def construct [DecidableEq α] (asgn : List (Option Bool)) (v d : α) : Node α :=
  constructOn (fun x => x) asgn (.leaf v) d

/-- `ExtendWith(asgn, offset)` on an MTBDD with root `a` and default value `d` -/
def extendWith [DecidableEq α] (asgn : List (Option Bool)) (offset : Nat) (a : Node α) (d : α) : Node α :=
  constructOn (fun x => x + offset) asgn a d

/-! ## queries (`GetValue`, `GetMtbddForPrefix`) -/

/-- `GetValue(asgn)`: the high branch is taken only when the query has `ONE`; for `ZERO` and `DONT_CARE` the low
    branch is taken.  (The C++ asserts `var < asgn.length()`; out-of-range positions are modelled like `DONT_CARE`.) -/
def getValue : Node α → List (Option Bool) → α
  | .leaf v, _ => v
  | .node x lo hi, q => if q[x]? = some (some true) then getValue hi q else getValue lo q

/-- `GetMtbddForPrefix(asgn, offset)` -/
def getPrefix (asgn : List (Option Bool)) (offset : Nat) : Node α → Node α
  | .leaf v => .leaf v
  | .node x lo hi =>
    if x < offset then .node x lo hi
    else if asgn[x - offset]? = some (some true) then getPrefix asgn offset hi else getPrefix asgn offset lo

/-- a total assignment agrees with a symbolic one (with don't cares) -/
def agrees (ρ : Nat → Bool) : List (Option Bool) → Nat → Bool
  | [], _ => true
  | none :: as, i => agrees ρ as (i + 1)
  | some b :: as, i => (ρ i == b) && agrees ρ as (i + 1)

/-! ## unary apply (`Apply1Functor::recDescend`) -/

def apply1 [DecidableEq β] (f : α → β) : Node α → Node β
  | .leaf v => .leaf (f v)
  | .node x lo hi => mk x (apply1 f lo) (apply1 f hi)

/-! ## ternary apply (`Apply3Functor::classifyCase`, `recDescend`) -/

/-- `IsLeaf(n) || (x >= GetVarFromInternal(n))` -/
def leafOrLe (x : Nat) : Node α → Bool
  | .leaf _ => true
  | .node y _ _ => decide (y ≤ x)

/-- one of the three tests of `classifyCase`: is `a` to be branched (given the other two nodes)? -/
def branch3 (a : Node α) (b : Node β) (c : Node γ) : Bool :=
  match a with
  | .leaf _ => false
  | .node x _ _ => leafOrLe x b && leafOrLe x c

/-- `lowKTree`: the low child when the node is branched, the node itself otherwise -/
def lowIf : Bool → Node α → Node α
  | true, .node _ lo _ => lo
  | _, a => a

/-- `highKTree` -/
def highIf : Bool → Node α → Node α
  | true, .node _ _ hi => hi
  | _, a => a

/-- `GetVarFromInternal` (0 on leaves, where the C++ is undefined) -/
def varOf : Node α → Nat
  | .leaf _ => 0
  | .node x _ _ => x

/-- `GetDataFromLeaf` (the leftmost leaf on internal nodes, where the C++ is undefined) -/
def leafVal : Node α → α
  | .leaf v => v
  | .node _ lo _ => leafVal lo

/-- the variable `var` of `recDescend`: the last assignment wins -/
def topVar3 (a : Node α) (b : Node β) (c : Node γ) : Nat :=
  if branch3 c a b then varOf c else if branch3 b a c then varOf b else varOf a

theorem size_lowIf_le (br : Bool) (a : Node α) : size (lowIf br a) ≤ size a := by
  cases br <;> cases a <;> simp only [lowIf, size] <;> omega
theorem size_highIf_le (br : Bool) (a : Node α) : size (highIf br a) ≤ size a := by
  cases br <;> cases a <;> simp only [highIf, size] <;> omega
theorem size_lowIf_lt {a : Node α} {b : Node β} {c : Node γ} (h : branch3 a b c = true) :
    size (lowIf true a) < size a := by
  cases a with
  | leaf v => simp [branch3] at h
  | node x lo hi => simp only [lowIf, size]; omega
theorem size_highIf_lt {a : Node α} {b : Node β} {c : Node γ} (h : branch3 a b c = true) :
    size (highIf true a) < size a := by
  cases a with
  | leaf v => simp [branch3] at h
  | node x lo hi => simp only [highIf, size]; omega

theorem apply3_dec_lo {a : Node α} {b : Node β} {c : Node γ}
    (h : (branch3 a b c || branch3 b a c || branch3 c a b) = true) :
    size (lowIf (branch3 a b c) a) + size (lowIf (branch3 b a c) b) + size (lowIf (branch3 c a b) c)
      < size a + size b + size c := by
  have la := size_lowIf_le (branch3 a b c) a
  have lb := size_lowIf_le (branch3 b a c) b
  have lc := size_lowIf_le (branch3 c a b) c
  simp only [Bool.or_eq_true] at h
  rcases h with (h | h) | h
  · have := size_lowIf_lt h; rw [h] at *; omega
  · have := size_lowIf_lt h; rw [h] at *; omega
  · have := size_lowIf_lt h; rw [h] at *; omega

theorem apply3_dec_hi {a : Node α} {b : Node β} {c : Node γ}
    (h : (branch3 a b c || branch3 b a c || branch3 c a b) = true) :
    size (highIf (branch3 a b c) a) + size (highIf (branch3 b a c) b) + size (highIf (branch3 c a b) c)
      < size a + size b + size c := by
  have la := size_highIf_le (branch3 a b c) a
  have lb := size_highIf_le (branch3 b a c) b
  have lc := size_highIf_le (branch3 c a b) c
  simp only [Bool.or_eq_true] at h
  rcases h with (h | h) | h
  · have := size_highIf_lt h; rw [h] at *; omega
  · have := size_highIf_lt h; rw [h] at *; omega
  · have := size_highIf_lt h; rw [h] at *; omega

/-- ternary apply; `relation` of the C++ is the triple `(branch3 a b c, branch3 b a c, branch3 c a b)` -/
def apply3 [DecidableEq δ] (f : α → β → γ → δ) (a : Node α) (b : Node β) (c : Node γ) : Node δ :=
  if (branch3 a b c || branch3 b a c || branch3 c a b) = true then
    mk (topVar3 a b c)
      (apply3 f (lowIf (branch3 a b c) a) (lowIf (branch3 b a c) b) (lowIf (branch3 c a b) c))
      (apply3 f (highIf (branch3 a b c) a) (highIf (branch3 b a c) b) (highIf (branch3 c a b) c))
  else .leaf (f (leafVal a) (leafVal b) (leafVal c))
termination_by size a + size b + size c
decreasing_by
  · exact apply3_dec_lo ‹_›
  · exact apply3_dec_hi ‹_›

/-! ## projection and renaming (`projectNode`, `renameNode`) -/

/-- `Project(pred, applyFunc)`, where `applyFunc` is the binary apply with leaf operation `f` -/
def project [DecidableEq α] (pred : Nat → Bool) (f : α → α → α) : Node α → Node α
  | .leaf v => .leaf v
  | .node x lo hi =>
    if pred x then apply2 f (project pred f lo) (project pred f hi)
    else mk x (project pred f lo) (project pred f hi)

/-- projection of the single variable `x` -/
def projectVar [DecidableEq α] (x : Nat) (f : α → α → α) (a : Node α) : Node α :=
  project (fun y => y == x) f a

/-- `Rename(renamer)`: no reduction test is made (the C++ only asserts `lowTree != highTree`) -/
def rename (r : Nat → Nat) : Node α → Node α
  | .leaf v => .leaf v
  | .node x lo hi => .node (r x) (rename r lo) (rename r hi)

/-! ## paths (`GetPaths`) -/

/-- `AddVariablesUpTo(x)`: pad with `DONT_CARE` so that position `x` exists -/
def addUpTo (asgn : List (Option Bool)) (x : Nat) : List (Option Bool) :=
  asgn ++ List.replicate (x + 1 - asgn.length) none

/-- `getPathsRec(list, asgn, node)`, returning the entries pushed to `list` -/
def getPathsRec (asgn : List (Option Bool)) : Node α → List (List (Option Bool) × α)
  | .leaf v => [(asgn, v)]
  | .node x lo hi =>
    getPathsRec ((addUpTo asgn x).set x (some false)) lo ++ getPathsRec ((addUpTo asgn x).set x (some true)) hi

def getPaths (a : Node α) : List (List (Option Bool) × α) := getPathsRec [] a

/-! ## traversals without a result (`VoidApply1Functor`, `VoidApply2Functor`)

The model returns the list of arguments on which `ApplyOperation` is called, in the order of the calls.  The C++
caches the visited node (pairs), so it calls `ApplyOperation` once for each distinct leaf (pair of nodes); the model
lists it once per path.  The two agree as sets. -/

def voidApply1 : Node α → List α
  | .leaf v => [v]
  | .node _ lo hi => voidApply1 lo ++ voidApply1 hi

def voidApply2 : Node α → Node β → List (α × β)
  | .leaf v, .leaf w => [(v, w)]
  | .node _ lo hi, .leaf w => voidApply2 lo (.leaf w) ++ voidApply2 hi (.leaf w)
  | .leaf v, .node _ lo hi => voidApply2 (.leaf v) lo ++ voidApply2 (.leaf v) hi
  | .node x alo ahi, .node y blo bhi =>
    if x = y then voidApply2 alo blo ++ voidApply2 ahi bhi
    else if y < x then voidApply2 alo (.node y blo bhi) ++ voidApply2 ahi (.node y blo bhi)
    else voidApply2 (.node x alo ahi) blo ++ voidApply2 (.node x alo ahi) bhi
termination_by a b => size a + size b
decreasing_by all_goals (simp only [size]; omega)

end Vata.M
