import Vata.Glue
import Vata.LoadDump
import Vata.UnionModel
import Vata.IsectModel
/-!
# What `vata union` / `vata isect` PRINT – executable model of the pipeline of `performOperation` (properties C02 / C08)

`cli/vata.cc`, `performOperation<Aut>` for `COMMAND_UNION` / `COMMAND_INTERSECTION` (explicit tree automata, no pruning option):

```
StateDict stateDict1;  StateDict stateDict2;
autInput1.LoadFromString(parser, ReadFile(args.fileName1), stateDict1, params);
autInput2.LoadFromString(parser, ReadFile(args.fileName2), stateDict2, params);
AutBase::StateToStateMap opTranslMap1;  AutBase::StateToStateMap opTranslMap2;  AutBase::ProductTranslMap prodTranslMap;
autResult = Aut::Union(autInput1, autInput2, &opTranslMap1, &opTranslMap2);          // COMMAND_UNION
autResult = Aut::Intersection(autInput1, autInput2, &prodTranslMap);                 // COMMAND_INTERSECTION
stateDict1 = VATA::Util::CreateUnionStringToStateMap(stateDict1, stateDict2, &opTranslMap1, &opTranslMap2);
stateDict1 = VATA::Util::CreateProductStringToStateMap(stateDict1, stateDict2, prodTranslMap);
std::cout << autResult.DumpToString(serializer, stateDict1);
```

The pieces are the existing models: `loadTA` / `dumpTA` / `parseTimbuk` / `serialize` (`Vata/LoadDump.lean`, `Vata/Timbuk.lean`),
`unionModel` (`Vata/UnionModel.lean`), `isectTD` (`Vata/IsectModel.lean`), `Glue.unionDict` (`Vata/Glue.lean`, the code of
`CreateUnionStringToStateMap` as it is now).  New here:

* `productLoopFixed` / `productDictFixed`: `CreateProductStringToStateMap` AFTER the repair `222cfd8a` (the `while` loop that
  appends `'` until the name is unused).  `Glue.productDict` stays the model of the code BEFORE that repair.
* the two dictionary classes of the development are connected: a load leaves a `Vata.StateDict` (one list of pairs in
  insertion order), the helpers of `src/util.cc` work on a `Glue.StateDict` (the two `std::map`s); `toGlue` / `ofGlue`.
* `cliUnionDesc`, `cliIsectDesc` (description ↦ description of the dump), `cliUnion`, `cliIsect` (description ↦ printed text),
  `cliUnionText`, `cliIsectText` (text ↦ text); `cliIsectOldDesc` with the product names before the repair.

All functions are total and executable.  The only fuel is that of the priming loop (`primeFuel`, proved sufficient:
`primeLoop_fresh`, and immaterial above the bound: `primeLoop_fuel_indep`) and that of `isectTD` (`isectFuel`, proved
sufficient in `Vata/Proofs/IsectModel.lean`).  Theorems: `Vata/Proofs/CliPipeline*.lean`, `Vata/Properties/C02_CliPipeline.lean`.
-/
namespace Vata.CliPipe
open Vata.Glue (Name TwoWayDict prodName)

-- the look-ups of `Vata/Glue.lean` compare keys with `DecidableEq`; use the same instance for names here
attribute [local instance high] instBEqOfDecidableEq

/-! ## 1. `CreateProductStringToStateMap` as repaired -/

/-- the length of the longest key of the map -/
def maxKeyLen (fwd : List (Name × Nat)) : Nat := fwd.foldl (fun a e => max a e.1.length) 0

/-- fuel for the priming loop: a name longer than every key is unused, so `maxKeyLen + 1` rounds are enough -/
def primeFuel (fwd : List (Name × Nat)) : Nat := maxKeyLen fwd + 1

/-- `while (result.FindFwd(prodStateStr) != result.EndFwd()) { prodStateStr += '\''; }` (fuel-indexed; the C++ loop has no
bound, `primeLoop_fresh` shows that the loop has stopped on an unused name when the fuel `primeFuel` is used) -/
def primeLoop (fwd : List (Name × Nat)) : Nat → Name → Name
  | 0, s => s
  | k + 1, s =>
    match fwd.lookup s with
    | none => s
    | some _ => primeLoop fwd k (s ++ ['\''])

/-- the loop `for (auto mapElem : translMap)` of the repaired `CreateProductStringToStateMap` (list order = iteration order of
the hash map); a component without a name: `assert(false)` and then `itLhs->second` with `itLhs == EndBwd()` (undefined
behaviour, `none`).
```
std::string prodStateStr = '[' + itLhs->second + "_1|" + itRhs->second + "_2]";
while (result.FindFwd(prodStateStr) != result.EndFwd()) { prodStateStr += '\''; }
result.insert(std::make_pair(prodStateStr, mapElem.second));
``` -/
def productLoopFixed (l r : Glue.StateDict) : List ((Nat × Nat) × Nat) → Glue.StateDict → Option Glue.StateDict
  | [], res => some res
  | ((p, q), v) :: rest, res =>
    match l.bwd.lookup p, r.bwd.lookup q with
    | some ln, some rn =>
      productLoopFixed l r rest (res.insert (primeLoop res.fwd (primeFuel res.fwd) (prodName ln rn)) v).1
    | _, _ => none

/-- `CreateProductStringToStateMap(lhsCont, rhsCont, translMap)` after `222cfd8a` -/
def productDictFixed (l r : Glue.StateDict) (pm : List ((Nat × Nat) × Nat)) : Option Glue.StateDict :=
  productLoopFixed l r pm TwoWayDict.empty

/-! ## 2. the two dictionary models -/

/-- the `TwoWayDict` a load into an EMPTY dictionary leaves, as the two `std::map`s: the weak translator inserts every new name
with a fresh number, so both maps have exactly the pairs of the list (`Dict.Ok`: distinct names, distinct numbers) -/
def toGlue (sd : Vata.StateDict) : Glue.StateDict :=
  ⟨sd.map (fun e => (e.1.toList, e.2)), sd.map (fun e => (e.2, e.1.toList))⟩

/-- what `DumpToString(serializer, stateDict1)` reads of the dictionary: `stateDict.GetReverseMap()` only
(`TranslatorStrict` over `bwdMap_`) -/
def ofGlue (d : Glue.StateDict) : Vata.StateDict := d.bwd.map (fun e => (String.ofList e.2, e.1))

/-! ## 3. the two commands -/

/-- what the two `LoadFromString` calls leave: both automata with their dictionaries, and the shared alphabet -/
def loadBoth (d₁ d₂ : AutDesc) (yd : SymDict) :
    Except String ((TA × Vata.StateDict) × (TA × Vata.StateDict) × SymDict) :=
  match loadTA d₁ [] yd with
  | .error e => .error e
  | .ok (A, sd₁, yd₁) =>
    match loadTA d₂ [] yd₁ with
    | .error e => .error e
    | .ok (B, sd₂, yd₂) => .ok ((A, sd₁), (B, sd₂), yd₂)

/-- `vata union`: from the two parsed descriptions to the description `DumpToAutDesc` hands to the serializer; `yd` is the
alphabet's dictionary at the start (`[]` in the command line program) -/
def cliUnionDesc (d₁ d₂ : AutDesc) (yd : SymDict) : Except String AutDesc :=
  match loadBoth d₁ d₂ yd with
  | .error e => .error e
  | .ok ((A, sd₁), (B, sd₂), yd₂) =>
    -- `Aut::Union(autInput1, autInput2, &opTranslMap1, &opTranslMap2)` with two empty maps
    let u := unionModel A B [] []
    -- `CreateUnionStringToStateMap(stateDict1, stateDict2, &opTranslMap1, &opTranslMap2)`
    let dict := Glue.unionDict (toGlue sd₁) (toGlue sd₂) (some u.2.1) (some u.2.2)
    dumpTA u.1 (ofGlue dict) yd₂

/-- `vata isect` with a product-dictionary builder as parameter -/
def cliIsectDescWith (mk : Glue.StateDict → Glue.StateDict → List ((Nat × Nat) × Nat) → Option Glue.StateDict)
    (d₁ d₂ : AutDesc) (yd : SymDict) : Except String AutDesc :=
  match loadBoth d₁ d₂ yd with
  | .error e => .error e
  | .ok ((A, sd₁), (B, sd₂), yd₂) =>
    -- `Aut::Intersection(autInput1, autInput2, &prodTranslMap)`
    match isectTDRef A B with
    | none => .error "Intersection: out of fuel"
    | some (P, pm) =>
      -- `CreateProductStringToStateMap(stateDict1, stateDict2, prodTranslMap)`
      match mk (toGlue sd₁) (toGlue sd₂) pm with
      | none => .error "CreateProductStringToStateMap: a component of a product state has no name"
      | some dict => dumpTA P (ofGlue dict) yd₂

/-- `vata isect` as it is now -/
def cliIsectDesc (d₁ d₂ : AutDesc) (yd : SymDict) : Except String AutDesc := cliIsectDescWith productDictFixed d₁ d₂ yd

/-- `vata isect` BEFORE the repair `222cfd8a` (names `[l_1|r_2]` without the priming loop) -/
def cliIsectOldDesc (d₁ d₂ : AutDesc) (yd : SymDict) : Except String AutDesc := cliIsectDescWith Glue.productDict d₁ d₂ yd

/-- the serializer on the result -/
def printed (r : Except String AutDesc) : Except String String :=
  match r with
  | .error e => .error e
  | .ok d => .ok (serialize d)

/-- `vata union`: (description₁, description₂) ↦ the printed text -/
def cliUnion (d₁ d₂ : AutDesc) : Except String String := printed (cliUnionDesc d₁ d₂ [])

/-- `vata isect`: (description₁, description₂) ↦ the printed text -/
def cliIsect (d₁ d₂ : AutDesc) : Except String String := printed (cliIsectDesc d₁ d₂ [])

/-- `vata isect` before the repair -/
def cliIsectOld (d₁ d₂ : AutDesc) : Except String String := printed (cliIsectOldDesc d₁ d₂ [])

/-- both files through the parser, then `f` -/
def onTexts (f : AutDesc → AutDesc → Except String String) (txt₁ txt₂ : String) : Except String String :=
  match parseTimbuk txt₁ with
  | .error e => .error e
  | .ok d₁ =>
    match parseTimbuk txt₂ with
    | .error e => .error e
    | .ok d₂ => f d₁ d₂

/-- `vata union file1 file2`: the contents of the two files ↦ standard output (to be compared with the real program) -/
def cliUnionText : String → String → Except String String := onTexts cliUnion

/-- `vata isect file1 file2`: the contents of the two files ↦ standard output -/
def cliIsectText : String → String → Except String String := onTexts cliIsect

/-! ## tests -/
namespace Test

def dA : AutDesc :=
  { name := "A", symbols := [("a", 0), ("f", 1)], states := ["q", "r"], final := ["r"],
    trans := [([], "a", "q"), (["q"], "f", "r"), (["r"], "f", "r")] }
def dB : AutDesc :=
  { name := "B", symbols := [("a", 0), ("f", 1)], states := ["x", "y"], final := ["y"],
    trans := [([], "a", "x"), (["x"], "f", "y"), (["y"], "f", "x")] }

def okIs (r : Except String String) (s : String) : Bool :=
  match r with
  | .ok x => x == s
  | .error _ => false

#guard okIs (cliUnion dA dB)
  "Ops \nAutomaton anonymous\nStates \nFinal States r_1 y_2 \nTransitions\na -> q_1\na -> x_2\nf(q_1) -> r_1\nf(r_1) -> r_1\nf(x_2) -> y_2\nf(y_2) -> x_2\n"

-- (top-down product: the pair `(q, y)` is discovered from `(r, x)` although no tree reaches it)
#guard okIs (cliIsect dA dB)
  "Ops \nAutomaton anonymous\nStates \nFinal States [r_1|y_2] \nTransitions\na -> [q_1|x_2]\nf([q_1|x_2]) -> [r_1|y_2]\nf([q_1|y_2]) -> [r_1|x_2]\nf([r_1|x_2]) -> [r_1|y_2]\nf([r_1|y_2]) -> [r_1|x_2]\n"

-- the priming loop: the second, third entry with the same old name get one, two primes
#guard (productDictFixed ⟨[("a_1|b".toList, 0), ("a".toList, 1)], [(0, "a_1|b".toList), (1, "a".toList)]⟩
    ⟨[("c".toList, 0), ("b_1|c".toList, 1)], [(0, "c".toList), (1, "b_1|c".toList)]⟩ [((0, 0), 7), ((1, 1), 8), ((0, 0), 9)]).map
      (fun d => d.fwd.map (fun e => (String.ofList e.1, e.2))) ==
  some [("[a_1|b_1|c_2]", 7), ("[a_1|b_1|c_2]'", 8), ("[a_1|b_1|c_2]''", 9)]

end Test

end Vata.CliPipe
