import Vata.Split
import Vata.Properties.Dispatch
/-!
# The command line of the `vata` binary – executable model (supports C01, C07, C09 "every implemented selection")

Line-by-line model of

* `/repo/cli/parse_args.cc`  `parseArguments(argc, argv)` (`parse`, `stepArg`; `parseRaw` is the same loop with the
  `argc` / `argv` arithmetic and every `argv[i]` read made explicit, so that a read past the end is a visible outcome);
* `/repo/cli/operations.hh`  the option handling of `CheckInclusion` (`checkInclusionOpts`: defaults inserted with
  `std::map::insert`, the seven `if / else if / else throw optErrorEx` blocks, the `InclParam` setters of
  `/repo/include/vata/incl_param.hh` on the flag masks REGENERATED from that header – `Vata.Dispatch.fAlg …` are looked up
  in `Vata.Gen.flags`), of `ComputeSimulation`, `ComputeReduction`, `CheckEquiv`;
* `/repo/cli/vata.cc`  `main()` up to the call of `executeCommand` (`mainEarly`: no arguments, parse errors, `help`,
  `version`, with the help text itself) and `performOperation` (`perform`: the `symbolic` option, loading, which commands
  prune with `-p` / `-s`, the command, `-t`, `-n`, which dictionary the dump uses), on the RECORDING automaton type of
  `harness/op_cliargs.inc`: an automaton is the term (a string) describing how it was computed, every library call the CLI
  makes either extends the term or appends an event to a log.

A C++ `std::string` is a `Str = List Char` (one `Char` per byte; the only bytes the code distinguishes are ASCII, and
`std::string::operator<`, used by `std::map`, compares unsigned bytes = code points).  Exceptions: every `throw` of the
three files throws `std::runtime_error`; the model returns its `what()` text as the error of `Except Str`.
Core Lean only; everything is total, structurally recursive and executable (and evaluates by `decide`).
-/
namespace Vata.CliArgs
open Vata.Dispatch (fAlg fDir fCache fRec fSim fOrder fEquiv)

abbrev Str := List Char

/-- (core has no `DecidableEq (Except ε α)`) -/
instance decEqExcept {ε α : Type} [DecidableEq ε] [DecidableEq α] : DecidableEq (Except ε α)
  | .ok a, .ok b => if h : a = b then isTrue (by rw [h]) else isFalse (fun h' => h (Except.ok.inj h'))
  | .error a, .error b => if h : a = b then isTrue (by rw [h]) else isFalse (fun h' => h (Except.error.inj h'))
  | .ok _, .error _ => isFalse (fun h => by cases h)
  | .error _, .ok _ => isFalse (fun h => by cases h)

/-- a string literal as `Str` -/
@[reducible] def lit (x : String) : Str := x.toList

/-! ## `std::string::operator<`, `std::map<std::string, T>` -/

/-- `std::string::operator<`: lexicographic on unsigned bytes -/
def ltStr : Str → Str → Bool
  | [], [] => false
  | [], _ :: _ => true
  | _ :: _, [] => false
  | a :: as, b :: bs => if a.toNat < b.toNat then true else if b.toNat < a.toNat then false else ltStr as bs

/-- `std::map<std::string, β>` as the list of its entries in iteration order (strictly increasing keys) -/
abbrev SMap (β : Type) := List (Str × β)

/-- `std::map::insert(std::make_pair(k, v))`: does NOT overwrite; the Boolean is `.second` ("inserted") -/
def mapInsert {β : Type} (k : Str) (v : β) : SMap β → SMap β × Bool
  | [] => ([(k, v)], true)
  | (k', v') :: m =>
    if k = k' then ((k', v') :: m, false)
    else if ltStr k k' then ((k, v) :: (k', v') :: m, true)
    else ((k', v') :: (mapInsert k v m).1, (mapInsert k v m).2)

/-- `find` -/
def mapFind {β : Type} (m : SMap β) (k : Str) : Option β := (m.find? (fun e => e.1 = k)).map (·.2)

abbrev Options := SMap Str

/-- `options[k]` on a map that is not looked at afterwards: the value, `""` when the key is absent (in every use below
the key is present, because a default was inserted before: `mapGet_insert`) -/
def mapGet (m : Options) (k : Str) : Str := (mapFind m k).getD []

/-- `options.insert(std::make_pair(k, v))` as a statement (result discarded) -/
def withDefault (k v : String) (m : Options) : Options := (mapInsert (lit k) (lit v) m).1

def joinSep (sep : Str) : List Str → Str
  | [] => []
  | [x] => x
  | x :: y :: r => x ++ sep ++ joinSep sep (y :: r)

/-- `Convert::ToString(const std::map<T, U>&)`: `[k -> v, k -> v]` -/
def showOptions (m : Options) : Str :=
  lit "[" ++ joinSep (lit ", ") (m.map (fun e => e.1 ++ lit " -> " ++ e.2)) ++ lit "]"

/-! ## `parse_args.hh` -/

/-- `CommandEnum` (in the order of the enumerators) -/
inductive Command where
  | help | version | load | union | equiv | isect | incl | sim | red | witness | cmpl
deriving DecidableEq, Repr

def Command.code : Command → Nat
  | .help => 0 | .version => 1 | .load => 2 | .union => 3 | .equiv => 4 | .isect => 5 | .incl => 6 | .sim => 7
  | .red => 8 | .witness => 9 | .cmpl => 10

/-- `RepresentationEnum` -/
inductive Rep where
  | bddTd | bddBu | expl | explFa
deriving DecidableEq, Repr

def Rep.code : Rep → Nat
  | .bddTd => 0 | .bddBu => 1 | .expl => 2 | .explFa => 3

/-- `FormatEnum` -/
inductive Format where
  | timbuk
deriving DecidableEq, Repr

def Format.code : Format → Nat
  | .timbuk => 0

/-- `struct Arguments` with the values `parseArguments` initialises it with -/
structure Arguments where
  command : Command := .help
  representation : Rep := .expl
  inputFormat : Format := .timbuk
  outputFormat : Format := .timbuk
  operands : Nat := 0
  fileName1 : Str := []
  fileName2 : Str := []
  showTime : Bool := false
  dontOutputResult : Bool := false
  pruneUnreachable : Bool := false
  pruneUseless : Bool := false
  options : Options := []
  verbose : Bool := false
deriving DecidableEq, Repr

/-! ## `parse_args.cc` -/

/-- `ParsingEnum` -/
inductive PState where
  | command | loadFile | load2Files1 | load2Files2 | done
deriving DecidableEq, Repr

/-- the nine `parsed…` flags -/
structure Seen where
  representation : Bool := false
  inputFormat : Bool := false
  outputFormat : Bool := false
  showTime : Bool := false
  dontOutputRes : Bool := false
  pruneUnreach : Bool := false
  pruneUseless : Bool := false
  options : Bool := false
  verbose : Bool := false
deriving DecidableEq, Repr

/-- the local state of `parseArguments` -/
structure St where
  ps : PState := .command
  seen : Seen := {}
  args : Arguments := {}
deriving DecidableEq, Repr

/-- `translateFormat` -/
def translateFormat (s : Str) : Except Str Format :=
  if s = lit "timbuk" then .ok .timbuk else .error (lit "Unsupported format: " ++ s)

/-- the `-r` argument -/
def translateRep (s : Str) : Except Str Rep :=
  if s = lit "bdd-td" then .ok .bddTd
  else if s = lit "bdd-bu" then .ok .bddBu
  else if s = lit "expl" then .ok .expl
  else if s = lit "expl_fa" then .ok .explFa
  else .error (lit "Unsupported representation: " ++ s)

/-- `processOption`: `find('=')` is the FIRST `=`; `opt` alone gets the value `""` -/
def processOption (o : Str) : Except Str (Str × Str) :=
  if o = [] then .error (lit "Malformed options: '" ++ o ++ lit "'")
  else
    match o.dropWhile (· != '=') with
    | [] => .ok (o, [])
    | _ :: value =>
      if o.takeWhile (· != '=') = [] ∨ value = [] then .error (lit "Malformed option: '" ++ o ++ lit "'")
      else .ok (o.takeWhile (· != '='), value)

/-- the body of the `-o` loop for the pieces between commas, in order: `processOption`, then `options.insert` -/
def insertPieces : List Str → Options → Except Str Options
  | [], m => .ok m
  | p :: ps, m =>
    match processOption p with
    | .error e => .error e
    | .ok (k, v) =>
      if (mapInsert k v m).2 then insertPieces ps (mapInsert k v m).1
      else .error (lit "Option for '" ++ k ++ lit "' specified more than once")

/-- the `-o` argument: `find(',', lastPos)` / `substr` cut it at EVERY comma (`Vata.T.splitDelim`: always at least one
piece, empty pieces included) -/
def parseOptionList (arg : Str) (m : Options) : Except Str Options :=
  insertPieces (Vata.T.splitDelim ',' arg) m

/-! ### the `-o` loop with its index arithmetic explicit -/

/-- `s.find(c, from)`: `none` = `npos` (also when `from > size()`) -/
def findFrom (c : Char) (s : Str) (start : Nat) : Option Nat :=
  if (s.drop start).contains c then some (start + ((s.drop start).takeWhile (· != c)).length) else none

/-- `s.substr(pos, len)`: `none` = `std::out_of_range` (`pos > size()`); `len = none` stands for a length that reaches the
end (`npos - lastPos`, at least `size() - pos` because `size() ≤ max_size() < npos`) -/
def substr (s : Str) (pos : Nat) (len : Option Nat) : Option Str :=
  if pos > s.length then none
  else match len with
    | some n => some ((s.drop pos).take n)
    | none => some (s.drop pos)

/-- outcome of the index-level loop -/
inductive OptRaw where
  | ok (m : Options)
  /-- `std::runtime_error` -/
  | err (msg : Str)
  /-- `substr` threw `std::out_of_range` (a `std::logic_error`, NOT a `runtime_error`) -/
  | outOfRange
  /-- the fuel of the model ran out (not an outcome of the C++) -/
  | fuel
deriving DecidableEq, Repr

def OptRaw.ofExcept : Except Str Options → OptRaw
  | .ok m => .ok m
  | .error e => .err e

/-- `processOption` + `options.insert` for one piece, then `k` -/
def optPiece (piece : Str) (m : Options) (k : Options → OptRaw) : OptRaw :=
  match processOption piece with
  | .error e => .err e
  | .ok (key, v) =>
    if (mapInsert key v m).2 then k (mapInsert key v m).1
    else .err (lit "Option for '" ++ key ++ lit "' specified more than once")

/-- `while ((newPos = currentArg.find(',', lastPos)) != npos) { … substr(lastPos, newPos - lastPos) …; lastPos = newPos + 1; }`
followed by the same for `substr(lastPos, newPos - lastPos)` with `newPos == npos`; the first argument is fuel -/
def optLoopRaw (s : Str) : Nat → Nat → Options → OptRaw
  | 0, _, _ => .fuel
  | fuel + 1, lastPos, m =>
    match findFrom ',' s lastPos with
    | some newPos =>
      match substr s lastPos (some (newPos - lastPos)) with
      | none => .outOfRange
      | some piece => optPiece piece m (fun m' => optLoopRaw s fuel (newPos + 1) m')
    | none =>
      match substr s lastPos none with
      | none => .outOfRange
      | some piece => optPiece piece m .ok

/-- the command words: command, operand count, next parser state -/
def commandWord (s : Str) : Option (Command × Nat × PState) :=
  if s = lit "load" then some (.load, 1, .loadFile)
  else if s = lit "witness" then some (.witness, 1, .loadFile)
  else if s = lit "cmpl" then some (.cmpl, 1, .loadFile)
  else if s = lit "union" then some (.union, 2, .load2Files1)
  else if s = lit "isect" then some (.isect, 2, .load2Files1)
  else if s = lit "sim" then some (.sim, 1, .loadFile)
  else if s = lit "red" then some (.red, 1, .loadFile)
  else if s = lit "incl" then some (.incl, 2, .load2Files1)
  else if s = lit "equiv" then some (.equiv, 2, .load2Files1)
  else none

/-- what one iteration of the `while (argc > 0)` loop does -/
inductive Step where
  /-- `break` -/
  | brk (st : St)
  /-- one element consumed -/
  | one (st : St)
  /-- two elements consumed (a flag and its argument) -/
  | two (st : St)
  /-- `throw std::runtime_error(msg)` -/
  | err (msg : Str)
deriving DecidableEq, Repr

/-- the `if (currentArg[0] == '-') { if … else if … }` chain as a classification of the element.
`currentArg[0]`: for the empty string `operator[](0)` is the terminating NUL (C++11), i.e. not a flag. -/
inductive Tok where
  /-- `-h`, `--help` -/
  | help
  /-- `-v`, `--version` -/
  | version
  /-- `-t` -/
  | showTime
  /-- `-V` -/
  | verbose
  /-- `-p` -/
  | pruneUnreach
  /-- `-s` -/
  | pruneUseless
  /-- `-n` -/
  | dontOutput
  /-- `-r` -/
  | repr
  /-- `-I` -/
  | inFmt
  /-- `-O` -/
  | outFmt
  /-- `-F` -/
  | bothFmt
  /-- `-o` -/
  | opts
  /-- any other string starting with `-` -/
  | badFlag
  /-- a string not starting with `-` (the empty string included) -/
  | word
deriving DecidableEq, Repr

def classify (cur : Str) : Tok :=
  if cur.head? = some '-' then
    if cur = lit "-h" ∨ cur = lit "--help" then .help
    else if cur = lit "-v" ∨ cur = lit "--version" then .version
    else if cur = lit "-t" then .showTime
    else if cur = lit "-V" then .verbose
    else if cur = lit "-p" then .pruneUnreach
    else if cur = lit "-s" then .pruneUseless
    else if cur = lit "-n" then .dontOutput
    else if cur = lit "-r" then .repr
    else if cur = lit "-I" then .inFmt
    else if cur = lit "-O" then .outFmt
    else if cur = lit "-F" then .bothFmt
    else if cur = lit "-o" then .opts
    else .badFlag
  else .word

/-- a flag that takes an argument and whose "specified more times" test passes: the iteration then does
`--argc; ++argv; if (argc == 0) throw …; … argv[0]` -/
def readsNext (cur : Str) (st : St) : Bool :=
  match classify cur with
  | .repr => !st.seen.representation
  | .inFmt => !st.seen.inputFormat
  | .outFmt => !st.seen.outputFormat
  | .bothFmt => !(st.seen.inputFormat || st.seen.outputFormat)
  | .opts => !st.seen.options
  | _ => false

/-- the argument of a flag: `none` = `argc == 0` after the decrement -/
def flagArg (needsArg : Str) (next : Option Str) (k : Str → Step) : Step :=
  match next with
  | none => .err needsArg
  | some a => k a

/-- the non-flag branch -/
def stepWord (cur : Str) (st : St) : Step :=
  match st.ps with
  | .command =>
    if cur = lit "help" then .brk { st with ps := .done, args := { st.args with command := .help } }
    else if cur = lit "version" then .brk { st with ps := .done, args := { st.args with command := .version } }
    else match commandWord cur with
      | some (c, n, ps) => .one { st with ps := ps, args := { st.args with command := c, operands := n } }
      | none => .err (lit "Unknown command: " ++ cur)
  | .loadFile => .one { st with ps := .done, args := { st.args with fileName1 := cur } }
  | .load2Files1 => .one { st with ps := .load2Files2, args := { st.args with fileName1 := cur } }
  | .load2Files2 => .one { st with ps := .done, args := { st.args with fileName2 := cur } }
  | .done => .err (lit "Invalid command line arguments: " ++ cur)

/-- one iteration: `cur` = `argv[0]`, `next` = the element after it if there is one -/
def stepArg (cur : Str) (next : Option Str) (st : St) : Step :=
  match classify cur with
  | .help => .brk { st with ps := .done, args := { st.args with command := .help } }
  | .version => .brk { st with ps := .done, args := { st.args with command := .version } }
  | .showTime =>
    if st.seen.showTime then .err (lit "The '-t' flag specified more times.")
    else .one { st with seen := { st.seen with showTime := true }, args := { st.args with showTime := true } }
  | .verbose =>
    if st.seen.verbose then .err (lit "The '-V' flag specified more times.")
    else .one { st with seen := { st.seen with verbose := true }, args := { st.args with verbose := true } }
  | .pruneUnreach =>
    if st.seen.pruneUnreach then .err (lit "The '-p' flag specified more times.")
    else .one { st with seen := { st.seen with pruneUnreach := true }, args := { st.args with pruneUnreachable := true } }
  | .pruneUseless =>
    if st.seen.pruneUseless then .err (lit "The '-s' flag specified more times.")
    else .one { st with seen := { st.seen with pruneUseless := true }, args := { st.args with pruneUseless := true } }
  | .dontOutput =>
    if st.seen.dontOutputRes then .err (lit "The '-n' flag specified more times.")
    else .one { st with seen := { st.seen with dontOutputRes := true }, args := { st.args with dontOutputResult := true } }
  | .repr =>
    if st.seen.representation then .err (lit "The '-r' flag specified more times.")
    else flagArg (lit "The '-r' flag needs an argument.") next fun a =>
      match translateRep a with
      | .error e => .err e
      | .ok r => .two { st with seen := { st.seen with representation := true }, args := { st.args with representation := r } }
  | .inFmt =>
    if st.seen.inputFormat then .err (lit "Invalid use of the '-I' flag.")
    else flagArg (lit "The '-I' flag needs an argument.") next fun a =>
      match translateFormat a with
      | .error e => .err e
      | .ok f => .two { st with seen := { st.seen with inputFormat := true }, args := { st.args with inputFormat := f } }
  | .outFmt =>
    if st.seen.outputFormat then .err (lit "Invalid use of the '-O' flag.")
    else flagArg (lit "The '-O' flag needs an argument.") next fun a =>
      match translateFormat a with
      | .error e => .err e
      | .ok f => .two { st with seen := { st.seen with outputFormat := true }, args := { st.args with outputFormat := f } }
  | .bothFmt =>
    if st.seen.inputFormat || st.seen.outputFormat then .err (lit "Invalid use of the '-F' flag.")
    else flagArg (lit "The '-F' flag needs an argument.") next fun a =>
      match translateFormat a with
      | .error e => .err e
      | .ok f => .two { st with seen := { st.seen with inputFormat := true, outputFormat := true },
                                args := { st.args with inputFormat := f, outputFormat := f } }
  | .opts =>
    if st.seen.options then .err (lit "The '-o' flag specified more times.")
    else flagArg (lit "The '-o' flag needs an argument.") next fun a =>
      match parseOptionList a st.args.options with
      | .error e => .err e
      | .ok m => .two { st with seen := { st.seen with options := true }, args := { st.args with options := m } }
  | .badFlag => .err (lit "Invalid flag: " ++ cur)
  | .word => stepWord cur st

/-- after the loop -/
def finish (st : St) : Except Str Arguments :=
  if st.ps = .done then .ok st.args else .error (lit "Invalid input arguments.")

/-- the loop over the remaining arguments -/
def parseLoop : List Str → St → Except Str Arguments
  | [], st => finish st
  | [cur], st =>
    match stepArg cur none st with
    | .brk st' => finish st'
    | .one st' => finish st'
    | .two st' => finish st'          -- not reachable: `.two` is only produced when `next` is `some`
    | .err m => .error m
  | cur :: nxt :: rest, st =>
    match stepArg cur (some nxt) st with
    | .brk st' => finish st'
    | .one st' => parseLoop (nxt :: rest) st'
    | .two st' => parseLoop rest st'
    | .err m => .error m

/-- `parseArguments(argc, argv)` with `argv[0 .. argc)` = the list -/
def parse (argv : List Str) : Except Str Arguments := parseLoop argv {}

/-! ### the same loop on `argc` / `argv` with explicit reads -/

/-- outcome of the pointer-level loop -/
inductive Raw where
  | ok (a : Arguments)
  /-- `std::runtime_error` -/
  | err (msg : Str)
  /-- `argv[i]` was read for an `i` outside `[0, length)` -/
  | outOfBounds (i : Nat)
deriving DecidableEq, Repr

def Raw.ofExcept : Except Str Arguments → Raw
  | .ok a => .ok a
  | .error e => .err e

/-- `argc` is the first argument (it decreases), `pos` the number of `++argv` executed so far; `argv[0]` of the C++ is
`argv[pos]` here -/
def parseRaw (argv : List Str) : Nat → Nat → St → Raw
  | 0, _, st => .ofExcept (finish st)
  | n + 1, pos, st =>
    match argv[pos]? with
    | none => .outOfBounds pos
    | some cur =>
      if readsNext cur st then
        -- `--argc; ++argv; if (argc == 0) throw; … argv[0] …` and at the end of the iteration `--argc; ++argv`
        match n with
        | 0 => match stepArg cur none st with
          | .err m => .err m
          | _ => .outOfBounds (pos + 1)    -- not reachable (`stepArg_readsNext_none`)
        | m + 1 =>
          match argv[pos + 1]? with
          | none => .outOfBounds (pos + 1)
          | some a =>
            match stepArg cur (some a) st with
            | .brk st' => .ofExcept (finish st')
            | .one st' => parseRaw argv (m + 1) (pos + 1) st'
            | .two st' => parseRaw argv m (pos + 2) st'
            | .err e => .err e
      else
        match stepArg cur none st with
        | .brk st' => .ofExcept (finish st')
        | .one st' => parseRaw argv n (pos + 1) st'
        | .two st' => parseRaw argv n (pos + 1) st'   -- not reachable (`stepArg_not_readsNext`)
        | .err e => .err e

/-! ## `incl_param.hh`: the option word -/

/-- `flags_ |= mask` / `flags_ &= ~mask` on `unsigned` (32 bits) -/
def setFlag (w mask : Nat) (on : Bool) : Nat :=
  if on then w ||| mask else w &&& (0xFFFFFFFF ^^^ mask)

/-- the parameters `CheckInclusion` derives from the options -/
structure InclChoice where
  /-- `alg=congr` -/
  congr : Bool
  /-- `dir=down` -/
  down : Bool
  /-- `rec=yes` -/
  recursive : Bool
  /-- `optC=yes` -/
  cache : Bool
  /-- `sim=yes` -/
  sim : Bool
  /-- `order=breadth` -/
  breadth : Bool
  /-- `timeS=yes` (`incl_sim_time`) -/
  timeS : Bool
deriving DecidableEq, Repr

/-- the setter calls in the order of `CheckInclusion`, on `InclParam()` (`flags_ = 0`): `ip.GetOptions()` -/
def InclChoice.word (c : InclChoice) : Nat :=
  let w := setFlag 0 fAlg c.congr            -- SetAlgorithm
  let w := setFlag w fDir c.down             -- SetDirection
  let w := setFlag w fRec c.recursive        -- SetUseRecursion
  let w := setFlag w fCache c.cache          -- SetUseDownwardCacheImpl
  let w := setFlag w fSim c.sim              -- SetUseSimulation
  setFlag w fOrder c.breadth                 -- SetSearchOrder

/-! ## `operations.hh` -/

/-- one `if (options[k] == a) … else if (options[k] == b) … else { throw optErrorEx; }` block: `false` for `a` -/
def choose (m : Options) (k a b : String) (err : Str) : Except Str Bool :=
  if mapGet m (lit k) = lit a then .ok false
  else if mapGet m (lit k) = lit b then .ok true
  else .error err

/-- the defaults `CheckInclusion` inserts (`insert` does not overwrite what `-o` gave) -/
def inclDefaults (m : Options) : Options :=
  withDefault "order" "depth" (withDefault "alg" "antichains" (withDefault "rec" "no" (withDefault "timeS" "yes"
    (withDefault "optC" "no" (withDefault "dir" "up" (withDefault "sim" "no" m))))))

/-- the option handling of `CheckInclusion`: the argument is `args.options` -/
def checkInclusionOpts (opts : Options) : Except Str InclChoice :=
  let m := inclDefaults opts
  let err := lit "Invalid options for inclusion: " ++ showOptions m
  (choose m "alg" "antichains" "congr" err).bind fun congr =>
  (choose m "dir" "up" "down" err).bind fun down =>
  (choose m "rec" "no" "yes" err).bind fun recursive =>
  (choose m "optC" "no" "yes" err).bind fun cache =>
  (choose m "sim" "no" "yes" err).bind fun sim =>
  (choose m "order" "depth" "breadth" err).bind fun breadth =>
  (choose m "timeS" "no" "yes" err).bind fun timeS =>
  .ok ⟨congr, down, recursive, cache, sim, breadth, timeS⟩

/-- `SimParam::e_sim_relation` as a number -/
def relDown : Nat := 0
def relUp : Nat := 1
def relFwd : Nat := 2
def relBwd : Nat := 3

/-- the option handling of `ComputeSimulation`: the relation -/
def computeSimulationOpts (opts : Options) : Except Str Nat :=
  let m := withDefault "dir" "down" opts
  let d := mapGet m (lit "dir")
  if d = lit "up" then .ok relUp
  else if d = lit "down" then .ok relDown
  else if d = lit "fwd" then .ok relFwd
  else if d = lit "bwd" then .ok relBwd
  else .error (lit "Invalid options for simulation: " ++ showOptions m)

/-- the option handling of `ComputeReduction`: `ok ()` = `aut.Reduce()` is called -/
def computeReductionOpts (opts : Options) : Except Str Unit :=
  let m := withDefault "dir" "down" opts
  let d := mapGet m (lit "dir")
  if d = lit "up" then .error (lit "Unimplemented.")
  else if d = lit "down" then .ok ()
  else .error (lit "Invalid options for simulation: " ++ showOptions m)

/-- `CheckEquiv`: builds the word `CONGR_{DEPTH,BREADTH}_EQUIV_NOSIM`, then throws unconditionally; the value is the
`what()` of the exception and, when the options were accepted, the word that was built -/
def checkEquivOpts (opts : Options) : Str × Option Nat :=
  let m := withDefault "order" "depth" opts
  match choose m "order" "depth" "breadth" (lit "Invalid options for equivalence: " ++ showOptions m) with
  | .error e => (e, none)
  | .ok breadth =>
    (lit "Equivalence not implemented", some (setFlag (setFlag (setFlag 0 fEquiv true) fAlg true) fOrder breadth))

/-! ## `vata.cc`: `performOperation` on the recording automaton -/

def natStr (n : Nat) : Str := (toString n).toList

/-- a run of `performOperation` inside the `try` of `main()` -/
structure Run where
  /-- events in order: `rd(file)` (`ReadFile`), `ld(content,params)` (`LoadFromString`), `sim(aut,relation,numStates)`
  (`ComputeSimulation`), `incl(smaller,bigger,word)` (`CheckInclusion`) -/
  log : List Str := []
  /-- standard output -/
  out : Str := []
  /-- `-t` wrote the time to the error stream -/
  timed : Bool := false
  /-- `what()` of the exception that left `performOperation` -/
  exc : Option Str := none
deriving DecidableEq, Repr

def fn (name : String) (args : List Str) : Str := lit name ++ lit "(" ++ joinSep (lit ",") args ++ lit ")"

/-- the state dictionaries (forward maps) -/
abbrev Dict := SMap Nat

def showDict (d : Dict) : Str := joinSep (lit ",") (d.map (fun e => e.1 ++ lit ">" ++ natStr e.2))

/-- `DumpToString(serializer, dict)` / `DumpToString(serializer)` of the recording automaton -/
def dumpWith (t : Str) (d : Dict) : Str := lit "dump(" ++ t ++ lit ";" ++ showDict d ++ lit ")\n"
def dumpPlain (t : Str) : Str := lit "dump(" ++ t ++ lit ")\n"

/-- the commands for which `-s` / `-p` have an effect -/
def prunes : Command → Bool
  | .load | .union | .cmpl | .isect | .red => true
  | _ => false

/-- `CheckInclusion<Rec>(smaller, bigger, args)`: the events, or the exception -/
def runInclusion (t1 t2 : Str) (opts : Options) : Except Str (List Str) :=
  match checkInclusionOpts opts with
  | .error e => .error e
  | .ok c =>
    -- SanitizeAutsForInclusion: RemoveUselessStates + ReindexStates on both; two states allocated
    let s := fn "ri" [fn "us" [t1]]
    let b := fn "ri" [fn "us" [t2]]
    let u := fn "udisj" [s, b]
    -- `if (ip.GetUseSimulation())`: with the congruence algorithm `smaller` is REPLACED by the union and the simulation
    -- is computed on the default-constructed `unionAut`; otherwise on the union
    let s' := if c.sim && c.congr then u else s
    let simEv := if c.sim then [fn "sim" [if c.congr then lit "0" else u, natStr (if c.down then relDown else relUp), natStr 2]] else []
    .ok (simEv ++ [fn "incl" [s', b, natStr c.word]])

/-- `performOperation<Rec>` -/
def perform (a : Arguments) : Run :=
  let opts := withDefault "symbolic" "no" a.options
  let sym := mapGet opts (lit "symbolic")
  if sym ≠ lit "yes" ∧ sym ≠ lit "no" then { exc := some (lit "Invalid options: " ++ showOptions opts) } else
  let params : Str := if sym = lit "yes" then lit "symbolic" else []
  -- loading
  let ld (f : Str) : Str := fn "ld" [f, params]
  let has1 := decide (a.operands ≥ 1)
  let has2 := decide (a.operands ≥ 2)
  let t1 : Str := if has1 then ld a.fileName1 else lit "0"
  let t2 : Str := if has2 then ld a.fileName2 else lit "0"
  let dict1 : Dict := if has1 then [(a.fileName1, 0)] else []
  let dict2 : Dict := if has2 then [(a.fileName2, 0)] else []
  let log : List Str := (if has1 then [fn "rd" [a.fileName1], t1] else []) ++ (if has2 then [fn "rd" [a.fileName2], t2] else [])
  -- pruning
  let pr (has : Bool) (t : Str) : Str :=
    if prunes a.command && has then
      (if a.pruneUseless then fn "us" [t] else if a.pruneUnreachable then fn "ur" [t] else t)
    else t
  let t1 := pr has1 t1
  let t2 := pr has2 t2
  -- the command: result term, extra events, or an exception
  let r : Except Str (Str × List Str) :=
    match a.command with
    | .load => .ok (t1, [])
    | .witness => .ok (fn "cand" [t1], [])
    | .cmpl => .ok (fn "cmpl" [t1], [])
    | .union => .ok (fn "union" [t1, t2], [])
    | .isect => .ok (fn "isect" [t1, t2], [])
    | .incl => (runInclusion t1 t2 a.options).map (fun ev => (lit "0", ev))
    | .equiv => .error (checkEquivOpts a.options).1
    | .sim => (computeSimulationOpts a.options).map (fun rel => (lit "0", [fn "sim" [fn "ri" [t1], natStr rel, natStr 1]]))
    | .red => (computeReductionOpts a.options).map (fun _ => (fn "red" [t1], []))
    | .help | .version => .error (lit "Internal error: invalid command")
  match r with
  | .error e => { log := log, exc := some e }
  | .ok (res, ev) =>
    let out : Str :=
      if a.dontOutputResult then [] else
      match a.command with
      | .load | .witness | .red => dumpWith res dict1
      | .cmpl => if a.representation ≠ .explFa then dumpPlain res else dumpWith res dict1
      | .union =>
        -- CreateUnionStringToStateMap with the translation maps {0->0}, {0->1} the recording `Union` fills in
        dumpWith res ((dict2.map (fun e => (e.1 ++ lit "_2", 1))).foldl (fun d e => (mapInsert e.1 e.2 d).1)
          ((dict1.map (fun e => (e.1 ++ lit "_1", 0))).foldl (fun d e => (mapInsert e.1 e.2 d).1) []))
      | .isect =>
        -- CreateProductStringToStateMap with the product map {(0,0)->0} (both dictionaries hold their file name at 0)
        dumpWith res [(lit "[" ++ a.fileName1 ++ lit "_1|" ++ a.fileName2 ++ lit "_2]", 0)]
      | .incl | .equiv => lit "1\n"
      | .sim =>
        -- translMap1 = {0->0} (one state allocated by ReindexStates); the empty relation prints as `{}`
        (match dict1 with
          | (k, _) :: _ => lit "0: " ++ k ++ lit ", "
          | [] => []) ++ lit "\n" ++ lit "{}" ++ lit "\n"
      | .help | .version => []
    { log := log ++ ev, out := out, timed := a.showTime }

/-! ## `vata.cc`: the help text and `main()` before `executeCommand` -/

/-- `VATA_USAGE_STRING`, one element per source line of the literal (transcribed mechanically from /repo/cli/vata.cc; the
`cliargs` cases `help` compare the concatenation with what the real `main()` prints) -/
def usageString : List String := [
  "VATA: VATA Tree Automata library interface\n",
  "usage: vata [-r <representation>] [(-I|-O|-F) <format>] [-h|--help] [-t] [-n]\n",
  "            [-v|--version] [(-p|-s)] [-V] [-o <options>] <command> [<args>]\n"
]

/-- `VATA_USAGE_COMMANDS`, one element per source line of the literal (transcribed mechanically from /repo/cli/vata.cc; the
`cliargs` cases `help` compare the concatenation with what the real `main()` prints) -/
def usageCommands : List String := [
  "\nThe following commands are supported:\n",
  "    help                    Display this message\n",
  "    version                 Display version\n",
  "    load    <file>          Load automaton from <file>\n",
  "    witness <file>          Get a string from the language of the automaton in <file>\n",
  "    cmpl    <file>          Complement automaton from <file> [experimental]\n",
  "    union <file1> <file2>   Compute union of automata from <file1> and <file2>\n",
  "    isect <file1> <file2>   Compute intersection of automata from <file1> and <file2>\n",
  "    sim <file>              Computes a simulation relation for the automaton in <file>\n",
  "      Options: tree automata: 'dir=down' : downward simulation (default)\n",
  "                              'dir=up'   : upward simulation\n",
  "               finite automata: 'dir=fwd'  : forward simulation (default)\n",
  "                                'dir=bwd'  : backward simulation\n",
  "    red <file>   Reduces the automaton in <file> using simulation relation\n",
  "      Options: 'dir=down' : downward simulation (default)\n",
  "               'dir=up'   : upward simulation\n",
  "    equiv <file1> <file2>   Checks whether L(<file1>) == L(<file2>)\n",
  "      Options: 'order=depth': use depth-first search for congruence algorithm (default)\n",
  "               'order=breadth': use breadth-first search for congruence algorithm\n",
  "    incl <file1> <file2>    Checks whether L(<file1>) <= L(<file2>)\n",
  "      Options: 'alg=antichains' : use an antichain-based algorithm (default)\n",
  "               'alg=congr'      : use a bisimulation up-to congruence algorithm\n",
  "               'dir=down' : downward inclusion checking\n",
  "               'dir=up'   : upward inclusion checking (default)\n",
  "               'sim=yes'  : use corresponding simulation\n",
  "               'sim=no'   : do not use simulation (default)\n",
  "               'order=depth': use depth-first search for congruence algorithm (default)\n",
  "               'order=breadth': use breadth-first search for congruence algorithm\n",
  "               'optC=yes' : use optimised cache for downward direction\n",
  "               'optC=no'  : without optimised cache (default)\n",
  "               'rec=no'   : recursive version of the algorithm (default)\n",
  "               'rec=yes'  : non-recursive version of the algorithm\n",
  "               'timeS=yes': include time of simulation computation (default)\n",
  "               'timeS=no' : do not include time of simulation computation\n",
  "\nGeneral options:\n",
  "               'symbolic=no'  : use explicit encoding of input file\n",
  "               'symbolic=yes' : use symbolic encoding of input file\n"
]

/-- `VATA_USAGE_FLAGS`, one element per source line of the literal (transcribed mechanically from /repo/cli/vata.cc; the
`cliargs` cases `help` compare the concatenation with what the real `main()` prints) -/
def usageFlags : List String := [
  "\nOptions:\n",
  "    -h, --help            Display this message\n",
  "    -v, --version         Display version\n",
  "    -r <representation>   Use <representation> for internal storage of automata\n",
  "       Choices: 'expl'   : explicit (default)\n",
  "                'bdd-td' : binary decision diagrams, top-down\n",
  "                'bdd-bu' : binary decision diagrams, bottom-up\n",
  "                'expl_fa': explicit finite automata\n",
  "    (-I|-O|-F) <format>     Specify format for input (-I), output (-O), or both (-F)\n",
  "       Formats: 'timbuk'  : Timbuk format (default)\n",
  "    -t                      Print the time the operation took to error output stream\n",
  "    -V                      Be verbose\n",
  "    -n                      Do not output the result automaton\n",
  "    -p                      Prune unreachable states first\n",
  "    -s                      Prune useless states first (stronger than -p)\n",
  "    -o <opt>=<v>,<opt>=<v>  Options in the form of a comma-separated <option>=<value> list"
]

def concatLit (l : List String) : Str := (l.map String.toList).flatten

/-- what `main()` returned and printed -/
structure MainOut where
  code : Nat
  out : Str
  err : Str
deriving DecidableEq, Repr

/-- `printHelp(full)` -/
def helpText (full : Bool) : Str :=
  concatLit usageString ++ (if full then concatLit usageCommands ++ concatLit usageFlags ++ lit "\n" else [])

/-- `main(argc, argv)` with `argv[1 .. argc)` = the list, `describe` = `VATA_GIT_DESCRIBE`: `some` when it returns before
`executeCommand` is reached (no arguments at all; `parseArguments` threw; `help`; `version`), `none` otherwise -/
def mainEarly (describe : Str) (argv : List Str) : Option MainOut :=
  if argv = [] then some ⟨0, helpText false, []⟩
  else match parse argv with
    | .error m => some ⟨1, helpText false, lit "An error occured while parsing arguments: " ++ m ++ lit "\n"⟩
    | .ok a =>
      if a.command = .help then some ⟨0, helpText true, []⟩
      else if a.command = .version then some ⟨0, lit "VATA version " ++ describe ++ lit "\n", []⟩
      else none

/-! ## which dispatcher a representation uses -/

/-- the dispatch table (regenerated from /repo's sources) of the `CheckInclusion` of a representation -/
def table : Rep → List Vata.Gen.Case
  | .expl => Vata.Gen.explDispatch
  | .bddTd => Vata.Gen.tdDispatch
  | .bddBu => Vata.Gen.buDispatch
  | .explFa => Vata.Gen.faDispatch

/-- the `switch (params.GetOptions())` of a representation has a `case` for the word (otherwise `default:` throws
`NotImplementedException`, `Vata.Dispatch.default_throws`) -/
def implemented (r : Rep) (w : Nat) : Bool := (Vata.Dispatch.words (table r)).contains w

/-- the argument of `-o` that spells out the seven inclusion options for a choice -/
def optionString (c : InclChoice) : Str :=
  lit "alg=" ++ (if c.congr then lit "congr" else lit "antichains") ++
  lit ",dir=" ++ (if c.down then lit "down" else lit "up") ++
  lit ",rec=" ++ (if c.recursive then lit "yes" else lit "no") ++
  lit ",optC=" ++ (if c.cache then lit "yes" else lit "no") ++
  lit ",sim=" ++ (if c.sim then lit "yes" else lit "no") ++
  lit ",order=" ++ (if c.breadth then lit "breadth" else lit "depth") ++
  lit ",timeS=" ++ (if c.timeS then lit "yes" else lit "no")

end Vata.CliArgs
