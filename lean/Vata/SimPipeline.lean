import Vata.TaLts
import Vata.LtsEngine
import Vata.BinRel
/-!
# `ComputeSimulation` and `Reduce` end to end, as coded (properties C04, C05, C16): executable models

Core Lean only (definitions and `#guard` self-tests); the theorems are in `Vata/Proofs/SimPipeline.lean`, the property
corollaries in `Vata/Properties/C04_Pipeline.lean` and `Vata/Properties/C05_Pipeline.lean`.

The pieces that exist separately are composed the way `src/explicit_tree_sim.cc` and `ExplicitTreeAutCore::Reduce`
(`src/explicit_tree_aut_core.cc`) compose them:

* `ComputeDownwardSimulation(size)`: a FRESH `StateToStateTranslWeak` (`translMap`, numbering `0, 1, 2, …` in the order of
  the first look-up: `downOrder`), `TranslateDownward(size, transl)` (`TaLts.translateDownward`, here in the form
  `translateDownwardFast` that computes the tables once; the two are equal by `rfl`),
  `lts.computeSimulation(size)` – the ENGINE MODEL `LE.computeSimulation1` (one block, full relation), not its
  specification –, and `StateDiscontBinaryRelation(ltsSim, translMap)` (`simDisc`: the matrix `buildResult` fills,
  `resultMat`, plus the dictionary built from `translMap`).
* `ComputeUpwardSimulation(size)`: fresh translator (`upOrder`), `TranslateUpward(partition, relation, Identity(size),
  transl)` (`TaLts.translateUpward`, the repaired code; `translateUpwardFast`), `lts.computeSimulation(partition, relation, size)`
  (`LE.computeSimulation`), `StateDiscontBinaryRelation(ltsSim, translMap)`.
* `Reduce`: `BuildStateIndex` (only its counter is used: `stateCnt` = the number of states = `A.states.length`),
  `SetNumStates(stateCnt)`, `ComputeSimulation`, `sim.RestrictToSymmetric()` and `sim.GetQuotientProjection(collapseMap)`
  of the CLASS model of `Vata/BinRel.lean` (`Disc.restrictToSymmetric`, `Disc.quotProj`: flat `std::vector<bool>`,
  two-way dictionary), `CollapseStates(collapseMap)` (`reindex`) and `RemoveUnreachableStates` (`removeUnreachable`) – in
  this order, which is the order of the code (there is no `RemoveUselessStates` in `Reduce`).

The numberings "in order of first encounter" follow the order of `A.rules` (hash order in the C++); the theorems hold
for every `A`, hence for every order of the rules.  `none` = the engine model ran out of its internal fuel (never
happens: `computeSimDown_total`, `computeSimUp_total`, `reduceAsCoded_total`) or a dictionary look-up of
`GetQuotientProjection` failed (never happens either).  Compiled, an automaton with 8 states and 26 rules takes 1.5–2 ms per
call (the engine model dominates).
-/
namespace Vata.SimPipe
open Vata Vata.TaLts Vata.BinRel

/-- the states in the order in which `ComputeDownwardSimulation` → `TranslateDownward` looks them up in the fresh
translator: the final states, then per rule the parent and the child of a unary rule, then (loop over `lhsMap`) the
components of the tuples of length `≠ 1` -/
def downOrder (A : TA) : List Nat :=
  dedupG (A.final ++ A.rules.flatMap (fun ρ => ρ.parent :: (if ρ.kids.length = 1 then ρ.kids else [])) ++
    (lhsList A).flatten)

/-- … of `ComputeUpwardSimulation` → `TranslateUpward`: first loop the states that own a rule (they get `0 … N-1`), second
loop the children.  A final state that occurs in no rule is never looked up. -/
def upOrder (A : TA) : List Nat := dedupG (parents A ++ A.rules.flatMap Rule.kids)

/-- `stateIndex[q]` for the translator that met the states in the order `order` -/
def idxOf (order : List Nat) (q : Nat) : Nat := pos q order

/-- `translMap` after the translation: (state, index) -/
def translPairs (order : List Nat) : List (Nat × Nat) := order.zipIdx

/-- the `BinaryRelation` that `SimulationEngine::buildResult(result, size)` fills: a default-constructed relation
(`rowSize_ = 16`), `resize(size)`, then `set(r, s, true)` for the pairs in the order of the engine model -/
def resultMat (size : Nat) (R : L.Rel) : Mat :=
  R.foldl (fun m p => m.set p.1 p.2 true) ((Mat.mk' 0 false 16).resize size false)

/-- `StateDiscontBinaryRelation(ltsSim, translMap)` -/
def simDisc (order : List Nat) (size : Nat) (R : L.Rel) : Disc :=
  Disc.ofRel (resultMat size R) (Dict.ofList (translPairs order))

/-- the pairs of a `DiscontBinaryRelation`: all `(x, y)` over the dictionary with `get(x, y)` (what `ToString` prints, here as
a list in the dictionary's insertion order) -/
def discRel (d : Disc) : Rel :=
  (d.dict.fwd.flatMap (fun p => d.dict.fwd.map (fun q => (p.1, q.1)))).filter (fun pq =>
    match d.get pq.1 pq.2 with
    | .ok b => b
    | .error _ => false)

/-- `TaLts.translateDownward` with the tables (`symbolMap`, `lhsMap`) computed once – the same function
(`translateDownwardFast_eq` is `rfl`), linear instead of quadratic look-ups for the compiled driver -/
def translateDownwardFast (A : TA) (numStates : Nat) (idx : Nat → Nat) : L.LTS :=
  let syms := symList A
  let lhs := lhsList A
  let node : List Nat → Nat := fun t => numStates + pos t lhs
  let dest : List Nat → Nat := fun ks =>
    match ks with
    | [p] => idx p
    | ks => node ks
  let edges := A.rules.map (fun ρ => (idx ρ.parent, pos ρ.sym syms, dest ρ.kids)) ++
    lhs.flatMap (fun t => t.zipIdx.map (fun pi => (node t, syms.length + pi.2, idx pi.1)))
  ⟨ltsSize numStates edges, edges⟩

/-- `TaLts.translateUpward` with the tables (`symbolMap`, `envMap`, `head`) computed once – the same function
(`translateUpwardFast_eq` is `rfl`) -/
def translateUpwardFast (A : TA) (idx : Nat → Nat) : L.LTS × List (List Nat) × Rel :=
  let syms := symList A
  let par := parents A
  let N := par.length
  let mk : Rule → Nat → Env := fun ρ i => ⟨ρ.kids.eraseIdx i, i, pos ρ.sym syms, idx ρ.parent⟩
  let envs := dedupG (A.rules.flatMap (fun ρ =>
    if ρ.kids.length ≤ 1 then [] else (List.range ρ.kids.length).map (mk ρ)))
  let node : Env → Nat := fun e => N + 1 + pos e envs
  let H := dedupG (envs.map Env.key)
  let base := if 0 < (dedupG A.final).length ∧ (dedupG A.final).length < N then 3 else 2
  let ruleEdges : Rule → List (Nat × Nat × Nat) := fun ρ =>
    match ρ.kids with
    | [] => [(N, pos ρ.sym syms, idx ρ.parent)]
    | [p] => [(idx p, pos ρ.sym syms, idx ρ.parent)]
    | _ => ρ.kids.zipIdx.map (fun pi => (idx pi.1, syms.length, node (mk ρ pi.2)))
  let edges := A.rules.flatMap ruleEdges ++ envs.map (fun e => (node e, e.symbol, e.state))
  let stateBlocks :=
    if base = 3 then
      [(par.filter (fun q => A.final.contains q)).map idx, (par.filter (fun q => !A.final.contains q)).map idx]
    else [par.map idx]
  let part := stateBlocks ++ [[N]] ++ H.map (fun k => (envs.filter (fun e => decide (e.key = k))).map node)
  let rel := [(0, 0)] ++ (if base = 3 then [(1, 0), (1, 1)] else []) ++ [(base - 1, base - 1)] ++
    (List.range H.length).flatMap (fun i =>
      ((List.range H.length).filter (fun j => H[i]? == H[j]?)).map (fun j => (base + i, base + j)))
  (⟨ltsSize 0 edges, edges⟩, part, rel)

/-- `ComputeDownwardSimulation(n)` as an object of the class -/
def computeSimDownDisc (A : TA) (n : Nat) : Option Disc :=
  let order := downOrder A
  (LE.computeSimulation1 (translateDownwardFast A n (idxOf order)) n).map (simDisc order n)

/-- `ComputeUpwardSimulation(n)` as an object of the class -/
def computeSimUpDisc (A : TA) (n : Nat) : Option Disc :=
  let order := upOrder A
  let T := translateUpwardFast A (idxOf order)
  (LE.computeSimulation T.1 T.2.1 T.2.2 n).map (simDisc order n)

/-- `ComputeSimulation` with `TA_DOWNWARD`, `SetNumStates(n)`: the relation on the states -/
def computeSimDown (A : TA) (n : Nat) : Option Rel := (computeSimDownDisc A n).map discRel

/-- `ComputeSimulation` with `TA_UPWARD`, `SetNumStates(n)` -/
def computeSimUp (A : TA) (n : Nat) : Option Rel := (computeSimUpDisc A n).map discRel

/-- the collapse map of `Reduce`: `RestrictToSymmetric`, `GetQuotientProjection` on the class model -/
def collapseMapAsCoded (A : TA) : Option (List (Nat × Nat)) :=
  match computeSimDownDisc A A.states.length with
  | none => none
  | some sim =>
    match sim.restrictToSymmetric.quotProj with
    | .ok m => some m
    | .error _ => none

/-- `ExplicitTreeAutCore::Reduce` -/
def reduceAsCoded (A : TA) : Option TA :=
  (collapseMapAsCoded A).map (fun m => removeUnreachable (reindex (applyMap m) A))

/-- the hypothesis of the upward route that is not visible in `AllOwnRule`: unless `n = 0` (then the engine is not
started) the automaton has a leaf rule, so that the leaf node `N` of the LTS exists (`ExplicitLTS::states_` grows with
the transitions only) -/
def hasLeafB (A : TA) : Bool := A.rules.any (fun ρ => ρ.kids.isEmpty)

end Vata.SimPipe

/-! ### self-tests -/
namespace Vata.SimPipeTest
open Vata Vata.TaLts Vata.SimPipe

def nxt (s : Nat) : Nat := (s * 6364136223846793005 + 1442695040888963407) % (2^64)
def rnd (s : Nat) (k : Nat) : Nat × Nat := let s' := nxt s; ((s' / 2^33) % k, s')

def genKids : Nat → Nat → Nat → List Nat × Nat
  | 0, _, s => ([], s)
  | k+1, nq, s => let (q, s) := rnd s nq; let (r, s) := genKids k nq s; (q :: r, s)

/-- symbols `0, 1` nullary, `2` unary, `3, 4` binary, `5` ternary (ranked) -/
def arityOf (a : Nat) : Nat := if a < 2 then 0 else if a = 2 then 1 else if a < 5 then 2 else 3

def genRules : Nat → Nat → Nat → List Rule × Nat
  | 0, _, s => ([], s)
  | k+1, nq, s =>
    let (a, s) := rnd s 6
    let (ks, s) := genKids (arityOf a) nq s
    let (p, s) := rnd s nq
    let (r, s) := genRules k nq s
    (⟨a, ks, p⟩ :: r, s)

def genFinal : Nat → Nat → Nat → List Nat × Nat
  | 0, _, s => ([], s)
  | k+1, nq, s => let (q, s) := rnd s nq; let (r, s) := genFinal k nq s; (q :: r, s)

/-- a pseudo-random ranked automaton over the states `0 … nq-1`, `nq ≤ 6` (duplicate rules and duplicate final states
occur; not every number below `nq` need occur) -/
def genTA (seed : Nat) : TA × Nat :=
  let s := nxt (nxt seed)
  let (nq, s) := rnd s 6; let nq := nq + 1
  let (nr, s) := rnd s (3 * nq + 2)
  let (rs, s) := genRules nr nq s
  let (nf, s) := rnd s 4
  let (fs, _) := genFinal nf nq s
  (⟨rs, fs⟩, nq)

def downOk (seed : Nat) : Bool :=
  let (A, nq) := genTA seed
  -- `n` = the number of states and a larger bound
  (match computeSimDown A A.states.length with | some R => relEq R (downSimRef A) | none => false) &&
  (match computeSimDown A (nq + seed % 3) with | some R => relEq R (downSimRef A) | none => false)

def upOk (seed : Nat) : Bool :=
  let A := removeUseless (genTA seed).1
  -- the number of states, or one more (only when there is a leaf rule: see `hasLeafB`)
  let n := A.states.length + (if hasLeafB A then seed % 2 else 0)
  match computeSimUp A n with | some R => relEq R (upSimRef A) | none => false

def reduceOk (seed : Nat) : Bool :=
  let A := (genTA seed).1
  match reduceAsCoded A with
  | some B => (equivM B A 6 == some true) && decide (B.states.length ≤ A.states.length) &&
      decide (B.rules.length ≤ A.rules.length)
  | none => false

def count (f : Nat → Bool) (lo hi : Nat) : Nat := ((List.range (hi - lo)).filter (fun i => f (lo + i))).length

/-- (automata with ≥ 1 rule of arity ≥ 2, trimmed automata that are non-empty, trimmed automata with both final and
non-final states, automata on which `Reduce` merges or drops a state) -/
def distribution (lo hi : Nat) : Nat × Nat × Nat × Nat :=
  (count (fun s => (genTA s).1.rules.any (fun ρ => ρ.kids.length ≥ 2)) lo hi,
   count (fun s => !(removeUseless (genTA s).1).rules.isEmpty) lo hi,
   count (fun s => upBase (removeUseless (genTA s).1) == 3) lo hi,
   count (fun s => match reduceAsCoded (genTA s).1 with
     | some B => decide (B.states.length < (genTA s).1.states.length) | none => false) lo hi)

-- 300 pseudo-random ranked automata (≤ 6 states, ≤ 19 rules, arities 0–3): `computeSimDown` (with `n` = the number of
-- states and with a larger bound) is `downSimRef` as a set
#guard count downOk 0 300 == 300
-- their trimmed versions (`removeUseless`): `computeSimUp` is `upSimRef` as a set; the hypotheses of `computeSimUp_eq` hold
#guard count upOk 0 300 == 300
#guard count (fun s => let A := removeUseless (genTA s).1; allOwnRuleB A && (hasLeafB A || A.states.isEmpty)) 0 300 == 300
#guard count (fun s => rankedB (genTA s).1) 0 300 == 300
-- `reduceAsCoded` returns, is language-equivalent to the input (`equivM`, exact decider) and not larger
#guard count reduceOk 0 300 == 300
#guard distribution 0 300 == (243, 132, 59, 151)
-- fixed ones, non-identity numberings of the translator (`downOrder exA = [2, 3, 0, 1, 4]`)
#guard downOrder TaLtsEx.exA == [2, 3, 0, 1, 4] && upOrder TaLtsEx.exB == [0, 2, 3, 4]
#guard (computeSimDown TaLtsEx.exA 5).map (relEq (downSimRef TaLtsEx.exA)) == some true
#guard (computeSimUp TaLtsEx.exB 4).map (relEq (upSimRef TaLtsEx.exB)) == some true
#guard (computeSimUp TaLtsEx.exC 4).map (relEq (upSimRef TaLtsEx.exC)) == some true
#guard (collapseMapAsCoded TaLtsEx.exA) == some [(2, 2), (3, 2), (0, 0), (1, 0), (4, 4)]
#guard (reduceAsCoded TaLtsEx.exA).map (fun B => B.states) == some [0, 2]
-- an unranked automaton (outside the explicit encoding; no final state): still a result
#guard (reduceAsCoded TaLtsEx.exU).map (fun B => B.states.length) == some 0

end Vata.SimPipeTest
