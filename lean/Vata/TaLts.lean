import Vata.Ref
import Vata.Proofs.LtsSim
/-!
# The TA → LTS encodings behind `ComputeSimulation` (property C04): executable models

Core Lean only (definitions, `#guard` tests); the theorems are in `Vata/Proofs/TaLts.lean`.
Mirrors `src/explicit_tree_transl.hh` (`TranslateDownward`, `TranslateUpward`) and `src/explicit_tree_sim.cc`
(`ComputeDownwardSimulation(size)`, `ComputeUpwardSimulation(size)`).

Conventions.  `idx : Nat → Nat` is the state translator (`stateIndex`, in `explicit_tree_sim.cc` a fresh
`StateToStateTranslWeak` numbering the states `0, 1, 2, …` in the order of first encounter); the models take it as a
parameter, the theorems hold for every `idx` that is injective on `A.states` and maps them below the bound the code
asserts.  Numberings "in order of first encounter" (`TranslatorWeak2` for symbols, left-hand sides, environments) are
modelled by `pos x l` = position of the first occurrence of `x` in the list `l` of all encountered keys; the order of
encounter in the C++ is the iteration order of the hash tables, in the model the order of `A.rules` – the theorems do not
depend on it (they hold for every `A`, hence for every order of the rules).
The number of states of an `ExplicitLTS` is `max(initial value, 1 + largest end point of an edge)` (`addTransition`):
`ltsSize`.
-/
namespace Vata.TaLts
open Vata

/-- position of the first occurrence of `x` in `l` (`l.length` if there is none) -/
def pos {α : Type} [DecidableEq α] (x : α) : List α → Nat
  | [] => 0
  | y :: ys => if x = y then 0 else pos x ys + 1

/-- remove repetitions, keeping the first occurrences in order -/
def dedupG {α : Type} [DecidableEq α] : List α → List α
  | [] => []
  | x :: xs => x :: (dedupG xs).filter (fun y => decide (y ≠ x))

/-- `states_` of an `ExplicitLTS` constructed with `n0` states after the given `addTransition` calls -/
def ltsSize (n0 : Nat) (edges : List (Nat × Nat × Nat)) : Nat :=
  edges.foldl (fun m e => max m (max (e.1 + 1) (e.2.2 + 1))) n0

/-- `symbolMap`: the distinct symbols in order of first encounter; `pos a (symList A)` is the LTS label of `a` -/
def symList (A : TA) : List Nat := dedupG (A.rules.map Rule.sym)

/-! ### downward -/

/-- `lhsMap`: the distinct child tuples of length `≠ 1` (the EMPTY tuple included – only tuples of size exactly one are
inlined by the code) in order of first encounter -/
def lhsList (A : TA) : List (List Nat) :=
  dedupG ((A.rules.filter (fun ρ => ρ.kids.length != 1)).map Rule.kids)

/-- the LTS node of the tuple `t` -/
def lhsNode (A : TA) (numStates : Nat) (t : List Nat) : Nat := numStates + pos t (lhsList A)

/-- `dest` of the edge added for a rule with children `ks` -/
def downDest (A : TA) (numStates : Nat) (idx : Nat → Nat) : List Nat → Nat
  | [p] => idx p
  | ks => lhsNode A numStates ks

def downEdges1 (A : TA) (numStates : Nat) (idx : Nat → Nat) : List (Nat × Nat × Nat) :=
  A.rules.map (fun ρ => (idx ρ.parent, pos ρ.sym (symList A), downDest A numStates idx ρ.kids))

def downEdges2 (A : TA) (numStates : Nat) (idx : Nat → Nat) : List (Nat × Nat × Nat) :=
  (lhsList A).flatMap (fun t => t.zipIdx.map (fun pi =>
    (lhsNode A numStates t, (symList A).length + pi.2, idx pi.1)))

/-- `TranslateDownward(numStates, stateIndex)` -/
def translateDownward (A : TA) (numStates : Nat) (idx : Nat → Nat) : L.LTS :=
  let edges := downEdges1 A numStates idx ++ downEdges2 A numStates idx
  ⟨ltsSize numStates edges, edges⟩

/-- the preconditions of `computeSimulation(partition, relation, size)` as the C16 check states them: non-empty blocks
that partition `0..n-1`, a reflexive and transitive relation on the block numbers -/
def partitionOkB (n : Nat) (blocks : List (List Nat)) (brel : Rel) : Bool :=
  let all := blocks.flatMap id
  !blocks.any (·.isEmpty) && all.length == n && (List.range n).all (fun q => all.contains q) &&
  (List.range blocks.length).all (fun i => brel.contains (i, i)) &&
  brel.all (fun p => brel.all (fun p' => p.2 != p'.1 || brel.contains (p.1, p'.2)))

/-- the initial relation as the C16 check computes it (through "the block of `q`") -/
def blockRelOf (n : Nat) (blocks : List (List Nat)) (brel : Rel) : L.Rel :=
  let blockOf (q : Nat) : Nat := (blocks.findIdx? (fun b => b.contains q)).getD 0
  (L.fullRel n).filter (fun p => brel.contains (blockOf p.1, blockOf p.2))

/-- reading a relation on indices back through the translation map (`StateDiscontBinaryRelation(ltsSim, translMap)`) -/
def readBack (A : TA) (idx : Nat → Nat) (R : L.Rel) : Rel :=
  (allPairs A.states).filter (fun p => R.contains (idx p.1, idx p.2))

/-- `ComputeDownwardSimulation(size)`: the engine from the full relation (one block), output restricted to the indices
`< size`, read back through the translation map -/
def downSimViaLts (A : TA) (size : Nat) (idx : Nat → Nat) : Rel :=
  let T := translateDownward A size idx
  readBack A idx (L.ltsSimOut T (L.fullRel T.n) size)

/-- every symbol is used with one arity only (the explicit encoding numbers (name, rank) pairs, so this always holds
there); needed for the downward encoding, see `translateDownward_unranked_counterexample` -/
def Ranked (A : TA) : Prop :=
  ∀ ρ σ, ρ ∈ A.rules → σ ∈ A.rules → ρ.sym = σ.sym → ρ.kids.length = σ.kids.length

def rankedB (A : TA) : Bool :=
  A.rules.all (fun ρ => A.rules.all (fun σ => ρ.sym != σ.sym || ρ.kids.length == σ.kids.length))

/-! ### upward -/

/-- `struct Env`: a rule with one child position removed.  `children` are the remaining children (original state
numbers, as in the code), `symbol` the translated symbol and `state` the translated parent. -/
structure Env where
  children : List Nat
  index : Nat
  symbol : Nat
  state : Nat
deriving DecidableEq, Repr

/-- what `Env::equal` / `Env::lessThan` compare (with `Identity` as the parameter relation both are equality of this) -/
def Env.key (e : Env) : List Nat × Nat × Nat := (e.children, e.index, e.symbol)

/-- the keys of `transitions_`: the states that own a rule; `transitions_->size()` is the length -/
def parents (A : TA) : List Nat := dedupG (A.rules.map Rule.parent)

/-- `Env(*tuple, i, symbol, state)` for the rule `ρ` -/
def mkEnv (A : TA) (idx : Nat → Nat) (ρ : Rule) (i : Nat) : Env :=
  ⟨ρ.kids.eraseIdx i, i, pos ρ.sym (symList A), idx ρ.parent⟩

/-- the environments of one rule (none for arity ≤ 1) -/
def envsOf (A : TA) (idx : Nat → Nat) (ρ : Rule) : List Env :=
  if ρ.kids.length ≤ 1 then [] else (List.range ρ.kids.length).map (mkEnv A idx ρ)

/-- `envMap`: the distinct environments in order of first encounter.  (The hash of the C++ map covers all four fields,
its `operator==` omits `state_`; with cached hash codes two environments that differ in `state_` only are different keys
unless their 64-bit hashes collide – the model keeps them apart.) -/
def envList (A : TA) (idx : Nat → Nat) : List Env := dedupG (A.rules.flatMap (envsOf A idx))

/-- `head`: one representative per class of `Env::equal`, in order of first encounter (here: the keys) -/
def headKeys (A : TA) (idx : Nat → Nat) : List (List Nat × Nat × Nat) := dedupG ((envList A idx).map Env.key)

/-- the LTS node of an environment: `transitions_->size() + 1 + ` its number -/
def envNode (A : TA) (idx : Nat → Nat) (e : Env) : Nat := (parents A).length + 1 + pos e (envList A idx)

/-- `base` -/
def upBase (A : TA) : Nat :=
  if 0 < (dedupG A.final).length ∧ (dedupG A.final).length < (parents A).length then 3 else 2

/-- the partition: block 0 final states (all states if `base = 2`), block 1 the non-final ones if `base = 3`, then the
leaf node, then one block per class of environments -/
def upPartition (A : TA) (idx : Nat → Nat) : List (List Nat) :=
  let N := (parents A).length
  let stateBlocks :=
    if upBase A = 3 then
      [((parents A).filter (fun q => A.final.contains q)).map idx,
       ((parents A).filter (fun q => !A.final.contains q)).map idx]
    else [(parents A).map idx]
  stateBlocks ++ [[N]] ++
    (headKeys A idx).map (fun k => ((envList A idx).filter (fun e => decide (e.key = k))).map (envNode A idx))

/-- the relation on the blocks -/
def upBlockRel (A : TA) (idx : Nat → Nat) : Rel :=
  let base := upBase A
  let H := headKeys A idx
  [(0, 0)] ++ (if base = 3 then [(1, 0), (1, 1)] else []) ++ [(base - 1, base - 1)] ++
    (List.range H.length).flatMap (fun i =>
      ((List.range H.length).filter (fun j => H[i]? == H[j]?)).map (fun j => (base + i, base + j)))

/-- the edges added for one rule -/
def upRuleEdges (A : TA) (idx : Nat → Nat) (ρ : Rule) : List (Nat × Nat × Nat) :=
  let N := (parents A).length
  let a := pos ρ.sym (symList A)
  match ρ.kids with
  | [] => [(N, a, idx ρ.parent)]
  | [p] => [(idx p, a, idx ρ.parent)]
  | _ => ρ.kids.zipIdx.map (fun pi => (idx pi.1, (symList A).length, envNode A idx (mkEnv A idx ρ pi.2)))

/-- the edges from the environments to the parents; `tr` is applied to the stored (already translated) parent:
`id` in the repaired code, `stateIndex` before the repair -/
def upEnvEdges (A : TA) (idx : Nat → Nat) (tr : Nat → Nat) : List (Nat × Nat × Nat) :=
  (envList A idx).map (fun e => (envNode A idx e, e.symbol, tr e.state))

def upEdges (A : TA) (idx : Nat → Nat) (tr : Nat → Nat) : List (Nat × Nat × Nat) :=
  A.rules.flatMap (upRuleEdges A idx) ++ upEnvEdges A idx tr

/-- `TranslateUpward(partition, relation, Identity(size), stateIndex)` (repaired): the LTS, the partition and the
relation on the blocks -/
def translateUpward (A : TA) (idx : Nat → Nat) : L.LTS × List (List Nat) × Rel :=
  (⟨ltsSize 0 (upEdges A idx id), upEdges A idx id⟩, upPartition A idx, upBlockRel A idx)

/-- the code before the repair: `stateIndex[envIndexPair.first.state_]` -/
def translateUpwardOld (A : TA) (idx : Nat → Nat) : L.LTS × List (List Nat) × Rel :=
  (⟨ltsSize 0 (upEdges A idx idx), upEdges A idx idx⟩, upPartition A idx, upBlockRel A idx)

/-- the initial relation on states given by a partition and a relation on its blocks: `x`, `y` are related if the blocks
`i ∋ x`, `j ∋ y` are -/
def blockRel (blocks : List (List Nat)) (brel : Rel) : L.Rel :=
  brel.flatMap (fun ij => (blocks.getD ij.1 []).flatMap (fun x => (blocks.getD ij.2 []).map (fun y => (x, y))))

/-- `ComputeUpwardSimulation(size)` -/
def upSimViaLts (A : TA) (size : Nat) (idx : Nat → Nat) : Rel :=
  let T := translateUpward A idx
  readBack A idx (L.ltsSimOut T.1 (blockRel T.2.1 T.2.2) size)

/-- … before the repair -/
def upSimViaLtsOld (A : TA) (size : Nat) (idx : Nat → Nat) : Rel :=
  let T := translateUpwardOld A idx
  readBack A idx (L.ltsSimOut T.1 (blockRel T.2.1 T.2.2) size)

/-- every state that occurs owns a rule (holds for automata without useless states) -/
def AllOwnRule (A : TA) : Prop := ∀ q, q ∈ A.states → ∃ ρ, ρ ∈ A.rules ∧ ρ.parent = q

def allOwnRuleB (A : TA) : Bool := A.states.all (fun q => A.rules.any (fun ρ => ρ.parent == q))

end Vata.TaLts

/-! ### tests of the executable models against `downSimRef` / `upSimRef` -/
namespace Vata.TaLtsEx
open Vata Vata.TaLts

/-- a → 0, a → 1, g(0,1) → 2, g(1,0) → 3, h(2) → 4; F = {2, 3} -/
def exA : TA := ⟨[⟨0, [], 0⟩, ⟨0, [], 1⟩, ⟨1, [0, 1], 2⟩, ⟨1, [1, 0], 3⟩, ⟨2, [2], 4⟩], [2, 3]⟩
/-- F = {4,2,3}; a → 0,2,3,4; b → 0,4; g(2,0) → 2; g(4,0) → 0 -/
def exB : TA := ⟨[⟨0, [], 0⟩, ⟨0, [], 2⟩, ⟨0, [], 3⟩, ⟨0, [], 4⟩, ⟨1, [], 0⟩, ⟨1, [], 4⟩, ⟨2, [2, 0], 2⟩, ⟨2, [4, 0], 0⟩],
  [4, 2, 3]⟩
/-- a ternary symbol, a unary chain and two rules with the same children but different parents -/
def exC : TA := ⟨[⟨0, [], 0⟩, ⟨0, [], 1⟩, ⟨3, [0, 1, 0], 2⟩, ⟨3, [0, 1, 0], 3⟩, ⟨3, [1, 1, 0], 3⟩, ⟨2, [2], 1⟩, ⟨2, [3], 1⟩,
  ⟨2, [3], 0⟩], [3]⟩
/-- all states final -/
def exD : TA := ⟨[⟨0, [], 0⟩, ⟨1, [0, 0], 1⟩, ⟨1, [1, 0], 1⟩, ⟨1, [0, 1], 0⟩], [0, 1]⟩
/-- one symbol with two arities: a(0) → 1, a → 2 -/
def exU : TA := ⟨[⟨0, [0], 1⟩, ⟨0, [], 2⟩], []⟩
/-- no final state -/
def exE : TA := ⟨[⟨0, [], 0⟩, ⟨0, [], 1⟩, ⟨1, [0, 0], 1⟩, ⟨1, [1, 0], 1⟩], []⟩

/-- permutations given as lists -/
def perm (l : List Nat) : Nat → Nat := fun q => l.getD q q

#guard relEq (downSimViaLts exA 5 id) (downSimRef exA)
#guard relEq (downSimViaLts exA 5 (perm [3, 0, 4, 1, 2])) (downSimRef exA)
#guard relEq (downSimViaLts exA 9 (perm [8, 6, 4, 2, 0])) (downSimRef exA)
#guard relEq (downSimViaLts exB 5 id) (downSimRef exB)
#guard relEq (downSimViaLts exB 5 (perm [3, 0, 4, 1, 2])) (downSimRef exB)
#guard relEq (downSimViaLts exC 4 id) (downSimRef exC)
#guard relEq (downSimViaLts exC 4 (perm [2, 3, 1, 0])) (downSimRef exC)
#guard relEq (downSimViaLts exD 2 (perm [1, 0])) (downSimRef exD)
#guard relEq (downSimViaLts exE 2 (perm [1, 0])) (downSimRef exE)

#guard allOwnRuleB exB && allOwnRuleB exC && allOwnRuleB exD && allOwnRuleB exE && allOwnRuleB exA
#guard relEq (upSimViaLts exA 5 id) (upSimRef exA)
#guard relEq (upSimViaLts exA 5 (perm [3, 0, 4, 1, 2])) (upSimRef exA)
#guard relEq (upSimViaLts exB 5 id) (upSimRef exB)
#guard relEq (upSimViaLts exB 4 (perm [3, 9, 0, 2, 1])) (upSimRef exB)
#guard relEq (upSimViaLts exB 4 (perm [1, 9, 2, 3, 0])) (upSimRef exB)
#guard relEq (upSimViaLts exC 4 id) (upSimRef exC)
#guard relEq (upSimViaLts exC 4 (perm [2, 3, 1, 0])) (upSimRef exC)
#guard relEq (upSimViaLts exD 2 (perm [1, 0])) (upSimRef exD)
#guard relEq (upSimViaLts exE 2 (perm [1, 0])) (upSimRef exE)
-- the output of `translateUpward` meets the preconditions of the engine, `blockRel` is the relation of the C16 check
def upOkB (A : TA) (idx : Nat → Nat) : Bool :=
  let T := translateUpward A idx
  partitionOkB T.1.n T.2.1 T.2.2 && relEq (blockRel T.2.1 T.2.2) (blockRelOf T.1.n T.2.1 T.2.2) &&
  T.1.n == (parents A).length + 1 + (envList A idx).length
#guard upOkB exA id && upOkB exA (perm [3, 0, 4, 1, 2]) && upOkB exB (perm [3, 9, 0, 2, 1]) && upOkB exC id
#guard upOkB exC (perm [2, 3, 1, 0]) && upOkB exD (perm [1, 0]) && upOkB exE (perm [1, 0])
-- before the repair: right for the identity, wrong for other numberings
#guard relEq (upSimViaLtsOld exB 5 id) (upSimRef exB)

end Vata.TaLtsEx
