import Vata.CowHeapX
import Vata.NfaStart
/-!
# Copy-on-write of the explicit FINITE automaton core, as coded (property C11) – definitions

C++: `src/explicit_finite_aut_core.hh` / `.cc`, `explicit_finite_union.cc`, `explicit_finite_unreach.cc`,
`explicit_finite_useless.cc`, `explicit_finite_reverse.cc`, `explicit_finite_candidate.cc`.

An `ExplicitFiniteAutCore` object (a *handle*) has the members

```
StateSet finalStates_;  StateSet startStates_;  StateToSymbols startStateToSymbols_;     // plain values, copied by value
StateToTransitionClusterMapPtr transitions_;   // shared_ptr< unordered_map<State, shared_ptr<TransitionCluster>> >
```

and `TransitionCluster = unordered_map<Symbol, RStateSet>` holds its right-hand state sets BY VALUE: there are exactly two
levels of sharing (map node, cluster node).  The heap is therefore the two-level reference-counted heap `CowHeap.Heap` of
`Vata/CowHeap.lean`, whose primitive `shared_ptr` / container actions (`allocMap` = `new Map(es)` copying the cluster
pointers, `incMap`, `retarget`, `addHandle`, `dropHandle`, `allocCluster`, `setEntry`, `writeCluster`, `releaseCluster`,
`releaseMap`, `uniqueMap` = `uniqueClusterMap()`) are reused; everything above these primitives – every operation of the
class – is written here after the finite-automaton sources, which are quoted.

**Representation of a cluster.**  The contents of a cluster node is a `Store.Cluster` (symbol ↦ list of tuples).  The set
`RStateSet{r₁,…}` is stored as the singleton tuples `[[r₁],…]`, so `uniqueRStateSet(a).insert(r)` is
`Store.addToCluster a [r]` (create the entry of `a` if absent, then `std::set`-style insertion).  `transOf` unwraps them.

**Handles, temporaries.**  Handles are numbers chosen by the history.  Library functions that create C++ temporaries
(`RemoveUselessStates`, `GetCandidateTree`) use the unused numbers `tmpBase …` (above all live handles and the result) and
destroy them as the C++ does (end of the full expression, reverse order of construction; the local `res` at scope exit).

**Not C++ programs** (operations on dead handles, constructors over live handles, self-assignment, `ReindexStates` of an
object into itself) are no-ops, as in `CowHeap.step`.

**Move.**  The class declares a copy constructor, a copy assignment and a destructor, hence the compiler generates NO move
constructor / move assignment: `ExplicitFiniteAutCore b(std::move(a))` and `b = std::move(a)` call the copy operations and
`a` stays alive with its value.  `moveCtor` / `moveAssign` are therefore the same steps as `copy` / `assign`.
-/
namespace Vata.CowHeapFA

open Vata.Store (Cluster upsert insTuple addToCluster addToMap)
open Vata.CowHeap (Heap upd allocMap incMap retarget addHandle dropHandle allocCluster setEntry writeCluster
  releaseCluster releaseMap uniqueMap mout valM Val)
open Vata.CowHeapX (missing)

/-! ### values -/

/-- the three members that are plain values -/
structure Members where
  /-- `finalStates_` -/
  final : List Nat
  /-- `startStates_` -/
  start : List Nat
  /-- `startStateToSymbols_` -/
  ssym  : SymMap
deriving Repr, DecidableEq

/-- the value of an automaton object: the three value members and the contents of the transition map
    (state ↦ symbol ↦ singleton tuples of right-hand states, in container order) -/
structure FAVal where
  mem   : Members
  trans : Val
deriving Repr, DecidableEq

/-- `ExplicitFiniteAutCore()` -/
def vNew : FAVal := ⟨⟨[], [], []⟩, []⟩

/-- the transitions `(left, symbol, right)` in the iteration order
    `for (ls : *transitions_) for (s : *ls.second) for (rs : s.second)` -/
def transOf (t : Val) : List (Nat × Nat × Nat) :=
  t.flatMap (fun qc => qc.2.flatMap (fun st => st.2.map (fun r => (qc.1, st.1, r.headD 0))))

/-- the automaton (with its start-symbol map) an object denotes -/
def FAVal.toNFAS (v : FAVal) : NFAS := ⟨⟨v.mem.start, v.mem.final, transOf v.trans⟩, v.mem.ssym⟩
/-- … and without the start symbols: a `Vata.W.NFA` of `Vata/Nfa.lean` -/
def FAVal.toNFA (v : FAVal) : Vata.W.NFA := v.toNFAS.toNFA

/-- `SetStateFinal`: `finalStates_.insert(state)` -/
def vSetFinal (q : Nat) (v : FAVal) : FAVal := { v with mem := { v.mem with final := Vata.insN v.mem.final q } }

/-- `SetStateStart(state, symbol)`:
```
startStates_.insert(state);
if (!startStateToSymbols_.count(state)) startStateToSymbols_.insert(make_pair(state, {})).first->second.insert(symbol);
else startStateToSymbols_.find(state)->second.insert(symbol);
``` -/
def vSetStart (q a : Nat) (v : FAVal) : FAVal :=
  { v with mem := { v.mem with start := Vata.insN v.mem.start q, ssym := smAddSym v.mem.ssym q a } }

/-- `SetExistingStateStart(state, symbolSet)`: `startStates_.insert(state); assert(!…count(state));
    startStateToSymbols_.insert(make_pair(state, symbolSet));` – `insert` does not overwrite (the `assert` is compiled out) -/
def vSetExistingStart (q : Nat) (S : List Nat) (v : FAVal) : FAVal :=
  { v with mem := { v.mem with start := Vata.insN v.mem.start q, ssym := smInsert v.mem.ssym q S } }

/-- `AddTransition(l, a, r)` = `uniqueClusterMap()->uniqueCluster(l)->uniqueRStateSet(a).insert(r)` -/
def vAdd (l a r : Nat) (v : FAVal) : FAVal := { v with trans := addToMap l a [r] v.trans }

/-- what the inner loops of `ReindexStates` do to the destination cluster `c`, given the source cluster `src`:
```
for (auto& symbolRStateSetPair : *stateClusterPair.second) {
  RStateSet& rstatesSet = cluster->uniqueRStateSet(symbolRStateSetPair.first);     // created EMPTY if absent
  for (auto& rState : symbolRStateSetPair.second) rstatesSet.insert(index[rState]); }
``` -/
def reindexCluster (idx : Nat → Nat) (src : Cluster) (c : Cluster) : Cluster :=
  src.foldl (fun c st => upsert st.1 (fun o => st.2.foldl (fun ts t => insTuple (t.map idx) ts) (o.getD [])) c) c

/-- the transition part of `ReindexStates`: `for (auto& stateClusterPair : *this->transitions_) { auto cluster =
    clusterMap->uniqueCluster(index[stateClusterPair.first]); … }` – the destination cluster is created (possibly staying
    empty) for every entry of the source map -/
def reindexTrans (idx : Nat → Nat) (src : Val) (t : Val) : Val :=
  src.foldl (fun t qc => upsert (idx qc.1) (fun o => reindexCluster idx qc.2 (o.getD [])) t) t

/-- `src.ReindexStates(dst, index)` on values:
```
for (auto& state : this->finalStates_) dst.SetStateFinal(index[state]);
for (auto& state : this->startStates_) dst.SetExistingStateStart(index[state], GetStartSymbols(state));
auto clusterMap = dst.uniqueClusterMap();  for (…) …
``` -/
def vReindex (idx : Nat → Nat) (s d : FAVal) : FAVal :=
  let d1 := s.mem.final.foldl (fun d q => vSetFinal (idx q) d) d
  let d2 := s.mem.start.foldl (fun d q => vSetExistingStart (idx q) (smGet s.mem.ssym q) d) d1
  ⟨d2.mem, reindexTrans idx s.trans d.trans⟩

/-- `UnionDisjointStates(lhs, rhs)` on values: `res(lhs)`, then four `insert(first, last)` (none of them overwrites) -/
def vUnionDisj (s t : FAVal) : FAVal :=
  ⟨⟨t.mem.final.foldl Vata.insN s.mem.final, t.mem.start.foldl Vata.insN s.mem.start,
    t.mem.ssym.foldl (fun m e => smInsert m e.1 e.2) s.mem.ssym⟩,
   s.trans ++ missing s.trans t.trans⟩

/-- right-hand states of a cluster in the order `for (symbolsToStateSet : *cluster) for (state : symbolsToStateSet.second)` -/
def targets (c : Cluster) : List Nat := c.flatMap (fun st => st.2.map (fun r => r.headD 0))

/-- the work-list loop of `RemoveUnreachableStates` (`newStates` is a `std::vector` used as a stack: its back is the head
    of the list; `reachableStates` in insertion order):
```
while (!newStates.empty()) { auto actState = newStates.back(); newStates.pop_back();
  auto cluster = genericLookup(*transitions_, actState);  if (!cluster) continue;
  for (auto &symbolsToStateSet : *cluster) for (auto &state : symbolsToStateSet.second)
    if (reachableStates.insert(state).second) newStates.push_back(state); }
``` -/
def reachLoop (t : Val) : Nat → List Nat → List Nat → List Nat
  | 0, reach, _ => reach
  | _ + 1, reach, [] => reach
  | n + 1, reach, act :: stack =>
    match t.lookup act with
    | none => reachLoop t n reach stack
    | some c =>
      let rs := (targets c).foldl
        (fun (rs : List Nat × List Nat) q => if rs.1.contains q then rs else (rs.1 ++ [q], q :: rs.2)) (reach, stack)
      reachLoop t n rs.1 rs.2

/-- `reachableStates` at the end of the loop.  Every iteration pops one state and every state is pushed at most once, so
    `start + number of transition targets + 1` iterations are enough (`reachStates_fuel` in `Vata/Proofs/CowHeapFA3.lean`:
    any larger fuel gives the same list; the copy-on-write theorems hold for whatever list this function returns) -/
def reachStates (v : FAVal) : List Nat :=
  let s0 := v.mem.start.foldl Vata.insN []   -- `std::unordered_set<StateType> reachableStates(this->GetStartStates());`
  reachLoop v.trans (s0.length + (transOf v.trans).length + 1) s0 s0.reverse

/-- the key/cluster pairs `RemoveUnreachableStates` hands to `insert`:
    `auto it = transitions_->find(state); if (it == end()) continue; res.transitions_->insert(make_pair(state, it->second));` -/
def pick {β : Type} (es : List (Nat × β)) (keys : List Nat) : List (Nat × β) :=
  keys.filterMap (fun q => (es.lookup q).map (fun c => (q, c)))

/-- `RemoveUnreachableStates()` on values:
```
ExplicitFA res;  res.startStates_ = startStates_;  res.startStateToSymbols_ = startStateToSymbols_;
res.transitions_ = Ptr(new Map());
for (auto& state : reachableStates) { if (this->IsStateFinal(state)) res.SetStateFinal(state); … insert … }
``` -/
def vUnreach (v : FAVal) : FAVal :=
  let reach := reachStates v
  ⟨⟨reach.foldl (fun f q => if v.mem.final.contains q then Vata.insN f q else f) [], v.mem.start, v.mem.ssym⟩,
   missing [] (pick v.trans reach)⟩

/-- `Reverse()` on values:
```
res.finalStates_ = startStates_;  res.startStates_ = finalStates_;  res.startStateToSymbols_ = startStateToSymbols_;
for (auto state : finalStates_) res.startStateToSymbols_.insert(std::make_pair(state, SymbolSet()));
for (…each transition (l, a, r) of *transitions_ …) res.AddTransition(r, a, l);
``` -/
def vReverse (v : FAVal) : FAVal :=
  ⟨⟨v.mem.start, v.mem.final, v.mem.final.foldl (fun m q => smInsert m q []) v.mem.ssym⟩,
   (transOf v.trans).foldl (fun t e => addToMap e.2.2 e.2.1 [e.1] t) []⟩

/-- `RemoveUselessStates()`: `RemoveUnreachableStates(p).Reverse(p).RemoveUnreachableStates().Reverse()` -/
def vUseless (v : FAVal) : FAVal := vReverse (vUnreach (vReverse (vUnreach v)))

/-! #### `GetCandidateTree` -/

/-- the local state of `GetCandidateTree`: `reachableStates`, `newStates` (a `std::list` used as a queue), the value
    members of `res`, the keys handed to `res.transitions_->insert` so far, and whether a `return` was reached -/
structure CandSt where
  reach : List Nat
  queue : List Nat
  mem   : Members
  keys  : List Nat
  done  : Bool

/-- ```
for (StateType s : this->GetStartStates()) {
  if (reachableStates.insert(s).second) newStates.push_back(s);
  res.SetExistingStateStart(s, this->GetStartSymbols(s));
  if (this->IsStateFinal(s)) { res.SetStateFinal(s); return res.RemoveUselessStates(); } }
``` -/
def candStart (v : FAVal) : List Nat → CandSt → CandSt
  | [], s => s
  | q :: rest, s =>
    let s1 : CandSt := if s.reach.contains q then s else { s with reach := s.reach ++ [q], queue := s.queue ++ [q] }
    let m1 : Members :=
      { s1.mem with start := Vata.insN s1.mem.start q, ssym := smInsert s1.mem.ssym q (smGet v.mem.ssym q) }
    if v.mem.final.contains q then { s1 with mem := { m1 with final := Vata.insN m1.final q }, done := true }
    else candStart v rest { s1 with mem := m1 }

/-- ```
for (auto stateInSet : symbolToState.second) {
  if (reachableStates.insert(stateInSet).second) newStates.push_back(stateInSet);
  if (this->IsStateFinal(stateInSet)) { res.SetStateFinal(stateInSet);
    res.transitions_->insert(std::make_pair(actState, transitionsCluster->second)); return res.RemoveUselessStates(); }
  res.transitions_->insert(std::make_pair(actState, transitionsCluster->second)); }
``` -/
def candInner (v : FAVal) (act : Nat) : List Nat → CandSt → CandSt
  | [], s => s
  | q :: rest, s =>
    let s1 : CandSt := if s.reach.contains q then s else { s with reach := s.reach ++ [q], queue := s.queue ++ [q] }
    if v.mem.final.contains q then
      { s1 with mem := { s1.mem with final := Vata.insN s1.mem.final q }, keys := s1.keys ++ [act], done := true }
    else candInner v act rest { s1 with keys := s1.keys ++ [act] }

/-- ```
while (!newStates.empty()) { StateType actState = newStates.front();
  auto transitionsCluster = transitions_->find(actState);  newStates.pop_front();
  if (transitionsCluster == transitions_->end()) continue;
  for (auto symbolToState : *transitionsCluster->second) …inner loop… }
``` -/
def candLoop (v : FAVal) : Nat → CandSt → CandSt
  | 0, s => s
  | n + 1, s =>
    if s.done then s else
    match s.queue with
    | [] => s
    | act :: q =>
      match v.trans.lookup act with
      | none => candLoop v n { s with queue := q }
      | some c => candLoop v n (candInner v act (targets c) { s with queue := q })

/-- the search of `GetCandidateTree` (fuel as for `reachStates`; it suffices: `candSearch_fuel` in
    `Vata/Proofs/CowHeapFA3.lean`) -/
def candSearch (v : FAVal) : CandSt :=
  let s := candStart v v.mem.start ⟨[], [], ⟨[], [], []⟩, [], false⟩
  candLoop v (v.mem.start.length + (transOf v.trans).length + 1) s

/-- the local `res` of `GetCandidateTree` just before `return res.RemoveUselessStates()`: the value members collected by the
    search, and the clusters of `this` under the keys handed to `insert` (an existing key is not overwritten) -/
def vCandRaw (v : FAVal) : FAVal :=
  let s := candSearch v
  ⟨s.mem, missing [] (pick v.trans s.keys)⟩

/-- `GetCandidateTree()` -/
def vCandidate (v : FAVal) : FAVal := vUseless (vCandRaw v)

/-! ### the heap -/

/-- the two-level heap plus, per handle, the three value members (meaningless for dead handles) -/
structure HeapFA where
  core : Heap
  mem  : Nat → Members

def initFA : HeapFA := ⟨CowHeap.init, fun _ => ⟨[], [], []⟩⟩

/-- what is read through the live handle `h` -/
def valOf (H : HeapFA) (h : Nat) : FAVal := ⟨H.mem h, valM H.core (H.core.hmap h)⟩

inductive Op where
  /-- default constructor -/
  | new (h : Nat)
  /-- copy constructor `dst(src)` -/
  | copy (src dst : Nat)
  /-- `dst = src` -/
  | assign (src dst : Nat)
  /-- `dst(std::move(src))` – the class has no move constructor: this IS the copy constructor, `src` stays alive -/
  | moveCtor (src dst : Nat)
  /-- `dst = std::move(src)` – the class has no move assignment: this IS the copy assignment -/
  | moveAssign (src dst : Nat)
  /-- `h.SetStateFinal(q)` -/
  | setFinal (h q : Nat)
  /-- `h.SetStateStart(q, a)` -/
  | setStart (h q a : Nat)
  /-- `h.SetExistingStateStart(q, S)` -/
  | setExistingStart (h q : Nat) (S : List Nat)
  /-- `h.AddTransition(l, a, r)` -/
  | add (h l a r : Nat)
  /-- destructor -/
  | destroy (h : Nat)
  /-- `src.ReindexStates(dst, idx)` into the EXISTING object `dst` -/
  | reindex (src dst : Nat) (idx : Nat → Nat)
  /-- `dst` := `UnionDisjointStates(a, b)` -/
  | unionDisj (a b dst : Nat)
  /-- `dst` := `src.RemoveUnreachableStates()` -/
  | unreach (src dst : Nat)
  /-- `dst` := `src.Reverse()` -/
  | reverse (src dst : Nat)
  /-- `dst` := `src.RemoveUselessStates()` -/
  | useless (src dst : Nat)
  /-- `dst` := the local `res` of `src.GetCandidateTree()` before its final `RemoveUselessStates()` (an internal step, made
      an operation so that `candidate` is a sequence of operations) -/
  | candRaw (src dst : Nat)
  /-- `dst` := `src.GetCandidateTree()` -/
  | candidate (src dst : Nat)

/-! ### container / `shared_ptr` actions above the primitives of `CowHeap` -/

/-- `m.insert(…)` of entries whose keys are not in `m`: the cluster POINTERS are copied (each `use_count` + 1), the map node
    `m` is written in place -/
def insertEntries (H : Heap) (m : Nat) (ins : List (Nat × Nat)) : Heap :=
  { H with ment := upd H.ment m (H.ment m ++ ins), crc := fun c => H.crc c + (ins.map Prod.snd).count c }

/-- `m.insert(first, last)` resp. a sequence of `m.insert(make_pair(k, ptr))`: `unordered_map::insert` never overwrites -/
def insertRange (H : Heap) (m : Nat) (l : List (Nat × Nat)) : Heap := insertEntries H m (missing (H.ment m) l)

/-- `transitions_ = StateToTransitionClusterMapPtr(new StateToTransitionClusterMap())` on the live handle `h` -/
def freshMap (H : Heap) (h : Nat) : Heap := releaseMap (retarget (allocMap H []) h H.next) (H.hmap h)

/-- `uniqueCluster(q)` on the map node of `h`, followed by the writes `G` into the cluster it returns:
```
auto& clusterPtr = this->insert(std::make_pair(state, TransitionClusterPtr(nullptr))).first->second;
if (!clusterPtr)               clusterPtr = TransitionClusterPtr(new TransitionCluster());
else if (!clusterPtr.unique()) clusterPtr = TransitionClusterPtr(new TransitionCluster(*clusterPtr));
return clusterPtr;
```
(no entry ⇒ new cluster; shared ⇒ clone, the old pointer is released by the assignment; unique ⇒ written in place).
NOTE: `uniqueCluster` is a member of the MAP class: it does not (and cannot) call `uniqueClusterMap()`. -/
def modCluster (H : Heap) (h q : Nat) (G : Cluster → Cluster) : Heap :=
  let m := H.hmap h
  match (H.ment m).lookup q with
  | none => setEntry (allocCluster H (G [])) m q H.next
  | some c =>
    if H.crc c = 1 then writeCluster H c (G (H.cdat c))
    else releaseCluster (setEntry (allocCluster H (G (H.cdat c))) m q H.next) c

/-- `internalAddTransition`: `this->uniqueClusterMap()->uniqueCluster(lstate)->uniqueRStateSet(symbol).insert(rstate);` -/
def addCore (H : Heap) (h l a r : Nat) : Heap := modCluster (uniqueMap H h) h l (addToCluster a [r])

/-- the transition part of `src.ReindexStates(dst, index)`: `uniqueClusterMap()` is called ONCE, before the loop
    (`auto clusterMap = dst.uniqueClusterMap();` – the local copy of the pointer raises the `use_count` of the now private
    map node to 2 for the duration of the loop, which nothing tests), then `clusterMap->uniqueCluster(index[q])` for every
    entry of the source map.  `src` is the value of the source's map (read while `dst` is written: `src ≠ dst`). -/
def reindexCore (H : Heap) (dst : Nat) (idx : Nat → Nat) (src : Val) : Heap :=
  src.foldl (fun H qc => modCluster H dst (idx qc.1) (reindexCluster idx qc.2)) (uniqueMap H dst)

/-- `ExplicitFiniteAutCore res(lhs); res.uniqueClusterMap()->insert(rhs.transitions_->begin(), rhs.transitions_->end());` -/
def unionDisjCore (H : Heap) (a b dst : Nat) : Heap :=
  let H1 := uniqueMap (CowHeap.step H (.copy a dst)) dst
  insertRange H1 (H1.hmap dst) (H1.ment (H1.hmap b))

/-- `ExplicitFA res; res.transitions_ = Ptr(new Map());` (the map node made by the default constructor is released
    again) `for (state : reachableStates) … res.transitions_->insert(std::make_pair(state, it->second));` – written into
    `res.transitions_` DIRECTLY, without `uniqueClusterMap()`: the node was allocated two lines above.
    Also the shape of the local `res` of `GetCandidateTree` (there without the second allocation). -/
def shareCore (H : Heap) (src dst : Nat) (keys : List Nat) (second : Bool) : Heap :=
  let H0 := CowHeap.step H (.new dst)
  let H1 := if second then freshMap H0 dst else H0
  insertRange H1 (H1.hmap dst) (pick (H1.ment (H1.hmap src)) keys)

/-- `ExplicitFA res; for (…each transition (l, a, r) of *transitions_ …) res.AddTransition(r, a, l);`
    (`tr` = the transitions of the source, read while `res` is written) -/
def reverseCore (H : Heap) (dst : Nat) (tr : List (Nat × Nat × Nat)) : Heap :=
  tr.foldl (fun H e => addCore H dst e.2.2 e.2.1 e.1) (CowHeap.step H (.new dst))

/-! ### the operations -/

/-- a number above all live handles and `avoid` -/
def tmpBase (H : Heap) (avoid : Nat) : Nat := H.hl.foldl max avoid + 1

/-- a mutator of the live object `h` -/
def mut1 (H : HeapFA) (h : Nat) (coreF : Heap → Heap) (f : FAVal → FAVal) : HeapFA :=
  if h ∈ H.core.hl then ⟨coreF H.core, upd H.mem h (f (valOf H h)).mem⟩ else H

/-- a library function of the live object `src` whose result becomes the new object `dst` -/
def res1 (H : HeapFA) (src dst : Nat) (coreF : Heap → Heap) (f : FAVal → FAVal) : HeapFA :=
  if src ∈ H.core.hl ∧ dst ∉ H.core.hl then ⟨coreF H.core, upd H.mem dst (f (valOf H src)).mem⟩ else H

/-- the operations that are not sequences of other operations -/
def stepB (H : HeapFA) : Op → HeapFA
  | .new h => ⟨CowHeap.step H.core (.new h), if h ∈ H.core.hl then H.mem else upd H.mem h vNew.mem⟩
  | .copy src dst | .moveCtor src dst =>
    -- `finalStates_(aut.finalStates_), startStates_(…), startStateToSymbols_(…), transitions_(aut.transitions_)`
    res1 H src dst (fun c => CowHeap.step c (.copy src dst)) id
  | .assign src dst | .moveAssign src dst =>
    -- `if (this != &rhs) { finalStates_ = rhs.finalStates_; … transitions_ = rhs.transitions_; }`
    if src ∈ H.core.hl ∧ dst ∈ H.core.hl ∧ src ≠ dst then
      ⟨CowHeap.step H.core (.assign src dst), upd H.mem dst (H.mem src)⟩
    else H
  | .setFinal h q => mut1 H h id (vSetFinal q)
  | .setStart h q a => mut1 H h id (vSetStart q a)
  | .setExistingStart h q S => mut1 H h id (vSetExistingStart q S)
  | .add h l a r => mut1 H h (fun c => addCore c h l a r) (vAdd l a r)
  | .destroy h => ⟨CowHeap.step H.core (.destroy h), H.mem⟩
  | .reindex src dst idx =>
    if src ∈ H.core.hl ∧ dst ∈ H.core.hl ∧ src ≠ dst then
      ⟨reindexCore H.core dst idx (valOf H src).trans, upd H.mem dst (vReindex idx (valOf H src) (valOf H dst)).mem⟩
    else H
  | .unionDisj a b dst =>
    if a ∈ H.core.hl ∧ b ∈ H.core.hl ∧ dst ∉ H.core.hl then
      ⟨unionDisjCore H.core a b dst, upd H.mem dst (vUnionDisj (valOf H a) (valOf H b)).mem⟩
    else H
  | .unreach src dst => res1 H src dst (fun c => shareCore c src dst (reachStates (valOf H src)) true) vUnreach
  | .reverse src dst => res1 H src dst (fun c => reverseCore c dst (transOf (valOf H src).trans)) vReverse
  | .candRaw src dst => res1 H src dst (fun c => shareCore c src dst (candSearch (valOf H src)).keys false) vCandRaw
  | .useless _ _ => H
  | .candidate _ _ => H

/-- `return this->RemoveUnreachableStates(p).Reverse(p).RemoveUnreachableStates().Reverse();` with the three temporaries
    `t`, `t+1`, `t+2`, destroyed at the end of the full expression in reverse order of construction -/
def uselessOps (src dst t : Nat) : List Op :=
  [.unreach src t, .reverse t (t + 1), .unreach (t + 1) (t + 2), .reverse (t + 2) dst,
   .destroy (t + 2), .destroy (t + 1), .destroy t]

/-- `GetCandidateTree`: the local `res` (= `t`), `return res.RemoveUselessStates();`, then the destructor of `res` -/
def candidateOps (src dst t : Nat) : List Op := .candRaw src t :: uselessOps t dst (t + 1) ++ [.destroy t]

def step (H : HeapFA) : Op → HeapFA
  | .useless src dst =>
    if src ∈ H.core.hl ∧ dst ∉ H.core.hl then (uselessOps src dst (tmpBase H.core dst)).foldl stepB H else H
  | .candidate src dst =>
    if src ∈ H.core.hl ∧ dst ∉ H.core.hl then (candidateOps src dst (tmpBase H.core dst)).foldl stepB H else H
  | op => stepB H op

/-- `Union(lhs, rhs)` with the two translators given as functions: `ExplicitFiniteAutCore res;
    lhs.ReindexStates(res, stateTransLhs); rhs.ReindexStates(res, stateTransRhs); return res;` -/
def unionOps (a b dst : Nat) (fA fB : Nat → Nat) : List Op := [.new dst, .reindex a dst fA, .reindex b dst fB]

/-! ### abstraction and value-level specification -/

/-- handle ⇀ value -/
def absFA (H : HeapFA) : Nat → Option FAVal := fun h => if h ∈ H.core.hl then some (valOf H h) else none

def specInit : Nat → Option FAVal := fun _ => none

/-- a mutator changes the value of its object only -/
def spec1 (a : Nat → Option FAVal) (h : Nat) (f : FAVal → FAVal) : Nat → Option FAVal :=
  match a h with
  | some s => upd a h (some (f s))
  | none => a

/-- a library result is a new value computed from the value of the operand -/
def specRes (a : Nat → Option FAVal) (src dst : Nat) (f : FAVal → FAVal) : Nat → Option FAVal :=
  match a src with
  | some s => if (a dst).isNone then upd a dst (some (f s)) else a
  | none => a

/-- independent values: every operation changes only the value of its target handle -/
def specStep (a : Nat → Option FAVal) : Op → (Nat → Option FAVal)
  | .new h => if (a h).isSome then a else upd a h (some vNew)
  | .copy src dst | .moveCtor src dst => specRes a src dst id
  | .assign src dst | .moveAssign src dst =>
    match a src with
    | some s => if (a dst).isSome ∧ src ≠ dst then upd a dst (some s) else a
    | none => a
  | .setFinal h q => spec1 a h (vSetFinal q)
  | .setStart h q s => spec1 a h (vSetStart q s)
  | .setExistingStart h q S => spec1 a h (vSetExistingStart q S)
  | .add h l s r => spec1 a h (vAdd l s r)
  | .destroy h => upd a h none
  | .reindex src dst idx =>
    match a src, a dst with
    | some s, some d => if src ≠ dst then upd a dst (some (vReindex idx s d)) else a
    | _, _ => a
  | .unionDisj x y dst =>
    match a x, a y with
    | some s, some t => if (a dst).isNone then upd a dst (some (vUnionDisj s t)) else a
    | _, _ => a
  | .unreach src dst => specRes a src dst vUnreach
  | .reverse src dst => specRes a src dst vReverse
  | .candRaw src dst => specRes a src dst vCandRaw
  | .useless src dst => specRes a src dst vUseless
  | .candidate src dst => specRes a src dst vCandidate

/-- the handle an operation may change -/
def target : Op → Nat
  | .new h => h | .copy _ d => d | .moveCtor _ d => d | .assign _ d => d | .moveAssign _ d => d
  | .setFinal h _ => h | .setStart h _ _ => h | .setExistingStart h _ _ => h | .add h _ _ _ => h | .destroy h => h
  | .reindex _ d _ => d | .unionDisj _ _ d => d | .unreach _ d => d | .reverse _ d => d | .candRaw _ d => d
  | .useless _ d => d | .candidate _ d => d

/-! ### executable history runner and invariant checker -/

/-- the live handles (ascending) with the values read through them -/
def observe (H : HeapFA) : List (Nat × FAVal) :=
  ((List.range H.core.next).filter (fun h => H.core.hl.contains h)).map (fun h => (h, valOf H h)) ++
  (H.core.hl.filter (fun h => decide (H.core.next ≤ h))).reverse.map (fun h => (h, valOf H h))

/-- the heaps after every step of a history (for a driver: compare `observe` of each with the real objects) -/
def trace (ops : List Op) : List HeapFA :=
  (ops.foldl (fun (acc : HeapFA × List HeapFA) op => let H := step acc.1 op; (H, acc.2 ++ [H])) (initFA, [])).2

/-- what a driver compares with the real class: the values of all live handles after every step -/
def run (ops : List Op) : List (List (Nat × FAVal)) := (trace ops).map observe

/-- the final heap of a history -/
def exec (ops : List Op) : HeapFA := ops.foldl step initFA

/-- the reference-count invariant concerns the shared part only -/
def invBFA (H : HeapFA) : Bool := CowHeap.invB H.core

/-! ### the two wrong variants (for the regression theorems) -/

/-- `uniqueCluster` WITHOUT its `else if (!clusterPtr.unique())` branch ("the map is private, so the cluster is") -/
def modClusterNoTest (H : Heap) (h q : Nat) (G : Cluster → Cluster) : Heap :=
  let m := H.hmap h
  match (H.ment m).lookup q with
  | none => setEntry (allocCluster H (G [])) m q H.next
  | some c => writeCluster H c (G (H.cdat c))

/-- the class with that `uniqueCluster` -/
def stepNoClusterTest (H : HeapFA) : Op → HeapFA
  | .add h l a r => mut1 H h (fun c => modClusterNoTest (uniqueMap c h) h l (addToCluster a [r])) (vAdd l a r)
  | op => step H op

/-- `UnionDisjointStates` writing `res.transitions_->insert(…)` WITHOUT `uniqueClusterMap()` -/
def unionDisjCoreNoUnique (H : Heap) (a b dst : Nat) : Heap :=
  let H1 := CowHeap.step H (.copy a dst)
  insertRange H1 (H1.hmap dst) (H1.ment (H1.hmap b))

/-- the class with that `UnionDisjointStates` -/
def stepNoUniqueMap (H : HeapFA) : Op → HeapFA
  | .unionDisj a b dst =>
    if a ∈ H.core.hl ∧ b ∈ H.core.hl ∧ dst ∉ H.core.hl then
      ⟨unionDisjCoreNoUnique H.core a b dst, upd H.mem dst (vUnionDisj (valOf H a) (valOf H b)).mem⟩
    else H
  | op => step H op

end Vata.CowHeapFA
