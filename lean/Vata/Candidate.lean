import Vata.Ref
/-!
# Executable model of `GetCandidateTree` (`src/explicit_tree_candidate.cc`), property C15

Definitions only (core Lean, linked into the driver); the theorems are in `Vata/Proofs/Candidate.lean`.

The C++ enumerates the transitions once (hash-map order), and everything else (the per-state vectors `stateMap[s]`,
the FIFO work-list `newStates`) is determined by that enumeration order.  The model uses the LIST ORDER of `A.rules`
as the enumeration order; `candidateOrd` takes the order as a parameter.  The theorems hold for every order.

* phase 1: every leaf rule is recorded (`reachableTransitions`), its parent is marked reached and queued when new;
  every other rule gets an info record with the SET of its children (`childrenSet_`), `remaining` is increased by the
  size of that set;
* phase 2: pop a state `q`, walk through the info records that still wait for `q` (`reachedBy`): erase `q`; when the
  set becomes empty, `--remaining`, and if the parent is new: mark reached, record the rule, queue the parent, and
  stop everything (`goto found_`) when the parent is final;
* result: final states = final states that were reached; rules = ALL rules of `A` when `remaining = 0`, the recorded
  rules otherwise; finally `RemoveUnreachableStates`.
-/
namespace Vata

/-- a transition together with the set of its children that have not been processed yet (`TransitionInfo`) -/
abbrev CInfo := Rule × List Nat

structure CState where
  /-- `reachableStates` (in insertion order) -/
  reached : List Nat
  /-- `reachableTransitions` -/
  recorded : List Rule
  /-- `newStates` (front = head) -/
  queue : List Nat
  remaining : Nat
deriving Repr

/-- phase 1, one transition -/
def candInitStep (acc : CState × List CInfo) (r : Rule) : CState × List CInfo :=
  if r.kids.isEmpty then
    if acc.1.reached.contains r.parent then
      ({ acc.1 with recorded := acc.1.recorded ++ [r] }, acc.2)
    else
      ({ acc.1 with recorded := acc.1.recorded ++ [r], reached := acc.1.reached ++ [r.parent],
                    queue := acc.1.queue ++ [r.parent] }, acc.2)
  else
    ({ acc.1 with remaining := acc.1.remaining + (dedupL r.kids).length }, acc.2 ++ [(r, dedupL r.kids)])

/-- phase 1 -/
def candInit : List Rule → CState × List CInfo → CState × List CInfo
  | [], acc => acc
  | r :: rs, acc => candInit rs (candInitStep acc r)

/-- phase 2, one info record while processing the state `q`; the Boolean is the `goto found_` -/
def candStepInfo (final : List Nat) (q : Nat) (i : CInfo) (st : CState) : CState × CInfo × Bool :=
  if i.2.contains q then
    let rem' := i.2.filter (fun k => k != q)
    if rem'.isEmpty then
      if st.reached.contains i.1.parent then
        ({ st with remaining := st.remaining - 1 }, (i.1, rem'), false)
      else
        ({ reached := st.reached ++ [i.1.parent], recorded := st.recorded ++ [i.1],
           queue := st.queue ++ [i.1.parent], remaining := st.remaining - 1 }, (i.1, rem'),
         final.contains i.1.parent)
    else (st, (i.1, rem'), false)
  else (st, i, false)

/-- phase 2, the inner loop over the info records (aborted by `goto found_`) -/
def candProcInfos (final : List Nat) (q : Nat) : List CInfo → CState → CState × List CInfo × Bool
  | [], st => (st, [], false)
  | i :: is, st =>
    let s := candStepInfo final q i st
    if s.2.2 then (s.1, s.2.1 :: is, true)
    else
      let p := candProcInfos final q is s.1
      (p.1, s.2.1 :: p.2.1, p.2.2)

/-- phase 2, the work-list loop; every state is queued at most once, so `|rules|` rounds suffice -/
def candLoop (final : List Nat) : Nat → List CInfo → CState → CState
  | 0, _, st => st
  | n+1, infos, st =>
    match st.queue with
    | [] => st
    | q :: qs =>
      let p := candProcInfos final q infos { st with queue := qs }
      if p.2.2 then p.1 else candLoop final n p.2.1 p.1

/-- the state of the search at `found_` -/
def candSearch (A : TA) : CState :=
  let i := candInit A.rules (⟨[], [], [], 0⟩, [])
  candLoop A.final (A.rules.length + 1) i.2 i.1

/-- the automaton before the final `RemoveUnreachableStates` -/
def candRaw (A : TA) : TA :=
  let st := candSearch A
  ⟨if st.remaining == 0 then A.rules else st.recorded, A.final.filter (fun q => st.reached.contains q)⟩

/-- model of `GetCandidateTree`, enumeration order = list order of `A.rules` -/
def candidate (A : TA) : TA := removeUnreachable (candRaw A)

/-- model of `GetCandidateTree` with the enumeration order of the transitions as a parameter -/
def candidateOrd (ord : List Rule → List Rule) (A : TA) : TA := candidate ⟨ord A.rules, A.final⟩

/-- what a caller may rely on: a sub-automaton that is empty exactly if `A` is -/
def candidateOkB (A C : TA) : Bool :=
  rulesSub C.rules A.rules && subB C.final A.final && (isEmptyRef C == isEmptyRef A)

end Vata
