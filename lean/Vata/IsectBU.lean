import Vata.IsectModel
/-!
# Executable model of `IntersectionBU` (`src/explicit_tree_isect_bu.cc`), property C02

Definitions only (core Lean, linked into the driver); the theorems are in `Vata/Proofs/IsectBU.lean`.

The C++ builds the product bottom-up, so only pairs `(p, q)` that label a common tree are ever created:

* **leaf phase**: for every pair of leaf rules `a → p` of `A`, `a → q` of `B` the pair `(p, q)` is inserted into the
  translation map (`pTranslMap->insert(make_pair(pair, pTranslMap->size()))`, the size is the fresh number), the rule
  `a → m(p,q)` is added, the pair is marked final when both components are, and the map entry is pushed on the stack;
* **loop**: an entry `((p, q), k)` is popped; when `k ∈ newStates` it is skipped, otherwise `k` is added to `newStates`,
  the state is marked final when both components are, and every pair of rules `f(…p…) → p'` of `A` and `f(…q…) → q'` of `B`
  having `p` resp. `q` at the SAME position (the bottom-up index `lhsIndex[p][f][i]`, `rhsIndex[q][f][i]`) is examined:
  the parent pair `(p', q')` is inserted TENTATIVELY (`isNewState`), the children pairs are looked up; when one of them is
  unknown, or is the just inserted parent pair itself (`isSelfLoopToNewState`), the tentative entry is erased again and
  the rule pair is skipped; otherwise the rule `f(m(children)) → m(p',q')` is added and the entry is pushed.

`buMatching` lists the examined rule pairs in list order (the C++ iterates hash containers: symbols, positions, rules);
a pair of rules is listed once per common position, as in the C++.  The ranked alphabet of the C++ (a symbol has one
arity; `assert(rhsTrans.children().size() == lhsTrans.children().size())`) appears as the arity test in `buMatching`
and `buLeafPairs`.  The tests `genericLookup(*lhs.transitions_, …)` of the C++ (is the component the parent of a rule
at all?) always succeed on discovered pairs and are left out.

The loop has fuel (one unit per pop).  The result is returned *certify-then-trust*, only after the Boolean check
`buCertB`: the numbering is injective, the discovered set `D` of pairs is BOTTOM-UP CLOSED (`buClosedB`: the parent pair of
two matching rules all of whose children pairs are in `D` is in `D`), the rules of the result are exactly (as a set) the
product rules all of whose children pairs are in `D`, numbered by the map, and the final states are exactly the numbers
of the pairs of `D` with two final components.  `Vata/Proofs/IsectBU.lean` proves that such a product accepts exactly
the intersection (`isect_bu_cert`, `isectBU_lang`), `Vata/Proofs/IsectBUInv.lean` that the check can never fail on what
the loop computes (`isectBU_of_loop`), `Vata/Proofs/IsectBUTotal.lean` that the fuel `isectBUFuel` suffices.
-/
namespace Vata

/-- an entry of the stack: a pointer to an element of the translation map, i.e. a pair with its number -/
abbrev BUEntry := (Nat × Nat) × Nat

/-- `pTranslMap->insert(make_pair(p, pTranslMap->size()))`: the map, the number of `p`, and `isNewState` -/
def buInsert (m : PMap) (p : Nat × Nat) : PMap × Nat × Bool :=
  match m.lookup p with
  | some n => (m, n, false)
  | none => (m ++ [(p, m.length)], m.length, true)

/-- `pTranslMap->erase(p)` -/
def buErase (m : PMap) (p : Nat × Nat) : PMap := m.filter (fun e => !(e.1 == p))

/-- the pairs of leaf rules with the same symbol -/
def buLeafPairs (A B : TA) : List (Rule × Rule) :=
  (A.rules.filter (fun r => r.kids.isEmpty)).flatMap (fun r =>
    (B.rules.filter (fun r' => r'.kids.isEmpty && r'.sym == r.sym)).map (fun r' => (r, r')))

/-- the leaf phase: map, stack, rules, final states -/
def buLeafPhase (A B : TA) : List (Rule × Rule) → PMap → List BUEntry → List Rule → List Nat →
    PMap × List BUEntry × List Rule × List Nat
  | [], m, st, rs, fs => (m, st, rs, fs)
  | rr :: rest, m, st, rs, fs =>
    let i := buInsert m (rr.1.parent, rr.2.parent)
    buLeafPhase A B rest i.1 (((rr.1.parent, rr.2.parent), i.2.1) :: st) (rs ++ [⟨rr.1.sym, [], i.2.1⟩])
      (if A.final.contains rr.1.parent && B.final.contains rr.2.parent then fs ++ [i.2.1] else fs)

/-- the rule pairs examined for a popped pair `pr`: same symbol and arity, `pr.1` and `pr.2` at a common position -/
def buMatching (A B : TA) (pr : Nat × Nat) : List (Rule × Rule) :=
  A.rules.flatMap (fun r => (List.range r.kids.length).flatMap (fun i =>
    if r.kids[i]? == some pr.1 then
      (B.rules.filter (fun r' => r'.sym == r.sym && r'.kids.length == r.kids.length && r'.kids[i]? == some pr.2)).map
        (fun r' => (r, r'))
    else []))

/-- the children tuple of the product rule; `none` (`allTupleInProduct = false`) when a children pair is unknown or is
the tentatively inserted parent pair -/
def buKidsTr (m : PMap) (isNew : Bool) (par : Nat × Nat) : List (Nat × Nat) → Option (List Nat)
  | [] => some []
  | c :: cs =>
    match m.lookup c with
    | none => none
    | some n => if isNew && c == par then none else (buKidsTr m isNew par cs).map (n :: ·)

/-- the body of the innermost loop for one pair of rules -/
def buProcPair (r r' : Rule) (m : PMap) (st : List BUEntry) (rs : List Rule) : PMap × List BUEntry × List Rule :=
  let i := buInsert m (r.parent, r'.parent)
  match buKidsTr i.1 i.2.2 (r.parent, r'.parent) (r.kids.zip r'.kids) with
  | none => (if i.2.2 then buErase i.1 (r.parent, r'.parent) else i.1, st, rs)
  | some tuple => (i.1, ((r.parent, r'.parent), i.2.1) :: st, rs ++ [⟨r.sym, tuple, i.2.1⟩])

def buProcAll : List (Rule × Rule) → PMap → List BUEntry → List Rule → PMap × List BUEntry × List Rule
  | [], m, st, rs => (m, st, rs)
  | rr :: rest, m, st, rs =>
    buProcAll rest (buProcPair rr.1 rr.2 m st rs).1 (buProcPair rr.1 rr.2 m st rs).2.1 (buProcPair rr.1 rr.2 m st rs).2.2

/-- the work-list loop (`ns` is `newStates`); `none` when the fuel ends before the stack is empty -/
def buLoop (A B : TA) : Nat → PMap → List BUEntry → List Nat → List Rule → List Nat → Option (PMap × List Rule × List Nat)
  | 0, m, st, _, rs, fs => if st.isEmpty then some (m, rs, fs) else none
  | _+1, m, [], _, rs, fs => some (m, rs, fs)
  | n+1, m, e :: st, ns, rs, fs =>
    if ns.contains e.2 then buLoop A B n m st ns rs fs
    else
      buLoop A B n (buProcAll (buMatching A B e.1) m st rs).1 (buProcAll (buMatching A B e.1) m st rs).2.1 (e.2 :: ns)
        (buProcAll (buMatching A B e.1) m st rs).2.2
        (if A.final.contains e.1.1 && B.final.contains e.1.2 then fs ++ [e.2] else fs)

/-! ### the product on a bottom-up closed set of pairs, and the certificate check -/

/-- the product rules all of whose children pairs are in `D`, numbered by `m` -/
def prodRulesBU (A B : TA) (D : List (Nat × Nat)) (m : Nat × Nat → Nat) : List Rule :=
  A.rules.flatMap (fun r => (B.rules.filter (fun r' => r'.sym == r.sym && r'.kids.length == r.kids.length
      && (r.kids.zip r'.kids).all (fun pr => D.contains pr))).map
    (fun r' => ⟨r.sym, (r.kids.zip r'.kids).map m, m (r.parent, r'.parent)⟩))

/-- the numbers of the pairs of `D` with two final components -/
def prodFinalBU (A B : TA) (D : List (Nat × Nat)) (m : Nat × Nat → Nat) : List Nat :=
  (D.filter (fun pr => A.final.contains pr.1 && B.final.contains pr.2)).map m

def prodBU (A B : TA) (D : List (Nat × Nat)) (m : Nat × Nat → Nat) : TA := ⟨prodRulesBU A B D m, prodFinalBU A B D m⟩

/-- `D` is bottom-up closed: it contains the parent pair of matching rules all of whose children pairs are in `D` -/
def buClosedB (A B : TA) (D : List (Nat × Nat)) : Bool :=
  A.rules.all (fun r => B.rules.all (fun r' =>
    !(r'.sym == r.sym && r'.kids.length == r.kids.length && (r.kids.zip r'.kids).all (fun pr => D.contains pr)) ||
      D.contains (r.parent, r'.parent)))

/-- different pairs have different numbers (checked on all entries) -/
def pmapInjB (m : PMap) : Bool := m.all (fun e => m.all (fun e' => e.2 != e'.2 || e.1 == e'.1))

/-- the certificate check on the output of the loop -/
def buCertB (A B : TA) (m : PMap) (rs : List Rule) (fs : List Nat) : Bool :=
  pmapInjB m && buClosedB A B m.dom && rulesEq rs (prodRulesBU A B m.dom (lookupF m)) &&
    seteq fs (prodFinalBU A B m.dom (lookupF m))

/-- model of `IntersectionBU`: the product automaton and the translation map -/
def isectBU (A B : TA) (fuel : Nat) : Option (TA × PMap) :=
  let l := buLeafPhase A B (buLeafPairs A B) [] [] [] []
  match buLoop A B fuel l.1 l.2.1 [] l.2.2.1 l.2.2.2 with
  | none => none
  | some (m, rs, fs) => if buCertB A B m rs fs then some (⟨rs, fs⟩, m) else none

/-- a generous bound on the number of pops: every push belongs to a pair of leaf rules or to a processed pair of states
together with a pair of rules and a position -/
def isectBUFuel (A B : TA) : Nat :=
  A.rules.length * B.rules.length +
    (A.states.length * B.states.length) *
      (A.rules.length * B.rules.length * (A.rules.foldl (fun a r => max a r.kids.length) 0)) + 1

def isectBURef (A B : TA) : Option (TA × PMap) := isectBU A B (isectBUFuel A B)

end Vata
