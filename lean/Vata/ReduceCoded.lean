import Vata.SimPipeline
import Vata.RenameCoded
import Vata.TrimCoded
/-!
# `Reduce` end to end ON THE STORE: coded simulation pipeline + coded collapse + coded trimming (property C05 / C14 / C03)

Definitions only (and `#guard` self-tests); the proofs are in `Vata/Proofs/ReduceCoded.lean`,
`Vata/Proofs/ReduceCodedSize.lean` and `Vata/Proofs/ReduceCodedInv.lean`, the user-facing theorems in `Vata/Properties/C05_Coded.lean`.

C++ (`src/explicit_tree_aut_core.cc`):

```
ExplicitTreeAutCore ExplicitTreeAutCore::Reduce(const ReduceParam& params) const
{
  using StateMap = std::unordered_map<StateType, StateType>;
  size_t stateCnt = 0;
  StateMap stateMap;
  Util::TranslatorWeak<StateMap> stateTranslator(stateMap, [&stateCnt](const StateType&){ return stateCnt++; });
  this->BuildStateIndex(stateTranslator);                                     // (1)
  SimParam simParam;
  switch (params.GetRelation()) {
    case ReduceParam::e_reduce_relation::TA_DOWNWARD:
      simParam.SetRelation(SimParam::e_sim_relation::TA_DOWNWARD);
      simParam.SetNumStates(stateCnt); break;                                  // (2)
    default: assert(false);
  }
  StateDiscontBinaryRelation sim = this->ComputeSimulation(simParam);          // (3)
  sim.RestrictToSymmetric();                                                   // (4)
  using StateToStateMap = std::unordered_map<StateType, StateType>;
  StateToStateMap collapseMap;
  sim.GetQuotientProjection(collapseMap);                                      // (5)
  ExplicitTreeAutCore aut = this->CollapseStates(collapseMap);                 // (6)
  aut = aut.RemoveUnreachableStates();                                         // (7)
  return aut;
}
```

## How it is read into the model

* (1), (2): as in `Vata/SimPipeline.lean` – of `BuildStateIndex` only the counter is used, `stateCnt` = the number of states.
* (3): `SimPipe.computeSimDownDisc` – fresh translator, `TranslateDownward` as coded, the ENGINE MODEL, `buildResult`,
  `StateDiscontBinaryRelation(ltsSim, translMap)`.
* (4), (5): `BinRel.Disc.restrictToSymmetric`, `BinRel.Disc.quotProj` of the CLASS model (flat `std::vector<bool>`, two-way
  dictionary).  `collapseMap` is the association list `quotProj` returns (keys pairwise different, so first-match look-up is
  `unordered_map` look-up).
* (6): `CollapseStates(collapseMap)` = `ReindexStates(collapseMap)`; the template's `index.at(state)` is
  `std::unordered_map::at`, which THROWS `std::out_of_range` on a missing key and never changes the container: that is the
  translator object `RenameCoded.strictT` with the container `collapseMap`.  The loops are `RenameCoded.collapseCoded` on the
  three-level store (final states first, then per cluster `uniqueCluster`, per symbol `uniqueTuplePtrSet`, per tuple the children
  left to right and the `insert`).
* (7): `TrimCoded.unreachCoded` (work-list, the repaired shortcut `return *this`, the rebuild over `reachableStates`), run on
  the rule list the destination store yields in ITS iteration order (`RenameCoded.toTA`).

The automaton is given twice: `S : Store` is the object `*this` whose clusters (6) walks, `simA : TA` is the rule list in the
order in which the loops of (3) meet the transitions.  In the C++ both are the same hash containers, so the faithful instance is
`reduceStoreCoded S = reduceCodedOn (RenameCoded.toTA S) S` (one order).  `reduceFullyCoded A = reduceCodedOn A (ofTA A)` takes the rule
list of the protocol for (3) – so that it can be compared literally with `SimPipe.reduceAsCoded A` – and the store the loader
builds from it (`AddTransition` per rule, `SetStatesFinal`) for (6).  Every theorem holds for both (they only need that `simA`
and `S` have the same SETS of rules and final states, and the store invariant of C12 for `S`).

Outcomes: `simFailed` = the engine model ran out of its internal fuel or a dictionary look-up of `GetQuotientProjection`
failed; `threw k` = `collapseMap.at(k)` threw inside `CollapseStates`.  NEITHER happens (`reduceCodedOn_total`): the answer is
always `ok`.
-/
namespace Vata.ReduceCoded
open Vata Vata.Store Vata.RenameCoded Vata.TrimCoded Vata.SimPipe Vata.BinRel

/-- what a call of `Reduce` can do -/
inductive Outcome where
  /-- the engine model ran out of fuel / `GetQuotientProjection` failed on the dictionary (never happens) -/
  | simFailed
  /-- `collapseMap.at(key)` threw `std::out_of_range` in `CollapseStates` (never happens) -/
  | threw (key : Nat)
  /-- the returned automaton, as the rule list / final-state list it yields -/
  | ok (B : TA)
deriving Repr

/-- `Reduce`, the calls it makes in the order it makes them; `simA` = the transitions as (3) meets them, `S` = the store (6) walks -/
def reduceCodedOn (simA : TA) (S : Store) : Outcome :=
  -- (1) this->BuildStateIndex(stateTranslator);   (2) simParam.SetNumStates(stateCnt);
  let stateCnt := simA.states.length
  -- (3) StateDiscontBinaryRelation sim = this->ComputeSimulation(simParam);
  match computeSimDownDisc simA stateCnt with
  | none => .simFailed
  | some sim =>
    -- (4) sim.RestrictToSymmetric();
    let sim := sim.restrictToSymmetric
    -- (5) sim.GetQuotientProjection(collapseMap);
    match sim.quotProj with
    | .error _ => .simFailed
    | .ok collapseMap =>
      -- (6) ExplicitTreeAutCore aut = this->CollapseStates(collapseMap);
      match collapseCoded strictT S collapseMap with
      | .error e => .threw e.1
      | .ok aut =>
        -- (7) aut = aut.RemoveUnreachableStates();  return aut;
        .ok (unreachCoded (RenameCoded.toTA aut.1))

/-- `Reduce` on the store the loader builds from the protocol's automaton -/
def reduceFullyCoded (A : TA) : Outcome := reduceCodedOn A (ofTA A)

/-- `Reduce` on a store: one iteration order for the simulation and for the collapse -/
def reduceStoreCoded (S : Store) : Outcome := reduceCodedOn (RenameCoded.toTA S) S

/-- the store `CollapseStates` returns inside `Reduce` (before trimming), for inspection by the driver -/
def collapsedStore (A : TA) : Option Store :=
  match collapseMapAsCoded A with
  | none => none
  | some m =>
    match collapseCoded strictT (ofTA A) m with
    | .error _ => none
    | .ok aut => some aut.1

def Outcome.toOption : Outcome → Option TA
  | .ok B => some B
  | _ => none

/-- the key whose look-up threw, if the call ended that way -/
def Outcome.thrownKey : Outcome → Option Nat
  | .threw k => some k
  | _ => none

/-- driver entry point: `none` only for `simFailed` / `threw` (never, `reduceFullyCodedTA_total`) -/
def reduceFullyCodedTA (A : TA) : Option TA := (reduceFullyCoded A).toOption

/-- driver entry point, one-order variant: the automaton is loaded into the store and BOTH the simulation and the collapse use
the store's iteration order -/
def reduceStoreCodedTA (A : TA) : Option TA := (reduceStoreCoded (ofTA A)).toOption

/-- same sets of rules and of final states (Boolean) -/
def sameSetsB (A B : TA) : Bool :=
  A.rules.all (fun r => B.rules.contains r) && B.rules.all (fun r => A.rules.contains r) &&
  A.final.all (fun q => B.final.contains q) && B.final.all (fun q => A.final.contains q)

/-- a → 0, g(0,1) → 2, a → 1, g(1,0) → 3, h(2) → 4, b → 0, b → 1; F = {2, 3}: `0 ≈ 1`, `2 ≈ 3`, `4` is not reachable
top-down from a final state.  The rules of one parent are NOT adjacent: the store groups them. -/
def exR : TA := ⟨[⟨0, [], 0⟩, ⟨1, [0, 1], 2⟩, ⟨0, [], 1⟩, ⟨1, [1, 0], 3⟩, ⟨2, [2], 4⟩, ⟨3, [], 0⟩, ⟨3, [], 1⟩], [2, 3]⟩

end Vata.ReduceCoded

/-! ### self-tests -/
namespace Vata.ReduceCodedTest
open Vata Vata.SimPipe Vata.SimPipeTest Vata.ReduceCoded Vata.RenameCoded

def fullOk (seed : Nat) : Bool :=
  let A := (genTA seed).1
  match reduceFullyCodedTA A, reduceAsCoded A with
  | some B', some B => sameSetsB B' B && nodupRules B'.rules && decide (B'.rules.length ≤ A.rules.eraseDups.length)
  | _, _ => false

def storeOk (seed : Nat) : Bool :=
  let A := (genTA seed).1
  match reduceStoreCodedTA A, reduceAsCoded (RenameCoded.toTA (ofTA A)) with
  | some B', some B => sameSetsB B' B && (equivM B' A 6 == some true)
  | _, _ => false

-- 300 pseudo-random ranked automata: the fully coded `Reduce` returns, and its result has the rule / final sets of `reduceAsCoded`
#guard count fullOk 0 300 == 300
#guard count storeOk 0 300 == 300
-- the store `CollapseStates` returns inside `Reduce` satisfies the FULL store invariant (proved: `collapse_strict_value`)
#guard count (fun s => match collapsedStore (genTA s).1 with | some d => Store.invB d | none => false) 0 300 == 300
#guard (reduceFullyCodedTA exR).isSome
-- a store with an empty cluster (outside the store invariant): its owner is looked up although no rule mentions it
#guard (reduceStoreCoded ⟨[(9, [])], []⟩).thrownKey == some 9
#guard (reduceFullyCodedTA exR).map (fun B => (B.rules, B.final)) == some ([⟨1, [0, 0], 2⟩, ⟨0, [], 0⟩, ⟨3, [], 0⟩], [2])
#guard (collapsedStore exR).map (fun s => (s.clusters, s.final)) ==
  some ([(0, [(0, [[]]), (3, [[]])]), (2, [(1, [[0, 0]])]), (4, [(2, [[2]])])], [2])
#guard (reduceAsCoded exR).map (fun B => (B.rules, B.final)) ==
  some ([⟨0, [], 0⟩, ⟨1, [0, 0], 2⟩, ⟨0, [], 0⟩, ⟨1, [0, 0], 2⟩, ⟨3, [], 0⟩, ⟨3, [], 0⟩], [2, 2])

end Vata.ReduceCodedTest
