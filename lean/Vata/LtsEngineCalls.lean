import Vata.LtsEngine
import Vata.LtsUtil
/-!
# The LTS simulation engine, instrumented with the calls it makes on its helper classes (property C16 / C20)

`Vata/LtsEngine.lean` models `SimulationEngine` (`src/explicit_lts_sim.cc`) with the helper classes abstracted to VALUES;
`Vata/LtsUtil.lean` models the helper classes AS CODED, with refinement theorems that hold for call histories inside a
call discipline (`SS.ok`, `SR.ok`, …).  This file is the bridge: the same engine functions, but every function additionally
emits the TRACE of the calls the C++ makes on

* the `SmartSet`s (`Tr.ss : List SS.Op`): the temporary and the sets `delta1[a]` of `ExplicitLTS::buildDelta1`, the `inset_`
  of every `Block` (both constructors), the scratch set `s` of `init`;
* the `SplittingRelation` `relation_` (`Tr.sr : List SR.Op`): `init(index)`, `split(block->index_)`, and the erase loops over
  a row (one `eraseRow` per loop `for (col = row.begin(); col != row.end(); ++col) if (mask[*col]) erase(col)`).

One list per class, each in the order the C++ makes the calls (the interleaving BETWEEN classes is not recorded: the classes
share no memory).  Read-only calls (`contains`, `empty`, iteration, `size`) are not calls of the histories of `Vata/LtsUtil.lean`
and are not emitted.

## object numbering of the `SmartSet` world (`SS.World` is the list of live sets in creation order)

`0` the temporary `SmartSet(states_)` of `buildDelta1`, `a + 1` the set `delta1[a]`; then one set per `Block` in creation
order, with the scratch set `s` of `init` (declared behind the initial refinement) in between: `objI L i` for the blocks made
before `s`, `objR L nb0 i` in general (`nb0` = number of blocks after the initial refinement), `sObj L nb0` for `s`.

The instrumented functions are writers `Eng × Tr → Eng × Tr`; the two `Block` constructor loops and the loops over `s` emit their
calls in closed form (`ctor1T`, `ctor2T`, `slotT`).  `Vata/Proofs/LtsEngineCalls.lean`: erasure (`…I … .1 =` the plain function).
-/
namespace Vata.LEC
open Vata.L Vata.LE Vata.LU

/-- the calls made so far, one history per helper class -/
structure Tr where
  ss : List SS.Op
  sr : List SR.Op
deriving Repr

def Tr.empty : Tr := ⟨[], []⟩
def Tr.addSS (t : Tr) (ops : List SS.Op) : Tr := { t with ss := t.ss ++ ops }
def Tr.addSR (t : Tr) (ops : List SR.Op) : Tr := { t with sr := t.sr ++ ops }

abbrev IE := Eng × Tr

/-! ### `ExplicitLTS::buildDelta1` -/

/-- `data_[a].first.size()`: `addTransition(q, a, r)` resizes it to `q + 1` -/
def srcBound (L : LTS) (a : Nat) : Nat := L.edges.foldl (fun m e => if e.2.1 == a then max m (e.1 + 1) else m) 0

/-- ```
delta1.resize(this->data_.size(), Util::SmartSet(this->states_));
for (a …) for (q = 0; q < data_[a].first.size(); ++q) delta1[a].init(q, delta1[a].count(q) + data_[a].first[q].size());
```
(`count(q)` is `0`: every `q` is visited once) -/
def delta1T (L : LTS) : List SS.Op :=
  SS.Op.new L.n :: ((List.range (labels L)).map (fun _ => SS.Op.copy 0) ++
    (List.range (labels L)).flatMap (fun a => (List.range (srcBound L a)).map (fun q => SS.Op.init (a + 1) q (post L a q).length)))

/-- the value of `delta1[a]`: the states with an outgoing `a`-edge, increasing, with the number of these edges -/
def dItems (L : LTS) (a : Nat) : List (Nat × Nat) := (delta1 L a).map (fun q => (q, (post L a q).length))

/-- the `SmartSet` world after `buildDelta1` -/
def aDelta (L : LTS) : SS.AWorld :=
  ⟨[], L.n, false⟩ :: (List.range (labels L)).map (fun a => ⟨dItems L a, L.n, false⟩)

/-! ### object numbers -/

/-- the inset of block `i` made before the scratch set `s` -/
def objI (L : LTS) (i : Nat) : Nat := labels L + 1 + i
/-- the scratch set `s` of `init` -/
def sObj (L : LTS) (nb0 : Nat) : Nat := labels L + 1 + nb0
/-- the inset of block `i` in general -/
def objR (L : LTS) (nb0 i : Nat) : Nat := if i < nb0 then labels L + 1 + i else labels L + 2 + i

/-! ### the `Block` constructors -/

/-- first constructor: `inset_(lts.labels())`, then `for (a : lts.bwLabels(states->index_)) this->inset_.add(a)` along the list -/
def ctor1T (L : LTS) (o : Nat) (states : List Nat) : List SS.Op :=
  SS.Op.new (labels L) :: (states.flatMap (bwLabels L)).map (SS.Op.add o)

/-- second constructor: `inset_(lts.labels())`, then `parent.inset_.removeStrict(a); this->inset_.add(a);` -/
def ctor2T (L : LTS) (po o : Nat) (states : List Nat) : List SS.Op :=
  SS.Op.new (labels L) :: (states.flatMap (bwLabels L)).flatMap (fun a => [SS.Op.removeStrict po a, SS.Op.add o a])

/-- `makeBlock(partition[i], i)` for `i = k, k+1, …` -/
def blocksT (L : LTS) (obj : Nat → Nat) : Nat → List (List Nat) → List SS.Op
  | _, [] => []
  | i, b :: bs => ctor1T L (obj i) (mkBlockList b) ++ blocksT L obj (i + 1) bs

/-- `makeBlock` for all blocks; `relation.buildIndex(index); this->relation_.init(index)` -/
def initBlocksI (L : LTS) (obj : Nat → Nat) (part : List (List Nat)) (rel : Rel) (t : Tr) : IE :=
  let e := initBlocks L part rel
  (e, (t.addSS (blocksT L obj 0 part)).addSR [SR.Op.init e.rel])

/-! ### splitting -/

/-- `new Block(lts_, *block, p.first, p.second, partition_.size())`, `partition_.push_back`, `relation_.split(block->index_)` -/
def splitBlockCoreI (L : LTS) (obj : Nat → Nat) (et : IE) (b : Nat) (rest new : List Nat) : IE :=
  (splitBlockCore L et.1 b rest new,
   (et.2.addSS (ctor2T L (obj b) (obj et.1.part.length) new)).addSR [SR.Op.split b])

def fastSplitStepI (L : LTS) (obj : Nat → Nat) (part0 : List (List Nat)) (remove : List Nat) (et : IE) (b : Nat) : IE :=
  match trySplit (et.1.block b) (tmpOf part0 remove b) with
  | none => et
  | some (rest, new) => splitBlockCoreI L obj et b rest new

/-- `fastSplit(remove)` -/
def fastSplitI (L : LTS) (obj : Nat → Nat) (et : IE) (remove : List Nat) : IE :=
  (modifiedBlocks et.1.part remove).foldl (fastSplitStepI L obj et.1.part remove) et

/-- "make initial refinement" -/
def initRefineI (L : LTS) (obj : Nat → Nat) (et : IE) : IE :=
  (List.range (labels L)).foldl (fun et a => fastSplitI L obj et (delta1 L a)) et

/-- one modified block of `split` (state: engine, `removeMask`, trace) -/
def splitStepI (L : LTS) (obj : Nat → Nat) (part0 : List (List Nat)) (remove : List Nat)
    (emt : (Eng × List Nat) × Tr) (b : Nat) : (Eng × List Nat) × Tr :=
  match trySplit (emt.1.1.block b) (tmpOf part0 remove b) with
  | none => ((emt.1.1, b :: emt.1.2), emt.2)
  | some (rest, new) =>
    let nb := emt.1.1.part.length
    let ct := splitBlockCoreI L obj (emt.1.1, emt.2) b rest new
    ((copySlots ct.1 b nb, nb :: emt.1.2), ct.2)

/-- `split(removeMask, remove)` -/
def splitI (L : LTS) (obj : Nat → Nat) (et : IE) (remove : List Nat) : (Eng × List Nat) × Tr :=
  (modifiedBlocks et.1.part remove).foldl (splitStepI L obj et.1.part remove) ((et.1, []), et.2)

/-- `processRemove(block, label)`; the loop over the row of every `b1 ∈ preList` is one `eraseRow` -/
def processRemoveI (L : LTS) (obj : Nat → Nat) (et : IE) (b a : Nat) : IE :=
  match et.1.remv b a with
  | none => et
  | some remove =>
    let e0 := { et.1 with rem := setRem et.1.rem b a none }
    let preList := buildPre L e0 b a
    let emt := splitI L obj (e0, et.2) (flat remove)
    preList.foldl (fun (et : IE) b1 => (pruneRow L emt.1.2 et.1 b1, et.2.addSR [SR.Op.eraseRow b1 emt.1.2])) (emt.1.1, emt.2)

/-- one iteration of `run()` -/
def stepOnceI (L : LTS) (obj : Nat → Nat) (et : IE) : IE :=
  match et.1.queue with
  | [] => et
  | (b, a) :: rest => processRemoveI L obj ({ et.1 with queue := rest }, et.2) b a

/-- `run()` with fuel -/
def engineRunI (L : LTS) (obj : Nat → Nat) : Nat → IE → Option IE
  | 0, et => if et.1.queue.isEmpty then some et else none
  | fuel + 1, et =>
    match et.1.queue with
    | [] => some et
    | (b, a) :: rest => engineRunI L obj fuel (processRemoveI L obj ({ et.1 with queue := rest }, et.2) b a)

/-! ### the rest of `init` -/

/-- "prune relation": for every block, for every `a ∈ pre[b1]` one erase loop with the mask `noPreMask[a]` -/
def initPruneI (L : LTS) (et : IE) : IE :=
  (initPrune L et.1,
   et.2.addSR ((List.range et.1.part.length).flatMap (fun b1 => (outLabels L (et.1.block b1)).map (fun a =>
     SR.Op.eraseRow b1 ((List.range et.1.part.length).filter (fun col => noPre L et.1 a col))))))

/-- `s.assignFlat(delta1[a])`, then `s.remove(q)` for `col ∈ row`, `elem ∈ partition_[col]`, `q ∈ pre_a(elem)` -/
def slotT (L : LTS) (so : Nat) (e : Eng) (b1 a : Nat) : List SS.Op :=
  SS.Op.assignFlat so (a + 1) ::
    ((e.row b1).flatMap (fun col => (e.block col).flatMap (fun elem => pre L a elem))).map (SS.Op.remove so)

/-- "initialize counters": `SmartSet s;` then the loops -/
def initCountersI (L : LTS) (so : Nat) (et : IE) : IE :=
  (List.range et.1.part.length).foldl (fun (et : IE) b1 =>
      (et.1.ins b1).foldl (fun (et : IE) a => (initSlot L b1 et.1 a, et.2.addSS (slotT L so et.1 b1 a))) et)
    (et.1, et.2.addSS [SS.Op.new 0])

/-- `init(partition, relation)` behind `buildDelta1`; the trace starts with the calls of `buildDelta1` -/
def engineInitI (L : LTS) (part : List (List Nat)) (rel : Rel) : IE :=
  let et1 := initRefineI L (objI L) (initBlocksI L (objI L) part rel ⟨delta1T L, []⟩)
  initCountersI L (sObj L et1.1.part.length) (initPruneI L et1)

/-- number of blocks after the initial refinement (= number of `Block`s older than `s`) -/
def nb0 (L : LTS) (part : List (List Nat)) (rel : Rel) : Nat := (initRefine L (initBlocks L part rel)).part.length

/-- the state and the trace after `k` iterations of `run()` -/
def stateAfterI (L : LTS) (part : List (List Nat)) (rel : Rel) : Nat → IE
  | 0 => engineInitI L part rel
  | k + 1 => stepOnceI L (objR L (nb0 L part rel)) (stateAfterI L part rel k)

/-- `computeSimulation(partition, relation, outputSize)` with the trace of the whole run -/
def computeSimulationI (L : LTS) (part : List (List Nat)) (rel : Rel) (size : Nat) : Option (Rel × Tr) :=
  if size == 0 then some ([], Tr.empty)
  else (engineRunI L (objR L (nb0 L part rel)) (fuelBound L) (engineInitI L part rel)).map (fun et => (buildResult et.1 size, et.2))

end Vata.LEC
