import Vata.NfaStart
/-!
# Word-automata operations AS CODED (property C10)

`Vata/NfaOps.lean` / `Vata/NfaStart.lean` model `Intersection`, `Reverse`, `RemoveUnreachableStates`,
`RemoveUselessStates`, `GetCandidateTree` of `ExplicitFiniteAutCore` at the level of relations (round-based saturation,
numbering of product states in order of discovery of a breadth-first search, list order in place of hash order).
This file models the same functions **following the control flow of the C++**: the work STACK of `Intersection`
(`std::vector` used with `push_back` / `back` / `pop_back`), the `ProductTranslMap` whose fresh number is
`pTranslMap->size()`, the stack of `RemoveUnreachableStates` that is filled from the iteration of an `unordered_set`,
the FIFO list of `GetCandidateTree` with its two early exits, `Reverse` as three nested loops of `AddTransition`, and
`RemoveUselessStates` as the composition written in the source.

## iteration orders

The C++ iterates `std::unordered_set<State>`, `std::unordered_map<Symbol, StateSet>` and
`std::unordered_map<State, Cluster>`.  The order is a parameter `o : NfaOrd`: three functions that reorder the list of
elements of the container (they may depend on the content in any way).  What is iterated is `iterSet f l = (f l).eraseDups`
(a container holds every element once).  The theorems hold for every `o` with `o.Ok` (`f l` has the same elements as `l`).

## representation

An automaton is `Vata.NFAS` (`start final : List Nat`, `trans : List (src × sym × tgt)`, `startSyms`).  The transition
relation of the C++ is `state ↦ (symbol ↦ set of states)`; `nfaClusterOf o N q` is the cluster of `q` in that shape (symbols in
iteration order, each with its set in iteration order).  A cluster without any target cannot be represented and does not
occur (`uniqueCluster` / `uniqueRStateSet` are followed by an insertion).  `genericLookup` returning `nullptr` is "the cluster
is empty".

All definitions are total, executable, core Lean only.  Fuel: every loop takes a fuel argument and returns `none` when it
runs out; `Vata/Proofs/NfaOpsCoded*.lean` prove for each loop an explicit fuel that suffices.
-/
namespace Vata.NfaC
open Vata.W

/-- iteration orders of the three kinds of hash containers -/
structure NfaOrd where
  /-- `StateSet` / `std::unordered_set<StateType>` -/
  sts : List Nat → List Nat
  /-- a cluster `symbol ↦ StateSet` -/
  syms : List Nat → List Nat
  /-- `transitions_ : state ↦ cluster` -/
  srcs : List Nat → List Nat

/-- every order enumerates exactly the elements of the container -/
def NfaOrd.Ok (o : NfaOrd) : Prop :=
  (∀ l x, x ∈ o.sts l ↔ x ∈ l) ∧ (∀ l x, x ∈ o.syms l ↔ x ∈ l) ∧ (∀ l x, x ∈ o.srcs l ↔ x ∈ l)

/-- list order -/
def NfaOrd.ident : NfaOrd := ⟨id, id, id⟩
/-- reversed list order -/
def NfaOrd.rev : NfaOrd := ⟨List.reverse, List.reverse, List.reverse⟩

/-- the iteration of a container holding the elements `l`, in the order `f` -/
def iterSet (f : List Nat → List Nat) (l : List Nat) : List Nat := (f l).eraseDups

/-- `genericLookup (*transitions_, q)`: the cluster of `q` as `symbol ↦ set` ( `[]` = `nullptr`) -/
def nfaClusterOf (o : NfaOrd) (N : NFA) (q : Nat) : List (Nat × List Nat) :=
  let out := N.trans.filter (fun e => e.1 == q)
  (iterSet o.syms (out.map (·.2.1))).map
    (fun a => (a, iterSet o.sts ((out.filter (fun e => e.2.1 == a)).map (·.2.2))))

/-- insertion of a transition into the result (`stateSet.insert`, `AddTransition`): a set -/
def insT (T : List (Nat × Nat × Nat)) (e : Nat × Nat × Nat) : List (Nat × Nat × Nat) :=
  if T.contains e then T else T ++ [e]

/-! ## `Reverse` (`src/explicit_finite_reverse.cc`) -/

/-- ```
res.finalStates_ = startStates_; res.startStates_ = finalStates_;
res.startStateToSymbols_ = startStateToSymbols_;
for (auto state : finalStates_) res.startStateToSymbols_.insert(std::make_pair(state, SymbolSet()));   // fix dcf3cbe6 (D5)
for (auto stateToCluster : *transitions_) for (auto symbolToSet : *stateToCluster.second)
  for (auto stateInSet : symbolToSet.second) res.AddTransition(stateInSet, symbolToSet.first, stateToCluster.first);
```
`fixD5 = false` is the code before the repair (the `insert` loop missing). -/
def nfasReverseCoded (o : NfaOrd) (fixD5 : Bool) (A : NFAS) : NFAS :=
  let syms := if fixD5 then (iterSet o.sts A.final).foldl (fun m s => smInsert m s []) A.startSyms else A.startSyms
  let trans := (iterSet o.srcs (A.trans.map (·.1))).foldl (fun T p =>
    (nfaClusterOf o A.toNFA p).foldl (fun T c => c.2.foldl (fun T q => insT T (q, c.1, p)) T) T) []
  ⟨⟨A.final, A.start, trans⟩, syms⟩

/-! ## `RemoveUnreachableStates` (`src/explicit_finite_unreach.cc`) -/

/-- the targets of the cluster of `q` in the order of the two nested loops
`for (auto &symbolsToStateSet : *cluster) for (auto &state : symbolsToStateSet.second)` -/
def nfaClusterTargets (o : NfaOrd) (N : NFA) (q : Nat) : List Nat := (nfaClusterOf o N q).flatMap (·.2)

/-- `if (reachableStates.insert(state).second) newStates.push_back(state);` – the stack top is the list head -/
def unreachIns (s : List Nat × List Nat) (q : Nat) : List Nat × List Nat :=
  if s.1.contains q then s else (s.1 ++ [q], q :: s.2)

/-- ```
while (!newStates.empty()) { auto actState = newStates.back(); newStates.pop_back();
  auto cluster = genericLookup(*transitions_, actState); if (!cluster) continue;
  for (symbolsToStateSet : *cluster) for (state : symbolsToStateSet.second)
    if (reachableStates.insert(state).second) newStates.push_back(state); }
```
state: (`reachableStates` in insertion order, `newStates` with the back first); `none` = out of fuel -/
def unreachLoop (o : NfaOrd) (N : NFA) : Nat → List Nat × List Nat → Option (List Nat)
  | 0, s => if s.2.isEmpty then some s.1 else none
  | _ + 1, (seen, []) => some seen
  | n + 1, (seen, act :: rest) =>
    if (nfaClusterOf o N act).isEmpty then unreachLoop o N n (seen, rest)          -- `continue`
    else unreachLoop o N n ((nfaClusterTargets o N act).foldl unreachIns (seen, rest))

/-- `std::unordered_set<StateType> reachableStates(GetStartStates());
std::vector<StateType> newStates(reachableStates.begin(), reachableStates.end());` – the vector is popped from the back -/
def unreachInit (o : NfaOrd) (N : NFA) : List Nat × List Nat :=
  (iterSet o.sts N.start, (iterSet o.sts N.start).reverse)

/-- the set `reachableStates` at the end of the loop -/
def nfaReachCoded (o : NfaOrd) (N : NFA) (fuel : Nat) : Option (List Nat) := unreachLoop o N fuel (unreachInit o N)

/-- ```
res.startStates_ = startStates_; res.startStateToSymbols_ = startStateToSymbols_;
for (auto& state : reachableStates) { if (IsStateFinal(state)) res.SetStateFinal(state);
  auto it = transitions_->find(state); if (it == transitions_->end()) continue;
  res.transitions_->insert(std::make_pair(state, it->second)); }
``` -/
def unreachBuild (o : NfaOrd) (A : NFAS) (R : List Nat) : NFAS :=
  (iterSet o.sts R).foldl (fun res q =>
    let res1 := if A.final.contains q then nfasSetFinal res q else res
    ⟨⟨res1.start, res1.final, res1.trans ++ A.trans.filter (fun e => e.1 == q)⟩, res1.startSyms⟩)
    ⟨⟨A.start, [], []⟩, A.startSyms⟩

/-- a fuel that always suffices (`unreachLoop_total`): every state is pushed at most once -/
def unreachFuel (o : NfaOrd) (N : NFA) : Nat := (iterSet o.sts N.start).length + N.trans.length

/-- `RemoveUnreachableStates`, with the given fuel -/
def nfasUnreachCodedF (o : NfaOrd) (A : NFAS) (fuel : Nat) : Option NFAS :=
  (nfaReachCoded o A.toNFA fuel).map (unreachBuild o A)

/-- `RemoveUnreachableStates` (the default value is never used: `nfasUnreachCoded_isSome`) -/
def nfasUnreachCoded (o : NfaOrd) (A : NFAS) : NFAS := (nfasUnreachCodedF o A (unreachFuel o A.toNFA)).getD A

/-! ## `RemoveUselessStates` (`src/explicit_finite_useless.cc`) -/

/-- `return this->RemoveUnreachableStates(pTranslMap).Reverse(pTranslMap).RemoveUnreachableStates().Reverse();` -/
def nfasUselessCoded (o : NfaOrd) (fixD5 : Bool) (A : NFAS) : NFAS :=
  nfasReverseCoded o fixD5 (nfasUnreachCoded o (nfasReverseCoded o fixD5 (nfasUnreachCoded o A)))

/-! ## `Intersection` (`src/explicit_finite_isect.cc`) -/

/-- `AutBase::ProductTranslMap` in insertion order, every entry with the number it was given -/
abbrev TranslMap := List ((Nat × Nat) × Nat)

/-- `pTranslMap->find (p)` -/
def tmFind (tm : TranslMap) (p : Nat × Nat) : Option Nat := (tm.find? (fun e => e.1 == p)).map (·.2)

/-- `pTranslMap->insert (std::make_pair (p, pTranslMap->size ()))`: the map, the number of `p`, "was inserted" -/
def tmInsert (tm : TranslMap) (p : Nat × Nat) : TranslMap × Nat × Bool :=
  match tmFind tm p with
  | some k => (tm, k, false)
  | none => (tm ++ [(p, tm.length)], tm.length, true)

/-- the map as a function (0 outside) -/
def tmFun (tm : TranslMap) (p : Nat × Nat) : Nat := (tmFind tm p).getD 0

/-- the state of the construction: `*pTranslMap`, `stack` (back first; the C++ keeps pointers to map entries, here the entry),
`res` -/
structure IsectSt where
  tm : TranslMap
  stack : List ((Nat × Nat) × Nat)
  res : NFAS

/-- the three versions of the start marking: the current code, the code between the two repairs (D15: the flag was set
once per start symbol), the original code (D4: set inside the symbol loop, for a pair ONE of whose components is a
start state) -/
inductive IsectVariant | fixed | d15 | d4
  deriving DecidableEq

/-- fixed: `SymbolSet startSymbols(lhs.GetStartSymbols(lss)); startSymbols.insert(rhs.GetStartSymbols(rss)…);
res.SetExistingStateStart(iss->second, startSymbols);`
d15: `for (sym : lhs.GetStartSymbols(lss)) res.SetStateStart(iss->second, sym); for (sym : rhs.GetStartSymbols(rss)) …` -/
def isectMarkStart (v : IsectVariant) (A B : NFAS) (lss rss n : Nat) (res : NFAS) : NFAS :=
  match v with
  | .fixed => nfasSetExistingStart res n (A.symsOf lss ++ B.symsOf rss)
  | .d15 => (B.symsOf rss).foldl (fun r a => nfasSetStart r n a) ((A.symsOf lss).foldl (fun r a => nfasSetStart r n a) res)
  | .d4 => res

/-- ```
for (auto lss : lhs.startStates_) for (auto rss : rhs.startStates_) {
  auto iss = pTranslMap->insert(std::make_pair(std::make_pair(lss,rss), pTranslMap->size())).first;
  stack.push_back(&*iss);                     // unconditionally
  … start marking … }
``` -/
def isectInit (o : NfaOrd) (v : IsectVariant) (A B : NFAS) : IsectSt :=
  (iterSet o.sts A.start).foldl (fun st lss => (iterSet o.sts B.start).foldl (fun st rss =>
    let ins := tmInsert st.tm (lss, rss)
    ⟨ins.1, ((lss, rss), ins.2.1) :: st.stack, isectMarkStart v A B lss rss ins.2.1 st.res⟩) st) ⟨[], [], nfasEmpty⟩

/-- the symbols of the cluster of `l` that `rcluster->find` finds in the cluster of `r`, each with the pairs
`(lstate, rstate)` in the order of `for (auto lstate : lsymbolToPtrPointer.second) for (auto rstate : rstateSet)` -/
def isectSymList (o : NfaOrd) (A B : NFA) (l r : Nat) : List (Nat × List (Nat × Nat)) :=
  (nfaClusterOf o A l).filterMap (fun c =>
    match (nfaClusterOf o B r).find? (fun d => d.1 == c.1) with
    | none => none                                                            -- `continue`
    | some d => some (c.1, c.2.flatMap (fun x => d.2.map (fun y => (x, y)))))

/-- ```
auto istate = pTranslMap->insert(std::make_pair(std::make_pair(lstate,rstate), pTranslMap->size()));
stateSet.insert(istate.first->second);
if (istate.second) stack.push_back(&*istate.first);
``` -/
def isectIns (n a : Nat) (st : IsectSt) (q : Nat × Nat) : IsectSt :=
  let ins := tmInsert st.tm q
  ⟨ins.1, if ins.2.2 then (q, ins.2.1) :: st.stack else st.stack,
    ⟨⟨st.res.start, st.res.final, insT st.res.trans (n, a, ins.2.1)⟩, st.res.startSyms⟩⟩

/-- the start marking of the ORIGINAL code (before 2c042d21), executed once per common symbol:
```
if (lhs.IsStateStart(actState->first.first))
  for (auto& s : lhs.GetStartSymbols(actState->first.first)) res.SetStateStart(actState->second, s);
if (rhs.IsStateStart(actState->first.second)) for (…) res.SetStateStart(actState->second, s);
``` -/
def isectD4Hook (v : IsectVariant) (A B : NFAS) (l r n : Nat) (st : IsectSt) : IsectSt :=
  match v with
  | .d4 =>
    let r1 := if A.start.contains l then (A.symsOf l).foldl (fun x a => nfasSetStart x n a) st.res else st.res
    let r2 := if B.start.contains r then (B.symsOf r).foldl (fun x a => nfasSetStart x n a) r1 else r1
    ⟨st.tm, st.stack, r2⟩
  | _ => st

/-- one turn of `while (!stack.empty())` after `actState = stack.back(); stack.pop_back();`:
```
if (lhs.IsStateFinal(actState->first.first) && rhs.IsStateFinal(actState->first.second)) res.SetStateFinal(actState->second);
auto lcluster = genericLookup(*lhs.transitions_, actState->first.first);  if (!lcluster) continue;
auto rcluster = genericLookup(*rhs.transitions_, actState->first.second); if (!rcluster) continue;
for (auto lsymbolToPtrPointer : *lcluster) { … find in rcluster, else continue … for lstate for rstate … }
``` -/
def isectBody (o : NfaOrd) (v : IsectVariant) (A B : NFAS) (act : (Nat × Nat) × Nat) (st : IsectSt) : IsectSt :=
  let st1 : IsectSt :=
    if A.final.contains act.1.1 && B.final.contains act.1.2 then ⟨st.tm, st.stack, nfasSetFinal st.res act.2⟩ else st
  if (nfaClusterOf o A.toNFA act.1.1).isEmpty then st1
  else if (nfaClusterOf o B.toNFA act.1.2).isEmpty then st1
  else (isectSymList o A.toNFA B.toNFA act.1.1 act.1.2).foldl
    (fun st c => c.2.foldl (isectIns act.2 c.1) (isectD4Hook v A B act.1.1 act.1.2 act.2 st)) st1

/-- the `while` loop; `none` = out of fuel -/
def isectLoop (o : NfaOrd) (v : IsectVariant) (A B : NFAS) : Nat → IsectSt → Option IsectSt
  | 0, st => if st.stack.isEmpty then some st else none
  | n + 1, st =>
    match st.stack with
    | [] => some st
    | act :: rest => isectLoop o v A B n (isectBody o v A B act ⟨st.tm, rest, st.res⟩)

/-- a fuel that always suffices (`isectLoop_total`): the initial stack plus one turn for every pair inserted later, and every
such pair is the target of a joint transition -/
def isectFuel (o : NfaOrd) (v : IsectVariant) (A B : NFAS) : Nat :=
  (isectInit o v A B).stack.length + (nfaJointAll A.toNFA B.toNFA).length

/-- the product before `RemoveUselessStates`, with the translation map -/
def nfasIsectCodedRaw (o : NfaOrd) (v : IsectVariant) (A B : NFAS) (fuel : Nat) : Option IsectSt :=
  isectLoop o v A B fuel (isectInit o v A B)

/-- `Intersection (lhs, rhs, pTranslMap)`: `return res.RemoveUselessStates();` and the filled `*pTranslMap` -/
def nfasIsectCodedF (o : NfaOrd) (v : IsectVariant) (fixD5 : Bool) (A B : NFAS) (fuel : Nat) : Option (NFAS × TranslMap) :=
  (nfasIsectCodedRaw o v A B fuel).map (fun st => (nfasUselessCoded o fixD5 st.res, st.tm))

/-- `Intersection` with the fuel `isectFuel` (the default value is never used: `nfasIsectCoded_isSome`) -/
def nfasIsectCoded (o : NfaOrd) (A B : NFAS) : NFAS × TranslMap :=
  (nfasIsectCodedF o .fixed true A B (isectFuel o .fixed A B)).getD (nfasEmpty, [])

/-! ## `GetCandidateTree` (`src/explicit_finite_candidate.cc`) -/

/-- the state of the search: `reachableStates`, `newStates` (front first), `res` -/
structure CandSt where
  seen : List Nat
  queue : List Nat
  res : NFAS

/-- `if (reachableStates.insert(s).second) newStates.push_back(s);` -/
def candSee (st : CandSt) (q : Nat) : CandSt :=
  if st.seen.contains q then st else ⟨st.seen ++ [q], st.queue ++ [q], st.res⟩

/-- `res.transitions_->insert(std::make_pair(actState, transitionsCluster->second))`: the whole cluster of `actState`, unless
`res` has a cluster for `actState` already -/
def candInsCluster (A : NFAS) (act : Nat) (res : NFAS) : NFAS :=
  if res.trans.any (fun e => e.1 == act) then res
  else ⟨⟨res.start, res.final, res.trans ++ A.trans.filter (fun e => e.1 == act)⟩, res.startSyms⟩

/-- ```
for (StateType s : this->GetStartStates()) {
  if (reachableStates.insert(s).second) newStates.push_back(s);
  res.SetExistingStateStart(s, this->GetStartSymbols(s));
  if (this->IsStateFinal(s)) { res.SetStateFinal(s); return res.RemoveUselessStates(); }      // fix 8ac4ac29 (D6)
}
```
`inl` = the automaton handed to `RemoveUselessStates` by the early `return`; `fixD6 = false` is the code before the repair -/
def candStartLoop (fixD6 : Bool) (A : NFAS) : List Nat → CandSt → Sum NFAS CandSt
  | [], st => .inr st
  | s :: ss, st =>
    let st1 := candSee st s
    let res1 := nfasSetExistingStart st1.res s (A.symsOf s)
    if fixD6 && A.final.contains s then .inl (nfasSetFinal res1 s)
    else candStartLoop fixD6 A ss ⟨st1.seen, st1.queue, res1⟩

/-- the two nested `for` loops over the cluster of `actState`, flattened to the sequence of targets:
```
if (reachableStates.insert(stateInSet).second) newStates.push_back(stateInSet);
if (this->IsStateFinal(stateInSet)) { res.SetStateFinal(stateInSet); res.transitions_->insert(…actState cluster…);
  return res.RemoveUselessStates(); }
res.transitions_->insert(…actState cluster…);
``` -/
def candInner (A : NFAS) (act : Nat) : List Nat → CandSt → Sum NFAS CandSt
  | [], st => .inr st
  | q :: qs, st =>
    let st1 := candSee st q
    if A.final.contains q then .inl (candInsCluster A act (nfasSetFinal st1.res q))
    else candInner A act qs ⟨st1.seen, st1.queue, candInsCluster A act st1.res⟩

/-- `while (!newStates.empty()) { actState = newStates.front(); cluster = transitions_->find(actState); newStates.pop_front();
if (cluster == end) continue; … }` and the final `return res.RemoveUselessStates()` ; `none` = out of fuel -/
def candLoop (o : NfaOrd) (A : NFAS) : Nat → CandSt → Option NFAS
  | 0, _ => none
  | n + 1, st =>
    match st.queue with
    | [] => some st.res
    | act :: rest =>
      if (nfaClusterOf o A.toNFA act).isEmpty then candLoop o A n ⟨st.seen, rest, st.res⟩
      else match candInner A act (nfaClusterTargets o A.toNFA act) ⟨st.seen, rest, st.res⟩ with
        | .inl r => some r
        | .inr st' => candLoop o A n st'

/-- the automaton `GetCandidateTree` hands to `RemoveUselessStates` -/
def nfasCandidateCodedRaw (o : NfaOrd) (fixD6 : Bool) (A : NFAS) (fuel : Nat) : Option NFAS :=
  match candStartLoop fixD6 A (iterSet o.sts A.start) ⟨[], [], nfasEmpty⟩ with
  | .inl r => some r
  | .inr st => candLoop o A fuel st

/-- a fuel that always suffices (`candLoop_total`): every state is enqueued once -/
def candFuel (o : NfaOrd) (N : NFA) : Nat := (iterSet o.sts N.start).length + N.trans.length + 1

/-- `GetCandidateTree` with the given fuel -/
def nfasCandidateCodedF (o : NfaOrd) (fixD6 fixD5 : Bool) (A : NFAS) (fuel : Nat) : Option NFAS :=
  (nfasCandidateCodedRaw o fixD6 A fuel).map (nfasUselessCoded o fixD5)

/-- `GetCandidateTree` (the default value is never used: `nfasCandidateCoded_isSome`) -/
def nfasCandidateCoded (o : NfaOrd) (A : NFAS) : NFAS :=
  (nfasCandidateCodedF o true true A (candFuel o A.toNFA)).getD A

end Vata.NfaC
