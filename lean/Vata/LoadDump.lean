import Vata.Basic
import Vata.Timbuk
/-!
# Loading and dumping an explicit tree automaton through the dictionaries – executable model (properties C13, C19)

Model of `LoadableAut<ExplicitTreeAutCore>::LoadFromAutDesc(desc, stateDict)` / `DumpToAutDesc(stateDict)`
(`src/loadable_aut.hh`), of `ExplicitTreeAutCore::loadFromAutDescInternal` / `dumpToAutDescInternal`
(`src/explicit_tree_aut_core.hh`), of the translators `TranslatorWeak` / `TranslatorStrict`
(`include/vata/util/transl_weak.hh`, `transl_strict.hh`), of `TwoWayDict` (`include/vata/util/two_way_dict.hh`) and of
`ExplicitTreeAut::OnTheFlyAlphabet` (`include/vata/explicit_tree_aut.hh`).  Core Lean only, total, executable.

## what the code does

* A `TwoWayDict<K, V>` is a pair of `std::map`s, `fwdMap_ : K → V` and `bwdMap_ : V → K`.  `Insert (k, v)` inserts into
  both with `std::map::insert`, which keeps an existing entry; the two `assert(false)` that should catch a clash are
  compiled out (`NDEBUG`).  The model is ONE list of pairs in insertion order, `Dict κ := List (κ × Nat)`; the forward
  look-up `fwd?` takes the first pair with the key and the backward look-up `bwd?` the first pair with the value: this is
  exactly the content of the two maps, also when a value is inserted twice (the later `bwdMap_.insert` is refused).
* `TranslatorWeak (dict, alloc)` applied to `k`: `dict.find (k)`; if present its value; else `v = alloc ()`,
  `dict.insert (k, v)`, `v`  (`weak`).
* the state translator of `LoadFromAutDesc (desc, stateDict)` allocates with `StateType state (0); … state++`: the counter
  starts at **0 whatever `stateDict` already contains** (`loadTA` starts `cnt := 0`).  With an empty dictionary that is the
  dictionary size; with a pre-filled one the new numbers clash with the old ones, see `LoadDumpEx.prefilled_*` in
  `Vata/Proofs/LoadDump.lean`.
* the symbol translator of the `OnTheFlyAlphabet` allocates `nextSymbol_++`; `symbolDict_` and `nextSymbol_` are private
  members changed by this translator only, hence `nextSymbol_ = symbolDict_.size ()` always, which is what the model uses
  (`trSym`).  The keys are `StringRank (name, rank)` with `rank : size_t`.  The alphabet is shared by all automata
  (`globalAlphabet_`), so a second load starts from the symbol dictionary the first one left.
* `loadFromAutDescInternal`: (1) every `(name, rank)` of `desc.symbols` is translated (the result is dropped; the `int`
  rank is converted to `size_t`, `rankKey`); (2) every final state is translated and inserted into `finalStates_`;
  (3) for every transition, in order: the children left to right, then `symbolTransl (StringRank (symbol,
  children.size ()))` and `stateTransl (parent)` (two different dictionaries, so their relative order is immaterial),
  then `AddTransition`.  `desc.states` and `desc.name` are not read.  Nothing throws.
* `dumpToAutDescInternal`: `finalStates` := the names of the final states, `transitions` := the rules with the children
  and the parent translated by `TranslatorStrict (stateDict.GetReverseMap ())` and the symbol by the alphabet's strict
  back translator, of whose `StringRank` only `symbolStr` is written; `name`, `symbols`, `states` stay **empty**.  A strict
  translator throws `std::runtime_error ("No translation for " + ToString (value))` for an unknown value.  The fields of
  an `AutDescription` are `std::set`s: the model sorts them into `std::set` order (`Timbuk.norm`, `normDesc`).

The automaton itself (`finalStates_` an `unordered_set`, the rules a nested hash structure) is a `Vata.TA` whose lists are
read as sets: the model lists final states and rules in the order of the description, repetitions included.
-/
namespace Vata

/-- `TwoWayDict<κ, size_t>`: the pairs in insertion order -/
abbrev Dict (κ : Type) := List (κ × Nat)

namespace Dict
variable {κ : Type} [DecidableEq κ]

/-- `fwdMap_.find (k)` -/
def fwd? : Dict κ → κ → Option Nat
  | [], _ => none
  | (k', v) :: r, k => if k' = k then some v else fwd? r k

/-- `bwdMap_.find (v)` -/
def bwd? : Dict κ → Nat → Option κ
  | [], _ => none
  | (k, v') :: r, v => if v' = v then some k else bwd? r v

/-- `Insert (k, v)` for a key that is not present (the only call site, `TranslatorWeak`, has just looked it up) -/
def insert (D : Dict κ) (k : κ) (v : Nat) : Dict κ := D ++ [(k, v)]

/-- `TranslatorWeak::operator()` with the allocator `[&c]{ return c++; }`: (the translation, the dictionary, the counter) -/
def weak (D : Dict κ) (c : Nat) (k : κ) : Nat × Dict κ × Nat :=
  match D.fwd? k with
  | some v => (v, D, c)
  | none => (c, D.insert k c, c + 1)

end Dict

abbrev StateDict := Dict String
/-- keys: `StringRank (symbolStr, rank)` -/
abbrev SymDict := Dict (String × Nat)

namespace LoadDump

/-- `size_t (int)` on a 64 bit machine -/
def rankKey (r : Int) : Nat := (r % 18446744073709551616).toNat

/-- what the two translators of a load own: the state dictionary with the counter `state`, and the symbol dictionary
(whose counter `nextSymbol_` is its size) -/
structure LSt where
  sd : StateDict
  cnt : Nat
  yd : SymDict
deriving Repr, DecidableEq

/-- `stateTransl (q)` -/
def trState (s : LSt) (q : String) : Nat × LSt :=
  ((s.sd.weak s.cnt q).1, { s with sd := (s.sd.weak s.cnt q).2.1, cnt := (s.sd.weak s.cnt q).2.2 })

/-- `symbolTransl (StringRank (name, rank))` -/
def trSym (s : LSt) (k : String × Nat) : Nat × LSt :=
  ((s.yd.weak s.yd.length k).1, { s with yd := (s.yd.weak s.yd.length k).2.1 })

/-- a sequence of state names, left to right -/
def trStates (s : LSt) : List String → List Nat × LSt
  | [] => ([], s)
  | q :: qs => ((trState s q).1 :: (trStates (trState s q).2 qs).1, (trStates (trState s q).2 qs).2)

/-- the loop over `desc.symbols` -/
def regSyms (s : LSt) : List (String × Int) → LSt
  | [] => s
  | p :: ps => regSyms (trSym s (p.1, rankKey p.2)).2 ps

/-- one transition `(children, symbol, parent)` -/
def trRule (s : LSt) (t : List String × String × String) : Rule × LSt :=
  let ks := trStates s t.1
  let f := trSym ks.2 (t.2.1, t.1.length)
  let p := trState f.2 t.2.2
  (⟨f.1, ks.1, p.1⟩, p.2)

/-- the loop over `desc.transitions` -/
def trRules (s : LSt) : List (List String × String × String) → List Rule × LSt
  | [] => ([], s)
  | t :: ts => ((trRule s t).1 :: (trRules (trRule s t).2 ts).1, (trRules (trRule s t).2 ts).2)

/-- `loadFromAutDescInternal` from the translator state `s` -/
def loadFrom (s : LSt) (d : AutDesc) : TA × LSt :=
  let s1 := regSyms s d.symbols
  let fin := trStates s1 d.final
  let rs := trRules fin.2 d.trans
  (⟨rs.1, fin.1⟩, rs.2)

/-- `Except`-valued `List.map`: the first failure is the failure -/
def mapE {α β : Type} (f : α → Except String β) : List α → Except String (List β)
  | [] => .ok []
  | a :: as =>
    match f a with
    | .error e => .error e
    | .ok b =>
      match mapE f as with
      | .error e => .error e
      | .ok bs => .ok (b :: bs)

def noTransl (v : Nat) : String := "No translation for " ++ toString v

/-- `TranslatorStrict (stateDict.GetReverseMap ())` -/
def backState (sd : StateDict) (q : Nat) : Except String String :=
  match sd.bwd? q with
  | some n => .ok n
  | none => .error (noTransl q)

/-- `(*symbolTransl) (sym).symbolStr` -/
def backSym (yd : SymDict) (f : Nat) : Except String String :=
  match yd.bwd? f with
  | some k => .ok k.1
  | none => .error (noTransl f)

/-- one rule of the dump -/
def dumpRule (sd : StateDict) (yd : SymDict) (r : Rule) : Except String (List String × String × String) :=
  match mapE (backState sd) r.kids with
  | .error e => .error e
  | .ok ks =>
    match backSym yd r.sym with
    | .error e => .error e
    | .ok f =>
      match backState sd r.parent with
      | .error e => .error e
      | .ok p => .ok (ks, f, p)

open Timbuk in
/-- the fields of an `AutDescription` in `std::set` iteration order -/
def normDesc (d : AutDesc) : AutDesc :=
  ({ name := (ofS d).name, symbols := norm ltSym (ofS d).symbols, states := norm ltStr (ofS d).states,
     final := norm ltStr (ofS d).final, trans := norm ltTrans (ofS d).trans } : Desc).toS

end LoadDump

open LoadDump

/-- `LoadFromAutDesc (desc, stateDict)` on the alphabet whose dictionary is `symDict`: the automaton and the two
dictionaries afterwards.  Never fails (the `Except` is for composition with the parser, `loadString`). -/
def loadTA (d : AutDesc) (stateDict : StateDict) (symDict : SymDict) : Except String (TA × StateDict × SymDict) :=
  .ok ((loadFrom ⟨stateDict, 0, symDict⟩ d).1, (loadFrom ⟨stateDict, 0, symDict⟩ d).2.sd,
    (loadFrom ⟨stateDict, 0, symDict⟩ d).2.yd)

/-- `DumpToAutDesc (stateDict)` on the alphabet whose dictionary is `symDict` -/
def dumpTA (A : TA) (stateDict : StateDict) (symDict : SymDict) : Except String AutDesc :=
  match mapE (backState stateDict) A.final with
  | .error e => .error e
  | .ok fin =>
    match mapE (dumpRule stateDict symDict) A.rules with
    | .error e => .error e
    | .ok ts => .ok (normDesc { name := "", symbols := [], states := [], final := fin, trans := ts })

/-- `LoadFromString (parser, str, stateDict)` -/
def loadString (s : String) (stateDict : StateDict) (symDict : SymDict) : Except String (TA × StateDict × SymDict) :=
  match parseTimbuk s with
  | .error e => .error e
  | .ok d => loadTA d stateDict symDict

/-- `DumpToString (serializer, stateDict)` -/
def dumpString (A : TA) (stateDict : StateDict) (symDict : SymDict) : Except String String :=
  match dumpTA A stateDict symDict with
  | .error e => .error e
  | .ok d => .ok (serialize d)

/-- every symbol name is used with one number of children in the transitions -/
def AutDesc.Ranked (d : AutDesc) : Prop :=
  ∀ t ∈ d.trans, ∀ t' ∈ d.trans, t.2.1 = t'.2.1 → t.1.length = t'.1.length

instance (d : AutDesc) : Decidable d.Ranked := inferInstanceAs (Decidable (∀ t ∈ d.trans, ∀ t' ∈ d.trans, _))

/-! ## tests
The expected values are the answers of the real library (`ExplicitTreeAut::LoadFromAutDesc` / `DumpToAutDesc` with the
iteration over the loaded automaton and `OnTheFlyAlphabet::GetSymbolDict`), see the probe described in
`Vata/Proofs/LoadDump.lean`. -/
namespace LoadDumpTest

def loadsTo (d : AutDesc) (sd : StateDict) (yd : SymDict) (rules : List Rule) (final : List Nat) (sd' : StateDict)
    (yd' : SymDict) : Bool :=
  match loadTA d sd yd with
  | .ok (A, s, y) => A.rules == rules && A.final == final && s == sd' && y == yd'
  | .error _ => false

def dumpsTo (A : TA) (sd : StateDict) (yd : SymDict) (d : AutDesc) : Bool :=
  match dumpTA A sd yd with
  | .ok d' => d' == d
  | .error _ => false

def dumpFails (A : TA) (sd : StateDict) (yd : SymDict) (msg : String) : Bool :=
  match dumpTA A sd yd with
  | .ok _ => false
  | .error e => e == msg

def d1 : AutDesc :=
  { name := "A", symbols := [("a", 0), ("b", -1), ("f", 2)], states := ["q", "r", "unused"], final := ["r"],
    trans := [([], "a", "q"), ([], "b", "r"), (["q"], "b", "r"), (["q", "q"], "f", "r")] }

-- numbers in order of first occurrence: symbols first (`b` without rank is `(b, 2^64-1)`), finals, then the rules
#guard loadsTo d1 [] []
  [⟨0, [], 1⟩, ⟨3, [], 0⟩, ⟨4, [1], 0⟩, ⟨2, [1, 1], 0⟩] [0]
  [("r", 0), ("q", 1)]
  [(("a", 0), 0), (("b", 18446744073709551615), 1), (("f", 2), 2), (("b", 0), 3), (("b", 1), 4)]

-- the dump: no name, no symbols, no states; `std::set` order
#guard (match loadTA d1 [] [] with
  | .ok (A, sd, yd) => dumpsTo A sd yd
      { name := "", symbols := [], states := [], final := ["r"],
        trans := [([], "a", "q"), ([], "b", "r"), (["q"], "b", "r"), (["q", "q"], "f", "r")] }
  | .error _ => false)

#guard (match loadTA d1 [] [] with
  | .ok (A, sd, yd) =>
    (match dumpString A sd yd with
     | .ok s => s ==
        "Ops \nAutomaton anonymous\nStates \nFinal States r \nTransitions\na -> q\nb -> r\nb(q) -> r\nf(q, q) -> r\n"
     | .error _ => false)
  | .error _ => false)

-- a state or a symbol without a name
#guard dumpFails ⟨[⟨0, [], 1⟩], [7]⟩ [("q", 1)] [(("a", 0), 0)] "No translation for 7"
#guard dumpFails ⟨[⟨5, [], 1⟩], [1]⟩ [("q", 1)] [(("a", 0), 0)] "No translation for 5"

-- a second load on the shared alphabet with a fresh state dictionary
#guard loadsTo { name := "", symbols := [], states := [], final := ["x"], trans := [(["x"], "b", "x"), ([], "c", "x")] }
    [] [(("a", 0), 0), (("b", 1), 1)]
  [⟨1, [0], 0⟩, ⟨2, [], 0⟩] [0] [("x", 0)] [(("a", 0), 0), (("b", 1), 1), (("c", 0), 2)]

-- a pre-filled state dictionary: the counter restarts at 0, `q` gets the number of `p`
#guard loadsTo { name := "", symbols := [], states := [], final := ["p"], trans := [([], "a", "q"), ([], "b", "p")] }
    [("p", 0)] []
  [⟨0, [], 0⟩, ⟨1, [], 0⟩] [0] [("p", 0), ("q", 0)] [(("a", 0), 0), (("b", 0), 1)]

-- … and the dump with that dictionary writes `a -> p`
#guard dumpsTo ⟨[⟨0, [], 0⟩, ⟨1, [], 0⟩], [0]⟩ [("p", 0), ("q", 0)] [(("a", 0), 0), (("b", 0), 1)]
  { name := "", symbols := [], states := [], final := ["p"], trans := [([], "a", "p"), ([], "b", "p")] }

end LoadDumpTest

end Vata
