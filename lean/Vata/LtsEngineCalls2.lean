import Vata.LtsEngineCalls
/-!
# The LTS simulation engine, instrumented with its `SharedCounter` and `SharedList` calls (property C16 / C20)

`Vata/LtsEngineCalls.lean` emits the calls on the `SmartSet`s and on the `SplittingRelation`.  This file adds, for the same engine
functions (`Vata/LtsEngine.lean`; the definitions of `Vata.LE` are re-used, nothing is re-modelled), the histories of

* the `SharedCounter` calls (`Tr2.sc : List SC.Op`): the member `counter_` of every `Block` – constructed by the first `Block`
  constructor (`counter_(key, lts.states(), labelMap, rowSize, allocator)` = `SC.Op.new`) or copy-constructed from the parent
  (`counter_(parent.counter_)` = `SC.Op.copyCtor parent`), `resize` / `set` / `init` in "initialize counters" of `init`,
  `copyLabels(newBlock->inset_, block->counter_)` in `split`, `decr(a, pre)` in `processRemove`, and the destructors run by
  `~SimulationEngine` (`delete block`).  Counter object `i` = the counter of block `i` (blocks and counters are created together).
* the `SharedList` calls (`Tr2.sl : List SL.Op`) on the handles `Block::remove_[a]`: `new RemoveList(new std::vector(...))` in
  `init` (`newList`), `remove = block->remove_[label]; block->remove_[label] = nullptr` and the iteration of `*remove` by
  `split` (`take`), `newBlock->remove_[a] = block->remove_[a]->copy()` (`copy`), `remove->unsafeRelease(...)` (`release`),
  `RemoveList::append(block->remove_[label], state, removeAllocator_)` in `enqueueToRemove` (`append`).
  Handle `remove_[a]` of block `b` is slot `slot L b a = b * labels + a`; there are `L.n * labels` slots (a partition of `L.n`
  states has at most `L.n` blocks).

Each history is in the order the C++ makes the calls; the interleaving between the two classes is not recorded (they share no
memory: different allocators).  The writers are `Eng × Tr2 → Eng × Tr2`; `Vata/Proofs/LtsEngineCalls2.lean`: trace erasure.
-/
namespace Vata.LEC2
open Vata.L Vata.LE Vata.LU Vata.LEC

/-- the `SharedCounter` and `SharedList` calls made so far -/
structure Tr2 where
  sc : List SC.Op
  sl : List SL.Op
deriving Repr

def Tr2.empty : Tr2 := ⟨[], []⟩
def Tr2.addSC (t : Tr2) (ops : List SC.Op) : Tr2 := { t with sc := t.sc ++ ops }
def Tr2.addSL (t : Tr2) (ops : List SL.Op) : Tr2 := { t with sl := t.sl ++ ops }

abbrev JE := Eng × Tr2

/-- the handle `partition_[b]->remove_[a]` -/
def slot (L : LTS) (b a : Nat) : Nat := b * labels L + a

/-- number of handles that can exist -/
def nSlots (L : LTS) : Nat := L.n * labels L

/-- `key_`, `labelMap_`, `rowSize_` as `SimulationEngine::SimulationEngine` / `init` compute them -/
def scCfg (L : LTS) (poison : Nat) : SC.Cfg :=
  SC.mkCfg (SC.getRowSize L.n) L.n poison ((List.range (labels L)).map (delta1 L))

/-! ### `init` -/

/-- `makeBlock` for all blocks: every `new Block(lts_, blockIndex, list, size, key_, labelMap_, rowSize_, counterAllocator_)`
constructs `counter_(key, lts.states(), labelMap, rowSize, allocator)` -/
def initBlocksJ (L : LTS) (part : List (List Nat)) (rel : Rel) (t : Tr2) : JE :=
  (initBlocks L part rel, t.addSC (part.map (fun _ => SC.Op.new)))

/-- `new Block(lts_, *block, p.first, p.second, partition_.size())`: `counter_(parent.counter_)` -/
def fastSplitStepJ (L : LTS) (part0 : List (List Nat)) (remove : List Nat) (et : JE) (b : Nat) : JE :=
  match trySplit (et.1.block b) (tmpOf part0 remove b) with
  | none => et
  | some (rest, new) => (splitBlockCore L et.1 b rest new, et.2.addSC [SC.Op.copyCtor b])

def fastSplitJ (L : LTS) (et : JE) (remove : List Nat) : JE :=
  (modifiedBlocks et.1.part remove).foldl (fastSplitStepJ L et.1.part remove) et

def initRefineJ (L : LTS) (et : JE) : JE :=
  (List.range (labels L)).foldl (fun et a => fastSplitJ L et (delta1 L a)) et

/-- ```
for (auto q : delta1[a]) { count = …; if (count) b1->counter_.set(a, q, count); }
…
if (s.empty()) continue;
b1->remove_[a] = new RemoveList(new std::vector<size_t>(s.begin(), s.end()));
``` -/
def initSlotJ (L : LTS) (b1 : Nat) (et : JE) (a : Nat) : JE :=
  let e1 := (delta1 L a).foldl (fun (e : Eng) q =>
    let c := initCount L e b1 a q
    if c == 0 then e else { e with cnt := setCnt e.cnt b1 a q c }) et.1
  let s := initRemove L e1 b1 a
  (initSlot L b1 et.1 a,
   (et.2.addSC (((delta1 L a).filter (fun q => initCount L et.1 b1 a q != 0)).map
      (fun q => SC.Op.set b1 a q (initCount L et.1 b1 a q)))).addSL
     (if s.isEmpty then [] else [SL.Op.newList (slot L b1 a) s]))

/-- `size = max over a ∈ b1->inset() of labelMap_[a].second` -/
def resizeArg (cfg : SC.Cfg) (ins : List Nat) : Nat := ins.foldl (fun m a => max m (cfg.labelMap.getD a (0, 0)).2) 0

/-- "initialize counters": `b1->counter_.resize(size)`, the loop over `b1->inset()`, `b1->counter_.init()` -/
def initCountersJ (L : LTS) (cfg : SC.Cfg) (et : JE) : JE :=
  (List.range et.1.part.length).foldl (fun (et : JE) b1 =>
      let r := (et.1.ins b1).foldl (initSlotJ L b1) (et.1, et.2.addSC [SC.Op.resize b1 (resizeArg cfg (et.1.ins b1))])
      (r.1, r.2.addSC [SC.Op.init b1])) et

/-- `init(partition, relation)` -/
def engineInitJ (L : LTS) (cfg : SC.Cfg) (part : List (List Nat)) (rel : Rel) : JE :=
  let et1 := initRefineJ L (initBlocksJ L part rel Tr2.empty)
  initCountersJ L cfg (initPrune L et1.1, et1.2)

/-! ### `split` -/

/-- ```
for (auto& a : newBlock->inset_) { if (!block->remove_[a]) continue; …; newBlock->remove_[a] = block->remove_[a]->copy(); }
``` (`e` = the state behind `new Block`, before the loop: the loop does not change the handles of `block`) -/
def copyT (L : LTS) (e : Eng) (b nb : Nat) : List SL.Op :=
  (e.ins nb).filterMap (fun a => if (e.remv b a).isSome then some (SL.Op.copy (slot L b a) (slot L nb a)) else none)

/-- one modified block of `split`: `new Block(…)` (copy constructor of the counter),
`newBlock->counter_.copyLabels(newBlock->inset_, block->counter_)`, the loop copying the remove lists -/
def splitStepJ (L : LTS) (part0 : List (List Nat)) (remove : List Nat)
    (emt : (Eng × List Nat) × Tr2) (b : Nat) : (Eng × List Nat) × Tr2 :=
  match trySplit (emt.1.1.block b) (tmpOf part0 remove b) with
  | none => ((emt.1.1, b :: emt.1.2), emt.2)
  | some (rest, new) =>
    let nb := emt.1.1.part.length
    let e1 := splitBlockCore L emt.1.1 b rest new
    ((copySlots e1 b nb, nb :: emt.1.2),
     (emt.2.addSC [SC.Op.copyCtor b, SC.Op.copyLabels nb b (e1.ins nb)]).addSL (copyT L e1 b nb))

def splitJ (L : LTS) (et : JE) (remove : List Nat) : (Eng × List Nat) × Tr2 :=
  (modifiedBlocks et.1.part remove).foldl (splitStepJ L et.1.part remove) ((et.1, []), et.2)

/-! ### `processRemove` -/

/-- `if (!b1->counter_.decr(a, pre)) this->enqueueToRemove(b1, a, pre);` – `enqueueToRemove` is one `RemoveList::append` -/
def decrStepJ (L : LTS) (i a : Nat) (et : JE) (q : Nat) : JE :=
  (decrStep i a et.1 q,
   (et.2.addSC [SC.Op.decr i a q]).addSL (if et.1.cntv i a q - 1 == 0 then [SL.Op.append (slot L i a) q] else []))

def decrBlockJ (L : LTS) (et : JE) (b1 b2 : Nat) : JE :=
  (et.1.ins b2).foldl (fun (et : JE) a =>
    if (et.1.ins b1).contains a then
      (et.1.block b2).foldl (fun (et : JE) elem => (pre L a elem).foldl (decrStepJ L b1 a) et) et
    else et) et

def pruneColJ (L : LTS) (mask : List Nat) (b1 : Nat) (et : JE) (col : Nat) : JE :=
  if mask.contains col then
    decrBlockJ L ({ et.1 with rel := et.1.rel.set b1 ((et.1.row b1).filter (fun c => c != col)) }, et.2) b1 col
  else et

def pruneRowJ (L : LTS) (mask : List Nat) (et : JE) (b1 : Nat) : JE :=
  (et.1.row b1).foldl (pruneColJ L mask b1) et

/-- `processRemove(block, label)`: `remove = block->remove_[label]; block->remove_[label] = nullptr;` and the iteration of
`*remove` by `split` (`take`), the copies made by `split`, `remove->unsafeRelease(…)`, then the `decr` / `append` loops -/
def processRemoveJ (L : LTS) (et : JE) (b a : Nat) : JE :=
  match et.1.remv b a with
  | none => et
  | some remove =>
    let e0 := { et.1 with rem := setRem et.1.rem b a none }
    let preList := buildPre L e0 b a
    let emt := splitJ L (e0, et.2.addSL [SL.Op.take (slot L b a)]) (flat remove)
    preList.foldl (pruneRowJ L emt.1.2) (emt.1.1, emt.2.addSL [SL.Op.release])

def stepOnceJ (L : LTS) (et : JE) : JE :=
  match et.1.queue with
  | [] => et
  | (b, a) :: rest => processRemoveJ L ({ et.1 with queue := rest }, et.2) b a

def engineRunJ (L : LTS) : Nat → JE → Option JE
  | 0, et => if et.1.queue.isEmpty then some et else none
  | fuel + 1, et =>
    match et.1.queue with
    | [] => some et
    | (b, a) :: rest => engineRunJ L fuel (processRemoveJ L ({ et.1 with queue := rest }, et.2) b a)

/-- the state and the histories after `k` iterations of `run()` -/
def stateAfterJ (L : LTS) (cfg : SC.Cfg) (part : List (List Nat)) (rel : Rel) : Nat → JE
  | 0 => engineInitJ L cfg part rel
  | k + 1 => stepOnceJ L (stateAfterJ L cfg part rel k)

/-- `~SimulationEngine()`: `for (auto& block : this->partition_) delete block;` runs `~SharedCounter` of every block -/
def finishT (e : Eng) : List SC.Op := (List.range e.part.length).map SC.Op.destroy

/-- `computeSimulation(partition, relation, outputSize)` with the two histories of the whole life of the engine object
(constructor … destructor) -/
def computeSimulationJ (L : LTS) (cfg : SC.Cfg) (part : List (List Nat)) (rel : Rel) (size : Nat) : Option (Rel × Tr2) :=
  if size == 0 then some ([], Tr2.empty)
  else (engineRunJ L (fuelBound L) (engineInitJ L cfg part rel)).map
    (fun et => (buildResult et.1 size, et.2.addSC (finishT et.1)))

/-- all four histories of one call of `computeSimulation` -/
def computeSimulationIJ (L : LTS) (poison : Nat) (part : List (List Nat)) (rel : Rel) (size : Nat) :
    Option (Rel × Tr × Tr2) :=
  match computeSimulationI L part rel size, computeSimulationJ L (scCfg L poison) part rel size with
  | some (r, t), some (_, t2) => some (r, t, t2)
  | _, _ => none

end Vata.LEC2
