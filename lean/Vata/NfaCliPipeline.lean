import Vata.CliPipeline
import Vata.NfaLoadDump
/-!
# What `vata -r expl_fa union` / `vata -r expl_fa isect` PRINT – the pipeline of `performOperation` for word automata (C10)

`cli/vata.cc`, `performOperation<ExplicitFiniteAut>` is the SAME template code as for the tree automata (see
`Vata/CliPipeline.lean`): two `LoadFromString` calls with two fresh state dictionaries on the shared alphabet,
`Aut::Union (a1, a2, &opTranslMap1, &opTranslMap2)` resp. `Aut::Intersection (a1, a2, &prodTranslMap)` with EMPTY maps,
`CreateUnionStringToStateMap` resp. `CreateProductStringToStateMap` (`src/util.cc`; models `Glue.unionDict`,
`CliPipe.productDictFixed`), `DumpToString (serializer, stateDict1)`.

The pieces: `loadNFA` / `dumpNFA` / `nfaUnionCodedOrd` (`Vata/NfaLoadDump.lean`), `nfasIsect` (`Vata/NfaStart.lean`: the product on
the reachable pairs, numbered in order of discovery, then `RemoveUselessStates`), whose product map is `nfaProdMap`: every
discovered pair with its number (also the pairs whose product state `RemoveUselessStates` deletes afterwards – the C++ map keeps
them too).  `rtl`: see `loadNFA`.  All functions are total and executable.
-/
namespace Vata.NfaCli
open Vata.CliPipe

/-- what the two `LoadFromString` calls leave -/
def loadBoth (rtl : Bool) (d₁ d₂ : AutDesc) (yd : WSymDict) :
    Except String ((NFAS × Vata.StateDict) × (NFAS × Vata.StateDict) × WSymDict) :=
  match loadNFA rtl d₁ [] yd with
  | .error e => .error e
  | .ok (A, sd₁, yd₁) =>
    match loadNFA rtl d₂ [] yd₁ with
    | .error e => .error e
    | .ok (B, sd₂, yd₂) => .ok ((A, sd₁), (B, sd₂), yd₂)

/-- `vata -r expl_fa union`: from the two parsed descriptions to the description handed to the serializer -/
def cliNfaUnionDesc (rtl : Bool) (d₁ d₂ : AutDesc) (yd : WSymDict) : Except String AutDesc :=
  match loadBoth rtl d₁ d₂ yd with
  | .error e => .error e
  | .ok ((A, sd₁), (B, sd₂), yd₂) =>
    -- `Aut::Union(autInput1, autInput2, &opTranslMap1, &opTranslMap2)` with two empty maps
    let u := nfaUnionCodedOrd (nfaVisitOrder A) (nfaVisitOrder B) A B [] []
    -- `CreateUnionStringToStateMap(stateDict1, stateDict2, &opTranslMap1, &opTranslMap2)`
    let dict := Glue.unionDict (toGlue sd₁) (toGlue sd₂) (some u.2.1) (some u.2.2)
    dumpNFA u.1 (ofGlue dict) yd₂

/-- the pairs `Intersection` discovers, in order of discovery -/
def nfaProdPairs (A B : NFAS) : List (Nat × Nat) :=
  nfaPairIter A.toNFA B.toNFA (nfaJointAll A.toNFA B.toNFA).length (nfaStartPairs A.toNFA B.toNFA).eraseDups

/-- `prodTranslMap` after `Intersection`: `insert (make_pair (pair, pTranslMap->size ()))` for every discovered pair -/
def nfaProdMap (A B : NFAS) : List ((Nat × Nat) × Nat) :=
  (nfaProdPairs A B).map (fun p => (p, (nfaProdPairs A B).idxOf p))

/-- `vata -r expl_fa isect` -/
def cliNfaIsectDesc (rtl : Bool) (d₁ d₂ : AutDesc) (yd : WSymDict) : Except String AutDesc :=
  match loadBoth rtl d₁ d₂ yd with
  | .error e => .error e
  | .ok ((A, sd₁), (B, sd₂), yd₂) =>
    -- `Aut::Intersection(autInput1, autInput2, &prodTranslMap)`, `CreateProductStringToStateMap(stateDict1, stateDict2, prodTranslMap)`
    match productDictFixed (toGlue sd₁) (toGlue sd₂) (nfaProdMap A B) with
    | none => .error "CreateProductStringToStateMap: a component of a product state has no name"
    | some dict => dumpNFA (nfasIsect A B) (ofGlue dict) yd₂

/-- `vata -r expl_fa union`: (description₁, description₂) ↦ the printed text -/
def cliNfaUnion (rtl : Bool) (d₁ d₂ : AutDesc) : Except String String := printed (cliNfaUnionDesc rtl d₁ d₂ [])

/-- `vata -r expl_fa isect`: (description₁, description₂) ↦ the printed text -/
def cliNfaIsect (rtl : Bool) (d₁ d₂ : AutDesc) : Except String String := printed (cliNfaIsectDesc rtl d₁ d₂ [])

/-- `vata -r expl_fa union file1 file2`: the contents of the two files ↦ standard output (GCC evaluation order) -/
def cliNfaUnionText : String → String → Except String String := onTexts (cliNfaUnion true)

/-- `vata -r expl_fa isect file1 file2`: the contents of the two files ↦ standard output -/
def cliNfaIsectText : String → String → Except String String := onTexts (cliNfaIsect true)

/-! ## tests -/
namespace Test

def dA : AutDesc :=
  { name := "A", symbols := [], states := ["q", "r"], final := ["r"],
    trans := [([], "s", "q"), (["q"], "f", "r"), (["r"], "f", "r")] }
def dB : AutDesc :=
  { name := "B", symbols := [], states := ["x", "y"], final := ["y"],
    trans := [([], "s", "x"), ([], "t", "x"), (["x"], "f", "y"), (["y"], "f", "x")] }

#guard CliPipe.Test.okIs (cliNfaUnion true dA dB)
  "Ops \nAutomaton anonymous\nStates \nFinal States r_1 y_2 \nTransitions\ns -> q_1\ns -> x_2\nt -> x_2\nf(q_1) -> r_1\nf(r_1) -> r_1\nf(x_2) -> y_2\nf(y_2) -> x_2\n"
#guard CliPipe.Test.okIs (cliNfaUnion false dA dB)
  "Ops \nAutomaton anonymous\nStates \nFinal States r_1 y_2 \nTransitions\ns -> q_1\ns -> x_2\nt -> x_2\nf(q_1) -> r_1\nf(r_1) -> r_1\nf(x_2) -> y_2\nf(y_2) -> x_2\n"
#guard CliPipe.Test.okIs (cliNfaIsect true dA dB)
  "Ops \nAutomaton anonymous\nStates \nFinal States [r_1|y_2] \nTransitions\ns -> [q_1|x_2]\nt -> [q_1|x_2]\nf([q_1|x_2]) -> [r_1|y_2]\nf([r_1|x_2]) -> [r_1|y_2]\nf([r_1|y_2]) -> [r_1|x_2]\n"

end Test

end Vata.NfaCli
