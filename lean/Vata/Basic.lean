/-! # L0/L1 basics: trees, tree automata, functional run semantics `reach`, set-like list toolkit, profile-based inclusion reference -/
namespace Vata

inductive Tree where
  | node (sym : Nat) (kids : List Tree)

structure Rule where
  sym : Nat
  kids : List Nat
  parent : Nat
deriving DecidableEq, Repr

structure TA where
  rules : List Rule
  final : List Nat
deriving Repr

def matchKids : List Nat → List (List Nat) → Bool
  | [], [] => true
  | q :: qs, s :: ss => s.contains q && matchKids qs ss
  | _, _ => false

/-- parents of the rules with symbol `f` whose children are positionwise in `ss` -/
def post (A : TA) (f : Nat) (ss : List (List Nat)) : List Nat :=
  (A.rules.filter (fun r => r.sym == f && matchKids r.kids ss)).map (·.parent)

mutual
def reach (A : TA) : Tree → List Nat
  | .node f ts => post A f (reachL A ts)
def reachL (A : TA) : List Tree → List (List Nat)
  | [] => []
  | t :: ts => reach A t :: reachL A ts
end

def accepting (A : TA) (s : List Nat) : Bool := s.any (fun q => A.final.contains q)
def accepts (A : TA) (t : Tree) : Bool := accepting A (reach A t)


theorem mem_post' {A : TA} {f : Nat} {ss : List (List Nat)} {q : Nat} :
    q ∈ post A f ss ↔ ∃ r, r ∈ A.rules ∧ r.sym = f ∧ matchKids r.kids ss = true ∧ r.parent = q := by
  simp only [post, List.mem_map, List.mem_filter, Bool.and_eq_true, beq_iff_eq]
  constructor
  · rintro ⟨r, ⟨h1, h2, h3⟩, h4⟩; exact ⟨r, h1, h2, h3, h4⟩
  · rintro ⟨r, h1, h2, h3, h4⟩; exact ⟨r, ⟨h1, h2, h3⟩, h4⟩

theorem mem_post {A : TA} {f : Nat} {ss : List (List Nat)} {q : Nat} :
    q ∈ post A f ss ↔ ∃ r, r ∈ A.rules ∧ r.sym = f ∧ matchKids r.kids ss = true ∧ r.parent = q := mem_post'

theorem reachL_eq_map (A : TA) (ts : List Tree) : reachL A ts = ts.map (reach A) := by
  induction ts with
  | nil => rfl
  | cons t ts ih => simp [reachL, ih]

/-! ### set-like equality of lists -/
def subB (l₁ l₂ : List Nat) : Bool := l₁.all (fun x => l₂.contains x)
def seteq (l₁ l₂ : List Nat) : Bool := subB l₁ l₂ && subB l₂ l₁

theorem subB_iff {l₁ l₂ : List Nat} : subB l₁ l₂ = true ↔ ∀ x, x ∈ l₁ → x ∈ l₂ := by
  simp [subB, List.all_eq_true]
theorem seteq_iff {l₁ l₂ : List Nat} : seteq l₁ l₂ = true ↔ ∀ x, x ∈ l₁ ↔ x ∈ l₂ := by
  simp only [seteq, Bool.and_eq_true, subB_iff]
  constructor
  · rintro ⟨h1, h2⟩ x; exact ⟨h1 x, h2 x⟩
  · intro h; exact ⟨fun x => (h x).1, fun x => (h x).2⟩

/-- pointwise set-equality of lists of sets -/
inductive All2 (R : α → β → Prop) : List α → List β → Prop
  | nil : All2 R [] []
  | cons {a b l l'} : R a b → All2 R l l' → All2 R (a :: l) (b :: l')

def SetEq (l₁ l₂ : List Nat) : Prop := ∀ x, x ∈ l₁ ↔ x ∈ l₂

theorem matchKids_congr {qs : List Nat} {ss ss' : List (List Nat)} (h : All2 SetEq ss ss') :
    matchKids qs ss = matchKids qs ss' := by
  induction h generalizing qs with
  | nil => rfl
  | cons hd _ ih =>
    cases qs with
    | nil => rfl
    | cons q qs =>
      simp only [matchKids]
      rw [ih]
      congr 1
      rw [Bool.eq_iff_iff]; simp only [List.contains_iff_mem]; exact hd q

theorem post_congr (A : TA) (f : Nat) {ss ss' : List (List Nat)} (h : All2 SetEq ss ss') :
    post A f ss = post A f ss' := by
  unfold post
  congr 1
  apply List.filter_congr
  intro r _
  rw [matchKids_congr h]

theorem accepting_congr (A : TA) {s s' : List Nat} (h : SetEq s s') : accepting A s = accepting A s' := by
  rw [Bool.eq_iff_iff]
  simp only [accepting, List.any_eq_true]
  constructor
  · rintro ⟨q, hq, hf⟩; exact ⟨q, (h q).1 hq, hf⟩
  · rintro ⟨q, hq, hf⟩; exact ⟨q, (h q).2 hq, hf⟩

/-! ### profiles -/
abbrev Prof := List Nat × List Nat

def profOf (A B : TA) (t : Tree) : Prof := (reach A t, reach B t)
def ProfEq (p p' : Prof) : Prop := SetEq p.1 p'.1 ∧ SetEq p.2 p'.2
def profEqB (p p' : Prof) : Bool := seteq p.1 p'.1 && seteq p.2 p'.2
theorem profEqB_iff {p p' : Prof} : profEqB p p' = true ↔ ProfEq p p' := by
  simp [profEqB, ProfEq, seteq_iff, SetEq]

def memP (P : List Prof) (p : Prof) : Bool := P.any (fun p' => profEqB p' p)

/-- all `n`-tuples over `P` -/
def tuples (P : List Prof) : Nat → List (List Prof)
  | 0 => [[]]
  | n+1 => P.flatMap (fun p => (tuples P n).map (fun ps => p :: ps))

theorem mem_tuples {P : List Prof} {n : Nat} {ps : List Prof} :
    ps ∈ tuples P n ↔ ps.length = n ∧ ∀ p, p ∈ ps → p ∈ P := by
  induction n generalizing ps with
  | zero =>
    simp only [tuples, List.mem_singleton]
    constructor
    · rintro rfl; simp
    · rintro ⟨h, _⟩; exact List.length_eq_zero_iff.mp h
  | succ n ih =>
    simp only [tuples, List.mem_flatMap, List.mem_map]
    constructor
    · rintro ⟨p, hp, qs, hqs, rfl⟩
      obtain ⟨hl, hm⟩ := ih.mp hqs
      refine ⟨by simp [hl], ?_⟩
      intro x hx
      rcases List.mem_cons.mp hx with rfl | hx
      · exact hp
      · exact hm x hx
    · rintro ⟨hl, hm⟩
      cases ps with
      | nil => simp at hl
      | cons p qs =>
        refine ⟨p, hm p (List.mem_cons_self), qs, ih.mpr ⟨by simpa using hl, fun x hx => hm x (List.mem_cons_of_mem _ hx)⟩, rfl⟩

/-- symbols with arities of an automaton -/
def symAr (A : TA) : List (Nat × Nat) := A.rules.map (fun r => (r.sym, r.kids.length))

def postProf (A B : TA) (f : Nat) (ps : List Prof) : Prof :=
  (post A f (ps.map (·.1)), post B f (ps.map (·.2)))

/-- one round: all posts of tuples over `P` for the symbols of `A` -/
def step (A B : TA) (P : List Prof) : List Prof :=
  (symAr A).flatMap (fun fa => (tuples P fa.2).map (fun ps => postProf A B fa.1 ps))

def addNew (P : List Prof) : List Prof → List Prof
  | [] => P
  | p :: ps => if memP P p then addNew P ps else addNew (P ++ [p]) ps

def closedB (A B : TA) (P : List Prof) : Bool := (step A B P).all (memP P)

def sat (A B : TA) : Nat → List Prof → Option (List Prof)
  | 0, P => if closedB A B P then some P else none
  | n+1, P => if closedB A B P then some P else sat A B n (addNew P (step A B P))

def badProf (A B : TA) (p : Prof) : Bool := accepting A p.1 && !accepting B p.2

def inclRef (A B : TA) (fuel : Nat) : Option Bool :=
  (sat A B fuel []).map (fun P => !(P.any (badProf A B)))

end Vata
