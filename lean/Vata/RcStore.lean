import Vata.Rc
import Vata.Mtbdd
/-!
# Executable model of the MTBDD node store of `OndriksMTBDD` (property C18: node lifetime)

Mirrors `/repo/src/mtbdd/ondriks_mtbdd.hh` (+ `mtbdd_node.hh`, `apply2func.hh`):

* `leafT`  = `leafCache_`      (value ↦ node),   `intT` = `internalCache_`  ((low, high, var) ↦ node)
* `ids`    = the nodes that are currently allocated (`new`‑ed and not yet `delete`‑d); node ids are never re‑used
* `dat`    = contents of a node (what `GetDataFromLeaf` / `GetLow/High/VarFromInternal` read)
* `rc`     = the reference counters stored in the nodes
* `hs`     = the live `OndriksMTBDD` objects: handle name ↦ `root_`
* `freed`  = ghost log of every `DeleteLeafNode` / `DeleteInternalNode`
* `err`    = ghost flag: an `assert` of the C++ code would have failed (counter underflow, `erase(...) != 1`,
             a released node that is not allocated) or the model ran out of fuel.

Core Lean only (re‑uses `Vata.R.Data`, `Vata.R.decrRc` of the probe `Vata/Rc.lean` and `Vata.M.Node`/`eval` of `Vata/Mtbdd.lean`).
The proofs are in `Vata/Proofs/RcStore.lean`.
-/
namespace Vata.RcS
open Vata.R (Data decrRc)

/-- key of the internal unique table: (low, high, var) -/
abbrev IKey := Nat × Nat × Nat

structure Store where
  ids   : List Nat
  dat   : Nat → Data
  rc    : Nat → Nat
  leafT : List (Nat × Nat)
  intT  : List (IKey × Nat)
  hs    : List (Nat × Nat)
  next  : Nat
  freed : List Nat
  err   : Bool

def empty : Store := ⟨[], fun _ => .leaf 0, fun _ => 0, [], [], [], 0, [], false⟩

/-! ## association lists (the two caches, the handle map) -/

def find {κ : Type} [DecidableEq κ] (k : κ) : List (κ × Nat) → Option Nat
  | [] => none
  | (k', n) :: t => if k' = k then some n else find k t

/-- `unordered_map::erase(key)` -/
def eraseKey {κ : Type} [DecidableEq κ] (k : κ) (t : List (κ × Nat)) : List (κ × Nat) :=
  t.filter (fun e => decide (e.1 ≠ k))

def setF {β : Type} (f : Nat → β) (n : Nat) (b : β) : Nat → β := fun x => if x = n then b else f x
def incrRc (rc : Nat → Nat) (n : Nat) : Nat → Nat := fun x => if x = n then rc n + 1 else rc x

/-! ## node level -/

/-- `IncrementRefCnt` -/
def incRef (s : Store) (n : Nat) : Store := { s with rc := incrRc s.rc n }

/-- `DecrementLeafRefCnt` / `DecrementInternalRefCnt` (with their assertion `refcnt > 0`) -/
def decRef (s : Store) (n : Nat) : Store :=
  { s with rc := decrRc s.rc n, err := s.err || decide (s.rc n = 0) || !decide (n ∈ s.ids) }

/-- `CreateLeaf` + insertion into `leafCache_`: the fresh leaf `s.next` has counter 0 -/
def allocLeaf (s : Store) (v : Nat) : Store :=
  { s with ids := s.next :: s.ids, dat := setF s.dat s.next (.leaf v), rc := setF s.rc s.next 0,
           leafT := (v, s.next) :: s.leafT, next := s.next + 1 }

/-- `spawnLeaf` -/
def spawnLeaf (s : Store) (v : Nat) : Store × Nat :=
  match find v s.leafT with
  | some n => (s, n)
  | none => (allocLeaf s v, s.next)

/-- `CreateInternal` (counter 0), `IncrementRefCnt(low)`, `IncrementRefCnt(high)`, insertion into `internalCache_` -/
def allocInt (s : Store) (lo hi var : Nat) : Store :=
  incRef (incRef { s with ids := s.next :: s.ids, dat := setF s.dat s.next (.int lo hi var),
                          rc := setF s.rc s.next 0, intT := ((lo, hi, var), s.next) :: s.intT,
                          next := s.next + 1 } lo) hi

/-- `spawnInternal` -/
def spawnInternal (s : Store) (lo hi var : Nat) : Store × Nat :=
  match find (lo, hi, var) s.intT with
  | some n => (s, n)
  | none => (allocInt s lo hi var, s.next)

/-- `disposeOfLeafNode`: erase from `leafCache_` (assertion: exactly one entry erased), `DeleteLeafNode` -/
def disposeLeaf (s : Store) (n v : Nat) : Store :=
  { s with ids := s.ids.erase n, leafT := eraseKey v s.leafT, freed := n :: s.freed,
           err := s.err || (find v s.leafT).isNone }

/-- first and last statement of `disposeOfInternalNode`: erase from `internalCache_`, `DeleteInternalNode`
    (the code deletes the node after the two recursive calls; it is not looked at in between) -/
def unlinkInt (s : Store) (n : Nat) (k : IKey) : Store :=
  { s with ids := s.ids.erase n, intT := eraseKey k s.intT, freed := n :: s.freed,
           err := s.err || (find k s.intT).isNone }

/-- `recursivelyDeleteMTBDDNode` (fuel: number of allocated nodes + 1 is enough, see `release_inv`) -/
def release : Nat → Store → Nat → Store
  | 0, s, _ => { s with err := true }
  | fuel+1, s, n =>
    let s0 := decRef s n
    if s0.rc n = 0 then
      match s.dat n with
      | .leaf v => disposeLeaf s0 n v
      | .int lo hi var => release fuel (release fuel (unlinkInt s0 n (lo, hi, var)) lo) hi
    else s0

/-! ## handle level -/

/-- a new `OndriksMTBDD` object `h` whose `root_` is `r`, after `IncrementRefCnt(r)` -/
def addHandle (s : Store) (h r : Nat) : Store := { incRef s r with hs := (h, r) :: s.hs }

/-- copy constructor `OndriksMTBDD dst(src)`; skipped unless `src` is live and `dst` is not -/
def copy (s : Store) (src dst : Nat) : Store :=
  match find src s.hs, find dst s.hs with
  | some r, none => addHandle s dst r
  | _, _ => s

/-- destructor (`deleteMTBDD`); skipped unless `h` is live -/
def destroy (s : Store) (h : Nat) : Store :=
  match find h s.hs with
  | none => s
  | some r => release (s.ids.length + 1) { s with hs := s.hs.erase (h, r) } r

/-- `dst = src` (`operator=`): self‑assignment guard, `deleteMTBDD()`, take the root, `IncrementRefCnt`;
    skipped unless both are live -/
def assign (s : Store) (src dst : Nat) : Store :=
  if src = dst then s else
  match find src s.hs, find dst s.hs with
  | some _, some _ => copy (destroy s dst) src dst
  | _, _ => s

/-- the loop of `constructMTBDD`: variable `i` for position `i` of the assignment (`none` = don't care) -/
def buildCube (sink : Nat) : Store → Nat → Nat → List (Option Bool) → Store × Nat
  | s, proc, _, [] => (s, proc)
  | s, proc, i, none :: as => buildCube sink s proc (i+1) as
  | s, proc, i, some true :: as =>
    let r := spawnInternal s sink proc i
    buildCube sink r.1 r.2 (i+1) as
  | s, proc, i, some false :: as =>
    let r := spawnInternal s proc sink i
    buildCube sink r.1 r.2 (i+1) as

/-- `OndriksMTBDD h(asgn, v, d)` = `constructMTBDD(asgn, spawnLeaf(v), d, id)`; skipped if `h` is live -/
def construct (s : Store) (h : Nat) (asgn : List (Option Bool)) (v d : Nat) : Store :=
  match find h s.hs with
  | some _ => s
  | none =>
    let r1 := spawnLeaf s v
    if v = d then addHandle r1.1 h r1.2
    else
      let r2 := spawnLeaf r1.1 d
      let r3 := buildCube r2.2 r2.1 r1.2 0 asgn
      let s4 := if r3.2 = r1.2 then (if r3.1.rc r2.2 = 0 then disposeLeaf r3.1 r2.2 d else r3.1) else r3.1
      addHandle s4 h r3.2

def isInt : Data → Bool
  | .int _ _ _ => true
  | .leaf _ => false
def varOf : Data → Nat
  | .int _ _ x => x
  | .leaf _ => 0
def valOf : Data → Nat
  | .leaf v => v
  | .int _ _ _ => 0
/-- (low, high) successors of node `n` in `recDescend` when it is branched (`b`) or not -/
def kids (d : Data) (b : Bool) (n : Nat) : Nat × Nat :=
  match d, b with
  | .int lo hi _, true => (lo, hi)
  | _, _ => (n, n)
/-- `classifyCase2`: is the first node to be branched -/
def br (d1 d2 : Data) : Bool :=
  match d1, d2 with
  | .int _ _ _, .leaf _ => true
  | .int _ _ x, .int _ _ y => decide (x ≥ y)
  | .leaf _, _ => false

/-- `Apply2Functor::recDescend` without the memo table `ht` (the memo only avoids repeating calls whose spawns
    would all hit the unique tables) -/
def recDescend (f : Nat → Nat → Nat) : Nat → Store → Nat → Nat → Store × Nat
  | 0, s, n1, _ => ({ s with err := true }, n1)
  | fuel+1, s, n1, n2 =>
    let d1 := s.dat n1
    let d2 := s.dat n2
    let b1 := br d1 d2
    let b2 := br d2 d1
    if b1 = false ∧ b2 = false then spawnLeaf s (f (valOf d1) (valOf d2))
    else
      let var := if b2 then varOf d2 else varOf d1
      let k1 := kids d1 b1 n1
      let k2 := kids d2 b2 n2
      let r1 := recDescend f fuel s k1.1 k2.1
      let r2 := recDescend f fuel r1.1 k1.2 k2.2
      if r1.2 = r2.2 then (r2.1, r1.2) else spawnInternal r2.1 r1.2 r2.2 var

/-- `OndriksMTBDD dst = apply(a, b)`: `recDescend`, `IncrementRefCnt(root)`, wrap; skipped unless `a`, `b` are live and
    `dst` is not -/
def apply2 (f : Nat → Nat → Nat) (s : Store) (a b dst : Nat) : Store :=
  match find a s.hs, find b s.hs, find dst s.hs with
  | some ra, some rb, none =>
    let r := recDescend f (ra + rb + 1) s ra rb
    addHandle r.1 dst r.2
  | _, _, _ => s

inductive Op where
  | construct (h : Nat) (asgn : List (Option Bool)) (v d : Nat)
  | copy (src dst : Nat)
  | assign (src dst : Nat)
  | apply (a b dst : Nat)
  | destroy (h : Nat)
deriving Repr, DecidableEq

def stepF (f : Nat → Nat → Nat) (s : Store) : Op → Store
  | .construct h asgn v d => construct s h asgn v d
  | .copy src dst => copy s src dst
  | .assign src dst => assign s src dst
  | .apply a b dst => apply2 f s a b dst
  | .destroy h => destroy s h

def runF (f : Nat → Nat → Nat) (ops : List Op) : Store := ops.foldl (stepF f) empty

/-- the leaf operation used by `step` (the harness must use the same one) -/
def applyOp (x y : Nat) : Nat := max x y

def step : Store → Op → Store := stepF applyOp
def run (ops : List Op) : Store := ops.foldl step empty

/-- (size of `leafCache_`, size of `internalCache_`) -/
def tableSizes (s : Store) : Nat × Nat := (s.leafT.length, s.intT.length)

/-- would the operation be executed (and not skipped) in `s` -/
def Op.enabled (s : Store) : Op → Bool
  | .construct h _ _ _ => (find h s.hs).isNone
  | .copy src dst => (find src s.hs).isSome && (find dst s.hs).isNone
  | .assign src dst => (find src s.hs).isSome && (find dst s.hs).isSome
  | .apply a b dst => (find a s.hs).isSome && (find b s.hs).isSome && (find dst s.hs).isNone
  | .destroy h => (find h s.hs).isSome

/-- the handle an operation writes / creates / destroys -/
def Op.target : Op → Nat
  | .construct h _ _ _ => h
  | .copy _ dst => dst
  | .assign _ dst => dst
  | .apply _ _ dst => dst
  | .destroy h => h

/-- destructors for all live handles -/
def destroyAll (s : Store) : List Op := s.hs.map (fun e => Op.destroy e.1)

/-! ## denotation -/

/-- unfolding of the diagram below node `n` (fuel `n+1` is enough: children have smaller ids) -/
def unfold (dat : Nat → Data) : Nat → Nat → Vata.M.Node Nat
  | 0, _ => .leaf 0
  | fuel+1, n =>
    match dat n with
    | .leaf v => .leaf v
    | .int lo hi var => .node var (unfold dat fuel lo) (unfold dat fuel hi)

/-- the function denoted by node `r` (`GetValue` for total assignments) -/
def denote (s : Store) (r : Nat) (ρ : Nat → Bool) : Nat := Vata.M.eval (unfold s.dat (r+1) r) ρ

/-- `GetValue` of handle `h` -/
def getValue (s : Store) (h : Nat) (ρ : Nat → Bool) : Option Nat := (find h s.hs).map (fun r => denote s r ρ)

/-- counters of the roots of the live handles (for diagnostics) -/
def rootCounts (s : Store) : List (Nat × Nat) := s.hs.map (fun e => (e.1, s.rc e.2))

end Vata.RcS
