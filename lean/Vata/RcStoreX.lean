import Vata.RcStore
/-!
# The remaining `OndriksMTBDD` operations on the reference-counted node store (properties C17 / C18)

Extends the store model `Vata/RcStore.lean` (`RcS.Store`, `spawnLeaf`, `spawnInternal`, `release`, `addHandle`, …) by the
operations that were modelled at tree level only (`Vata/MtbddOps.lean`):

* `recDescend1` / `apply1`   – `Apply1Functor::recDescend` / `operator()`                (`src/mtbdd/apply1func.hh`)
* `recDescend3` / `apply3`   – `Apply3Functor::classifyCase`, `recDescend`, `operator()`  (`src/mtbdd/apply3func.hh`)
* `projectNode` / `project`  – `OndriksMTBDD::projectNode` / `Project`                    (`ondriks_mtbdd.hh` l. 370, 722)
* `renameNode` / `rename`    – `OndriksMTBDD::renameNode` / `Rename`                      (l. 427, 751)
* `buildCubeT`, `cubeFinish`, `extendWith` – the 4-argument `constructMTBDD` on an existing root / `ExtendWith` (l. 162, 595)
* `prefixWalk` / `getPrefix` – `GetMtbddForPrefix`                                         (l. 675)

and a history model `RcSX.Op` / `stepX` / `runX` over all eleven operations.  The C++ handle also stores `defaultValue_`
(read by `ExtendWith`); `XStore.dv` tracks it per handle exactly as the constructors / functors compute it.

What is NOT modelled: the memo tables `ht` of the apply functors (they hold raw pointers, never touch a counter; a hit
returns what the spawns through the unique tables would return).  Fuel: every recursion gets the fuel stated at its
caller; `Vata/Proofs/RcStoreX.lean` proves it suffices (the ghost flag `err` stays `false`).
-/
namespace Vata.RcSX
open Vata.R (Data decrRc)
open Vata.RcS

/-- the leaf operations of the unary / binary / ternary apply functors of a history -/
structure Fns where
  f1 : Nat → Nat
  f2 : Nat → Nat → Nat
  f3 : Nat → Nat → Nat → Nat

/-- `if (lowOutTree == highOutTree) return lowOutTree; else return spawnInternal(lowOutTree, highOutTree, var);`
    (the tail of every `recDescend`, and of `projectNode` for a kept variable) -/
def joinNode (s : Store) (lo hi var : Nat) : Store × Nat :=
  if lo = hi then (s, lo) else spawnInternal s lo hi var

/-! ## unary apply -/

/-- `Apply1Functor::recDescend` (without the leaf memo `ht`).  Fuel `n+1` is enough. -/
def recDescend1 (f : Nat → Nat) : Nat → Store → Nat → Store × Nat
  | 0, s, n => ({ s with err := true }, n)
  | fuel+1, s, n =>
    match s.dat n with
    | .leaf v =>
      -- NodeOutPtrType result = MTBDDOutType::spawnLeaf(makeBase().ApplyOperation(GetDataFromLeaf(node1)));
      spawnLeaf s (f v)
    | .int lo hi var =>
      -- NodeOutPtrType lowOutTree = recDescend(low1Tree);  NodeOutPtrType highOutTree = recDescend(high1Tree);
      let r1 := recDescend1 f fuel s lo
      let r2 := recDescend1 f fuel r1.1 hi
      joinNode r2.1 r1.2 r2.2 var

/-- `MTBDDOutType dst = apply1(a)`: `recDescend(root)`, `IncrementRefCnt(root)`, wrap; skipped unless `a` is live and
    `dst` is not -/
def apply1 (f : Nat → Nat) (s : Store) (a dst : Nat) : Store :=
  match find a s.hs, find dst s.hs with
  | some ra, none =>
    let r := recDescend1 f (ra + 1) s ra
    addHandle r.1 dst r.2
  | _, _ => s

/-! ## ternary apply -/

/-- `IsLeaf(n) || (x >= GetVarFromInternal(n))` -/
def leOrLeaf (x : Nat) : Data → Bool
  | .leaf _ => true
  | .int _ _ y => decide (x ≥ y)

/-- one of the three tests of `Apply3Functor::classifyCase`: is the first node to be branched -/
def br3 (d1 d2 d3 : Data) : Bool :=
  match d1 with
  | .leaf _ => false
  | .int _ _ x => leOrLeaf x d2 && leOrLeaf x d3

/-- `Apply3Functor::recDescend` (without the memo `ht`).  Fuel `n1+n2+n3+1` is enough. -/
def recDescend3 (f : Nat → Nat → Nat → Nat) : Nat → Store → Nat → Nat → Nat → Store × Nat
  | 0, s, n1, _, _ => ({ s with err := true }, n1)
  | fuel+1, s, n1, n2, n3 =>
    let d1 := s.dat n1
    let d2 := s.dat n2
    let d3 := s.dat n3
    let b1 := br3 d1 d2 d3
    let b2 := br3 d2 d1 d3
    let b3 := br3 d3 d1 d2
    if b1 = false ∧ b2 = false ∧ b3 = false then spawnLeaf s (f (valOf d1) (valOf d2) (valOf d3))
    else
      -- `var` is assigned in the order node1, node2, node3: the last branched node wins
      let var := if b3 then varOf d3 else if b2 then varOf d2 else varOf d1
      let k1 := kids d1 b1 n1
      let k2 := kids d2 b2 n2
      let k3 := kids d3 b3 n3
      let r1 := recDescend3 f fuel s k1.1 k2.1 k3.1
      let r2 := recDescend3 f fuel r1.1 k1.2 k2.2 k3.2
      joinNode r2.1 r1.2 r2.2 var

/-- `MTBDDOutType dst = apply3(a, b, c)`; skipped unless `a`, `b`, `c` are live and `dst` is not -/
def apply3 (f : Nat → Nat → Nat → Nat) (s : Store) (a b c dst : Nat) : Store :=
  match find a s.hs, find b s.hs, find c s.hs, find dst s.hs with
  | some ra, some rb, some rc, none =>
    let r := recDescend3 f (ra + rb + rc + 1) s ra rb rc
    addHandle r.1 dst r.2
  | _, _, _, _ => s

/-! ## Project -/

/-- `projectNode(node, pred, applyFunc, defaultValue)` where `applyFunc` is an `Apply2Functor` with leaf operation `f`,
    called through its `operator()(node1, node2)` (clears its memo, `recDescend`, NO counter is touched).
    NOTE (as coded): when `pred(var)` holds, the projected children `lowTree` / `highTree` are only *read* by the apply; if
    they were freshly spawned they stay in the unique tables with counter 0 and nobody ever refers to them.
    Fuel `n+1` is enough. -/
def projectNode (f : Nat → Nat → Nat) (pred : Nat → Bool) : Nat → Store → Nat → Store × Nat
  | 0, s, n => ({ s with err := true }, n)
  | fuel+1, s, n =>
    match s.dat n with
    | .leaf v => spawnLeaf s v                       -- return spawnLeaf(GetDataFromLeaf(node));
    | .int lo hi var =>
      let r1 := projectNode f pred fuel s lo          -- lowTree = projectNode(lowTree, …);
      let r2 := projectNode f pred fuel r1.1 hi       -- highTree = projectNode(highTree, …);
      if pred var then recDescend f (r1.2 + r2.2 + 1) r2.1 r1.2 r2.2     -- result = applyFunc(lowTree, highTree);
      else joinNode r2.1 r1.2 r2.2 var                -- lowTree == highTree ? lowTree : spawnInternal(lowTree, highTree, var)

/-- `OndriksMTBDD dst = a.Project(pred, applyFunc)`: `projectNode(root)`, `IncrementRefCnt(newRoot)`, wrap -/
def project (f : Nat → Nat → Nat) (pred : Nat → Bool) (s : Store) (a dst : Nat) : Store :=
  match find a s.hs, find dst s.hs with
  | some ra, none =>
    let r := projectNode f pred (ra + 1) s ra
    addHandle r.1 dst r.2
  | _, _ => s

/-! ## Rename -/

/-- `renameNode(node, renamer)`: no `low == high` test (the code only `assert`s `lowTree != highTree`).  Fuel `n+1`. -/
def renameNode (ren : Nat → Nat) : Nat → Store → Nat → Store × Nat
  | 0, s, n => ({ s with err := true }, n)
  | fuel+1, s, n =>
    match s.dat n with
    | .leaf v => spawnLeaf s v
    | .int lo hi var =>
      let r1 := renameNode ren fuel s lo
      let r2 := renameNode ren fuel r1.1 hi
      spawnInternal r2.1 r1.2 r2.2 (ren var)          -- spawnInternal(lowTree, highTree, renamer(var))

/-- `OndriksMTBDD dst = a.Rename(renamer)` -/
def rename (ren : Nat → Nat) (s : Store) (a dst : Nat) : Store :=
  match find a s.hs, find dst s.hs with
  | some ra, none =>
    let r := renameNode ren (ra + 1) s ra
    addHandle r.1 dst r.2
  | _, _ => s

/-! ## ExtendWith (the 4-argument `constructMTBDD` on an existing root) -/

/-- the `for` loop of `constructMTBDD` with a variable translation `tr` (`varTrans`): loop counter `i`, `var = i` -/
def buildCubeT (tr : Nat → Nat) (sink : Nat) : Store → Nat → Nat → List (Option Bool) → Store × Nat
  | s, proc, _, [] => (s, proc)
  | s, proc, i, none :: as => buildCubeT tr sink s proc (i+1) as
  | s, proc, i, some true :: as =>
    let r := spawnInternal s sink proc (tr i)         -- procNode = spawnInternal(sink, procNode, varTrans(var));
    buildCubeT tr sink r.1 r.2 (i+1) as
  | s, proc, i, some false :: as =>
    let r := spawnInternal s proc sink (tr i)         -- procNode = spawnInternal(procNode, sink, varTrans(var));
    buildCubeT tr sink r.1 r.2 (i+1) as

/-- `if (procNode == node) { if (GetLeafRefCnt(sink) == 0) disposeOfLeafNode(sink); }` -/
def cubeFinish (r : Store × Nat) (node sink d : Nat) : Store :=
  if r.2 = node then (if r.1.rc sink = 0 then disposeLeaf r.1 sink d else r.1) else r.1

/-- `OndriksMTBDD dst = a.ExtendWith(asgn, offset)` =
    `OndriksMTBDD(constructMTBDD(asgn, root_, GetDefaultValue(), var ↦ var + offset), GetDefaultValue())`;
    `d` is `a.GetDefaultValue()` -/
def extendWith (s : Store) (a dst : Nat) (asgn : List (Option Bool)) (offset d : Nat) : Store :=
  match find a s.hs, find dst s.hs with
  | some ra, none =>
    -- if (IsLeaf(node) && (GetDataFromLeaf(node) == defaultValue)) { IncrementRefCnt(node); return node; }
    if s.dat ra = .leaf d then addHandle s dst ra
    else
      let r2 := spawnLeaf s d                                              -- NodePtrType sink = spawnLeaf(defaultValue);
      let r3 := buildCubeT (fun x => x + offset) r2.2 r2.1 ra 0 asgn
      addHandle (cubeFinish r3 ra r2.2 d) dst r3.2                         -- IncrementRefCnt(procNode); return procNode;
  | _, _ => s

/-! ## GetMtbddForPrefix -/

/-- the `while (!IsLeaf(newRoot))` loop of `GetMtbddForPrefix`.  Fuel `n+1` is enough. -/
def prefixWalk (dat : Nat → Data) (asgn : List (Option Bool)) (offset : Nat) : Nat → Nat → Nat
  | 0, n => n
  | fuel+1, n =>
    match dat n with
    | .leaf _ => n
    | .int lo hi var =>
      if var < offset then n                                                        -- break;
      else if asgn[var - offset]? = some (some true) then prefixWalk dat asgn offset fuel hi
      else prefixWalk dat asgn offset fuel lo                                       -- zero or don't care

/-- `OndriksMTBDD dst = a.GetMtbddForPrefix(asgn, offset)`: walk, `IncrementRefCnt(newRoot)`, wrap -/
def getPrefix (s : Store) (a dst : Nat) (asgn : List (Option Bool)) (offset : Nat) : Store :=
  match find a s.hs, find dst s.hs with
  | some ra, none => addHandle s dst (prefixWalk s.dat asgn offset (ra + 1) ra)
  | _, _ => s

/-! ## histories -/

inductive Op where
  | construct (h : Nat) (asgn : List (Option Bool)) (v d : Nat)
  | copy (src dst : Nat)
  | assign (src dst : Nat)
  | apply (a b dst : Nat)
  | destroy (h : Nat)
  | apply1 (a dst : Nat)
  | apply3 (a b c dst : Nat)
  /-- `pred(var)` = `var ∈ vars` -/
  | project (a dst : Nat) (vars : List Nat)
  /-- `renamer(var)` = `tab[var]` (identity outside the table) -/
  | rename (a dst : Nat) (tab : List Nat)
  | extendWith (a dst : Nat) (asgn : List (Option Bool)) (offset : Nat)
  | getPrefix (a dst : Nat) (asgn : List (Option Bool)) (offset : Nat)
deriving Repr, DecidableEq

/-- the renamer denoted by a table -/
def renOf (tab : List Nat) (x : Nat) : Nat := tab.getD x x
/-- the predicate denoted by a variable list -/
def predOf (vars : List Nat) (x : Nat) : Bool := decide (x ∈ vars)

/-- the handle an operation writes / creates / destroys -/
def Op.target : Op → Nat
  | .construct h _ _ _ => h
  | .copy _ dst => dst
  | .assign _ dst => dst
  | .apply _ _ dst => dst
  | .destroy h => h
  | .apply1 _ dst => dst
  | .apply3 _ _ _ dst => dst
  | .project _ dst _ => dst
  | .rename _ dst _ => dst
  | .extendWith _ dst _ _ => dst
  | .getPrefix _ dst _ _ => dst

def Op.isProject : Op → Bool
  | .project _ _ _ => true
  | _ => false

/-- one operation on the node store; `dv h` is `defaultValue_` of handle `h` -/
def stepS (F : Fns) (dv : Nat → Nat) (s : Store) : Op → Store
  | .construct h asgn v d => construct s h asgn v d
  | .copy src dst => copy s src dst
  | .assign src dst => assign s src dst
  | .apply a b dst => apply2 F.f2 s a b dst
  | .destroy h => destroy s h
  | .apply1 a dst => apply1 F.f1 s a dst
  | .apply3 a b c dst => apply3 F.f3 s a b c dst
  | .project a dst vars => project F.f2 (predOf vars) s a dst
  | .rename a dst tab => rename (renOf tab) s a dst
  | .extendWith a dst asgn offset => extendWith s a dst asgn offset (dv a)
  | .getPrefix a dst asgn offset => getPrefix s a dst asgn offset

/-- would the operation be executed (and not skipped) in `s` -/
def Op.enabled (s : Store) : Op → Bool
  | .construct h _ _ _ => (find h s.hs).isNone
  | .copy src dst => (find src s.hs).isSome && (find dst s.hs).isNone
  | .assign src dst => (find src s.hs).isSome && (find dst s.hs).isSome
  | .apply a b dst => (find a s.hs).isSome && (find b s.hs).isSome && (find dst s.hs).isNone
  | .destroy h => (find h s.hs).isSome
  | .apply1 a dst => (find a s.hs).isSome && (find dst s.hs).isNone
  | .apply3 a b c dst => (find a s.hs).isSome && (find b s.hs).isSome && (find c s.hs).isSome && (find dst s.hs).isNone
  | .project a dst _ => (find a s.hs).isSome && (find dst s.hs).isNone
  | .rename a dst _ => (find a s.hs).isSome && (find dst s.hs).isNone
  | .extendWith a dst _ _ => (find a s.hs).isSome && (find dst s.hs).isNone
  | .getPrefix a dst _ _ => (find a s.hs).isSome && (find dst s.hs).isNone

/-- `defaultValue_` of the handle written by the operation -/
def dvNew (F : Fns) (dv : Nat → Nat) : Op → Nat
  | .construct _ _ _ d => d
  | .copy src _ => dv src
  | .assign src _ => dv src
  | .apply a b _ => F.f2 (dv a) (dv b)          -- ApplyOperation(mtbdd1_->GetDefaultValue(), mtbdd2_->GetDefaultValue())
  | .destroy h => dv h
  | .apply1 a _ => F.f1 (dv a)
  | .apply3 a b c _ => F.f3 (dv a) (dv b) (dv c)
  | .project a _ _ => dv a
  | .rename a _ _ => dv a
  | .extendWith a _ _ _ => dv a
  | .getPrefix a _ _ _ => dv a

/-- node store + the default values of the handles -/
structure XStore where
  st : Store
  dv : Nat → Nat

def xempty : XStore := ⟨empty, fun _ => 0⟩

def stepX (F : Fns) (x : XStore) (op : Op) : XStore :=
  ⟨stepS F x.dv x.st op, if op.enabled x.st then setF x.dv op.target (dvNew F x.dv op) else x.dv⟩

def runX (F : Fns) (ops : List Op) : XStore := ops.foldl (stepX F) xempty

/-- destructors for all live handles -/
def destroyAllX (s : Store) : List Op := s.hs.map (fun e => Op.destroy e.1)
/-- destructors for the live handles that were not live in `s₀` -/
def destroyNew (s₀ s : Store) : List Op :=
  (s.hs.filter (fun e => (find e.1 s₀.hs).isNone)).map (fun e => Op.destroy e.1)

/-! ## an executable `run` for a driver -/

/-- the leaf operations used by `run` (the harness must use the same ones) -/
def stdFns : Fns := ⟨fun x => 2 * x + 1, applyOp, fun x y z => x + 2 * y + 3 * z⟩

/-- the total assignment number `k`: variable `i` is bit `i` of `k` -/
def asgnOf (k : Nat) : Nat → Bool := fun i => k.testBit i

/-- what a driver compares after every operation: sizes of `leafCache_` / `internalCache_`, the values of every live
    handle under all `2^nvars` total assignments (handles in the order of `hs`: newest first), the
    default value of every live handle, and the ghost flag -/
structure Report where
  sizes  : Nat × Nat
  values : List (Nat × List Nat)
  dflts  : List (Nat × Nat)
  err    : Bool
deriving Repr, DecidableEq

def report (nvars : Nat) (x : XStore) : Report :=
  ⟨tableSizes x.st,
   x.st.hs.map (fun e => (e.1, (List.range (2 ^ nvars)).map (fun k => denote x.st e.2 (asgnOf k)))),
   x.st.hs.map (fun e => (e.1, x.dv e.1)),
   x.st.err⟩

/-- final report of a history -/
def run (nvars : Nat) (ops : List Op) : Report := report nvars (runX stdFns ops)

/-- the report after every prefix of the history (for step-by-step comparison) -/
def runTrace (nvars : Nat) (ops : List Op) : List Report :=
  (ops.foldl (fun (acc : XStore × List Report) op =>
    let x := stepX stdFns acc.1 op
    (x, report nvars x :: acc.2)) (xempty, [])).2.reverse

end Vata.RcSX
