import Vata.Proofs.TimbukLayoutReject
/-!
# A declarative grammar of the texts the Timbuk parser accepts (property C13) – definitions

Three layers, all about `src/timbuk_parser-nobison.cc` (`parse_timbuk`):

1. **the grammar** (`Prop`s, existential decompositions of strings, no searching, no state): `Lines`, `Words`, `Numeral`,
   `Token`, `HeaderLine`, `TransitionsLine`, `KidList`, `Lhs`, `TransLine`, `HeaderPart`, `RulePart`, `Reads`, `Accepted`;
2. **the reader** (executable, stateless, two passes over the lines, no flags): `readHeader`, `readLhs`, `readTransLine`,
   `readHeaderPart`, `readRulePart`, `readText`, `acceptedB`;
3. the parser model `parseC` of `Vata/Timbuk.lean` (one pass, five flags, early exits).

`Vata/Proofs/TimbukGrammar*.lean` prove 1 ⇔ 2 ⇔ 3.
-/
namespace Vata.Timbuk
open Vata.T (splitDelim joinWith)

/-! ## 1. the grammar -/

/-- `split_delim(str, '\n')`: the text is the lines joined by `\n`; no line contains `\n`; there is at least one line
(the empty text has the one line `""`; a final `\n` gives a last empty line). -/
def Lines (t : Str) (ls : List Str) : Prop := ls ≠ [] ∧ (∀ l ∈ ls, '\n' ∉ l) ∧ t = joinWith '\n' ls

/-- `trim` + the `read_word` loop: the line is `g₀ w₁ g₁ w₂ … wₙ gₙ` – every `wᵢ` non-empty without white space
(`Word`), every `gᵢ` white space (`std::isspace`, "C" locale: blank `\t \n \v \f \r`), the inner gaps non-empty
(`HeadWs rest`: what follows a word is empty or starts with a white character). -/
inductive Words : Str → List Str → Prop
  | nil {g : Str} : AllWs g → Words g []
  | cons {g w rest : Str} {ws : List Str} : AllWs g → Word w → HeadWs rest → Words rest ws →
      Words (g ++ w ++ rest) (w :: ws)

/-- a non-empty string of decimal digits -/
def Digits (ds : Str) : Prop := ds ≠ [] ∧ ∀ c ∈ ds, isDigit c = true
/-- what follows the digits: anything that does not start with a digit (it is left in the stream, i.e. ignored) -/
def NoDigitHead (s : Str) : Prop := ∀ c, s.head? = some c → isDigit c = false

/-- `Convert::FromString<int>`, i.e. `std::istringstream iss(str); iss >> result` for `int`: an optional sign `+` / `-`,
at least one decimal digit, the LONGEST run of digits counts, whatever follows is ignored (`1x`, `3:4`), leading zeros are
fine, the value must be an `int` (else `failbit`, hence `std::invalid_argument`). -/
inductive Numeral : Str → Int → Prop
  | pos {ds junk : Str} : Digits ds → NoDigitHead junk → (digitsVal ds : Int) ≤ intMax →
      Numeral (ds ++ junk) (digitsVal ds)
  | plus {ds junk : Str} : Digits ds → NoDigitHead junk → (digitsVal ds : Int) ≤ intMax →
      Numeral ('+' :: (ds ++ junk)) (digitsVal ds)
  | minus {ds junk : Str} : Digits ds → NoDigitHead junk → intMin ≤ - (digitsVal ds : Int) →
      Numeral ('-' :: (ds ++ junk)) (- (digitsVal ds : Int))

/-- `parse_colonned_token` on a word: `name` (rank −1) or `name:numeral` – the FIRST colon splits, the name may be empty -/
inductive Token : Str → Str → Int → Prop
  | plain {w : Str} : ':' ∉ w → Token w w (-1)
  | ranked {name num : Str} {v : Int} : ':' ∉ name → Numeral num v → Token (name ++ ':' :: num) name v

/-- every word is a token -/
inductive Tokens : List Str → List (Str × Int) → Prop
  | nil : Tokens [] []
  | cons {w n : Str} {r : Int} {ws : List Str} {ps : List (Str × Int)} : Token w n r → Tokens ws ps →
      Tokens (w :: ws) ((n, r) :: ps)

/-- `HeaderLine l k ps`: `l` is a header line of kind `k` with the tokens `ps`.
`Ops tok*`, `States tok*`, `Final States tok*` (the ranks of states are parsed – and must be numerals – but dropped);
`Automaton` or `Automaton name`: the name is ANY word (not a token: `A:x` is a name), recorded as `[(name, -1)]`, no name
as `[]`. -/
inductive HeaderLine : Str → HKind → List (Str × Int) → Prop
  | ops {l : Str} {ws : List Str} {ps : List (Str × Int)} : Words l (kwOps :: ws) → Tokens ws ps → HeaderLine l .ops ps
  | states {l : Str} {ws : List Str} {ps : List (Str × Int)} : Words l (kwStates :: ws) → Tokens ws ps →
      HeaderLine l .states ps
  | final {l : Str} {ws : List Str} {ps : List (Str × Int)} : Words l (kwFinal :: kwStates :: ws) → Tokens ws ps →
      HeaderLine l .final ps
  | autNone {l : Str} : Words l [kwAutomaton] → HeaderLine l .aut []
  | autName {l nm : Str} : Words l [kwAutomaton, nm] → HeaderLine l .aut [(nm, -1)]

/-- the first word is `Transitions`; the rest of the line is ignored (`are_transitions = true; continue;`) -/
def TransitionsLine (l : Str) : Prop := ∃ ws, Words l (kwTransitions :: ws)

/-- `->` is not a substring -/
def NoArrowIn (s : Str) : Prop := ¬ ∃ p q, s = p ++ '-' :: '>' :: q

/-- the text between the parentheses: pieces `pad kid pad` joined by commas (`split_delim(…, ',')`, then `trim`, then
`contains_whitespace`); a kid may be EMPTY (`a(q, )`); exactly one piece with an empty kid means no children (`a()`,
`a( )`: the test `state_tuple.size() == 1 && state_tuple[0] == ""` comes after the trimming) -/
inductive KidList : Str → List Str → Prop
  | none {g : Str} : AllWs g → KidList g []
  | some {pieces : List (Str × Str × Str)} : pieces ≠ [] →
      (∀ p ∈ pieces, AllWs p.1 ∧ NoWs p.2.1 ∧ ',' ∉ p.2.1 ∧ AllWs p.2.2) → pieces.map (·.2.1) ≠ [[]] →
      KidList (joinWith ',' (pieces.map (fun p => p.1 ++ p.2.1 ++ p.2.2))) (pieces.map (·.2.1))

/-- the trimmed left-hand side: a bare label (no white space, no parenthesis), or `label gap ( body )` where the label is
non-empty, starts and ends with a non-white character, contains no parenthesis – but MAY contain white space (`a b(q)`) –,
and the body contains no `)` (it may contain `(`: `a(b(c)`). -/
inductive Lhs : Str → Str → List Str → Prop
  | leaf {lab : Str} : lab ≠ [] → NoWs lab → '(' ∉ lab → ')' ∉ lab → Lhs lab lab []
  | app {lab g body : Str} {kids : List Str} : lab ≠ [] → HeadOk lab → LastOk lab → '(' ∉ lab → ')' ∉ lab →
      AllWs g → ')' ∉ body → KidList body kids → Lhs (lab ++ g ++ '(' :: (body ++ [')'])) lab kids

/-- `TransLine l lab kids rhs`: `l` is `pad lhs pad -> pad rhs pad`, the `->` being the FIRST one of the line (none inside
`lhs pad`), `rhs` one non-empty word (it may contain `->`, parentheses, anything but white space). -/
inductive TransLine : Str → Str → List Str → Str → Prop
  | mk {pre lhs b a rhs post lab : Str} {kids : List Str} : AllWs pre → AllWs b → AllWs a → AllWs post →
      Lhs lhs lab kids → NoArrowIn (lhs ++ b) → rhs ≠ [] → NoWs rhs →
      TransLine (pre ++ lhs ++ b ++ '-' :: '>' :: (a ++ rhs ++ post)) lab kids rhs

/-- the abstract syntax of a text: the header lines (kind, tokens) and the rules (children, symbol, parent), in the order
of the text -/
structure Reading where
  hdr : List (HKind × List (Str × Int))
  rules : List Trans
deriving Repr, DecidableEq

/-- the lines before the `Transitions` line: blank (`trim(line).empty()`) or header lines -/
inductive HeaderPart : List Str → List (HKind × List (Str × Int)) → Prop
  | nil : HeaderPart [] []
  | blank {l : Str} {ls : List Str} {hs : List (HKind × List (Str × Int))} : AllWs l → HeaderPart ls hs →
      HeaderPart (l :: ls) hs
  | line {l : Str} {k : HKind} {ps : List (Str × Int)} {ls : List Str} {hs : List (HKind × List (Str × Int))} :
      HeaderLine l k ps → HeaderPart ls hs → HeaderPart (l :: ls) ((k, ps) :: hs)

/-- the lines after the `Transitions` line: blank or transition lines -/
inductive RulePart : List Str → List Trans → Prop
  | nil : RulePart [] []
  | blank {l : Str} {ls : List Str} {rs : List Trans} : AllWs l → RulePart ls rs → RulePart (l :: ls) rs
  | line {l lab rhs : Str} {kids : List Str} {ls : List Str} {rs : List Trans} : TransLine l lab kids rhs →
      RulePart ls rs → RulePart (l :: ls) ((kids, lab, rhs) :: rs)

/-- **`Reads t R`**: the text `t` is: header part, a `Transitions` line, rule part; every header keyword at most once. -/
structure Reads (t : Str) (R : Reading) : Prop where
  split : ∃ (hdr : List Str) (trl : Str) (rules : List Str), Lines t (hdr ++ trl :: rules) ∧ HeaderPart hdr R.hdr ∧
    TransitionsLine trl ∧ RulePart rules R.rules
  once : (R.hdr.map (·.1)).Nodup

/-- **the accepted texts** -/
def Accepted (t : Str) : Prop := ∃ R, Reads t R

/-- **the rejected texts, by the first offence in text order** (`C13_rejected_iff`: exactly the complement of `Accepted`):
the lines are all blank or header lines (no `Transitions` line); or a line of the header part is neither blank, nor a
`Transitions` line, nor a header line (unknown keyword, bad rank, `Final` without `States`, two names after `Automaton`);
or some header keyword occurs twice before the `Transitions` line; or a line after the `Transitions` line is neither blank
nor a transition line. -/
inductive Rejected (t : Str) : Prop
  | noTransitions {ls : List Str} {hs : List (HKind × List (Str × Int))} : Lines t ls → HeaderPart ls hs → Rejected t
  | badHeader {pre post : List Str} {l : Str} {hs : List (HKind × List (Str × Int))} : Lines t (pre ++ l :: post) →
      HeaderPart pre hs → ¬ AllWs l → ¬ TransitionsLine l → (∀ k ps, ¬ HeaderLine l k ps) → Rejected t
  | repeated {hdr rules : List Str} {trl : Str} {hs : List (HKind × List (Str × Int))} :
      Lines t (hdr ++ trl :: rules) → HeaderPart hdr hs → TransitionsLine trl → ¬ (hs.map (·.1)).Nodup → Rejected t
  | badRule {hdr pre post : List Str} {trl l : Str} {hs : List (HKind × List (Str × Int))} :
      Lines t (hdr ++ trl :: (pre ++ l :: post)) → HeaderPart hdr hs → TransitionsLine trl → ¬ AllWs l →
      (∀ lab kids rhs, ¬ TransLine l lab kids rhs) → Rejected t

/-! ## the description a reading denotes -/

/-- all tokens of the header lines of kind `k` (at most one line when the kinds are `Nodup`) -/
def secToks (hs : List (HKind × List (Str × Int))) (k : HKind) : List (Str × Int) :=
  (hs.filter (fun h => h.1 == k)).flatMap (·.2)

/-- the name on the (last) `Automaton` line; empty when there is none or it carries no name -/
def nameOf (hs : List (HKind × List (Str × Int))) : Str :=
  hs.foldl (fun n h => if h.1 = .aut then (h.2.map (·.1)).headD [] else n) []

/-- the description: the sections as `std::set`s (sorted, duplicate-free: `norm`) -/
def Reading.desc (R : Reading) : Desc where
  name := nameOf R.hdr
  symbols := norm ltSym (secToks R.hdr .ops)
  states := norm ltStr ((secToks R.hdr .states).map (·.1))
  final := norm ltStr ((secToks R.hdr .final).map (·.1))
  trans := norm ltTrans R.rules

/-! ## 2. the reader -/

def optOk {α : Type} : Except String α → Option α
  | .ok a => some a
  | .error _ => none

/-- a header line from its words -/
def readHeader (ws : List Str) : Option (HKind × List (Str × Int)) :=
  let first := ws.headD []
  if first = kwAutomaton then
    if ws.tail.tail ≠ [] then none else some (.aut, ws.tail.map (fun n => (n, -1)))
  else if first = kwOps then (optOk (parseTokens ws.tail)).map (fun ps => (HKind.ops, ps))
  else if first = kwStates then (optOk (parseTokens ws.tail)).map (fun ps => (HKind.states, ps))
  else if first = kwFinal then
    if ws.tail.headD [] ≠ kwStates then none
    else (optOk (parseTokens ws.tail.tail)).map (fun ps => (HKind.final, ps))
  else none

/-- the trimmed left-hand side: (children, label) -/
def readLhs (lhs : Str) : Option (List Str × Str) :=
  match lhs.dropWhile (fun c => c != '(') with
  | [] => if lhs.contains ')' || containsWs lhs || lhs.isEmpty then none else some ([], lhs)
  | _ :: inner =>
    let lab0 := lhs.takeWhile (fun c => c != '(')
    if lab0.contains ')' then none
    else
      match inner.dropWhile (fun c => c != ')') with
      | [] => none
      | _ :: after =>
        if after ≠ [] then none
        else
          let lab := trim lab0
          if lab.isEmpty then none
          else
            let states := (splitDelim ',' (inner.takeWhile (fun c => c != ')'))).map trim
            if states.any containsWs then none
            else some (if states = [[]] then [] else states, lab)

/-- a transition line -/
def readTransLine (l : Str) : Option Trans :=
  match splitArrow (trim l) with
  | none => none
  | some (a, b) =>
    if (trim b).isEmpty || containsWs (trim b) then none
    else
      match readLhs (trim a) with
      | none => none
      | some (kids, lab) => some (kids, lab, trim b)

def isBlankLine (l : Str) : Bool := decide (trim l = [])
def isTransitionsLine (l : Str) : Bool := decide ((readWords (trim l)).headD [] = kwTransitions)

/-- first pass: the header lines up to the `Transitions` line, and the lines after it -/
def readHeaderPart : List Str → Option (List (HKind × List (Str × Int)) × List Str)
  | [] => none
  | l :: ls =>
    if isBlankLine l then readHeaderPart ls
    else if isTransitionsLine l then some ([], ls)
    else
      match readHeader (readWords (trim l)) with
      | none => none
      | some h =>
        match readHeaderPart ls with
        | none => none
        | some (hs, rest) => some (h :: hs, rest)

/-- second pass: the rules -/
def readRulePart : List Str → Option (List Trans)
  | [] => some []
  | l :: ls =>
    if isBlankLine l then readRulePart ls
    else
      match readTransLine l with
      | none => none
      | some r =>
        match readRulePart ls with
        | none => none
        | some rs => some (r :: rs)

def readLines (ls : List Str) : Option Reading :=
  match readHeaderPart ls with
  | none => none
  | some (hs, rest) =>
    match readRulePart rest with
    | none => none
    | some rs => if (hs.map (·.1)).Nodup then some ⟨hs, rs⟩ else none

/-- the reading of a text, if it has one -/
def readText (t : Str) : Option Reading := readLines (splitDelim '\n' t)

/-- **the Boolean grammar check** -/
def acceptedB (t : Str) : Bool := (readText t).isSome

/-! ## what a header line does to the parser state -/

def applyItem (st : PState) (h : HKind × List (Str × Int)) : PState :=
  match h.1 with
  | .ops => { st with opsP := true, d := { st.d with symbols := setInsertAll ltSym st.d.symbols h.2 } }
  | .aut => { st with autP := true, d := { st.d with name := (h.2.map (·.1)).headD [] } }
  | .states => { st with statesP := true, d := { st.d with states := setInsertAll ltStr st.d.states (h.2.map (·.1)) } }
  | .final => { st with finalP := true, d := { st.d with final := setInsertAll ltStr st.d.final (h.2.map (·.1)) } }

/-- the header items in turn, failing on a kind whose flag is set -/
def runItems : PState → List (HKind × List (Str × Int)) → Option PState
  | st, [] => some st
  | st, h :: hs => if st.flag h.1 then none else runItems (applyItem st h) hs

end Vata.Timbuk
