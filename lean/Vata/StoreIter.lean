import Vata.Store
/-!
# The iterator protocol of the rule store (properties C12, C20) – executable model

C++ (`src/explicit_tree_aut_core.{hh,cc}`): the three hand-written input iterators over the three-level container
`state ↦ (symbol ↦ set of tuples)`:

* `ExplicitTreeAutCoreUtil::Iterator` (`begin()`/`end()` of the automaton) – members `stateClusterIterator_`,
  `symbolSetIterator_`, `tupleIterator_` and the flag `end_`;
* `AcceptTransIterator` (`GetAcceptTrans()`) – additionally `stateSetIterator_` over `finalStates_`; `init()` `find`s the
  cluster of the current final state and skips the final states without a cluster;
* `DownAccessorIterator` over a `DownAccessor` (`GetDown(q)` / `operator[]`): `cluster_ = genericLookup(transitions, q)`
  (a null pointer when `q` has no cluster), members `symbolSetIterator_`, `tupleIterator_`; `DownAccessor::empty()`.

None of the `operator++` tests an inner container for emptiness before it takes `begin()` of it and dereferences the
result:

```
if (aut_.transitions_->end() != ++stateClusterIterator_) {
    symbolSetIterator_ = stateClusterIterator_->second->begin();
    tupleIterator_     = symbolSetIterator_->second->begin();      // dereferences begin() of the cluster
    return *this; }                                                 // *tupleIterator_ is dereferenced by operator*
```

(only the constructors `assert` non-emptiness).  The model makes these places explicit.

## The model

A store is the value `Store` of `Vata/Store.lean` (association lists in storage order), an inner C++ iterator is the
*index* of the entry it points to (`i` into `s.clusters`, `j` into the cluster, `k` into the tuple set; the index
`length` is `end()`).  An iterator object is a state `St α`:

* `.at a`   – the members hold the indices `a` (`(i, j, k)`, `(f, i, j, k)` with `f` the index into the final states,
              or `(j, k)`);
* `.fin`    – the iterator compares equal to `end()` (`end_` is set and/or `tupleIterator_` is the value-initialised
              `TuplePtrSet::const_iterator()`; the comparison operators of the C++ look at nothing else);
* `.stuck`  – a step with undefined behaviour was executed (or an `assert` of a constructor failed): `begin()` of an
              EMPTY cluster was dereferenced, `++` was applied to an iterator that is `end()`, `++` was applied to the
              end iterator.

`operator*` is `get`/`deref : … → Option Rule`; it is `none` when `tupleIterator_` is `end()` of its tuple set (the
C++ then dereferences a past-the-end `std::set` iterator) – this is how a position in an EMPTY tuple set shows up: the
`operator++` that produced it is harmless, the following `operator*` (or `operator++`) is not.

`Machine.drive` is the loop `for (it = begin(); it != end(); ++it) out.push_back(*it);`.
-/
namespace Vata.Store

/-! ### iterator states, generic driver -/

/-- the state of an iterator object whose members are the indices `α` -/
inductive St (α : Type) where
  /-- the members point to the entries with these indices -/
  | at (a : α)
  /-- compares equal to `end()` -/
  | fin
  /-- undefined behaviour has been executed / an `assert` failed -/
  | stuck
deriving Repr, DecidableEq

/-- an input iterator: `begin()`, `operator++` and `operator*` at a position that is not `end()` -/
structure Machine (α : Type) where
  start : St α
  step : α → St α
  get : α → Option Rule

/-- result of a traversal -/
inductive Outcome where
  /-- `end()` was reached; `out` was yielded -/
  | done (out : List Rule)
  /-- undefined behaviour after `out` had been yielded -/
  | stuck (out : List Rule)
  /-- the fuel was used up after `out` had been yielded -/
  | more (out : List Rule)
deriving Repr, DecidableEq

namespace Machine
variable {α : Type}

/-- `operator++` (on `end()` it dereferences singular / past-the-end members: undefined) -/
def next (M : Machine α) : St α → St α
  | .at a => M.step a
  | _ => .stuck

/-- `operator*` -/
def deref (M : Machine α) : St α → Option Rule
  | .at a => M.get a
  | _ => none

/-- the iterator after `n` increments of `begin()` -/
def posAt (M : Machine α) : Nat → St α
  | 0 => M.start
  | n + 1 => M.next (M.posAt n)

/-- `for (; it != end(); ++it) out.push_back(*it);` with at most `fuel` rounds -/
def drive (M : Machine α) : Nat → St α → List Rule → Outcome
  | _, .fin, acc => .done acc.reverse
  | _, .stuck, acc => .stuck acc.reverse
  | 0, .at _, acc => .more acc.reverse
  | n + 1, .at a, acc =>
    match M.get a with
    | none => .stuck acc.reverse
    | some r => M.drive n (M.step a) (r :: acc)

/-- the complete range-`for` from `begin()` -/
def traverse (M : Machine α) (fuel : Nat) : Outcome := M.drive fuel M.start []

end Machine

/-! ### the part common to the three iterators: moving inside one cluster -/

/-- result of the first two `if`s of `operator++` -/
inductive Adv where
  /-- still inside the cluster: `symbolSetIterator_` at `j`, `tupleIterator_` at `k` -/
  | pos (j k : Nat)
  /-- `++symbolSetIterator_` is `end()` of the cluster -/
  | out
  /-- undefined behaviour -/
  | stuck
deriving Repr, DecidableEq

/-- ```
if (symbolSetIterator_->second->end() != ++tupleIterator_) return *this;
if (cluster.end() != ++symbolSetIterator_) { tupleIterator_ = symbolSetIterator_->second->begin(); return *this; }
```
`++tupleIterator_` is undefined when `tupleIterator_` is already `end()` (`length ≤ k`); the new tuple set is NOT tested
for emptiness (its `begin()` is only stored). -/
def advance (c : Cluster) (j k : Nat) : Adv :=
  match c[j]? with
  | none => .stuck
  | some ft =>
    if ft.2.length ≤ k then .stuck
    else if k + 1 ≠ ft.2.length then .pos j (k + 1)
    else if j + 1 ≠ c.length then .pos (j + 1) 0
    else .out

/-- `Transition(state, symbolSetIterator_->first, **tupleIterator_)`; `none` = `tupleIterator_` not dereferenceable -/
def getIn (q : Nat) (c : Cluster) (j k : Nat) : Option Rule :=
  match c[j]? with
  | none => none
  | some ft =>
    match ft.2[k]? with
    | none => none
    | some t => some ⟨ft.1, t, q⟩

/-! ### `Iterator` -/

/-- `(i, j, k)` : `stateClusterIterator_`, `symbolSetIterator_`, `tupleIterator_` -/
abbrev Pos := St (Nat × Nat × Nat)

/-- ```
symbolSetIterator_ = stateClusterIterator_->second->begin();
tupleIterator_     = symbolSetIterator_->second->begin();
```
for the cluster entry `i`: dereferences `begin()` of the cluster (undefined when the cluster is empty); the tuple set is
not tested. -/
def enter (s : Store) (i : Nat) : Pos :=
  match s.clusters[i]? with
  | none => .stuck
  | some qc => if qc.2.isEmpty then .stuck else .at (i, 0, 0)

/-- `BaseTransIterator(aut)` (= `begin()`): `end_ = true` for an empty map; otherwise the first entries, with
`assert(cluster.end() != symbolSetIterator_)` and `assert(tupleSet.end() != tupleIterator_)` -/
def begin (s : Store) : Pos :=
  match s.clusters with
  | [] => .fin
  | (_, c) :: _ =>
    match c with
    | [] => .stuck
    | (_, ts) :: _ => if ts.isEmpty then .stuck else .at (0, 0, 0)

/-- `Iterator::operator++` -/
def iterStep (s : Store) : Nat × Nat × Nat → Pos
  | (i, j, k) =>
    match s.clusters[i]? with
    | none => .stuck
    | some qc =>
      match advance qc.2 j k with
      | .pos j' k' => .at (i, j', k')
      | .stuck => .stuck
      | .out =>
        -- `if (aut_.transitions_->end() != ++stateClusterIterator_)`
        if i + 1 ≠ s.clusters.length then enter s (i + 1)
        else .fin    -- `end_ = true; tupleIterator_ = TuplePtrSet::const_iterator();`

/-- `BaseTransIterator::operator*` / `getTrans` -/
def iterGet (s : Store) : Nat × Nat × Nat → Option Rule
  | (i, j, k) =>
    match s.clusters[i]? with
    | none => none
    | some qc => getIn qc.1 qc.2 j k

def iterM (s : Store) : Machine (Nat × Nat × Nat) := ⟨begin s, iterStep s, iterGet s⟩

/-- `++it` -/
def next (s : Store) (p : Pos) : Pos := (iterM s).next p
/-- `*it` -/
def deref (s : Store) (p : Pos) : Option Rule := (iterM s).deref p

/-- `for (const Transition& t : aut) out.push_back(t);` – the fuel `|iterate s|` is enough (theorem `iter_enumerates`) -/
def iterAll (s : Store) : Outcome := (iterM s).traverse (iterate s).length

/-! ### `AcceptTransIterator` -/

/-- `unordered_map::find` : index of the (first) entry with key `q` -/
def findIx {β : Type} (q : Nat) : List (Nat × β) → Option Nat
  | [] => none
  | (k, _) :: l => if k = q then some 0 else (findIx q l).map (· + 1)

/-- `(f, i, j, k)` : `stateSetIterator_`, `stateClusterIterator_`, `symbolSetIterator_`, `tupleIterator_` -/
abbrev APos := St (Nat × Nat × Nat × Nat)

/-- `AcceptTransIterator::init()` with `stateSetIterator_` at index `f`, `qs` = the final states from `f` on:
```
for (; stateSetIterator_ != finalStates_.end(); ++stateSetIterator_) {
    stateClusterIterator_ = transitions_->find(*stateSetIterator_);
    if (stateClusterIterator_ != transitions_->end()) break; }
if (stateSetIterator_ == finalStates_.end()) { tupleIterator_ = TuplePtrSet::const_iterator(); return; }
symbolSetIterator_ = stateClusterIterator_->second->begin();
tupleIterator_ = symbolSetIterator_->second->begin();
``` -/
def acceptInit (s : Store) : Nat → List Nat → APos
  | _, [] => .fin
  | f, q :: qs =>
    match findIx q s.clusters with
    | none => acceptInit s (f + 1) qs
    | some i =>
      match enter s i with
      | .at (i', j, k) => .at (f, i', j, k)
      | .fin => .fin
      | .stuck => .stuck

/-- `AcceptTransIterator(aut)` : the base-class constructor `BaseTransIterator(aut)` runs first (with its `assert`s on
the first cluster of the map), then `init()` from the first final state -/
def acceptBegin (s : Store) : APos :=
  match begin s with
  | .stuck => .stuck
  | _ => acceptInit s 0 s.final

/-- `AcceptTransIterator::operator++` : as `Iterator::operator++` inside the cluster, then
`++stateSetIterator_; this->init();` -/
def acceptStep (s : Store) : Nat × Nat × Nat × Nat → APos
  | (f, i, j, k) =>
    match s.clusters[i]? with
    | none => .stuck
    | some qc =>
      match advance qc.2 j k with
      | .pos j' k' => .at (f, i, j', k')
      | .stuck => .stuck
      | .out => acceptInit s (f + 1) (s.final.drop (f + 1))

/-- `operator*` : `Transition(stateClusterIterator_->first, symbolSetIterator_->first, **tupleIterator_)` -/
def acceptGet (s : Store) : Nat × Nat × Nat × Nat → Option Rule
  | (_, i, j, k) => iterGet s (i, j, k)

def acceptM (s : Store) : Machine (Nat × Nat × Nat × Nat) := ⟨acceptBegin s, acceptStep s, acceptGet s⟩

/-- `for (const Transition& t : aut.GetAcceptTrans()) out.push_back(t);` -/
def acceptAll (s : Store) : Outcome := (acceptM s).traverse (acceptTrans s).length

/-! ### `DownAccessor`, `DownAccessorIterator` -/

/-- `(j, k)` : `symbolSetIterator_`, `tupleIterator_` -/
abbrev DPos := St (Nat × Nat)

/-- `DownAccessor::cluster_` : `genericLookup(*aut.transitions_, state)` (`none` = `nullptr`) -/
def downCluster (s : Store) (q : Nat) : Option Cluster := s.clusters.lookup q

/-- `DownAccessor::empty()` : `nullptr == cluster_` -/
def downIterEmpty (s : Store) (q : Nat) : Bool := (downCluster s q).isNone

/-- `DownAccessorIterator(accessor)` (= `begin()`): returns at once for a null cluster; otherwise the first entries with
`assert(symbolSetIterator_ != cluster_->end())`, `assert(tupleIterator_ != symbolSetIterator_->second->end())` -/
def downBegin (s : Store) (q : Nat) : DPos :=
  match downCluster s q with
  | none => .fin
  | some c =>
    match c with
    | [] => .stuck
    | (_, ts) :: _ => if ts.isEmpty then .stuck else .at (0, 0)

/-- `DownAccessorIterator::operator++` -/
def downStep (s : Store) (q : Nat) : Nat × Nat → DPos
  | (j, k) =>
    match downCluster s q with
    | none => .stuck
    | some c =>
      match advance c j k with
      | .pos j' k' => .at (j', k')
      | .stuck => .stuck
      | .out => .fin    -- `tupleIterator_ = TuplePtrSet::const_iterator();`

/-- `DownAccessorIterator::operator*` : `Transition(accessor_.state_, symbolSetIterator_->first, **tupleIterator_)` -/
def downGet (s : Store) (q : Nat) : Nat × Nat → Option Rule
  | (j, k) =>
    match downCluster s q with
    | none => none
    | some c => getIn q c j k

def downM (s : Store) (q : Nat) : Machine (Nat × Nat) := ⟨downBegin s q, downStep s q, downGet s q⟩

/-- `for (const Transition& t : aut[q]) out.push_back(t);` -/
def downAll (s : Store) (q : Nat) : Outcome := (downM s q).traverse (down s q).length

/-! ### what the iterators need: no empty inner container (Boolean checker) -/

/-- no cluster is empty and no tuple set is empty (part of `invB`) -/
def noEmptyB (s : Store) : Bool :=
  s.clusters.all (fun qc => !qc.2.isEmpty && qc.2.all (fun ft => !ft.2.isEmpty))

end Vata.Store
