import Vata.BddAbsTD
import Vata.RcStoreXMono
/-!
# The library's one `ExtendWith` call (`BDDBUTreeAutCore::GetTopDownAut`), definitions (properties C17 / C08)

`src/bdd_bu_tree_aut_core.cc` l. 195–213 (the only call of `ExtendWith` in `src/`, `include/`, `cli/`):

    for (const StateType& state : states) {
      soughtState = state;
      for (auto tupleBddPair : transTable_) {
        checkedTuple = tupleBddPair.first;
        SymbolType prefix(BDDTDTreeAutCore::SYMBOL_ARITY_LENGTH, checkedTuple.size());     // 6 bits: the arity
        TransMTBDD extendedBdd = tupleBddPair.second.ExtendWith(prefix, Symbolic::SYMBOL_SIZE);   // offset 16
        result.SetMtbdd(state, invertFunc(extendedBdd, result.GetMtbdd(state)));
      } }

The operand `tupleBddPair.second` is an MTBDD STORED in the bottom-up table (`transTable_`: the nullary MTBDD and the values of
the hash map, `src/util/bdd_bu_trans_table.hh`, `src/bdd_bu_tt_wrapper.hh`).  `BddAbsTD.invertStep` already models the body;
`extendedBdd` names the intermediate diagram.  `stored` lists the operands, `BuiltBU` the tables the modelled library
operations can produce, `belowB` / `wfB` / `rootLt` are Boolean checkers (for `decide`), `mapLeaf` relates a table MTBDD
(leaves: state sets) to a store diagram (leaves: numbers).
-/
namespace Vata.ExtCall
open M BddAbs BddAbsTD
variable {α β : Type}

/-- `Symbolic::SYMBOL_SIZE` (`include/vata/symbolic.hh` l. 36) -/
def symbolSize : Nat := 16
/-- `BDDTDTreeAutCore::SYMBOL_ARITY_LENGTH` (`src/bdd_td_tree_aut_core.hh` l. 88) -/
def arityLength : Nat := 6

/-- the variables on the inner nodes of a diagram -/
def nodeVars : Node α → List Nat
  | .leaf _ => []
  | .node x lo hi => x :: (nodeVars lo ++ nodeVars hi)

/-- Boolean form of `M.Below` -/
def belowB (x : Nat) : Node α → Bool
  | .leaf _ => true
  | .node y lo hi => decide (y < x) && belowB x lo && belowB x hi

/-- Boolean form of `M.WF` (ordered and reduced) -/
def wfB [DecidableEq α] : Node α → Bool
  | .leaf _ => true
  | .node x lo hi => decide (lo ≠ hi) && belowB x lo && belowB x hi && wfB lo && wfB hi

/-- `IsLeaf(root) || GetVarFromInternal(root) < x`: the side condition `RcSX.opOk` puts on an `extendWith` (there: `vltB`) -/
def rootLt (x : Nat) : Node α → Bool
  | .leaf _ => true
  | .node y _ _ => decide (y < x)

/-- the same diagram with recoded leaves (`c` injective in the uses: the store model has numbers in the leaves) -/
def mapLeaf (c : α → β) : Node α → Node β
  | .leaf v => .leaf (c v)
  | .node x lo hi => .node x (mapLeaf c lo) (mapLeaf c hi)

/-- the MTBDDs stored in a bottom-up table: `nullaryMtbdd_` and the values of the map -/
def stored (T : Table) : List MT := T.nullary :: T.entries.map (·.2)

/-- `tupleBddPair.second.ExtendWith(prefix, Symbolic::SYMBOL_SIZE)` for a pair of the table (default value: `StateSet()`) -/
def extendedBdd (e : List Nat × MT) : MT := extendWith (arAsgn e.1.length) symbolSize e.2 []

/-- the `ExtendWith` calls executed by `GetTopDownAut(T)`: one per collected state and pair; the operands do not depend on the
state -/
def extendCalls (T : Table) (final : List Nat) : List (Nat × (List Nat × MT)) :=
  (tdStates T final).flatMap (fun p => (pairs T).map (fun e => (p, e)))

/-- tables produced by the modelled operations of `BDDBUTreeAutCore`:
`AddTransition` (`addCube`; `LoadFromAutDesc` only passes symbols of length `SYMBOL_SIZE`, the `assert` on the length in
`AddTransition` itself is commented out – hence the explicit bound), `Union` / `UnionDisjointStates` (`unionT`, `unionDisj`),
the `SetMtbdd` of `Intersection` (`isectAt`), `RemoveUnreachableStates`, `RemoveUselessStates` -/
inductive BuiltBU : Table → Prop
  | empty : BuiltBU Table.empty
  | addCube {T : Table} (ks : List Nat) (asgn : List (Option Bool)) (p : Nat) :
      BuiltBU T → asgn.length ≤ symbolSize → BuiltBU (addCube T ks asgn p)
  | unionT {T₁ T₂ : Table} : BuiltBU T₁ → BuiltBU T₂ → BuiltBU (unionT T₁ T₂)
  | unionDisj {T₁ T₂ : Table} : BuiltBU T₁ → BuiltBU T₂ → BuiltBU (unionDisj T₁ T₂)
  | isectAt (tr : Nat × Nat → Nat) {T T₁ T₂ : Table} (ks₁ ks₂ ks : List Nat) :
      BuiltBU T → BuiltBU T₁ → BuiltBU T₂ → BuiltBU (isectAt tr T T₁ T₂ ks₁ ks₂ ks)
  | unreach {T : Table} (final : List Nat) : BuiltBU T → BuiltBU (removeUnreachableBU T final).1
  | useless {T : Table} (final : List Nat) : BuiltBU T → BuiltBU (removeUselessBU T final).1

/-- a cube of 17 positions whose last position (variable 16) is set: what the unchecked public `AddTransition` accepts -/
def longCube : List (Option Bool) := List.replicate 16 none ++ [some true]

/-- the table after `AddTransition((), longCube, 1)` -/
def longTable : Table := addCube Table.empty [] longCube 1

end Vata.ExtCall
