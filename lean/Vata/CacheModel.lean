import Vata.Basic
/-!
# Model of the interning cache, the memoised binary operation and the bottom-up index (supports C01, C07, C09)

C++: `src/util/cache.hh` (`Util::Cache<T, Deleter>`), `src/util/cached_binary_op.hh` (`Util::CachedBinaryOp<T1, T2, V>`),
`src/util/expl_bu_index.hh` (`bottomUpIndex`, `bottomUpIndex2`) and the wiring of `src/tree_incl_down.hh`,
`src/explicit_tree_incl_down.cc`, `src/explicit_tree_incl_up.cc`:

    CachedBinaryOp<const StateSet*, const StateSet*, bool> lteCache;
    CachedBinaryOp<pair<SymbolType, size_t>, const StateSet*, …> evalTransitionsCache;          // upward algorithm only
    Cache<StateSet> biggerTypeCache([&](const StateSet* v) {
        lteCache.invalidateFirst(v); lteCache.invalidateSecond(v); evalTransitionsCache.invalidateSecond(v); });

What is modelled, member by member:

* `Cache::store_` is an `unordered_map<T, weak_ptr<T>>`; the interned OBJECT is the key stored inside the map node, its
  identity is the address of that key.  `Sys.store : value ↦ (identity, use_count)` (one list entry per node; the
  `use_count` is the counter of the `shared_ptr` control block the `weak_ptr` refers to).
* identities may be REUSED: `Cache::lookup` of a new value allocates a node; which address the allocator returns is a
  parameter of the step (`Op.lookup … choice`), the only thing the model demands is that no LIVE object has it.
* handles are `shared_ptr<T>`: the variables of the client are `Sys.slots`, the temporary returned by `lookup` / `find` /
  the copy constructor is `Sys.tmp` (empty between two steps).  `slot = cache.lookup(v)` is, as in libstdc++,
  "build the temporary, swap it with the slot, destroy the temporary": `intern`, `swapTmp`, `dropTmp`.
  When the count of the control block drops to 0 `DeleteElementF` runs: user deleter first, `store_.erase(*v)` second.
* `CachedBinaryOp`: `store_` (`BinOp.store`), `storeMap1_` / `storeMap2_` (`BinOp.map1`, `BinOp.map2`: key ↦ set of
  POINTERS TO ENTRIES of `store_`; an entry is identified here by its key, which is unique in a map).  `lookup`,
  `invalidateFirst`, `invalidateSecond`, `clear` are transcribed loop by loop, including that an index entry whose set
  became empty through the OTHER invalidation stays in its index.

Associative containers are lists of pairs; no order of a hash container is modelled (the driver compares sorted dumps).
Core Lean only.
-/
namespace Vata.CM

/-! ### associative lists -/
section Assoc
variable {κ ν : Type} [DecidableEq κ]

/-- `find` -/
def aget : List (κ × ν) → κ → Option ν
  | [], _ => none
  | (k', v) :: m, k => if k' = k then some v else aget m k

/-- `erase(key)` -/
def adel (m : List (κ × ν)) (k : κ) : List (κ × ν) := m.filter (fun e => !(decide (e.1 = k)))

/-- insert-or-assign (the position of the binding carries no meaning) -/
def aset (m : List (κ × ν)) (k : κ) (v : ν) : List (κ × ν) := adel m k ++ [(k, v)]

def akeys (m : List (κ × ν)) : List κ := m.map (·.1)
end Assoc

/-! ### `CachedBinaryOp<T1, T2, V>` -/

structure BinOp (κ₁ κ₂ β : Type) where
  /-- `store_` -/
  store : List ((κ₁ × κ₂) × β) := []
  /-- `storeMap1_`: first component ↦ the entries having it -/
  map1 : List (κ₁ × List (κ₁ × κ₂)) := []
  /-- `storeMap2_`: second component ↦ the entries having it -/
  map2 : List (κ₂ × List (κ₁ × κ₂)) := []

section BinOp
variable {κ κ₁ κ₂ ε β : Type} [DecidableEq κ] [DecidableEq ε] [DecidableEq κ₁] [DecidableEq κ₂]

/-- `m.insert(make_pair(k, {})).first->second.insert(e)` -/
def addIdx (m : List (κ × List ε)) (k : κ) (e : ε) : List (κ × List ε) :=
  match aget m k with
  | none => aset m k [e]
  | some l => aset m k (if e ∈ l then l else l ++ [e])

/-- `j = m.find(k); assert(j != m.end()); j->second.erase(e)` (a failing assertion is undefined behaviour in the NDEBUG build;
    here: nothing happens, and `BinOp.assertsFirst` / `assertsSecond` say whether the assertion holds) -/
def delIdx (m : List (κ × List ε)) (k : κ) (e : ε) : List (κ × List ε) :=
  match aget m k with
  | none => m
  | some l => aset m k (l.filter (fun e' => !(decide (e' = e))))

namespace BinOp

def empty : BinOp κ₁ κ₂ β := {}

/-- `clear()` -/
def clear (_ : BinOp κ₁ κ₂ β) : BinOp κ₁ κ₂ β := {}

/-- `lookup(x, y, f)` -/
def lookup (op : BinOp κ₁ κ₂ β) (x : κ₁) (y : κ₂) (f : κ₁ → κ₂ → β) : BinOp κ₁ κ₂ β × β :=
  match aget op.store (x, y) with
  | some v => (op, v)
  | none =>
    let v := f x y
    ({ store := aset op.store (x, y) v, map1 := addIdx op.map1 x (x, y), map2 := addIdx op.map2 y (x, y) }, v)

/-- `invalidateFirst(x)` -/
def invalidateFirst (op : BinOp κ₁ κ₂ β) (x : κ₁) : BinOp κ₁ κ₂ β :=
  match aget op.map1 x with
  | none => op
  | some items =>
    { store := items.foldl (fun s it => adel s it) op.store,
      map2 := items.foldl (fun m it => delIdx m it.2 it) op.map2,
      map1 := adel op.map1 x }

/-- `invalidateSecond(y)` -/
def invalidateSecond (op : BinOp κ₁ κ₂ β) (y : κ₂) : BinOp κ₁ κ₂ β :=
  match aget op.map2 y with
  | none => op
  | some items =>
    { store := items.foldl (fun s it => adel s it) op.store,
      map1 := items.foldl (fun m it => delIdx m it.1 it) op.map1,
      map2 := adel op.map2 y }

/-- do the `assert(j != storeMap2_.end())` of `invalidateFirst(x)` hold? (the loop never removes a key of `storeMap2_`) -/
def assertsFirst (op : BinOp κ₁ κ₂ β) (x : κ₁) : Bool :=
  match aget op.map1 x with
  | none => true
  | some items => items.all (fun it => (aget op.map2 it.2).isSome)

def assertsSecond (op : BinOp κ₁ κ₂ β) (y : κ₂) : Bool :=
  match aget op.map2 y with
  | none => true
  | some items => items.all (fun it => (aget op.map1 it.1).isSome)

end BinOp
end BinOp

/-! ### the cache, the handles and the wiring -/

/-- what the user deleter of the `Cache` does with the dying pointer -/
inductive Wiring
  /-- as the library: `lte.invalidateFirst(v); lte.invalidateSecond(v); eval.invalidateSecond(v)` -/
  | lib
  /-- the slip of theorem 4: `lte.invalidateFirst(v); lte.invalidateFirst(v); eval.invalidateSecond(v)` -/
  | firstTwice
  /-- the default deleter of `Cache()` (does nothing) -/
  | none
deriving DecidableEq, Repr

/-- the pure functions that are memoised: `F` on two objects (the set comparison `lte`), `G` on a plain key and an object
    (`evalTransitions`) -/
structure Cfg (α : Type) where
  F : α → α → Bool
  G : Nat × Nat → α → Nat
  wiring : Wiring

structure Sys (α : Type) where
  /-- `Cache::store_`: value ↦ (identity = address of the node's key, `use_count` of the control block) -/
  store : List (α × Nat × Nat) := []
  /-- the temporary `shared_ptr` of the running statement -/
  tmp : Option Nat := none
  /-- the `shared_ptr` variables of the client -/
  slots : List (Option Nat)
  /-- `lteCache` -/
  lte : BinOp Nat Nat Bool := {}
  /-- `evalTransitionsCache` -/
  ev : BinOp (Nat × Nat) Nat Nat := {}

def Sys.init (α : Type) (n : Nat) : Sys α := { slots := List.replicate n none }

section Sys
variable {α : Type} [DecidableEq α]

/-- the store seen from the pointer side: identity ↦ (value, use_count) — `*p` and `p.use_count()` -/
def byId (st : List (α × Nat × Nat)) (id : Nat) : Option (α × Nat) :=
  aget (st.map (fun e => (e.2.1, (e.1, e.2.2)))) id

def ids (st : List (α × Nat × Nat)) : List Nat := st.map (·.2.1)

/-- all handles: the temporary and the variables -/
def Sys.handles (s : Sys α) : List (Option Nat) := s.tmp :: s.slots

/-- `Cache::lookup(v)` into the temporary; `choice` = the address the allocator returns if a node is created -/
def intern (s : Sys α) (v : α) (choice : Nat) : Option (Sys α × Nat) :=
  match s.tmp with
  | some _ => none
  | none =>
    match aget s.store v with
    | some (id, rc) => some ({ s with store := aset s.store v (id, rc + 1), tmp := some id }, id)
    | none =>
      if choice ∈ ids s.store then none     -- no allocator returns the address of a live object
      else some ({ s with store := aset s.store v (choice, 1), tmp := some choice }, choice)

/-- `Cache::find(v)` into the temporary -/
def findTmp (s : Sys α) (v : α) : Option (Sys α × Option Nat) :=
  match s.tmp with
  | some _ => none
  | none =>
    match aget s.store v with
    | some (id, rc) => some ({ s with store := aset s.store v (id, rc + 1), tmp := some id }, some id)
    | none => some (s, none)

/-- copy constructor `shared_ptr tmp(slot[i])` -/
def dupTmp (s : Sys α) (i : Nat) : Option (Sys α) :=
  match s.tmp with
  | some _ => none
  | none =>
    match s.slots[i]? with
    | none => none
    | some none => some s
    | some (some id) =>
      match byId s.store id with
      | none => none                        -- dangling handle: undefined behaviour, never reached (`Inv`)
      | some (v, rc) => some { s with store := aset s.store v (id, rc + 1), tmp := some id }

/-- `tmp.swap(slot[i])` -/
def swapTmp (s : Sys α) (i : Nat) : Option (Sys α) :=
  match s.slots[i]? with
  | none => none
  | some x => some { s with slots := s.slots.set i s.tmp, tmp := x }

/-- the user deleter handed to the `Cache` constructor -/
def userDeleter (w : Wiring) (s : Sys α) (id : Nat) : Sys α :=
  match w with
  | .lib => { s with lte := (s.lte.invalidateFirst id).invalidateSecond id, ev := s.ev.invalidateSecond id }
  | .firstTwice => { s with lte := (s.lte.invalidateFirst id).invalidateFirst id, ev := s.ev.invalidateSecond id }
  | .none => s

/-- destructor of the temporary: decrement; at 0 `DeleteElementF`: `deleter_(v); store_.erase(*v)` -/
def dropTmp (w : Wiring) (s : Sys α) : Sys α :=
  match s.tmp with
  | none => s
  | some id =>
    match byId s.store id with
    | none => { s with tmp := none }        -- dangling handle, never reached (`Inv`)
    | some (v, rc) =>
      if rc ≤ 1 then
        let s' := userDeleter w s id
        { s' with store := adel s'.store v, tmp := none }
      else { s with store := aset s.store v (id, rc - 1), tmp := none }

/-- the pointer held by a variable -/
def slotId (s : Sys α) (i : Nat) : Option Nat :=
  match s.slots[i]? with
  | some (some a) => some a
  | _ => none

/-- `f(x, y)` as the library's `noncachedLte`: dereferences both pointers -/
def derefF (c : Cfg α) (s : Sys α) (x y : Nat) : Bool :=
  match byId s.store x, byId s.store y with
  | some (vx, _), some (vy, _) => c.F vx vy
  | _, _ => false

def derefG (c : Cfg α) (s : Sys α) (k : Nat × Nat) (y : Nat) : Nat :=
  match byId s.store y with
  | some (vy, _) => c.G k vy
  | none => 0

inductive Op (α : Type)
  /-- `slot[i] = cache.lookup(v)` -/
  | lookup (i : Nat) (v : α) (choice : Nat)
  /-- `slot[i] = cache.find(v)` -/
  | find (i : Nat) (v : α)
  /-- `slot[dst] = slot[src]` -/
  | copy (src dst : Nat)
  /-- `slot[i].reset()` -/
  | release (i : Nat)
  /-- the library's `lte`: `(x.get() == y.get()) ? true : lteCache.lookup(x.get(), y.get(), noncachedLte)` -/
  | lte (i j : Nat)
  /-- `lteCache.lookup(x.get(), y.get(), noncachedLte)` -/
  | memo (i j : Nat)
  /-- `evalTransitionsCache.lookup(k, x.get(), noncachedEval)` -/
  | eval (k : Nat × Nat) (i : Nat)
  /-- `lteCache.invalidateFirst(slot[i].get())` by the client -/
  | invFirst (i : Nat)
  | invSecond (i : Nat)
  | evInvFirst (k : Nat × Nat)
  | evInvSecond (i : Nat)
  | clearLte
  | clearEv
  /-- nothing on the classes (the harness lets the allocator recycle freed blocks here) -/
  | nop

inductive Ans
  | unit
  | ptr (p : Option Nat)
  | bool (b : Bool)
  | nat (n : Nat)
deriving DecidableEq, Repr

/-- one statement of the client; `none` = the statement is outside the contract (no such variable, null pointer
    dereferenced, an allocator choice that is impossible) -/
def step (c : Cfg α) (s : Sys α) : Op α → Option (Sys α × Ans)
  | .lookup i v ch =>
    match intern s v ch with
    | none => none
    | some (s₁, id) =>
      match swapTmp s₁ i with
      | none => none
      | some s₂ => some (dropTmp c.wiring s₂, .ptr (some id))
  | .find i v =>
    match findTmp s v with
    | none => none
    | some (s₁, r) =>
      match swapTmp s₁ i with
      | none => none
      | some s₂ => some (dropTmp c.wiring s₂, .ptr r)
  | .copy src dst =>
    match dupTmp s src with
    | none => none
    | some s₁ =>
      match swapTmp s₁ dst with
      | none => none
      | some s₂ => some (dropTmp c.wiring s₂, .unit)
  | .release i =>
    match s.tmp with
    | some _ => none
    | none =>
      match swapTmp s i with
      | none => none
      | some s₂ => some (dropTmp c.wiring s₂, .unit)
  | .lte i j =>
    match slotId s i, slotId s j with
    | some a, some b =>
      if a = b then some (s, .bool true)
      else
        let r := s.lte.lookup a b (derefF c s)
        some ({ s with lte := r.1 }, .bool r.2)
    | _, _ => none
  | .memo i j =>
    match slotId s i, slotId s j with
    | some a, some b =>
      let r := s.lte.lookup a b (derefF c s)
      some ({ s with lte := r.1 }, .bool r.2)
    | _, _ => none
  | .eval k i =>
    match slotId s i with
    | some b =>
      let r := s.ev.lookup k b (derefG c s)
      some ({ s with ev := r.1 }, .nat r.2)
    | none => none
  | .invFirst i =>
    match slotId s i with
    | some a => some ({ s with lte := s.lte.invalidateFirst a }, .unit)
    | none => none
  | .invSecond i =>
    match slotId s i with
    | some a => some ({ s with lte := s.lte.invalidateSecond a }, .unit)
    | none => none
  | .evInvFirst k => some ({ s with ev := s.ev.invalidateFirst k }, .unit)
  | .evInvSecond i =>
    match slotId s i with
    | some a => some ({ s with ev := s.ev.invalidateSecond a }, .unit)
    | none => none
  | .clearLte => some ({ s with lte := s.lte.clear }, .unit)
  | .clearEv => some ({ s with ev := s.ev.clear }, .unit)
  | .nop => some (s, .unit)

/-- a history -/
def run (c : Cfg α) : Sys α → List (Op α) → Option (Sys α × List Ans)
  | s, [] => some (s, [])
  | s, op :: ops =>
    match step c s op with
    | none => none
    | some (s', a) =>
      match run c s' ops with
      | none => none
      | some (s'', as) => some (s'', a :: as)

/-- do the assertions inside the two invalidations of the deleter hold for `id`? -/
def deleterAsserts (s : Sys α) (id : Nat) : Bool :=
  s.lte.assertsFirst id && (s.lte.invalidateFirst id).assertsSecond id && s.ev.assertsSecond id

end Sys

/-- the instance the driver runs: objects are sets of numbers (strictly increasing lists), `F` = ⊆,
    `G (a, i) S` = a number that depends on every element of `S` -/
def subsetB (x y : List Nat) : Bool := x.all (fun a => y.contains a)

def evalG (k : Nat × Nat) (S : List Nat) : Nat := S.foldl (fun acc x => acc * 31 + x + k.1) (k.2 + 7)

def setCfg (w : Wiring) : Cfg (List Nat) := ⟨subsetB, evalG, w⟩

/-! ### `expl_bu_index.hh` -/
namespace BU

/-- one `(state, symbol)` cluster of `*aut.GetTransitions()` in iteration order: the tuple set of the rules `sym(t) -> parent` -/
structure Group where
  parent : Nat
  sym : Nat
  tuples : List (List Nat)
deriving Repr

abbrev TList := List Rule

/-- `vector::resize(n)` when it grows, nothing otherwise (the code only ever calls it guarded by a size test) -/
def growTo {β : Type} (l : List (List β)) (n : Nat) : List (List β) := l ++ List.replicate (n - l.length) []

/-- `leaves[symbol].push_back(t)` -/
def pushLeaf (lv : List (Nat × TList)) (a : Nat) (r : Rule) : List (Nat × TList) :=
  aset lv a ((aget lv a).getD [] ++ [r])

/-- `IndexedSymbolToIndexedTransitionListMap`: state ↦ symbol ↦ position ↦ transitions -/
abbrev Idx1 := List (Nat × List (Nat × List TList))

/-- `bottomUpIndex[state][symbol]`, `resize(i + 1)` if needed, `[i].push_back(transition)` -/
def push1 (I : Idx1) (q a i : Nat) (r : Rule) : Idx1 :=
  let bySym := (aget I q).getD []
  let vec := (aget bySym a).getD []
  aset I q (aset bySym a ((growTo vec (i + 1)).modify i (· ++ [r])))

def pushTuple1 (a : Nat) (r : Rule) : Idx1 → List Nat → Nat → Idx1
  | I, [], _ => I
  | I, q :: ks, i => pushTuple1 a r (push1 I q a i r) ks (i + 1)

/-- `SymbolToDoubleIndexedTransitionListMap`: symbol ↦ position ↦ state ↦ transitions -/
abbrev Idx2 := List (Nat × List (List TList))

/-- `assert(i < d.size()); if (d[i].size() <= q) d[i].resize(q + 1); d[i][q].push_back(transition)`
    (position out of range: undefined behaviour in C++, nothing happens here – `Ranked` excludes it) -/
def push2 (d : List (List TList)) (i q : Nat) (r : Rule) : List (List TList) :=
  d.modify i (fun row => (growTo row (q + 1)).modify q (· ++ [r]))

def pushTuple2 (r : Rule) : List (List TList) → List Nat → Nat → List (List TList)
  | d, [], _ => d
  | d, q :: ks, i => pushTuple2 r (push2 d i q r) ks (i + 1)

/-- the body of the two outer loops of `bottomUpIndex` for one cluster; `tr` = the symbol translator -/
def group1 (tr : Nat → Nat) (st : Idx1 × List (Nat × TList)) (g : Group) : Idx1 × List (Nat × TList) :=
  match g.tuples with
  | [] => st                                   -- `assert(symbolTupleSetPair.second->size())`
  | first :: _ =>
    let a := tr g.sym
    if first.isEmpty then
      (st.1, g.tuples.foldl (fun lv t => pushLeaf lv a ⟨a, t, g.parent⟩) st.2)
    else
      (g.tuples.foldl (fun I t => pushTuple1 a ⟨a, t, g.parent⟩ I t 0) st.1, st.2)

/-- … of `bottomUpIndex2` -/
def group2 (tr : Nat → Nat) (st : Idx2 × List (Nat × TList)) (g : Group) : Idx2 × List (Nat × TList) :=
  match g.tuples with
  | [] => st
  | first :: _ =>
    let a := tr g.sym
    if first.isEmpty then
      (st.1, g.tuples.foldl (fun lv t => pushLeaf lv a ⟨a, t, g.parent⟩) st.2)
    else
      let d := growTo ((aget st.1 a).getD []) first.length
      (aset st.1 a (g.tuples.foldl (fun d t => pushTuple2 ⟨a, t, g.parent⟩ d t 0) d), st.2)

def bottomUpIndex (tr : Nat → Nat) (gs : List Group) : Idx1 × List (Nat × TList) := gs.foldl (group1 tr) ([], [])
def bottomUpIndex2 (tr : Nat → Nat) (gs : List Group) : Idx2 × List (Nat × TList) := gs.foldl (group2 tr) ([], [])

/-- reading the indices the way `checkInternal` does -/
def look1 (I : Idx1) (q a i : Nat) : TList := ((aget ((aget I q).getD []) a).getD []).getD i []
def look2 (I : Idx2) (a i q : Nat) : TList := (((aget I a).getD []).getD i []).getD q []
def lookLeaves (lv : List (Nat × TList)) (a : Nat) : TList := (aget lv a).getD []

/-- all rules of the clusters -/
def rulesOf (tr : Nat → Nat) (gs : List Group) : List Rule :=
  gs.flatMap (fun g => g.tuples.map (fun t => ⟨tr g.sym, t, g.parent⟩))

/-- the contract: inside a cluster either every tuple is empty or none, and no tuple is longer than the first one
    (true for a ranked alphabet, where the rank is part of the symbol) -/
def Ranked (gs : List Group) : Prop :=
  ∀ g ∈ gs, ∀ first rest, g.tuples = first :: rest → ∀ t ∈ g.tuples, (t = [] ↔ first = []) ∧ t.length ≤ first.length

/-- the contract as a test (what the driver checks before it judges an index case) -/
def rankedB (gs : List Group) : Bool :=
  gs.all (fun g => match g.tuples with
    | [] => true
    | first :: _ => g.tuples.all (fun t => (t.isEmpty == first.isEmpty) && decide (t.length ≤ first.length)))

end BU

end Vata.CM
