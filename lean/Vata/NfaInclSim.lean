import Vata.NfaIncl
import Vata.Ref
/-!
# Models of the remaining NFA inclusion selections (property C09): the EQUIVALENCE functor and the selections WITH a simulation

`src/explicit_finite_incl.cc` has seven cases.  `Vata/NfaIncl.lean` models `ANTICHAINS_NOSIM`, `CONGR_DEPTH_NOSIM`,
`CONGR_BREADTH_NOSIM`.  This file models the other four, as coded.

## 1. `CONGR_DEPTH_EQUIV_NOSIM` / `CONGR_BREADTH_EQUIV_NOSIM` – `nfaInclEquiv`

The dispatcher sanitises the operands, replaces `smaller` by `UnionDisjointStates(smaller, bigger)` and runs
`ExplicitFACongrEquivFunctor` (`src/explicit_finite_congr_equiv_fctor.hh`) on `(U, B)`, `U = A ⊎ B`.  `Init`, the product
set (`congr_product.hh`) and `MakePostForAut` are, line by line, those of the congruence functor
(`NfaIncl.runCongr`, `NfaIncl.addNext`, `NfaIncl.postSyms`, `NfaIncl.congrPost` are reused).  What differs is the test
at the head of `MakePost`:

```
CongrMap congrMap;                                         // rule index ↦ the set after that rule fired
StateSet congrSmaller(smaller);  GetCongrClosure(congrSmaller, insertNewPair);     // records, never stops
StateSet congrBigger(bigger);
if (GetCongrClosure(congrBigger, isCongrClosureSetNew)     // stops (returns true) when the set after rule i
    || areEqual(congrBigger, congrSmaller)) { … return; }  //   areEqual to congrMap[i]
```

`GetCongrClosure` applies the rules in BOTH directions (`MatchPair(set, first) || MatchPair(set, second)`, then both
components are added), in sweeps over `next_` (indices `0 …`) and then `relation_` (indices `next_.size() …`), every
rule at most once, until a sweep fires nothing.  `areEqual` is `false` as soon as one of the sets is empty.

Model: `eqSweep` (one sweep over the indexed rules; the trace plays `congrMap`; `congrMap.insert` keeps the first
entry and `operator[]` creates an empty one: `traceGet`), `eqCloseLoop` (the `while (appliedRule)`; fuel = number of rules
+ 1, `stuck` when it runs out – `eqCloseLoop_not_stuck` shows it never does), `equivSkip`, `loopEquiv`, `runEquiv`.
Macro-states are sorted duplicate-free lists compared by value (as in `Vata/NfaIncl.lean`, which also explains the
macro-state cache, the never-shared empty set and the reversed `next_`).

`nfaInclEquiv A B depthFirst fuel : Option Bool` returns the verdict of the exploration itself (no certificate check):
`Vata/Proofs/NfaInclSimEquiv.lean` proves every verdict exact for state-disjoint operands, and totality above
`fuelBoundCongr`.  `checkNfaInclEquiv` is the dispatcher case (sanitise first).

## 2. `ANTICHAINS_SIM` – `nfaInclACSim`

The dispatcher passes the CALLER's operands (not sanitised) and `params.GetSimulation()` to
`ExplicitFAInclusionFunctorCache<Rel, ExplicitFAStateSetComparatorSimulation<Rel>>`.  A relation is a list of pairs
(`Vata.Rel`); `preorder_.get(p, q)` is `relGet R p q` (`false` outside the list – the library's relation has a fixed size and
reading outside it is not modelled).  As coded (`src/comparators.hh`, `src/explicit_finite_incl_fctor_cache.hh`,
`src/antichain2c_v2.hh`):

* `lte(lss, rss)`: `∀ ls ∈ lss ∃ rs ∈ rss. get(ls, rs)` – no size shortcut here (`lteSim`); `gte(l, r) = lte(r, l)`;
* `getCandidate(q)`: the states `c` of `singleAntichain_` with `get(q, c)`; `getCandidateRev(q)`: those with `get(c, q)`;
  `singleAntichain_` only grows (`AddToSingleAC`), and the candidates of `AddNewPairToAntichain` are computed BEFORE the
  state is added, those of `AddToNext` after;
* `AddNewPairToAntichain(q, S)`: nothing when some candidate `c` has a pair `(c, P)` in `antichain_` with `lte(P, S)`;
  otherwise the pairs `(c, P)`, `c` a reverse candidate, `lte(S, P)`, are erased, `(q, S)` is inserted, and the same is done
  for `next_` (`AddToNext`) – `addPairSim`;
* `MakePost(q, S)`: for every `q --a--> q'` of the smaller automaton `S' := post(S, a)`; `inclNotHold_ |= final(q') && !acc(S')`,
  `return` when set; `if (!checkSmallerInBigger(q', S')) AddNewPairToAntichain(q', S')`, where `checkSmallerInBigger` is
  `∃ s ∈ S'. get(q', s)` – `makePostSim`;
* `Init` does not call `checkSmallerInBigger`; it keeps adding after `inclNotHold_` is set and the driver returns `false`
  right after `Init` – the model leaves at once (`initACSim`), same verdict.

The subset memo (`subsetMap_` / `subsetNotMap_`) and the macro-state cache are transparent and not modelled, the work-list
order is that of `NfaIncl.insNext` (see the header of `Vata/NfaIncl.lean`).

`nfaInclACSim A B R fuel : Option Bool` ends *certify-then-trust* like `nfaInclAC`: `true` only after the Boolean check
`nfaUpCertSimB` of the final antichain (start pairs covered, post-closed up to subsumption modulo `R` or skipped by
`checkSmallerInBigger`, no bad pair), `false` only after `acceptsW A w && !acceptsW B w`.  `nfaInclACSimRaw` is the verdict of
the exploration without the checks (what the C++ returns).  `Vata/Proofs/NfaInclSimAC.lean`: for state-disjoint operands and
`R` a simulation on `A ⊎ B` that is transitive every verdict of `nfaInclACSim` is exact; `isNfaSimPreB` is the decidable
checker of "simulation preorder on `U`", proved equivalent to the spec `NfaSimPre`.

## 3. `CONGR_DEPTH_SIM` – `nfaInclCongrSim`

The dispatcher passes the caller's operands through, WITHOUT the union ("if a simulation is used, a union has been already
done before the simulation"): the command line (`cli/operations.hh`) passes `smaller := UnionDisjointStates(smaller, bigger)`.
`congrSimFunctor U B R fuel` is `ExplicitFACongrFunctorCacheOpt<Rel, ProductStateSetDepth, NormalFormRelSimulation<Rel>>` on
`(U, B)` as given; `nfaInclCongrSim A B R fuel` runs it on `(A ⊎ B, B)`.  Differences to `NfaIncl.loopCongr`
(`src/normal_form_rel.hh`, `src/explicit_finite_congr_fctor_cache_opt.hh`):

* `applyRule(normalForm)`: every `r` with `get(r, state)` for a state of the set is added (`applyRuleSim`; the C++ inserts
  into the set it iterates over – whether the new elements are visited too is unspecified; for a transitive relation it
  makes no difference, the model makes one pass over the original set);
* `MakePost`: `congrBigger := bigger; applyRule(congrBigger)` before the closure; `AddSubSet(set, x)` adds `applyRule(x)`.

The memo `usedRules_` is not modelled (see `Vata/NfaIncl.lean`).  `nfaInclCongrSim` ends certify-then-trust: `true` only after
`congrCertB A B (relation ++ simRules R)` – the simulation pairs are checked as rewriting rules `{s} ~ {s, r}` together with
the relation, so a `true` is right for EVERY `R`; `nfaInclCongrSimRaw` is the unchecked verdict, proved exact for
state-disjoint operands and `R` a simulation on `A ⊎ B` in `Vata/Proofs/NfaInclSimCongrInv.lean`, together with totality above
`fuelBoundCongr` (the inner closure loop has fuel = number of rules + 1 and never runs out: `closeLoopSim_not_stuck`).
-/
namespace Vata
open Vata.W

namespace NfaIncl

/-! ### 1. the equivalence functor -/

/-- `MatchPair(closure, rule)`:
```
if (rule.size() > closure.size()) return false;
for (auto& s : rule) if (!closure.count(s)) return false;
return true;
``` -/
def matchPair (closure rule : List Nat) : Bool := !(decide (rule.length > closure.length)) && Vata.subB rule closure

/-- the lambda `areEqual(lss, rss)`:
```
if (lss.size() != rss.size()) return false;
if (!lss.size() || !rss.size()) return false;
for (auto& ls : lss) if (!rss.count(ls)) return false;
return true;
``` -/
def areEqualB (lss rss : List Nat) : Bool :=
  lss.length == rss.length && !lss.isEmpty && !rss.isEmpty && Vata.subB lss rss

/-- `congrMap`: rule index ↦ the set right after that rule fired, in the order of insertion -/
abbrev CTrace := List (Nat × List Nat)

/-- `congrMap[i]`: the first entry for `i`; `operator[]` default-constructs an empty set when there is none -/
def traceGet (tr : CTrace) (i : Nat) : List Nat :=
  match tr.find? (fun p => p.1 == i) with
  | some p => p.2
  | none => []

/-- one sweep of `GetCongrClosure` (the two `for` loops: `next_` then `relation_`, here one indexed list) over the
rules not yet used.  `man i set` is the `congrMapManipulator`; `none` = it said stop (`return true`).  Otherwise: the rules
still unused, the set, the trace (`congrMap.insert`) and `appliedRule` -/
def eqSweep (man : Nat → List Nat → Bool) :
    List (CRule × Nat) → List (CRule × Nat) → List Nat → CTrace → Bool →
      Option (List (CRule × Nat) × List Nat × CTrace × Bool)
  | [], un, set, tr, ap => some (un.reverse, set, tr, ap)
  | r :: rs, un, set, tr, ap =>
    if matchPair set r.1.1 || matchPair set r.1.2 then
      let set' := normS (set ++ r.1.1 ++ r.1.2)
      if man r.2 set' then eqSweep man rs un set' (tr ++ [(r.2, set')]) true else none
    else eqSweep man rs (r :: un) set tr ap

inductive ClRes where
  /-- `GetCongrClosure` returned `true` (the manipulator stopped it) -/
  | stop
  /-- it returned `false`; the closure and the trace -/
  | done (set : List Nat) (tr : CTrace)
  /-- the fuel of the model ran out (never happens: `eqCloseLoop_not_stuck`) -/
  | stuck

/-- `while (appliedRule) { appliedRule = false; … }` -/
def eqCloseLoop (man : Nat → List Nat → Bool) : Nat → List (CRule × Nat) → List Nat → CTrace → ClRes
  | 0, _, _, _ => .stuck
  | n+1, rules, set, tr =>
    match eqSweep man rules [] set tr false with
    | none => .stop
    | some (un, set', tr', ap) => if ap then eqCloseLoop man n un set' tr' else .done set' tr'

/-- the test at the head of `MakePost`: `some true` = the pair is skipped, `none` = stuck (never) -/
def equivSkip (rules : List CRule) (smaller bigger : List Nat) : Option Bool :=
  match eqCloseLoop (fun _ _ => true) (rules.length + 1) rules.zipIdx smaller [] with
  | .done congrSmaller congrMap =>
    match eqCloseLoop (fun i set => !areEqualB (traceGet congrMap i) set) (rules.length + 1) rules.zipIdx bigger [] with
    | .stop => some true
    | .done congrBigger _ => some (areEqualB congrBigger congrSmaller)
    | .stuck => none
  | _ => none

/-- the main loop with `MakePost` of the equivalence functor; one unit of fuel per picked pair -/
def loopEquiv (U B : NFA) (breadth : Bool) : Nat → CSt → Option (Res (List CItem))
  | 0, _ => none
  | n+1, st =>
    match st.next with
    | [] => some (.ok st.relation)
    | it :: rest =>
      match equivSkip (rulesOf (rest.reverse ++ st.relation)) it.X it.Y with
      | none => none
      | some true => loopEquiv U B breadth n ⟨st.relation, rest, st.visited⟩
      | some false =>
        match congrPost U B breadth it (postSyms U B it.X it.Y) ⟨st.relation, rest, st.visited⟩ with
        | .error w => some (.error w)
        | .ok st' => loopEquiv U B breadth n ⟨st'.relation ++ [it], st'.next, st'.visited⟩

/-- `Init` (`inclNotHold_ = smallerInitFinal != biggerInitFinal`) and the main loop on `U` and `B` -/
def runEquiv (U B : NFA) (breadth : Bool) (fuel : Nat) : Option (Res (List CItem)) :=
  let X0 := normS U.start
  let Y0 := normS B.start
  if W.accepting U X0 != W.accepting B Y0 then some (.error [])
  else loopEquiv U B breadth fuel ⟨[], [⟨X0, Y0, []⟩], [(X0, Y0)]⟩

end NfaIncl

open NfaIncl

/-- the equivalence functor on `(A ⊎ B, B)`, as the dispatcher runs it; `ok R` = `return true` with the final
`relation_`, `error w` = `return false` at the word `w` -/
def nfaInclEquivRun (A B : NFA) (depthFirst : Bool) (fuel : Nat) : Option (Res (List CItem)) :=
  runEquiv (nfaUnionDisjoint A B) B (!depthFirst) fuel

/-- the verdict of the equivalence functor on `(A ⊎ B, B)`; the operands must have disjoint states -/
def nfaInclEquiv (A B : NFA) (depthFirst : Bool) (fuel : Nat) : Option Bool :=
  match nfaInclEquivRun A B depthFirst fuel with
  | none => none
  | some (.ok _) => some true
  | some (.error _) => some false

/-- model of `CheckInclusion` with `CONGR_DEPTH_EQUIV_NOSIM` (`depthFirst = true`) / `CONGR_BREADTH_EQUIV_NOSIM` -/
def checkNfaInclEquiv (A B : NFA) (depthFirst : Bool) (fuel : Nat) : Option Bool :=
  nfaInclEquiv (nfaSanitize A B).1 (nfaSanitize A B).2 depthFirst fuel

/-! ### 2. the antichain functor with a simulation relation -/

/-- `preorder_.get(p, q)` -/
def relGet (R : Rel) (p q : Nat) : Bool := R.contains (p, q)

namespace NfaIncl

/-- `ExplicitFAStateSetComparatorSimulation::lte`:
```
for (auto ls : lss) { bool tempres = false;
  for (auto rs : rss) if (preorder_.get(ls,rs)) { tempres |= true; break; }
  res &= tempres; if (!res) return false; }
return res;
``` -/
def lteSim (R : Rel) (lss rss : List Nat) : Bool := lss.all (fun ls => rss.any (fun rs => relGet R ls rs))

/-- `getCandidate`: `for (candidate : antichain.data()) if (preorder_.get(state,candidate)) push_back(candidate)` -/
def candSim (R : Rel) (single : List Nat) (q : Nat) : List Nat := single.filter (fun c => relGet R q c)

/-- `getCandidateRev`: `… if (preorder_.get(candidate,state)) …` -/
def candRevSim (R : Rel) (single : List Nat) (q : Nat) : List Nat := single.filter (fun c => relGet R c q)

/-- `Antichain2Cv2::contains(candidates, Q, lte)`: some candidate `c` has a pair `(c, P)` with `lte(P, Q)` -/
def containsSim (R : Rel) (P : List Item) (cands : List Nat) (S : List Nat) : Bool :=
  cands.any (fun c => P.any (fun i => i.q == c && lteSim R i.S S))

/-- `Antichain2Cv2::refine(candidates, Q, gte)`: erase the pairs `(c, P)`, `c` a candidate, with `gte(P, Q) = lte(Q, P)` -/
def refineSim (R : Rel) (P : List Item) (cands : List Nat) (S : List Nat) : List Item :=
  P.filter (fun i => !(cands.contains i.q && lteSim R S i.S))

structure StS where
  antichain : List Item
  next : List Item
  /-- `singleAntichain_` -/
  single : List Nat

/-- `AddNewPairToAntichain` with `AddToSingleAC` and `AddToNext` -/
def addPairSim (R : Rel) (st : StS) (it : Item) : StS :=
  if containsSim R st.antichain (candSim R st.single it.q) it.S then st
  else
    let single := if st.single.contains it.q then st.single else st.single ++ [it.q]
    ⟨refineSim R st.antichain (candRevSim R st.single it.q) it.S ++ [it],
     if containsSim R st.next (candSim R single it.q) it.S then st.next
     else insNext it (refineSim R st.next (candRevSim R single it.q) it.S),
     single⟩

/-- `Init`, the loop over the start states of the smaller automaton -/
def initACSim (A B : NFA) (R : Rel) (S0 : List Nat) : List Nat → StS → Res StS
  | [], st => .ok st
  | s :: ss, st =>
    if A.final.contains s && !W.accepting B S0 then .error []
    else initACSim A B R S0 ss (addPairSim R st ⟨s, S0, []⟩)

/-- `checkSmallerInBigger(smaller, biggerSet)`: `for (s : biggerSet) if (preorder_.get(smaller,s)) return true;` -/
def smallerInBigger (R : Rel) (q : Nat) (S : List Nat) : Bool := S.any (fun s => relGet R q s)

/-- `MakePost` for the picked pair `it`, the loop over the transitions of the smaller automaton -/
def makePostSim (A B : NFA) (R : Rel) (it : Item) : List (Nat × Nat × Nat) → StS → Res StS
  | [], st => .ok st
  | e :: es, st =>
    if e.1 == it.q then
      let S' := macroStep B it.S e.2.1
      if A.final.contains e.2.2 && !W.accepting B S' then .error (it.w ++ [e.2.1])
      else if smallerInBigger R e.2.2 S' then makePostSim A B R it es st
      else makePostSim A B R it es (addPairSim R st ⟨e.2.2, S', it.w ++ [e.2.1]⟩)
    else makePostSim A B R it es st

/-- the main loop; one unit of fuel per picked pair -/
def loopACSim (A B : NFA) (R : Rel) : Nat → StS → Option (Res (List Item))
  | 0, _ => none
  | n+1, st =>
    match st.next with
    | [] => some (.ok st.antichain)
    | it :: rest =>
      match makePostSim A B R it A.trans ⟨st.antichain, rest, st.single⟩ with
      | .error w => some (.error w)
      | .ok st' => loopACSim A B R n st'

/-- the antichain functor with the simulation comparator on `(A, B)` as given -/
def runACSim (A B : NFA) (R : Rel) (fuel : Nat) : Option (Res (List Item)) :=
  match initACSim A B R (normS B.start) A.start ⟨[], [], []⟩ with
  | .error w => some (.error w)
  | .ok st => loopACSim A B R fuel st

/-! ### 3. the congruence functor with `NormalFormRelSimulation` -/

/-- `NormalFormRelSimulation::applyRule`:
```
for (auto& state : normalForm) for (size_t r=0; r < preorder_.size(); r++) if (preorder_.get(r,state)) normalForm.insert(r);
``` -/
def applyRuleSim (R : Rel) (S : List Nat) : List Nat := normS (S ++ (R.filter (fun p => S.contains p.2)).map (·.1))

/-- the lambda `isSubSet(lss, rss)` (size shortcut, then membership) -/
def isSubSetB (lss rss : List Nat) : Bool := !(decide (lss.length > rss.length)) && Vata.subB lss rss

/-- one sweep of `ApplyRulesForRelation` over `next_` then `relation_` with `AddSubSet` = union with `applyRule(subset)`;
`none` = the manipulator `!isSubSet(s, set)` stopped it -/
def sweepSim (R : Rel) (s : List Nat) : List CRule → List CRule → List Nat → Bool → Option (List CRule × List Nat × Bool)
  | [], un, set, ap => some (un.reverse, set, ap)
  | r :: rs, un, set, ap =>
    if matchPair set r.2 then
      let set' := normS (set ++ applyRuleSim R r.1 ++ applyRuleSim R r.2)
      if isSubSetB s set' then none else sweepSim R s rs un set' true
    else sweepSim R s rs (r :: un) set ap

/-- `GetCongrClosure(b, set, …) || isSubSet(s, set)` -/
def closeLoopSim (R : Rel) (s : List Nat) : Nat → List CRule → List Nat → Option Bool
  | 0, _, _ => none
  | n+1, rules, set =>
    match sweepSim R s rules [] set false with
    | none => some true
    | some (un, set', ap) => if ap then closeLoopSim R s n un set' else some (isSubSetB s set')

/-- the test of `MakePost`: `congrBigger(bigger); applyRule(congrBigger); GetCongrClosure(…) || isSubSet(s, congrBigger)`;
`none` = the fuel of the model (number of rules + 1) ran out -/
def inClosureSim (R : Rel) (rules : List CRule) (s b : List Nat) : Option Bool :=
  closeLoopSim R s (rules.length + 1) rules (applyRuleSim R b)

/-- the main loop (depth-first product set: the only instantiation with a simulation) -/
def loopCongrSim (U B : NFA) (R : Rel) : Nat → CSt → Option (Res (List CItem))
  | 0, _ => none
  | n+1, st =>
    match st.next with
    | [] => some (.ok st.relation)
    | it :: rest =>
      match inClosureSim R (rulesOf (rest.reverse ++ st.relation)) it.X it.Y with
      | none => none
      | some true => loopCongrSim U B R n ⟨st.relation, rest, st.visited⟩
      | some false =>
        match congrPost U B false it (postSyms U B it.X it.Y) ⟨st.relation, rest, st.visited⟩ with
        | .error w => some (.error w)
        | .ok st' => loopCongrSim U B R n ⟨st'.relation ++ [it], st'.next, st'.visited⟩

/-- `Init` and the main loop of the congruence functor with `NormalFormRelSimulation` on `(U, B)` as given -/
def congrSimFunctor (U B : NFA) (R : Rel) (fuel : Nat) : Option (Res (List CItem)) :=
  let X0 := normS U.start
  let Y0 := normS B.start
  if W.accepting U X0 != W.accepting B Y0 then some (.error [])
  else loopCongrSim U B R fuel ⟨[], [⟨X0, Y0, []⟩], [(X0, Y0)]⟩

/-- the simulation pairs as rewriting rules: `get(r, s)` makes `{s}` and `{s, r}` congruent -/
def simRules (R : Rel) : List CRule := R.map (fun p => ([p.2], [p.2, p.1]))

end NfaIncl

open NfaIncl

/-- `R` is a simulation on `U`: related states agree on finality one way and every move is answered -/
def NfaSim (U : NFA) (R : Rel) : Prop :=
  ∀ p q, (p, q) ∈ R → (p ∈ U.final → q ∈ U.final) ∧
    ∀ a p', (p, a, p') ∈ U.trans → ∃ q', (q, a, q') ∈ U.trans ∧ (p', q') ∈ R

/-- `R` is a simulation preorder on `U` -/
def NfaSimPre (U : NFA) (R : Rel) : Prop :=
  NfaSim U R ∧ (∀ q, q ∈ nfaStates U → (q, q) ∈ R) ∧ (∀ p q r, (p, q) ∈ R → (q, r) ∈ R → (p, r) ∈ R)

/-- decidable form of `NfaSim` -/
def isNfaSimB (U : NFA) (R : Rel) : Bool :=
  R.all (fun pq => (!U.final.contains pq.1 || U.final.contains pq.2) &&
    U.trans.all (fun e => e.1 != pq.1 ||
      U.trans.any (fun e' => e'.1 == pq.2 && e'.2.1 == e.2.1 && relGet R e.2.2 e'.2.2)))

/-- decidable form of `NfaSimPre` -/
def isNfaSimPreB (U : NFA) (R : Rel) : Bool :=
  isNfaSimB U R && (nfaStates U).all (fun q => relGet R q q) &&
  R.all (fun pq => R.all (fun qr => pq.2 != qr.1 || relGet R pq.1 qr.2))

/-- Boolean certificate check for a `true` of the antichain functor with a simulation, in `U = A ⊎ B`: the start states are
covered, every successor of a pair is skipped (`checkSmallerInBigger`) or covered, no pair is bad -/
def nfaUpCertSimB (A B : NFA) (R : Rel) (X : List (Nat × List Nat)) : Bool :=
  let U := nfaUnionDisjoint A B
  A.start.all (fun s => X.any (fun p => relGet R s p.1 && lteSim R p.2 B.start)) &&
  X.all (fun p => U.trans.all (fun e => e.1 != p.1 ||
    smallerInBigger R e.2.2 (stepW U p.2 e.2.1) ||
    X.any (fun p' => relGet R e.2.2 p'.1 && lteSim R p'.2 (stepW U p.2 e.2.1)))) &&
  X.all (fun p => !U.final.contains p.1 || W.accepting U p.2)

/-- the verdict of the exploration alone (what the C++ returns) -/
def nfaInclACSimRaw (A B : NFA) (R : Rel) (fuel : Nat) : Option Bool :=
  match runACSim A B R fuel with
  | none => none
  | some (.ok _) => some true
  | some (.error _) => some false

/-- model of `CheckInclusion` with `ANTICHAINS_SIM` on the caller's operands and relation, certify-then-trust -/
def nfaInclACSim (A B : NFA) (R : Rel) (fuel : Nat) : Option Bool :=
  match runACSim A B R fuel with
  | none => none
  | some (.ok P) => if nfaUpCertSimB A B R (P.map (fun i => (i.q, i.S))) then some true else none
  | some (.error w) => if acceptsW A w && !acceptsW B w then some false else none

/-- the verdict of the exploration alone on `(A ⊎ B, B)` -/
def nfaInclCongrSimRaw (A B : NFA) (R : Rel) (fuel : Nat) : Option Bool :=
  match congrSimFunctor (nfaUnionDisjoint A B) B R fuel with
  | none => none
  | some (.ok _) => some true
  | some (.error _) => some false

/-- model of `CheckInclusion` with `CONGR_DEPTH_SIM` called as the command line does (`smaller := A ⊎ B`),
certify-then-trust -/
def nfaInclCongrSim (A B : NFA) (R : Rel) (fuel : Nat) : Option Bool :=
  match congrSimFunctor (nfaUnionDisjoint A B) B R fuel with
  | none => none
  | some (.ok Rl) => if congrCertB A B (rulesOf Rl ++ simRules R) then some true else none
  | some (.error w) => if acceptsW A w && !acceptsW B w then some false else none

end Vata
