import Vata.Ref
/-!
# Certifying executable model of the upward antichain inclusion algorithm (identity relation)

Mirrors `ExplicitUpwardInclusion::checkInternal` (`src/explicit_tree_incl_up.cc`) instantiated with the identity
relation (`ANTICHAINS_UP_NOSIM`):

* the early exit `biggerLeaves.size() < smallerLeaves.size()` (fewer leaf symbols in `B` than in `A`);
* the leaf phase: for every leaf rule `a → q` of `A` the macro-state `post_B a []`; `false` when `q` is final and the
  macro-state is not accepting; otherwise the pair goes to `processed` and `next`;
* the work-list `next` (ordered by the size of the macro-state, then by the state, as `std::set<…, less>`) and the
  antichain `processed` of pairs `(q, S)`: a new pair is dropped when some `(q, S')` with `S' ⊆ S` is present, pairs
  `(q, S')` with `S ⊆ S'` are erased from `processed` and from `next`;
* the post-image step: for the picked `(q, S)`, every rule `f(q₁..qₙ) → p` of `A` and every position `j` with `qⱼ = q`,
  all choices of processed pairs for the other positions; `S' := post_B f (S₁..Sₙ)`; `false` when `S'` is empty, `false`
  when `p` is final and `S'` is not accepting; the results of one rule/position are collected in the antichain
  `temporary` and then merged into `processed`/`next`.

With the identity relation `ind[s] = inv[s] = {s}`, hence `post.contains/refine/insert` build the plain set of parents
(`macroPost`).  The test `checkIntersection(ind[q], tmp)` (is the `A`-state simulated by a member of the macro-state?)
can never succeed on the disjointly numbered operands `SanitizeAutsForInclusion` produces; it is left out, so the model
is also right on operands whose state numbers overlap.  Address-ordered containers are replaced by list order.

Every pair carries a tree `t` with `q ∈ reach A t` and `S = reach B t` (as sets).  The run ends *certify-then-trust*:
`true` is only returned together with the final antichain `X` after the Boolean check `upCertB A B X`, `false` only with
a tree `w` after the check `accepts A w && !accepts B w`; `none` = fuel exhausted or the check failed.

Definitions only (core Lean); the theorems are in `Vata/Proofs/InclUp.lean` (verdicts), `Vata/Proofs/InclUpInv.lean`
(the exploration itself) and `Vata/Proofs/InclUpTotal.lean` (termination, totality on trimmed operands).
-/
namespace Vata

namespace InclUp

/-- a pair `(q, S)` of the antichain together with a tree that reaches it -/
structure Item where
  q : Nat
  S : List Nat
  t : Tree

/-- insertion into a strictly increasing list -/
def insS (x : Nat) : List Nat → List Nat
  | [] => [x]
  | y :: l => if x < y then x :: y :: l else if x == y then y :: l else y :: insS x l

/-- sorted duplicate-free representative of a set (`std::sort` of `post.data()`) -/
def normS (l : List Nat) : List Nat := l.foldr insS []

/-- the macro-state `post_B f (S₁..Sₙ)` -/
def macroPost (B : TA) (f : Nat) (Ss : List (List Nat)) : List Nat := normS (post B f Ss)

/-! ### the antichains -/

/-- `Antichain2C::contains`: some `(q, S')` with `S' ⊆ S` is present -/
def subsumed (P : List Item) (q : Nat) (S : List Nat) : Bool := P.any (fun i => i.q == q && subB i.S S)

/-- `Antichain2C::refine`: erase the pairs `(q, S')` with `S ⊆ S'` -/
def refine (P : List Item) (q : Nat) (S : List Nat) : List Item := P.filter (fun i => !(i.q == q && subB S i.S))

/-- the order `less` of the work-list: size of the macro-state, then the state -/
def itemLt (a b : Item) : Bool := a.S.length < b.S.length || (a.S.length == b.S.length && a.q < b.q)

/-- insertion into the ordered work-list -/
def insNext (it : Item) : List Item → List Item
  | [] => [it]
  | x :: l => if itemLt it x then it :: x :: l else x :: insNext it l

structure St where
  processed : List Item
  next : List Item

/-- `if (processed.contains(..)) continue; processed.refine(.., Eraser(next)); processed.insert(..); next.insert(..)` -/
def addItem (st : St) (it : Item) : St :=
  if subsumed st.processed it.q it.S then st
  else ⟨refine st.processed it.q it.S ++ [it], insNext it (refine st.next it.q it.S)⟩

/-- the same for `temporary` -/
def addTmp (tmp : List Item) (it : Item) : List Item :=
  if subsumed tmp it.q it.S then tmp else refine tmp it.q it.S ++ [it]

/-! ### leaf phase -/

def leafSyms (A : TA) : List Nat := normS ((A.rules.filter (fun ρ => ρ.kids.isEmpty)).map (·.sym))

/-- `error (q, t)` is a `return false` of the code: `q ∈ reach A t` and no context around `t` is accepted by `B` -/
abbrev Res (α : Type) := Except (Nat × Tree) α

def leafPhase (A B : TA) : List Rule → St → Res St
  | [], st => .ok st
  | ρ :: ρs, st =>
    if ρ.kids.isEmpty then
      let S := macroPost B ρ.sym []
      if !accepting B S && A.final.contains ρ.parent then .error (ρ.parent, .node ρ.sym [])
      else leafPhase A B ρs (addItem st ⟨ρ.parent, S, .node ρ.sym []⟩)
    else leafPhase A B ρs st

/-! ### the post-image step -/

/-- all choices of processed pairs for the children `ks` (`ChoiceVector` without a fixed position) -/
def choicesAll (P : List Item) : List Nat → List (List Item)
  | [] => [[]]
  | k :: ks => (P.filter (fun i => i.q == k)).flatMap (fun i => (choicesAll P ks).map (fun is => i :: is))

/-- all choices of processed pairs for the children `ks`, position `j` being fixed to `it` (`ChoiceVector::build`) -/
def choicesAt (P : List Item) (it : Item) : List Nat → Nat → List (List Item)
  | [], _ => [[]]
  | _ :: ks, 0 => (choicesAll P ks).map (fun is => it :: is)
  | k :: ks, j+1 => (P.filter (fun i => i.q == k)).flatMap (fun i => (choicesAt P it ks j).map (fun is => i :: is))

/-- the positions of `q` among the children -/
def positions (q : Nat) (ks : List Nat) : List Nat := (List.range ks.length).filter (fun j => ks[j]? == some q)

/-- the body of the `do … while (choiceVector.next())` loop for one choice -/
def stepChoice (A B : TA) (ρ : Rule) (tmp : List Item) (is : List Item) : Res (List Item) :=
  let S' := macroPost B ρ.sym (is.map (·.S))
  let t' := Tree.node ρ.sym (is.map (·.t))
  if S'.isEmpty then .error (ρ.parent, t')
  else if !accepting B S' && A.final.contains ρ.parent then .error (ρ.parent, t')
  else .ok (addTmp tmp ⟨ρ.parent, S', t'⟩)

def stepChoices (A B : TA) (ρ : Rule) : List (List Item) → List Item → Res (List Item)
  | [], tmp => .ok tmp
  | is :: iss, tmp =>
    match stepChoice A B ρ tmp is with
    | .error e => .error e
    | .ok tmp' => stepChoices A B ρ iss tmp'

/-- one rule of `A` with the picked pair at position `j`: all choices, then `temporary` is merged into `processed` -/
def procTask (A B : TA) (it : Item) (ρ : Rule) (j : Nat) (st : St) : Res St :=
  match stepChoices A B ρ (choicesAt st.processed it ρ.kids j) [] with
  | .error e => .error e
  | .ok tmp => .ok (tmp.foldl addItem st)

def procTasks (A B : TA) (it : Item) : List (Rule × Nat) → St → Res St
  | [], st => .ok st
  | (ρ, j) :: ts, st =>
    match procTask A B it ρ j st with
    | .error e => .error e
    | .ok st' => procTasks A B it ts st'

/-- the rules of `A` that have `q` among their children, with the position (`smallerIndex.at(q)`) -/
def tasks (A : TA) (q : Nat) : List (Rule × Nat) := A.rules.flatMap (fun ρ => (positions q ρ.kids).map (fun j => (ρ, j)))

/-- `while (!next.empty())`; one unit of fuel per picked pair -/
def loop (A B : TA) : Nat → St → Option (Res (List Item))
  | 0, _ => none
  | n+1, st =>
    match st.next with
    | [] => some (.ok st.processed)
    | it :: rest =>
      match procTasks A B it (tasks A it.q) ⟨st.processed, rest⟩ with
      | .error e => some (.error e)
      | .ok st' => loop A B n st'

/-- a leaf rule of `A` whose symbol has no leaf rule in `B`, looked for when `B` has fewer leaf symbols than `A` -/
def sizeExit (A B : TA) : Option Rule :=
  if (leafSyms B).length < (leafSyms A).length then
    A.rules.find? (fun ρ => ρ.kids.isEmpty && !(leafSyms B).contains ρ.sym)
  else none

/-- the algorithm proper: `error` = the code's `return false`, `ok P` = `return true` with the final `processed` -/
def run (A B : TA) (fuel : Nat) : Option (Res (List Item)) :=
  match sizeExit A B with
  | some ρ => some (.error (ρ.parent, .node ρ.sym []))
  | none =>
    match leafPhase A B A.rules ⟨[], []⟩ with
    | .error e => some (.error e)
    | .ok st => loop A B fuel st

/-! ### completing the tree of a `return false` to an accepted tree

The code returns `false` as soon as a macro-state is empty although the `A`-state of the pair need not be final; this
is justified because the operands were trimmed (every state of `A` occurs in an accepting run).  The model looks for
a context: witness trees of the productive states, then an upward search from `(q, t)` to a final state. -/

abbrev Wit := List (Nat × Tree)

def lookupT (W : Wit) (q : Nat) : Option Tree :=
  match W.find? (fun p => p.1 == q) with
  | some p => some p.2
  | none => none

def kidsWit (W : Wit) : List Nat → Option (List Tree)
  | [] => some []
  | k :: ks =>
    match lookupT W k, kidsWit W ks with
    | some t, some ts => some (t :: ts)
    | _, _ => none

/-- one round over the rules: a state without a tree gets the tree `build` finds for a rule with that parent -/
def growStep (A : TA) (build : Wit → Rule → Option Tree) (L : Wit) : Wit :=
  A.rules.foldl (fun L ρ =>
    if (lookupT L ρ.parent).isSome then L else
      match build L ρ with
      | some t => L ++ [(ρ.parent, t)]
      | none => L) L

/-- rounds until nothing is added -/
def growIter (step : Wit → Wit) : Nat → Wit → Wit
  | 0, W => W
  | n+1, W => let W' := step W; if W'.length == W.length then W else growIter step n W'

/-- a tree for the parent of a rule whose children all have one -/
def buildWit (W : Wit) (ρ : Rule) : Option Tree := (kidsWit W ρ.kids).map (Tree.node ρ.sym)

/-- a tree for every productive state of `A` -/
def prodWit (A : TA) : Wit := growIter (growStep A buildWit) (A.rules.length + 1) []

/-- upward search: `L` holds states with a tree that contains the given tree below the given state; a rule with such
a state among its children whose other children have a tree in `W` yields a tree for its parent -/
def buildCtx (W : Wit) (L : Wit) (ρ : Rule) : Option Tree :=
  (L.findSome? (fun pt => if ρ.kids.contains pt.1 then kidsWit (pt :: W) ρ.kids else none)).map (Tree.node ρ.sym)

/-- a tree around `t` (which reaches `q`) that reaches a final state of `A`; `t` itself if none is found -/
def complete (A : TA) (q : Nat) (t : Tree) : Tree :=
  if A.final.contains q then t else
    let L := growIter (growStep A (buildCtx (prodWit A))) (A.rules.length + 1) [(q, t)]
    match L.find? (fun pt => A.final.contains pt.1) with
    | some pt => pt.2
    | none => t

/-! ### the certificate check -/

/-- all choices of macro-states of `X` for the children `ks` -/
def choices (X : List (Nat × List Nat)) : List Nat → List (List (List Nat))
  | [] => [[]]
  | k :: ks => (X.filter (fun p => p.1 == k)).flatMap (fun p => (choices X ks).map (fun Ss => p.2 :: Ss))

inductive Cert where
  /-- for `true`: the antichain (post-closed up to subsumption, no bad pair) -/
  | closed (X : List (Nat × List Nat))
  /-- for `false`: a tree accepted by `A` and not by `B` -/
  | witness (w : Tree)

mutual
def showTree : Tree → String
  | .node f ts => match ts with
    | [] => toString f
    | _ => toString f ++ "(" ++ showTrees ts ++ ")"
def showTrees : List Tree → String
  | [] => ""
  | [t] => showTree t
  | t :: ts => showTree t ++ "," ++ showTrees ts
end

def Cert.toString : Cert → String
  | .closed X => "closed " ++ ToString.toString X
  | .witness w => "witness " ++ showTree w

instance : ToString Cert := ⟨Cert.toString⟩

end InclUp

open InclUp

/-- `X` is closed under the post-image of `A`-rules up to subsumption (`UpCert A B X`) and has no bad pair -/
def upCertB (A B : TA) (X : List (Nat × List Nat)) : Bool :=
  A.rules.all (fun ρ => (choices X ρ.kids).all (fun Ss =>
    X.any (fun p => p.1 == ρ.parent && subB p.2 (post B ρ.sym Ss)))) &&
  X.all (fun p => !A.final.contains p.1 || accepting B p.2)

/-- upward antichain inclusion `L(A) ⊆ L(B)`, certify-then-trust -/
def inclUp (A B : TA) (fuel : Nat) : Option (Bool × Cert) :=
  match run A B fuel with
  | none => none
  | some (.ok P) =>
    let X := P.map (fun i => (i.q, i.S))
    if upCertB A B X then some (true, .closed X) else none
  | some (.error (q, t)) =>
    let w := complete A q t
    if accepts A w && !accepts B w then some (false, .witness w) else none

/-- model of `CheckInclusion` with `ANTICHAINS_UP_NOSIM`: `SanitizeAutsForInclusion` first removes the useless states of
both operands (and renumbers the states, which the model does not need) -/
def checkInclUp (A B : TA) (fuel : Nat) : Option (Bool × Cert) :=
  inclUp (removeUseless A) (removeUseless B) fuel

end Vata
