import Vata.InclUp
import Vata.InclDown
import Vata.Sanitize
import Vata.InclUpBdd
/-!
# Certifying executable model of the upward antichain inclusion algorithm pruned by an upward simulation

Mirrors `ExplicitUpwardInclusion::checkInternal` (`src/explicit_tree_incl_up.cc`) for a relation `R` given as a list of
pairs (`ANTICHAINS_UP_SIM`; `Vata/InclUp.lean` is the instance with the identity).  `(q, r) ∈ R` reads "`r` simulates
`q`"; `Rel::buildIndex(ind, inv)` yields `ind[q] = {r | (q, r) ∈ R}` and `inv[r] = {q | (q, r) ∈ R}`.  What the code does
with the relation, in its order:

* **minimised macro-states** (`Antichain1C post`): a parent `s` of a matching `B`-rule is dropped when
  `post.contains(ind[s])` (a member simulates it), otherwise `post.refine(inv[s])` erases the members `s` simulates and
  `s` is inserted; `isAccepting` is the disjunction of the finality of all *inserted* states (`minStep`, `minPost`);
* **skip by `checkIntersection(ind[q], S)`**: the pair `(q, S)` is not recorded when a state of `S` simulates `q`
  (`skipSim`) – after the tests "empty macro-state" and "final state with a non-accepting macro-state", both `return false`;
* **`lte(X, Y)`**: the same (interned) set, or every state of `X` is simulated by a state of `Y`; `gte(X, Y) = lte(Y, X)`;
* **`Antichain2C::contains(ind[q], S, lte)`** (`subsumed`): some recorded `(p, P)` has `q ≼ p` and `lte(P, S)`;
* **`Antichain2C::refine(inv[q], S, gte)`** (`refine`): the recorded `(p, P)` with `p ≼ q` and `lte(S, P)` are erased (from
  `next` too, `Eraser`).

Everything else (leaf phase, work-list order, choice vectors, `temporary`, merging) is as in `Vata/InclUp.lean`, whose
definitions are reused.  Hash-container iteration orders are replaced by list order: the order in which the parents
enter `post` decides which of several simulation-equivalent states represents them, so macro-states are mirrored up to
that choice only.

The run ends *certify-then-trust*: `true` is only returned together with the final antichain `X` after `R` has been
validated (`isUpSimB` on `unionDisjoint A B`, disjoint operands) and `X` has passed `upCertSimB A B R X`; `false` only
with a tree `w` after the check `accepts A w && !accepts B w`; `none` = fuel exhausted or a check failed.

Definitions only (core Lean); the theorems are in `Vata/Proofs/InclUpSim.lean`.
-/
namespace Vata

namespace InclUpSim
open InclUp

/-- `q ≼ r`: `r ∈ ind[q]`, `q ∈ inv[r]` -/
def le (R : Rel) (q r : Nat) : Bool := R.contains (q, r)

/-- one parent entering `post`: `contains(ind[s])`, else `refine(inv[s])`, `insert(s)`, `isAccepting |= final(s)` -/
def minStep (R : Rel) (B : TA) (acc : List Nat × Bool) (s : Nat) : List Nat × Bool :=
  if acc.1.any (fun p => le R s p) then acc
  else (acc.1.filter (fun p => !le R p s) ++ [s], acc.2 || B.final.contains s)

/-- the minimised set of the parents `l` (in list order) and the flag `isAccepting` -/
def minPost (R : Rel) (B : TA) (l : List Nat) : List Nat × Bool := l.foldl (minStep R B) ([], false)

/-- the minimised macro-state `post_B f (S₁..Sₙ)` (sorted) with `isAccepting` -/
def macroPost (R : Rel) (B : TA) (f : Nat) (Ss : List (List Nat)) : List Nat × Bool :=
  let r := minPost R B (post B f Ss)
  (normS r.1, r.2)

/-- `checkIntersection(ind[q], S)`: a state of the macro-state simulates `q` -/
def skipSim (R : Rel) (q : Nat) (S : List Nat) : Bool := S.any (fun s => le R q s)

/-- `lte`: the same interned set, or every state of `X` is simulated by a state of `Y` -/
def lte (R : Rel) (X Y : List Nat) : Bool := X == Y || X.all (fun s₁ => Y.any (fun s₂ => le R s₁ s₂))

/-- `Antichain2C::contains(ind[q], S, lte)` -/
def subsumed (R : Rel) (P : List Item) (q : Nat) (S : List Nat) : Bool := P.any (fun i => le R q i.q && lte R i.S S)

/-- `Antichain2C::refine(inv[q], S, gte)` -/
def refine (R : Rel) (P : List Item) (q : Nat) (S : List Nat) : List Item :=
  P.filter (fun i => !(le R i.q q && lte R S i.S))

/-- `if (processed.contains(..)) continue; processed.refine(.., Eraser(next)); processed.insert(..); next.insert(..)` -/
def addItem (R : Rel) (st : St) (it : Item) : St :=
  if subsumed R st.processed it.q it.S then st
  else ⟨refine R st.processed it.q it.S ++ [it], insNext it (refine R st.next it.q it.S)⟩

/-- the same for `temporary` -/
def addTmp (R : Rel) (tmp : List Item) (it : Item) : List Item :=
  if subsumed R tmp it.q it.S then tmp else refine R tmp it.q it.S ++ [it]

def leafPhase (R : Rel) (A B : TA) : List Rule → St → Res St
  | [], st => .ok st
  | ρ :: ρs, st =>
    if ρ.kids.isEmpty then
      let S := macroPost R B ρ.sym []
      if !S.2 && A.final.contains ρ.parent then .error (ρ.parent, .node ρ.sym [])
      else if skipSim R ρ.parent S.1 then leafPhase R A B ρs st
      else leafPhase R A B ρs (addItem R st ⟨ρ.parent, S.1, .node ρ.sym []⟩)
    else leafPhase R A B ρs st

/-- the body of the `do … while (choiceVector.next())` loop for one choice -/
def stepChoice (R : Rel) (A B : TA) (ρ : Rule) (tmp : List Item) (is : List Item) : Res (List Item) :=
  let S' := macroPost R B ρ.sym (is.map (·.S))
  let t' := Tree.node ρ.sym (is.map (·.t))
  if S'.1.isEmpty then .error (ρ.parent, t')
  else if !S'.2 && A.final.contains ρ.parent then .error (ρ.parent, t')
  else if skipSim R ρ.parent S'.1 then .ok tmp
  else .ok (addTmp R tmp ⟨ρ.parent, S'.1, t'⟩)

def stepChoices (R : Rel) (A B : TA) (ρ : Rule) : List (List Item) → List Item → Res (List Item)
  | [], tmp => .ok tmp
  | is :: iss, tmp =>
    match stepChoice R A B ρ tmp is with
    | .error e => .error e
    | .ok tmp' => stepChoices R A B ρ iss tmp'

def procTask (R : Rel) (A B : TA) (it : Item) (ρ : Rule) (j : Nat) (st : St) : Res St :=
  match stepChoices R A B ρ (choicesAt st.processed it ρ.kids j) [] with
  | .error e => .error e
  | .ok tmp => .ok (tmp.foldl (addItem R) st)

def procTasks (R : Rel) (A B : TA) (it : Item) : List (Rule × Nat) → St → Res St
  | [], st => .ok st
  | (ρ, j) :: ts, st =>
    match procTask R A B it ρ j st with
    | .error e => .error e
    | .ok st' => procTasks R A B it ts st'

/-- `while (!next.empty())`; one unit of fuel per picked pair -/
def loop (R : Rel) (A B : TA) : Nat → St → Option (Res (List Item))
  | 0, _ => none
  | n+1, st =>
    match st.next with
    | [] => some (.ok st.processed)
    | it :: rest =>
      match procTasks R A B it (tasks A it.q) ⟨st.processed, rest⟩ with
      | .error e => some (.error e)
      | .ok st' => loop R A B n st'

/-- the algorithm proper: `error` = the code's `return false`, `ok P` = `return true` with the final `processed` -/
def run (R : Rel) (A B : TA) (fuel : Nat) : Option (Res (List Item)) :=
  match sizeExit A B with
  | some ρ => some (.error (ρ.parent, .node ρ.sym []))
  | none =>
    match leafPhase R A B A.rules ⟨[], []⟩ with
    | .error e => some (.error e)
    | .ok st => loop R A B fuel st

/-- `a = b` or `a ≼ b` (the certificate check closes the relation reflexively) -/
def leq (R : Rel) (a b : Nat) : Bool := a == b || R.contains (a, b)

end InclUpSim

open InclUp InclUpSim

/-- `X` is closed under the post-image of `A`-rules up to the subsumption modulo `R` (the parent is simulated by a state
of the post-image, or some pair `(p', P')` of `X` has `parent ≼ p'` and every state of `P'` is simulated by a state of the
post-image), its first components are states of `A`, and it has no bad pair -/
def upCertSimB (A B : TA) (R : Rel) (X : List (Nat × List Nat)) : Bool :=
  A.rules.all (fun ρ => (choices X ρ.kids).all (fun Ss =>
    (post B ρ.sym Ss).any (fun s => leq R ρ.parent s) ||
    X.any (fun p => leq R ρ.parent p.1 && p.2.all (fun s => (post B ρ.sym Ss).any (fun s' => leq R s s'))))) &&
  X.all (fun p => A.states.contains p.1 && (!A.final.contains p.1 || accepting B p.2))

/-- upward antichain inclusion `L(A) ⊆ L(B)` pruned by the relation `R` on the disjoint union, certify-then-trust; `R` is
validated (an upward simulation on `unionDisjoint A B`, the operands disjoint) before a `true` is trusted -/
def inclUpSim (A B : TA) (R : Rel) (fuel : Nat) : Option (Bool × Cert) :=
  match InclUpSim.run R A B fuel with
  | none => none
  | some (.ok P) =>
    let X := P.map (fun i => (i.q, i.S))
    if isUpSimB (unionDisjoint A B) R && InclDown.disjointB A B && upCertSimB A B R X then some (true, .closed X) else none
  | some (.error (q, t)) =>
    let w := complete A q t
    if accepts A w && !accepts B w then some (false, .witness w) else none

/-- model of the command-line `CheckInclusion` with `ANTICHAINS_UP_SIM`: `SanitizeAutsForInclusion`, then the upward
simulation of `UnionDisjointStates(smaller, bigger)`, then `ExplicitUpwardInclusion::Check` with that relation -/
def checkInclUpSim (A B : TA) (fuel : Nat) : Option (Bool × Cert) :=
  let A' := (sanitize A B).1
  let B' := (sanitize A B).2.1
  inclUpSim A' B' (upSimRef (unionDisjoint A' B')) fuel

/-- bottom-up BDD encoding, `ANTICHAINS_UP_SIM` (`BDDBUTreeAutCore::CheckInclusion`): the callee
`CheckUpwardTreeInclusion` (`src/tree_incl_up.hh`) leaves its parameter `const Rel& /* preorder */` unnamed and unused, so
the selection runs the exploration of `ANTICHAINS_UP_NOSIM` (`inclUpBdd`) on the operands as passed – the given relation
has no influence -/
def inclUpBddSim (A B : TA) (_R : Rel) (fuel : Nat) : Option (Bool × Cert) := inclUpBdd A B fuel

/-- the command-line `CheckInclusion` on the bottom-up BDD encoding with `ANTICHAINS_UP_SIM`: sanitise, compute the upward
simulation of the disjoint union, call the selection above (which ignores it) -/
def checkInclUpBddSim (A B : TA) (fuel : Nat) : Option (Bool × Cert) :=
  let A' := (sanitize A B).1
  let B' := (sanitize A B).2.1
  inclUpBddSim A' B' (upSimRef (unionDisjoint A' B')) fuel

end Vata
