import Vata.Proofs.LtsSim
/-!
# Executable model of the partition–relation LTS simulation engine (`src/explicit_lts_sim.cc`, property C16)

The model follows class `SimulationEngine` step by step: `init` (blocks, splitting relation, the initial refinement
`fastSplit(delta1[a])`, pruning of the relation, counters and remove lists), `run` (LIFO queue), `processRemove`
(`buildPre`, `split` with `internalSplit` / `Block::trySplit`, the pruning loops with `SharedCounter::decr` and
`enqueueToRemove`), `buildResult` and the three `computeSimulation` overloads.

## Direction convention (read off `init` and `processRemove`)

* Row `i` of the block relation lists the blocks `j` that are still candidates to **simulate** block `i`
  (`buildResult` reports `(r, s)` for `r ∈ block i`, `s ∈ block j`, `j ∈ row i`; the reference `IsSim` relates `(q, r)`
  when `r` simulates `q`).
* `counter(i)(a, q)` (kept only for the labels `a ∈ inset(i)`) = the number of `a`-edges `q -a→ r` (with multiplicity)
  whose target `r` lies in a block of row `i`, i.e. in a block that may still simulate block `i`.
* `remove_a(i)` = states `q` that have an `a`-edge but none whose target lies in a block of row `i`.  Such a `q` cannot
  simulate any state `p` with `p -a→ p'`, `p' ∈ block i`: it will be split off its block and the blocks consisting of
  such states are erased from the rows of all blocks that contain an `a`-predecessor of block `i`.
* `inset(i)` = multiset of the labels of the edges that enter block `i` (one occurrence per pair state/label).

## What is abstracted (to values)

* The circular doubly linked state lists are lists starting at `Block::states_`; `trySplit` is modelled with its exact
  effect on the order (the new block is `last, t₀, …`; the old block restarts behind the last state that was unlinked).
* The `SplittingRelation` (orthogonal linked lists) is the list of its rows in row order; columns are not iterated by the
  engine.  `split(i)` appends the new index to every row containing `i` and gives the new block the old row of `i` plus
  itself.  Erasing the current element while iterating a row is `filter`.
* `SharedCounter` (master value, shared reference-counted rows, copy on write) is a table of numbers
  `cnt[block][label][state]`; `copyLabels` copies the rows of the labels in the new block's inset; `decr` returns the new
  value.  The packing of several labels into one row of the C++ table (rows copied along with a neighbour label) is not
  observable and not modelled.
* `SharedList` remove lists are lists of segments `(node id, vector)`, newest segment first, which is the iteration
  order of the C++ list; a node is *shared* (reference count > 1) exactly when its id occurs in the list of another
  slot, so `append` is modelled exactly (push into the head vector, or a new head node in front of a shared one).
* Allocators, `key_`/`labelMap_`, `index_` (state → block; here: search in the partition) have no counterpart.

Definitions only (core Lean); theorems in `Vata/Proofs/LtsEngine*.lean`: `Aux` (containers), `Split` (`WF`, one split is a
refinement), `Phase` (a whole `split`/`fastSplit`), `Sem` (semantic invariant), `Pot` (termination measure), `Prune` (the
pruning loops), `Step` (`processRemove` keeps the invariant), `Init` (`init` establishes it), `LtsEngine` (main theorems
`engine_result_eq`, `engine_total`, `engine_invariant_always`), `Test` (self-test); corollaries in
`Vata/Properties/C16_Engine.lean`.
-/
namespace Vata.LE
open Vata.L

/-! ### the transition system as the C++ class sees it -/

/-- `ExplicitLTS::labels()` = `data_.size()` = largest label + 1 -/
def labels (L : LTS) : Nat := L.edges.foldl (fun m e => max m (e.2.1 + 1)) 0

/-- `post(a)[q]` in insertion order -/
def post (L : LTS) (a q : Nat) : List Nat := (L.edges.filter (fun e => e.1 == q && e.2.1 == a)).map (·.2.2)

/-- `pre(a)[r]` in insertion order -/
def pre (L : LTS) (a r : Nat) : List Nat := (L.edges.filter (fun e => e.2.1 == a && e.2.2 == r)).map (·.1)

/-- `q ∈ delta1[a]` -/
def hasOut (L : LTS) (a q : Nat) : Bool := L.edges.any (fun e => e.1 == q && e.2.1 == a)

/-- `delta1[a]` (a `SmartSet` filled in increasing order of the states) -/
def delta1 (L : LTS) (a : Nat) : List Nat := (List.range L.n).filter (hasOut L a)

def hasIn (L : LTS) (a r : Nat) : Bool := L.edges.any (fun e => e.2.1 == a && e.2.2 == r)

/-- `bwLabels(r)`: labels of the incoming edges, increasing -/
def bwLabels (L : LTS) (r : Nat) : List Nat := (List.range (labels L)).filter (fun a => hasIn L a r)

/-! ### small containers -/

/-- write position `k`, growing the list with the default when it is too short (tables indexed by block/label/state) -/
def lset {α : Type} (d : α) (l : List α) (k : Nat) (v : α) : List α :=
  if k < l.length then l.set k v else l ++ List.replicate (k - l.length) d ++ [v]

/-- `SmartSet::add` on (key, count) lists in list order -/
def insAdd : List (Nat × Nat) → Nat → List (Nat × Nat)
  | [], a => [(a, 1)]
  | (b, c) :: s, a => if b == a then (b, c + 1) :: s else (b, c) :: insAdd s a

/-- `SmartSet::removeStrict` -/
def insRemove : List (Nat × Nat) → Nat → List (Nat × Nat)
  | [], _ => []
  | (b, c) :: s, a => if b == a then (if c ≤ 1 then s else (b, c - 1) :: s) else (b, c) :: insRemove s a

/-- the keys of a `SmartSet` in iteration order -/
def insKeys (s : List (Nat × Nat)) : List Nat := s.map (·.1)

/-- first-occurrence duplicate removal (the `blockMask` idiom) -/
def dedupF : List Nat → List Nat → List Nat
  | _, [] => []
  | seen, x :: l => if seen.contains x then dedupF seen l else x :: dedupF (x :: seen) l

abbrev Seg := Nat × List Nat
abbrev RemList := List Seg

def flat (r : RemList) : List Nat := r.flatMap (·.2)

/-! ### the engine state -/

structure Eng where
  part : List (List Nat)                  -- block `i` = its circular list starting at `states_`
  rel : List (List Nat)                   -- row `i` of the splitting relation
  inset : List (List (Nat × Nat))
  cnt : List (List (List Nat))            -- [block][label][state]
  rem : List (List (Option RemList))      -- [block][label]
  queue : List (Nat × Nat)                -- head = `queue_.back()`
  nextId : Nat
deriving Repr

def Eng.block (e : Eng) (i : Nat) : List Nat := e.part.getD i []
def Eng.row (e : Eng) (i : Nat) : List Nat := e.rel.getD i []
def Eng.ins (e : Eng) (i : Nat) : List Nat := insKeys (e.inset.getD i [])
def Eng.cntv (e : Eng) (i a q : Nat) : Nat := (((e.cnt.getD i []).getD a []).getD q 0)
def Eng.remv (e : Eng) (i a : Nat) : Option RemList := ((e.rem.getD i []).getD a none)

/-- `index_[q].block_->index_` -/
def blockOf (part : List (List Nat)) (q : Nat) : Nat := part.findIdx (fun b => b.contains q)

def setCnt (cnt : List (List (List Nat))) (i a q v : Nat) : List (List (List Nat)) :=
  lset [] cnt i (lset [] (cnt.getD i []) a (lset 0 ((cnt.getD i []).getD a []) q v))

def setCntRow (cnt : List (List (List Nat))) (i a : Nat) (row : List Nat) : List (List (List Nat)) :=
  lset [] cnt i (lset [] (cnt.getD i []) a row)

def setRem (rem : List (List (Option RemList))) (i a : Nat) (v : Option RemList) : List (List (Option RemList)) :=
  lset [] rem i (lset none (rem.getD i []) a v)

/-! ### blocks -/

/-- `makeBlock`: the list is linked `back → s₀ → s₁ → …` and `states_` is the last state -/
def mkBlockList (states : List Nat) : List Nat :=
  match states.getLast? with
  | some l => l :: states.dropLast
  | none => []

/-- the first `Block` constructor: `inset_.add(a)` for the states in list order -/
def mkInset (L : LTS) (states : List Nat) : List (Nat × Nat) :=
  states.foldl (fun s q => (bwLabels L q).foldl insAdd s) []

/-- the second `Block` constructor: move the labels of the states of the new block from the parent's inset -/
def moveInset (L : LTS) (states : List Nat) (parent : List (Nat × Nat)) : List (Nat × Nat) × List (Nat × Nat) :=
  states.foldl (fun pc q => (bwLabels L q).foldl (fun pc a => (insRemove pc.1 a, insAdd pc.2 a)) pc) (parent, [])

/-- the list that starts behind `x` -/
def rotateAfter (x : Nat) (l : List Nat) : List Nat := l.drop (l.idxOf x + 1) ++ l.take (l.idxOf x)

/-- `Block::trySplit`: `none` when all states were moved to `tmp_`, else (remaining list, new list) -/
def trySplit (blk tmp : List Nat) : Option (List Nat × List Nat) :=
  if tmp.length == blk.length then none
  else match tmp.getLast? with
    | none => none
    | some last =>
      let tmp' := tmp.dropLast
      let pivot := (tmp'.getLast?).getD last
      some ((rotateAfter pivot blk).filter (fun s => !tmp.contains s), last :: tmp')

/-- `SplittingRelation::split(i)`; the new index is `rel.length` -/
def relSplit (rel : List (List Nat)) (i : Nat) : List (List Nat) :=
  rel.map (fun row => if row.contains i then row ++ [rel.length] else row) ++ [rel.getD i [] ++ [rel.length]]

/-- `internalSplit`: the blocks hit by `remove` in first-hit order -/
def modifiedBlocks (part : List (List Nat)) (remove : List Nat) : List Nat :=
  dedupF [] (remove.map (blockOf part))

/-- the `tmp_` of block `b` after `internalSplit` (w.r.t. the partition before any `trySplit`) -/
def tmpOf (part : List (List Nat)) (remove : List Nat) (b : Nat) : List Nat :=
  remove.filter (fun q => blockOf part q == b)

/-- the common part of `fastSplit` and `split` for one modified block: new `Block`, `partition_.push_back`,
`relation_.split` -/
def splitBlockCore (L : LTS) (e : Eng) (b : Nat) (rest new : List Nat) : Eng :=
  let pc := moveInset L new (e.inset.getD b [])
  { e with part := e.part.set b rest ++ [new], rel := relSplit e.rel b, inset := e.inset.set b pc.1 ++ [pc.2] }

def fastSplitStep (L : LTS) (part0 : List (List Nat)) (remove : List Nat) (e : Eng) (b : Nat) : Eng :=
  match trySplit (e.block b) (tmpOf part0 remove b) with
  | none => e
  | some (rest, new) => splitBlockCore L e b rest new

/-- `fastSplit(remove)` -/
def fastSplit (L : LTS) (e : Eng) (remove : List Nat) : Eng :=
  (modifiedBlocks e.part remove).foldl (fastSplitStep L e.part remove) e

/-- `copyLabels` + the loop copying the remove lists of the parent for the labels of the new block's inset -/
def copySlots (e : Eng) (b nb : Nat) : Eng :=
  let e1 := (e.ins nb).foldl (fun (e : Eng) a => { e with cnt := setCntRow e.cnt nb a ((e.cnt.getD b []).getD a []) }) e
  (e1.ins nb).foldl (fun (e : Eng) a =>
    match e.remv b a with
    | none => e
    | some r => { e with queue := (nb, a) :: e.queue, rem := setRem e.rem nb a (some r) }) e1

/-- one modified block of `split`; the second component is `removeMask` (as the list of the marked blocks) -/
def splitStep (L : LTS) (part0 : List (List Nat)) (remove : List Nat) (em : Eng × List Nat) (b : Nat) : Eng × List Nat :=
  match trySplit (em.1.block b) (tmpOf part0 remove b) with
  | none => (em.1, b :: em.2)
  | some (rest, new) =>
    let nb := em.1.part.length
    (copySlots (splitBlockCore L em.1 b rest new) b nb, nb :: em.2)

/-- `split(removeMask, remove)` -/
def split (L : LTS) (e : Eng) (remove : List Nat) : Eng × List Nat :=
  (modifiedBlocks e.part remove).foldl (splitStep L e.part remove) (e, [])

/-! ### remove lists and counters -/

/-- the node with this id is referenced from another slot (reference count > 1) -/
def sharedId (e : Eng) (i a id : Nat) : Bool :=
  (List.range e.rem.length).any (fun i' => (List.range (e.rem.getD i' []).length).any (fun a' =>
    !(i' == i && a' == a) && match e.remv i' a' with
      | none => false
      | some r => r.any (fun s => s.1 == id)))

/-- `enqueueToRemove(block, label, state)` with `SharedList::append` -/
def enqueueToRemove (e : Eng) (i a q : Nat) : Eng :=
  match e.remv i a with
  | none => { e with rem := setRem e.rem i a (some [(e.nextId, [q])]), nextId := e.nextId + 1, queue := (i, a) :: e.queue }
  | some [] => { e with rem := setRem e.rem i a (some [(e.nextId, [q])]), nextId := e.nextId + 1 }
  | some ((id, seg) :: rest) =>
    if sharedId e i a id then
      { e with rem := setRem e.rem i a (some ((e.nextId, [q]) :: (id, seg) :: rest)), nextId := e.nextId + 1 }
    else { e with rem := setRem e.rem i a (some ((id, seg ++ [q]) :: rest)) }

/-- `if (!b1->counter_.decr(a, pre)) enqueueToRemove(b1, a, pre)` -/
def decrStep (i a : Nat) (e : Eng) (q : Nat) : Eng :=
  let v := e.cntv i a q - 1
  let e1 := { e with cnt := setCnt e.cnt i a q v }
  if v == 0 then enqueueToRemove e1 i a q else e1

/-- the loops `for a ∈ b2.inset ∩ b1.inset, elem ∈ b2, pre ∈ pre_a(elem)` after `(b1, b2)` was erased -/
def decrBlock (L : LTS) (e : Eng) (b1 b2 : Nat) : Eng :=
  (e.ins b2).foldl (fun (e : Eng) a =>
    if (e.ins b1).contains a then
      (e.block b2).foldl (fun (e : Eng) elem => (pre L a elem).foldl (decrStep b1 a) e) e
    else e) e

/-- one column of the row of `b1` -/
def pruneCol (L : LTS) (mask : List Nat) (b1 : Nat) (e : Eng) (col : Nat) : Eng :=
  if mask.contains col then
    decrBlock L { e with rel := e.rel.set b1 ((e.row b1).filter (fun c => c != col)) } b1 col
  else e

/-- the row of `b1` (iterated as it is on entry; only the current element is ever erased) -/
def pruneRow (L : LTS) (mask : List Nat) (e : Eng) (b1 : Nat) : Eng :=
  (e.row b1).foldl (pruneCol L mask b1) e

/-- `buildPre(preList, block->states_, label)` -/
def buildPre (L : LTS) (e : Eng) (b a : Nat) : List Nat :=
  dedupF [] ((e.block b).flatMap (fun s => (pre L a s).map (blockOf e.part)))

/-- `processRemove(block, label)` -/
def processRemove (L : LTS) (e : Eng) (b a : Nat) : Eng :=
  match e.remv b a with
  | none => e
  | some remove =>
    let e0 := { e with rem := setRem e.rem b a none }
    let preList := buildPre L e0 b a
    let em := split L e0 (flat remove)
    preList.foldl (pruneRow L em.2) em.1

/-- `run()` with fuel; `none` = fuel exhausted -/
def engineRun (L : LTS) : Nat → Eng → Option Eng
  | 0, e => if e.queue.isEmpty then some e else none
  | fuel + 1, e =>
    match e.queue with
    | [] => some e
    | (b, a) :: rest => engineRun L fuel (processRemove L { e with queue := rest } b a)

/-! ### `init` -/

/-- blocks, insets and the splitting relation from the arguments -/
def initBlocks (L : LTS) (part : List (List Nat)) (rel : Rel) : Eng :=
  let blocks := part.map mkBlockList
  { part := blocks
    rel := (List.range part.length).map (fun i => (List.range part.length).filter (fun j => rel.contains (i, j)))
    inset := blocks.map (mkInset L)
    cnt := [], rem := [], queue := [], nextId := 0 }

/-- "make initial refinement" -/
def initRefine (L : LTS) (e : Eng) : Eng :=
  (List.range (labels L)).foldl (fun e a => fastSplit L e (delta1 L a)) e

/-- `pre[block]` of the pruning phase: for every state of the block the labels it has an outgoing edge for -/
def outLabels (L : LTS) (blk : List Nat) : List Nat :=
  blk.flatMap (fun s => (List.range (labels L)).filter (fun a => hasOut L a s))

/-- `noPreMask[a][block]` -/
def noPre (L : LTS) (e : Eng) (a i : Nat) : Bool := (e.block i).any (fun s => !hasOut L a s)

/-- "prune relation" -/
def initPrune (L : LTS) (e : Eng) : Eng :=
  { e with rel := (List.range e.part.length).map (fun b1 =>
      (outLabels L (e.block b1)).foldl (fun row a => row.filter (fun col => !noPre L e a col)) (e.row b1)) }

/-- the counter of `(b1, a, q)`: successors of `q` in the blocks of the row -/
def initCount (L : LTS) (e : Eng) (b1 a q : Nat) : Nat :=
  ((post L a q).filter (fun r => (e.row b1).contains (blockOf e.part r))).length

/-- `s.assignFlat(delta1[a])` minus the `a`-predecessors of the blocks of the row -/
def initRemove (L : LTS) (e : Eng) (b1 a : Nat) : List Nat :=
  (delta1 L a).filter (fun q => !((e.row b1).any (fun col => (e.block col).any (fun s => (pre L a s).contains q))))

def initSlot (L : LTS) (b1 : Nat) (e : Eng) (a : Nat) : Eng :=
  let e1 := (delta1 L a).foldl (fun (e : Eng) q =>
    let c := initCount L e b1 a q
    if c == 0 then e else { e with cnt := setCnt e.cnt b1 a q c }) e
  let s := initRemove L e1 b1 a
  if s.isEmpty then e1
  else { e1 with rem := setRem e1.rem b1 a (some [(e1.nextId, s)]), nextId := e1.nextId + 1, queue := (b1, a) :: e1.queue }

/-- "initialize counters" -/
def initCounters (L : LTS) (e : Eng) : Eng :=
  (List.range e.part.length).foldl (fun e b1 => (e.ins b1).foldl (initSlot L b1) e) e

/-- `init(partition, relation)` -/
def engineInit (L : LTS) (part : List (List Nat)) (rel : Rel) : Eng :=
  initCounters L (initPrune L (initRefine L (initBlocks L part rel)))

/-! ### the result -/

/-- `buildResult(result, size)` as the list of the pairs that are set -/
def buildResult (e : Eng) (size : Nat) : Rel :=
  (List.range e.rel.length).flatMap (fun i => (e.row i).flatMap (fun j =>
    ((e.block i).filter (· < size)).flatMap (fun r => ((e.block j).filter (· < size)).map (fun s => (r, s)))))

/-- enough for `run` (`engine_total` in `Proofs/LtsEngine.lean`, measure `pot` in `Proofs/LtsEnginePot.lean`): every call
of `processRemove` lowers
`|queue| + (n - blocks)·(m + m·n) + #positive counters`, which is at most `n·(m + m·n)` after `init` -/
def fuelBound (L : LTS) : Nat := L.n * (labels L + labels L * L.n) + 1

/-- `computeSimulation(partition, relation, outputSize)` -/
def computeSimulation (L : LTS) (part : List (List Nat)) (rel : Rel) (size : Nat) : Option Rel :=
  if size == 0 then some []
  else (engineRun L (fuelBound L) (engineInit L part rel)).map (fun e => buildResult e size)

/-- `computeSimulation(outputSize)`: one block, full relation -/
def computeSimulation1 (L : LTS) (size : Nat) : Option Rel :=
  computeSimulation L [List.range L.n] [(0, 0)] size

/-- `computeSimulation()` -/
def computeSimulation0 (L : LTS) : Option Rel := computeSimulation1 L L.n

/-! ### the preconditions asserted by `init`, and the initial relation on states -/

/-- `isPartition(partition, states)`: every state `< n` occurs exactly once (plus: no state `≥ n`, which the C++
would index out of bounds, and no empty block, asserted by `makeBlock`) -/
def isPartition (part : List (List Nat)) (n : Nat) : Bool :=
  part.all (fun b => !b.isEmpty) && part.flatten.all (· < n) && (List.range n).all (fun q => part.flatten.count q == 1)

/-- `isConsistent(partition, relation)`: same size (here: all pairs in range) and reflexive -/
def isConsistent (part : List (List Nat)) (rel : Rel) : Bool :=
  (List.range part.length).all (fun i => rel.contains (i, i))

/-- the relation on states induced by the arguments: block of `q` related to block of `r` -/
def initRel (part : List (List Nat)) (rel : Rel) : Rel :=
  part.flatten.flatMap (fun q => (part.flatten.filter (fun r => rel.contains (blockOf part q, blockOf part r))).map
    (fun r => (q, r)))

end Vata.LE
