import Vata.Basic
/-!
# The three-level rule container of `ExplicitTreeAutCore` (property C12) – executable model

C++ (`src/explicit_tree_aut_core.{hh,cc}`):

* `StateToTransitionClusterMap = unordered_map<State, shared_ptr<TransitionCluster>>`   (state ↦ cluster)
* `TransitionCluster           = unordered_map<Symbol, shared_ptr<set<TuplePtr>>>`        (symbol ↦ tuple set)
* `TuplePtrSet                 = set<shared_ptr<StateTuple>>` (tuples are hash-consed by the tuple cache, so pointer
  equality is tuple equality)
* `finalStates_                = unordered_set<State>`

Model: association lists with unique keys; a new key is appended at the end (the real iteration order is the hash order of
`unordered_map`, which is unspecified – all theorems are about the *set* of yielded rules plus "each rule once").
The sharing (`shared_ptr` / copy on write) is the subject of `Vata/CowHeap.lean` / `Vata/CowHeap3.lean`; here a store is a value.
-/
namespace Vata.Store

abbrev TupleSet := List (List Nat)
/-- symbol ↦ tuples (one symbol number may carry tuples of different lengths) -/
abbrev Cluster := List (Nat × TupleSet)

structure Store where
  /-- state ↦ cluster -/
  clusters : List (Nat × Cluster)
  final : List Nat
deriving Repr, DecidableEq

/-- `ExplicitTreeAutCore()` : a fresh empty map, no final states -/
def empty : Store := ⟨[], []⟩

/-- `m.insert(make_pair(k, nullptr)).first->second`, then replace the found/created value `o` by `g o`
    (`g none` = "create", `g (some v)` = "make unique and modify"). -/
def upsert {β : Type} (k : Nat) (g : Option β → β) : List (Nat × β) → List (Nat × β)
  | [] => [(k, g none)]
  | (k', v) :: l => if k' = k then (k', g (some v)) :: l else (k', v) :: upsert k g l

/-- `std::set::insert` -/
def insTuple (t : List Nat) (ts : TupleSet) : TupleSet := if ts.contains t then ts else ts ++ [t]

/-- `std::unordered_set::insert` -/
def insN (x : Nat) (l : List Nat) : List Nat := if l.contains x then l else l ++ [x]

/-- `cluster->uniqueTuplePtrSet(symbol)->insert(children)` -/
def addToCluster (f : Nat) (t : List Nat) (c : Cluster) : Cluster :=
  upsert f (fun o => insTuple t (o.getD [])) c

/-- `uniqueClusterMap()->uniqueCluster(parent)->uniqueTuplePtrSet(symbol)->insert(children)` -/
def addToMap (q f : Nat) (t : List Nat) (m : List (Nat × Cluster)) : List (Nat × Cluster) :=
  upsert q (fun o => addToCluster f t (o.getD [])) m

/-- `AddTransition` / `internalAddTransition` -/
def addTransition (s : Store) (r : Rule) : Store :=
  { s with clusters := addToMap r.parent r.sym r.kids s.clusters }

/-- `SetStateFinal` -/
def setFinal (s : Store) (q : Nat) : Store := { s with final := insN q s.final }
/-- `SetStatesFinal` : `finalStates_.insert(states.begin(), states.end())` -/
def setFinals (s : Store) (qs : List Nat) : Store := { s with final := qs.foldl (fun acc q => insN q acc) s.final }
/-- `EraseFinalStates` -/
def eraseFinal (s : Store) : Store := { s with final := [] }
/-- `Clear` : empties the transition map (fresh map when shared, `clear()` in place when unique) AND calls
    `EraseFinalStates()` -/
def clear (_s : Store) : Store := ⟨[], []⟩

/-! ### views -/

/-- the rules of one cluster, in storage order (symbol by symbol, tuple by tuple) -/
def flatCluster (q : Nat) (c : Cluster) : List Rule :=
  c.flatMap (fun ft => ft.2.map (fun t => (⟨ft.1, t, q⟩ : Rule)))

/-- what `begin() .. end()` (`Iterator`) yields -/
def iterate (s : Store) : List Rule := s.clusters.flatMap (fun qc => flatCluster qc.1 qc.2)

/-- `GetDown(q)` / `operator[]` (`DownAccessor`, `DownAccessorIterator`): `genericLookup` of the cluster, then its rules -/
def down (s : Store) (q : Nat) : List Rule :=
  match s.clusters.lookup q with
  | none => []
  | some c => flatCluster q c

/-- `DownAccessor::empty()` -/
def downEmpty (s : Store) (q : Nat) : Bool := (s.clusters.lookup q).isNone

/-- `GetAcceptTrans()` (`AcceptTransIterator`): walks the final states, `find`s the cluster of each, skips the final
    states without a cluster -/
def acceptTrans (s : Store) : List Rule := s.final.flatMap (fun q => down s q)

/-- `ContainsTransition` -/
def contains (s : Store) (r : Rule) : Bool :=
  match s.clusters.lookup r.parent with
  | none => false
  | some c =>
    match c.lookup r.sym with
    | none => false
    | some ts => ts.contains r.kids

/-- `IsStateFinal` -/
def isFinal (s : Store) (q : Nat) : Bool := s.final.contains q

/-- `GetUsedStates` : for every transition insert the children then the parent; then insert the final states -/
def usedStates (s : Store) : List Nat :=
  let res := (iterate s).foldl (fun acc r => insN r.parent (r.kids.foldl (fun a x => insN x a) acc)) []
  s.final.foldl (fun acc q => insN q acc) res

/-- `AreTransitionsEmpty` -/
def transEmpty (s : Store) : Bool := s.clusters.isEmpty

/-! ### specification: a pair of sets -/

structure Abs where
  rules : List Rule
  final : List Nat
deriving Repr

inductive Op where
  | add (r : Rule)
  | setFinal (q : Nat)
  | setFinals (qs : List Nat)
  | eraseFinal
  | clear
deriving Repr, DecidableEq

def specStep (a : Abs) : Op → Abs
  | .add r => { a with rules := r :: a.rules }
  | .setFinal q => { a with final := q :: a.final }
  | .setFinals qs => { a with final := qs ++ a.final }
  | .eraseFinal => { a with final := [] }
  | .clear => ⟨[], []⟩

def step (s : Store) : Op → Store
  | .add r => addTransition s r
  | .setFinal q => setFinal s q
  | .setFinals qs => setFinals s qs
  | .eraseFinal => eraseFinal s
  | .clear => clear s

def run (ops : List Op) : Store := ops.foldl step empty
def specRun (ops : List Op) : Abs := ops.foldl specStep ⟨[], []⟩

/-! ### Boolean invariant checker (usable by the driver on stores rebuilt from C++ dumps) -/

def keysNodupB {β : Type} (l : List (Nat × β)) : Bool :=
  match l with
  | [] => true
  | (k, _) :: l => !(l.any (fun kv => kv.1 == k)) && keysNodupB l

def nodupB : List (List Nat) → Bool
  | [] => true
  | t :: ts => !(ts.contains t) && nodupB ts

def nodupNB : List Nat → Bool
  | [] => true
  | x :: l => !(l.contains x) && nodupNB l

def clusterInvB (c : Cluster) : Bool :=
  keysNodupB c && !c.isEmpty && c.all (fun ft => !ft.2.isEmpty && nodupB ft.2)

def invB (s : Store) : Bool :=
  keysNodupB s.clusters && s.clusters.all (fun qc => clusterInvB qc.2) && nodupNB s.final

end Vata.Store
