import Vata.Ref
/-!
# Executable models of `Intersection` (`src/explicit_tree_isect.cc`), property C02

Definitions only (core Lean, linked into the driver); the theorems are in `Vata/Proofs/IsectModel.lean`.

* `isectTD` mirrors the C++: the translation map is filled in discovery order (`pTranslMap->size()` is the fresh
  number), the work-list is a LIFO stack that starts with `F_A × F_B`; a popped pair `(p, p')` with number `n` gets the
  rule `f(m(k₁,k₁'), …) → n` for every pair of rules `f(k₁…) → p` of `A` and `f(k₁'…) → p'` of `B`; child pairs are
  inserted into the map and pushed when new.  The iteration orders of the C++ (hash maps) are list orders here.
  The loop has fuel; the result is only returned when the stack ran empty and the domain of the map passes
  `isClosedB` (certify-then-trust).
* `isectFull` is the product on ALL pairs of states with the numbering `(p, q) ↦ p * K + q`.
-/
namespace Vata

/-- the translation map `ProductTranslMap` as an association list in insertion order -/
abbrev PMap := List ((Nat × Nat) × Nat)

def PMap.dom (m : PMap) : List (Nat × Nat) := m.map Prod.fst

/-- the translation as a function (0 outside the domain) -/
def lookupF (m : PMap) (p : Nat × Nat) : Nat := (m.lookup p).getD 0

/-- `pTranslMap->insert(make_pair(p, pTranslMap->size()))` for a list of pairs, pushing the new ones;
returns the map, the stack and the numbers of the pairs -/
def addPairs : List (Nat × Nat) → PMap → List (Nat × Nat) → PMap × List (Nat × Nat) × List Nat
  | [], m, st => (m, st, [])
  | p :: ps, m, st =>
    match m.lookup p with
    | some n => let r := addPairs ps m st; (r.1, r.2.1, n :: r.2.2)
    | none => let r := addPairs ps (m ++ [(p, m.length)]) (p :: st); (r.1, r.2.1, m.length :: r.2.2)

/-- the pairs of rules with the same symbol (and arity) whose parents are the components of `pr` -/
def isectMatching (A B : TA) (pr : Nat × Nat) : List (Rule × Rule) :=
  (A.rules.filter (fun r => r.parent == pr.1)).flatMap (fun r =>
    (B.rules.filter (fun r' => r'.parent == pr.2 && r'.sym == r.sym && r'.kids.length == r.kids.length)).map
      (fun r' => (r, r')))

/-- the body of the loop for a popped pair with number `n` -/
def isectProc (n : Nat) : List (Rule × Rule) → PMap → List (Nat × Nat) → List Rule → PMap × List (Nat × Nat) × List Rule
  | [], m, st, rs => (m, st, rs)
  | rr :: rest, m, st, rs =>
    let a := addPairs (rr.1.kids.zip rr.2.kids) m st
    isectProc n rest a.1 a.2.1 (rs ++ [⟨rr.1.sym, a.2.2, n⟩])

/-- the work-list loop; `none` when the fuel ends before the stack is empty -/
def isectLoop (A B : TA) : Nat → PMap → List (Nat × Nat) → List Rule → Option (PMap × List Rule)
  | 0, m, st, rs => if st.isEmpty then some (m, rs) else none
  | _+1, m, [], rs => some (m, rs)
  | n+1, m, pr :: st, rs =>
    let p := isectProc (lookupF m pr) (isectMatching A B pr) m st rs
    isectLoop A B n p.1 p.2.1 p.2.2

/-- `D` is closed under children of matching rules (Boolean version of `Closed`, `Vata/Isect.lean`) -/
def isClosedB (A B : TA) (D : List (Nat × Nat)) : Bool :=
  A.rules.all (fun r => B.rules.all (fun r' =>
    !(r'.sym == r.sym && r'.kids.length == r.kids.length && D.contains (r.parent, r'.parent)) ||
      (r.kids.zip r'.kids).all (fun pr => D.contains pr)))

/-- all pairs of final states, in the order of the two nested loops of the C++ -/
def finalPairs (A B : TA) : List (Nat × Nat) := A.final.flatMap (fun p => B.final.map (fun p' => (p, p')))

/-- model of `Intersection`: the product automaton and the translation map -/
def isectTD (A B : TA) (fuel : Nat) : Option (TA × PMap) :=
  let i := addPairs (finalPairs A B) [] []
  match isectLoop A B fuel i.1 i.2.1 [] with
  | none => none
  | some (m, rs) => if isClosedB A B m.dom then some (⟨rs, i.2.2⟩, m) else none

/-- every popped pair is a new pair of states, so this fuel is enough -/
def isectFuel (A B : TA) : Nat := A.states.length * B.states.length + 1

def isectTDRef (A B : TA) : Option (TA × PMap) := isectTD A B (isectFuel A B)

/-! ### the full product -/

/-- a bound above all states of `B` -/
def stateBound (B : TA) : Nat := B.states.foldl (fun a q => max a (q + 1)) 0

def pairNum (K : Nat) (p : Nat × Nat) : Nat := p.1 * K + p.2

def allPairs2 (Q Q' : List Nat) : List (Nat × Nat) := Q.flatMap (fun q => Q'.map (fun q' => (q, q')))

/-- product on all pairs of states with the pairing numbering -/
def isectFull (A B : TA) : TA := prodOn A B (allPairs2 A.states B.states) (pairNum (stateBound B))

end Vata
