import Vata.Ref
/-!
# Executable model of the downward simulation computed on bottom-up BDD automata (property C07)

Mirrors `BDDBUTreeAutCore::ComputeDownwardSimulation(size)` (`src/bdd_bu_tree_aut_sim.cc`), the relation that the
bottom-up inclusion selection "downward + simulation" (`src/bdd_bu_tree_aut_incl.cc`, `ANTICHAINS_DOWN_REC_SIM`) computes
on the disjoint union of the sanitised operands and hands to the recursive downward inclusion as its pruning preorder.

## Abstraction

The transition table of a bottom-up BDD automaton maps a children tuple to an MTBDD `symbol ↦ set of parents`.  All the
apply functors of the function (`InitCntApplyFctor`, `InitRefineApplyFctor`, `RefineApplyFctor`) act pointwise per
symbol (what `Vata/Proofs/MtbddOps.lean` proves about `apply2`/`apply3`; every `operator()` call clears the cache of its
functor, and the leaf operations are idempotent in their side effects, so one leaf call per symbol and one per distinct
leaf triple have the same effect).  Hence the model works on the rule set: the automaton is a `TA`,

* `up A t a`      = `GetMtbdd(t)` at the symbol `a`: the parents of the rules `a(t) → p`;
* `o.T`           = the keys of the table in iteration order (`TransTableWrapper` always yields the nullary tuple first);
* `o.Q`           = `GetTopDownAut().GetStates()`: the states that OWN A TOP-DOWN ENTRY.  `GetTopDownAut` creates an entry
                    exactly for the final states and for the states that occur in a children tuple (for each of them
                    one `SetMtbdd` per tuple of the table, and the table always has the nullary tuple).  A state that
                    occurs only as the parent of rules and is not final has NO entry: the double loop never visits it;
* the arity prefix of the top-down symbols (`GetMtbddForArity`) is the length of the tuple: a symbol may be used with
  several arities, and the counters of a tuple `t` only see the slice of arity `|t|`.

## The algorithm (names of the C++ in quotes)

1. "sim": for all `q, r ∈ o.Q`: `sim(q, r) := true` iff `InitRefineApplyFctor` finds no (arity, symbol) with a rule of `q`
   and no rule of `r` (`sigOk`); every other entry of the `n × n` matrix stays `false` – in particular the whole row
   and column (diagonal included) of a state without top-down entry.
2. "remove" (a hash SET of pairs of tuples): for every visited pair with `sim(q, r) = false` all `(t₁, t₂)` with
   `|t₁| = |t₂|`, `t₁[i] = q`, `t₂[i] = r` for some `i` (`forAllTuplesWithMatchingStatesDo`, `matching`).
3. "initCnt": per (arity `k`, symbol `a`) a vector with one slot per state `s < n`: the number of tuples `t` of length `k`
   with `a(t) → s` if `s ∈ o.Q`, and `0` otherwise (`InitCntApplyFctor` is only applied for the visited states).  "cnt"
   maps every tuple to (a shared copy of) `initCnt`: the model keeps the overwritten slots in an association list and
   reads `initCnt` otherwise (`getCnt`).
4. the loop: take some `(t₁, t₂)` out of "remove" (`o.ch k` selects the `k`-th pick: the order of a hash set is
   unspecified), then `cnt[t₁] := RefineApplyFctor(GetMtbdd(t₂), GetMtbdd(t₁), cnt[t₁] at arity |t₁|)`: for every symbol `a`
   and every `s ∈ up t₂ a`: `--cnt[t₁](a)[s]` (`size_t`: a slot that is `0` – a state without top-down entry – wraps
   around, `assert(result[s] > 0)` is compiled out in the release build; `wrapDec`), and when it becomes `0`, for every
   `p ∈ up t₁ a` with `sim(p, s)`: insert into "remove" all `(u₁, u₂)` matching `(p, s)` that are still componentwise
   related (`componentWiseSim` = `kidsRel`), then `sim(p, s) := false` (`cut`).
5. the result is "sim" when "remove" is empty.

`Order` collects the four iteration orders the C++ leaves unspecified (hash containers, MTBDD traversal); the theorems
(`Vata/Proofs/BddSim.lean`) hold for every order and show that the result does not depend on it.  `o.T` may also contain
"ghost" keys – tuples whose MTBDD is `∅` for every symbol, as `RemoveUselessStates` leaves them in the table –; `o.Q` then
has their components too (`Order.Ok`), and the theorems cover that case (`bddDownSimOrd_ghost_indep`).

Definitions only (core Lean); linked into the driver (`Driver/BddSimChk.lean`).
-/
namespace Vata
namespace BddSim

abbrev Tup := List Nat
/-- an element of "remove": `(lhs tuple, rhs tuple)` -/
abbrev RemEl := Tup × Tup
/-- a slot of the counters: tuple, symbol, state -/
abbrev Key := Tup × Nat × Nat

/-! ### duplicate-free lists (hash sets) -/

def insG {α : Type} [BEq α] (x : α) (l : List α) : List α := if l.contains x then l else l ++ [x]
def unionG {α : Type} [BEq α] (l₁ l₂ : List α) : List α := l₂.foldl (fun acc x => insG x acc) l₁

/-! ### the views of the automaton -/

/-- keys of the bottom-up table: the nullary tuple first (`TransTableWrapper::begin`), then the children tuples -/
def tuples (A : TA) : List Tup := unionG [[]] (A.rules.map (·.kids))

/-- the states with a top-down entry: final states and states in children tuples (`GetTopDownAut`) -/
def tdStates (A : TA) : List Nat := unionG [] (A.final ++ A.rules.flatMap (·.kids))

def syms (A : TA) : List Nat := unionG [] (A.rules.map (·.sym))

/-- `GetMtbdd(t)` at symbol `a` -/
def up (A : TA) (t : Tup) (a : Nat) : List Nat :=
  unionG [] ((A.rules.filter (fun r => r.kids == t && r.sym == a)).map (·.parent))

/-- the iteration orders the code leaves open -/
structure Order where
  /-- the bottom-up table -/
  T : List Tup
  /-- the state map of the top-down view -/
  Q : List Nat
  /-- the symbols, in the order the apply reaches them -/
  Sy : List Nat
  /-- the `k`-th pick from "remove" (an index, taken modulo the current size) -/
  ch : Nat → Nat

def stdOrder (A : TA) : Order := ⟨tuples A, tdStates A, syms A, fun _ => 0⟩

/-- another admissible order: every container reversed, the picks from "remove" given by `ch` -/
def revOrder (A : TA) (ch : Nat → Nat) : Order := ⟨(tuples A).reverse, (tdStates A).reverse, (syms A).reverse, ch⟩

/-! ### initialisation -/

/-- `InitRefineApplyFctor`: every (arity, symbol) with a rule of `q` has a rule of `r` -/
def sigOk (A : TA) (q r : Nat) : Bool :=
  A.rules.all (fun ρ => ρ.parent != q ||
    A.rules.any (fun σ => σ.parent == r && σ.sym == ρ.sym && σ.kids.length == ρ.kids.length))

/-- some position holds `p` on the left and `s` on the right -/
def matchAt : Tup → Tup → Nat → Nat → Bool
  | x :: xs, y :: ys, p, s => (x == p && y == s) || matchAt xs ys p s
  | _, _, _, _ => false

/-- `forAllTuplesWithMatchingStatesDo` -/
def matching (T : List Tup) (p s : Nat) : List RemEl :=
  (T.filter (fun t₁ => t₁.contains p)).flatMap (fun t₁ =>
    (T.filter (fun t₂ => t₂.length == t₁.length && matchAt t₁ t₂ p s)).map (fun t₂ => (t₁, t₂)))

def initSim (A : TA) (Q : List Nat) : Rel := (allPairs Q).filter (fun e => sigOk A e.1 e.2)

def initRem (A : TA) (T : List Tup) (Q : List Nat) : List RemEl :=
  unionG [] (((allPairs Q).filter (fun e => !sigOk A e.1 e.2)).flatMap (fun e => matching T e.1 e.2))

/-- "initCnt" at arity `k`, symbol `a`, slot `s` -/
def initCnt (A : TA) (T : List Tup) (Q : List Nat) (k a s : Nat) : Nat :=
  if Q.contains s then (T.filter (fun t => t.length == k && (up A t a).contains s)).length else 0

/-! ### the refinement -/

structure St where
  sim : Rel
  /-- the overwritten slots of "cnt" (the newest first) -/
  cnt : List (Key × Nat)
  rem : List RemEl

def getCnt (A : TA) (o : Order) (c : List (Key × Nat)) (k : Key) : Nat :=
  match c.lookup k with
  | some v => v
  | none => initCnt A o.T o.Q k.1.length k.2.1 k.2.2

/-- `--x` on `size_t` -/
def wrapDec (c : Nat) : Nat := if c = 0 then 2 ^ 64 - 1 else c - 1

/-- `s` stops simulating `p`: the pairs of tuples that lose componentwise relatedness go to "remove" -/
def cut (T : List Tup) (s : Nat) (sr : Rel × List RemEl) (p : Nat) : Rel × List RemEl :=
  if sr.1.contains (p, s) then
    (sr.1.filter (fun x => !(x == (p, s))),
     unionG sr.2 ((matching T p s).filter (fun e => kidsRel sr.1 e.1 e.2)))
  else sr

/-- the body of the loop `for s : upR` of `RefineApplyFctor::ApplyOperation` at symbol `a` -/
def procS (A : TA) (o : Order) (t₁ : Tup) (st : St) (as : Nat × Nat) : St :=
  let c := wrapDec (getCnt A o st.cnt (t₁, as.1, as.2))
  let cnt' := ((t₁, as.1, as.2), c) :: st.cnt
  if c = 0 then
    let sr := (up A t₁ as.1).foldl (cut o.T as.2) (st.sim, st.rem)
    ⟨sr.1, cnt', sr.2⟩
  else ⟨st.sim, cnt', st.rem⟩

/-- the leaf calls of one `refineFctor(GetMtbdd(t₂), …)`: symbol by symbol, the states of `upR` in turn -/
def ops (A : TA) (o : Order) (t₂ : Tup) : List (Nat × Nat) :=
  o.Sy.flatMap (fun a => (up A t₂ a).map (fun s => (a, s)))

def refine (A : TA) (o : Order) (st : St) (e : RemEl) : St :=
  (ops A o e.2).foldl (procS A o e.1) st

/-- `while (!remove.empty())`; `k` counts the picks -/
def loop (A : TA) (o : Order) : Nat → Nat → St → Option St
  | 0, _, st => if st.rem.isEmpty then some st else none
  | fuel+1, k, st =>
    if st.rem.isEmpty then some st
    else
      let e := st.rem.getD (o.ch k % st.rem.length) ([], [])
      loop A o fuel (k+1) (refine A o ⟨st.sim, st.cnt, st.rem.erase e⟩ e)

def initSt (A : TA) (o : Order) : St := ⟨initSim A o.Q, [], initRem A o.T o.Q⟩

/-- the relation computed with the iteration orders `o`; `none`: a state (of the automaton, or of a ghost key) is outside
`0..n-1` (the matrix and the counter vectors are indexed unchecked in the release build) or the fuel is exhausted -/
def bddDownSimOrd (A : TA) (n : Nat) (o : Order) (fuel : Nat) : Option Rel :=
  if A.states.all (fun q => decide (q < n)) && o.Q.all (fun q => decide (q < n)) then
    (loop A o fuel 0 (initSt A o)).map (·.sim)
  else none

/-- `ComputeDownwardSimulation(n)` -/
def bddDownSim (A : TA) (n : Nat) (fuel : Nat) : Option Rel := bddDownSimOrd A n (stdOrder A) fuel

/-- a number of loop iterations that always suffices: every pair of tuples is taken out of "remove" at most once -/
def fuelBound (A : TA) : Nat := (tuples A).length * (tuples A).length

/-- the `n × n` matrix the C++ returns -/
def matrix (R : Rel) (n : Nat) : List (List Bool) :=
  (List.range n).map (fun i => (List.range n).map (fun j => R.contains (i, j)))

end BddSim
end Vata
