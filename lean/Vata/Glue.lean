/-!
# The glue between names, numbers and BDD variables – executable model (supports C08, C13, C02)

Models, *the way they are coded*, of

* `VATA::SymbolicVarAsgn` (`include/vata/sym_var_asgn.hh`, `src/sym_var_asgn.cc`) and `VATA::Symbolic::GetZeroSymbol`
  (`include/vata/symbolic.hh`),
* `VATA::Util::TwoWayDict` (`include/vata/util/two_way_dict.hh`),
* `VATA::Util::TranslatorWeak`, `TranslatorWeak2` (`transl_weak.hh`), `TranslatorStrict` (`transl_strict.hh`),
* `VATA::Util::Convert::ToString` / `FromString` (`convert.hh`, `src/convert.cc`) for the types the library uses,
* `VATA::Util::CreateUnionStringToStateMap`, `CreateProductStringToStateMap` (`src/util.cc`, after the repair `7228ecf7`).

Core Lean only, everything executable (`Driver/GlueChk.lean` runs it against the real classes, kind `glue`); the theorems are
in `Vata/Proofs/Glue.lean`, the property statements in `Vata/Properties/Util_Glue.lean`.

## Reading conventions

* The library is built with `-DNDEBUG` (`CMAKE_BUILD_TYPE=RelWithDebInfo`): every `assert(false); // fail gracefully` is
  compiled out, and the code that follows it RUNS.  Where that code is memory safe it is modelled as it runs (e.g.
  `TwoWayDict::Insert` of a present key, `operator++` over a `DONT_CARE`); the contract ("the assertion does not fire") is a
  separate Boolean (`insertOk`, `isConcrete`, …) and the theorems say what holds inside the contract.  Where the code behind
  a disabled assertion is undefined behaviour (reading `vars_` out of range, dereferencing `end()`, shifting an `int` by
  ≥ 32) the model answers `none`.
* Hash containers (`std::unordered_map`) iterate in an unspecified order.  A map is an association list in insertion
  order whose `List.lookup` finds the first binding (`insert` keeps the first); functions that iterate a container take the
  list order for the iteration order, and the theorems are about the entries, not about their order.
* `std::map` iterates by increasing key; `sortByKey` produces that order for the read-back of the driver.
* Names (`std::string`) are `List Char`.
-/
namespace Vata.Glue

/-! ## 1. `SymbolicVarAsgn`

The class stores `variablesCount_` and a `std::vector<char> vars_` with two bits per variable (`ZERO = 0x01`, `ONE = 0x02`,
`DONT_CARE = 0x03`).  The object denotes the sequence of the values of the variables `0 … variablesCount_-1`; the abstract
model is that sequence (`Asgn`, the same `List (Option Bool)` as in `Vata/MtbddOps.lean` and `Vata/BddAbs.lean`), the
packing into characters is modelled in section 1b (`Packed`) and proved to implement the sequence. -/

/-- the value of one variable: `some false` = `ZERO` (`'0'`), `some true` = `ONE` (`'1'`), `none` = `DONT_CARE` (`'X'`) -/
abbrev Val := Option Bool

/-- the content of an assignment: variable `i` at position `i` -/
abbrev Asgn := List Val

/-- the two-bit code of a value (`enum { ZERO = 0x01, ONE = 0x02, DONT_CARE = 0x03 }`) -/
def valCode : Val → Nat
  | some false => 1
  | some true => 2
  | none => 3

/-- what `GetIthVariableValue` makes of a two-bit field (`0` = a field that was never written) -/
def codeVal? : Nat → Option Val
  | 1 => some (some false)
  | 2 => some (some true)
  | 3 => some none
  | _ => none

/-- `explicit SymbolicVarAsgn(size_t size)`: every variable `DONT_CARE` -/
def mkDontCare (size : Nat) : Asgn := List.replicate size none

/-- the test `(n & (1 << i)) != 0` of the constructor `SymbolicVarAsgn(size_t size, size_t n)`.  `1 << i` is an `int`
expression: for `i < 31` it is bit `i`; for `i = 31` it is `INT_MIN`, which the conversion to `size_t` sign-extends to
`0xFFFFFFFF80000000`, so the test reads ALL the bits `31 … 63` of `n`; for `i ≥ 32` the shift is undefined behaviour
(`none`).  `n` is a `size_t` (taken modulo `2^64`). -/
def maskTest (n i : Nat) : Option Bool :=
  if i < 31 then some (n.testBit i)
  else if i = 31 then some (!(n % 2 ^ 64 / 2 ^ 31 == 0))
  else none

/-- the loop of `SymbolicVarAsgn(size, n)` from variable `i` on (`k` variables left) -/
def ofNumFrom (n : Nat) : Nat → Nat → Option Asgn
  | _, 0 => some []
  | i, k + 1 =>
    match maskTest n i with
    | none => none
    | some b =>
      match ofNumFrom n (i + 1) k with
      | none => none
      | some r => some (some b :: r)

/-- `SymbolicVarAsgn(size_t size, size_t n)`; `none` = undefined behaviour (`size > 32`) -/
def ofNum (size n : Nat) : Option Asgn := ofNumFrom n 0 size

/-- `Symbolic::SYMBOL_SIZE` -/
def SYMBOL_SIZE : Nat := 16

/-- `Symbolic::GetZeroSymbol()` = `SymbolType(SYMBOL_SIZE, 0)` -/
def zeroSymbol : Option Asgn := ofNum SYMBOL_SIZE 0

/-- the `switch` of the string constructor; `none` = `throw std::runtime_error("Invalid input value!")` -/
def charVal? (c : Char) : Option Val :=
  if c = '0' then some (some false)
  else if c = '1' then some (some true)
  else if c = 'X' then some none
  else none

/-- `explicit SymbolicVarAsgn(const std::string& value = "")`; `none` = the exception -/
def ofStr : List Char → Option Asgn
  | [] => some []
  | c :: r =>
    match charVal? c with
    | none => none
    | some v =>
      match ofStr r with
      | none => none
      | some a => some (v :: a)

/-- the `switch` of `ToString` -/
def valChar : Val → Char
  | some false => '0'
  | some true => '1'
  | none => 'X'

/-- `ToString()`: variable 0 first -/
def toStr (a : Asgn) : List Char := a.map valChar

/-- `length()` (`VariablesCount` of later library versions) -/
def length (a : Asgn) : Nat := a.length

/-- `GetIthVariableValue(i)`; `none` = `i ≥ length()` (assertion; out-of-range read with `NDEBUG`) -/
def get (a : Asgn) (i : Nat) : Option Val := a[i]?

/-- `SetIthVariableValue(i, value)` for `i < length()` (outside: assertion / out-of-range write, not modelled: `List.set`
leaves the list alone) -/
def set (a : Asgn) (i : Nat) (v : Val) : Asgn := List.set a i v

/-- `AddVariablesUpTo(maxVariableIndex)`: new variables are `DONT_CARE`; nothing happens when the index exists -/
def addVariablesUpTo (a : Asgn) (maxVariableIndex : Nat) : Asgn :=
  let newCount := maxVariableIndex + 1
  if newCount > a.length then a ++ List.replicate (newCount - a.length) none else a

/-- `append(prefix)` for `&prefix != this`: the variables of `prefix` get the indices `length() …` (despite the parameter
name they are appended BEHIND the present variables) -/
def append (a pre : Asgn) : Asgn := a ++ pre

/-- `a.append(a)`: `variablesCount_ += prefix.length()` also changes `prefix.length()`, the loop then runs to `2n` and
writes the variables `n … 3n-1`: for `n ≥ 1` the assertion `i < length()` is violated, and for `n ≥ 2` the write leaves
`vars_` (undefined behaviour).  Only `n = 0` is inside the contract. -/
def appendSelf (a : Asgn) : Option Asgn := if a.isEmpty then some [] else none

/-- `operator++()` (prefix): variable 0 is the least significant bit; the carry out of the last variable is dropped.  On a
`DONT_CARE` the assertion is compiled out and the loop goes on with the next variable. -/
def inc : Asgn → Asgn
  | [] => []
  | some false :: r => some true :: r
  | some true :: r => some false :: inc r
  | none :: r => none :: inc r

/-- `operator++(int)` (postfix): (the returned copy, the new value of the object) -/
def postInc (a : Asgn) : Asgn × Asgn := (a, inc a)

/-- no `DONT_CARE` (the contract of `operator++`, and what `GetVectorOfConcreteSymbols` produces) -/
def isConcrete (a : Asgn) : Bool := a.all Option.isSome

/-- the three outcomes of one round of the loop of `operator<` -/
inductive Cmp where
  | lt | gt | eq
  deriving DecidableEq, Repr

/-- the nested `switch` of `operator<`: `ZERO < DONT_CARE < ONE` -/
def cmpVal : Val → Val → Cmp
  | some false, some false => .eq
  | some false, some true => .lt
  | some false, none => .lt
  | some true, some false => .gt
  | some true, some true => .eq
  | some true, none => .gt
  | none, some false => .gt
  | none, some true => .lt
  | none, none => .eq

/-- the loop of `operator<` on the values from the HIGHEST index down (both lists reversed) -/
def ltLoop : List Val → List Val → Bool
  | x :: xs, y :: ys =>
    match cmpVal x y with
    | .lt => true
    | .gt => false
    | .eq => ltLoop xs ys
  | _, _ => false

/-- `operator<(lhs, rhs)`: shorter first; equal lengths: lexicographic from the highest index, `0 < X < 1` -/
def lt (a b : Asgn) : Bool :=
  if a.length < b.length || b.length < a.length then decide (a.length < b.length)
  else ltLoop a.reverse b.reverse

/-- `getAllSymbols(var, vec, pos)` on the suffix from `pos` (the prefix before `pos` is the same in all pushed copies):
a `DONT_CARE` forks, `ZERO` first -/
def allSyms : Asgn → List Asgn
  | [] => [[]]
  | none :: r => (allSyms r).map (some false :: ·) ++ (allSyms r).map (some true :: ·)
  | some b :: r => (allSyms r).map (some b :: ·)

/-- `GetVectorOfConcreteSymbols()` -/
def concretize (a : Asgn) : List Asgn := allSyms a

/-- `static GetAllAssignments(variablesCount)`: ONE assignment, all `DONT_CARE` -/
def getAllAssignments (variablesCount : Nat) : List Asgn := [List.replicate variablesCount none]

/-- `static GetUniversalSymbol()` = `SymbolicVarAsgn(0)` -/
def universalSymbol : Asgn := mkDontCare 0

/-- the number a concrete assignment stands for: variable `i` is bit `i` (`DONT_CARE` counts as 0) -/
def toNum : Asgn → Nat
  | [] => 0
  | v :: r => (if v = some true then 1 else 0) + 2 * toNum r

/-- the `size` lowest bits of `n`, least significant first -/
def bitsLE : Nat → Nat → Asgn
  | 0, _ => []
  | s + 1, n => some (decide (n % 2 = 1)) :: bitsLE s (n / 2)

/-- `c` is a total assignment that agrees with the symbolic `a` wherever `a` cares -/
def agrees : Asgn → Asgn → Bool
  | [], [] => true
  | some _ :: cs, none :: r => agrees cs r
  | some c :: cs, some b :: r => c == b && agrees cs r
  | _, _ => false

/-- the order of the produced strings: lexicographic, variable 0 first, `false < true` (total assignments) -/
def lexLt : Asgn → Asgn → Bool
  | some x :: xs, some y :: ys => (!x && y) || (x == y && lexLt xs ys)
  | _, _ => false

/-! ## 1b. The packed representation `vars_` as coded -/

/-- the private data members -/
structure Packed where
  variablesCount : Nat
  vars : List (BitVec 8)
  deriving DecidableEq, Repr

namespace Packed

/-- `numberOfChars(varCount)` -/
def numberOfChars (varCount : Nat) : Nat := if varCount = 0 then 0 else (varCount * 2 - 1) / 8 + 1

/-- `getIndexOfChar(index)` -/
def indexOfChar (index : Nat) : Nat := index * 2 / 8

/-- `getIndexInsideChar(index)` -/
def indexInsideChar (index : Nat) : Nat := index * 2 % 8

/-- `(vars_[getIndexOfChar(i)] >> getIndexInsideChar(i)) & DefaultMask` on one character -/
def getField (c : BitVec 8) (sh : Nat) : BitVec 8 := (c >>> sh) &&& 3#8

/-- `mask = (DefaultMask << sh) ^ (char)-1;  c &= mask;  value <<= sh;  c |= value;` on one character -/
def setField (c : BitVec 8) (sh : Nat) (value : BitVec 8) : BitVec 8 :=
  (c &&& ((3#8 <<< sh) ^^^ 255#8)) ||| (value <<< sh)

/-- `GetIthVariableValue(i)` as coded: the raw two-bit field; `none` = the character does not exist -/
def getRaw (p : Packed) (i : Nat) : Option Nat :=
  match p.vars[indexOfChar i]? with
  | none => none
  | some c => some (getField c (indexInsideChar i)).toNat

/-- `SetIthVariableValue(i, value)` as coded (a missing character: the vector is left alone) -/
def setRaw (p : Packed) (i : Nat) (value : Nat) : Packed :=
  match p.vars[indexOfChar i]? with
  | none => p
  | some c => { p with vars := p.vars.set (indexOfChar i) (setField c (indexInsideChar i) (BitVec.ofNat 8 value)) }

/-- `vars_.resize(k)`: new characters are 0 -/
def resize (l : List (BitVec 8)) (k : Nat) : List (BitVec 8) := l.take k ++ List.replicate (k - l.length) 0#8

/-- `for (i = from; i < from + vals.length; ++i) SetIthVariableValue(i, vals[i - from])` -/
def setFrom (p : Packed) : Nat → List Val → Packed
  | _, [] => p
  | i, v :: r => setFrom (p.setRaw i (valCode v)) (i + 1) r

/-- a constructor: `variablesCount_(n), vars_(numberOfChars(n))`, then the loop over all variables -/
def ofAsgn (a : Asgn) : Packed := setFrom ⟨a.length, List.replicate (numberOfChars a.length) 0#8⟩ 0 a

/-- `AddVariablesUpTo` / `append` as coded: enlarge, `resize`, write the new variables -/
def extend (p : Packed) (vals : List Val) : Packed :=
  setFrom ⟨p.variablesCount + vals.length, resize p.vars (numberOfChars (p.variablesCount + vals.length))⟩ p.variablesCount vals

/-- the abstraction: what `GetIthVariableValue(i)` makes of the variables `0 … variablesCount_-1` (`none` = a field that holds
no legal code, or a missing character) -/
def abs (p : Packed) : List (Option Val) :=
  (List.range p.variablesCount).map (fun i => (p.getRaw i).bind codeVal?)

end Packed

/-! ## 2. Maps and `TwoWayDict` -/

section Maps
variable {α β : Type} [DecidableEq α] [DecidableEq β]

/-- `std::map::insert` / `std::unordered_map::insert`: a present key keeps its value; (the map, `.second` of the result) -/
def mapInsert (m : List (α × β)) (a : α) (b : β) : List (α × β) × Bool :=
  match m.lookup a with
  | some _ => (m, false)
  | none => (m ++ [(a, b)], true)

/-- a literal map built by successive `insert`s -/
def mapOfList (l : List (α × β)) : List (α × β) := l.foldl (fun m e => (mapInsert m e.1 e.2).1) []

/-- `TwoWayDict<T1, T2>`: the private members `fwdMap_` and `bwdMap_` -/
structure TwoWayDict (α β : Type) where
  fwd : List (α × β) := []
  bwd : List (β × α) := []
  deriving DecidableEq, Repr

namespace TwoWayDict

/-- `TwoWayDict()` -/
def empty : TwoWayDict α β := ⟨[], []⟩

/-- the loop of `explicit TwoWayDict(const MapFwdType& fwdMap)`; `none` = `throw std::runtime_error("TwoWayDict: failed to
construct reverse mapping")` -/
def ofMapLoop : List (α × β) → List (β × α) → Option (List (β × α))
  | [], bw => some bw
  | (a, b) :: r, bw =>
    match mapInsert bw b a with
    | (_, false) => none
    | (bw', true) => ofMapLoop r bw'

/-- `explicit TwoWayDict(const MapFwdType& fwdMap)` (`fwdMap` is a map: its keys are distinct) -/
def ofMap (m : List (α × β)) : Option (TwoWayDict α β) :=
  match ofMapLoop m [] with
  | none => none
  | some bw => some ⟨m, bw⟩

/-- `FindFwd(t1)` / `find(t1)`: `none` = `EndFwd()`, otherwise the entry the iterator points to -/
def findFwd (d : TwoWayDict α β) (a : α) : Option (α × β) := (d.fwd.lookup a).map (fun b => (a, b))

/-- `FindBwd(t2)` -/
def findBwd (d : TwoWayDict α β) (b : β) : Option (β × α) := (d.bwd.lookup b).map (fun a => (b, a))

/-- `TranslateFwd(t1)`; `none` = `throw std::out_of_range("TranslateFwd")` -/
def translateFwd (d : TwoWayDict α β) (a : α) : Option β := d.fwd.lookup a

/-- `TranslateBwd(t2)`; `none` = `throw std::out_of_range("TranslateBwd")` -/
def translateBwd (d : TwoWayDict α β) (b : β) : Option α := d.bwd.lookup b

/-- `at(t1)`; `none` = `throw std::out_of_range("at")` -/
def at? (d : TwoWayDict α β) (a : α) : Option β := d.fwd.lookup a

/-- `size()` = `fwdMap_.size()` -/
def size (d : TwoWayDict α β) : Nat := d.fwd.length

/-- `GetReverseMap()` -/
def getReverseMap (d : TwoWayDict α β) : List (β × α) := d.bwd

/-- the contract of `Insert`: neither assertion fires -/
def insertOk (d : TwoWayDict α β) (a : α) (b : β) : Bool := (d.fwd.lookup a).isNone && (d.bwd.lookup b).isNone

/-- `Insert(value)` / `insert(value)` as it runs with `NDEBUG`: `fwdMap_.insert`, THEN `bwdMap_.insert` whatever the first
answered (a failed backward insert only logs `backward mapping for … already found`).  Result: the dictionary, the entry
the returned iterator points to, and `.second`. -/
def insert (d : TwoWayDict α β) (a : α) (b : β) : TwoWayDict α β × (α × β) × Bool :=
  let f := mapInsert d.fwd a b
  let g := mapInsert d.bwd b a
  (⟨f.1, g.1⟩, (a, (f.1.lookup a).getD b), f.2)

/-- the contract of `Union`: no key and no value of `rhs` is present in `*this` -/
def unionOk (d r : TwoWayDict α β) : Bool :=
  r.fwd.all (fun e => (d.fwd.lookup e.1).isNone && (d.bwd.lookup e.2).isNone)

/-- `Union(rhs)`: `result = *this`, then `result.Insert(*itRhs)` for every forward entry of `rhs` -/
def union (d r : TwoWayDict α β) : TwoWayDict α β := r.fwd.foldl (fun acc e => (acc.insert e.1 e.2).1) d

end TwoWayDict

/-! ## 3. The translators

The functor (`ResultAllocFuncType`) is modelled by `alloc : Nat → α → β`: what it answers for the key when the container
has the given number of entries AT THE MOMENT OF THE CALL.  `TranslatorWeak` calls the functor BEFORE `insert` (it sees the
old size), `TranslatorWeak2` inserts `(value, ResultType())` FIRST and calls the functor on the stored key afterwards (it
sees the size including the new entry). -/

/-- `TranslatorWeak<map>::operator()(value)` (non-const): (the container, the result) -/
def weakMap (m : List (α × β)) (alloc : Nat → α → β) (a : α) : List (α × β) × β :=
  match m.lookup a with
  | some b => (m, b)
  | none => let b := alloc m.length a; ((mapInsert m a b).1, b)

/-- `TranslatorWeak2<map>::operator()(value)` (non-const) -/
def weak2Map (m : List (α × β)) (alloc : Nat → α → β) (a : α) : List (α × β) × β :=
  match m.lookup a with
  | some b => (m, b)
  | none => let b := alloc (m.length + 1) a; (m ++ [(a, b)], b)

/-- `TranslatorWeak<TwoWayDict>::operator()(value)` (non-const): the container's `insert` is `TwoWayDict::insert` -/
def weakDict (d : TwoWayDict α β) (alloc : Nat → α → β) (a : α) : TwoWayDict α β × β :=
  match d.fwd.lookup a with
  | some b => (d, b)
  | none => let b := alloc d.size a; ((d.insert a b).1, b)

/-- the `const` call operators of both weak translators; `none` = `throw std::runtime_error("Cannot insert value into
const translator.")` -/
def weakConst (m : List (α × β)) (a : α) : Option β := m.lookup a

/-- `TranslatorStrict::operator()` (both overloads; the container is a `const&`); `none` = `throw
std::runtime_error("No translation for " + Convert::ToString(value))` -/
def strict (m : List (α × β)) (a : α) : Option β := m.lookup a

end Maps

/-- the functors of the harness (all the library's own functors are counters `[&cnt](const T&){ return cnt++; }`) -/
inductive Alloc where
  | counter                -- `[&cnt](const T&){ return cnt++; }`
  | size (off : Nat)       -- `[&cont, off](const T&){ return cont.size() + off; }`
  | const (c : Nat)        -- `[c](const T&){ return c; }`  (not fresh)
  deriving DecidableEq, Repr

/-- one call of the functor: (the answer, the counter afterwards) -/
def Alloc.run (f : Alloc) (cnt sz : Nat) : Nat × Nat :=
  match f with
  | .counter => (cnt, cnt + 1)
  | .size off => (sz + off, cnt)
  | .const c => (c, cnt)

section Seq
variable {α : Type} [DecidableEq α]

/-- a sequence of keys through ONE `TranslatorWeak<map>` object: (container, counter, results) -/
def weakMapSeq (f : Alloc) : List α → List (α × Nat) → Nat → List Nat → List (α × Nat) × Nat × List Nat
  | [], m, cnt, out => (m, cnt, out)
  | a :: r, m, cnt, out =>
    match m.lookup a with
    | some b => weakMapSeq f r m cnt (out ++ [b])
    | none =>
      let x := f.run cnt m.length
      weakMapSeq f r (weakMap m (fun _ _ => x.1) a).1 x.2 (out ++ [x.1])

/-- a sequence of keys through one `TranslatorWeak2<map>` object -/
def weak2MapSeq (f : Alloc) : List α → List (α × Nat) → Nat → List Nat → List (α × Nat) × Nat × List Nat
  | [], m, cnt, out => (m, cnt, out)
  | a :: r, m, cnt, out =>
    match m.lookup a with
    | some b => weak2MapSeq f r m cnt (out ++ [b])
    | none =>
      let x := f.run cnt (m.length + 1)
      weak2MapSeq f r (weak2Map m (fun _ _ => x.1) a).1 x.2 (out ++ [x.1])

/-- a sequence of keys through one `TranslatorWeak<TwoWayDict>` object -/
def weakDictSeq (f : Alloc) : List α → TwoWayDict α Nat → Nat → List Nat → TwoWayDict α Nat × Nat × List Nat
  | [], d, cnt, out => (d, cnt, out)
  | a :: r, d, cnt, out =>
    match d.fwd.lookup a with
    | some b => weakDictSeq f r d cnt (out ++ [b])
    | none =>
      let x := f.run cnt d.size
      weakDictSeq f r (weakDict d (fun _ _ => x.1) a).1 x.2 (out ++ [x.1])

/-- a sequence of keys through a strict (or a `const` weak) translator: the results up to the first miss, and whether it
threw -/
def strictSeq {β : Type} (m : List (α × β)) : List α → List β × Bool
  | [] => ([], false)
  | a :: r =>
    match strict m a with
    | none => ([], true)
    | some b => let x := strictSeq m r; (b :: x.1, x.2)

end Seq

/-! ## 4. `Convert`

`ToString(n)` is `oss << n`; `FromString<T>(str)` is `iss >> result` on a fresh `std::istringstream` (flags `skipws | dec`,
"C" locale) and throws `std::invalid_argument("FromString: invalid argument")` iff the extraction sets `failbit`.
`std::num_get` (libstdc++ `_M_extract_int`) for a decimal integer: leading white space is skipped, ONE optional sign (`+` or
`-`, also for unsigned types), then the longest run of decimal digits; at least one digit is required; whatever follows the
digits stays in the stream (trailing garbage is ACCEPTED); a magnitude outside the range of the type sets `failbit`; for
an unsigned type a `-` negates modulo `2^bits`. -/

/-- `std::isspace` in the "C" locale -/
def isSpaceC (c : Char) : Bool := c = ' ' || c = '\t' || c = '\n' || c.toNat = 11 || c.toNat = 12 || c = '\r'

/-- `Convert::ToString` of an unsigned integer (also the specialisation for `unsigned char`) -/
def natStr (n : Nat) : List Char := Nat.toDigits 10 n

/-- `Convert::ToString` of a signed integer -/
def intStr (z : Int) : List Char :=
  match z with
  | .ofNat n => natStr n
  | .negSucc n => '-' :: natStr (n + 1)

/-- the value of a run of decimal digits, most significant first -/
def digitsVal (ds : List Char) : Nat := ds.foldl (fun acc c => acc * 10 + (c.toNat - 48)) 0

/-- the optional sign: (negative?, what follows the sign) -/
def scanSign : List Char → Bool × List Char
  | [] => (false, [])
  | c :: r => if c = '-' then (true, r) else if c = '+' then (false, r) else (false, c :: r)

/-- the syntactic part of the extraction: (negative?, the digits); `none` = no digit where one is required -/
def scanInt (s : List Char) : Option (Bool × List Char) :=
  let p := scanSign (s.dropWhile isSpaceC)
  let ds := p.2.takeWhile Char.isDigit
  if ds.isEmpty then none else some (p.1, ds)

/-- `Convert::FromString<T>` for an unsigned `T` of the given width (`unsigned`: 32, `size_t`: 64); `none` = the exception -/
def fromStrUnsigned (bits : Nat) (s : List Char) : Option Nat :=
  match scanInt s with
  | none => none
  | some (neg, ds) =>
    let v := digitsVal ds
    if v ≥ 2 ^ bits then none
    else some (if neg then (2 ^ bits - v) % 2 ^ bits else v)

/-- `Convert::FromString<T>` for a signed `T` of the given width (`int`: 32); `none` = the exception -/
def fromStrSigned (bits : Nat) (s : List Char) : Option Int :=
  match scanInt s with
  | none => none
  | some (neg, ds) =>
    let v := digitsVal ds
    if neg then (if v > 2 ^ (bits - 1) then none else some (- (v : Int)))
    else (if v ≥ 2 ^ (bits - 1) then none else some (v : Int))

/-- `", "`-separated -/
def joinComma : List (List Char) → List Char
  | [] => []
  | [x] => x
  | x :: y :: r => x ++ [',', ' '] ++ joinComma (y :: r)

/-- `ToString(std::vector<T>)`, `ToString(std::list<T>)`: `(a, b, c)` -/
def vecStr (l : List (List Char)) : List Char := '(' :: joinComma l ++ [')']

/-- `ToString(std::set<T>)`, `ToString(std::unordered_set<T>)`: `{a, b, c}` in iteration order -/
def setStr (l : List (List Char)) : List Char := '{' :: joinComma l ++ ['}']

/-- `ToString(std::pair<T, U>)`: `(a, b)` -/
def pairStr (a b : List Char) : List Char := '(' :: a ++ [',', ' '] ++ b ++ [')']

/-- `ToString(std::map<T, U>)`, `ToString(std::unordered_map<T, U>)`: `[k -> v, k -> v]` in iteration order -/
def mapStr (l : List (List Char × List Char)) : List Char :=
  '[' :: joinComma (l.map (fun e => e.1 ++ [' ', '-', '>', ' '] ++ e.2)) ++ [']']

/-! ## 5. The dictionary helpers of `src/util.cc` -/

/-- a state name -/
abbrev Name := List Char

abbrev StateDict := TwoWayDict Name Nat

/-- `dictElem.first + "_1"` -/
def name1 (n : Name) : Name := n ++ ['_', '1']

/-- `dictElem.first + "_2"` -/
def name2 (n : Name) : Name := n ++ ['_', '2']

/-- `'[' + itLhs->second + "_1|" + itRhs->second + "_2]"` -/
def prodName (l r : Name) : Name := '[' :: (l ++ ['_', '1', '|'] ++ (r ++ ['_', '2', ']']))

/-- one loop of `CreateUnionStringToStateMap` (after the repair `7228ecf7`): an entry whose state has no translation is
SKIPPED (`continue`); `tr = none` is the null pointer (no translation) -/
def unionSide (suffix : Name → Name) (tr : Option (List (Nat × Nat))) : List (Name × Nat) → StateDict → StateDict
  | [], res => res
  | (n, s) :: r, res =>
    match tr with
    | none => unionSide suffix tr r (res.insert (suffix n) s).1
    | some t =>
      match t.lookup s with
      | none => unionSide suffix tr r res
      | some s' => unionSide suffix tr r (res.insert (suffix n) s').1

/-- `CreateUnionStringToStateMap(lhsCont, rhsCont, translMapLhs, translMapRhs)` -/
def unionDict (l r : StateDict) (tl tr : Option (List (Nat × Nat))) : StateDict :=
  unionSide name2 tr r.fwd (unionSide name1 tl l.fwd TwoWayDict.empty)

/-- the loop before the repair: `assert(false)` on a missing translation, then `itTransl->second` with `itTransl == end()`
(undefined behaviour, `none`; finding D14: `vata -s union` crashed) -/
def unionSideOld (suffix : Name → Name) (tr : Option (List (Nat × Nat))) : List (Name × Nat) → StateDict → Option StateDict
  | [], res => some res
  | (n, s) :: r, res =>
    match tr with
    | none => unionSideOld suffix tr r (res.insert (suffix n) s).1
    | some t =>
      match t.lookup s with
      | none => none
      | some s' => unionSideOld suffix tr r (res.insert (suffix n) s').1

def unionDictOld (l r : StateDict) (tl tr : Option (List (Nat × Nat))) : Option StateDict :=
  match unionSideOld name1 tl l.fwd TwoWayDict.empty with
  | none => none
  | some res => unionSideOld name2 tr r.fwd res

/-- the loop of `CreateProductStringToStateMap` over the entries of the product map (a hash map: the list order stands for
its iteration order); a component without a name: `assert(false)` and then `itLhs->second` with `itLhs == EndBwd()`
(undefined behaviour, `none`) -/
def productLoop (l r : StateDict) : List ((Nat × Nat) × Nat) → StateDict → Option StateDict
  | [], res => some res
  | ((p, q), v) :: rest, res =>
    match l.bwd.lookup p, r.bwd.lookup q with
    | some ln, some rn => productLoop l r rest (res.insert (prodName ln rn) v).1
    | _, _ => none

/-- `CreateProductStringToStateMap(lhsCont, rhsCont, translMap)` -/
def productDict (l r : StateDict) (pm : List ((Nat × Nat) × Nat)) : Option StateDict :=
  productLoop l r pm TwoWayDict.empty

/-! ## 6. Iteration order of the `std::map`s (for the read-back) -/

/-- `std::string::compare` / `std::less<std::string>` on ASCII names -/
def nameLt : List Char → List Char → Bool
  | [], [] => false
  | [], _ :: _ => true
  | _ :: _, [] => false
  | x :: xs, y :: ys => if x.toNat < y.toNat then true else if y.toNat < x.toNat then false else nameLt xs ys

section SortSec
variable {κ ν : Type}

def insByKey (lt : κ → κ → Bool) (e : κ × ν) : List (κ × ν) → List (κ × ν)
  | [] => [e]
  | f :: r => if lt f.1 e.1 then f :: insByKey lt e r else e :: f :: r

/-- the entries in the order of a `std::map` with the comparison `lt` (keys are distinct) -/
def sortByKey (lt : κ → κ → Bool) : List (κ × ν) → List (κ × ν)
  | [] => []
  | e :: r => insByKey lt e (sortByKey lt r)

end SortSec

/-- the two `std::map`s of a `StateDict` in iteration order -/
def StateDict.norm (d : StateDict) : StateDict :=
  ⟨sortByKey nameLt d.fwd, sortByKey (fun (a b : Nat) => decide (a < b)) d.bwd⟩

/-! ## 7. Histories over a pool of dictionaries and maps (the mutating operations of the `glue` kind) -/

/-- the live objects: `StateDict`s and `StateToStateMap`s -/
structure Pool where
  ds : List StateDict := []
  ms : List (List (Nat × Nat)) := []
  deriving Repr

def Pool.d (p : Pool) (i : Nat) : StateDict := p.ds.getD i TwoWayDict.empty
def Pool.m (p : Pool) (i : Nat) : List (Nat × Nat) := p.ms.getD i []

inductive Op where
  | dNew                                              -- `StateDict()`
  | dOfMap (m : List (Name × Nat))                    -- `StateDict(std::map)`; no object when it throws
  | dCopy (i : Nat)
  | dInsert (i : Nat) (n : Name) (v : Nat)
  | dUnion (i j : Nat)                                -- new object `d[i].Union(d[j])`
  | dWeak (i : Nat) (f : Alloc) (cnt : Nat) (keys : List Name)   -- a `TranslatorWeak<StateDict>` fed with keys
  | dStrict (i : Nat) (keys : List Name)              -- `TranslatorStrict<StateDict>`
  | dStrictBwd (i : Nat) (keys : List Nat)            -- `TranslatorStrict<StateDict::MapBwdType>` on `GetReverseMap()`
  | dQuery (i : Nat)                                  -- `TranslateFwd/Bwd`, `FindFwd/Bwd`, `at`, `size`, iteration
  | mNew
  | mLit (m : List (Nat × Nat))
  | mCopy (i : Nat)
  | mWeak (i : Nat) (f : Alloc) (cnt : Nat) (keys : List Nat)
  | mWeak2 (i : Nat) (f : Alloc) (cnt : Nat) (keys : List Nat)
  | mStrict (i : Nat) (keys : List Nat)
  | uni (i j : Nat) (ml mr : Option Nat)              -- new object `CreateUnionStringToStateMap`
  | prod (i j : Nat) (pm : List ((Nat × Nat) × Nat))  -- new object `CreateProductStringToStateMap`; none when UB
  deriving Repr

/-- the effect of a step on the live objects (`norm` = bring a dictionary into the iteration order of its `std::map`s;
the driver uses `StateDict.norm`, the theorems hold for every entry-preserving `norm`) -/
def step (norm : StateDict → StateDict) (p : Pool) : Op → Pool
  | .dNew => { p with ds := p.ds ++ [TwoWayDict.empty] }
  | .dOfMap m =>
    match TwoWayDict.ofMap (mapOfList m) with
    | none => p
    | some d => { p with ds := p.ds ++ [norm d] }
  | .dCopy i => { p with ds := p.ds ++ [p.d i] }
  | .dInsert i n v => { p with ds := p.ds.set i (norm ((p.d i).insert n v).1) }
  | .dUnion i j => { p with ds := p.ds ++ [norm ((p.d i).union (p.d j))] }
  | .dWeak i f cnt keys => { p with ds := p.ds.set i (norm (weakDictSeq f keys (p.d i) cnt []).1) }
  | .dStrict _ _ => p
  | .dStrictBwd _ _ => p
  | .dQuery _ => p
  | .mNew => { p with ms := p.ms ++ [[]] }
  | .mLit m => { p with ms := p.ms ++ [mapOfList m] }
  | .mCopy i => { p with ms := p.ms ++ [p.m i] }
  | .mWeak i f cnt keys => { p with ms := p.ms.set i (weakMapSeq f keys (p.m i) cnt []).1 }
  | .mWeak2 i f cnt keys => { p with ms := p.ms.set i (weak2MapSeq f keys (p.m i) cnt []).1 }
  | .mStrict _ _ => p
  | .uni i j ml mr => { p with ds := p.ds ++ [norm (unionDict (p.d i) (p.d j) (ml.map p.m) (mr.map p.m))] }
  | .prod i j pm =>
    match productDict (p.d i) (p.d j) (mapOfList pm) with
    | none => p
    | some d => { p with ds := p.ds ++ [norm d] }

def run (norm : StateDict → StateDict) : Pool → List Op → Pool
  | p, [] => p
  | p, o :: r => run norm (step norm p o) r

end Vata.Glue
