import Vata.Ref
/-!
# Executable model of `Union` with its weak state translators (`src/explicit_tree_union.cc`), property C02

Definitions only (core Lean, linked into the driver); the theorems are in `Vata/Proofs/UnionModel.lean`.

* `SMap` is a `StateToStateMap` as an association list in insertion order (`List.lookup` finds the first binding, as
  `unordered_map::insert` keeps the first).
* `weakTr m cnt q` is `TranslatorWeak::operator()` (`include/vata/util/transl_weak.hh`) with the allocator
  `[&stateCnt](const StateType&){return stateCnt++;}`: a state that is known keeps its number, an unknown state gets the
  current value of the counter, which is then incremented.  `weakTrAll` feeds a sequence of states through it.
* `visitOrder A` is the order in which `ReindexStates` presents the states of `A` to the translator: the final states
  first, then for every rule the parent followed by the children.  The C++ iterates hash containers; the list order is
  only one possible order, so the model `unionModelOrd` takes the two visiting orders as PARAMETERS and the theorems hold
  for all orders that cover the states of the operand.
* `maxVal`/`unionCnt`: the start value of the ONE shared counter, `max (second + 1)` over the entries of both
  (possibly pre-filled) maps, `0` for empty maps.
* `unionModelOrd oA oB A B mL mR`: `A` is translated through `mL`, then `B` through `mR` continuing the same counter;
  the result is `unionWith` of the two final maps (`ReindexStates` of both operands into one automaton) together with
  the two final maps (the C++ updates the caller's maps in place).
* `unionModelOldOrd` is the code BEFORE the repair (finding D11): the counter starts at `0` whatever the maps contain.
-/
namespace Vata

/-- a state-to-state translation map in insertion order -/
abbrev SMap := List (Nat × Nat)

/-- `TranslatorWeak::operator()` with the allocator `stateCnt++` -/
def weakTr (m : SMap) (cnt : Nat) (q : Nat) : SMap × Nat :=
  match m.lookup q with
  | some _ => (m, cnt)
  | none => (m ++ [(q, cnt)], cnt + 1)

/-- a sequence of states through the weak translator; returns the map and the counter -/
def weakTrAll : List Nat → SMap → Nat → SMap × Nat
  | [], m, cnt => (m, cnt)
  | q :: qs, m, cnt => weakTrAll qs (weakTr m cnt q).1 (weakTr m cnt q).2

/-- the order in which `ReindexStates` asks for the states: final states, then per rule the parent and the children -/
def visitOrder (A : TA) : List Nat := A.final ++ A.rules.flatMap Rule.states

/-- `for (statePair : map) stateCnt = std::max(stateCnt, statePair.second + 1)` -/
def maxVal (m : SMap) (c : Nat) : Nat := m.foldl (fun a e => max a (e.2 + 1)) c

/-- the start value of the shared counter -/
def unionCnt (mL mR : SMap) : Nat := maxVal mR (maxVal mL 0)

/-- model of `Union` for given visiting orders of the two operands -/
def unionModelOrd (oA oB : List Nat) (A B : TA) (mL mR : SMap) : TA × SMap × SMap :=
  let l := weakTrAll oA mL (unionCnt mL mR)
  let r := weakTrAll oB mR l.2
  (unionWith (applyMap l.1) (applyMap r.1) A B, l.1, r.1)

/-- model of `Union` (list order replaces hash order) -/
def unionModel (A B : TA) (mL mR : SMap) : TA × SMap × SMap :=
  unionModelOrd (visitOrder A) (visitOrder B) A B mL mR

/-- the code before the repair: the counter starts at `0` -/
def unionModelOldOrd (oA oB : List Nat) (A B : TA) (mL mR : SMap) : TA × SMap × SMap :=
  let l := weakTrAll oA mL 0
  let r := weakTrAll oB mR l.2
  (unionWith (applyMap l.1) (applyMap r.1) A B, l.1, r.1)

def unionModelOld (A B : TA) (mL mR : SMap) : TA × SMap × SMap :=
  unionModelOldOrd (visitOrder A) (visitOrder B) A B mL mR

/-! ### Boolean checks of the precondition on caller-supplied maps -/

/-- different keys have different numbers (checked on all entries) -/
def smapInjB (m : SMap) : Bool := m.all (fun e => m.all (fun e' => e.2 != e'.2 || e.1 == e'.1))

/-- no number occurs in both maps -/
def smapDisjB (m m' : SMap) : Bool := m.all (fun e => m'.all (fun e' => e.2 != e'.2))

end Vata
