import Vata.InclUp
import Vata.DownCert
/-!
# Certifying executable models of the downward inclusion algorithms (properties C01, C07)

Mirrors

* `CheckDownwardTreeInclusion` (`src/tree_incl_down.hh`) with `DownwardInclusionFunctor`
  (`src/down_tree_incl_fctor.hh`): the recursive algorithm (`ANTICHAINS_DOWN_REC_NOSIM`, `…_REC_SIM`, explicit and
  BDD top-down encodings) — `inclDownRec`, `inclDownSim`;
* `OptDownwardInclusionFunctor` (`src/down_tree_opt_incl_fctor.hh`, `…_REC_OPT_…`): in that functor the set
  `consequent` is never seeded (only unions of the always empty consequents of the sub-calls are inserted), hence
  `processFoundGlobalInclusion` is never called, the cache `incl_` stays empty and the functor computes exactly what
  `DownwardInclusionFunctor` computes; the model is the same function (`inclDownOpt`);
* `ExplicitDownwardInclusion` (`src/explicit_tree_incl_down.cc`, `ANTICHAINS_DOWN_NONREC_…`): the `expand` with the
  call emulator, modelled by a recursive function with the same order of tests and the same caching discipline
  (`inclDownNonrec`, `inclDownNonrecSim`).

`expand (p, P)` decides `L(A, p) ⊆ L(B, P)`:

* `true` when the pair is subsumed by the work-set (an ancestor call: co-inductive hypothesis), by the cache of the
  calling functor (`childrenCache`) or by the preorder; `false` when subsumed by the antichain `nonincluded`;
* otherwise for every symbol `f` and arity `n` of the rules `f(p₁..pₙ) → p` of `A`: with `W` the `f`-tuples of the states
  of `P`; arity 0: `W` must not be empty; else `W` must not be empty and for every lhs tuple either some tuple of `W` is
  positionwise bigger (phase 1), or for every choice function `W → {0..n-1}` some position `i` satisfies
  `expand (pᵢ, {wᵢ | w ↦ i})` (positions with an empty set are skipped: the operands have no useless states);
* the result is cached (`childrenCache` of the caller / `nonincluded`).

The preorder is given by three Boolean tests (`Ord`); the identity (`idOrd`) gives the `NOSIM` variants.

Every `false` carries a tree of `L(A, p) \ L(B, P)` (assembled bottom-up from the failing choice function; a tree of a
productive state is looked up in `InclUp.prodWit A` where the code skips an empty set).  The set `trues` collects the
pairs concluded `true`; when a call fails, the pairs concluded inside it are dropped (they may rest on the failed
hypothesis).  The run ends *certify-then-trust*: `true` is returned only with the collected set `X` after the Boolean
check `downCertB A B X` (the hypothesis of `down_cert_incl`), `false` only with a tree `w` after the check
`accepts A w && !accepts B w`; `none` = fuel (the recursion depth) exhausted or the check failed.

Deviations from the code that do not change a verdict: the explicit `ForeachDownSymbolFromStateAndStateSetDo` goes on
with the remaining symbols after a failure (the BDD one stops, as the model does); `SequentialChoiceFunctionGenerator`
yields the all-zero choice function a second time at the end; containers ordered by address / hash are replaced by
list order; the test `IsImpliedByPreorder` and the pruning tests compare states of `A` with states of `A` and of `B`
through `Ord`, so that the identity never relates a state of `A` to a state of `B` even if the numbers overlap.

Definitions only (core Lean); the theorems are in `Vata/Proofs/InclDown.lean` (every returned verdict is right),
`Vata/Proofs/InclDownInv.lean` (the exploration: the final check never refuses on operands without useless states)
and `Vata/Proofs/InclDownTotal.lean` (termination, totality and completeness).
-/
namespace Vata

namespace InclDown
open InclUp (normS prodWit lookupT Wit)

abbrev Pair := Nat × List Nat

/-! ### the certificate check -/

/-- the partial choice function `acc` restricted to position `i`: the `i`-th children of the rules sent to `i` -/
def ssetP (acc : List (Rule × Nat)) (i : Nat) : List Nat :=
  acc.filterMap (fun rc => if rc.2 = i then rc.1.kids[i]? else none)

/-- some position `i` of the lhs tuple `ks` is subsumed with the set the partial choice function gives -/
def hit (sub : Nat → List Nat → Bool) (ks : List Nat) (acc : List (Rule × Nat)) : Bool :=
  (List.range ks.length).any (fun i =>
    match ks[i]? with
    | some k => sub k (ssetP acc i)
    | none => false)

/-- every extension of the partial choice function `acc` to the rules `W` has a subsumed position (depth-first, a
branch is cut as soon as a position is subsumed: subsumption is monotone in the set) -/
def chk (sub : Nat → List Nat → Bool) (ks : List Nat) : List Rule → List (Rule × Nat) → Bool
  | [], acc => hit sub ks acc
  | r :: W, acc => hit sub ks acc || (List.range ks.length).all (fun i => chk sub ks W ((r, i) :: acc))

/-- the closure condition of `DownCert` for all pairs of `X` and the root condition, relative to a subsumption test -/
def certB (sub : Nat → List Nat → Bool) (A B : TA) (X : List Pair) : Bool :=
  X.all (fun x => A.rules.all (fun ρ =>
    ρ.parent != x.1 || chk sub ρ.kids (rulesOf B x.2 ρ.sym ρ.kids.length) [])) &&
  A.final.all (fun f => sub f B.final)

/-- `Sub X k S`: some `(k, S')` with `S' ⊆ S` is in `X` -/
def subX (X : List Pair) (k : Nat) (S : List Nat) : Bool := X.any (fun x => x.1 == k && subB x.2 S)

/-! ### the preorder -/

/-- the preorder used for pruning: on the states of `A`, on the states of `B`, and from `A` to `B` -/
structure Ord where
  leA : Nat → Nat → Bool
  leB : Nat → Nat → Bool
  leAB : Nat → Nat → Bool

/-- the identity (`NOSIM`): no state of `A` is below a state of `B` -/
def idOrd : Ord := ⟨fun q r => q == r, fun q r => q == r, fun _ _ => false⟩

/-- the preorder given by a relation `R` on the disjoint union (made reflexive, as `SetComparerSmaller` answers `true`
on identical sets); the target of a pair must be a state of the right operand -/
def ordOf (R : Rel) (A B : TA) : Ord :=
  let QA := A.states
  let QB := B.states
  ⟨fun q r => q == r || (R.contains (q, r) && QA.contains r),
   fun q r => q == r || (R.contains (q, r) && QB.contains r),
   fun q r => R.contains (q, r) && QB.contains r⟩

/-- `SetComparerSmaller`: every state of `P'` is below some state of `P` -/
def setLe (o : Ord) (P' P : List Nat) : Bool := P'.all (fun s' => P.any (fun s => o.leB s' s))

/-- `isInWorkset` / `isImpliedByChildren`: some `(p', P')` with `p ≤ p'` and `P' ≤ P` is present -/
def covers (o : Ord) (X : List Pair) (p : Nat) (P : List Nat) : Bool :=
  X.any (fun x => o.leA p x.1 && setLe o x.2 P)

/-- `IsImpliedByPreorder`: `p` is below a state of `P` -/
def byPre (o : Ord) (p : Nat) (P : List Nat) : Bool := P.any (fun s => o.leAB p s)

/-- subsumption modulo the preorder -/
def subXR (o : Ord) (X : List Pair) (k : Nat) (S : List Nat) : Bool := byPre o k S || covers o X k S

/-- `isNoninclusionImplied`: some `(p', P')` with `p' ≤ p` and `P ≤ P'` is present -/
def niFind (o : Ord) (ni : List (Nat × List Nat × Tree)) (p : Nat) (P : List Nat) : Option (Nat × List Nat × Tree) :=
  ni.find? (fun x => o.leA x.1 p && setLe o P x.2.1)

/-- `processFoundInclusion` -/
def ccAdd (o : Ord) (cc : List Pair) (p : Nat) (P : List Nat) : List Pair :=
  if covers o cc p P then cc else cc.filter (fun x => !(o.leA x.1 p && setLe o P x.2)) ++ [(p, P)]

/-- `processFoundNoninclusion` -/
def niAdd (o : Ord) (ni : List (Nat × List Nat × Tree)) (p : Nat) (P : List Nat) (w : Tree) :
    List (Nat × List Nat × Tree) :=
  if (niFind o ni p P).isSome then ni
  else ni.filter (fun x => !(o.leA p x.1 && setLe o x.2.1 P)) ++ [(p, P, w)]

/-! ### the exploration -/

/-- the global state: the antichain `nonincluded` (with witnesses) and the pairs concluded `true` -/
structure St where
  nonIncl : List (Nat × List Nat × Tree)
  trues : List Pair

inductive Verdict where
  | holds
  /-- with a tree of `L(A, p) \ L(B, P)` -/
  | fails (w : Tree)

def addTrue (X : List Pair) (x : Pair) : List Pair := if X.contains x then X else X ++ [x]

/-- result of a call: the verdict, the `childrenCache` of the calling functor, the global state -/
abbrev Ret := Option (Verdict × List Pair × St)
/-- `expand` as seen by the functor: `childrenCache`, state, `p`, `P` -/
abbrev Call := List Pair → St → Nat → List Nat → Ret

def dedup {α : Type} [BEq α] : List α → List α
  | [] => []
  | x :: l => x :: (dedup l).filter (fun y => !(y == x))

/-- the symbols with arities of the rules of `A` with parent `p` (the cluster of `p`) -/
def lhsGroups (A : TA) (p : Nat) : List (Nat × Nat) :=
  dedup ((A.rules.filter (fun r => r.parent == p)).map (fun r => (r.sym, r.kids.length)))

def lhsTuples (A : TA) (p f n : Nat) : List (List Nat) :=
  dedup ((A.rules.filter (fun r => r.parent == p && r.sym == f && r.kids.length == n)).map (·.kids))

/-- `rightTuples`: the `f`-tuples of the states of `P` -/
def rhsTuples (B : TA) (P : List Nat) (f n : Nat) : List (List Nat) :=
  dedup ((rulesOf B P f n).map (·.kids))

def treeOf (wit : Wit) (q : Nat) : Tree := (lookupT wit q).getD (.node 0 [])

/-- a loop of the functor: for all elements in turn, stop at the first failure -/
def forAllL {α : Type} (f : α → List Pair → St → Ret) : List α → List Pair → St → Ret
  | [], cc, st => some (.holds, cc, st)
  | a :: as, cc, st =>
    match f a cc st with
    | none => none
    | some (.holds, cc', st') => forAllL f as cc' st'
    | some (.fails w, cc', st') => some (.fails w, cc', st')

/-- phase 1, one rhs tuple: `expand (lhs[i], {rhs[i]})` for all positions, stop at the first failure -/
def allPos (call : Call) (lhs rhs : List Nat) : List Pair → St → Ret :=
  forAllL (fun lr cc st => call cc st lr.1 [lr.2]) (lhs.zip rhs)

/-- phase 1: is there a positionwise bigger tuple? -/
def anyTuple (call : Call) (lhs : List Nat) : List (List Nat) → List Pair → St → Option (Bool × List Pair × St)
  | [], cc, st => some (false, cc, st)
  | w :: W, cc, st =>
    match allPos call lhs w cc st with
    | none => none
    | some (.holds, cc', st') => some (true, cc', st')
    | some (.fails _, cc', st') => anyTuple call lhs W cc' st'

/-- the `i`-th components of the tuples the choice function `cs` sends to `i` -/
def rawSet (W : List (List Nat)) (cs : List Nat) (i : Nat) : List Nat :=
  (W.zip cs).filterMap (fun wc => if wc.2 = i then wc.1[i]? else none)

/-- `rhsSetForTuplePos` -/
def posSet (post : List Nat → List Nat) (W : List (List Nat)) (cs : List Nat) (i : Nat) : List Nat :=
  post (rawSet W cs i)

/-- `post` of the non-recursive variant: only the maximal states are kept (`Antichain1C`), then sorted -/
def maxElems (o : Ord) : List Nat → List Nat → List Nat
  | [], acc => acc
  | r :: rs, acc =>
    if acc.any (fun s => o.leB r s) then maxElems o rs acc
    else maxElems o rs (acc.filter (fun s => !(o.leB s r)) ++ [r])

def consT (t : Tree) : Option (Option (List Tree) × List Pair × St) → Option (Option (List Tree) × List Pair × St)
  | some (some ts, cc, st) => some (some (t :: ts), cc, st)
  | r => r

/-- the positions `i, i+1, …` (children `ls` of the lhs tuple) of one choice function: `none` when some position
holds, otherwise the trees of the positions -/
def tryPos (call : Call) (wit : Wit) (post : List Nat → List Nat) (W : List (List Nat)) (cs : List Nat) :
    Nat → List Nat → List Pair → St → Option (Option (List Tree) × List Pair × St)
  | _, [], cc, st => some (some [], cc, st)
  | i, l :: ls, cc, st =>
    let S := posSet post W cs i
    if S.isEmpty then consT (treeOf wit l) (tryPos call wit post W cs (i+1) ls cc st)
    else
      match call cc st l S with
      | none => none
      | some (.holds, cc', st') => some (none, cc', st')
      | some (.fails w, cc', st') => consT w (tryPos call wit post W cs (i+1) ls cc' st')

/-- one choice function -/
def oneCf (call : Call) (wit : Wit) (post : List Nat → List Nat) (f : Nat) (lhs : List Nat) (W : List (List Nat))
    (cs : List Nat) (cc : List Pair) (st : St) : Ret :=
  match tryPos call wit post W cs 0 lhs cc st with
  | none => none
  | some (some ts, cc', st') => some (.fails (.node f ts), cc', st')
  | some (none, cc', st') => some (.holds, cc', st')

/-- the loop over the choice functions for `m` more tuples, `cs` = the choices of the later tuples: the last tuple is
the outermost loop, index 0 runs fastest as in `SequentialChoiceFunctionGenerator` -/
def cfAll (one : List Nat → List Pair → St → Ret) (n : Nat) : Nat → List Nat → List Pair → St → Ret
  | 0, cs, cc, st => one cs cc st
  | m+1, cs, cc, st => forAllL (fun i cc st => cfAll one n m (i :: cs) cc st) (List.range n) cc st

/-- one lhs tuple against the rhs tuples `W` (arity > 0, `W` not empty) -/
def procTuple (call1 call2 : Call) (wit : Wit) (post : List Nat → List Nat) (f : Nat) (W : List (List Nat))
    (lhs : List Nat) (cc : List Pair) (st : St) : Ret :=
  match anyTuple call1 lhs W cc st with
  | none => none
  | some (true, cc', st') => some (.holds, cc', st')
  | some (false, cc', st') => cfAll (oneCf call2 wit post f lhs W) lhs.length W.length [] cc' st'

/-- `operator()` of the functor for one symbol/arity -/
def procGroup (call1 call2 : Call) (A B : TA) (wit : Wit) (post : List Nat → List Nat) (p : Nat) (P : List Nat)
    (f n : Nat) (cc : List Pair) (st : St) : Ret :=
  let W := rhsTuples B P f n
  if n = 0 then
    if W.isEmpty then some (.fails (.node f []), cc, st) else some (.holds, cc, st)
  else
    let L := lhsTuples A p f n
    if W.isEmpty then some (.fails (.node f ((L.headD []).map (treeOf wit))), cc, st)
    else forAllL (procTuple call1 call2 wit post f W) L cc st

/-- the body of a call for `(p, P)` (`ForeachDownSymbolFromStateAndStateSetDo`, stopping at the first failure);
`call1` serves phase 1, `call2` the choice functions -/
def body (call1 call2 : Call) (A B : TA) (wit : Wit) (post : List Nat → List Nat) (p : Nat) (P : List Nat)
    (cc : List Pair) (st : St) : Ret :=
  forAllL (fun g => procGroup call1 call2 A B wit post p P g.1 g.2) (lhsGroups A p) cc st

/-- `DownwardInclusionFunctor::expand`; `ws` is the work-set (the pending ancestor calls), one unit of fuel per
nested call -/
def expand (o : Ord) (A B : TA) (wit : Wit) : Nat → List Pair → Call
  | 0, _, _, _, _, _ => none
  | fuel+1, ws, cc, st, p, P =>
    if covers o ws p P then some (.holds, cc, st)
    else
      match niFind o st.nonIncl p P with
      | some x => some (.fails x.2.2, cc, st)
      | none =>
        if covers o cc p P then some (.holds, cc, st)
        else if byPre o p P then some (.holds, cc, st)
        else
          let call := expand o A B wit fuel ((p, P) :: ws)
          match body call call A B wit normS p P [] st with
          | none => none
          | some (.holds, _, st') => some (.holds, ccAdd o cc p P, ⟨st'.nonIncl, addTrue st'.trues (p, P)⟩)
          | some (.fails w, _, st') => some (.fails w, cc, ⟨niAdd o st'.nonIncl p P w, st.trues⟩)

/-- the loop over the final states of `A` in `CheckDownwardTreeInclusion`: the root pairs `(f, F_B)` are not put into
the work-set, the root functor (and its `childrenCache`) is shared -/
def rootLoop (o : Ord) (A B : TA) (wit : Wit) (fuel : Nat) (FB : List Nat) :
    List Nat → List Pair → St → Option (Except Tree St)
  | [], _, st => some (.ok st)
  | f :: fs, cc, st =>
    if byPre o f FB then rootLoop o A B wit fuel FB fs cc st
    else
      let call := expand o A B wit fuel []
      match body call call A B wit normS f FB cc st with
      | none => none
      | some (.holds, cc', st') => rootLoop o A B wit fuel FB fs cc' ⟨st'.nonIncl, addTrue st'.trues (f, FB)⟩
      | some (.fails w, _, _) => some (.error w)

/-- the recursive algorithm proper: `error w` = the code's `return false`, `ok X` = `return true` -/
def run (o : Ord) (A B : TA) (fuel : Nat) : Option (Except Tree (List Pair)) :=
  match rootLoop o A B (prodWit A) fuel (normS B.final) (dedup A.final) [] ⟨[], []⟩ with
  | none => none
  | some (.ok st) => some (.ok st.trues)
  | some (.error w) => some (.error w)

/-! ### the non-recursive variant (`explicit_tree_incl_down.cc`)

The call emulator is modelled by recursion.  Differences to the functor: the tests at `_call` are preorder, work-set,
`nonincluded` (no `childrenCache`; the test `smallerIndex.size() <= r_i` answers `true` for a state without rules, which
the general path does as well: no symbol to process); the calls of phase 1 (`EXPAND_CALL(2)`) leave no trace in the
caches; before a call of the choice-function loop (`EXPAND_CALL(1)`) the `childrenCache` of the frame is consulted and
after it the result is cached (`childrenCache` without a subsumption test, `nonincluded` with one); the set of a
position is reduced to its maximal elements (`post`); the root pairs are calls like all others, each with a fresh
work-set. -/

/-- `EXPAND_CALL(1)` with the cache tests around it: the `childrenCache` of the frame is consulted before the call,
afterwards the result is cached (`childrenCache` without a subsumption test, `nonincluded` with one) -/
def cachedCall (o : Ord) (call : Call) : Call := fun cc st q Q =>
  if covers o cc q Q then some (.holds, cc, st)
  else
    match call cc st q Q with
    | none => none
    | some (.holds, _, st') =>
      some (.holds, cc.filter (fun x => !(o.leA x.1 q && setLe o Q x.2)) ++ [(q, Q)], st')
    | some (.fails w, _, st') => some (.fails w, cc, ⟨niAdd o st'.nonIncl q Q w, st'.trues⟩)

/-- the plain call of the non-recursive variant (`_call` … `EXPAND_POP_RETURN`); the `childrenCache` argument is that of
the calling frame and is passed through -/
def expandN (o : Ord) (A B : TA) (wit : Wit) : Nat → List Pair → Call
  | 0, _, _, _, _, _ => none
  | fuel+1, ws, cc, st, p, P =>
    if byPre o p P then some (.holds, cc, st)
    else if covers o ws p P then some (.holds, cc, st)
    else
      match niFind o st.nonIncl p P with
      | some x => some (.fails x.2.2, cc, st)
      | none =>
        let call1 : Call := expandN o A B wit fuel ((p, P) :: ws)
        match body call1 (cachedCall o call1) A B wit (fun l => normS (maxElems o l [])) p P [] st with
        | none => none
        | some (.holds, _, st') => some (.holds, cc, ⟨st'.nonIncl, addTrue st'.trues (p, P)⟩)
        | some (.fails w, _, st') => some (.fails w, cc, ⟨st'.nonIncl, st.trues⟩)

/-- the loop over the final states of `A` in `ExplicitDownwardInclusion::checkInternal` -/
def rootLoopN (o : Ord) (A B : TA) (wit : Wit) (fuel : Nat) (FB : List Nat) :
    List Nat → St → Option (Except Tree St)
  | [], st => some (.ok st)
  | f :: fs, st =>
    match expandN o A B wit fuel [] [] st f FB with
    | none => none
    | some (.holds, _, st') => rootLoopN o A B wit fuel FB fs st'
    | some (.fails w, _, _) => some (.error w)

def runN (o : Ord) (A B : TA) (fuel : Nat) : Option (Except Tree (List Pair)) :=
  match rootLoopN o A B (prodWit A) fuel (normS B.final) (dedup A.final) ⟨[], []⟩ with
  | none => none
  | some (.ok st) => some (.ok st.trues)
  | some (.error w) => some (.error w)

/-- the states of the operands are disjoint -/
def disjointB (A B : TA) : Bool := A.states.all (fun q => !B.states.contains q)

/-- certify-then-trust: the end of every variant -/
def finish (certOk : List Pair → Bool) (A B : TA) : Option (Except Tree (List Pair)) → Option (Bool × InclUp.Cert)
  | none => none
  | some (.ok X) => if certOk X then some (true, .closed X) else none
  | some (.error w) => if accepts A w && !accepts B w then some (false, .witness w) else none

end InclDown

open InclDown

/-- Boolean check of the hypotheses of `down_cert_incl`: `DownCert A B X` and the root condition -/
def downCertB (A B : TA) (X : List (Nat × List Nat)) : Bool := certB (subX X) A B X

/-- the same modulo a preorder (hypotheses of `down_certR_incl`) -/
def downCertRB (o : Ord) (A B : TA) (X : List (Nat × List Nat)) : Bool := certB (subXR o X) A B X

/-- recursive downward inclusion `L(A) ⊆ L(B)` without simulation, certify-then-trust -/
def inclDownRec (A B : TA) (fuel : Nat) : Option (Bool × InclUp.Cert) :=
  finish (downCertB A B) A B (run idOrd A B fuel)

/-- `OptDownwardInclusionFunctor`: its additional cache `incl_` is never filled (see the header) -/
def inclDownOpt (A B : TA) (fuel : Nat) : Option (Bool × InclUp.Cert) := inclDownRec A B fuel

/-- the non-recursive variant without simulation -/
def inclDownNonrec (A B : TA) (fuel : Nat) : Option (Bool × InclUp.Cert) :=
  finish (downCertB A B) A B (runN idOrd A B fuel)

/-- recursive downward inclusion pruned by the relation `R` on the disjoint union; `R` is validated (a downward
simulation on `unionDisjoint A B`, the operands disjoint), otherwise `none` -/
def inclDownSim (A B : TA) (R : Rel) (fuel : Nat) : Option (Bool × InclUp.Cert) :=
  if isDownSimB (unionDisjoint A B) R && disjointB A B then
    finish (downCertRB (ordOf R A B) A B) A B (run (ordOf R A B) A B fuel)
  else none

/-- the non-recursive variant with simulation -/
def inclDownNonrecSim (A B : TA) (R : Rel) (fuel : Nat) : Option (Bool × InclUp.Cert) :=
  if isDownSimB (unionDisjoint A B) R && disjointB A B then
    finish (downCertRB (ordOf R A B) A B) A B (runN (ordOf R A B) A B fuel)
  else none

/-- models of `CheckInclusion` with `ANTICHAINS_DOWN_REC_NOSIM` / `…_NONREC_NOSIM`: `SanitizeAutsForInclusion` first
removes the useless states of both operands (and renumbers the states, which the models do not need) -/
def checkInclDownRec (A B : TA) (fuel : Nat) : Option (Bool × InclUp.Cert) :=
  inclDownRec (removeUseless A) (removeUseless B) fuel

def checkInclDownNonrec (A B : TA) (fuel : Nat) : Option (Bool × InclUp.Cert) :=
  inclDownNonrec (removeUseless A) (removeUseless B) fuel

end Vata
