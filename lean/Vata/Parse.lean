import Vata.Ref
import Vata.NfaEmbed
/-! # Text formats of the line protocol (see `harness/vharness.cc`) -/
namespace Vata

def splitC (s : String) (c : Char) : List String :=
  if s.isEmpty then [] else s.splitOn (String.singleton c)

def natList? (s : String) (c : Char) : Option (List Nat) :=
  (splitC s c).mapM (fun x => x.toNat?)

/-- rule = `sym:k1,k2>parent` -/
def parseRule? (s : String) : Option Rule :=
  match s.splitOn ":" with
  | [sy, rest] =>
    match rest.splitOn ">" with
    | [ks, p] => do
      let sym ← sy.toNat?
      let kids ← natList? ks ','
      let parent ← p.toNat?
      pure ⟨sym, kids, parent⟩
    | _ => none
  | _ => none

/-- TA = `rules|finals` -/
def parseTA? (s : String) : Option TA :=
  match s.splitOn "|" with
  | [rs, fs] => do
    let rules ← (splitC rs ';').mapM parseRule?
    let final ← natList? fs ','
    pure ⟨rules, final⟩
  | _ => none

/-- map = `a>b,a>b` or `-` -/
def parseMap? (s : String) : Option (List (Nat × Nat)) :=
  if s == "-" then some [] else
  (splitC s ',').mapM (fun e => match e.splitOn ">" with
    | [a, b] => do pure ((← a.toNat?), (← b.toNat?))
    | _ => none)

/-- pair map = `a.b>c,...` or `-` -/
def parsePairMap? (s : String) : Option (List ((Nat × Nat) × Nat)) :=
  if s == "-" then some [] else
  (splitC s ',').mapM (fun e => match e.splitOn ">" with
    | [ab, c] => match ab.splitOn "." with
      | [a, b] => do pure (((← a.toNat?), (← b.toNat?)), (← c.toNat?))
      | _ => none
    | _ => none)

/-- relation = `a.b,a.b` or `-` -/
def parseRel? (s : String) : Option Rel :=
  if s == "-" then some [] else
  (splitC s ',').mapM (fun e => match e.splitOn "." with
    | [a, b] => do pure ((← a.toNat?), (← b.toNat?))
    | _ => none)

/-- `key=value` tokens of a result line -/
def kv (toks : List String) (key : String) : Option String :=
  toks.findSome? (fun t => if t.startsWith (key ++ "=") then some ((t.drop (key.length + 1)).toString) else none)

/-- NFA = `trans|starts|finals`, trans = `src,sym,dst;...` -/
def parseNfa? (s : String) : Option W.NFA :=
  match s.splitOn "|" with
  | [ts, ss, fs] => do
    let trans ← (splitC ts ';').mapM (fun e => match e.splitOn "," with
      | [a, b, c] => do pure ((← a.toNat?), (← b.toNat?), (← c.toNat?))
      | _ => none)
    let start ← natList? ss ','
    let final ← natList? fs ','
    pure ⟨start, final, trans⟩
  | _ => none

def showNfa (N : W.NFA) : String :=
  ";".intercalate (N.trans.map (fun e => s!"{e.1},{e.2.1},{e.2.2}")) ++ "|" ++
    ",".intercalate (N.start.map toString) ++ "|" ++ ",".intercalate (N.final.map toString)

def showRule (r : Rule) : String :=
  s!"{r.sym}:{",".intercalate (r.kids.map toString)}>{r.parent}"

def showTA (A : TA) : String :=
  ";".intercalate (A.rules.map showRule) ++ "|" ++ ",".intercalate (A.final.map toString)

end Vata
