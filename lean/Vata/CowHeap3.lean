import Vata.CowHeap
/-!
# Copy-on-write automaton handles are values – all three levels of sharing (extension of `Vata/CowHeap.lean`)

`Vata/CowHeap.lean` treats the contents of a cluster node as a value.  In the C++ a `TransitionCluster` is itself a map
symbol ↦ `shared_ptr<TuplePtrSet>` and `uniqueTuplePtrSet(symbol)` clones a tuple set when `!unique()`.  This file models
all three pools of reference-counted nodes

  handle → map node (state ↦ cluster node) → cluster node (symbol ↦ tuple-set node) → tuple-set node (set of tuples)

with the same operations `HOp`, the same value type `Val` and the same value-level specification `specStep` as the
two-level model (tuples themselves are immutable and hash-consed by the tuple cache, so they are values).
-/
namespace Vata.CowHeap3

open Vata.Store (Cluster TupleSet upsert insTuple addToCluster addToMap)
open Vata.CowHeap (upd indeg HOp Val specStep specInit nodupNB)

structure Heap where
  /-- live handles (automaton objects) -/
  hl   : List Nat
  /-- handle ↦ map node (`transitions_`) -/
  hmap : Nat → Nat
  /-- allocated map nodes -/
  ml   : List Nat
  /-- map node ↦ (state ↦ cluster node) -/
  ment : Nat → List (Nat × Nat)
  mrc  : Nat → Nat
  /-- allocated cluster nodes -/
  cl   : List Nat
  /-- cluster node ↦ (symbol ↦ tuple-set node) -/
  cent : Nat → List (Nat × Nat)
  crc  : Nat → Nat
  /-- allocated tuple-set nodes -/
  tl   : List Nat
  /-- tuple-set node ↦ contents -/
  tdat : Nat → TupleSet
  trc  : Nat → Nat
  /-- all identifiers in use are `< next` -/
  next : Nat

def init : Heap :=
  ⟨[], fun _ => 0, [], fun _ => [], fun _ => 0, [], fun _ => [], fun _ => 0, [], fun _ => [], fun _ => 0, 0⟩

/-- pointers held by map node `m` -/
def mout (H : Heap) (m : Nat) : List Nat := (H.ment m).map Prod.snd
/-- pointers held by cluster node `c` -/
def cout (H : Heap) (c : Nat) : List Nat := (H.cent c).map Prod.snd

/-! ### primitive `shared_ptr` / container actions -/

/-- `shared_ptr<Map> tmp(new Map(es))` : copying the entries copies the cluster pointers (each `use_count` + 1) -/
def allocMap (H : Heap) (es : List (Nat × Nat)) : Heap :=
  { H with ml := H.next :: H.ml, ment := upd H.ment H.next es, mrc := upd H.mrc H.next 1,
           crc := fun c => H.crc c + (es.map Prod.snd).count c, next := H.next + 1 }

/-- copy of a `shared_ptr<Map>` into a temporary -/
def incMap (H : Heap) (m : Nat) : Heap := { H with mrc := upd H.mrc m (H.mrc m + 1) }

/-- swap the temporary with `transitions_` of the live handle `h` -/
def retarget (H : Heap) (h m' : Nat) : Heap := { H with hmap := upd H.hmap h m' }

/-- a new automaton object whose `transitions_` takes over the temporary -/
def addHandle (H : Heap) (h m' : Nat) : Heap := { H with hl := h :: H.hl, hmap := upd H.hmap h m' }

/-- the automaton object goes away (its `transitions_` still has to be released) -/
def dropHandle (H : Heap) (h : Nat) : Heap := { H with hl := H.hl.erase h }

/-- `shared_ptr<Cluster> tmp(new Cluster(es))` : copying the entries copies the tuple-set pointers -/
def allocCluster (H : Heap) (es : List (Nat × Nat)) : Heap :=
  { H with cl := H.next :: H.cl, cent := upd H.cent H.next es, crc := upd H.crc H.next 1,
           trc := fun t => H.trc t + (es.map Prod.snd).count t, next := H.next + 1 }

/-- `m.insert(make_pair(q, nullptr)).first->second = tmp` (the old pointer, if any, still has to be released) -/
def setEntry (H : Heap) (m q c' : Nat) : Heap :=
  { H with ment := upd H.ment m (upsert q (fun _ => c') (H.ment m)) }

/-- `m.clear()` (the entries still have to be released) -/
def clearEntries (H : Heap) (m : Nat) : Heap := { H with ment := upd H.ment m [] }

/-- `shared_ptr<TuplePtrSet> tmp(new TuplePtrSet(d))` -/
def allocTs (H : Heap) (d : TupleSet) : Heap :=
  { H with tl := H.next :: H.tl, tdat := upd H.tdat H.next d, trc := upd H.trc H.next 1, next := H.next + 1 }

/-- `c.insert(make_pair(f, nullptr)).first->second = tmp` -/
def setCEntry (H : Heap) (c f t' : Nat) : Heap :=
  { H with cent := upd H.cent c (upsert f (fun _ => t') (H.cent c)) }

/-- modification of a tuple-set node in place -/
def writeTs (H : Heap) (t : Nat) (d : TupleSet) : Heap := { H with tdat := upd H.tdat t d }

/-- `shared_ptr<TuplePtrSet>` released -/
def releaseTs (H : Heap) (t : Nat) : Heap :=
  if H.trc t - 1 = 0 then { H with tl := H.tl.erase t, trc := upd H.trc t 0 }
  else { H with trc := upd H.trc t (H.trc t - 1) }

/-- `shared_ptr<TransitionCluster>` released: `--use_count == 0` ⇒ delete the cluster, which releases its entries -/
def releaseCluster (H : Heap) (c : Nat) : Heap :=
  if H.crc c - 1 = 0 then
    (cout H c).foldl releaseTs { H with cl := H.cl.erase c, crc := upd H.crc c 0 }
  else { H with crc := upd H.crc c (H.crc c - 1) }

/-- `shared_ptr<StateToTransitionClusterMap>` released -/
def releaseMap (H : Heap) (m : Nat) : Heap :=
  if H.mrc m - 1 = 0 then
    (mout H m).foldl releaseCluster { H with ml := H.ml.erase m, mrc := upd H.mrc m 0 }
  else { H with mrc := upd H.mrc m (H.mrc m - 1) }

/-! ### the operations -/

/-- `uniqueClusterMap()` -/
def uniqueMap (H : Heap) (h : Nat) : Heap :=
  let m := H.hmap h
  if H.mrc m = 1 then H else releaseMap (retarget (allocMap H (H.ment m)) h H.next) m

/-- `uniqueCluster(q)` on the map node `m`: returns the new heap and the (now unique) cluster node of `q` -/
def uniqueCluster (H : Heap) (m q : Nat) : Heap × Nat :=
  match (H.ment m).lookup q with
  | none => (setEntry (allocCluster H []) m q H.next, H.next)
  | some c =>
    if H.crc c = 1 then (H, c)
    else (releaseCluster (setEntry (allocCluster H (H.cent c)) m q H.next) c, H.next)

/-- `uniqueTuplePtrSet(f)` on the cluster node `c`, then `insert(t)` -/
def addToClusterUnique (H : Heap) (c f : Nat) (t : List Nat) : Heap :=
  match (H.cent c).lookup f with
  | none => setCEntry (allocTs H (insTuple t [])) c f H.next
  | some ts =>
    if H.trc ts = 1 then writeTs H ts (insTuple t (H.tdat ts))
    else releaseTs (setCEntry (allocTs H (insTuple t (H.tdat ts))) c f H.next) ts

/-- `uniqueCluster(q)->uniqueTuplePtrSet(f)->insert(t)` on the (unique) map of `h` -/
def addUnique (H : Heap) (h q : Nat) (v : Nat × List Nat) : Heap :=
  let p := uniqueCluster H (H.hmap h) q
  addToClusterUnique p.1 p.2 v.1 v.2

/-- operations on dead handles (resp. constructors on live handles) are not C++ programs: modelled as no-ops -/
def step (H : Heap) : HOp → Heap
  | .new h => if h ∈ H.hl then H else addHandle (allocMap H []) h H.next
  | .copy src dst =>
    if src ∈ H.hl ∧ dst ∉ H.hl then addHandle (incMap H (H.hmap src)) dst (H.hmap src) else H
  | .assign src dst =>
    if src ∈ H.hl ∧ dst ∈ H.hl ∧ src ≠ dst then
      releaseMap (retarget (incMap H (H.hmap src)) dst (H.hmap src)) (H.hmap dst)
    else H
  | .add h q v => if h ∈ H.hl then addUnique (uniqueMap H h) h q v else H
  | .clear h =>
    if h ∈ H.hl then
      let m := H.hmap h
      if H.mrc m = 1 then (mout H m).foldl releaseCluster (clearEntries H m)
      else releaseMap (retarget (allocMap H []) h H.next) m
    else H
  | .destroy h => if h ∈ H.hl then releaseMap (dropHandle H h) (H.hmap h) else H

/-! ### abstraction -/

def valC (H : Heap) (c : Nat) : Cluster := (H.cent c).map (fun ft => (ft.1, H.tdat ft.2))
def valM (H : Heap) (m : Nat) : Val := (H.ment m).map (fun kc => (kc.1, valC H kc.2))

/-- handle ⇀ value -/
def abs (H : Heap) : Nat → Option Val := fun h => if h ∈ H.hl then some (valM H (H.hmap h)) else none

/-! ### executable invariant checker -/

def invB (H : Heap) : Bool :=
  nodupNB H.hl && nodupNB H.ml && nodupNB H.cl && nodupNB H.tl &&
  H.hl.all (fun h => H.ml.contains (H.hmap h)) &&
  H.ml.all (fun m => (mout H m).all (fun c => H.cl.contains c)) &&
  H.cl.all (fun c => (cout H c).all (fun t => H.tl.contains t)) &&
  H.ml.all (fun m => H.mrc m == indeg H.hl (fun h => [H.hmap h]) m && decide (m < H.next) && decide (0 < H.mrc m)) &&
  H.cl.all (fun c => H.crc c == indeg H.ml (mout H) c && decide (c < H.next) && decide (0 < H.crc c)) &&
  H.tl.all (fun t => H.trc t == indeg H.cl (cout H) t && decide (t < H.next) && decide (0 < H.trc t))

end Vata.CowHeap3
