import Vata.InclDown
/-!
# The call emulator of the non-recursive downward inclusion AS CODED (property C01)

`src/explicit_tree_incl_down.cc`, function `expand`, is written without recursion: the locals that survive a simulated
call live in `struct ExpandStackFrame`, the register `top` is the current frame, `ExpandCallEmulator` keeps the saved
frames (`push` / `pop`), the macros `EXPAND_CALL(ret)` (`retAddr = ret; goto _call;`), `EXPAND_PUSH`, `EXPAND_RETURN`
(`switch (retAddr)`: 0 → `_end`, 1 → `_stdret`, 2 → `_simret`) and `EXPAND_POP_RETURN` emulate call and return.

This file is a small-step machine with exactly these resume points:

* `Frame` = `ExpandStackFrame` (fields `retAddr p_S P_B a tupleSetIter tupleSetIter2 i W choiceFunction childrenCache`;
  `choiceFunction` is the pair `data_`, `arity_`; `sIter` is never used by the C++; `worksetIter` is the position of the
  pair the frame inserted into `workset`: the calls are nested, so this is the newest element and `workset.remove (top.p_S,
  top.worksetIter)` removes the head);  two ghost fields serve the witnesses / certificates of the recursive model
  (`trees`: the trees of the failed positions of the current choice function, `trues0`: the `trues` at the entry);
* `Machine` = the program counter (`PC`, one constructor per label / loop head of the C++), `top`, the stack of saved
  frames, the antichains `workset` and `nonincluded` (the latter inside `St`, with the ghost `trues`), the registers
  `r_i`, `S`, `retAddr`, `found` (a `Verdict`: `false` carries the ghost tree);
* `stepM` : one transition (a loop test, a `goto`, a macro); `runM` : iteration with a bound on the number of steps
  (`none` = bound exhausted).

Iterators are the remaining suffixes of the lists they run over (`a` : the remaining symbols of the cluster of `p_S`,
`tupleSetIter` : the remaining lhs tuples, `tupleSetIter2` : the remaining tuples of `W`); `++it` is `tail`, `*it` the
head.  The per-frame local computations that contain no call are taken from the recursive model (`lhsGroups`,
`lhsTuples`, `rhsTuples` for the indices `smallerIndex` / `biggerIndex` and the construction of `W`; `posSet` with
`maxElems` / `normS` for the `post` antichain, `covers` / `niFind` / `niAdd` for the `Antichain2Cv2` operations with `lte`
/ `gte`); as in `InclDown.expandN` the test `smallerIndex.size() <= r_i` is the general path (no symbol to process).
`ChoiceFunction::next` is mirrored (`cfNext`).  `push` swaps `W`, `choiceFunction`, `childrenCache` with a recycled frame:
the values `top` then holds are dead (each is cleared / initialised before its next use), the model leaves the old
values (`childrenCache` is cleared at once as in the C++).

The machine takes the function `pop` that restores `top` from the saved frame as a parameter: `popAll` is the C++
(`ExpandCallEmulator::pop` restores every field); `popNoA` "forgets" to restore `a` (used for the regression example).
-/
namespace Vata
namespace InclDownStack
open InclDown
open InclUp (normS Wit)

/-- `struct ExpandStackFrame` -/
structure Frame where
  retAddr : Nat
  p_S : Nat
  P_B : List Nat
  /-- the remaining symbols (with arity) of `smallerIndex[p_S]`, the head is the current one -/
  a : List (Nat × Nat)
  tupleSetIter : List (List Nat)
  tupleSetIter2 : List (List Nat)
  i : Nat
  W : List (List Nat)
  /-- `choiceFunction.data_` -/
  choiceFunction : List Nat
  /-- `choiceFunction.arity_` -/
  cfArity : Nat
  childrenCache : List Pair
  /-- ghost: the trees of the failed positions `0..i-1` of the current choice function, newest first -/
  trees : List Tree
  /-- ghost: `trues` at the entry of the call -/
  trues0 : List Pair

def Frame.init : Frame := ⟨0, 0, [], [], [], [], 0, [], [], 0, [], [], []⟩

/-- the labels and loop heads of `expand` -/
inductive PC where
  /-- `_call:` -/
  | call
  /-- `EXPAND_RETURN` : `switch (retAddr)` -/
  | ret
  /-- head of `for (top.a = 0; top.a < smallerIndex[top.p_S].size(); ++top.a)` -/
  | forA
  /-- head of `for (top.tupleSetIter = smallerTupleSet->begin(); …)` -/
  | forTuple
  /-- head of `for (top.tupleSetIter2 = top.W.begin(); …)` -/
  | forTuple2
  /-- head of `for (top.i = 0; top.i < (**top.tupleSetIter).size(); ++top.i)` (phase 1) -/
  | forSimI
  /-- `_simret:` -/
  | simret
  /-- `if (found) goto _nexttuple;` after the loop over the positions, then `++top.tupleSetIter2` -/
  | afterSim
  /-- `top.choiceFunction.init(top.W.size(), (**top.tupleSetIter).size());` -/
  | choiceInit
  /-- head of the body of `do { … } while (top.choiceFunction.next())` -/
  | doChoice
  /-- head of `for (top.i = 0; top.i < top.choiceFunction.arity(); ++top.i)` -/
  | forCfI
  /-- `_stdret:` -/
  | stdret
  /-- `_nextchoice:` -/
  | nextchoice
  /-- `_nexttuple:` -/
  | nexttuple
  /-- `EXPAND_POP_RETURN` -/
  | popReturn
  /-- `_end:` -/
  | «end»
deriving DecidableEq, Repr

structure Machine where
  pc : PC
  top : Frame
  /-- `callEmulator` : the saved frames, newest first -/
  stack : List Frame
  workset : List Pair
  /-- `nonincluded` (with the ghost witnesses) and the ghost `trues` -/
  st : St
  r_i : Nat
  S : List Nat
  retAddr : Nat
  found : Verdict

/-- `ChoiceFunction::next`:
```
size_t index = 0;
while (++data_[index] == arity_) { data_[index] = 0; ++index; if (data_.size() == index) return false; }
return true;
```
the list is `data_[index..]`; returns the flag and the new `data_` -/
def cfNext (arity : Nat) : List Nat → Bool × List Nat
  | [] => (false, [])
  | d :: ds =>
    if d + 1 = arity then
      let r := cfNext arity ds
      (r.1, 0 :: r.2)
    else (true, (d + 1) :: ds)

/-- `ExpandCallEmulator::pop` : every field of `top` is restored from the saved frame -/
def popAll (saved _top : Frame) : Frame := saved

/-- a wrong `pop` that does not restore `top.a` -/
def popNoA (saved top : Frame) : Frame := { saved with a := top.a }

/-- the witness tree for a failed choice function / an empty `W` -/
def curSym (top : Frame) : Nat := (top.a.headD (0, 0)).1

section
variable (o : Ord) (A B : TA) (wit : Wit) (pop : Frame → Frame → Frame)

/-- one transition of `expand` -/
def stepM : Machine → Machine ⊕ (Verdict × St)
  /- `_call:`
     `if (checkIntersection(ind.at(r_i), *S)) { found = true; EXPAND_RETURN }`
     `if (workset.contains(ind.at(r_i), S, lte)) { found = true; EXPAND_RETURN }`
     `if (nonincluded.contains(inv.at(r_i), S, gte)) { found = false; EXPAND_RETURN }`
     `EXPAND_PUSH` (`callEmulator.push(top); top.p_S = r_i; top.P_B = S; top.retAddr = retAddr;
     top.worksetIter = workset.insert(r_i, S);`), `top.childrenCache.clear();`, `top.a = 0` -/
  | ⟨.call, top, K, ws, st, r_i, S, retAddr, found⟩ =>
    if byPre o r_i S then .inl ⟨.ret, top, K, ws, st, r_i, S, retAddr, .holds⟩
    else if covers o ws r_i S then .inl ⟨.ret, top, K, ws, st, r_i, S, retAddr, .holds⟩
    else
      match niFind o st.nonIncl r_i S with
      | some x => .inl ⟨.ret, top, K, ws, st, r_i, S, retAddr, .fails x.2.2⟩
      | none =>
        .inl ⟨.forA, { top with p_S := r_i, P_B := S, retAddr := retAddr, childrenCache := [],
                                 a := lhsGroups A r_i, trues0 := st.trues },
              top :: K, (r_i, S) :: ws, st, r_i, S, retAddr, found⟩
  /- `EXPAND_RETURN`: `switch (retAddr) { case 0: goto _end; case 1: goto _stdret; case 2: goto _simret; }` -/
  | ⟨.ret, top, K, ws, st, r_i, S, retAddr, found⟩ =>
    match retAddr with
    | 1 => .inl ⟨.stdret, top, K, ws, st, r_i, S, retAddr, found⟩
    | 2 => .inl ⟨.simret, top, K, ws, st, r_i, S, retAddr, found⟩
    | _ => .inl ⟨.end, top, K, ws, st, r_i, S, retAddr, found⟩
  /- `for (top.a …)`: at the end `found = true; EXPAND_POP_RETURN`; arity 0: some state of `top.P_B` must have a rule
     with the symbol, otherwise `found = false; EXPAND_POP_RETURN`, then `continue`; else `top.W` is filled,
     `if (top.W.empty()) { found = false; EXPAND_POP_RETURN }`, `top.tupleSetIter = smallerTupleSet->begin()` -/
  | ⟨.forA, top, K, ws, st, r_i, S, retAddr, found⟩ =>
    match top.a with
    | [] => .inl ⟨.popReturn, top, K, ws, st, r_i, S, retAddr, .holds⟩
    | (f, n) :: _ =>
      let W := rhsTuples B top.P_B f n
      if n = 0 then
        if W.isEmpty then .inl ⟨.popReturn, top, K, ws, st, r_i, S, retAddr, .fails (.node f [])⟩
        else .inl ⟨.forA, { top with a := top.a.tail }, K, ws, st, r_i, S, retAddr, found⟩
      else
        let L := lhsTuples A top.p_S f n
        if W.isEmpty then
          .inl ⟨.popReturn, { top with W := W }, K, ws, st, r_i, S, retAddr,
                .fails (.node f ((L.headD []).map (treeOf wit)))⟩
        else .inl ⟨.forTuple, { top with W := W, tupleSetIter := L }, K, ws, st, r_i, S, retAddr, found⟩
  /- `top.tupleSetIter != smallerTupleSet->end()`; at the end `++top.a`; else `top.tupleSetIter2 = top.W.begin()` -/
  | ⟨.forTuple, top, K, ws, st, r_i, S, retAddr, found⟩ =>
    match top.tupleSetIter with
    | [] => .inl ⟨.forA, { top with a := top.a.tail }, K, ws, st, r_i, S, retAddr, found⟩
    | _ :: _ => .inl ⟨.forTuple2, { top with tupleSetIter2 := top.W }, K, ws, st, r_i, S, retAddr, found⟩
  /- `top.tupleSetIter2 != top.W.end()`; at the end fall through to the choice functions; else `top.i = 0` -/
  | ⟨.forTuple2, top, K, ws, st, r_i, S, retAddr, found⟩ =>
    match top.tupleSetIter2 with
    | [] => .inl ⟨.choiceInit, top, K, ws, st, r_i, S, retAddr, found⟩
    | _ :: _ => .inl ⟨.forSimI, { top with i := 0 }, K, ws, st, r_i, S, retAddr, found⟩
  /- `top.i < (**top.tupleSetIter).size()` (`assert` : the two tuples have the same size):
     `r_i = (**top.tupleSetIter)[top.i]; S = biggerTypeCache.lookup({ (**top.tupleSetIter2)[top.i] }); EXPAND_CALL(2)` -/
  | ⟨.forSimI, top, K, ws, st, r_i, S, retAddr, found⟩ =>
    match ((top.tupleSetIter.headD []).zip (top.tupleSetIter2.headD []))[top.i]? with
    | some (l, r) => .inl ⟨.call, top, K, ws, st, l, [r], 2, found⟩
    | none => .inl ⟨.afterSim, top, K, ws, st, r_i, S, retAddr, found⟩
  /- `_simret: if (!found) break;` then `++top.i` -/
  | ⟨.simret, top, K, ws, st, r_i, S, retAddr, found⟩ =>
    match found with
    | .holds => .inl ⟨.forSimI, { top with i := top.i + 1 }, K, ws, st, r_i, S, retAddr, found⟩
    | .fails _ => .inl ⟨.afterSim, top, K, ws, st, r_i, S, retAddr, found⟩
  /- `if (found) goto _nexttuple;` then `++top.tupleSetIter2` -/
  | ⟨.afterSim, top, K, ws, st, r_i, S, retAddr, found⟩ =>
    match found with
    | .holds => .inl ⟨.nexttuple, top, K, ws, st, r_i, S, retAddr, found⟩
    | .fails _ =>
      .inl ⟨.forTuple2, { top with tupleSetIter2 := top.tupleSetIter2.tail }, K, ws, st, r_i, S, retAddr, found⟩
  /- `top.choiceFunction.init(top.W.size(), (**top.tupleSetIter).size());` -/
  | ⟨.choiceInit, top, K, ws, st, r_i, S, retAddr, found⟩ =>
    .inl ⟨.doChoice, { top with choiceFunction := List.replicate top.W.length 0,
                                 cfArity := (top.tupleSetIter.headD []).length },
          K, ws, st, r_i, S, retAddr, found⟩
  /- `do {  found = false;  top.i = 0` (ghost: no failed position yet) -/
  | ⟨.doChoice, top, K, ws, st, r_i, S, retAddr, _⟩ =>
    .inl ⟨.forCfI, { top with i := 0, trees := [] }, K, ws, st, r_i, S, retAddr, .fails (.node 0 [])⟩
  /- `top.i < top.choiceFunction.arity()`: `post` is computed; `if (post.data().empty()) continue;`
     `r_i = (**top.tupleSetIter)[top.i]; S = biggerTypeCache.lookup(tmp);`
     `if (top.childrenCache.contains(ind.at(r_i), S, lte)) goto _nextchoice;  EXPAND_CALL(1)`;
     after the loop `EXPAND_POP_RETURN` (with the `found` as it is; ghost: a failure gets its tree) -/
  | ⟨.forCfI, top, K, ws, st, r_i, S, retAddr, found⟩ =>
    if top.i < top.cfArity then
      let l := ((top.tupleSetIter.headD [])[top.i]?).getD 0
      let Q := posSet (fun l => normS (maxElems o l [])) top.W top.choiceFunction top.i
      if Q.isEmpty then
        .inl ⟨.forCfI, { top with i := top.i + 1, trees := treeOf wit l :: top.trees }, K, ws, st, r_i, S, retAddr, found⟩
      else if covers o top.childrenCache l Q then .inl ⟨.nextchoice, top, K, ws, st, l, Q, retAddr, found⟩
      else .inl ⟨.call, top, K, ws, st, l, Q, 1, found⟩
    else
      match found with
      | .holds => .inl ⟨.popReturn, top, K, ws, st, r_i, S, retAddr, .holds⟩
      | .fails _ => .inl ⟨.popReturn, top, K, ws, st, r_i, S, retAddr, .fails (.node (curSym top) top.trees.reverse)⟩
  /- `_stdret: if (found) { top.childrenCache.refine(inv.at(r_i), S, gte); top.childrenCache.insert(r_i, S);
     goto _nextchoice; }`
     `if (!nonincluded.contains(inv.at(r_i), S, gte)) { nonincluded.refine(ind.at(r_i), S, lte);
     nonincluded.insert(r_i, S); }` then `++top.i` -/
  | ⟨.stdret, top, K, ws, st, r_i, S, retAddr, found⟩ =>
    match found with
    | .holds =>
      .inl ⟨.nextchoice,
            { top with childrenCache :=
                top.childrenCache.filter (fun x => !(o.leA x.1 r_i && setLe o S x.2)) ++ [(r_i, S)] },
            K, ws, st, r_i, S, retAddr, found⟩
    | .fails w =>
      .inl ⟨.forCfI, { top with i := top.i + 1, trees := w :: top.trees }, K, ws,
            ⟨niAdd o st.nonIncl r_i S w, st.trues⟩, r_i, S, retAddr, found⟩
  /- `_nextchoice:; } while (top.choiceFunction.next());` then `_nexttuple` -/
  | ⟨.nextchoice, top, K, ws, st, r_i, S, retAddr, found⟩ =>
    let r := cfNext top.cfArity top.choiceFunction
    if r.1 then .inl ⟨.doChoice, { top with choiceFunction := r.2 }, K, ws, st, r_i, S, retAddr, found⟩
    else .inl ⟨.nexttuple, { top with choiceFunction := r.2 }, K, ws, st, r_i, S, retAddr, found⟩
  /- `_nexttuple:` … `++top.tupleSetIter` -/
  | ⟨.nexttuple, top, K, ws, st, r_i, S, retAddr, found⟩ =>
    .inl ⟨.forTuple, { top with tupleSetIter := top.tupleSetIter.tail }, K, ws, st, r_i, S, retAddr, found⟩
  /- `EXPAND_POP_RETURN`: `workset.remove(top.p_S, top.worksetIter); retAddr = top.retAddr; S = top.P_B;
     r_i = top.p_S; callEmulator.pop(top); EXPAND_RETURN`
     (ghost: a pair concluded `true` is recorded, on a failure the pairs concluded inside are dropped) -/
  | ⟨.popReturn, top, K, ws, st, _, _, _, found⟩ =>
    match K with
    | [] => .inr (found, st)   -- `ptr_ == nullptr`: not reachable, the first `_call` pushes the initial `top`
    | saved :: K' =>
      let trues := match found with
        | .holds => addTrue st.trues (top.p_S, top.P_B)
        | .fails _ => top.trues0
      .inl ⟨.ret, pop saved top, K', ws.tail, ⟨st.nonIncl, trues⟩, top.p_S, top.P_B, top.retAddr, found⟩
  /- `_end: assert(callEmulator.empty()); return found;` -/
  | ⟨.end, _, _, _, st, _, _, _, found⟩ => .inr (found, st)

/-- at most `n` transitions -/
def runM : Nat → Machine → Option (Verdict × St)
  | 0, _ => none
  | n+1, m =>
    match stepM o A B wit pop m with
    | .inl m' => runM n m'
    | .inr r => some r

/-- the state at the entry of `expand (…, nonincluded, p_S, P_B, …)`:
`Antichain2C workset; ExpandStackFrame top; ExpandCallEmulator callEmulator; SmallerType r_i = p_S; BiggerType S = P_B;
size_t retAddr = 0; bool found = false;` -/
def initM (st : St) (p : Nat) (P : List Nat) : Machine :=
  ⟨.call, Frame.init, [], [], st, p, P, 0, .fails (.node 0 [])⟩

/-- `expand` as coded; `steps` bounds the number of transitions -/
def expandStack (steps : Nat) (st : St) (p : Nat) (P : List Nat) : Option (Verdict × St) :=
  runM o A B wit pop steps (initM st p P)

/-- the loop over the final states of `A` in `ExplicitDownwardInclusion::checkInternal` (as `rootLoopN`) -/
def rootLoopS (steps : Nat) (FB : List Nat) : List Nat → St → Option (Except Tree St)
  | [], st => some (.ok st)
  | f :: fs, st =>
    match expandStack o A B wit pop steps st f FB with
    | none => none
    | some (.holds, st') => rootLoopS steps FB fs st'
    | some (.fails w, _) => some (.error w)

end

/-- `checkInternal` with the stack machine (as `runN`) -/
def runS (o : Ord) (A B : TA) (pop : Frame → Frame → Frame) (steps : Nat) : Option (Except Tree (List Pair)) :=
  match rootLoopS o A B (InclUp.prodWit A) pop steps (normS B.final) (dedup A.final) ⟨[], []⟩ with
  | none => none
  | some (.ok st) => some (.ok st.trues)
  | some (.error w) => some (.error w)

end InclDownStack

open InclDown InclDownStack

/-- the non-recursive variant without simulation, with the call emulator as coded; `steps` bounds the number of
transitions of one call of `expand` from `checkInternal`; certify-then-trust as `inclDownNonrec` -/
def inclDownNonrecStack (A B : TA) (steps : Nat) : Option (Bool × InclUp.Cert) :=
  finish (downCertB A B) A B (runS idOrd A B popAll steps)

/-- the same machine with a `pop` that does not restore `top.a`, without the final check (the raw verdict) -/
def rawVerdictStack (pop : Frame → Frame → Frame) (A B : TA) (steps : Nat) : Option Bool :=
  match runS idOrd A B pop steps with
  | none => none
  | some (.ok _) => some true
  | some (.error _) => some false

end Vata
