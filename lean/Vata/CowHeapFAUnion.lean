import Vata.CowHeapFA
import Vata.NfaLoadDump
/-!
# `Union` of explicit FINITE automata in the heap model, as one block (property C11 / C10) – definitions

C++ (`src/explicit_finite_union.cc`, the function `Union`):

```
ExplicitFiniteAutCore res;
lhs.ReindexStates(res, stateTransLhs);
rhs.ReindexStates(res, stateTransRhs);
return res;
```

`Vata/CowHeapFA.lean` has the operation list `unionOps a b dst fA fB = [.new dst, .reindex a dst fA, .reindex b dst fB]`.
Here: the value the block leaves in `dst` (`vUnion`), the maps the coded translators report (`unionMaps`, from
`nfaUnionCodedOrd` of `Vata/NfaLoadDump.lean`: two weak translators sharing ONE counter, asked in the order `ReindexStates`
visits the states), and histories made of single operations and `Union` blocks (`Blk`).
-/
namespace Vata.CowHeapFA

/-- what `Union` leaves in `res`: `ExplicitFiniteAutCore res; lhs.ReindexStates(res, fA); rhs.ReindexStates(res, fB);` -/
def vUnion (fA fB : Nat → Nat) (A B : FAVal) : FAVal := vReindex fB B (vReindex fA A vNew)

/-- the two translation maps `Union (lhs, rhs, pTranslMapLhs, pTranslMapRhs)` fills, for operands with the values `A`, `B`:
    the states are handed to the translators in the order `ReindexStates` visits them in the containers of the VALUE
    (`finalStates_`, `startStates_`, then per transition source and target in the iteration order of `transitions_`) -/
def unionMaps (A B : FAVal) (pL pR : Option SMap) : SMap × SMap :=
  (nfaUnionCodedOrd (nfaVisitOrder A.toNFAS) (nfaVisitOrder B.toNFAS) A.toNFAS B.toNFAS (pL.getD []) (pR.getD [])).2

/-- `Union` with the coded translators, as a block of operations of the heap model; `A`, `B` are the values of the operands
    (the translators read them) -/
def unionOpsCoded (a b dst : Nat) (A B : FAVal) (pL pR : Option SMap) : List Op :=
  unionOps a b dst (applyMap (unionMaps A B pL pR).1) (applyMap (unionMaps A B pL pR).2)

/-- a step of a history: one operation of the class, or one call of `Union` -/
inductive Blk where
  | op (o : Op)
  /-- `dst` := `Union(a, b)` with the translators `fA`, `fB` -/
  | union (a b dst : Nat) (fA fB : Nat → Nat)

/-- the operations a block stands for -/
def Blk.ops : Blk → List Op
  | .op o => [o]
  | .union a b dst fA fB => unionOps a b dst fA fB

/-- the operation list of a block history -/
def blkOps (bs : List Blk) : List Op := bs.flatMap Blk.ops

/-- the final heap of a block history -/
def execB (bs : List Blk) : HeapFA := exec (blkOps bs)

end Vata.CowHeapFA
