import Vata.Lang
import Vata.UpCert
import Vata.DownCert
import Vata.Proofs.InclUp
import Vata.Proofs.InclUpTotal
import Vata.Proofs.InclUpBdd
import Vata.Proofs.Sanitize
import Vata.Proofs.SimModel
import Vata.Proofs.InclDown
import Vata.Proofs.InclDownInv
import Vata.Proofs.InclDownTotal
import Vata.Proofs.InclUpSim
import Vata.Properties.Dispatch
import Vata.Properties.C07_BddSim
import Vata.Properties.C01
/-!
# C07 – Inclusion on BDD-encoded (semi-symbolic) tree automata is exact

> For any two tree automata loaded into the top-down or the bottom-up BDD encoding, each implemented inclusion algorithm
> (top-down: downward recursive with or without the implication cache, with or without simulation; bottom-up: upward,
> and downward with simulation) returns true exactly when the language of the first is contained in the language of the
> second.  The verdict equals the one obtained for the same two automata in the explicit encoding; unimplemented
> selections are reported by an exception, never by a wrong verdict.

## How the statement is read into the model

* **Specification (L0).**  A BDD-encoded automaton denotes an ordinary tree automaton (its rules are the paths of the
  transition MTBDDs); the language of the loaded automaton is `accepts A` of the `TA` it was loaded from, and the
  specification of every inclusion call is `Incl A B` (`Vata/Lang.lean`), the same as for C01.
* **Reference.**  `inclM A B fuel` on the automata the BDD objects were loaded from.  The verdict of every implemented
  BDD selection is compared with it; so is (C01) the verdict of every explicit selection, which gives "the verdict
  equals the one obtained in the explicit encoding".
* **Models of the code – on the ABSTRACT automaton.**  The BDD encoding itself is read as the identity on `TA`: the
  MTBDD `GetMtbdd(tuple)` is the function `symbol ↦ {parent | symbol(tuple) → parent}`.  That this reading is right is C08:
  the transition tables of BOTH encodings denote exactly the rules that were added, and `GetTopDownAut` keeps the abstract
  automaton up to rules whose parent is unreachable top-down (`C08_load_dump`, `C08_getTopDownAut` in
  `Vata/Properties/C08_Tables.lean`).  On this reading
  - `inclUpBdd A B fuel` (`Vata/InclUpBdd.lean`) mirrors `CheckUpwardTreeInclusion` with `UpwardInclusionFunctor` and
    `ForeachUpSymbolFromTupleAndTupleSetDo` (bottom-up encoding, `ANTICHAINS_UP_NOSIM`): antichain and work-set of pairs
    `(q, S)`, and for every tuple of the transition table that contains the processed state **one macro-state chosen per
    child position** (the repaired code); `checkInclUpBdd` = `CheckInclusion` (operands sanitised first);
    `inclUpBddOld` is the code BEFORE the repair (one call per tuple with the UNION of the macro-states known for a child –
    defect D9), kept to show that the repair was needed (`C07_old_code_wrong`);
  - the top-down encoding uses the SAME templates `CheckDownwardTreeInclusion` / `DownwardInclusionFunctor` /
    `OptDownwardInclusionFunctor` as the explicit encoding, so the models are those of C01 (`Vata/InclDown.lean`):
    `checkInclDownRec` (`DOWN_REC_NOSIM`), `inclDownOpt` on the sanitised operands (`DOWN_REC_OPT_NOSIM`, the same function by
    definition), `inclDownSim A B R` (`DOWN_REC_SIM`, `DOWN_REC_OPT_SIM`: the caller's relation, validated by the model);
  - the bottom-up selection "upward with simulation" (`ANTICHAINS_UP_SIM`) calls the same `CheckUpwardTreeInclusion`, which
    does not use its relation parameter: the models `inclUpBddSim` / `checkInclUpBddSim` (`Vata/InclUpSim.lean`) are
    `inclUpBdd` on the operands as passed / as prepared by the command line;
  - the bottom-up selection "downward with simulation" (`BDDBUTreeAutCore::CheckInclusion`, case `ANTICHAINS_DOWN_REC_SIM`)
    sanitises both operands, computes the downward simulation on their disjoint union itself, converts to top-down form
    and calls the top-down `DOWN_REC_SIM`: the model is `inclDownSim A' B' (downSimRef (unionDisjoint A' B'))` on
    `(A', B') = sanitize A B` (`C07_bu_downward_sim_exact`); the conversion `GetTopDownAut` is the identity on the abstract
    automaton.  With the relation as the simulation CODE computes it (`BddSim.bddDownSim`, `Vata/BddSim.lean`, checked against
    `BDDBUTreeAutCore::ComputeDownwardSimulation` by the `bddsim` cases) the route is the function `buDownSimRoute` of this
    file, exact and total (`C07_bu_downward_sim_chain`; the theorems about the relation are in
    `Vata/Properties/C07_BddSim.lean`).
  All models end certify-then-trust; `none` = fuel exhausted, never a verdict.  `C07Sel` (end of the file) lists the seven
  selections with their models; `C07_every_selection_exact` is the property as one theorem.
* **Dispatch.**  `Vata.Gen.tdDispatch`, `Vata.Gen.buDispatch` are the two `switch (params.GetOptions())`, regenerated from
  the C++ sources on every run (`Vata/Properties/Dispatch.lean`).
-/
namespace Vata.Props
open Vata Vata.InclUp

/-- every verdict of the reference the BDD verdicts are compared with is exact -/
theorem C07_reference_exact (A B : TA) (fuel : Nat) (b : Bool) (h : inclM A B fuel = some b) :
    b = true ↔ Incl A B := inclM_iff A B fuel b h

-- the shape of defect D9: `g(a,b)` is accepted by `exG` only, the children are reached by different trees
example : inclM InclUpEx.exG InclUpEx.exH 10 = some false ∧ inclM InclUpEx.exH InclUpEx.exG 10 = some true := by decide

/-- "the verdict equals the one obtained in the explicit encoding": a verdict that agrees with the reference agrees
with every verdict of the model of the explicit upward selection, for all fuels.  Partial: the BDD verdict `b'` enters
only through the hypothesis that it is a verdict of the reference -/
theorem C07_agrees_with_explicit_partial (A B : TA) (fuel fuel' : Nat) (b b' : Bool) (c : Cert)
    (h : checkInclUp A B fuel = some (b, c)) (h' : inclM A B fuel' = some b') : b = b' := by
  have h1 := checkInclUp_iff h
  have h2 := inclM_iff A B fuel' b' h'
  cases b <;> cases b' <;> simp_all

example : (checkInclUp InclUpEx.exG InclUpEx.exH 10).map (·.1) = some false ∧
    inclM InclUpEx.exG InclUpEx.exH 10 = some false := ⟨rfl, by decide⟩

/-- the encoding-independent principles of the upward (bottom-up encoding) and downward (both encodings) algorithms:
a set of pairs closed under the post-image with one chosen macro-state per child and without bad pair, resp. closed
under choice-function expansion and covering the final states, proves inclusion.  Partial: only the principles; that the
explorations produce such sets is `C07_bu_upward_exploration_certified` (bottom-up, upward) and
`C01_downward_exploration_certified` (the downward templates shared with the explicit encoding) -/
theorem C07_certificates_partial (A B : TA) (X : List (Nat × List Nat)) :
    (UpCert A B X → (∀ q S, (q, S) ∈ X → q ∈ A.final → ∃ s, s ∈ S ∧ s ∈ B.final) → Incl A B) ∧
    (DownCert A B X → (∀ f, f ∈ A.final → Sub X f B.final) → Incl A B) :=
  ⟨fun hX hok => up_cert_incl A B X hX hok, fun hX hroot => down_cert_incl A B X hX hroot⟩

example : UpCert InclUpEx.exH InclUpEx.exG [(3, [1]), (4, [1]), (9, [2])] ∧
    ∀ q S, (q, S) ∈ [(3, [1]), (4, [1]), (9, [2])] → q ∈ InclUpEx.exH.final → ∃ s, s ∈ S ∧ s ∈ InclUpEx.exG.final :=
  upCertB_sound (by decide)
-- no certificate exists for the false inclusion `exG ⊆ exH`: the merged "antichain" of defect D9 is refused (`{3,4}` is
-- not below the post-image `{3}` of the leaf rule `a`), and so is the true one (the mixed choice `({3},{4})` for `g`
-- has an empty post-image)
example : upCertB InclUpEx.exG InclUpEx.exH [(1, [3, 4]), (2, [9])] = false ∧
    upCertB InclUpEx.exG InclUpEx.exH [(1, [3]), (1, [4]), (2, [9])] = false := by decide

/-! ### bottom-up encoding, upward algorithm: the model of the (repaired) code -/

/-- every verdict of the model of `CheckUpwardTreeInclusion` on the bottom-up encoding is exact – of the exploration on
operands prepared by the caller (`inclUpBdd`) and of `CheckInclusion` with `ANTICHAINS_UP_NOSIM`, which sanitises first
(`checkInclUpBdd`) -/
theorem C07_bu_upward_model_exact (A B : TA) (fuel : Nat) (b : Bool) (c : Cert) :
    (inclUpBdd A B fuel = some (b, c) → (b = true ↔ Incl A B)) ∧
    (checkInclUpBdd A B fuel = some (b, c) → (b = true ↔ Incl A B)) :=
  ⟨fun h => inclUpBdd_iff h, fun h => checkInclUpBdd_iff h⟩

-- the shape of defect D9 (`g(a,b)`, children reached by different trees): the repaired model answers `false`, the converse
-- `true`
example : (inclUpBdd InclUpBddEx.cexA InclUpBddEx.cexB 10).map (·.1) = some false ∧
    (inclUpBdd InclUpBddEx.cexB InclUpBddEx.cexA 10).map (·.1) = some true ∧
    (checkInclUpBdd InclUpBddEx.cexA InclUpBddEx.cexB 10).map (·.1) = some false := ⟨rfl, rfl, rfl⟩

/-- what a verdict carries: `true` comes with an antichain that is an upward certificate without bad pair, `false` with
a tree accepted by `A` and rejected by `B` -/
theorem C07_bu_upward_verdict_certified (A B : TA) (fuel : Nat) (b : Bool) (c : Cert)
    (h : inclUpBdd A B fuel = some (b, c)) :
    match c with
    | .closed X => b = true ∧ UpCert A B X ∧ NoBad A B X
    | .witness w => b = false ∧ accepts A w = true ∧ accepts B w = false := inclUpBdd_cert h

example : inclUpBdd InclUpBddEx.cexB InclUpBddEx.cexA 10 = some (true, .closed [(3, [1]), (4, [1]), (9, [2])]) := rfl

/-- the exploration proper (no final check involved): the antichain of a `return true` passes the certificate check,
the tree of a `return false` separates the languages; hence the model answers `none` only when the fuel is exhausted -/
theorem C07_bu_upward_exploration_certified (A B : TA) (fuel : Nat) :
    (∀ P, InclUpBdd.run A B fuel = some (.ok P) → upCertB A B (InclUpBdd.pairs P) = true) ∧
    (∀ e, InclUpBdd.run A B fuel = some (.error e) → accepts A e.2 = true ∧ accepts B e.2 = false) ∧
    (inclUpBdd A B fuel = none ↔ InclUpBdd.run A B fuel = none) :=
  ⟨fun _ h => InclUpBdd.run_ok_cert h, fun _ h => InclUpBdd.run_error_ok h, InclUpBdd.inclUpBdd_eq_none⟩

example : ∃ P, InclUpBdd.run InclUpBddEx.cexB InclUpBddEx.cexA 10 = some (.ok P) := ⟨_, rfl⟩
example : ∃ e, InclUpBdd.run InclUpBddEx.cexA InclUpBddEx.cexB 10 = some (.error e) := ⟨_, rfl⟩

/-- the code BEFORE the repair (the union of all macro-states known for a child, defect D9) is wrong: it answers `true`
on two pairs of automata whose inclusion does not hold -/
theorem C07_old_code_wrong :
    (inclUpBddOld InclUpBddEx.cexA InclUpBddEx.cexB 10 = some true ∧ ¬ Incl InclUpBddEx.cexA InclUpBddEx.cexB) ∧
    (inclUpBddOld InclUpBddEx.cexA2 InclUpBddEx.cexB2 10 = some true ∧ ¬ Incl InclUpBddEx.cexA2 InclUpBddEx.cexB2) :=
  ⟨inclUpBddOld_counterexample, inclUpBddOld_counterexample_union⟩

/-- … and exact only on automata `A` whose rules have at most one child (then no union is ever formed) -/
theorem C07_old_code_partial (A B : TA) (har : ∀ ρ, ρ ∈ A.rules → ρ.kids.length ≤ 1) (fuel : Nat) (b : Bool)
    (h : inclUpBddOld A B fuel = some b) : b = true ↔ Incl A B := inclUpBddOld_partial har h

example : (∀ ρ, ρ ∈ InclUpBddEx.exEven.rules → ρ.kids.length ≤ 1) ∧
    inclUpBddOld InclUpBddEx.exEven InclUpBddEx.exAll 10 = some true ∧
    ¬ ∀ ρ, ρ ∈ InclUpBddEx.cexA.rules → ρ.kids.length ≤ 1 := ⟨by decide, by decide, by decide⟩

/-! ### bottom-up encoding, upward "with simulation": the relation is not used -/

/-- the bottom-up selection `ANTICHAINS_UP_SIM` calls `CheckUpwardTreeInclusion(smaller, bigger, params.GetSimulation())`,
whose third parameter is unnamed and unused (`const Rel& /* preorder */`, `src/tree_incl_up.hh`): the models `inclUpBddSim`
(the library call: the caller's operands, any relation) and `checkInclUpBddSim` (the command line: operands prepared by
`sanitize`, the upward simulation of their union computed and then ignored) run the exploration of `UP_NOSIM`.  The result
does not depend on the relation, and every verdict is exact -/
theorem C07_bu_upward_sim_exact (A B : TA) (R R' : Rel) (fuel : Nat) (b : Bool) (c : Cert) :
    inclUpBddSim A B R fuel = inclUpBddSim A B R' fuel ∧
    (inclUpBddSim A B R fuel = some (b, c) → (b = true ↔ Incl A B)) ∧
    (checkInclUpBddSim A B fuel = some (b, c) → (b = true ↔ Incl A B)) :=
  ⟨rfl, fun h => inclUpBddSim_iff h, fun h => checkInclUpBddSim_iff h⟩

example : (inclUpBddSim InclUpBddEx.cexA InclUpBddEx.cexB [(1, 9)] 10).map (·.1) = some false ∧
    (inclUpBddSim InclUpBddEx.cexB InclUpBddEx.cexA [] 10).map (·.1) = some true ∧
    (checkInclUpBddSim InclUpBddEx.cexA InclUpBddEx.cexB 10).map (·.1) = some false := ⟨rfl, rfl, rfl⟩

/-- what pruning by an upward simulation WOULD rest on (used by the explicit encoding, C01): a set of pairs closed under
the post-image up to a reflexive and transitive upward simulation of the disjoint union, with first components in `A` and
no bad pair, proves the inclusion -/
theorem C07_upward_sim_certificates (A B : TA) (S : Nat → Nat → Prop) (hS : IsUpSim (unionDisjoint A B) S)
    (hrefl : ∀ q, S q q) (htr : ∀ a b c, S a b → S b c → S a c) (hdis : ∀ q, q ∈ A.states → q ∉ B.states)
    (X : List (Nat × List Nat)) (hX : InclUpSim.UpCertSim A B S X) (hkeys : InclUpSim.KeysIn A X) (hok : NoBad A B X) :
    Incl A B := InclUpSim.up_cert_sim_incl A B S hS hrefl htr hdis X hX hkeys hok

example : InclUpSim.UpCertSim InclUpSimEx.exP InclUpSimEx.exQ (InclUpSim.LeqP InclUpSimEx.exR) [(2, [12]), (3, [11])] ∧
    InclUpSim.KeysIn InclUpSimEx.exP [(2, [12]), (3, [11])] ∧ NoBad InclUpSimEx.exP InclUpSimEx.exQ [(2, [12]), (3, [11])] :=
  upCertSimB_sound (by decide)

/-! ### top-down encoding: downward recursive, with / without cache, with / without simulation -/

/-- the four selections of `BDDTDTreeAutCore::CheckInclusion` (the same templates as in the explicit encoding): every
verdict of the models is exact; the two `NOSIM` models (`inclDownOpt` is `inclDownRec` by definition) return the right
verdict for every fuel above the bound `|Q_A'|·2^|Q_B'|` of the sanitised operands; so does the `SIM` model when the
given relation passes the validation and the rule children of `A` are productive -/
theorem C07_td_downward_models_exact (A B : TA) (R : Rel) :
    (∀ fuel b c, checkInclDownRec A B fuel = some (b, c) → (b = true ↔ Incl A B)) ∧
    (∀ fuel b c, inclDownOpt (removeUseless A) (removeUseless B) fuel = some (b, c) → (b = true ↔ Incl A B)) ∧
    (∀ fuel b c, inclDownSim A B R fuel = some (b, c) → (b = true ↔ Incl A B)) ∧
    (∀ fuel, InclDown.fuelBoundD (removeUseless A) (removeUseless B) < fuel →
      inclDownOpt (removeUseless A) (removeUseless B) fuel = checkInclDownRec A B fuel ∧
      (Incl A B → ∃ c, checkInclDownRec A B fuel = some (true, c)) ∧
      (¬ Incl A B → ∃ c, checkInclDownRec A B fuel = some (false, c))) ∧
    (InclDown.KidsProductive A → isDownSimB (unionDisjoint A B) R = true → InclDown.disjointB A B = true →
      ∀ fuel, InclDown.fuelBoundD A B < fuel →
        (Incl A B → ∃ c, inclDownSim A B R fuel = some (true, c)) ∧
        (¬ Incl A B → ∃ c, inclDownSim A B R fuel = some (false, c))) :=
  ⟨fun _ _ _ h => checkInclDownRec_iff h,
    fun _ _ _ h => (inclDownOpt_iff h).trans (incl_removeUseless A B),
    fun _ _ _ h => inclDownSim_iff h,
    fun _ hf => ⟨rfl, checkInclDownRec_complete A B hf⟩,
    fun hA hsim hdis _ hf => inclDownSim_complete hA hsim hdis hf⟩

example : (checkInclDownRec InclDownEx.exG InclDownEx.exH 10).map (·.1) = some false ∧
    (inclDownOpt (removeUseless InclDownEx.exUs) (removeUseless InclDownEx.exA) 10).map (·.1) = some true ∧
    inclDownSim InclDownEx.exS1 InclDownEx.exS2 [(5, 6)] 10 = some (true, .closed [(1, [3, 4]), (2, [9])]) :=
  ⟨rfl, rfl, rfl⟩
example : InclDown.KidsProductive InclDownEx.exS1 ∧ isDownSimB (unionDisjoint InclDownEx.exS1 InclDownEx.exS2) [(5, 6)] = true ∧
    InclDown.disjointB InclDownEx.exS1 InclDownEx.exS2 = true ∧ InclDown.fuelBoundD InclDownEx.exS1 InclDownEx.exS2 < 49 :=
  ⟨(trimmed_of_allUsefulB (by decide)).1, by decide, by decide, by decide⟩

/-! ### bottom-up encoding: downward with simulation (via the top-down encoding) -/

/-- the route of the bottom-up case `ANTICHAINS_DOWN_REC_SIM`: sanitise both operands (`A'`, `B'`: trimmed, renumbered,
disjoint), compute the downward simulation on their disjoint union (`R` = the greatest one, `downSimRef`, the relation of
C04), run the recursive downward algorithm pruned by `R`.  No hypothesis is left: the validation of `R` passes and the rule
children of `A'` are productive; every verdict is exact for the ORIGINAL question, and the right verdict is returned for
every fuel above the bound -/
theorem C07_bu_downward_sim_exact (A B A' B' : TA) (R : Rel) (hA' : A' = (sanitize A B).1)
    (hB' : B' = (sanitize A B).2.1) (hR : R = downSimRef (unionDisjoint A' B')) :
    (∀ fuel b c, inclDownSim A' B' R fuel = some (b, c) → (b = true ↔ Incl A B)) ∧
    (∀ fuel, InclDown.fuelBoundD A' B' < fuel →
      (Incl A B → ∃ c, inclDownSim A' B' R fuel = some (true, c)) ∧
      (¬ Incl A B → ∃ c, inclDownSim A' B' R fuel = some (false, c))) := by
  subst hA' hB' hR
  have hK : InclDown.KidsProductive (sanitize A B).1 := (trimmed_of_allUsefulB (sanitize_trimmed A B).1).1
  have hsim := downSimRef_check (unionDisjoint (sanitize A B).1 (sanitize A B).2.1)
  have hdis : InclDown.disjointB (sanitize A B).1 (sanitize A B).2.1 = true :=
    InclDown.disjointB_iff.mpr (sanitize_disjoint A B)
  have hq := checkIncl_sanitized A B
  refine ⟨fun fuel b c h => (inclDownSim_iff h).trans hq, fun fuel hf => ?_⟩
  have h3 := inclDownSim_complete hK hsim hdis hf
  rw [hq] at h3
  exact h3

-- operands that overlap (state 7 in both), the first not trimmed; both verdicts
example : ∃ c, inclDownSim (sanitize SanEx.exA SanEx.exB).1 (sanitize SanEx.exA SanEx.exB).2.1
    (downSimRef (unionDisjoint (sanitize SanEx.exA SanEx.exB).1 (sanitize SanEx.exA SanEx.exB).2.1)) 20 = some (true, c) :=
  ⟨_, rfl⟩
example : ∃ c, inclDownSim (sanitize SanEx.exB SanEx.exA).1 (sanitize SanEx.exB SanEx.exA).2.1
    (downSimRef (unionDisjoint (sanitize SanEx.exB SanEx.exA).1 (sanitize SanEx.exB SanEx.exA).2.1)) 20 = some (false, c) :=
  ⟨_, rfl⟩

/-! ### "the verdict equals the one obtained in the explicit encoding" -/

/-- any verdicts of the models of the BDD selections (bottom-up upward; top-down downward without / with cache / with a
given relation) and of the models of the explicit selections (upward, downward non-recursive, downward recursive) on
the same pair, and any verdict of the reference, are equal – whatever the fuels and whatever `R` -/
theorem C07_bdd_agrees_with_explicit (A B : TA) (R : Rel) (f₀ f₁ f₂ f₃ f₄ f₅ f₆ f₇ : Nat)
    (b₀ b₁ b₂ b₃ b₄ b₅ b₆ b₇ : Bool) (c₁ c₂ c₃ c₄ c₅ c₆ c₇ : Cert)
    (h₀ : inclM A B f₀ = some b₀)
    (h₁ : checkInclUpBdd A B f₁ = some (b₁, c₁))
    (h₂ : checkInclDownRec A B f₂ = some (b₂, c₂))
    (h₃ : inclDownOpt (removeUseless A) (removeUseless B) f₃ = some (b₃, c₃))
    (h₄ : inclDownSim A B R f₄ = some (b₄, c₄))
    (h₅ : checkInclUp A B f₅ = some (b₅, c₅))
    (h₆ : checkInclDownNonrec A B f₆ = some (b₆, c₆))
    (h₇ : inclDownNonrecSim A B R f₇ = some (b₇, c₇)) :
    b₁ = b₀ ∧ b₂ = b₀ ∧ b₃ = b₀ ∧ b₄ = b₀ ∧ b₅ = b₀ ∧ b₆ = b₀ ∧ b₇ = b₀ := by
  have e₀ := inclM_iff A B f₀ b₀ h₀
  have e₁ := checkInclUpBdd_iff h₁
  have e₂ := checkInclDownRec_iff h₂
  have e₃ := (inclDownOpt_iff h₃).trans (incl_removeUseless A B)
  have e₄ := inclDownSim_iff h₄
  have e₅ := checkInclUp_iff h₅
  have e₆ := checkInclDownNonrec_iff h₆
  have e₇ := inclDownNonrecSim_iff h₇
  have key : ∀ b : Bool, (b = true ↔ Incl A B) → b = b₀ := fun b e => by
    cases b <;> cases b₀ <;> simp_all
  exact ⟨key _ e₁, key _ e₂, key _ e₃, key _ e₄, key _ e₅, key _ e₆, key _ e₇⟩

example : inclM InclDownEx.exS1 InclDownEx.exS2 10 = some true ∧
    (checkInclUpBdd InclDownEx.exS1 InclDownEx.exS2 20).map (·.1) = some true ∧
    (checkInclDownRec InclDownEx.exS1 InclDownEx.exS2 10).map (·.1) = some true ∧
    (inclDownOpt (removeUseless InclDownEx.exS1) (removeUseless InclDownEx.exS2) 10).map (·.1) = some true ∧
    (inclDownSim InclDownEx.exS1 InclDownEx.exS2 [(5, 6)] 10).map (·.1) = some true ∧
    (checkInclUp InclDownEx.exS1 InclDownEx.exS2 20).map (·.1) = some true ∧
    (checkInclDownNonrec InclDownEx.exS1 InclDownEx.exS2 10).map (·.1) = some true ∧
    (inclDownNonrecSim InclDownEx.exS1 InclDownEx.exS2 [(5, 6)] 10).map (·.1) = some true :=
  ⟨by decide, rfl, rfl, rfl, rfl, rfl, rfl, rfl⟩

/-! ### "unimplemented selections are reported by an exception" -/

/-- the two dispatchers, as regenerated from the sources: (1) the top-down encoding implements exactly the option words
`DOWN_REC_NOSIM`, `DOWN_REC_OPT_NOSIM`, `DOWN_REC_SIM`, `DOWN_REC_OPT_SIM`, the bottom-up encoding exactly `UP_NOSIM`,
`UP_SIM`, `DOWN_REC_SIM`, no word twice; (2) in both every other of the 2⁷ option words reaches `default`, which throws
`NotImplementedException` – no verdict is fabricated; (3) in every case the callee matches the direction / recursion /
cache bits of its word, and the nested call of the bottom-up "via top-down" case uses a word the top-down dispatcher
implements; (4) a case with the simulation bit passes the given relation and the original operands, a case without it the
identity and the sanitised copies, the "via top-down" case its own computed relation on sanitised copies -/
theorem C07_dispatch (c : Gen.Case) (hc : c ∈ Gen.tdDispatch ∨ c ∈ Gen.buDispatch) :
    (Dispatch.sameWords (Dispatch.words Gen.tdDispatch) [10, 14, 26, 30] = true ∧
      Dispatch.sameWords (Dispatch.words Gen.buDispatch) [0, 16, 26] = true ∧
      (Dispatch.words Gen.tdDispatch).Nodup ∧ (Dispatch.words Gen.buDispatch).Nodup) ∧
    (Gen.tdDispatchDefaultThrows = true ∧ Gen.buDispatchDefaultThrows = true) ∧
    (Dispatch.treeConsistent c = true ∧
      (Dispatch.words Gen.tdDispatch).contains (Dispatch.fDir ||| Dispatch.fRec ||| Dispatch.fSim) = true) ∧
    Dispatch.simConsistent c = true := by
  have ht := Dispatch.tree_consistent
  have hs := Dispatch.sim_consistent
  simp only [List.all_append, Bool.and_eq_true, List.all_eq_true] at ht hs
  refine ⟨⟨Dispatch.implemented_td, Dispatch.implemented_bu, Dispatch.no_duplicate_cases.2.1,
    Dispatch.no_duplicate_cases.2.2.1⟩, ⟨Dispatch.default_throws.2.1, Dispatch.default_throws.2.2.1⟩,
    ⟨?_, Dispatch.via_topdown_target_implemented⟩, ?_⟩
  · rcases hc with hc | hc
    · exact ht.1.2 c hc
    · exact ht.2 c hc
  · rcases hc with hc | hc
    · exact hs.1.1.2 c hc
    · exact hs.1.2 c hc

example : (⟨"ANTICHAINS_UP_NOSIM", 0, "bddUp", "UpwardInclusionFunctor", "-", "true", "identity"⟩ : Gen.Case) ∈
    Gen.buDispatch := by decide
-- the predicates are not trivially true: "via top-down" with the caller's relation, or the upward code for a downward
-- word, would be refused
example : Dispatch.simConsistent ⟨"X", 26, "viaTopDown", "-", "-", "true", "given"⟩ = false ∧
    Dispatch.treeConsistent ⟨"X", 10, "bddUp", "-", "-", "true", "identity"⟩ = false := by decide

/-! ### the bottom-up route "downward + simulation" as one function, with the simulation code as written -/

/-- `BDDBUTreeAutCore::CheckInclusion`, case `ANTICHAINS_DOWN_REC_SIM`, end to end: `SanitizeAutsForInclusion`, the disjoint
union, `ComputeDownwardSimulation(n)` AS CODED (`BddSim.bddDownSim`, `Vata/BddSim.lean`, run with its own iteration bound),
then the recursive downward inclusion pruned by the relation it returned (`fuel` = nesting depth of the calls) -/
def buDownSimRoute (A B : TA) (fuel : Nat) : Option (Bool × Cert) :=
  (BddSim.bddDownSim (unionDisjoint (sanitize A B).1 (sanitize A B).2.1) (sanitize A B).2.2
      (BddSim.fuelBound (unionDisjoint (sanitize A B).1 (sanitize A B).2.1))).bind
    (fun R => inclDownSim (sanitize A B).1 (sanitize A B).2.1 R fuel)

/-- **the chain sanitise → union → `bddDownSim` → pruned inclusion is exact and total.**  Every verdict of the route is the
truth of `L(A) ⊆ L(B)` for the ORIGINAL operands, and for every fuel above the bound `|Q_A'|·2^|Q_B'|` of the prepared operands
the route returns that verdict – the simulation code terminates within its bound, its result passes the validation of the
inclusion model, the rule children of the prepared operand are productive.  No hypothesis on `A`, `B`.
(`C07_bu_downward_sim_exact` is the same with the reference relation `downSimRef` in the place of the code's.) -/
theorem C07_bu_downward_sim_chain (A B : TA) :
    (∀ fuel b c, buDownSimRoute A B fuel = some (b, c) → (b = true ↔ Incl A B)) ∧
    (∀ fuel, InclDown.fuelBoundD (sanitize A B).1 (sanitize A B).2.1 < fuel →
      (Incl A B → ∃ c, buDownSimRoute A B fuel = some (true, c)) ∧
      (¬ Incl A B → ∃ c, buDownSimRoute A B fuel = some (false, c))) := by
  obtain ⟨R, hR, _, hex, htot⟩ := C07_bddsim_bu_downward_sim_exact A B _ _ _ _ rfl rfl rfl rfl
  have e : ∀ fuel, buDownSimRoute A B fuel = inclDownSim (sanitize A B).1 (sanitize A B).2.1 R fuel := by
    intro fuel; unfold buDownSimRoute; rw [hR]; rfl
  exact ⟨fun fuel b c h => hex fuel b c (e fuel ▸ h), fun fuel hf => by rw [e fuel]; exact htot fuel hf⟩

-- operands that overlap (state 7 in both), the first not trimmed: both verdicts
example : (buDownSimRoute SanEx.exA SanEx.exB 20).map (·.1) = some true ∧
    (buDownSimRoute SanEx.exB SanEx.exA 20).map (·.1) = some false := by decide
example : InclDown.fuelBoundD (sanitize SanEx.exA SanEx.exB).1 (sanitize SanEx.exA SanEx.exB).2.1 < 20 := by decide

/-! ### ONE theorem for "each implemented inclusion algorithm" of the two BDD encodings -/

/-- the seven implemented selections: top-down encoding – downward recursive, without / with the implication cache,
without / with a simulation; bottom-up encoding – upward, upward "with simulation", downward with simulation -/
inductive C07Sel where
  | tdRec | tdRecOpt | tdRecSim | tdRecOptSim | buUp | buUpSim | buDownSim
  deriving DecidableEq, Repr

/-- the option word of a selection; the first four are the cases of the top-down, the last three of the bottom-up dispatcher -/
def C07Sel.word : C07Sel → Nat
  | .tdRec => 10 | .tdRecOpt => 14 | .tdRecSim => 26 | .tdRecOptSim => 30 | .buUp => 0 | .buUpSim => 16 | .buDownSim => 26

/-- the model of a selection (on the abstract automaton).  `R` is the relation the CALLER passes with the selections that
take one (`tdRecSim`, `tdRecOptSim`, `buUpSim`: the dispatchers pass relation and operands through, `C07_dispatch` item 4);
`buDownSim` computes its own relation and ignores `R` -/
def C07Sel.model (s : C07Sel) (R : Rel) (A B : TA) (fuel : Nat) : Option (Bool × Cert) :=
  match s with
  | .tdRec => checkInclDownRec A B fuel
  | .tdRecOpt => inclDownOpt (removeUseless A) (removeUseless B) fuel
  | .tdRecSim => inclDownSim A B R fuel
  | .tdRecOptSim => inclDownSim A B R fuel
  | .buUp => checkInclUpBdd A B fuel
  | .buUpSim => inclUpBddSim A B R fuel
  | .buDownSim => buDownSimRoute A B fuel

/-- **every implemented BDD selection has a model whose every verdict is exact** – whatever relation the caller passes –
**and equals the verdict of every explicit selection** (`C01Sel`, `Vata/Properties/C01.lean`) **and of the reference** on
the same pair -/
theorem C07_every_selection_exact (s : C07Sel) (R : Rel) (A B : TA) (fuel : Nat) (b : Bool) (c : Cert)
    (h : s.model R A B fuel = some (b, c)) :
    (b = true ↔ Incl A B) ∧
    (∀ (s' : C01Sel) f' b' c', s'.model A B f' = some (b', c') → b = b') ∧
    (∀ f₀ b₀, inclM A B f₀ = some b₀ → b = b₀) := by
  have e : b = true ↔ Incl A B := by
    cases s with
    | tdRec => exact checkInclDownRec_iff h
    | tdRecOpt => exact (inclDownOpt_iff h).trans (incl_removeUseless A B)
    | tdRecSim => exact inclDownSim_iff h
    | tdRecOptSim => exact inclDownSim_iff h
    | buUp => exact checkInclUpBdd_iff h
    | buUpSim => exact inclUpBddSim_iff (R := R) h
    | buDownSim => exact (C07_bu_downward_sim_chain A B).1 fuel b c h
  refine ⟨e, fun s' f' b' c' h' => ?_, fun f₀ b₀ h₀ => ?_⟩
  · have e' := (C01_every_selection_exact_total s' A B).1 f' b' c' h'
    cases b <;> cases b' <;> simp_all
  · have e₀ := inclM_iff A B f₀ b₀ h₀
    cases b <;> cases b₀ <;> simp_all

-- all seven return a verdict on the trimmed, disjoint pair `exS1`, `exS2` with the relation `{(5,6)}`
example : ∀ s : C07Sel, (s.model [(5, 6)] InclDownEx.exS1 InclDownEx.exS2 20).map (·.1) = some true := by
  intro s; cases s <;> decide

/-- the selections whose models are also TOTAL, with explicit bounds: the two top-down `NOSIM` selections and the bottom-up
route "downward + simulation" (for the two upward selections of the bottom-up encoding no bound is proved, for the top-down
`SIM` selections a verdict is guaranteed under the preconditions of `C07_td_downward_models_exact` only) -/
theorem C07_total_selections (A B : TA) (R : Rel) :
    (∀ fuel, InclDown.fuelBoundD (removeUseless A) (removeUseless B) < fuel →
      (Incl A B → (∃ c, C07Sel.tdRec.model R A B fuel = some (true, c)) ∧ ∃ c, C07Sel.tdRecOpt.model R A B fuel = some (true, c)) ∧
      (¬ Incl A B →
        (∃ c, C07Sel.tdRec.model R A B fuel = some (false, c)) ∧ ∃ c, C07Sel.tdRecOpt.model R A B fuel = some (false, c))) ∧
    (∀ fuel, InclDown.fuelBoundD (sanitize A B).1 (sanitize A B).2.1 < fuel →
      (Incl A B → ∃ c, C07Sel.buDownSim.model R A B fuel = some (true, c)) ∧
      (¬ Incl A B → ∃ c, C07Sel.buDownSim.model R A B fuel = some (false, c))) :=
  ⟨fun _ hf => ⟨fun hi => ⟨(checkInclDownRec_complete A B hf).1 hi, (checkInclDownRec_complete A B hf).1 hi⟩,
      fun hn => ⟨(checkInclDownRec_complete A B hf).2 hn, (checkInclDownRec_complete A B hf).2 hn⟩⟩,
    (C07_bu_downward_sim_chain A B).2⟩

example : InclDown.fuelBoundD (removeUseless InclDownEx.exG) (removeUseless InclDownEx.exH) < 17 := by decide

/-- the seven selections are exactly the implemented cases of the two regenerated dispatchers -/
theorem C07_selections_are_the_dispatch_cases :
    Dispatch.sameWords (Dispatch.words Gen.tdDispatch)
      ([C07Sel.tdRec, .tdRecOpt, .tdRecSim, .tdRecOptSim].map C07Sel.word) = true ∧
    Dispatch.sameWords (Dispatch.words Gen.buDispatch) ([C07Sel.buUp, .buUpSim, .buDownSim].map C07Sel.word) = true :=
  ⟨Dispatch.implemented_td, Dispatch.implemented_bu⟩

/-!
## closed since the last refresh of this file

* **"the BDD simulation code has no model"** (last sentence of the item on the `SIM` selections) – closed at the rule-set
  abstraction: `Vata.BddSim.bddDownSim` models `BDDBUTreeAutCore::ComputeDownwardSimulation(n)` as written; it returns a
  downward simulation for every iteration order (`C07_bddsim_simulation`, `C07_bddsim_order_independent`), terminates within
  (number of tuples)² iterations (`C07_bddsim_terminates`), is the greatest simulation restricted to the states that own a
  top-down entry (`C07_bddsim_greatest_on_entry_states`) and exactly `downSimRef` on the sanitised union
  (`C07_bddsim_bu_downward_sim_exact`); the whole route as one exact and total function: `C07_bu_downward_sim_chain`.
* **"the top-down tables and the inversion have no model"** (item on the encodings) – closed in
  `Vata/Properties/C08_Tables.lean`: `BddAbsTD.TableTD` (16 symbol + 6 arity variables), load / dump (`C08_load_dump`,
  `C08_td_addTransition`), `GetTopDownAut` (`C08_getTopDownAut`: same abstract rules up to parents that are not collected, same
  language); the three views the simulation model takes of a bottom-up automaton are linked to these tables by
  `BddSim.tuples_bridge`, `BddSim.tdStates_bridge`, `BddSim.up_bridge`.
* The property as ONE statement over the seven selections, including "the verdict equals the one obtained in the explicit
  encoding" against all eight explicit selections: `C07_every_selection_exact`, `C07_total_selections`,
  `C07_selections_are_the_dispatch_cases`.
* Totality of the reference the verdicts are compared with: `C07_reference_total` (`Vata/Properties/RefTotal.lean`).
* The containers of `CheckUpwardTreeInclusion` / `CheckDownwardTreeInclusion` (macro-state cache with its memo tables,
  `OrdVector`, antichains) have class models with history theorems, and the deleter wiring of `tree_incl_down.hh` is
  re-checked on every run (`Util_Cache_memo_sound`, `Vata.CacheWiring.cache_wiring_is_lib`, `Util_OrdVector_history`,
  `Util_Antichain_offer_history`); how the command line reaches the option words of the two dispatchers:
  `Util_CliArgs_every_selection_reachable_partial`, `Util_CliArgs_unimplemented`.

## not yet proved

* **The encodings themselves.**  All inclusion models work on the abstract automaton.  The tables of both encodings and
  `GetTopDownAut` are now linked to the abstract automaton (C08, see above), but the traversals
  `ForeachUpSymbolFromTupleAndTupleSetDo` / `ForeachDownSymbolFromStateAndStateSetDo` as MTBDD applies over several
  diagrams at once are still replaced by "for every rule of the automaton": that the apply functors act pointwise is taken
  from C17 / C08 (`Vata/Proofs/MtbddOps.lean`), no theorem says that the collected (symbol, states) events of the real
  traversal are the rules the models iterate over.  Hence "the BDD verdict is exact" is a theorem about models that read
  the encoding through its abstraction.
* **No termination bound for the bottom-up upward exploration** `InclUpBdd.run`: every verdict is exact and `none` means
  "fuel exhausted" (`C07_bu_upward_exploration_certified`), but no fuel is proved to suffice (the explicit upward model
  of C01 has such a bound).  So `buUp` and `buUpSim` are missing from `C07_total_selections`.
* The bottom-up selection **upward with simulation** (`ANTICHAINS_UP_SIM`): modelled by `inclUpBddSim`, which ignores the
  relation because the C++ callee does (`C07_bu_upward_sim_exact`); that the parameter is unused is a reading of
  `src/tree_incl_up.hh`, not a theorem.  The library entry point does not sanitise the operands for this selection
  (`C07_dispatch`, item 4); `inclUpBdd` is exact on any operands but a verdict is only guaranteed on trimmed ones.
* **The `SIM` selections of the top-down encoding outside their preconditions**: exactness is unconditional, a verdict
  is guaranteed only for a relation that passes the validation, disjoint operands and productive rule children
  (`C07_td_downward_models_exact`); the C++ passes the caller's relation through unchecked.  From the command line these
  two selections cannot be run to a verdict at all: with `sim=yes` the CLI first calls `ComputeSimulation` of the
  representation, which throws `NotImplementedException` for `bdd-td` (read off `bdd_td_tree_aut_sim.cc`, see the end of
  `Vata/Properties/Util_CliArgs.lean`); only a library caller can reach them.
* The simulation model reads the MTBDDs as functions symbol ↦ leaf and the hash containers as lists (all iteration orders
  are covered, `C07_bddsim_order_independent`); the upward simulation of the BDD encodings has no model (none is
  implemented for `bdd-td`; the bottom-up `ANTICHAINS_UP_SIM` ignores its relation anyway).
* "With or without the implication cache": identified by definition, see C01.
* **Link between the dispatch tables and the models.**  `C07_dispatch` is about the tables regenerated from the sources
  (and "throws" is the table's record that the `default` branch contains a `throw`); which Lean model stands for which
  callee (`C07Sel.model`) is the reading given in the header, not a theorem.
-/
end Vata.Props
