import Vata.Lang
import Vata.UpCert
import Vata.DownCert
import Vata.Proofs.InclUp
import Vata.Proofs.InclUpTotal
/-!
# C07 – Inclusion on BDD-encoded (semi-symbolic) tree automata is exact

> For any two tree automata loaded into the top-down or the bottom-up BDD encoding, each implemented inclusion algorithm
> (top-down: downward recursive with or without the implication cache, with or without simulation; bottom-up: upward,
> and downward with simulation) returns true exactly when the language of the first is contained in the language of the
> second.  The verdict equals the one obtained for the same two automata in the explicit encoding; unimplemented
> selections are reported by an exception, never by a wrong verdict.

## How the statement is read into the model

* **Specification (L0).**  A BDD-encoded automaton denotes an ordinary tree automaton (its rules are the paths of the
  transition MTBDDs); the language of the loaded automaton is `accepts A` of the `TA` it was loaded from, and the
  specification of every inclusion call is `Incl A B` (`Vata/Lang.lean`), the same as for C01.
* **Reference.**  `inclM A B fuel` on the automata the BDD objects were loaded from.  The verdict of every implemented
  BDD selection is compared with it; so is (C01) the verdict of every explicit selection, which gives "the verdict
  equals the one obtained in the explicit encoding".
* **Model of the code.**  There is **no** model of the symbolic encodings (MTBDD transition tables, symbol-wise pairing
  of leaves) nor of `CheckUpwardTreeInclusion` / the downward functors on them.  What is proved is the *encoding
  independent* core the symbolic algorithms share with the explicit ones: the two certificate principles.  For the
  bottom-up upward algorithm the principle shows what the post-image step has to do: `UpCert` asks for closure under
  **one macro-state chosen per child position** (`All2 (fun k S => (k, S) ∈ X) ρ.kids Ss`) – the shape the unchanged
  `src/tree_incl_up.hh` got wrong by merging all macro-states known for a child (defect D9).
  All theorems here are therefore partial claims with respect to the property.
-/
namespace Vata.Props
open Vata Vata.InclUp

/-- every verdict of the reference the BDD verdicts are compared with is exact -/
theorem C07_reference_exact (A B : TA) (fuel : Nat) (b : Bool) (h : inclM A B fuel = some b) :
    b = true ↔ Incl A B := inclM_iff A B fuel b h

-- the shape of defect D9: `g(a,b)` is accepted by `exG` only, the children are reached by different trees
example : inclM InclUpEx.exG InclUpEx.exH 10 = some false ∧ inclM InclUpEx.exH InclUpEx.exG 10 = some true := by decide

/-- "the verdict equals the one obtained in the explicit encoding": a verdict that agrees with the reference agrees
with every verdict of the model of the explicit upward selection, for all fuels.  Partial: the BDD verdict `b'` enters
only through the hypothesis that it is a verdict of the reference -/
theorem C07_agrees_with_explicit_partial (A B : TA) (fuel fuel' : Nat) (b b' : Bool) (c : Cert)
    (h : checkInclUp A B fuel = some (b, c)) (h' : inclM A B fuel' = some b') : b = b' := by
  have h1 := checkInclUp_iff h
  have h2 := inclM_iff A B fuel' b' h'
  cases b <;> cases b' <;> simp_all

example : (checkInclUp InclUpEx.exG InclUpEx.exH 10).map (·.1) = some false ∧
    inclM InclUpEx.exG InclUpEx.exH 10 = some false := ⟨rfl, by decide⟩

/-- the encoding-independent principles of the upward (bottom-up encoding) and downward (both encodings) algorithms:
a set of pairs closed under the post-image with one chosen macro-state per child and without bad pair, resp. closed
under choice-function expansion and covering the final states, proves inclusion.  Partial: the symbolic explorations
that are supposed to produce such sets are not modelled -/
theorem C07_certificates_partial (A B : TA) (X : List (Nat × List Nat)) :
    (UpCert A B X → (∀ q S, (q, S) ∈ X → q ∈ A.final → ∃ s, s ∈ S ∧ s ∈ B.final) → Incl A B) ∧
    (DownCert A B X → (∀ f, f ∈ A.final → Sub X f B.final) → Incl A B) :=
  ⟨fun hX hok => up_cert_incl A B X hX hok, fun hX hroot => down_cert_incl A B X hX hroot⟩

example : UpCert InclUpEx.exH InclUpEx.exG [(3, [1]), (4, [1]), (9, [2])] ∧
    ∀ q S, (q, S) ∈ [(3, [1]), (4, [1]), (9, [2])] → q ∈ InclUpEx.exH.final → ∃ s, s ∈ S ∧ s ∈ InclUpEx.exG.final :=
  upCertB_sound (by decide)
-- no certificate exists for the false inclusion `exG ⊆ exH`: the merged "antichain" of defect D9 is refused (`{3,4}` is
-- not below the post-image `{3}` of the leaf rule `a`), and so is the true one (the mixed choice `({3},{4})` for `g`
-- has an empty post-image)
example : upCertB InclUpEx.exG InclUpEx.exH [(1, [3, 4]), (2, [9])] = false ∧
    upCertB InclUpEx.exG InclUpEx.exH [(1, [3]), (1, [4]), (2, [9])] = false := by decide

/-!
## not yet proved

* No model of the BDD encodings: loading into `BDDTopDownTreeAut` / `BDDBottomUpTreeAut`, the MTBDD transition tables,
  `ForeachUpSymbolFromTupleAndTupleSetDo` / `ForeachDownSymbolFromStateAndStateSetDo`, the 16-bit symbol encoding.
* No model of the algorithms on them (`CheckUpwardTreeInclusion`, the downward functors with and without cache, the
  simulation variants, inversion of a bottom-up automaton to top-down form); hence no theorem "the BDD verdict is
  exact".  The property is established by the correspondence check against `C07_reference_exact` only.
* "Unimplemented selections are reported by an exception" is a test-only claim about the dispatch code.
-/
end Vata.Props
