import Vata.Proofs.LtsEngine
/-!
# C16 – the partition–relation simulation engine as coded computes the greatest simulation

`Vata/LtsEngine.lean` (namespace `Vata.LE`) is an executable model of class `SimulationEngine` of
`src/explicit_lts_sim.cc` at the granularity of the code: state = partition (blocks as their circular state lists),
block relation (rows in row order), `inset` per block, counters `cnt[block][label][state]`, remove lists per
(block, label) (segments with node ids, so that `SharedList::append` is reproduced exactly), LIFO queue; functions
`engineInit` (`makeBlock`, relation index, `fastSplit(delta1[a])`, pruning, counters / remove lists / queue),
`processRemove` (`buildPre`, `split` = `internalSplit` + `trySplit` + `relation_.split` + `copyLabels` + copies of the
remove lists, the pruning loops with `decr` and `enqueueToRemove`), `engineRun`, `buildResult`, `computeSimulation`
and the two overloads.  What is abstracted to values is listed at the top of that file.

The corollaries below are stated with the Boolean preconditions

* `ltsOKB L`            every edge connects states `< n` (the driver's precondition);
* `isPartition part n`  what `init` asserts (plus: no empty block, asserted by `makeBlock`);
* `isConsistent part rel`  what `init` asserts: the block relation is reflexive;
* `isTransB rel`        transitivity of the block relation – **not asserted by the C++ but needed**
                        (`C16_engine_needs_transitivity`).

The relation on states that corresponds to (partition, block relation) is `initRel part rel`
(`C16_engine_initial_relation`: it is the relation the driver computes, reflexive and transitive).
-/
namespace Vata.Props
open Vata.L Vata.LE

/-- **the engine's output is the reference.**  Whatever `computeSimulation` returns contains `(q, r)` exactly when
`ltsSimOut` does, i.e. when `q, r < k` and `(q, r)` lies in the greatest simulation inside the initial relation. -/
theorem C16_engine_output_is_reference (L : LTS) (part : List (List Nat)) (rel : Rel) (k : Nat) (R : Rel)
    (hL : ltsOKB L = true) (hp : isPartition part L.n = true) (hc : isConsistent part rel = true)
    (ht : isTransB rel = true) (h : computeSimulation L part rel k = some R) :
    ∀ q r, (q, r) ∈ R ↔ (q, r) ∈ ltsSimOut L (initRel part rel) k :=
  engine_result_eq (ltsOK_of_B hL) hp hc (relTrans_of_B ht) k R h

example : ltsOKB EngEx.L1 = true ∧ isPartition EngEx.part1 EngEx.L1.n = true ∧
    isConsistent EngEx.part1 EngEx.rel1 = true ∧ isTransB EngEx.rel1 = true ∧
    computeSimulation EngEx.L1 EngEx.part1 EngEx.rel1 3 = some [(0, 0), (0, 1), (2, 2), (1, 1)] ∧
    ltsSimOut EngEx.L1 (initRel EngEx.part1 EngEx.rel1) 3 = [(0, 0), (0, 1), (1, 1), (2, 2)] := by decide

/-- **termination**: with its internal fuel `fuelBound L = n·(m + m·n) + 1` (`n` states, `m = labels L`) the model
never answers `none`.  Every call of `processRemove` lowers
`|queue| + (n − #blocks)·(m + m·n) + #{positive counters (block, label, state)}`, which is `≤ n·(m + m·n)` after `init`. -/
theorem C16_engine_terminates (L : LTS) (part : List (List Nat)) (rel : Rel) (k : Nat)
    (hL : ltsOKB L = true) (hp : isPartition part L.n = true) (hc : isConsistent part rel = true)
    (ht : isTransB rel = true) : ∃ R, computeSimulation L part rel k = some R :=
  engine_total (ltsOK_of_B hL) hp hc (relTrans_of_B ht) k

example : fuelBound EngEx.L1 = 25 ∧ (computeSimulation EngEx.L1 EngEx.part1 EngEx.rel1 3).isSome = true := by decide

/-- both, against the specification `IsSim`: the engine returns a relation and it contains `(q, r)` exactly when
`q, r < k` and some simulation inside the initial relation relates `q` and `r` -/
theorem C16_engine_computes_greatest_simulation (L : LTS) (part : List (List Nat)) (rel : Rel) (k : Nat)
    (hL : ltsOKB L = true) (hp : isPartition part L.n = true) (hc : isConsistent part rel = true)
    (ht : isTransB rel = true) :
    ∃ R, computeSimulation L part rel k = some R ∧ ∀ q r, (q, r) ∈ R ↔
      q < k ∧ r < k ∧ ∃ S : Nat → Nat → Prop, IsSim L S ∧ (∀ a b, S a b → (a, b) ∈ initRel part rel) ∧ S q r :=
  engine_spec (ltsOK_of_B hL) hp hc (relTrans_of_B ht) k

-- a simulation inside the initial relation of the example, as the right-hand side requires
example : IsSim EngEx.L1 (RelOf [(0, 1), (2, 2)]) ∧
    (∀ p, p ∈ [(0, 1), (2, 2)] → p ∈ initRel EngEx.part1 EngEx.rel1) :=
  ⟨(isLtsSimB_iff _ _).mp (by decide), by decide⟩

/-- **the invariant of the loop**: after `init` and after each of the first `k` iterations of `run` (for every `k`)
the relation on states induced by (partition, block relation) contains the greatest simulation inside the initial
relation – nothing that must stay is ever removed – and lies inside the initial relation.  (The full invariant
`Vata.LE.Inv`, proved by `engine_invariant_always`, also says: the counters count the successors inside the row, states
on a remove list have no successor inside the row, and the relation is a simulation up to the pending remove lists.) -/
theorem C16_engine_invariant (L : LTS) (part : List (List Nat)) (rel : Rel) (k : Nat)
    (hL : ltsOKB L = true) (hp : isPartition part L.n = true) (hc : isConsistent part rel = true)
    (ht : isTransB rel = true) :
    (∀ q r, (q, r) ∈ ltsSimRef L (initRel part rel) → (stateAfter L part rel k).R q r) ∧
    (∀ q r, q < L.n → r < L.n → (stateAfter L part rel k).R q r → (q, r) ∈ initRel part rel) :=
  (engine_invariant_always (ltsOK_of_B hL) hp hc (relTrans_of_B ht) k).between (initRel_lt hp)

-- a run that really iterates: two calls of `processRemove`, each splitting a block (see `EngEx.L3`)
example : ltsOKB EngEx.L3 = true ∧ isPartition [[0, 1, 2, 3]] EngEx.L3.n = true ∧
    (stateAfter EngEx.L3 [[0, 1, 2, 3]] [(0, 0)] 0).queue = [(1, 0)] ∧
    (stateAfter EngEx.L3 [[0, 1, 2, 3]] [(0, 0)] 1).part = [[2], [3, 0], [1]] ∧
    (stateAfter EngEx.L3 [[0, 1, 2, 3]] [(0, 0)] 1).queue = [(1, 0)] ∧
    (stateAfter EngEx.L3 [[0, 1, 2, 3]] [(0, 0)] 2).part = [[2], [3], [1], [0]] ∧
    (stateAfter EngEx.L3 [[0, 1, 2, 3]] [(0, 0)] 2).queue = [] := by decide

/-- **no partition given**: `computeSimulation(outputSize)` returns the greatest simulation of the system restricted to
the states below the output size, `computeSimulation()` the greatest simulation; both always return (`0 < n` is what
the constructor of the engine asserts) -/
theorem C16_engine_default (L : LTS) (k : Nat) (hL : ltsOKB L = true) (hn : 0 < L.n) :
    (∃ R, computeSimulation1 L k = some R ∧ ∀ q r, (q, r) ∈ R ↔ (q, r) ∈ ltsSimOut L (fullRel L.n) k) ∧
    (∃ R, computeSimulation0 L = some R ∧ ∀ q r, (q, r) ∈ R ↔ (q, r) ∈ ltsSimRef L (fullRel L.n)) := by
  obtain ⟨R1, h1⟩ := engine1_total (ltsOK_of_B hL) hn k
  obtain ⟨R0, h0⟩ := engine0_total (ltsOK_of_B hL) hn
  exact ⟨⟨R1, h1, engine1_result_eq (ltsOK_of_B hL) hn k R1 h1⟩, ⟨R0, h0, engine0_result_eq (ltsOK_of_B hL) hn R0 h0⟩⟩

example : ltsOKB exL = true ∧ 0 < exL.n ∧ computeSimulation1 exL 2 = some [(0, 0), (0, 1), (1, 1)] ∧
    computeSimulation0 exL = some [(2, 2), (2, 0), (2, 1), (0, 0), (0, 1), (1, 1)] := by decide

/-- **the initial relation**: `initRel part rel` is the relation on states the driver computes from partition and block
relation; it is reflexive on `0..n-1` and transitive (the hypotheses `hrefl`, `htrans` of `C16_preorder`), so the
engine's result is a preorder on `0..n-1` -/
theorem C16_engine_initial_relation (L : LTS) (part : List (List Nat)) (rel : Rel)
    (hL : ltsOKB L = true) (hp : isPartition part L.n = true) (hc : isConsistent part rel = true)
    (ht : isTransB rel = true) :
    (∀ p, p ∈ initRel part rel ↔
      p ∈ (fullRel L.n).filter (fun p => rel.contains (blockOf part p.1, blockOf part p.2))) ∧
    (∀ q, q < L.n → (q, q) ∈ initRel part rel) ∧
    (∀ a b c, (a, b) ∈ initRel part rel → (b, c) ∈ initRel part rel → (a, c) ∈ initRel part rel) ∧
    (∀ q, q < L.n → (q, q) ∈ ltsSimRef L (initRel part rel)) ∧
    (∀ a b c, (a, b) ∈ ltsSimRef L (initRel part rel) → (b, c) ∈ ltsSimRef L (initRel part rel) →
      (a, c) ∈ ltsSimRef L (initRel part rel)) := by
  have h1 := initRel_refl hp hc
  have h2 := initRel_trans (part := part) (relTrans_of_B ht)
  have h3 := ltsSimRef_preorder L (initRel part rel) (fun e he => (ltsOK_of_B hL e he).2) h1 h2
  exact ⟨initRel_eq_filter hp, h1, h2, h3.1, h3.2⟩

example : initRel EngEx.part1 EngEx.rel1 = [(0, 0), (0, 1), (0, 2), (1, 0), (1, 1), (1, 2), (2, 2)] := by decide

/-- **transitivity of the block relation is needed** although `init` only asserts reflexivity: on this input all
asserted preconditions hold, the block relation is not transitive, and the engine returns 12 pairs without `(4, 3)`,
which belongs to the greatest simulation inside the initial relation.  (The real library returns the same 12 pairs.) -/
theorem C16_engine_needs_transitivity :
    ltsOKB EngEx.L2 = true ∧ isPartition EngEx.part2 EngEx.L2.n = true ∧
    isConsistent EngEx.part2 EngEx.rel2 = true ∧ isTransB EngEx.rel2 = false ∧
    computeSimulation EngEx.L2 EngEx.part2 EngEx.rel2 5 =
      some [(0, 0), (0, 4), (0, 1), (0, 3), (0, 2), (4, 4), (1, 0), (1, 1), (1, 3), (3, 3), (2, 4), (2, 2)] ∧
    (4, 3) ∈ ltsSimOut EngEx.L2 (initRel EngEx.part2 EngEx.rel2) 5 :=
  EngEx.nontransitive_counterexample

/-!
## which "not yet proved" items of `C16.lean` this file closes

* **"The engine itself is not modelled."**  Closed: `Vata/LtsEngine.lean` models `init`, `fastSplit`, `split`,
  `internalSplit`, `trySplit`, `buildPre`, `processRemove`, `enqueueToRemove`, `run`, `buildResult` and the three
  overloads; `C16_engine_output_is_reference`, `C16_engine_terminates`, `C16_engine_invariant` are theorems about that
  model (invariant, partial correctness, termination – no certificate check is involved).
* **"Partition and relation on blocks."**  Closed: `initRel`, `C16_engine_initial_relation` (it is the driver's
  relation, reflexive, transitive), `buildResult` is part of the model (`Vata.LE.mem_buildResult`).
* Still open: "Output size" (the dimension of the returned `BinaryRelation` is not a notion of the model; the model
  returns the list of the pairs that `buildResult` sets, in the order it sets them).

## what is not proved here

* The model is tied to the C++ by reading the code and by comparison of final outputs (60 000 generated cases, with and
  without transitive block relations, identical to the output of the real class); intermediate states of the C++
  (block numbering, order inside the lists) are not observable through the public interface and were not compared.
* Reference-counted sharing (`SharedCounter` rows, `SharedList` nodes, allocators) is abstracted to values; that the C++
  sharing implements these values (copy-on-write in `decr`, the `master_` bookkeeping, `unsafeRelease`) is not proved.
* That the C++ assertions (`b1->index_ != *col`, `assert(row.master_)`, `assert(remove)`, `checkList`) never fail is not
  stated separately; it follows informally from the invariant (reflexive pairs are never erased: `WF.hrefl`; a
  decremented counter is positive: `decrStep_spec`; a queued slot is non-empty: `QOK.hiff`).
* The order in which the result pairs are listed, and the independence of the *intermediate* states from the visiting
  order, are not stated (the final relation is unique by `C16_engine_output_is_reference`).
-/
end Vata.Props
