import Vata.Lang
/-!
# C06 – Complement accepts exactly the trees over the alphabet the automaton rejects

> For an explicit tree automaton A whose alphabet is an on-the-fly alphabet containing the ranked symbols S, every tree
> built from symbols of S (each used with its rank) is accepted by exactly one of A and Complement(A).  Complement(A)
> accepts no tree that uses a symbol outside S.

## How the statement is read into the model

* **Specification (L0).**  A ranked alphabet is a list `Sg : List (Nat × Nat)` of (symbol, rank) pairs; `overSig Sg t`
  (`Vata/Lang.lean`) says that every node of `t` carries a symbol of `Sg` with as many children as its rank.
  "`C` is the complement of `A` over `Sg`" is
  `∀ t, (overSig Sg t = true → accepts C t = !accepts A t) ∧ (overSig Sg t = false → accepts C t = false)`:
  on trees over the alphabet exactly one of the two accepts, outside the alphabet `C` accepts nothing.
* **Reference.**  `isComplM C A Sg fuel` decides this for a *given* candidate `C` (the automaton the real `Complement`
  returned, the alphabet being the symbol dictionary) by profile saturation over `C`, `A` and the one-state automaton
  `univ Sg` that accepts exactly the trees over `Sg`.
* **Model of the code.**  There is none: the top-down determinisation-like construction of
  `ExplicitDownwardComplementation::Compute` is not modelled; the property is established for the real code by
  comparing its result with the reference on generated inputs.  All theorems below are about the reference.
-/
namespace Vata.Props
open Vata

/-- every verdict of the reference "`C` is the complement of `A` over `Sg`" is exact -/
theorem C06_reference_exact (C A : TA) (Sg : List (Nat × Nat)) (fuel : Nat) (b : Bool)
    (h : isComplM C A Sg fuel = some b) :
    b = true ↔ ∀ t, (overSig Sg t = true → accepts C t = !accepts A t) ∧ (overSig Sg t = false → accepts C t = false) :=
  isComplM_iff C A Sg fuel b h

-- `A = {a}` over the alphabet `{a, b, g/1}`; `C` accepts every tree over it except `a`; `A` is not its own complement;
-- an automaton that also accepts the foreign leaf `c` is refused (second clause)
example :
    let A : TA := ⟨[⟨0, [], 1⟩], [1]⟩
    let C : TA := ⟨[⟨0, [], 0⟩, ⟨1, [], 1⟩, ⟨2, [0], 1⟩, ⟨2, [1], 1⟩], [1]⟩
    let C' : TA := ⟨C.rules ++ [⟨3, [], 1⟩], [1]⟩
    let Sg := [(0, 0), (1, 0), (2, 1)]
    isComplM C A Sg 10 = some true ∧ isComplM A A Sg 10 = some false ∧ isComplM C' A Sg 10 = some false := by decide

/-- the automaton the reference uses for "trees over `Sg`" accepts exactly those -/
theorem C06_universe_exact (Sg : List (Nat × Nat)) (t : Tree) : accepts (univ Sg) t = overSig Sg t := accepts_univ Sg t

example : overSig [(0, 0), (2, 1)] (.node 2 [.node 0 []]) = true ∧ overSig [(0, 0), (2, 1)] (.node 2 []) = false ∧
    overSig [(0, 0), (2, 1)] (.node 1 []) = false := by decide

/-!
## not yet proved

* Everything about the construction itself: there is no executable model of `Complement` (macro-state cache, choice
  functions over the rules of a macro-state, final useless-state removal), hence no theorem "the model of Complement
  is a complement".  The property is a correspondence-check-only claim against `C06_reference_exact`.
* No totality theorem for `isComplM` (it returns `none` on too little fuel; every `some` is exact).
-/
end Vata.Props
