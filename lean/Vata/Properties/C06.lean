import Vata.Lang
import Vata.Proofs.Compl
import Vata.Proofs.ComplTotal
import Vata.Proofs.Sanitize
import Vata.Properties.RefTotal
/-!
# C06 – Complement accepts exactly the trees over the alphabet the automaton rejects

> For an explicit tree automaton A whose alphabet is an on-the-fly alphabet containing the ranked symbols S, every tree
> built from symbols of S (each used with its rank) is accepted by exactly one of A and Complement(A).  Complement(A)
> accepts no tree that uses a symbol outside S.

## How the statement is read into the model

* **Specification (L0).**  A ranked alphabet is a list `Sg : List (Nat × Nat)` of (symbol, rank) pairs; `overSig Sg t`
  (`Vata/Lang.lean`) says that every node of `t` carries a symbol of `Sg` with as many children as its rank.
  "`C` is the complement of `A` over `Sg`" is
  `∀ t, (overSig Sg t = true → accepts C t = !accepts A t) ∧ (overSig Sg t = false → accepts C t = false)`:
  on trees over the alphabet exactly one of the two accepts, outside the alphabet `C` accepts nothing.
* **Reference.**  `isComplM C A Sg fuel` decides this for a *given* candidate `C` (the automaton the real `Complement`
  returned, the alphabet being the symbol dictionary) by profile saturation over `C`, `A` and the one-state automaton
  `univ Sg` that accepts exactly the trees over `Sg`.
* **Model of the code** (`Vata/Compl.lean`).  `Compl.complTD A Sg fuel` mirrors `ExplicitTreeAutCore::Complement`:
  `ExplicitDownwardComplementation::Compute` instantiated with the identity preorder, followed by `RemoveUselessStates`.
  A macro-state is a sorted duplicate-free list `P` of states of `A`, read "the tree is accepted from none of the states
  in `P`"; `stateCache` is the list of macro-states in discovery order (number = position, the initial one is the set of
  final states, number `0` = the final state of the result); for the picked macro-state and every symbol `f/n` of `Sg` the
  distinct children tuples `W` of the `f`-rules with parent in `P` are collected and every choice function
  `W → {0..n-1}` (enumerated as `ChoiceFunction::next` does) yields one rule `f(P₀..Pₙ₋₁) → P`; the special cases of the
  code (`W` empty, rank 0) are mirrored.  `Compl.tdRun` is the work-list alone; `complTD` returns its result after the
  Boolean check `tdCertB` (certify-then-trust) and after `removeUseless`.  `none` = fuel exhausted (one unit per
  macro-state); the check never refuses (`C06_exploration_certified`).  The alphabet `Sg` is a parameter of the model: it
  stands for the content of the on-the-fly symbol dictionary at the time of the call.
* **Second reference** `Compl.complRef A Sg fuel`: the textbook construction (bottom-up determinisation over `Sg`,
  completed, final = the profiles without a final state of `A`), an independent executable complement.
-/
namespace Vata.Props
open Vata

/-- every verdict of the reference "`C` is the complement of `A` over `Sg`" is exact -/
theorem C06_reference_exact (C A : TA) (Sg : List (Nat × Nat)) (fuel : Nat) (b : Bool)
    (h : isComplM C A Sg fuel = some b) :
    b = true ↔ ∀ t, (overSig Sg t = true → accepts C t = !accepts A t) ∧ (overSig Sg t = false → accepts C t = false) :=
  isComplM_iff C A Sg fuel b h

-- `A = {a}` over the alphabet `{a, b, g/1}`; `C` accepts every tree over it except `a`; `A` is not its own complement;
-- an automaton that also accepts the foreign leaf `c` is refused (second clause)
example :
    let A : TA := ⟨[⟨0, [], 1⟩], [1]⟩
    let C : TA := ⟨[⟨0, [], 0⟩, ⟨1, [], 1⟩, ⟨2, [0], 1⟩, ⟨2, [1], 1⟩], [1]⟩
    let C' : TA := ⟨C.rules ++ [⟨3, [], 1⟩], [1]⟩
    let Sg := [(0, 0), (1, 0), (2, 1)]
    isComplM C A Sg 10 = some true ∧ isComplM A A Sg 10 = some false ∧ isComplM C' A Sg 10 = some false := by decide

/-- the automaton the reference uses for "trees over `Sg`" accepts exactly those -/
theorem C06_universe_exact (Sg : List (Nat × Nat)) (t : Tree) : accepts (univ Sg) t = overSig Sg t := accepts_univ Sg t

example : overSig [(0, 0), (2, 1)] (.node 2 [.node 0 []]) = true ∧ overSig [(0, 0), (2, 1)] (.node 2 []) = false ∧
    overSig [(0, 0), (2, 1)] (.node 1 []) = false := by decide

/-! ### the model of `Complement` -/

/-- every automaton the model of `Complement` returns is the complement of `A` over `Sg`: on the trees over `Sg` it
accepts exactly those `A` rejects, and it accepts no tree that is not over `Sg` -/
theorem C06_model_exact (A : TA) (Sg : List (Nat × Nat)) (fuel : Nat) (C : TA) (h : Compl.complTD A Sg fuel = some C) :
    ∀ t, (overSig Sg t = true → accepts C t = !accepts A t) ∧ (overSig Sg t = false → accepts C t = false) :=
  Compl.complTD_spec h

-- a nondeterministic automaton (`a` is read into two states) over `{a/0, f/2}`; with a symbol `g/1` unused by it
example : (Compl.complTD Compl.Ex.aLeft Compl.Ex.sg 20).isSome = true ∧
    (Compl.complTD Compl.Ex.aLeft Compl.Ex.sg3 50).isSome = true := by decide +kernel

/-- "accepted by exactly one of `A` and `Complement(A)`", literally -/
theorem C06_exactly_one (A : TA) (Sg : List (Nat × Nat)) (fuel : Nat) (C : TA) (h : Compl.complTD A Sg fuel = some C)
    (t : Tree) (ht : overSig Sg t = true) :
    (accepts A t = true ∧ accepts C t = false) ∨ (accepts A t = false ∧ accepts C t = true) := by
  have := (Compl.complTD_spec h t).1 ht
  cases hA : accepts A t with
  | true => rw [hA] at this; exact Or.inl ⟨rfl, this⟩
  | false => rw [hA] at this; exact Or.inr ⟨rfl, this⟩

example : overSig Compl.Ex.sg (.node 1 [.node 0 [], .node 0 []]) = true ∧
    accepts Compl.Ex.aLeft (.node 1 [.node 0 [], .node 0 []]) = true ∧
    accepts Compl.Ex.aLeft (.node 0 []) = false := by decide

/-- the model is total: with `2^|Q_A| + 1` units of fuel (one per macro-state) or more it returns an automaton – which
is then the complement –, for every `A` and every alphabet -/
theorem C06_model_total (A : TA) (Sg : List (Nat × Nat)) :
    (∀ fuel, 2 ^ A.states.length + 1 ≤ fuel → ∃ C, Compl.complTD A Sg fuel = some C) ∧
    (∃ C, Compl.complTD A Sg (2 ^ A.states.length + 1) = some C ∧
      ∀ t, (overSig Sg t = true → accepts C t = !accepts A t) ∧ (overSig Sg t = false → accepts C t = false)) :=
  ⟨fun _ h => Compl.complTD_total h, Compl.complTD_correct A Sg⟩

example : 2 ^ Compl.Ex.aLeft.states.length + 1 ≤ 9 := by decide
-- the bound is observed: two units do not suffice for `aND`
example : (Compl.complTD Compl.Ex.aND Compl.Ex.sg 2).isNone = true := by decide

/-- the work-list proper (no final check involved): whenever it finishes, the cache and the rules it built pass the
certificate check – the cache starts with the set of final states, is closed, and the rules are exactly the ones the
cache prescribes.  So the model answers `none` only when the fuel is exhausted, and what it returns is the trimmed
automaton on the rules of the work-list with final state `0` -/
theorem C06_exploration_certified (A : TA) (Sg : List (Nat × Nat)) (fuel : Nat) :
    (∀ st, Compl.tdRun A Sg fuel = some st → Compl.tdCertB A Sg st = true) ∧
    Compl.complTD A Sg fuel = (Compl.tdRun A Sg fuel).map (fun st => removeUseless ⟨st.rules, [0]⟩) :=
  ⟨fun _ h => Compl.tdRun_cert h, Compl.complTD_eq⟩

-- four macro-states, eight rules
example : ((Compl.tdRun Compl.Ex.aLeft Compl.Ex.sg 20).map (fun st => (st.cache, st.rules.length))) =
    some ([[2], [0], [], [1]], 8) := by decide

/-- the result of the model has no useless state or rule (the final `RemoveUselessStates`) -/
theorem C06_result_trimmed (A : TA) (Sg : List (Nat × Nat)) (fuel : Nat) (C : TA)
    (h : Compl.complTD A Sg fuel = some C) : allUsefulB C = true := by
  rw [Compl.complTD_eq] at h
  cases hr : Compl.tdRun A Sg fuel with
  | none => rw [hr] at h; cases h
  | some st =>
    rw [hr] at h
    simp only [Option.map_some, Option.some.injEq] at h
    subst h
    exact San.allUsefulB_complete (San.allGood_removeUseless _)

-- `A` accepts everything over `sg`: the raw construction has rules, the trimmed complement is empty
example : (Compl.complTD Compl.Ex.aAll Compl.Ex.sg 50).map (fun C => (C.rules.length, C.final)) = some (0, []) := by
  decide

/-! ### the second reference and the agreement of all three -/

/-- the textbook construction `complRef` returns a complement whenever it returns, and it returns for every fuel from
`2^|Q_A|` on -/
theorem C06_reference_construction_exact (A : TA) (Sg : List (Nat × Nat)) :
    (∀ fuel C, Compl.complRef A Sg fuel = some C →
      ∀ t, (overSig Sg t = true → accepts C t = !accepts A t) ∧ (overSig Sg t = false → accepts C t = false)) ∧
    (∀ fuel, 2 ^ A.states.length ≤ fuel → ∃ C, Compl.complRef A Sg fuel = some C) :=
  ⟨fun _ _ h => Compl.complRef_spec h, fun _ h => Compl.complRef_total h⟩

example : (Compl.complRef Compl.Ex.aLeft Compl.Ex.sg3 20).isSome = true := by decide +kernel

/-- the model of the code and the textbook construction accept the same trees, and the decider `isComplM` of
`C06_reference_exact` can only answer `true` on an output of the model: the three agree -/
theorem C06_model_agrees_references (A : TA) (Sg : List (Nat × Nat)) (f₁ f₂ f₃ : Nat) (C D : TA) (b : Bool)
    (h₁ : Compl.complTD A Sg f₁ = some C) :
    (Compl.complRef A Sg f₂ = some D → ∀ t, accepts C t = accepts D t) ∧
    (isComplM C A Sg f₃ = some b → b = true) :=
  ⟨fun h₂ => Compl.complTD_equiv_complRef h₁ h₂,
    fun h₃ => (isComplM_iff C A Sg f₃ b h₃).mpr (Compl.complTD_spec h₁)⟩

example : (do let C ← Compl.complRef Compl.Ex.aLeft Compl.Ex.sg3 20; let D ← Compl.complTD Compl.Ex.aLeft Compl.Ex.sg3 50
              equivM C D 50) = some true := by decide +kernel
example : (match Compl.complTD Compl.Ex.aLeft Compl.Ex.sg 20 with
    | some C => isComplM C Compl.Ex.aLeft Compl.Ex.sg 50
    | none => none) = some true := by decide

/-- the chain "model of `Complement`, then the reference decider" never gets stuck: with `2^|Q_A| + 1` units of fuel the
model returns an automaton `C`, and for every fuel above the explicit bound `fuelBoundCompl C A Sg ≤ 2^(|Q_C|+|Q_A|+1)` the
decider `isComplM` answers `true` on it -/
theorem C06_model_passes_reference (A : TA) (Sg : List (Nat × Nat)) :
    ∃ C, Compl.complTD A Sg (2 ^ A.states.length + 1) = some C ∧
      ∀ fuel, fuelBoundCompl C A Sg ≤ fuel → isComplM C A Sg fuel = some true := by
  obtain ⟨C, hC, hspec⟩ := (C06_model_total A Sg).2
  refine ⟨C, hC, fun fuel hf => ?_⟩
  obtain ⟨b, hb, e⟩ := C06_reference_total C A Sg fuel hf
  rw [hb, e.mpr hspec]

example : (Compl.complTD Compl.Ex.aLeft Compl.Ex.sg (2 ^ Compl.Ex.aLeft.states.length + 1)).isSome = true := by decide +kernel

/-!
## closed since the last refresh of this file

* "No totality theorem for the decider `isComplM`": `C06_reference_total`, `C06_reference_bound`
  (`Vata/Properties/RefTotal.lean`: total above `fuelBoundCompl C A Sg ≤ 2^(|C| + |A| + 1)`, whatever the size of the
  alphabet; `driver_fuel_compl`: the driver's fuel suffices up to 18 states altogether), composed with the model in
  `C06_model_passes_reference`.

## not yet proved

* **The preorder.**  `ExplicitDownwardComplementation::Compute` is parametrised by a preorder on the states;
  `Complement` instantiates it with the identity, and only this instance is modelled (with it
  `post[i].contains/refine/insert` followed by `std::sort` is `normS`).  Nothing is proved for a non-trivial preorder.
  (The container `post[i]` is an `Antichain1C`; the class has a model and a history theorem of its own,
  `Util_Antichain_post_history`, which is not connected to `complTD`.)
* **Container orders.**  `todo` is an address-ordered hash set in the C++, FIFO in the model; the numbers of the
  macro-states therefore differ, the automata agree up to this renumbering.  "The model returns the same automaton as the
  code up to renaming" is checked by the correspondence check (language equality with the reference), not proved.
* **The alphabet.**  That the symbol dictionary of the on-the-fly alphabet holds exactly the ranked symbols `Sg` handed
  to the model – in particular that a symbol is registered with ONE rank – is an assumption about the caller; symbols
  that occur in `A` but not in `Sg` are simply not complemented by the model (second clause of `C06_model_exact`).
* The two constructions `complTD` and `complRef` are total with explicit exponential bounds (`C06_model_total`,
  `C06_reference_construction_exact`), and so is the decider; none of the bounds is tight.
-/
end Vata.Props
