import Vata.Proofs.FunctorCachesUpSim2
import Vata.Properties.C01
import Vata.Properties.C01_Caches
import Vata.Properties.CacheWiring
/-!
# C01 – the caches of the upward tree inclusion algorithm WITH a simulation are transparent (with the library's deleter)

Property C01 (all selections of `CheckInclusion` answer `L(A) ⊆ L(B)`), selection "upward with simulation"
(`ANTICHAINS_UP_SIM`).  The model `inclUpSim` / `checkInclUpSim` behind `C01_upward_sim_prepared_exact` compares macro-states by
value.  The code (`ExplicitUpwardInclusion::checkInternal`, `src/explicit_tree_incl_up.cc` – ONE function for the identity and
for a computed simulation, the relation enters through `ind` / `inv`) interns the MINIMISED macro-states in `biggerTypeCache` (a
`Util::Cache`: objects held by `shared_ptr`s, they DIE, addresses are recycled) and memoises `lte` – here "every state of `*x` is
simulated by a state of `*y`" – and `evalTransitions` in two `CachedBinaryOp` tables keyed by those addresses.
`C01_Caches.lean` closed this for the identity relation and left the simulation variant open; this file closes it.

How the statement is read into the model (`Vata/FunctorCachesUpSim.lean`, on top of the heap / allocator / deleter machinery of
`Vata/FunctorCachesUp.lean`).  `checkInclUpSimC w pick A B fuel` is `CheckInclusion` (upward, simulation) with the three caches
as coded: `w : CM.Wiring` is what the deleter handed to `biggerTypeCache` does (`.lib`: the library's – `cache_wiring_is_lib`
proves that the deleters regenerated from the sources denote it), `pick` is the allocator (which address a new macro-state gets,
given the live ones; every allocator is some `pick`).  `inclUpSimC w pick A B R fuel` takes the relation as a parameter,
`FCUS.runS` is the exploration alone, `FCU.rawVerdictU` its `return true` / `return false` before the certificate check of the model.
Mirrored with the relation: `noncachedLte` (`lteNC`), the lambda `lte` with its POINTER test (`hLteS`), `Antichain2Cv2::contains
(ind[q], …)` / `refine(inv[q], …, Eraser(next))`, the `Antichain1C post` loop on the transitions that survive
`evalTransitions` / `intersectionByLookup` (in the order of `B.rules`), `checkIntersection(ind[q], tmp)` – in the main loop BEFORE
`biggerTypeCache.lookup`, in the leaf phase after it (the handle is dropped again).

Abstracted: reference counting by its effect (`hCollect` where handles are dropped); iteration orders of hash containers and of
`ind[q]` / `inv[q]` (list order of the antichain); the leaf phase acquires `ptr` once per leaf rule (the C++: once per symbol).
Fuel: one unit per picked pair; `none` = out of fuel at exactly the fuel at which the cache-free model is (part of the
equalities below), so totality above `fuelBound` is inherited (`C01_upward_sim_cached_exact`).
-/
namespace Vata.Props
open Vata Vata.InclUp Vata.FCU Vata.FCUS Vata.CM

/-- **`biggerTypeCache`, `lteCache`, `evalTransitionsCache` are transparent (upward, WITH a simulation) – for every allocator and
every relation.**  With the library's deleter, `CheckInclusion` with the caches as coded returns, for all operands and every fuel,
exactly what the cache-free model `checkInclUpSim` returns (the same verdict with the same antichain / witness, `none` at the same
fuel), however the addresses of dead macro-states are recycled; the same with the relation as a parameter – ANY list of pairs, no
simulation / reflexivity / transitivity hypothesis – and for the exploration alone (verdict and final antichain by value). -/
theorem C01_upward_sim_caches_transparent (pick : List Nat → Nat) (A B : TA) (R : Rel) (fuel : Nat) :
    checkInclUpSimC .lib pick A B fuel = checkInclUpSim A B fuel ∧
    inclUpSimC .lib pick A B R fuel = inclUpSim A B R fuel ∧
    viewU (runS .lib pick R A B fuel) = InclUpSim.run R A B fuel :=
  ⟨checkInclUpSim_cached_eq pick A B fuel, inclUpSim_cached_eq pick A B R fuel, runS_eq pick R A B fuel⟩

/-- … in the form of `C01_upward_sim_prepared_exact`: the cached model is exact for the ORIGINAL question and total above the
bound, on the prepared operands with the computed relation, for every allocator -/
theorem C01_upward_sim_cached_exact (pick : List Nat → Nat) (A B : TA) :
    (∀ fuel b c, checkInclUpSimC .lib pick A B fuel = some (b, c) → (b = true ↔ Incl A B)) ∧
    (∀ fuel, fuelBound (sanitize A B).1 (sanitize A B).2.1 < fuel →
      (Incl A B → ∃ c, checkInclUpSimC .lib pick A B fuel = some (true, c)) ∧
      (¬ Incl A B → ∃ c, checkInclUpSimC .lib pick A B fuel = some (false, c))) := by
  simp only [checkInclUpSim_cached_eq]
  exact C01_upward_sim_prepared_exact A B

/-- the wiring the theorem assumes is the one in the sources -/
example : Vata.Gen.cacheWiring.map Vata.CacheWiring.wiringOf = [.lib, .lib, .lib] := Vata.CacheWiring.cache_wiring_is_lib

-- non-vacuity: runs with a non-trivial relation in which macro-states die and their addresses are reused at once
example : (checkInclUpSimC .lib pickLeast FCUSEx.exWA FCUSEx.exWB 12).map (·.1) = some false := by decide +kernel
example : (checkInclUpSimC .lib pickLeast FCUSEx.exSA FCUSEx.exSB 12).map (·.1) = some true := by decide +kernel
example : (finalHeap (runS .lib pickLeast FCUSEx.exSR FCUSEx.exSA FCUSEx.exSB 12)).map
    (fun h => (h.store.length, h.lte.store.length, h.ev.store.length)) = some (1, 0, 2) := by decide +kernel
-- minimised macro-states are interned (`exR` has `10 ≼ 12`: `{10, 12}` is stored as `{12}`), subsumption modulo `1 ≼ 2`
example : (viewU (runS .lib pickLeast InclUpSimEx.exR InclUpSimEx.exP InclUpSimEx.exQ 20)).map
    (fun r => match r with | .ok P => P.map (fun i => (i.q, i.S)) | .error _ => []) = some [(2, [12]), (3, [11])] := by
  decide +kernel
-- every leaf pair skipped by `checkIntersection(ind[q], tmp)`: the handles are dropped again, nothing stays alive
example : (finalHeap (runS .lib pickLeast (upSimRef (unionDisjoint InclUpSimEx.exP InclUpSimEx.exQ)) InclUpSimEx.exP
    InclUpSimEx.exQ 20)).map (fun h => h.store.length) = some 0 := by decide +kernel

/-- **the invariant behind it**, at the end of every run with the library's deleter, for every allocator and relation: one live
object per address AND per value (interning), every entry of `lteCache` is about two LIVE macro-states and holds `noncachedLte`
modulo the relation of their current values, every entry of `evalTransitionsCache` is about a live macro-state and holds
`noncachedEvalTransitions` of its current value (`FCUS.HInvS`, kept by every step of the simulation `FCUS.URelS`;
`FCUS.hCollectS_spec` is the step where objects die) -/
theorem C01_upward_sim_memo_sound (pick : List Nat → Nat) (R : Rel) (A B : TA) (fuel : Nat) (h : Heap)
    (hf : finalHeap (runS .lib pick R A B fuel) = some h) :
    (∀ a b, a ∈ h.addrs → b ∈ h.addrs → hval h a = hval h b → a = b) ∧
    (∀ a b r, aget h.lte.store (a, b) = some r → a ∈ h.addrs ∧ b ∈ h.addrs ∧ r = lteNC R (hval h a) (hval h b)) ∧
    (∀ k b r, aget h.ev.store (k, b) = some r → b ∈ h.addrs ∧ r = evalT B k (hval h b)) ∧ heapOKSB R B h = true :=
  ⟨(runS_heap_sound pick R A B fuel hf).1.vi, (runS_heap_sound pick R A B fuel hf).1.sl,
    (runS_heap_sound pick R A B fuel hf).1.se, (runS_heap_sound pick R A B fuel hf).2⟩

/-- **the lambda `lte` with its pointer test is `InclUpSim.lte`** ("the same set, or every state of `*x` is simulated by a state
of `*y`") on live objects of a heap that satisfies the invariant, whatever the relation -/
theorem C01_upward_sim_lte_pointer (R : Rel) (B : TA) (h : Heap) (hi : HInvS R B h) (a b : Nat) (ha : a ∈ h.addrs)
    (hb : b ∈ h.addrs) : (hLteS R h a b).2 = InclUpSim.lte R (hval h a) (hval h b) :=
  (hLteS_spec hi ha hb).1

/-- … the interning part of the invariant cannot be dropped: with two live objects of the same value and a relation that is not
reflexive the pointer test fails and `noncachedLte` answers `false`, the value comparison answers `true` (all other parts of
the invariant hold: distinct addresses, empty memo tables) -/
example : (hLteS [] { store := [(0, [5]), (1, [5])] } 0 1).2 = false ∧ InclUpSim.lte [] (hval { store := [(0, [5]), (1, [5])] } 0)
    (hval { store := [(0, [5]), (1, [5])] } 1) = true := by decide

/-- **the computation behind `evalTransitionsCache`, as a LIST**: `evalTransitions` for every position and
`intersectionByLookup` leave the matching transitions of `B` in the order of `B.rules`; their parents are the list
`post B f (S₁ … Sₙ)` the `Antichain1C post` loop of the cache-free model runs over (`n ≥ 1`) – the minimisation depends on that
order, the set equality `C01_upward_eval_is_post` would not do -/
theorem C01_upward_sim_parents_in_rule_order (B : TA) (f : Nat) (Ss : List (List Nat)) (hne : Ss ≠ []) :
    parentsOf B (interAll (evalPure B f Ss.length Ss 0)) = post B f Ss :=
  parents_eq_post B f hne

example : parentsOf FCUSEx.exWB (interAll (evalPure FCUSEx.exWB 2 2 [[10, 12], [11, 12]] 0)) = [12, 10, 12, 10] := by decide

/-- **the wiring matters for the simulation variant** (regression of the deleter's wiring at the level of `checkInternal`
instantiated with a computed simulation).  With an allocator that recycles the address of a dead macro-state at once, the default
deleter (`.none`) and the slip that purges ONE key position of `lteCache` only (`.firstTwice`: `invalidateFirst` twice) (1) make
the exploration of `exWA ⊆ exWB` with the greatest upward simulation end with `return true` although a tree is accepted by `A`
only – the library's deleter answers `false`; the stale entry is reached through the relation, with the identity the default
deleter answers `false` too –, and (2) leave, on `exSA ⊆ exSB`, a memo table with an entry that is not the value of the
memoised function on the objects now at its addresses. -/
theorem C01_upward_sim_wiring_matters :
    (upSimRef (unionDisjoint FCUSEx.exWA FCUSEx.exWB) = FCUSEx.exWR ∧
     rawVerdictU (runS .none pickLeast FCUSEx.exWR FCUSEx.exWA FCUSEx.exWB 12) = some true ∧
     rawVerdictU (runS .firstTwice pickLeast FCUSEx.exWR FCUSEx.exWA FCUSEx.exWB 12) = some true ∧
     rawVerdictU (runS .lib pickLeast FCUSEx.exWR FCUSEx.exWA FCUSEx.exWB 12) = some false ∧
     rawVerdictU (runS .none pickLeast FCUSEx.exWI FCUSEx.exWA FCUSEx.exWB 12) = some false ∧
     ¬ Incl FCUSEx.exWA FCUSEx.exWB) ∧
    (upSimRef (unionDisjoint FCUSEx.exSA FCUSEx.exSB) = FCUSEx.exSR ∧
     (finalHeap (runS .none pickLeast FCUSEx.exSR FCUSEx.exSA FCUSEx.exSB 12)).map (heapOKSB FCUSEx.exSR FCUSEx.exSB) = some false ∧
     (finalHeap (runS .firstTwice pickLeast FCUSEx.exSR FCUSEx.exSA FCUSEx.exSB 12)).map (heapOKSB FCUSEx.exSR FCUSEx.exSB) =
       some false ∧
     (finalHeap (runS .lib pickLeast FCUSEx.exSR FCUSEx.exSA FCUSEx.exSB 12)).map (heapOKSB FCUSEx.exSR FCUSEx.exSB) =
       some true) :=
  ⟨⟨FCUSEx.exWR_is_upSimRef, FCUSEx.wiring_changes_verdict_sim⟩, ⟨FCUSEx.exSR_is_upSimRef, FCUSEx.wiring_breaks_invariant_sim⟩⟩

/-- whatever the wiring, the allocator and the relation: a verdict that passes the certificate check of the model is right -/
theorem C01_upward_sim_cached_verdicts (w : Wiring) (pick : List Nat → Nat) (A B : TA) (R : Rel) (fuel : Nat) (b : Bool)
    (c : Cert) (h : inclUpSimC w pick A B R fuel = some (b, c)) : b = true ↔ Incl A B :=
  inclUpSimC_iff h

example : inclUpSimC .none pickLeast FCUSEx.exWA FCUSEx.exWB FCUSEx.exWR 12 = none := FCUSEx.wiring_certificate_rejects_sim.1

/-!
## which "not proved here" item this file closes

* `C01_Caches.lean`: "the upward algorithm WITH a simulation (`inclUpSim`) …: no cached model" – there is one now
  (`Vata/FunctorCachesUpSim.lean`) and it is transparent for every allocator and every relation
  (`C01_upward_sim_caches_transparent`), exact and total on the prepared operands (`C01_upward_sim_cached_exact`); the deleter's
  wiring is needed for this variant too (`C01_upward_sim_wiring_matters`).

## still not proved

* reference counting is modelled by its effect (`hCollect` at the points where handles are dropped), not by counters; the
  `shared_ptr` mechanics themselves are in `Vata/CacheModel.lean` (`Util_Cache_*`);
* iteration orders: the antichains are walked in list order (the C++ walks `ind[q]` / `inv[q]` and for each candidate its list,
  hash-map order); the comparisons made and their results are the same, the order in which `lteCache` is filled – and hence
  WHICH stale entry a wrong deleter would hit – is not; the leaf phase acquires `ptr` once per leaf rule (the C++: once per
  symbol); the third ordering criterion of `next` (the address) is left out as in `Vata/InclUp.lean`;
* the wiring regression is shown for the two wrong wirings of `CM.Wiring` (`.none`, `.firstTwice` = first position only); a
  deleter that purges the SECOND position of `lteCache` only, or forgets `evalTransitionsCache`, is not in that type and has no
  `decide`d regression here;
* the caches of the downward algorithms with a simulation are the subject of `C01_CachesDown*.lean`, not of this file.
-/
end Vata.Props
