import Vata.Proofs.LtsContainerAbs
/-!
# C16 — the container `ExplicitLTS` as coded

**Property served (C16).**  The simulation computed by `ExplicitLTS::computeSimulation` is the greatest simulation of the
system the caller built.  The engine theorems (`C16_Engine.lean`) are about an abstract `LTS = ⟨n, edges⟩` whose views
(`LE.post`, `LE.pre`, `LE.bwLabels`, `LE.labels`, `LE.delta1`) are COMPUTED from the edge list.  This file closes the gap to
the class that really stores the system: for every history of calls the object holds exactly the system that was built,
and after `init()` every view the engine reads is the abstract one.

**How the C++ is read** (`include/vata/explicit_lts.hh`, `src/explicit_lts_sim.cc` l. 915–949; model `Vata/LtsContainer.lean`).
`LtsC` has the four fields `states_`, `transitions_`, `data_` (per label the pair (post vectors, pre vectors)),
`bwLabels_` (one `SmartSet` per state) as lists; `resize` is `resizeL`; `addTransition` grows `data_`, the two per-state
vectors and `states_` exactly under the coded conditions (`states_` is touched only inside the two `if (x >= vec.size())`
branches) and pushes to both lists; `init()` is the coded (repaired, see below)
`bwLabels_.assign(states_, SmartSet(data_.size()))` followed by the nested loops (resize both vectors of the label,
`bwLabels_[r].init(a, data_[a].second[r].size())`); `clear()` resets the
four fields.  A `SmartSet` is (range, linked list of (key, count) in list order); `init(key, count)` is `insert(key) = count`
(append behind `last_` when the key is new) or the erase branch for `count == 0`.  `Op`/`run` are histories of calls on one
object starting from `ExplicitLTS()`, `spec h` is the abstract system of the history (edges since the last `clear()` or
construction in insertion order; `n` = max(given count, largest state + 1)).

**What was found, and the repair (defect D22).**  Up to commit 810ab7a9 of /repo `init()` began with
`bwLabels_.resize(states_, SmartSet(data_.size()))`: on a second call the sets that existed already were kept (their range
too) and updated in place.  The model of that code (`initOld` / `runOld`, kept below for the regressions) showed, kernel-checked:
* a label that is new for a state is APPENDED behind the older ones, so `bwLabels(r)` is no longer increasing
  (`C16_container_old_second_init_order`);
* if the number of labels grew since the sets were created, `SmartSet::init` is called with `key ≥ index_.size()`: an
  `assert` in debug builds, an out-of-bounds access of `index_` otherwise (`C16_container_old_second_init_overrun`, the history
  `add 0 0 0; init; add 1 1 1; init`, confirmed under ASan as a heap-buffer-overflow in `ExplicitLTS::init()`).
Commit 810ab7a9 (`fix: ExplicitLTS::init() rebuilds its backward-label index`) replaced the line by
`bwLabels_.assign(states_, Util::SmartSet(data_.size()))`: every set is built anew from the empty set with the range of the
CURRENT labels.  `init` / `step` / `run` model the repaired code.  For it there is no `ub` hypothesis any more:
`C16_container_never_overruns` (every history), `C16_container_views_after_init` (after any `init()` that follows the last
`addTransition`, `bwLabels(r)` is the increasing abstract list, as a list).  There is still NO early exit: all labels and all
states are walked on every call.  On an object without an index (fresh or cleared – the only pattern in libvata itself) old
and repaired code do the same (`C16_container_repair_conservative`).

**Abstracted.**  The pointer structure of `SmartSet` (`index_`, `last_`, heap elements) is the list of its elements plus the
ghost flag `bad` (out-of-range key); `LtsC.ub` is the sticky ghost "some set went bad" (proved never to be raised by the
repaired class).  `assign(n, v)` is `List.replicate n v` (copies of an empty `SmartSet` are empty sets of the same range).
`SmartSet::erase` does not reset `last_` when it removes the last element; `C16_container_init_never_erases` shows that the
erase branch is never reached with a present key by any history.  `size_t` is `Nat`.  `computeSimulation` itself is the
engine model.
-/
namespace Vata.Props
open Vata.L Vata.LC

/-- **Refinement, every history.**  Whatever sequence of `ExplicitLTS(n)`, `addTransition`, `init`, `clear` was executed,
the object holds the abstract system of the history: `states()`, `labels()`, `transitions_`, every `post(a)[q]` and
`pre(a)[r]` list in insertion order (out-of-range indices read as empty), and the edges listed in `operator<<` order are
the added edges as a multiset.  No hypothesis. -/
theorem C16_container_refines (h : List Op) :
    (run h).states = (spec h).n ∧ (run h).labels = LE.labels (spec h) ∧
    (run h).transitions = (spec h).edges.length ∧
    (∀ a q, (run h).post a q = LE.post (spec h) a q) ∧ (∀ a r, (run h).pre a r = LE.pre (spec h) a r) ∧
    (abs (run h)).n = (spec h).n ∧ (abs (run h)).edges.Perm (spec h).edges := by
  have d := dinv_run h
  exact ⟨d.states, d.labels, d.trans, d.post, d.pre, (abs_perm _ _ d).1, (abs_perm _ _ d).2⟩

/-- the abstract system of a history in closed form: `construct n` followed by additions -/
theorem C16_container_spec_adds (n : Nat) (es : List (Nat × Nat × Nat)) :
    (spec (.construct n :: adds es)).edges = es := by
  simp [spec, List.foldl_cons, foldl_adds_spec, specStep]

/-- **No overrun, every history.**  Whatever sequence of `ExplicitLTS(n)`, `addTransition`, `init`, `clear` was executed on
the repaired class, no `SmartSet::init` / `insert` was ever called with `key ≥ index_.size()`: the ghost flag is never raised
and no set of `bwLabels_` is marked.  (For the class as it was: `C16_container_old_second_init_overrun`.)  No hypothesis. -/
theorem C16_container_never_overruns (h : List Op) :
    (run h).ub = false ∧ ∀ r, r < (run h).bw.length → ((run h).bw.getD r default).bad = false :=
  ⟨(binv_run h).ub, (binv_run h).bad⟩

/-- **Every view after `init()`.**  If the history ends with `init()` (i.e. `init()` follows the last `addTransition`;
`h` is ANY history, earlier `init()` calls, new labels and new states in between included), then everything the engine
reads equals the abstract view of the system `L = spec h`: `states()`, `labels()`, `post(a)[q]`, `pre(a)[r]` (equal as lists),
the per-label vectors have length `states()` (the engine indexes them with every state), `bwLabels_` has one set per state,
`bwLabels(r)` IS the increasing list `LE.bwLabels L r` (= the labels with an incoming edge, in iteration order) with
`count(a) = |pre(a)[r]|` for every `a`, every set has the range `labels()`, and `buildDelta1` yields exactly `LE.delta1 L a`
for every label.  No hypothesis. -/
theorem C16_container_views_after_init (h : List Op) :
    let c := run (h ++ [.init]); let L := spec h
    c.states = L.n ∧ c.labels = LE.labels L ∧
    (∀ a q, c.post a q = LE.post L a q) ∧ (∀ a r, c.pre a r = LE.pre L a r) ∧
    (∀ a, a < LE.labels L → (c.data.getD a ([], [])).1.length = L.n ∧ (c.data.getD a ([], [])).2.length = L.n) ∧
    c.bw.length = L.n ∧
    (∀ r, r < L.n → c.bwLabels r = LE.bwLabels L r ∧ (∀ a, c.bwCount r a = (LE.pre L a r).length) ∧
      (c.bw.getD r default).range = LE.labels L) ∧
    c.buildDelta1.length = LE.labels L ∧
    (∀ a, a < LE.labels L → (c.buildDelta1.getD a default).keys = LE.delta1 L a) := by
  rw [run_snoc]
  have d := dinv_run h
  have v := views_after_init _ _ d
  have d' := dinv_init _ _ d
  have bd := buildDelta1_eq _ _ d' (fun a ha => by
    have := (v.2.2.2.2.2.1 a (by rw [← d'.labels]; exact ha)).1
    rw [this]; exact d'.states.symm)
  exact ⟨v.1, v.2.1, v.2.2.2.1, v.2.2.2.2.1, v.2.2.2.2.2.1, v.2.2.2.2.2.2.1,
    fun r hr => ⟨(v.2.2.2.2.2.2.2 r hr).1, (v.2.2.2.2.2.2.2 r hr).2.1, (v.2.2.2.2.2.2.2 r hr).2.2.1⟩, bd.1,
    fun a ha => (bd.2 a ha).1⟩

/-- **The index is exact after `init()`**, stated without the abstract view: for every state `r` the iterated list
`bwLabels(r)` has no repetition and contains `a` exactly when `pre(a)[r]` of the object is non-empty. -/
theorem C16_container_index_exact (h : List Op) (r : Nat) (hr : r < (run (h ++ [.init])).states) :
    ((run (h ++ [.init])).bwLabels r).Nodup ∧
    ∀ a, a ∈ (run (h ++ [.init])).bwLabels r ↔ (run (h ++ [.init])).pre a r ≠ [] := by
  have v := C16_container_views_after_init h
  simp only at v
  rw [v.1] at hr
  rw [(v.2.2.2.2.2.2.1 r hr).1]
  refine ⟨nodup_bwLabels _ _, fun a => ?_⟩
  rw [mem_bwLabels, v.2.2.2.1]
  constructor
  · exact fun m => m.2
  · intro ne
    refine ⟨?_, ne⟩
    by_cases l : a < LE.labels (spec h)
    · exact l
    · have d := dinv_run h
      rw [← d.pre, pre_nil_of_ge _ a r (by rw [d.labels]; omega)] at ne
      exact absurd rfl ne

/-- **`init()` forgets the old index** (`assign`): what `bwLabels_` held before the call has no influence on the result. -/
theorem C16_container_init_forgets (c : LtsC) (bw' : List SSet) : init { c with bw := bw' } = init c := rfl

/-- **The repair is conservative**: on an object without an index (`bwLabels_` empty – freshly constructed or cleared) the
old `resize` and the new `assign` give the same object; so for the only pattern in libvata (`construct; addTransition*; init`,
all four callers) nothing changed. -/
theorem C16_container_repair_conservative (c : LtsC) (h : c.bw = []) : initOld c = init c := initOld_eq_init c h

/-- the same at the level of histories: for `ExplicitLTS(n); addTransition(e) for e in es; init()` the object of the old class
and that of the repaired class are EQUAL (all fields, the ghost flag included). -/
theorem C16_container_repair_conservative_one_go (n : Nat) (es : List (Nat × Nat × Nat)) :
    runOld (Op.construct n :: adds es ++ [.init]) = run (Op.construct n :: adds es ++ [.init]) := by
  simp only [runOld, run, List.cons_append, List.foldl_cons, List.foldl_append, List.foldl_nil]
  have e : stepOld (construct 0) (.construct n) = step (construct 0) (.construct n) := rfl
  rw [e, foldl_adds_old]
  exact initOld_eq_init _ (foldl_adds_bw es _).1

/-- **Built in one go** (the only pattern in libvata: `explicit_tree_transl.hh`, `explicit_finite_translate.hh`): after
`ExplicitLTS(n); addTransition(e) for e in es; init()` the system is `⟨max(n, largest state + 1), es⟩` and `bwLabels(r)` is
exactly the increasing list of the labels with an incoming edge. -/
theorem C16_container_one_go (n : Nat) (es : List (Nat × Nat × Nat)) :
    let h := Op.construct n :: adds es
    (spec h).edges = es ∧ ∀ r, r < (spec h).n → (run (h ++ [.init])).bwLabels r = LE.bwLabels (spec h) r := by
  intro h
  exact ⟨C16_container_spec_adds n es, fun r hr => ((C16_container_views_after_init h).2.2.2.2.2.2.1 r hr).1⟩

/-- **The erase branch of `SmartSet::init` is dead.**  In every history a key that is in `bwLabels_[r]` has a non-empty
`pre(a)[r]`, so `init(a, 0)` never finds an element to erase (the branch whose `erase` forgets to reset `last_`).  (With the
repaired `init()` the sets are fresh anyway; the statement also covers the states between `addTransition` calls.) -/
theorem C16_container_init_never_erases (h : List Op) (r a : Nat)
    (ha : a ∈ (run h).bwLabels r) : (run h).pre a r ≠ [] := by
  by_cases hr : r < (run h).bw.length
  · exact ((binv_run h).keys r hr).2 a ha
  · have : (run h).bwLabels r = [] := by
      simp [LtsC.bwLabels, List.getD_eq_getElem?_getD, List.getElem?_eq_none (Nat.le_of_not_lt hr)]; rfl
    rw [this] at ha; cases ha

/-! ### kernel-checked histories

States `p = 0, q = 1, t1 = 2, t2 = 3`, labels `L = 0, x = 1` (the witness of the seeded change `C16-lts-init-early-return`):
stage 1 `p -L→ t1, t2 -x→ t2`, `init()`; stage 2 `q -L→ t2`. -/

def stage1 : List Op := [.add 0 0 2, .add 3 1 3, .init]
def stage2 : List Op := stage1 ++ [.add 1 0 3]

/-- the D22 history: a new label (and a new state) between two `init()` calls -/
def d22 : List Op := [.add 0 0 0, .init, .add 1 1 1, .init]

/-- **Stale without `init()`.**  After stage 2 without a second `init()` the object holds the new edge (`pre(L)[t2] = [q]`)
but the engine would read `bwLabels(t2) = [x]`: label `L` is missing, the block of `t2` gets no counters and no remove set
for `L`.  The abstract view is `[L, x]`.  (`init()` must follow the last `addTransition`; unchanged by the repair.) -/
theorem C16_container_stale_without_init :
    (run stage2).pre 0 3 = [1] ∧ (run stage2).bwLabels 3 = [1] ∧ LE.bwLabels (spec stage2) 3 = [0, 1] := by decide

/-- **The second `init()` rebuilds** (repaired code): after stage 2 and `init()` the engine iterates `[L, x]`, the abstract
list, with the right count (instance of `C16_container_views_after_init`). -/
theorem C16_container_second_init_rebuilt :
    (run (stage2 ++ [.init])).bwLabels 3 = [0, 1] ∧ LE.bwLabels (spec stage2) 3 = [0, 1] ∧
    (run (stage2 ++ [.init])).bwCount 3 0 = 1 ∧ (run (stage2 ++ [.init])).ub = false := by decide

/-- **Regression, old code: the second `init()` updated in place.**  With `resize` the index after stage 2 and `init()` was
right as a set with the right counts but label `L` was appended behind `x`: the engine iterated `[x, L]`, the abstract model
`[L, x]`; the repaired class gives `[L, x]`. -/
theorem C16_container_old_second_init_order :
    (runOld (stage2 ++ [.init])).bwLabels 3 = [1, 0] ∧ LE.bwLabels (spec stage2) 3 = [0, 1] ∧
    (runOld (stage2 ++ [.init])).bwCount 3 0 = 1 ∧ (runOld (stage2 ++ [.init])).ub = false ∧
    (run (stage2 ++ [.init])).bwLabels 3 = [0, 1] := by decide

/-- **Regression, old code: the second `init()` overran** (defect D22) when a label was added in between:
`addTransition(0,0,0); init(); addTransition(1,1,1); init()` called `bwLabels_[0].init(1, 0)` on a set of range 1
(`assert(key < index_.size())` / out-of-bounds read of `index_`; ASan: heap-buffer-overflow).  The repaired class builds two
sets of range 2 on the same history and nothing is overrun. -/
theorem C16_container_old_second_init_overrun :
    (runOld [.add 0 0 0, .init, .add 1 1 1]).ub = false ∧ (runOld d22).ub = true ∧
    ((runOld d22).bw.getD 0 default).range = 1 ∧ ((runOld d22).bw.getD 0 default).bad = true ∧
    (run d22).ub = false ∧ (run d22).bw = [⟨2, [(0, 1)], false⟩, ⟨2, [(1, 1)], false⟩] := by decide

/-- **Regression 1** (`C16-lts-init-early-return`: `if (bwLabels_.size() == states_) return;` in front of `init()`): on the
two-stage history the patched object keeps the stale index `bwLabels(t2) = [x]` after the second `init()`, the coded one has
`[L, x]`; the patched `init()` is visibly a different function (`initEarly`). -/
theorem C16_container_regression_init_early :
    ((stage2 ++ [Op.init]).foldl stepEarly (construct 0)).bwLabels 3 = [1] ∧
    (run (stage2 ++ [.init])).bwLabels 3 = [0, 1] ∧
    ¬ ((((stage2 ++ [Op.init]).foldl stepEarly (construct 0)).bwLabels 3).Perm (LE.bwLabels (spec stage2) 3)) := by
  refine ⟨by decide, by decide, fun h => ?_⟩
  have := h.length_eq
  revert this; decide

/-- **Regression 2** (`C16-r6-lts-dedup-predecessors`: consecutive duplicate predecessors are dropped, successors kept): for
the doubled edge `0 -0→ 1` the patched object has `post(0)[0] = [1, 1]` but `pre(0)[1] = [0]`; the coded one `[0, 0]`, which is
the abstract `pre` (the counters are initialised from `post` and decremented along `pre`). -/
theorem C16_container_regression_dedup :
    let h : List Op := [.add 0 0 1, .add 0 0 1, .init]
    (h.foldl stepDedup (construct 0)).post 0 0 = [1, 1] ∧ (h.foldl stepDedup (construct 0)).pre 0 1 = [0] ∧
    (run h).pre 0 1 = [0, 0] ∧ LE.pre (spec h) 0 1 = [0, 0] := by decide

/-! ### non-vacuity -/

example : (run d22).bwLabels 1 = LE.bwLabels (spec d22) 1 ∧ (run d22).bwLabels 1 = [1] := by decide
example : (run [.construct 5, .add 0 0 2, .add 0 0 2, .add 4 2 0, .init]).states = 5 ∧
    (run [.construct 5, .add 0 0 2, .add 0 0 2, .add 4 2 0, .init]).bwLabels 2 = [0] ∧
    (run [.construct 5, .add 0 0 2, .add 0 0 2, .add 4 2 0, .init]).bwCount 2 0 = 2 ∧
    (run [.construct 5, .add 0 0 2, .add 0 0 2, .add 4 2 0, .init]).ub = false := by decide
example : (run [.add 0 1 0, .init, .add 2 0 0, .add 1 3 0, .init]).bwLabels 0 = [0, 1, 3] ∧
    (runOld [.add 0 1 0, .init, .add 2 0 0, .add 1 3 0, .init]).ub = true := by decide
example : (abs (run (stage2 ++ [.clear, .add 1 0 0]))).edges = [(1, 0, 0)] := by decide
example : (run stage2).bwLabels 3 ≠ [] ∧ 1 ∈ (run stage2).bwLabels 3 := by decide
example : (run stage1).bw = [] → False := by decide
example : runOld (Op.construct 3 :: adds [(0, 1, 2), (2, 0, 2)] ++ [.init]) =
    run (Op.construct 3 :: adds [(0, 1, 2), (2, 0, 2)] ++ [.init]) := by decide

/-!
## still not proved

* A composed statement "`computeSimulation` on the object of a history = the engine model on `spec h`" is not a theorem:
  the engine model (`LE.*`) takes the abstract `LTS` and COMPUTES its views from the edge list, it cannot be run on an
  `LtsC`.  What is proved is that after `init()` every view the engine reads from the object EQUALS (lists, counts, vector
  lengths) the view the engine model computes – for every history, several `init()` calls included; the order caveat of the
  unrepaired class (`C16_container_old_second_init_order`) is gone.
* The seeded regressions are shown on the container views only (stale / inconsistent view); that the engine then returns a
  non-simulation is shown by the C++ demos, not in Lean (the engine model cannot be fed an inconsistent `pre`/`bwLabels`).
* For the class as it WAS only the two kernel-checked histories are kept (`runOld`); the general criterion of when the old
  `init()` was clean (every existing set created for the present number of labels) was proved for the old model in T128 and
  is not carried over.
* That `assign` really releases and rebuilds the heap elements of the old sets (destructors of `SmartSet`, no leak) is
  outside the model: a `SmartSet` is its element list.
* `operator<<` iterates `q < data_[a].second.size()` while indexing `data_[a].first[q]` (safe only after `init()`); `abs`
  uses `states_` for the bound and `getD`; the printing itself is not modelled.
-/
end Vata.Props
