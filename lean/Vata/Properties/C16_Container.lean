import Vata.Proofs.LtsContainerAbs
/-!
# C16 — the container `ExplicitLTS` as coded

**Property served (C16).**  The simulation computed by `ExplicitLTS::computeSimulation` is the greatest simulation of the
system the caller built.  The engine theorems (`C16_Engine.lean`) are about an abstract `LTS = ⟨n, edges⟩` whose views
(`LE.post`, `LE.pre`, `LE.bwLabels`, `LE.labels`, `LE.delta1`) are COMPUTED from the edge list.  This file closes the gap to
the class that really stores the system: for every history of calls the object holds exactly the system that was built,
and after `init()` every view the engine reads is the abstract one.

**How the C++ is read** (`include/vata/explicit_lts.hh`, `src/explicit_lts_sim.cc` l. 915–949; model `Vata/LtsContainer.lean`).
`LtsC` has the four fields `states_`, `transitions_`, `data_` (per label the pair (post vectors, pre vectors)),
`bwLabels_` (one `SmartSet` per state) as lists; `resize` is `resizeL`; `addTransition` grows `data_`, the two per-state
vectors and `states_` exactly under the coded conditions (`states_` is touched only inside the two `if (x >= vec.size())`
branches) and pushes to both lists; `init()` is the coded `bwLabels_.resize(states_, SmartSet(data_.size()))` followed by the
nested loops (resize both vectors of the label, `bwLabels_[r].init(a, data_[a].second[r].size())`); `clear()` resets the
four fields.  A `SmartSet` is (range, linked list of (key, count) in list order); `init(key, count)` is `insert(key) = count`
(append behind `last_` when the key is new) or the erase branch for `count == 0`.  `Op`/`run` are histories of calls on one
object starting from `ExplicitLTS()`, `spec h` is the abstract system of the history (edges since the last `clear()` or
construction in insertion order; `n` = max(given count, largest state + 1)).

**What `init()` really does on a second call.**  There is NO early exit: all labels and all states are walked again, the
sets that exist already are kept (their range too) and updated in place.  Two consequences, both kernel-checked below:
* a label that is new for a state is APPENDED behind the older ones, so `bwLabels(r)` is no longer increasing
  (`C16_container_second_init_order`); it is still the right set with the right counts (`C16_container_views_after_init`);
* if the number of labels grew since the sets were created, `SmartSet::init` is called with `key ≥ index_.size()`: an
  `assert` in debug builds, an out-of-bounds access of `index_` otherwise (`C16_container_second_init_overrun`;
  exact criterion `C16_container_init_clean_iff`).  libvata itself only builds systems in one go
  (`construct; addTransition*; init`, all four callers), where this cannot happen (`C16_container_one_go`).

**Abstracted.**  The pointer structure of `SmartSet` (`index_`, `last_`, heap elements) is the list of its elements plus the
ghost flag `bad` (out-of-range key); `LtsC.ub` is the sticky ghost "some set went bad".  After `ub` nothing is claimed.
`SmartSet::erase` does not reset `last_` when it removes the last element; `C16_container_init_never_erases` shows that the
erase branch is never reached with a present key by any history.  `size_t` is `Nat`.  `computeSimulation` itself is the
engine model.
-/
namespace Vata.Props
open Vata.L Vata.LC

/-- **Refinement, every history.**  Whatever sequence of `ExplicitLTS(n)`, `addTransition`, `init`, `clear` was executed,
the object holds the abstract system of the history: `states()`, `labels()`, `transitions_`, every `post(a)[q]` and
`pre(a)[r]` list in insertion order (out-of-range indices read as empty), and the edges listed in `operator<<` order are
the added edges as a multiset.  No hypothesis. -/
theorem C16_container_refines (h : List Op) :
    (run h).states = (spec h).n ∧ (run h).labels = LE.labels (spec h) ∧
    (run h).transitions = (spec h).edges.length ∧
    (∀ a q, (run h).post a q = LE.post (spec h) a q) ∧ (∀ a r, (run h).pre a r = LE.pre (spec h) a r) ∧
    (abs (run h)).n = (spec h).n ∧ (abs (run h)).edges.Perm (spec h).edges := by
  have d := dinv_run h
  exact ⟨d.states, d.labels, d.trans, d.post, d.pre, (abs_perm _ _ d).1, (abs_perm _ _ d).2⟩

/-- the abstract system of a history in closed form: `construct n` followed by additions -/
theorem C16_container_spec_adds (n : Nat) (es : List (Nat × Nat × Nat)) :
    (spec (.construct n :: adds es)).edges = es := by
  simp [spec, List.foldl_cons, foldl_adds_spec, specStep]

/-- **Every view after `init()`.**  If the history ends with `init()` (i.e. `init()` follows the last `addTransition`) and no
`SmartSet` was overrun, then everything the engine reads equals the abstract view of the system `L = spec h`:
`states()`, `labels()`, `post(a)[q]`, `pre(a)[r]` (equal as lists), the per-label vectors have length `states()` (the engine
indexes them with every state), `bwLabels_` has one set per state, `bwLabels(r)` is a permutation of the increasing list
`LE.bwLabels L r` (= the labels with an incoming edge) with `count(a) = |pre(a)[r]|`, it is EQUAL to it for every state whose
set is created by this `init()`, and `buildDelta1` yields exactly `LE.delta1 L a` for every label. -/
theorem C16_container_views_after_init (h : List Op) (hub : (run (h ++ [.init])).ub = false) :
    let c := run (h ++ [.init]); let L := spec h
    c.states = L.n ∧ c.labels = LE.labels L ∧
    (∀ a q, c.post a q = LE.post L a q) ∧ (∀ a r, c.pre a r = LE.pre L a r) ∧
    (∀ a, a < LE.labels L → (c.data.getD a ([], [])).1.length = L.n ∧ (c.data.getD a ([], [])).2.length = L.n) ∧
    c.bw.length = L.n ∧
    (∀ r, r < L.n → (c.bwLabels r).Perm (LE.bwLabels L r) ∧
      (∀ a, a < LE.labels L → c.bwCount r a = (LE.pre L a r).length) ∧
      ((run h).bw.length ≤ r → c.bwLabels r = LE.bwLabels L r)) ∧
    c.buildDelta1.length = LE.labels L ∧
    (∀ a, a < LE.labels L → (c.buildDelta1.getD a default).keys = LE.delta1 L a) := by
  rw [run_snoc] at hub ⊢
  have d := dinv_run h
  have v := views_after_init _ _ d (binv_run h) hub
  have d' := dinv_init _ _ d
  have bd := buildDelta1_eq _ _ d' (fun a ha => by
    have := (v.2.2.2.2.2.1 a (by rw [← d'.labels]; exact ha)).1
    rw [this]; exact d'.states.symm)
  exact ⟨v.1, v.2.1, v.2.2.2.1, v.2.2.2.2.1, v.2.2.2.2.2.1, v.2.2.2.2.2.2.1, v.2.2.2.2.2.2.2, bd.1,
    fun a ha => (bd.2 a ha).1⟩

/-- **When is `init()` clean.**  `init()` overruns no `SmartSet` exactly when nothing was overrun before and every set that
exists already was created for the present number of labels (sets are created by the first `init()` after a `clear()` /
construction, or by a later `init()` for states added meanwhile). -/
theorem C16_container_init_clean_iff (h : List Op) :
    (run (h ++ [.init])).ub = false ↔
      (run h).ub = false ∧ ∀ r, r < (run h).bw.length → ((run h).bw.getD r default).range = (run h).labels := by
  rw [run_snoc]; exact init_ub_iff _ _ (dinv_run h) (binv_run h)

/-- **Built in one go** (the only pattern in libvata: `explicit_tree_transl.hh`, `explicit_finite_translate.hh`): after
`ExplicitLTS(n); addTransition(e) for e in es; init()` nothing is overrun and `bwLabels(r)` is exactly the increasing list of
the labels with an incoming edge; the system is `⟨max(n, largest state + 1), es⟩`. -/
theorem C16_container_one_go (n : Nat) (es : List (Nat × Nat × Nat)) :
    let h := Op.construct n :: adds es
    (run (h ++ [.init])).ub = false ∧ (spec h).edges = es ∧
    ∀ r, r < (spec h).n → (run (h ++ [.init])).bwLabels r = LE.bwLabels (spec h) r := by
  intro h
  have hb : (run h).bw = [] ∧ (run h).ub = false := by
    have := foldl_adds_bw es (step (construct 0) (.construct n))
    exact this
  have hub : (run (h ++ [.init])).ub = false :=
    (C16_container_init_clean_iff h).2 ⟨hb.2, fun r hr => by rw [hb.1] at hr; cases hr⟩
  refine ⟨hub, C16_container_spec_adds n es, fun r hr => ?_⟩
  exact ((C16_container_views_after_init h hub).2.2.2.2.2.2.1 r hr).2.2 (by rw [hb.1]; exact Nat.zero_le _)

/-- **The erase branch of `SmartSet::init` is dead.**  In every history (without an overrun) a key that is in `bwLabels_[r]`
has a non-empty `pre(a)[r]`, so `init(a, 0)` never finds an element to erase (the branch whose `erase` forgets to reset
`last_`). -/
theorem C16_container_init_never_erases (h : List Op) (hub : (run h).ub = false) (r a : Nat)
    (ha : a ∈ (run h).bwLabels r) : (run h).pre a r ≠ [] := by
  by_cases hr : r < (run h).bw.length
  · exact ((binv_run h).keys hub r hr).2 a ha
  · have : (run h).bwLabels r = [] := by
      simp [LtsC.bwLabels, List.getD_eq_getElem?_getD, List.getElem?_eq_none (Nat.le_of_not_lt hr)]; rfl
    rw [this] at ha; cases ha

/-! ### kernel-checked histories

States `p = 0, q = 1, t1 = 2, t2 = 3`, labels `L = 0, x = 1` (the witness of the seeded change `C16-lts-init-early-return`):
stage 1 `p -L→ t1, t2 -x→ t2`, `init()`; stage 2 `q -L→ t2`. -/

def stage1 : List Op := [.add 0 0 2, .add 3 1 3, .init]
def stage2 : List Op := stage1 ++ [.add 1 0 3]

/-- **Stale without `init()`.**  After stage 2 without a second `init()` the object holds the new edge (`pre(L)[t2] = [q]`)
but the engine would read `bwLabels(t2) = [x]`: label `L` is missing, the block of `t2` gets no counters and no remove set
for `L`.  The abstract view is `[L, x]`. -/
theorem C16_container_stale_without_init :
    (run stage2).pre 0 3 = [1] ∧ (run stage2).bwLabels 3 = [1] ∧ LE.bwLabels (spec stage2) 3 = [0, 1] := by decide

/-- **The second `init()` rebuilds, in place.**  After stage 2 and `init()` the index is right as a set with the right counts
but label `L` was appended behind `x`: the engine iterates `[x, L]`, the abstract model `[L, x]`.  (The coded `init()` has no
early exit; nothing is overrun here because the number of labels did not change.) -/
theorem C16_container_second_init_order :
    (run (stage2 ++ [.init])).bwLabels 3 = [1, 0] ∧ LE.bwLabels (spec stage2) 3 = [0, 1] ∧
    (run (stage2 ++ [.init])).bwCount 3 0 = 1 ∧ (run (stage2 ++ [.init])).ub = false := by decide

/-- **The second `init()` overruns** when a label was added in between: `addTransition(0,0,0); init(); addTransition(1,1,1);
init()` calls `bwLabels_[0].init(1, 0)` on a set of range 1 (`assert(key < index_.size())` / out-of-bounds read of `index_`). -/
theorem C16_container_second_init_overrun :
    (run [.add 0 0 0, .init, .add 1 1 1]).ub = false ∧ (run [.add 0 0 0, .init, .add 1 1 1, .init]).ub = true := by decide

/-- **Regression 1** (`C16-lts-init-early-return`: `if (bwLabels_.size() == states_) return;` in front of `init()`): on the
two-stage history the patched object keeps the stale index `bwLabels(t2) = [x]` after the second `init()`, the coded one has
`[x, L]`; the patched `init()` is visibly a different function (`initEarly`). -/
theorem C16_container_regression_init_early :
    ((stage2 ++ [Op.init]).foldl stepEarly (construct 0)).bwLabels 3 = [1] ∧
    (run (stage2 ++ [.init])).bwLabels 3 = [1, 0] ∧
    ¬ ((((stage2 ++ [Op.init]).foldl stepEarly (construct 0)).bwLabels 3).Perm (LE.bwLabels (spec stage2) 3)) := by
  refine ⟨by decide, by decide, fun h => ?_⟩
  have := h.length_eq
  revert this; decide

/-- **Regression 2** (`C16-r6-lts-dedup-predecessors`: consecutive duplicate predecessors are dropped, successors kept): for
the doubled edge `0 -0→ 1` the patched object has `post(0)[0] = [1, 1]` but `pre(0)[1] = [0]`; the coded one `[0, 0]`, which is
the abstract `pre` (the counters are initialised from `post` and decremented along `pre`). -/
theorem C16_container_regression_dedup :
    let h : List Op := [.add 0 0 1, .add 0 0 1, .init]
    (h.foldl stepDedup (construct 0)).post 0 0 = [1, 1] ∧ (h.foldl stepDedup (construct 0)).pre 0 1 = [0] ∧
    (run h).pre 0 1 = [0, 0] ∧ LE.pre (spec h) 0 1 = [0, 0] := by decide

/-! ### non-vacuity -/

example : (run (stage2 ++ [.init])).ub = false := by decide
example : (run [.construct 5, .add 0 0 2, .add 0 0 2, .add 4 2 0, .init]).states = 5 ∧
    (run [.construct 5, .add 0 0 2, .add 0 0 2, .add 4 2 0, .init]).bwLabels 2 = [0] ∧
    (run [.construct 5, .add 0 0 2, .add 0 0 2, .add 4 2 0, .init]).bwCount 2 0 = 2 ∧
    (run [.construct 5, .add 0 0 2, .add 0 0 2, .add 4 2 0, .init]).ub = false := by decide
example : (abs (run (stage2 ++ [.clear, .add 1 0 0]))).edges = [(1, 0, 0)] := by decide
example : (run stage2).bwLabels 3 ≠ [] ∧ 1 ∈ (run stage2).bwLabels 3 := by decide

/-!
## still not proved

* The link to the ENGINE for histories with several `init()` calls: after a second `init()` the engine iterates
  `bwLabels(r)` in a permuted order (`C16_container_second_init_order`), while the engine model (`LE.mkInset`,
  `LE.moveInset`) takes the increasing `LE.bwLabels`.  That the engine's result does not depend on this order is not proved
  here (for systems built in one go, `C16_container_one_go`, the lists are equal and the engine theorems apply verbatim).
* The seeded regressions are shown on the container views only (stale / inconsistent view); that the engine then returns a
  non-simulation is shown by the C++ demos, not in Lean (the engine model cannot be fed an inconsistent `pre`/`bwLabels`).
* Nothing is claimed after an overrun (`ub = true`); a history-level closed form of `C16_container_init_clean_iff`
  ("the number of labels at every `init()` since the last `clear()` equals that of the first one that created a set") is
  not stated.
* `operator<<` iterates `q < data_[a].second.size()` while indexing `data_[a].first[q]` (safe only after `init()`); `abs`
  uses `states_` for the bound and `getD`; the printing itself is not modelled.
-/
end Vata.Props
