import Vata.Proofs.InclDownTablesClass2Run
import Vata.Properties.C07_TraverseDown2
/-!
# C07 – top-down tables with symbol classes of arity > 0: the two runs are EQUAL (identity preorder)

Property served (C07): *"the BDD inclusion algorithms return the verdict of the explicit ones"*; the item left open by
`Vata/Properties/C07_TraverseDown2.lean`: when two ranked symbols of arity `> 0` of a state of the LEFT table select the same set of
children tuples, the traversal as coded (`ForeachDownSymbolFromStateAndStateSetDo` through `VoidApply2Functor`: ONE call of
`DownwardInclusionFunctor::operator()` per pair of leaves) and the abstract model `InclDown.expand` on the dump in path order (one
call `procGroup` per ranked symbol: the class is processed TWICE or more, possibly with other symbols in between) were only known
to return the same verdict.  Here: for `ANTICHAINS_DOWN_REC_NOSIM` (`idOrd`) they leave the SAME `childrenCache`, `nonincluded`
(with the witness trees) and `trues` – plain equality of the results, not only equality up to redundancy.

How the C++ is read into the model: as in `C07_TraverseDown.lean` / `C07_TraverseDown2.lean` (`expandT`, `bodyT`, `procLeaf`, `runTD`
of `Vata/InclDownTables.lean`; `expand`, `body`, `procGroup`, `run` of `Vata/InclDown.lean`).  Nothing new is modelled.

What is proved (`Vata/Proofs/InclDownTablesClass2*.lean`).

* The invariant `GI A B ws cc st` of one functor with pending calls `ws` (`workset_`): `Inv` of the exploration PLUS the
  relative-completeness clause the paper argument of `C07_TraverseDown2.lean` names – *no entry of `nonincluded` implies a pair that
  is subsumed by `trues ++ ws`* – PLUS "no pair of `trues ++ ws` has an empty right-hand set".  It holds initially and is kept by
  every call (`C07_relative_completeness`), by induction on the fuel together with: a call for a pair subsumed by `trues ++ ws`
  never fails (a failing choice function of `(x, X)` restricts to a choice function of the closed pair `(x, S')`, `S' ⊆ X`, which has
  a subsumed position; the call for that position is a call on a subsumed pair).
* **The key lemma** `C07_repeated_group_call_idempotent`: a call `procGroup` that returned `holds` is idempotent on its post-state and
  on every LATER state of the same functor (`LeI`: more covered by `childrenCache`, more implied by `nonincluded`, more `trues`):
  a second call for a group with the same (lhs tuple set, rhs tuple set) returns `holds` and leaves `childrenCache`, `nonincluded`,
  `trues` untouched.
* `C07_traverse_downward_algorithm_general`: `expandT` on the tables = `expand` on the dumps on every state that satisfies `GI`
  (in particular from the initial state), for every fuel; `C07_traverse_downward_run_general`: `runTD = run`.

What is abstracted: as in `C07_TraverseDown.lean`.

Hypotheses: `TabOK` tables, `syms` increasing / bounded / covering the left table (hold for loaded tables with `rankSyms`);
`WitOK A wit` (the ghost table of trees holds a tree of every child state: it is what makes the entries of `nonincluded`
separating trees, part of `Inv`; `prodWit A` when the children of the rules of `A` are productive – the precondition "no useless
states" of the C++); the state satisfies `GI` (forced by the proof: the equality of the two runs is an invariant property – it is
proved for all states the algorithm can reach, which `GI` over-approximates; whether it holds for arbitrary garbage states is not
known and irrelevant); the right-hand set of the call is not empty (the functor never calls `expand` with an empty set; for the
whole run: `FB ≠ []`).
-/
namespace Vata.Props
open Vata Vata.M Vata.BddAbs Vata.BddAbsTD Vata.BddTraverse Vata.InclDown Vata.InclDownTables
open Vata.InclUp (prodWit normS)

section
variable {n : Nat} {ar : Nat → Nat} {syms : List Nat} {TA TB : TableTD}

/-- the two hypotheses of the induction, for the dumps in path order -/
theorem C07_general_aux (FA FB : List Nat) (hs : syms.Pairwise (· < ·)) (hb : ∀ c, c ∈ syms → c < 2 ^ n)
    (hcov : ∀ p c, c < 2 ^ n → eval (getTD TA p) (bits c) ≠ [] → c ∈ syms)
    (okA : TabOK n ar TA) (okB : TabOK n ar TB) {wit : InclUp.Wit} (hW : WitOK (pathOrder syms TA FA) wit) :
    (∀ (ws : List Pair) (cT cM : Call), CallGood (frameI (pathOrder syms TA FA) (pathOrder syms TB FB) ws) cT cM cT →
      ∀ p P cc st, GI (pathOrder syms TA FA) (pathOrder syms TB FB) ws cc st →
        bodyT cT cT TA TB wit normS p P cc st =
          body cM cM (pathOrder syms TA FA) (pathOrder syms TB FB) wit normS p P cc st) ∧
    (∀ fuel ws, CallSpec idOrd (pathOrder syms TA FA) (pathOrder syms TB FB) ws (expandT idOrd TA TB wit fuel ws)) :=
  ⟨fun _ _ _ hc p P cc st hG => bodyT_eq_good FA FB hs hb hcov okA okB hc wit normS p P cc st hG,
   fun fuel ws => expandT_spec (callsCover_pathOrder FA FB hs hb hcov okA okB) (idOrd_langOrd _ _) ordRefl_id hW fuel ws⟩

/-- the initial state of a run satisfies the invariant -/
theorem C07_gi_init (A B : Vata.TA) : GI A B [] [] ⟨[], []⟩ :=
  gi_nil_of_inv (inv_init idOrd A B) (fun _ ht => by cases ht)

/-- **`C07_relative_completeness`**: the invariant `GI` (with the clause "no entry of `nonincluded` implies a pair subsumed by
`trues ++ ws`") is kept by every call of `expand` on a pair with a non-empty set, the state only grows (`LeI`), and a call for a
pair that IS subsumed by `trues ++ ws` never returns `fails` -/
theorem C07_relative_completeness (FA FB : List Nat) (hs : syms.Pairwise (· < ·)) (hb : ∀ c, c ∈ syms → c < 2 ^ n)
    (hcov : ∀ p c, c < 2 ^ n → eval (getTD TA p) (bits c) ≠ [] → c ∈ syms)
    (okA : TabOK n ar TA) (okB : TabOK n ar TB) {wit : InclUp.Wit} (hW : WitOK (pathOrder syms TA FA) wit)
    (fuel : Nat) (ws cc : List Pair) (st : St) (p : Nat) (P : List Nat) (hP : P ≠ [])
    (hG : GI (pathOrder syms TA FA) (pathOrder syms TB FB) ws cc st) :
    (∀ v cc' st', expand idOrd (pathOrder syms TA FA) (pathOrder syms TB FB) wit fuel ws cc st p P = some (v, cc', st') →
      GI (pathOrder syms TA FA) (pathOrder syms TB FB) ws cc' st' ∧ LeI cc st cc' st') ∧
    (Sub (st.trues ++ ws) p P → ∀ w cc' st',
      expand idOrd (pathOrder syms TA FA) (pathOrder syms TB FB) wit fuel ws cc st p P ≠ some (.fails w, cc', st')) := by
  obtain ⟨h1, h2⟩ := C07_general_aux FA FB hs hb hcov okA okB hW
  obtain ⟨hcg, hrc⟩ := full_expand h1 h2 fuel ws
  refine ⟨fun v cc' st' h => ?_, fun hsub => hrc p P cc st hP hG hsub⟩
  obtain ⟨g, l, _⟩ := (callGood_model hcg p P hP cc st hG).2 v cc' st' h
  exact ⟨g, l⟩

/-- **`C07_repeated_group_call_idempotent`** (the key lemma).  In the body of the call for `(p, P)` (pending calls
`(p, P) :: ws`, recursive calls `expand … fuel ((p, P) :: ws)`), let the call `procGroup` for the group `g` return `holds` from a
state that satisfies the invariant.  Then its post-state satisfies the invariant, and in the post-state AND in every later state of
the same functor (`LeI`, e.g. after the groups of other symbols returned `holds`), the call `procGroup` for every group `g'` with the
same lhs tuple set and the same rhs tuple set returns `holds` again and leaves `childrenCache`, `nonincluded` and `trues` unchanged -/
theorem C07_repeated_group_call_idempotent (FA FB : List Nat) (hs : syms.Pairwise (· < ·)) (hb : ∀ c, c ∈ syms → c < 2 ^ n)
    (hcov : ∀ p c, c < 2 ^ n → eval (getTD TA p) (bits c) ≠ [] → c ∈ syms)
    (okA : TabOK n ar TA) (okB : TabOK n ar TB) {wit : InclUp.Wit} (hW : WitOK (pathOrder syms TA FA) wit)
    (fuel : Nat) (ws : List Pair) (p : Nat) (P : List Nat) {g g' : Nat × Nat}
    (hg : g ∈ lhsGroups (pathOrder syms TA FA) p) (hg' : g' ∈ lhsGroups (pathOrder syms TA FA) p)
    (hL : lhsTuples (pathOrder syms TA FA) p g'.1 g'.2 = lhsTuples (pathOrder syms TA FA) p g.1 g.2)
    (hR : rhsTuples (pathOrder syms TB FB) P g'.1 g'.2 = rhsTuples (pathOrder syms TB FB) P g.1 g.2)
    (cc : List Pair) (st : St) (hG : GI (pathOrder syms TA FA) (pathOrder syms TB FB) ((p, P) :: ws) cc st)
    (cc' : List Pair) (st' : St)
    (h : procGroup (expand idOrd (pathOrder syms TA FA) (pathOrder syms TB FB) wit fuel ((p, P) :: ws))
        (expand idOrd (pathOrder syms TA FA) (pathOrder syms TB FB) wit fuel ((p, P) :: ws))
        (pathOrder syms TA FA) (pathOrder syms TB FB) wit normS p P g.1 g.2 cc st = some (.holds, cc', st')) :
    GI (pathOrder syms TA FA) (pathOrder syms TB FB) ((p, P) :: ws) cc' st' ∧ LeI cc st cc' st' ∧
    ∀ c2 s2, LeI cc' st' c2 s2 → GI (pathOrder syms TA FA) (pathOrder syms TB FB) ((p, P) :: ws) c2 s2 →
      procGroup (expand idOrd (pathOrder syms TA FA) (pathOrder syms TB FB) wit fuel ((p, P) :: ws))
        (expand idOrd (pathOrder syms TA FA) (pathOrder syms TB FB) wit fuel ((p, P) :: ws))
        (pathOrder syms TA FA) (pathOrder syms TB FB) wit normS p P g'.1 g'.2 c2 s2 = some (.holds, c2, s2) := by
  obtain ⟨h1, h2⟩ := C07_general_aux FA FB hs hb hcov okA okB hW
  obtain ⟨hcg, _⟩ := full_expand h1 h2 fuel ((p, P) :: ws)
  have hcM := callGood_model hcg
  rw [procGroup_eq_procLeaf _ _ _ _ wit normS p P hg] at h
  obtain ⟨k1, k2, k3⟩ := (good_procLeaf hcM wit normS g.1 g'.1 _ _ cc st hG).2 _ _ _ h
  refine ⟨k1, k2, fun c2 s2 hle hG2 => ?_⟩
  obtain ⟨v', hk, he⟩ := k3 c2 s2 hle hG2
  rw [procGroup_eq_procLeaf _ _ _ _ wit normS p P hg', hL, hR, he, sameKind_holds hk]

/-- **`C07_traverse_downward_algorithm_general`** (`ANTICHAINS_DOWN_REC_NOSIM`).  `TabOK` tables, `syms` increasing, bounded,
covering the left table – NO symbol-determinism of any kind; `A`, `B` the dumps in path order.  On every state that satisfies the
invariant `GI` (every state a run reaches) and every pair with a non-empty set, the recursive call as coded on the tables IS the call
of the abstract model on the dumps: same verdict, same `childrenCache`, same `nonincluded` (with the witness trees), same `trues`,
for every fuel (in particular the same answers `none`) -/
theorem C07_traverse_downward_algorithm_general (FA FB : List Nat) (hs : syms.Pairwise (· < ·))
    (hb : ∀ c, c ∈ syms → c < 2 ^ n) (hcov : ∀ p c, c < 2 ^ n → eval (getTD TA p) (bits c) ≠ [] → c ∈ syms)
    (okA : TabOK n ar TA) (okB : TabOK n ar TB) {wit : InclUp.Wit} (hW : WitOK (pathOrder syms TA FA) wit)
    (fuel : Nat) (ws cc : List Pair) (st : St) (p : Nat) (P : List Nat) (hP : P ≠ [])
    (hG : GI (pathOrder syms TA FA) (pathOrder syms TB FB) ws cc st) :
    expandT idOrd TA TB wit fuel ws cc st p P =
      expand idOrd (pathOrder syms TA FA) (pathOrder syms TB FB) wit fuel ws cc st p P := by
  obtain ⟨h1, h2⟩ := C07_general_aux FA FB hs hb hcov okA okB hW
  exact ((full_expand h1 h2 fuel ws).1 p P hP cc st hG).1

/-- the statement asked for, from the initial state: `showRet (expandT …) = showRet (expand … (pathOrder …))` -/
theorem C07_traverse_downward_algorithm_general_showRet (FA FB : List Nat) (hs : syms.Pairwise (· < ·))
    (hb : ∀ c, c ∈ syms → c < 2 ^ n) (hcov : ∀ p c, c < 2 ^ n → eval (getTD TA p) (bits c) ≠ [] → c ∈ syms)
    (okA : TabOK n ar TA) (okB : TabOK n ar TB) {wit : InclUp.Wit} (hW : WitOK (pathOrder syms TA FA) wit)
    (fuel : Nat) (p : Nat) (P : List Nat) (hP : P ≠ []) :
    showRet (expandT idOrd TA TB wit fuel [] [] ⟨[], []⟩ p P) =
      showRet (expand idOrd (pathOrder syms TA FA) (pathOrder syms TB FB) wit fuel [] [] ⟨[], []⟩ p P) := by
  rw [C07_traverse_downward_algorithm_general FA FB hs hb hcov okA okB hW fuel [] [] _ p P hP (C07_gi_init _ _)]

/-- **`C07_traverse_downward_run_general`**: the whole run of `CheckDownwardTreeInclusion` on the tables IS `InclDown.run` on the
dumps (verdict, the set `trues` returned, the witness tree), for every fuel – when the children of the rules of the left dump are
productive (no useless states) and the right automaton has a final state -/
theorem C07_traverse_downward_run_general (FA FB : List Nat) (hs : syms.Pairwise (· < ·))
    (hb : ∀ c, c ∈ syms → c < 2 ^ n) (hcov : ∀ p c, c < 2 ^ n → eval (getTD TA p) (bits c) ≠ [] → c ∈ syms)
    (okA : TabOK n ar TA) (okB : TabOK n ar TB) (hK : KidsProductive (pathOrder syms TA FA)) (hFB : FB ≠ []) (fuel : Nat) :
    runTD idOrd TA FA TB FB (prodWit (pathOrder syms TA FA)) fuel =
      run idOrd (pathOrder syms TA FA) (pathOrder syms TB FB) fuel := by
  have hW := witOK_prodWit hK
  obtain ⟨h1, h2⟩ := C07_general_aux FA FB hs hb hcov okA okB hW
  exact runTD_eq_good (A := pathOrder syms TA FA) (B := pathOrder syms TB FB) h1 h2 hW hFB fuel

end

/-- loaded tables, rule-level hypotheses only (arities `< 64`, no useless states in the left dump, a final state on the right) -/
theorem C07_traverse_downward_loaded_general (rsA rsB : List Rule) (hA : ∀ r, r ∈ rsA → r.kids.length < 64)
    (hB : ∀ r, r ∈ rsB → r.kids.length < 64) (FA FB : List Nat)
    (hK : KidsProductive (pathOrder (rankSyms (rsA ++ rsB)) (ofRulesTD rsA) FA)) (hFB : FB ≠ []) (fuel : Nat) :
    runTD idOrd (ofRulesTD rsA) FA (ofRulesTD rsB) FB (prodWit (pathOrder (rankSyms (rsA ++ rsB)) (ofRulesTD rsA) FA)) fuel =
      run idOrd (pathOrder (rankSyms (rsA ++ rsB)) (ofRulesTD rsA) FA) (pathOrder (rankSyms (rsA ++ rsB)) (ofRulesTD rsB) FB) fuel :=
  have hk := rankSyms_ok (rs' := rsA) (rs := rsA ++ rsB) (fun _ h => List.mem_append_left _ h)
  C07_traverse_downward_run_general FA FB hk.1 hk.2.1 hk.2.2 (tabOK_ofRulesTD rsA hA) (tabOK_ofRulesTD rsB hB) hK hFB fuel

/-! ## non-vacuity: a class of two UNARY symbols

`n = 2`; symbol 0 is nullary, symbols 1, 2, 3 are unary.  Left table: `0 → 1`, `2(1) → 5`, `3(1) → 5` (the class `{2, 3}` of state 5:
ONE leaf `{(1)}`); right table: `0 → 3`, `2(3) → 4`, `3(3) → 4`, `1(3) → 4`. -/
namespace TD3Ex
def ar : Nat → Nat := fun c => if c = 0 then 0 else 1
def tL : TableTD := [(1, .node 1 (.node 0 (.leaf [[]]) (.leaf [])) (.leaf [])), (5, .node 1 (.leaf []) (.leaf [[1]]))]
def tR : TableTD :=
  [(3, .node 1 (.node 0 (.leaf [[]]) (.leaf [])) (.leaf [])), (4, .node 1 (.node 0 (.leaf []) (.leaf [[3]])) (.leaf [[3]]))]

theorem okL : TabOK 2 ar tL := by
  refine tabOK_of_entries (fun e he => ?_)
  simp only [tL, List.mem_cons, List.not_mem_nil, or_false] at he
  rcases he with rfl | rfl
  · refine ⟨by simp [WF, Below], fun c hc => ?_, fun c ks hc => ?_⟩
    · rcases TDEx.lt4 hc with rfl | rfl | rfl | rfl <;> decide
    · rcases TDEx.lt4 hc with rfl | rfl | rfl | rfl <;> revert ks <;> decide
  · refine ⟨by simp [WF, Below], fun c hc => ?_, fun c ks hc => ?_⟩
    · rcases TDEx.lt4 hc with rfl | rfl | rfl | rfl <;> decide
    · rcases TDEx.lt4 hc with rfl | rfl | rfl | rfl <;> revert ks <;> decide

theorem okR : TabOK 2 ar tR := by
  refine tabOK_of_entries (fun e he => ?_)
  simp only [tR, List.mem_cons, List.not_mem_nil, or_false] at he
  rcases he with rfl | rfl
  · refine ⟨by simp [WF, Below], fun c hc => ?_, fun c ks hc => ?_⟩
    · rcases TDEx.lt4 hc with rfl | rfl | rfl | rfl <;> decide
    · rcases TDEx.lt4 hc with rfl | rfl | rfl | rfl <;> revert ks <;> decide
  · refine ⟨by simp [WF, Below], fun c hc => ?_, fun c ks hc => ?_⟩
    · rcases TDEx.lt4 hc with rfl | rfl | rfl | rfl <;> decide
    · rcases TDEx.lt4 hc with rfl | rfl | rfl | rfl <;> revert ks <;> decide
end TD3Ex

/-- the left table is covered by none of the earlier run-for-run theorems: the class `{2, 3}` of state 5 is a class of unary symbols -/
example : ¬ ∀ p, SymDetPos 2 TD3Ex.ar (getTD TD3Ex.tL p) := fun h => by
  have := h 5 2 3 (by decide) (by decide) (by decide) (by decide)
  revert this; decide

/-- the hypotheses of `C07_traverse_downward_run_general` are satisfiable with such a left table -/
example : TDEx.syms.Pairwise (· < ·) ∧ (∀ c, c ∈ TDEx.syms → c < 2 ^ 2) ∧
    (∀ p c, c < 2 ^ 2 → eval (getTD TD3Ex.tL p) (bits c) ≠ [] → c ∈ TDEx.syms) ∧
    TabOK 2 TD3Ex.ar TD3Ex.tL ∧ TabOK 2 TD3Ex.ar TD3Ex.tR ∧ KidsProductive (pathOrder TDEx.syms TD3Ex.tL [5]) ∧
    WitOK (pathOrder TDEx.syms TD3Ex.tL [5]) (prodWit (pathOrder TDEx.syms TD3Ex.tL [5])) ∧ ([4] : List Nat) ≠ [] :=
  have hK := (InclUp.trimmed_of_allUsefulB (A := pathOrder TDEx.syms TD3Ex.tL [5]) (by decide)).1
  ⟨by decide, by decide, fun _ c hc _ => by rcases TDEx.lt4 hc with rfl | rfl | rfl | rfl <;> decide,
    TD3Ex.okL, TD3Ex.okR, hK, witOK_prodWit hK, by decide⟩

-- ONE call of the code for the class `{2, 3}`; TWO groups of the dump with the same tuple sets
#guard (travDown TD3Ex.tL TD3Ex.tR 5 [4]).map (fun c => (reprSym c.1, c.2)) == [(0, [], []), (1, [], [[3]]), (2, [[1]], [[3]])]
#guard lhsGroups (pathOrder TDEx.syms TD3Ex.tL [5]) 5 == [(2, 1), (3, 1)]
#guard (lhsTuples (pathOrder TDEx.syms TD3Ex.tL [5]) 5 2 1, rhsTuples (pathOrder TDEx.syms TD3Ex.tR [4]) [4] 2 1) ==
  (lhsTuples (pathOrder TDEx.syms TD3Ex.tL [5]) 5 3 1, rhsTuples (pathOrder TDEx.syms TD3Ex.tR [4]) [4] 3 1)
-- both sides of the theorems evaluated
#guard showRet (expandT idOrd TD3Ex.tL TD3Ex.tR [] 10 [] [] ⟨[], []⟩ 5 [4]) ==
  showRet (expand idOrd (pathOrder TDEx.syms TD3Ex.tL [5]) (pathOrder TDEx.syms TD3Ex.tR [4]) [] 10 [] [] ⟨[], []⟩ 5 [4])
#guard (showRet (expandT idOrd TD3Ex.tL TD3Ex.tR [] 10 [] [] ⟨[], []⟩ 5 [4])) == some (true, [(5, [4])], [], [(1, [3]), (5, [4])])
#guard inclDownTrav idOrd TD3Ex.tL [5] TD3Ex.tR [4] (prodWit (pathOrder TDEx.syms TD3Ex.tL [5])) 10 == some true
#guard plainVerdict (run idOrd (pathOrder TDEx.syms TD3Ex.tL [5]) (pathOrder TDEx.syms TD3Ex.tR [4]) 10) == some true
-- the converse inclusion fails (`1(3) → 4` has no counterpart): a class on the RIGHT side
#guard inclDownTrav idOrd TD3Ex.tR [4] TD3Ex.tL [5] (prodWit (pathOrder TDEx.syms TD3Ex.tR [4])) 10 == some false
#guard plainVerdict (run idOrd (pathOrder TDEx.syms TD3Ex.tR [4]) (pathOrder TDEx.syms TD3Ex.tL [5]) 10) == some false
-- `GenEx` of `C07_TraverseDown2.lean` (class `{f, h}` of unary symbols with `g` in between, a failing run) is an instance

/-!
## still not proved

* the preorder: everything here is for the identity (`idOrd`, `ANTICHAINS_DOWN_REC_NOSIM` / `…_OPT_NOSIM`).  For a simulation preorder
  (`ANTICHAINS_DOWN_REC_SIM`, which `bdd_td_tree_aut_incl.cc` also offers) the run-for-run equality without symbol-determinism is open:
  the step "a pair subsumed by a CLOSED pair has a closed body" then needs that the closure condition is inherited along the preorder
  (a simulation argument); the verdict equality for any sound reflexive preorder is `C07_traverse_downward_algorithm_general_partial`;
* the equality is proved on the states that satisfy `GI` (an over-approximation of the reachable states, proved to hold initially and
  to be kept) and for pairs with a non-empty right-hand set; for the whole run: `FB ≠ []` and `KidsProductive` of the left dump.
  Whether the two calls also agree on states that violate `GI` (unreachable) or on an empty right-hand set is not known – no
  counterexample was searched for;
* the symbols of the dumps are RANKED symbols, `OptDownwardInclusionFunctor` and the preorder index structures: as in
  `C07_TraverseDown.lean`; no link to the C++ by a driver kind (Lean only).
-/
end Vata.Props
