import Vata.Proofs.NfaCliPipelineIsect
/-!
# C10 (continued) – word automata: `Union` with its translation maps AS CODED, and what `vata -r expl_fa union|isect` print

> C10: the operations on explicit finite (word) automata – union, intersection, … – accept exactly the corresponding
> languages.

`C10.lean` proves the language statements for the set-level models of `Vata/NfaOps.lean` (`nfaUnionWith` takes the two
translation FUNCTIONS as given).  This file adds the code that produces them: `ExplicitFiniteAutCore::Union`
(`src/explicit_finite_union.cc`) with its two weak translators over caller-supplied maps – absent (`nullptr`), empty or
PRE-FILLED – and ONE counter that starts above the values of the maps (after the repair `73b68c90`; before: at 0), followed by
`ReindexStates (dst, index)` of both operands into ONE automaton (`SetStateFinal`, `SetExistingStateStart` with the start
symbols, the transitions); and the command-line pipeline `vata -r expl_fa union` (`cli/vata.cc`, `performOperation`; the same
template code as for trees: two loads with fresh state dictionaries on the shared alphabet, `Union` with two empty maps,
`CreateUnionStringToStateMap`, `DumpToString`) and `vata -r expl_fa isect` (`Intersection` with an empty product map,
`CreateProductStringToStateMap` as repaired, `DumpToString`).

## How the statement is read into the model

* **Model**: `nfasReindexInto`, `nfaUnionCodedOrd` (visiting orders of the hash containers as PARAMETERS), `nfaUnionCoded`
  (list order; `Option SMap`: `none` = `nullptr`), `nfaUnionCodedOld` (counter at 0) in `Vata/NfaLoadDump.lean`;
  `NfaCli.cliNfaUnionDesc`, `cliNfaUnion`, `cliNfaUnionText` (and `cliNfaIsect…`) in `Vata/NfaCliPipeline.lean`, built from
  `loadNFA` / `dumpNFA` (`C13_NfaLoadDump.lean`), `Glue.unionDict` (`CreateUnionStringToStateMap`), `CliPipe.productDictFixed`.
  A `StateToStateMap` is an association list in insertion order (`SMap`, as in `Vata/UnionModel.lean`).
* **"injective pre-filled maps with disjoint images"**: `Um.Inj m` (no two keys with the same value), `Um.Disj m m'` (no value
  in both).  Both empty maps, and the maps a previous `Union` returned (`C10_union_coded_maps`), satisfy them.  Without them the
  statement fails already for set-level reasons (two states of one operand forced onto one number).
* **language**: `acceptsW U.toNFA w` – paths from a start state to a final state; the start symbols are stated separately.
* **"the printed description, reloaded"**: the description `DumpToAutDesc` hands to the serializer is loaded again with a
  fresh state dictionary on the alphabet as the run left it.
-/
namespace Vata.Props
open Vata Vata.NfaLD Vata.W Vata.NfaCli

/-- **`Union` as coded accepts the union** – maps absent (`none`), empty (`some []`) or pre-filled, provided the pre-filled maps
are injective with disjoint images – and every start state of either operand carries, under its new number, exactly its own
start symbols. -/
theorem C10_union_coded_lang (A B : NFAS) (pL pR : Option SMap) (hL : Um.Inj (pL.getD [])) (hR : Um.Inj (pR.getD []))
    (hD : Um.Disj (pL.getD []) (pR.getD [])) :
    (∀ w, acceptsW (nfaUnionCoded A B pL pR).1.toNFA w = (acceptsW A.toNFA w || acceptsW B.toNFA w)) ∧
    (∀ s, s ∈ A.start → (nfaUnionCoded A B pL pR).1.symsOf
      (applyMap (nfaUnionCodedOrd (nfaVisitOrder A) (nfaVisitOrder B) A B (pL.getD []) (pR.getD [])).2.1 s) = A.symsOf s) ∧
    (∀ s, s ∈ B.start → (nfaUnionCoded A B pL pR).1.symsOf
      (applyMap (nfaUnionCodedOrd (nfaVisitOrder A) (nfaVisitOrder B) A B (pL.getD []) (pR.getD [])).2.2 s) = B.symsOf s) :=
  nfaUnionCodedOrd_lang _ _ A B _ _ (fun _ h => mem_nfaVisitOrder.mpr h) (fun _ h => mem_nfaVisitOrder.mpr h) hL hR hD

/-- non-vacuity: pre-filled maps `6 ↦ 1` and `7 ↦ 0` -/
example : Um.Inj ((some [(6, 1)] : Option SMap).getD []) ∧ Um.Inj ((some [(7, 0)] : Option SMap).getD []) ∧
    Um.Disj ((some [(6, 1)] : Option SMap).getD []) ((some [(7, 0)] : Option SMap).getD []) :=
  ⟨smapInjB_sound (by decide), smapInjB_sound (by decide), smapDisjB_sound (by decide)⟩

/-- the same for ALL iteration orders of the hash containers (any visiting orders that cover the states of the operand) -/
theorem C10_union_coded_lang_any_order (oA oB : List Nat) (A B : NFAS) (mL mR : SMap)
    (hoA : ∀ q, q ∈ nfaStates A.toNFA → q ∈ oA) (hoB : ∀ q, q ∈ nfaStates B.toNFA → q ∈ oB)
    (hL : Um.Inj mL) (hR : Um.Inj mR) (hD : Um.Disj mL mR) :
    (∀ w, acceptsW (nfaUnionCodedOrd oA oB A B mL mR).1.toNFA w = (acceptsW A.toNFA w || acceptsW B.toNFA w)) ∧
    (∀ s, s ∈ A.start → (nfaUnionCodedOrd oA oB A B mL mR).1.symsOf
      (applyMap (nfaUnionCodedOrd oA oB A B mL mR).2.1 s) = A.symsOf s) ∧
    (∀ s, s ∈ B.start → (nfaUnionCodedOrd oA oB A B mL mR).1.symsOf
      (applyMap (nfaUnionCodedOrd oA oB A B mL mR).2.2 s) = B.symsOf s) :=
  nfaUnionCodedOrd_lang oA oB A B mL mR hoA hoB hL hR hD

example : ∀ q, q ∈ nfaStates (⟨⟨[5], [6], [(5, 0, 6)]⟩, [(5, [8])]⟩ : NFAS).toNFA → q ∈ [6, 5] := by decide

/-- the maps `Union` leaves in the caller's variables: they extend the pre-filled maps, are defined on all states of their
operand, and are again injective with disjoint images – the precondition of the next `Union` -/
theorem C10_union_coded_maps (A B : NFAS) (mL mR : SMap) (hL : Um.Inj mL) (hR : Um.Inj mR) (hD : Um.Disj mL mR) :
    (nfaUnionCoded A B (some mL) (some mR)).2.1 =
      some (nfaUnionCodedOrd (nfaVisitOrder A) (nfaVisitOrder B) A B mL mR).2.1 ∧
    (nfaUnionCoded A B (some mL) (some mR)).2.2 =
      some (nfaUnionCodedOrd (nfaVisitOrder A) (nfaVisitOrder B) A B mL mR).2.2 ∧
    Um.Inj (nfaUnionCodedOrd (nfaVisitOrder A) (nfaVisitOrder B) A B mL mR).2.1 ∧
    Um.Inj (nfaUnionCodedOrd (nfaVisitOrder A) (nfaVisitOrder B) A B mL mR).2.2 ∧
    Um.Disj (nfaUnionCodedOrd (nfaVisitOrder A) (nfaVisitOrder B) A B mL mR).2.1
      (nfaUnionCodedOrd (nfaVisitOrder A) (nfaVisitOrder B) A B mL mR).2.2 ∧
    Um.Ext mL (nfaUnionCodedOrd (nfaVisitOrder A) (nfaVisitOrder B) A B mL mR).2.1 ∧
    Um.Ext mR (nfaUnionCodedOrd (nfaVisitOrder A) (nfaVisitOrder B) A B mL mR).2.2 ∧
    (∀ q, q ∈ nfaStates A.toNFA → ∃ n, (nfaUnionCodedOrd (nfaVisitOrder A) (nfaVisitOrder B) A B mL mR).2.1.lookup q = some n) ∧
    (∀ q, q ∈ nfaStates B.toNFA → ∃ n, (nfaUnionCodedOrd (nfaVisitOrder A) (nfaVisitOrder B) A B mL mR).2.2.lookup q = some n) := by
  obtain ⟨_, _, _, h4, h5, h6, h7, h8, h9, h10⟩ := nfaUnionCodedFrom_maps (unionCnt mL mR) (nfaVisitOrder A) (nfaVisitOrder B)
    A B mL mR (fun _ h => mem_nfaVisitOrder.mpr h) (fun _ h => mem_nfaVisitOrder.mpr h)
    (Um.below_unionCnt_left mL mR) (Um.below_unionCnt_right mL mR) hL hR hD
  exact ⟨rfl, rfl, h4, h5, h6, h7, h8, h9, h10⟩

example : Um.Inj ([(6, 1)] : SMap) ∧ Um.Inj ([(7, 0)] : SMap) ∧ Um.Disj ([(6, 1)] : SMap) [(7, 0)] :=
  ⟨smapInjB_sound (by decide), smapInjB_sound (by decide), smapDisjB_sound (by decide)⟩

/-- **Regression (repair `73b68c90`).**  Before the repair the counter started at `0` whatever the maps contained.  With the
pre-filled maps `6 ↦ 1` (left) and `7 ↦ 0` (right) – injective, disjoint images – the state 5 of the left operand got the number
0 and the state 5 of the right operand the number 1, which is the number of the left operand's state 6: the result accepts the
word `0 1`, which neither operand accepts.  The repaired code gives 5 ↦ 2 and 5 ↦ 3 and rejects it. -/
theorem C10_union_counter_from_zero_counterexample :
    Um.Inj ([(6, 1)] : SMap) ∧ Um.Inj ([(7, 0)] : SMap) ∧ Um.Disj ([(6, 1)] : SMap) [(7, 0)] ∧
    acceptsW (⟨⟨[5], [6], [(5, 0, 6)]⟩, [(5, [8])]⟩ : NFAS).toNFA [0, 1] = false ∧
    acceptsW (⟨⟨[5], [5], [(5, 1, 5)]⟩, [(5, [9])]⟩ : NFAS).toNFA [0, 1] = false ∧
    acceptsW (nfaUnionCodedOld ⟨⟨[5], [6], [(5, 0, 6)]⟩, [(5, [8])]⟩ ⟨⟨[5], [5], [(5, 1, 5)]⟩, [(5, [9])]⟩
      (some [(6, 1)]) (some [(7, 0)])).1.toNFA [0, 1] = true ∧
    (nfaUnionCodedOld ⟨⟨[5], [6], [(5, 0, 6)]⟩, [(5, [8])]⟩ ⟨⟨[5], [5], [(5, 1, 5)]⟩, [(5, [9])]⟩
      (some [(6, 1)]) (some [(7, 0)])).2 = (some [(6, 1), (5, 0)], some [(7, 0), (5, 1)]) ∧
    acceptsW (nfaUnionCoded ⟨⟨[5], [6], [(5, 0, 6)]⟩, [(5, [8])]⟩ ⟨⟨[5], [5], [(5, 1, 5)]⟩, [(5, [9])]⟩
      (some [(6, 1)]) (some [(7, 0)])).1.toNFA [0, 1] = false ∧
    (nfaUnionCoded ⟨⟨[5], [6], [(5, 0, 6)]⟩, [(5, [8])]⟩ ⟨⟨[5], [5], [(5, 1, 5)]⟩, [(5, [9])]⟩
      (some [(6, 1)]) (some [(7, 0)])).2 = (some [(6, 1), (5, 2)], some [(7, 0), (5, 3)]) :=
  ⟨smapInjB_sound (by decide), smapInjB_sound (by decide), smapDisjB_sound (by decide), by decide, by decide, by decide,
    by decide, by decide, by decide⟩

/-- **`vata -r expl_fa union`**: for two word-shaped descriptions (any others make the load throw, `C13_nfa_load_rank2_throws`),
on an alphabet in the state its translator keeps (`[]` in the program), for either evaluation order: both loads succeed, the
pipeline – `Union` with two empty maps, `CreateUnionStringToStateMap`, the dump with the dictionary it built – succeeds, and the
description that is printed, loaded again (fresh state dictionary, the alphabet as the run left it), accepts exactly the union
of the languages of the two loaded automata. -/
theorem C10_cli_union_lang (rtl : Bool) (d₁ d₂ : AutDesc) (yd : WSymDict) (hyd : yd.Ok) (hw₁ : d₁.WordShaped)
    (hw₂ : d₂.WordShaped) :
    ∃ A sd₁ yd₁ B sd₂ yd₂ out, loadNFA rtl d₁ [] yd = .ok (A, sd₁, yd₁) ∧ loadNFA rtl d₂ [] yd₁ = .ok (B, sd₂, yd₂) ∧
      cliNfaUnionDesc rtl d₁ d₂ yd = .ok out ∧
      ∃ U sd' yd', loadNFA rtl out [] yd₂ = .ok (U, sd', yd') ∧
        ∀ w, acceptsW U.toNFA w = (acceptsW A.toNFA w || acceptsW B.toNFA w) :=
  cliNfaUnionDesc_lang rtl d₁ d₂ yd hyd hw₁ hw₂

example : NfaCli.Test.dA.WordShaped ∧ NfaCli.Test.dB.WordShaped ∧ Dict.Ok ([] : WSymDict) :=
  ⟨by decide, by decide, Dict.ok_nil⟩

/-- executed: the states get the suffixes `_1` / `_2`, both start symbols of `x` are printed -/
example : cliNfaUnionDesc true NfaCli.Test.dA NfaCli.Test.dB [] = .ok
    ⟨"", [], [], ["r_1", "y_2"],
      [([], "s", "q_1"), ([], "s", "x_2"), ([], "t", "x_2"), (["q_1"], "f", "r_1"), (["r_1"], "f", "r_1"),
        (["x_2"], "f", "y_2"), (["y_2"], "f", "x_2")]⟩ := rfl

/-- **`vata -r expl_fa isect`**: for two word-shaped descriptions, either evaluation order: both loads succeed,
`CreateProductStringToStateMap` (as repaired, `222cfd8a`) is defined on the product map of `Intersection` (every discovered pair
consists of named states), the dump with the dictionary it built succeeds, and the description that is printed, loaded again
(fresh state dictionary, the alphabet as the run left it), accepts exactly the intersection of the languages of the two
loaded automata. -/
theorem C10_cli_isect_lang (rtl : Bool) (d₁ d₂ : AutDesc) (yd : WSymDict) (hyd : yd.Ok) (hw₁ : d₁.WordShaped)
    (hw₂ : d₂.WordShaped) :
    ∃ A sd₁ yd₁ B sd₂ yd₂ out, loadNFA rtl d₁ [] yd = .ok (A, sd₁, yd₁) ∧ loadNFA rtl d₂ [] yd₁ = .ok (B, sd₂, yd₂) ∧
      cliNfaIsectDesc rtl d₁ d₂ yd = .ok out ∧
      ∃ P sd' yd', loadNFA rtl out [] yd₂ = .ok (P, sd', yd') ∧
        ∀ w, acceptsW P.toNFA w = (acceptsW A.toNFA w && acceptsW B.toNFA w) :=
  cliNfaIsectDesc_lang rtl d₁ d₂ yd hyd hw₁ hw₂

/-- executed: product names `[l_1|r_2]`, the union of the start symbols of the two components on the product start state -/
example : NfaCli.Test.dA.WordShaped ∧ NfaCli.Test.dB.WordShaped ∧
    cliNfaIsectDesc true NfaCli.Test.dA NfaCli.Test.dB [] = .ok
    ⟨"", [], [], ["[r_1|y_2]"],
      [([], "s", "[q_1|x_2]"), ([], "t", "[q_1|x_2]"), (["[q_1|x_2]"], "f", "[r_1|y_2]"), (["[r_1|x_2]"], "f", "[r_1|y_2]"),
        (["[r_1|y_2]"], "f", "[r_1|x_2]")]⟩ := ⟨by decide, by decide, rfl⟩

/-!
## still not proved

* `Intersection` of word automata AS CODED (the stack-driven search of `src/explicit_finite_isect.cc`): `C10_cli_isect_lang` uses
  the existing model `nfasIsect` (`Vata/NfaStart.lean`), which numbers the reachable pairs in breadth-first order of discovery;
  the C++ numbers them in the order of its stack and hash containers (`pTranslMap->size ()` at insertion).  The statement is
  about names and languages and does not depend on the numbers, but the refinement is not proved.
* the text level (`cliNfaUnionText`, `cliNfaIsectText`: parse ∘ print of the dumped description) – the names `…_1`, `…_2`,
  `[…|…]` are well-formed when the inputs are (as for trees, `C02_CliPipeline.lean`); not repeated here.
* the weak translators of `Union` are applied as the FINAL maps (`nfasReindexInto … (applyMap m)`), justified by the fact that a
  weak translator never changes a translation (same abstraction as `Vata/UnionModel.lean`); the stale entries of
  `startStateToSymbols_` (`Vata/NfaStart.lean`) do not occur here because both operands are reindexed into a FRESH automaton.
* the correspondence with the C++ on generated inputs has not been run (functions: `nfaUnionCoded`, `nfaUnionCodedOld`,
  `NfaCli.cliNfaUnionText`, `NfaCli.cliNfaIsectText`).
-/
end Vata.Props
