import Vata.Proofs.StoreInterned
/-!
# C12 (and C11) – the rule store with INTERNED children tuples: the tuple cache composed with the store

> C12.  After any sequence of AddTransition, SetStateFinal, SetStatesFinal, EraseFinalStates and Clear on an explicit tree
> automaton, iterating the automaton yields each distinct rule added since the last Clear exactly once and nothing else,
> and ContainsTransition answers true exactly for those rules. …

The theorems of `Vata/Properties/C12.lean` are about `Store.run`, a store that keeps the children tuples of a tuple set as
VALUES.  The C++ keeps `TuplePtr`s (`shared_ptr` to a tuple interned in the process-wide `globalTupleCache_`), orders and
compares them BY POINTER (`std::set<TuplePtr>`), and `ContainsTransition`, the duplicate detection of `AddTransition` and
`operator*` of the iterators go through the cache.  `Vata/Properties/C12.lean`, "not yet proved": *"Between tuple cache and
store: interning is a theorem about the cache class, value comparison is the store model; no theorem composes the two."*
This file composes them.

## How the C++ is read into the model (`Vata/StoreInterned.lean`)

* State `StoreI.Sys`: `cache` = `Cache::store_` (tuple ↦ (address of the interned tuple, `use_count`); the same
  representation and the same accessors `CM.aget / aset / adel / byId` as `CM.Sys.store` of `Vata/CacheModel.lean`),
  `clusters` = `*transitions_` with sets of ADDRESSES, `final` = `finalStates_`, `ext` = the `TuplePtr`s held by the rest
  of the process (other automata over the same global cache, copies of this automaton, temporaries of callers).
* `lookupC` = `Cache::lookup` (insert-or-find; found: `use_count + 1`; new node: count 1 at the address `ch` the allocator
  returns), `acquireC` = copy of a `TuplePtr`, `releaseC` = destructor of a `TuplePtr` (decrement; at 0
  `DeleteElementF`: `store_.erase(*v)`), `derefC` = `*p`.
* `addI` = `AddTransition`: the temporary `tupleLookup(children)`, the three `unique…` look-ups-or-inserts, `std::set::insert`
  comparing pointers (a copy of the pointer is made iff a node is inserted), death of the temporary.
  `containsI` = `ContainsTransition`: two `find`s, and only then `tupleLookup` – which INTERNS the asked tuple for the
  duration of the call (a node is created and destroyed when the tuple is unknown).  `clearI` = `Clear` (and the
  destructor, as far as tuples are concerned): every `TuplePtr` of every tuple set is released; `EraseFinalStates`.
  `copyOutI`, `envLookupI`, `envReleaseI`: what the environment may do at any time (copy the automaton, intern tuples of
  its own, drop pointers one by one – so copies die in any order and interleaved with everything else).
* **Allocator**: every call that may create a cache node carries the address offered by the allocator; the only
  requirement is that it is not the address of a LIVE tuple (`stepI = none` otherwise, and only then: `C12_interned_total`).
  Addresses of dead tuples may be reused immediately.  A theorem "for all `ops` such that `runI .lib ops = some s`" is
  therefore a theorem for every allocator and every behaviour of the environment.
* **Abstracted**: hash / pointer ORDER inside the containers (lists in insertion order; the theorems are about sets and
  "no rule twice"); copy-on-write sharing of whole tuple sets between automata (`Vata/CowHeap*.lean`) – a copy is an eager
  copy here, which gives the same liveness of tuples but larger `use_count`s; the weak-pointer control block is folded
  into the map entry.

## What is proved

`C12_interned_inv` (the invariant of every reachable state), `C12_interned_refines_values` /
`C12_interned_refines_values_alloc` (dereferencing the interned store gives exactly the value store of C12, for every
history, environment and allocator), `C12_interned_pointer_eq_iff_tuple_eq`, the transferred views
`C12_interned_iteration_exact`, `C12_interned_contains_exact`, `C12_interned_view_transfer`, `C12_interned_total`, `C12_interned_fair_allocator`,
`C12_interned_no_leak`, `C12_interned_cache_is_Util_Cache`, and the two regressions `C12_interned_regression_noErase`, `C12_interned_regression_rawSets`.
-/
namespace Vata.Props
open Vata Vata.Store Vata.StoreI

/-- **Invariant of the interned store.**  In every state reachable by the library (any history, any allocator, any
    environment):
    two cache entries hold equal tuples iff they have the same address ("two live identities never hold equal tuples",
    and one identity holds one tuple);
    every pointer stored in a tuple set or held by the environment points to a cache entry (nothing dangles);
    the `use_count` of every entry is positive and is exactly the number of pointers to it. -/
theorem C12_interned_inv {ops : List OpI} {s : Sys} (h : runI .lib ops = some s) :
    (∀ v v' id id' rc rc', (v, id, rc) ∈ s.cache → (v', id', rc') ∈ s.cache → (v = v' ↔ id = id')) ∧
    (∀ p, p ∈ allIds s.clusters ++ s.ext → ∃ v rc, (v, p, rc) ∈ s.cache ∧ derefC s.cache p = v) ∧
    (∀ v id rc, (v, id, rc) ∈ s.cache → 0 < rc ∧ rc = (allIds s.clusters ++ s.ext).count id) := by
  have hi : CInv s.cache (allIds s.clusters ++ s.ext) := (runI_lib h).1
  refine ⟨?_, ?_, ?_⟩
  · intro v v' id id' rc rc' hm hm'
    constructor
    · intro e
      subst e
      have := hi.fk _ _ _ hm hm'
      simp only [Prod.mk.injEq] at this
      exact this.1
    · intro e
      subst e
      exact hi.fid _ _ _ _ _ hm hm'
  · intro p hp
    obtain ⟨v, rc, hm⟩ := hi.live p hp
    exact ⟨v, rc, hm, hi.derefC_eq hm⟩
  · intro v id rc hm
    exact ⟨(hi.cnt v id rc hm).2, (hi.cnt v id rc hm).1⟩

/-- **Refinement.**  For every history of the interned store – with `ContainsTransition` calls, copies, and arbitrary
    activity of the other users of the global cache in between, and whatever addresses the allocator hands out –
    dereferencing the pointers of the final state gives exactly the value store of C12 after the same mutating calls. -/
theorem C12_interned_refines_values {ops : List OpI} {s : Sys} (h : runI .lib ops = some s) :
    StoreI.abs s = Store.run (ops.filterMap toStoreOp) := (runI_lib h).2

/-- the same for a plain C12 history `ops` played against an arbitrary allocator `al` (step number ↦ offered address) -/
theorem C12_interned_refines_values_alloc (al : Nat → Nat) (ops : List Store.Op) {s : Sys}
    (h : runI .lib (liftOps al 0 ops) = some s) : StoreI.abs s = Store.run ops := by
  rw [C12_interned_refines_values h, filterMap_liftOps]

/-- **Totality.**  A call fails in the model only when the address it offers for a new node is the address of a live
    tuple – something no allocator does.  (No invariant is needed, and it holds in every mode.) -/
theorem C12_interned_total (m : Mode) (s : Sys) (op : OpI)
    (h : ∀ ch, opChoice op = some ch → ch ∉ liveIds s.cache) : (stepI m s op).isSome = true :=
  stepI_isSome m s op h

/-- the hypothesis of `C12_interned_total` cannot be dropped: offering the address of a live tuple is refused -/
example : stepI .lib ⟨[([1, 2], 100, 1)], [(1, [(7, [100])])], [], []⟩ (.add ⟨7, [3], 1⟩ 100) = none := by decide

/-- **Every history runs to the end against every fair allocator.**  Let the allocator be any function from the set of
    live addresses to an address that is not live (`runA` plays the history with its offers).  Then the whole run is
    defined, its final state satisfies the invariant and dereferences to the value store of C12. -/
theorem C12_interned_fair_allocator {alloc : List Nat → Nat} (hf : ∀ l, alloc l ∉ l) (ops : List OpI) :
    ∃ s, runA .lib alloc StoreI.empty ops = some s ∧ StoreI.Inv s ∧
      StoreI.abs s = Store.run (ops.filterMap toStoreOp) :=
  runA_lib hf inv_empty ops

/-- fair allocators exist, e.g. the one that always recycles the lowest dead address -/
theorem C12_interned_lowAlloc_fair (l : List Nat) : lowAlloc l ∉ l := lowAlloc_fair l

/-- **Pointer equality is tuple equality** on the pointers that exist in a reachable state: this is what makes the
    pointer-ordered `std::set<TuplePtr>` a set of tuples. -/
theorem C12_interned_pointer_eq_iff_tuple_eq {ops : List OpI} {s : Sys} (h : runI .lib ops = some s) {p p' : Nat}
    (hp : p ∈ allIds s.clusters ++ s.ext) (hp' : p' ∈ allIds s.clusters ++ s.ext) :
    p = p' ↔ derefC s.cache p = derefC s.cache p' := by
  have hi : CInv s.cache (allIds s.clusters ++ s.ext) := (runI_lib h).1
  exact ⟨fun e => by rw [e], fun e => hi.deref_inj hp hp' e⟩

/-- **Iteration, transferred.**  Walking the three levels and dereferencing every `TuplePtr` (`operator*`) yields no
    rule twice and exactly the rules added since the last `Clear`. -/
theorem C12_interned_iteration_exact {ops : List OpI} {s : Sys} (h : runI .lib ops = some s) :
    (iterateI s).Nodup ∧ ∀ r, r ∈ iterateI s ↔ r ∈ (specRun (ops.filterMap toStoreOp)).rules := by
  rw [iterateI_eq, C12_interned_refines_values h]
  exact iterate_exact _

/-- **`ContainsTransition`, transferred.**  In a reachable state the call – which interns the asked tuple, compares
    POINTERS in the tuple set and drops the temporary – answers `true` exactly for the rules added since the last `Clear`;
    it leaves a state that satisfies the invariant and dereferences to the same value store (whatever the allocator did if
    a node had to be created for the asked tuple). -/
theorem C12_interned_contains_exact {ops : List OpI} {s s' : Sys} (h : runI .lib ops = some s) {r : Rule} {ch : Nat}
    {b : Bool} (hc : containsI .lib s r ch = some (s', b)) :
    (b = true ↔ r ∈ (specRun (ops.filterMap toStoreOp)).rules) ∧ StoreI.abs s' = StoreI.abs s ∧ StoreI.Inv s' := by
  obtain ⟨hi, ha, hb⟩ := containsI_lib (runI_lib h).1 hc
  refine ⟨?_, ha, hi⟩
  rw [hb, C12_interned_refines_values h]
  exact contains_exact _ r

/-- **Every other view transfers.**  `GetAcceptTrans`, `operator[]`, `GetUsedStates`, `AreTransitionsEmpty`,
    `IsStateFinal`, the iterator objects of `Vata/StoreIter.lean` … are functions `V` of the dereferenced store; each gives on
    the interned store what it gives on the value store, so every `C12_*` theorem applies verbatim. -/
theorem C12_interned_view_transfer {β : Type} (V : Store.Store → β) {ops : List OpI} {s : Sys}
    (h : runI .lib ops = some s) : V (StoreI.abs s) = V (Store.run (ops.filterMap toStoreOp)) := by
  rw [C12_interned_refines_values h]

/-- for instance: `GetAcceptTrans` through the pointers -/
theorem C12_interned_acceptTrans_exact {ops : List OpI} {s : Sys} (h : runI .lib ops = some s) :
    (acceptTrans (StoreI.abs s)).Nodup ∧ ∀ r, r ∈ acceptTrans (StoreI.abs s) ↔
      r ∈ (specRun (ops.filterMap toStoreOp)).rules ∧ r.parent ∈ (specRun (ops.filterMap toStoreOp)).final := by
  rw [C12_interned_refines_values h]
  exact acceptTrans_exact _

/-- **No leak.**  Once the automaton is cleared (or destroyed) and nobody else holds a tuple the cache is empty – the
    `assert(this->empty())` of `~Cache()`. -/
theorem C12_interned_no_leak {ops : List OpI} {s : Sys} (h : runI .lib ops = some s) (hc : s.clusters = [])
    (he : s.ext = []) : s.cache = [] := no_leak (runI_lib h).1 hc he

/-- **The cache component is the `Util::Cache` model.**  The cache state of `StoreI.Sys` has the type of `CM.Sys.store`
    (`Vata/CacheModel.lean`, the class model checked against the real `Util::Cache`), and the primitives the store uses are
    the effects on that map of the primitives of the class model: `Cache::lookup` = `CM.intern`, the copy of a `TuplePtr`
    = `CM.dupTmp`, its destructor = `CM.dropTmp` with the default (empty) user deleter. -/
theorem C12_interned_cache_is_Util_Cache (s : CM.Sys (List Nat)) :
    (∀ v ch, s.tmp = none → (∀ e, e ∈ s.store → 0 < e.2.2) →
      (CM.intern s v ch).map (fun r => (r.1.store, r.2)) = lookupC s.store v ch) ∧
    (∀ i id, s.tmp = none → s.slots[i]? = some (some id) → (CM.byId s.store id).isSome = true →
      (CM.dupTmp s i).map (·.store) = some (acquireC s.store id)) ∧
    (∀ id, s.tmp = some id → (CM.dropTmp .none s).store = releaseC .lib s.store id) :=
  ⟨fun v ch ht hl => lookupC_eq_intern s v ch ht hl, fun i id ht hi hl => acquireC_eq_dupTmp s i id ht hi hl,
    fun id ht => releaseC_eq_dropTmp s id ht⟩

/-- the executable invariant test (`StoreI.invB`, for the driver) is sound -/
theorem C12_interned_invB_sound {s : Sys} (h : invB s = true) : StoreI.Inv s := inv_of_invB h

/-! ### non-vacuity: a history with a duplicate, another user of the cache, a copy, deaths and ADDRESS REUSE -/

namespace InternedEx
def r1 : Rule := ⟨7, [1, 2], 1⟩
def r2 : Rule := ⟨7, [1, 2], 2⟩      -- the same children tuple in another cluster: the same pointer
def r3 : Rule := ⟨8, [3], 1⟩
def r4 : Rule := ⟨7, [], 1⟩

/-- `[1,2]` is interned at 100 and used twice; the environment interns `[9]` at 101 and takes a copy of the automaton;
    `Clear`; the copy's pointers are dropped, so `[1,2]` dies; `[3]` is then interned AT THE ADDRESS 100 of the dead tuple;
    a `ContainsTransition` for the unknown tuple `[5]` creates and destroys a node at 102 -/
def ops : List OpI :=
  [.add r1 100, .add r2 555, .add r1 556, .setFinal 1, .envLookup [9] 101, .copyOut, .clear,
   .envRelease 100, .envRelease 100, .add r3 100, .add r4 102, .query ⟨8, [5], 1⟩ 103, .setFinal 2]

def final : Sys :=
  { cache := [([9], 101, 1), ([3], 100, 1), ([], 102, 1)], clusters := [(1, [(8, [100]), (7, [102])])], final := [2],
    ext := [101] }
end InternedEx

example : runI .lib InternedEx.ops = some InternedEx.final := by decide
example : StoreI.abs InternedEx.final = Store.run (InternedEx.ops.filterMap toStoreOp) ∧
    iterateI InternedEx.final = [InternedEx.r3, InternedEx.r4] ∧ invB InternedEx.final = true := by decide
/-- the state before the `Clear`: one entry for `[1,2]` with four pointers (two sets + the two of the copy) -/
example : runI .lib (InternedEx.ops.take 6) =
    some { cache := [([9], 101, 1), ([1, 2], 100, 4)], clusters := [(1, [(7, [100])]), (2, [(7, [100])])], final := [1],
           ext := [101, 100, 100] } := by decide
/-- `ContainsTransition` in the final state: pointer comparison gives the answers of the value store -/
example : (containsI .lib InternedEx.final InternedEx.r3 200).map (·.2) = some true ∧
    (containsI .lib InternedEx.final InternedEx.r1 200).map (·.2) = some false ∧
    (containsI .lib InternedEx.final ⟨8, [9], 1⟩ 200).map (·.2) = some false := by decide
/-- an allocator-driven history (`C12_interned_refines_values_alloc`): the allocator always offers 100 + step number -/
example : (runI .lib (liftOps (fun n => 100 + n) 0 StoreEx.ops1)).map StoreI.abs = some (Store.run StoreEx.ops1) := by
  decide
/-- the same calls against the eagerly recycling allocator `lowAlloc` (the addresses written in the calls are ignored,
    the environment drops its two copies of pointer 0): `[1,2]` lives at 0, `[9]` at 1; after the deaths `[3]` is put at the
    recycled 0, `[]` at 2 -/
example : runA .lib lowAlloc StoreI.empty
    [.add InternedEx.r1 0, .add InternedEx.r2 0, .add InternedEx.r1 0, .setFinal 1, .envLookup [9] 0, .copyOut, .clear,
     .envRelease 0, .envRelease 0, .add InternedEx.r3 0, .add InternedEx.r4 0, .query ⟨8, [5], 1⟩ 0, .setFinal 2] =
    some { cache := [([9], 1, 1), ([3], 0, 1), ([], 2, 1)], clusters := [(1, [(8, [0]), (7, [2])])], final := [2],
           ext := [1] } := by decide
/-- no leak on the example: drop the last outside pointer and clear -/
example : (runI .lib (InternedEx.ops ++ [.envRelease 101, .clear])).map (·.cache) = some [] := by decide

/-! ### regressions: a realistic slip gives a wrong `ContainsTransition` on a concrete history -/

/-- **Deleter without `store_.erase(*v)`.**  `r1 = 7([1,2]) → 1` is added and the automaton cleared: the tuple `[1,2]`
    dies but its entry stays.  `7([3]) → 1` is added and its tuple is allocated at the recycled address 100.  Asking for
    `r1` the cache answers the stale entry – address 100 – which IS in the tuple set: `true`, although `r1` is gone (the
    value store and the library model say `false`). -/
theorem C12_interned_regression_noErase :
    let ops : List OpI := [.add ⟨7, [1, 2], 1⟩ 100, .clear, .add ⟨7, [3], 1⟩ 100]
    ((runI .noErase ops).bind (fun s => containsI .noErase s ⟨7, [1, 2], 1⟩ 200)).map (·.2) = some true ∧
    ((runI .lib ops).bind (fun s => containsI .lib s ⟨7, [1, 2], 1⟩ 200)).map (·.2) = some false ∧
    Store.contains (Store.run (ops.filterMap toStoreOp)) ⟨7, [1, 2], 1⟩ = false := by decide

/-- **Tuple sets that do not own their elements** (identity reuse with stale set entries).  After
    `AddTransition(7([1,2]) → 1)` the temporary dies, the tuple with it, the set keeps the stale address 100.
    `ContainsTransition(7([3]) → 1)` interns `[3]` – the allocator reuses address 100 – and finds "it" in the set: `true`
    for a rule that was never added. -/
theorem C12_interned_regression_rawSets :
    let ops : List OpI := [.add ⟨7, [1, 2], 1⟩ 100]
    ((runI .rawSets ops).bind (fun s => containsI .rawSets s ⟨7, [3], 1⟩ 100)).map (·.2) = some true ∧
    ((runI .lib ops).bind (fun s => containsI .lib s ⟨7, [3], 1⟩ 100)).map (·.2) = none ∧
    ((runI .lib ops).bind (fun s => containsI .lib s ⟨7, [3], 1⟩ 101)).map (·.2) = some false ∧
    Store.contains (Store.run (ops.filterMap toStoreOp)) ⟨7, [3], 1⟩ = false := by decide

/-- and the broken states violate the invariant test -/
example : (runI .noErase [.add ⟨7, [1, 2], 1⟩ 100, .clear, .add ⟨7, [3], 1⟩ 100]).map StoreI.invB = some false ∧
    (runI .rawSets [.add ⟨7, [1, 2], 1⟩ 100]).map StoreI.invB = some false := by decide

/-!
## still not proved

* **Sharing of tuple sets.**  A copy of the automaton is modelled as an eager copy of its tuple sets owned by the
  environment; the real copy shares `shared_ptr<TuplePtrSet>`s and un-shares on write (`uniqueTuplePtrSet`).  That the two
  give the same LIVENESS of every tuple (which is all the refinement uses) is argued in the header of
  `Vata/StoreInterned.lean`, not proved against `Vata/CowHeap*.lean`; the `use_count` numbers of this model are those of
  the eager copy, not the real ones.
* **Several automata as first-class handles.**  The theorems are about ONE automaton against an arbitrary environment
  (which covers every other automaton over the same cache by symmetry); a state with n named automata and
  assignment between them is not modelled, nor are the set operations (`Union`, …) that insert `TuplePtr`s of another
  automaton directly (`internalAddTransition` with a foreign pointer) – sound by `C12_interned_pointer_eq_iff_tuple_eq`
  only because all automata use the one global cache.  The constructor with a NON-global `tupleCache` argument is not modelled.
* **Allocators with memory.**  `C12_interned_fair_allocator` is about allocators that decide from the set of live
  addresses; an allocator whose offer depends on more (the order of the frees, say) is covered by the per-history form
  (`C12_interned_refines_values`, `C12_interned_total`: every sequence of offers that avoids live addresses) but has
  no `runA`-style totality theorem of its own.
* `invB` (with `Nodup` of keys and addresses) is proved SOUND for `Inv`; that every reachable state passes `invB` (no
  duplicate map entries at all) is not proved – `Inv` speaks about entries as a set.
* The broken modes `noErase` / `rawSets` are only good for the two regressions: in an inconsistent state the
  bookkeeping of `use_count`s by address is arbitrary among entries with the same address.
* Order of the containers, iterator invalidation, and that `addI`, `containsI`, `clearI` transcribe the C++ faithfully
  (correspondence check of the driver only): as in `Vata/Properties/C12.lean`.
-/
end Vata.Props
