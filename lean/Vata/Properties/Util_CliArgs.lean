import Vata.Proofs.CliArgs
import Vata.Proofs.CliArgsErrors
import Vata.Proofs.CliArgsOptLoop
import Vata.Proofs.CliArgsHelp
/-!
# The command line of the `vata` binary – argument parsing and option handling (supports C01, C07, C09)

> C01 / C07 / C09 quantify over "every implemented selection" of the inclusion algorithms.  A selection is an `InclParam`
> option word; the library dispatches on it (`Vata/Properties/Dispatch.lean`, tables regenerated from the sources).  This
> file is about the other end: how a user of the `vata` binary gets from `argv` to that word – `parseArguments`, the `-o`
> option list, the option handling of `CheckInclusion` – and what the help text says about it.

## How the statement is read into the model

* **Model of the code (L2).**  `Vata/CliArgs.lean`: `parse` (`parseArguments` of `cli/parse_args.cc`, one `stepArg` per loop
  iteration; `parseRaw` is the same loop on `argc` / `argv` with every `argv[i]` read explicit), `checkInclusionOpts` /
  `computeSimulationOpts` / `computeReductionOpts` / `checkEquivOpts` (`cli/operations.hh`; the `InclParam` setters on the
  flag masks of `Vata.Gen.flags`), `mainEarly` and `perform` (`cli/vata.cc`: `main` up to `executeCommand`, with the help
  text; `performOperation` on a recording automaton).  `std::map<std::string, std::string>` is the list of its entries in
  iteration order with `insert` as coded (no overwrite).
* **Specification (L0).**  Flag-wise reading of the option word (`Vata.Dispatch.has w fDir` …), the regenerated dispatch
  tables `Vata.Gen.explDispatch / tdDispatch / buDispatch / faDispatch`, the grammar of an option piece.
* **Correspondence (L3).**  kind `cliargs` (`harness/op_cliargs.inc`, `Driver/CliArgsChk.lean`, `tools/gen_cliargs.py`): the
  real `parse_args.cc` and `vata.cc` are compiled into the harness; every field of `Arguments` / the exception text, the
  output and return code of the real `main()` for parse errors / `help` / `version` / no arguments (the whole help text),
  and the call trace of the real `performOperation` + `CheckInclusion` + … on a recording automaton type are compared
  token by token with the model.
-/
namespace Vata.Props
open Vata.CliArgs
open Vata.Dispatch (fAlg fDir fCache fRec fSim fOrder fEquiv)

/-! ## (1) the option word -/

/-- **What `CheckInclusion` accepts.**  An options map is accepted iff each of the seven inclusion options – the value
`-o` gave, else the default the code inserts (`insert` does not overwrite) – is EXACTLY one of its two words; the seven
Booleans of the choice are then determined.  Every other option name in the map is ignored. -/
theorem Util_CliArgs_incl_accepts {opts : Options} (hs : SortedMap opts) (c : InclChoice) :
    checkInclusionOpts opts = .ok c ↔
      optVal opts "alg" "antichains" = (if c.congr then lit "congr" else lit "antichains") ∧
      optVal opts "dir" "up" = (if c.down then lit "down" else lit "up") ∧
      optVal opts "rec" "no" = (if c.recursive then lit "yes" else lit "no") ∧
      optVal opts "optC" "no" = (if c.cache then lit "yes" else lit "no") ∧
      optVal opts "sim" "no" = (if c.sim then lit "yes" else lit "no") ∧
      optVal opts "order" "depth" = (if c.breadth then lit "breadth" else lit "depth") ∧
      optVal opts "timeS" "yes" = (if c.timeS then lit "yes" else lit "no") :=
  checkInclusionOpts_ok_iff hs c

example : SortedMap [(lit "dir", lit "down"), (lit "rec", lit "yes")] ∧
    checkInclusionOpts [(lit "dir", lit "down"), (lit "rec", lit "yes")] = .ok ⟨false, true, true, false, false, false, true⟩ := by
  decide

/-- **The option word is the flag-wise specification of the options.**  For accepted options, each bit of
`ip.GetOptions()` (masks regenerated from `incl_param.hh`) is set iff the corresponding option has its non-default
word: `alg=congr` ↔ ALGORITHM, `dir=down` ↔ DIRECTION, `rec=yes` ↔ RECURSIVE, `optC=yes` ↔ DOWNWARD_CACHE_IMPL,
`sim=yes` ↔ SIMULATION, `order=breadth` ↔ SEARCH_ORDER; EQUIV is never set; `timeS` is not in the word. -/
theorem Util_CliArgs_incl_word_spec {opts : Options} (hs : SortedMap opts) {c : InclChoice}
    (h : checkInclusionOpts opts = .ok c) :
    (Vata.Dispatch.has c.word fAlg = true ↔ optVal opts "alg" "antichains" = lit "congr") ∧
    (Vata.Dispatch.has c.word fDir = true ↔ optVal opts "dir" "up" = lit "down") ∧
    (Vata.Dispatch.has c.word fRec = true ↔ optVal opts "rec" "no" = lit "yes") ∧
    (Vata.Dispatch.has c.word fCache = true ↔ optVal opts "optC" "no" = lit "yes") ∧
    (Vata.Dispatch.has c.word fSim = true ↔ optVal opts "sim" "no" = lit "yes") ∧
    (Vata.Dispatch.has c.word fOrder = true ↔ optVal opts "order" "depth" = lit "breadth") ∧
    Vata.Dispatch.has c.word fEquiv = false ∧ c.word < 64 := by
  obtain ⟨w1, w2, w3, w4, w5, w6, w7, w8⟩ := word_spec c
  obtain ⟨v1, v2, v3, v4, v5, v6, _⟩ := (checkInclusionOpts_ok_iff hs c).mp h
  rw [w1, w2, w3, w4, w5, w6, v1, v2, v3, v4, v5, v6]
  refine ⟨?_, ?_, ?_, ?_, ?_, ?_, w7, w8⟩
  · cases c.congr <;> decide
  · cases c.down <;> decide
  · cases c.recursive <;> decide
  · cases c.cache <;> decide
  · cases c.sim <;> decide
  · cases c.breadth <;> decide

example : (checkInclusionOpts [(lit "dir", lit "down"), (lit "rec", lit "yes")]).map (·.word) = .ok 10 ∧
    Vata.Gen.namedWords.lookup "ANTICHAINS_DOWN_REC_NOSIM" = some 10 := by decide

/-- … and as a number: the sum of the masks of the options that have their non-default word -/
theorem Util_CliArgs_incl_word_sum (c : InclChoice) :
    c.word = (if c.congr then fAlg else 0) + (if c.down then fDir else 0) + (if c.recursive then fRec else 0) +
      (if c.cache then fCache else 0) + (if c.sim then fSim else 0) + (if c.breadth then fOrder else 0) :=
  word_eq_sum c

/-- every rejection throws `optErrorEx`: one text for all seven blocks, listing the whole map (defaults included) -/
theorem Util_CliArgs_incl_rejects (opts : Options) (e : Str) (h : checkInclusionOpts opts = .error e) :
    e = lit "Invalid options for inclusion: " ++ showOptions (inclDefaults opts) :=
  checkInclusionOpts_error opts e h

example : (checkInclusionOpts [(lit "sim", lit "YES")]).toOption = none ∧
    String.ofList (showOptions (inclDefaults [(lit "sim", lit "YES")])) =
      "[alg -> antichains, dir -> up, optC -> no, order -> depth, rec -> no, sim -> YES, timeS -> yes]" := by decide

/-- **Every choice of the seven options is reachable from the command line**, hence every option word below 64 (all
combinations of the six bits other than EQUIV): `vata -o <optionString c> incl a b` is parsed, its options are accepted
and give back exactly `c`. -/
theorem Util_CliArgs_every_choice_reachable (c : InclChoice) :
    inclChoiceOf .expl [lit "-o", optionString c, lit "incl", lit "a", lit "b"] = some c ∧
    ∀ w, w < 64 → ∀ t, (choiceOfWord w t).word = w :=
  ⟨reach_all c, word_choiceOfWord⟩

example : String.ofList (optionString ⟨false, true, true, true, true, false, true⟩) =
    "alg=antichains,dir=down,rec=yes,optC=yes,sim=yes,order=depth,timeS=yes" := by decide

/-- **Every implemented selection without the EQUIV bit is reachable** (the `_partial` of the task's "every one of the
implemented words of each representation's dispatch table is reachable by some option string" – see the next theorem for
the two words that are not).  For each representation `r` and each `case` of its dispatcher (table regenerated from the
sources) there is a command line that is parsed, selects `r`, and whose options `CheckInclusion` turns into exactly the
word of the case. -/
theorem Util_CliArgs_every_selection_reachable_partial (r : Rep) (cs : Vata.Gen.Case) (hc : cs ∈ table r)
    (hne : Vata.Dispatch.has cs.word fEquiv = false) :
    ∃ argv c, inclChoiceOf r argv = some c ∧ c.word = cs.word := by
  have h := List.all_eq_true.mp (reach_table r) cs hc
  rw [hne, Bool.false_or] at h
  unfold reachesWord at h
  cases hi : inclChoiceOf r (selectArgv r cs.word) with
  | none => rw [hi] at h; cases h
  | some c =>
    rw [hi] at h
    exact ⟨selectArgv r cs.word, c, hi, by simpa using h⟩

example : (selectArgv .bddBu 26).map String.ofList =
    ["-r", "bdd-bu", "-o", "alg=antichains,dir=down,rec=yes,optC=no,sim=yes,order=depth,timeS=yes", "incl", "a", "b"] ∧
    (Vata.Gen.buDispatch.map (·.word)).contains 26 = true := by decide

/-- **The two implemented selections that are NOT reachable**: the only cases with the EQUIV bit are
`CONGR_DEPTH_EQUIV_NOSIM` (65) and `CONGR_BREADTH_EQUIV_NOSIM` (97) of the word automata; `incl` never produces them
whatever the options, and `equiv` (`CheckEquiv`) builds exactly these words but then throws in EVERY case –
`Equivalence not implemented` when the options are accepted. -/
theorem Util_CliArgs_equiv_selections_unreachable :
    (∀ r : Rep, ((table r).filter (fun c => Vata.Dispatch.has c.word fEquiv)).map (·.word) =
      (if r = .explFa then [65, 97] else [])) ∧
    (∀ (opts : Options) (c : InclChoice), checkInclusionOpts opts = .ok c → c.word ≠ 65 ∧ c.word ≠ 97) ∧
    (∀ opts : Options,
      ((checkEquivOpts opts).2 = none ∧ (checkEquivOpts opts).1 =
          lit "Invalid options for equivalence: " ++ showOptions (withDefault "order" "depth" opts)) ∨
      ((checkEquivOpts opts).1 = lit "Equivalence not implemented" ∧
        ((checkEquivOpts opts).2 = Vata.Gen.namedWords.lookup "CONGR_DEPTH_EQUIV_NOSIM" ∨
         (checkEquivOpts opts).2 = Vata.Gen.namedWords.lookup "CONGR_BREADTH_EQUIV_NOSIM"))) :=
  ⟨equiv_cases, fun _ _ h => (equiv_unreachable_by_incl h).2, checkEquiv_always_throws⟩

example : checkEquivOpts [] = (lit "Equivalence not implemented", some 65) ∧
    checkEquivOpts [(lit "order", lit "breadth")] = (lit "Equivalence not implemented", some 97) := by decide

/-- **Unimplemented combinations reach a word outside the table** (→ `default:` → `NotImplementedException`,
`Vata.Dispatch.default_throws`): for every accepted choice the dispatcher of representation `r` has a `case` for its word
iff `impl r` holds –
* `expl`: antichains, `order=depth`, and upward with `rec=no, optC=no` or downward with `rec=yes` or `optC=no`;
* `bdd-td`: antichains, `order=depth`, `dir=down, rec=yes`;
* `bdd-bu`: antichains, `order=depth`, and upward with `rec=no, optC=no` or `dir=down, rec=yes, optC=no, sim=yes`;
* `expl_fa`: `dir=up, rec=no, optC=no`, and antichains with `order=depth` or congruence except `order=breadth, sim=yes`. -/
theorem Util_CliArgs_unimplemented (r : Rep) (c : InclChoice) : implemented r c.word = impl r c ∧
    (Vata.Gen.explDispatchDefaultThrows = true ∧ Vata.Gen.tdDispatchDefaultThrows = true ∧
      Vata.Gen.buDispatchDefaultThrows = true ∧ Vata.Gen.faDispatchDefaultThrows = true) := by
  obtain ⟨a, b, c, d, e, f, g⟩ := c
  exact ⟨implemented_iff r a b c d e f g, Vata.Dispatch.default_throws⟩

/-- e.g. the upward algorithm with `rec=yes` (a meaningless but harmless combination) is refused, and so is `order=breadth`
with the antichain algorithms (where the option means nothing) -/
example : implemented .expl (InclChoice.word ⟨false, false, true, false, false, false, true⟩) = false ∧
    implemented .expl (InclChoice.word ⟨false, false, false, false, false, true, true⟩) = false ∧
    implemented .explFa (InclChoice.word ⟨true, false, false, false, false, true, true⟩) = true := by decide

/-! ## (2) what the `-o` list accepts -/

/-- **One piece of the `-o` list.**  `processOption` accepts a non-empty piece without `=` (the value is then the EMPTY
string) or `name=value` cut at the FIRST `=` with both sides non-empty (the value may contain further `=`). -/
theorem Util_CliArgs_option_piece (o k v : Str) : processOption o = .ok (k, v) ↔
    (o ≠ [] ∧ '=' ∉ o ∧ k = o ∧ v = []) ∨ (k ≠ [] ∧ v ≠ [] ∧ '=' ∉ k ∧ o = k ++ '=' :: v) :=
  processOption_ok_iff o k v

example : processOption (lit "sim") = .ok (lit "sim", []) ∧ processOption (lit "a==b") = .ok (lit "a", lit "=b") ∧
    (processOption (lit "sim=")).toOption = none ∧ (processOption (lit "=yes")).toOption = none ∧
    (processOption []).toOption = none := by decide

/-- **The whole list.**  The `-o` argument is cut at every comma; it is accepted iff every piece is accepted by
`processOption` and no option name occurs twice – the non-overwriting `insert` is used as a duplicate TEST, a repeated
option is an error (`Option for '…' specified more than once`), never silently dropped; the resulting map holds exactly
the pairs. -/
theorem Util_CliArgs_option_list (arg : Str) (m : Options) :
    parseOptionList arg [] = .ok m ↔ ∃ kvs, piecesKV (Vata.T.splitDelim ',' arg) = .ok kvs ∧ (kvs.map (·.1)).Nodup ∧
      m = insertAll kvs [] := by
  unfold parseOptionList
  rw [insertPieces_ok_iff _ m sortedMap_nil]
  constructor
  · rintro ⟨kvs, h1, h2, _, h4⟩; exact ⟨kvs, h1, h2, h4⟩
  · rintro ⟨kvs, h1, h2, h4⟩; exact ⟨kvs, h1, h2, fun _ _ => rfl, h4⟩

/-- looking an option up in the result -/
theorem Util_CliArgs_option_lookup (kvs : List (Str × Str)) (k : Str) :
    SortedMap (insertAll kvs []) ∧ mapFind (insertAll kvs []) k = (kvs.find? (fun e => e.1 = k)).map (·.2) := by
  refine ⟨insertAll_sorted kvs sortedMap_nil, ?_⟩
  rw [mapFind_insertAll kvs sortedMap_nil k]
  rfl

example : parseOptionList (lit "dir=down,foo=bar,sim") [] = .ok [(lit "dir", lit "down"), (lit "foo", lit "bar"), (lit "sim", [])] ∧
    parseOptionList (lit "dir=down,dir=down") [] = .error (lit "Option for 'dir' specified more than once") ∧
    parseOptionList (lit "dir=down,") [] = .error (lit "Malformed options: ''") ∧
    parseOptionList (lit "dir=") [] = .error (lit "Malformed option: 'dir='") := by decide

/-- **The options of a successful parse**: a well-formed map; empty when there was no `-o`, else what ONE element of the
vector denotes (`-o` twice is an error) -/
theorem Util_CliArgs_options_of_parse {argv : List Str} {a : Arguments} (h : parse argv = .ok a) :
    SortedMap a.options ∧ (a.options = [] ∨ ∃ arg, arg ∈ argv ∧ parseOptionList arg [] = .ok a.options) :=
  parse_options h

example : (parse [lit "-o", lit "x=1", lit "-o", lit "y=2", lit "load", lit "f"]) =
    .error (lit "The '-o' flag specified more times.") := by decide

/-- **Defaults never overwrite.**  `options.insert(make_pair(d, v))` on a map: the key `d` keeps the user's value if it
has one (even the empty one of `-o d`), every other key is untouched. -/
theorem Util_CliArgs_defaults_do_not_overwrite (d v : String) (k : Str) {m : Options} (hs : SortedMap m) :
    mapGet (withDefault d v m) k = if k = lit d then (mapFind m k).getD (lit v) else mapGet m k :=
  mapGet_withDefault d v k hs

/-- **Unknown option names are ignored, unknown VALUES are not**: acceptance and the choice depend on the seven values
only. -/
theorem Util_CliArgs_unknown_names_ignored {m₁ m₂ : Options} (h₁ : SortedMap m₁) (h₂ : SortedMap m₂)
    (h : ∀ k d, (k, d) ∈ [("alg", "antichains"), ("dir", "up"), ("rec", "no"), ("optC", "no"), ("sim", "no"),
      ("order", "depth"), ("timeS", "yes")] → optVal m₁ k d = optVal m₂ k d) (c : InclChoice) :
    checkInclusionOpts m₁ = .ok c ↔ checkInclusionOpts m₂ = .ok c := by
  rw [checkInclusionOpts_ok_iff h₁, checkInclusionOpts_ok_iff h₂,
    h "alg" "antichains" (by simp), h "dir" "up" (by simp), h "rec" "no" (by simp), h "optC" "no" (by simp),
    h "sim" "no" (by simp), h "order" "depth" (by simp), h "timeS" "yes" (by simp)]

/-- `foo=bar` and the typo `optc=yes` are silently accepted (and have no effect); `sim=YES`, `sim=` `1`, and `sim` without a
value (its value is `""`, the default is NOT used) are rejected – by `CheckInclusion`, not by `parseArguments` -/
example :
    (checkInclusionOpts [(lit "foo", lit "bar"), (lit "optc", lit "yes")]).map (·.word) = .ok 0 ∧
    (checkInclusionOpts [(lit "sim", lit "YES")]).toOption = none ∧
    (checkInclusionOpts [(lit "sim", lit "1")]).toOption = none ∧
    (checkInclusionOpts [(lit "sim", [])]).toOption = none ∧
    (parse [lit "-o", lit "sim=YES,foo", lit "incl", lit "a", lit "b"]).toOption.isSome = true := by decide

/-! ## (3) `parseArguments` is total and stays inside `argv` -/

/-- **No vector makes `parseArguments` read past the end of `argv`.**  The loop on `argc` / `argv` with every read
explicit, started with any `argc` up to the length of the vector, never reads an index outside it (it reads only
`argv[0 .. argc)`), and computes the list-level `parse` of the first `argc` elements.  (The inputs that would read past
`argv`: none.  The argument of a flag is read only after `if (argc == 0) throw`; `currentArg[0]` of an empty string is its
terminating NUL.) -/
theorem Util_CliArgs_parse_in_bounds (argv : List Str) (argc : Nat) (h : argc ≤ argv.length) :
    parseRaw argv argc 0 {} = Raw.ofExcept (parse (argv.take argc)) ∧ ∀ i, parseRaw argv argc 0 {} ≠ .outOfBounds i :=
  ⟨parseRaw_prefix argv argc h, parseRaw_in_bounds argv argc h⟩

example : parseRaw [lit "-t", lit "-r"] 2 0 {} = .err (lit "The '-r' flag needs an argument.") ∧
    parseRaw [lit "load"] 2 0 {} = .outOfBounds 1 := by decide

/-- **The `-o` loop on indices.**  The loop as coded (`newPos = find(',', lastPos)`, `substr(lastPos, newPos - lastPos)`,
`lastPos = newPos + 1`, and once more after the loop with `newPos == npos`) never calls `substr` with `lastPos > size()` –
`std::out_of_range` would be an exception that is NOT a `std::runtime_error` – and is exactly "cut at every comma,
`processOption` + `insert` per piece in order" (`parseOptionList`, which `parse` uses). -/
theorem Util_CliArgs_option_loop_in_range (s : Str) (m : Options) :
    optLoopRaw s (s.length + 1) 0 m = OptRaw.ofExcept (parseOptionList s m) ∧
    optLoopRaw s (s.length + 1) 0 m ≠ .outOfRange :=
  ⟨optLoopRaw_full s m, (optLoopRaw_no_out_of_range s m).1⟩

example : optLoopRaw (lit "a=1,,b") 7 0 [] = .err (lit "Malformed options: ''") ∧
    optLoopRaw (lit "a=1,b,") 7 0 [] = .err (lit "Malformed options: ''") ∧
    optLoopRaw (lit ",") 2 0 [] = .err (lit "Malformed options: ''") ∧
    optLoopRaw (lit "a=1,b") 6 0 [] = .ok [(lit "a", lit "1"), (lit "b", [])] := by decide

/-- **Every vector yields `Arguments` or a `std::runtime_error`** (the model is a total function into `Except`; every
`throw` of the file throws that type), and the text is one of 16 fixed texts, or one of five prefixes followed by an
element of the vector, or one of the three complaints about a comma-separated piece of an element. -/
theorem Util_CliArgs_parse_total (argv : List Str) :
    (∃ a, parse argv = .ok a) ∨
    ∃ e, parse argv = .error e ∧ (e ∈ fixedErrors ∨ ∃ x, x ∈ argv ∧ (QuotesElement x e ∨ QuotesPiece x e)) := by
  cases h : parse argv with
  | ok a => exact Or.inl ⟨a, rfl⟩
  | error e => exact Or.inr ⟨e, rfl, parse_error_forms h⟩

example : parse [] = .error (lit "Invalid input arguments.") ∧
    parse [lit "-x"] = .error (lit "Invalid flag: -x") ∧
    parse [[], lit "f"] = .error (lit "Unknown command: ") ∧
    parse [lit "load", lit "f", lit "g"] = .error (lit "Invalid command line arguments: g") ∧
    parse [lit "-I", lit "timbuk", lit "-F", lit "timbuk", lit "load", lit "f"] = .error (lit "Invalid use of the '-F' flag.") := by
  decide

/-- **The command fields of a successful parse**: `help` / `version` (everything after the word or flag is ignored –
also errors), or a command with exactly its number of operands -/
theorem Util_CliArgs_parse_wf {argv : List Str} {a : Arguments} (h : parse argv = .ok a) :
    a.command = .help ∨ a.command = .version ∨
      (a.operands = arity a.command ∧ 1 ≤ a.operands ∧ (a.operands = 1 → a.fileName2 = [])) :=
  parse_wf h

example : (parse [lit "-t", lit "--help", lit "-x", lit "-t"]).map (fun a => (a.command, a.showTime)) = .ok (.help, true) ∧
    (parse [lit "incl", lit "-p", lit "a", lit "-s", lit "b", lit "-n"]).map
      (fun a => (a.command, a.operands, a.fileName1, a.fileName2)) = .ok (.incl, 2, lit "a", lit "b") ∧
    (parse [lit "incl", lit "-p", lit "a", lit "-s", lit "b", lit "-n"]).map
      (fun a => (a.pruneUnreachable, a.pruneUseless, a.dontOutputResult)) = .ok (true, true, true) := by decide

/-- `main()`: no arguments at all is NOT an error (short usage, exit code 0) although `parseArguments` would throw on the
empty vector; a parse error prints the short usage and returns 1 -/
example : (mainEarly [] []).map (·.code) = some 0 ∧ (mainEarly [] [lit "-x"]).map (·.code) = some 1 ∧
    (mainEarly [] [lit "load", lit "f"]).isNone = true := by decide

/-! ## (4) the help text against the code -/

/-- **`incl`: the `(default)` marks are right.**  The options the help text lists for `incl` are the seven options with
their two words each; the ones marked `(default)`, read as a map, are exactly the map `CheckInclusion` works with when no
option is given; and every listed `name=value` is accepted. -/
theorem Util_CliArgs_help_incl_defaults :
    (listedOptions (helpSection "incl")).map String.ofList =
      ["alg=antichains", "alg=congr", "dir=down", "dir=up", "sim=yes", "sim=no", "order=depth", "order=breadth",
       "optC=yes", "optC=no", "rec=no", "rec=yes", "timeS=yes", "timeS=no"] ∧
    insertAll ((claimedDefaults (helpSection "incl")).map asPair) [] = inclDefaults [] ∧
    ((listedOptions (helpSection "incl")).map asPair).all (fun kv => (checkInclusionOpts [kv]).toOption.isSome) = true :=
  ⟨help_incl_listed, help_incl_defaults_are_coded, help_incl_values_are_coded⟩

/-- **`rec=no` / `rec=yes`: the descriptions are swapped.**  The text calls `rec=no` the "recursive version … (default)"
and `rec=yes` the "non-recursive version".  The code: `rec=no` (the default, that part is right) CLEARS
`FLAG_MASK_RECURSIVE` and `rec=yes` sets it; in every tree-automata dispatcher the cases with that bit are the recursive
implementations and the cases without it the non-recursive ones; with no options the word is 0 = `ANTICHAINS_UP_NOSIM`. -/
theorem Util_CliArgs_help_rec_swapped :
    ("               'rec=no'   : recursive version of the algorithm (default)\n" ∈ usageCommands ∧
     "               'rec=yes'  : non-recursive version of the algorithm\n" ∈ usageCommands) ∧
    (∀ {opts : Options}, SortedMap opts → ∀ {c : InclChoice}, checkInclusionOpts opts = .ok c →
      (optVal opts "rec" "no" = lit "no" → Vata.Dispatch.has c.word fRec = false) ∧
      (optVal opts "rec" "no" = lit "yes" → Vata.Dispatch.has c.word fRec = true)) ∧
    (Vata.Gen.explDispatch ++ Vata.Gen.tdDispatch ++ Vata.Gen.buDispatch).all (fun c =>
      Vata.Dispatch.has c.word fRec == (c.callee == "downRec" || c.callee == "viaTopDown")) = true ∧
    (checkInclusionOpts []).map (·.word) = .ok 0 :=
  ⟨⟨help_rec_lines.1, help_rec_lines.2.1⟩, fun hs _ h => coded_rec hs h, rec_bit_is_recursive, default_word.1⟩

/-- **`sim`: the claimed default for finite automata is not the coded one.**  The text marks `dir=down` (tree automata) and
`dir=fwd` (finite automata) as defaults; the option handling of `ComputeSimulation` does not look at the representation and
inserts `dir=down`: without `-o` the relation is `TA_DOWNWARD`; `FA_FORWARD` only with `-o dir=fwd`. -/
theorem Util_CliArgs_help_sim_default :
    (claimedDefaults (helpSection "sim")).map String.ofList = ["dir=down", "dir=fwd"] ∧
    computeSimulationOpts [] = .ok relDown ∧ computeSimulationOpts [(lit "dir", lit "fwd")] = .ok relFwd :=
  ⟨help_sim_defaults, coded_sim_default.1, coded_sim_default.2.1⟩

/-- **`red`: the listed `dir=up` is refused**; `equiv`: both listed options are accepted – and the command then throws
(`Util_CliArgs_equiv_selections_unreachable`) -/
theorem Util_CliArgs_help_red_equiv :
    (listedOptions (helpSection "red")).map String.ofList = ["dir=down", "dir=up"] ∧
    computeReductionOpts [] = .ok () ∧ computeReductionOpts [(lit "dir", lit "up")] = .error (lit "Unimplemented.") ∧
    (listedOptions (helpSection "equiv")).map String.ofList = ["order=depth", "order=breadth"] :=
  ⟨help_red.1, coded_red.1, coded_red.2, help_equiv⟩

/-- the defaults of the flags block (`expl`, `timbuk`) are the initial values of `Arguments` -/
theorem Util_CliArgs_help_flag_defaults :
    ("       Choices: 'expl'   : explicit (default)\n" ∈ usageFlags ∧
     "       Formats: 'timbuk'  : Timbuk format (default)\n" ∈ usageFlags) ∧
    ({} : Arguments).representation = .expl ∧ ({} : Arguments).inputFormat = .timbuk ∧
    ({} : Arguments).outputFormat = .timbuk :=
  ⟨⟨help_flags.1, help_flags.2.1⟩, coded_flag_defaults⟩

/-! ## `performOperation` -/

/-- **Which commands prune.**  `-p` / `-s` act on `load`, `union`, `cmpl`, `isect`, `red` only: for `witness`, `incl`,
`equiv`, `sim` they are accepted and silently ignored; `-s` is "stronger than `-p`" (the usage line `[(-p|-s)]` notwithstanding,
both may be given); `-n` suppresses all standard output. -/
theorem Util_CliArgs_prune (a : Arguments) :
    (prunes a.command = false → ∀ p s, perform { a with pruneUnreachable := p, pruneUseless := s } = perform a) ∧
    (a.pruneUseless = true → ∀ p, perform { a with pruneUnreachable := p } = perform a) ∧
    (a.dontOutputResult = true → (perform a).out = []) :=
  ⟨fun h p s => perform_prune_ignored a h p s, fun h p => perform_useless_wins a h p, perform_no_output a⟩

example : (Command.witness :: Command.incl :: Command.equiv :: Command.sim :: []).all (fun c => !prunes c) = true ∧
    (Command.load :: Command.union :: Command.cmpl :: Command.isect :: Command.red :: []).all prunes = true := by decide

/-- **The `symbolic` option** is examined first; a value other than `yes` / `no` (also the empty one of `-o symbolic`) ends
the run before anything is loaded -/
theorem Util_CliArgs_symbolic (a : Arguments)
    (h : mapGet (withDefault "symbolic" "no" a.options) (lit "symbolic") ≠ lit "yes" ∧
         mapGet (withDefault "symbolic" "no" a.options) (lit "symbolic") ≠ lit "no") :
    perform a = { exc := some (lit "Invalid options: " ++ showOptions (withDefault "symbolic" "no" a.options)) } :=
  perform_symbolic_invalid a h

example : perform { command := .load, operands := 1, fileName1 := lit "A", options := [(lit "symbolic", [])] } =
    { exc := some (lit "Invalid options: [symbolic -> ]") } := by decide

/-- pruning, the dictionary of the dump, and the simulation set-up of `incl` on the recording automaton (the traces the
harness compares): see `perform_prune_examples`, `perform_dump_examples`, `perform_incl_sim_examples` -/
theorem Util_CliArgs_perform_examples :
    String.ofList (perform { command := .load, operands := 1, fileName1 := lit "A", pruneUnreachable := true, pruneUseless := true }).out =
      "dump(us(ld(A,));A>0)\n" ∧
    String.ofList (perform { command := .cmpl, operands := 1, fileName1 := lit "A" }).out = "dump(cmpl(ld(A,)))\n" ∧
    ((perform { command := .incl, operands := 2, fileName1 := lit "A", fileName2 := lit "B",
                 options := [(lit "alg", lit "congr"), (lit "sim", lit "yes")] }).log.drop 4).map String.ofList =
      ["sim(0,1,2)", "incl(udisj(ri(us(ld(A,))),ri(us(ld(B,)))),ri(us(ld(B,))),17)"] :=
  ⟨perform_prune_examples.2.2.1, perform_dump_examples.1, perform_incl_sim_examples.2⟩

/-!
## not proved / outside the model

* The model's strings are lists of `Char`, one per byte; the comparison of keys in `std::map` is the comparison of
  unsigned bytes (`ltStr`), which is what `std::string::operator<` does.  `argv` strings cannot contain NUL; the model does
  not exclude it (it has no special role).  `argc < 0` (loop not entered → `Invalid input arguments.`) is not modelled.
* `processOption` is modelled with `takeWhile` / `dropWhile` at the first `=` (`find('=')`, `substr(0, equalPos)`,
  `substr(equalPos + 1)`: positions inside the string by construction); `s.find(c, from)` and `s.substr(pos, len)` of the
  `-o` loop are modelled from their specification, `npos - lastPos` as "a length that reaches the end".
* `perform` describes `performOperation` on the RECORDING automaton of the harness (every library call extends a term or
  logs an event).  What the real representations do when called is the subject of the other properties; in particular the
  library calls the CLI makes BEFORE the dispatcher is reached are not modelled here: with `sim=yes` the CLI first calls
  `ComputeSimulation` of the representation, which throws `NotImplementedException` for `bdd-td` and `expl_fa`
  (`bdd_td_tree_aut_sim.cc`, `explicit_finite_sim.cc`), so the words 26 / 30 of the top-down and 16 / 17 of the word-automata
  table, although produced by the option handling (`Util_CliArgs_every_selection_reachable_partial`), cannot be run to
  a verdict from the command line.  This is read off the sources, not proved.
* `executeCommand` (creation of parser / serializer), the time printed by `-t` (only "something was written to stderr"
  is compared), `-V` (parsed, never used) and the real file access (`ReadFile` is replaced in the harness) are outside.
* The help text is compared verbatim at run time (`mo=` token of `help` cases); the theorems about it quote lines / read
  off the quoted `name=value` and the `(default)` marks mechanically (`claimedDefaults`), they do not interpret the prose
  beyond the two quoted `rec` lines.
-/
end Vata.Props
