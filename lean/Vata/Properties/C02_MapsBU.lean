import Vata.Properties.C02_Maps
import Vata.Proofs.UnionIsectMapsBUInv
import Vata.Proofs.UnionIsectMapsBUTotal
import Vata.Proofs.UnionIsectMapsBURules
/-!
# C02 (translation maps) – `IntersectionBU` started from a caller's product map: the general theorem and totality

> C02: For any explicit tree automata A and B, Union … return an automaton accepting exactly L(A) ∪ L(B), and Intersection
> and IntersectionBU return automata accepting exactly L(A) ∩ L(B).  The state-translation maps they report name, for every
> state of the result, the operand state or state pair it stands for …

This file closes the first open item of `Vata/Properties/C02_Maps.lean` ("`IntersectionBU` with a non-empty entry map: no
general theorem … totality is not proved either").  **The conjecture stated there is TRUE**: `pmapOkB m0` (numbers below
the size, different keys have different numbers – what every map returned by an earlier `Intersection` / `IntersectionBU`
satisfies) alone makes `IntersectionBU(lhs, rhs, &m)` exact, whatever pairs are pre-filled.

## How the C++ is read into the model (`src/explicit_tree_isect_bu.cc`)

The model is `isectBUFrom A B m0 fuel` of `Vata/UnionIsectMaps.lean`: the leaf phase `buLeafPhase` and the work-list loop
`buLoop` of `Vata/IsectBU.lean` (where the C++ lines are quoted) started from `m0`, the output returned as it is.  The points
that matter for a pre-filled map, re-read in the source:

* `pTranslMap->insert(make_pair(pair, pTranslMap->size()))` – the fresh number is the SIZE of the map (`buInsert`); there is no
  counter and no look at the numbers in the map.  `MapOk` (all numbers `< size()`, injective) is exactly what makes `size()`
  fresh, and it is kept by `insert` and by the `erase` of the tentatively inserted parent pair (`Isx.mapOk_snoc`,
  `Ibu.buErase_snoc`).
* `stack.push_back(&*productState)` (leaf phase) and `stack.push_back(&*newProduct)` (after `res.AddTransition`) are executed
  whether or not the pair was new.  So a pre-filled pair is pushed as soon as a rule with that parent pair is written.
* `if (newStates.count(p->second)) continue; else newStates.insert(p->second);` – `newStates` is keyed by the NUMBER.  With an
  injective map a number stands for one pair, so an entry is skipped only when the same pair has been processed before;
  a pre-filled pair is NOT in `newStates` on entry, hence it is processed at its first pop.
* `res.SetStateFinal` is called in the leaf phase and for every popped entry that is not skipped – for pre-filled pairs too.
* `findResult = pTranslMap->find(statePair)` accepts every children pair that is in the map, also a pre-filled pair that is
  never produced bottom-up.  The rule is written with the number of that pair as a child: a DEAD rule (the child state has
  no rule), and its parent pair is pushed, processed and possibly marked final (`C02_isectBU_prefilled_dead_rule_example`).
  This is why the rules are NOT the product on a bottom-up closed set as for the empty map, and why the proof needs a new
  invariant: `Ibf.PInv` (`Vata/Proofs/UnionIsectMapsBUInv.lean`) speaks about POPPED pairs instead of pairs in the map.

The runs of `C02_isectBU_prefilled_noninjective_counterexample`, `C02_isectBU_prefilled_dead_rule_example` (both maps) and the
run with `m = {(0,1) ↦ 0}` were replayed on the real library (`/repo/_build/src/libvata.a`, `ExplicitTreeAut::IntersectionBU`
with a pre-filled `ProductTranslMap`): rules, final states and maps agree with the model number by number.

Abstractions: as in `C02_Maps.lean` – a `PMap` is an association list standing for an `unordered_map` (the theorems do not
assume distinct keys; only such lists stand for a C++ map), hash iteration orders are list orders, the loop has fuel.

## Fuel

`isectBUFrom` returns `none` only when the fuel ends before the stack is empty.  `C02_isectBU_prefilled_total`: the explicit
bound `isectBUFromFuel A B m0 = |Δ_A|·|Δ_B| + (|m0| + |Q_A|·|Q_B|)·|Δ_A|·|Δ_B|·maxArity + 1` suffices for EVERY entry map (no
`pmapOkB` needed); all `some` answers are correct under `pmapOkB m0` (`C02_isectBU_prefilled_lang`).
-/
namespace Vata.Props
open Vata

/-- **`IntersectionBU(lhs, rhs, &m)` with a pre-filled map is exact** as soon as the map on entry has its numbers below its
size and is injective (`pmapOkB`, decidable; true for the empty map and for every map returned by an earlier product).
The map on exit is injective (even `MapOk`) and extends the map on entry.  No condition on WHICH pairs are pre-filled
(contrast `C02_isect_prefilled_lang` for the top-down `Intersection`, which needs `prefillOkB`). -/
theorem C02_isectBU_prefilled_lang {A B : TA} {m0 : PMap} {fuel : Nat} {P : TA} {m : PMap}
    (hok : pmapOkB m0 = true) (h : isectBUFrom A B m0 fuel = some (P, m)) :
    (∀ t, accepts P t = (accepts A t && accepts B t)) ∧ InjOn (lookupF m) m.dom ∧ Isx.MapOk m ∧ Isx.Ext m0 m :=
  ⟨isectBUFrom_lang (pmapOkB_sound hok) h, isectBUFrom_map_inj (pmapOkB_sound hok) h,
    (isectBUFrom_spec (pmapOkB_sound hok) h).1, isectBUFrom_ext (pmapOkB_sound hok) h⟩

-- the hypotheses are satisfiable: the pre-filled maps for which `Intersection` goes wrong
example : pmapOkB [((0, 0), 0)] = true ∧
    IsectBUFromEx.obs (isectBUFrom IsectBUFromEx.exA IsectBUFromEx.exA [((0, 0), 0)] 6) =
      some ([⟨0, [], 0⟩, ⟨2, [0], 1⟩], [1], [((0, 0), 0), ((1, 1), 1)]) := by decide
example : pmapOkB [((1, 1), 0), ((0, 0), 1)] = true ∧
    (isectBUFrom IsectBUFromEx.exA IsectBUFromEx.exA [((1, 1), 0), ((0, 0), 1)] 6).isSome = true := by decide
example : ∃ P m, isectBUFrom IsectBUFromEx.exA IsectBUFromEx.exA [((0, 1), 0)] 6 = some (P, m) ∧
    accepts P IsectBUFromEx.tHA = true ∧ accepts P IsectBUFromEx.tA = false := by
  cases h : isectBUFrom IsectBUFromEx.exA IsectBUFromEx.exA [((0, 1), 0)] 6 with
  | none => exact absurd h (by decide)
  | some r =>
    refine ⟨r.1, r.2, rfl, ?_, ?_⟩
    · rw [(C02_isectBU_prefilled_lang (by decide) h).1]; decide
    · rw [(C02_isectBU_prefilled_lang (by decide) h).1]; decide

/-- **the reported map names the states** (second sentence of C02): on every tree `t` the states the result reaches are
exactly the numbers the map on exit gives to the pairs `(p, q)` with `p` reached by `A` and `q` reached by `B` on `t`.  In
particular every pair of states reached on a common tree is in the map. -/
theorem C02_isectBU_prefilled_states {A B : TA} {m0 : PMap} {fuel : Nat} {P : TA} {m : PMap}
    (hok : pmapOkB m0 = true) (h : isectBUFrom A B m0 fuel = some (P, m)) (t : Tree) :
    (∀ x, x ∈ reach P t → ∃ pr, m.lookup pr = some x ∧ pr.1 ∈ reach A t ∧ pr.2 ∈ reach B t) ∧
    (∀ p q, p ∈ reach A t → q ∈ reach B t → ∃ n, m.lookup (p, q) = some n ∧ n ∈ reach P t) :=
  isectBUFrom_reach (pmapOkB_sound hok) h t

/-- **re-using the map object**: `ProductTranslMap m; IntersectionBU(A', B', &m); IntersectionBU(A, B, &m);` – the second
call is exact (for `Intersection` the second call returns the empty language,
`C02_isect_prefilled_reuse_counterexample`).  More generally for a map returned by any earlier `IntersectionBU` that was
itself started from a `pmapOkB` map. -/
theorem C02_isectBU_reuse {A' B' A B : TA} {m0 : PMap} {fuel' fuel : Nat} {P' P : TA} {m' m : PMap}
    (hok : pmapOkB m0 = true) (h' : isectBUFrom A' B' m0 fuel' = some (P', m')) (h : isectBUFrom A B m' fuel = some (P, m)) :
    (∀ t, accepts P t = (accepts A t && accepts B t)) ∧ InjOn (lookupF m) m.dom ∧ Isx.Ext m' m := by
  have hok' := (isectBUFrom_spec (pmapOkB_sound hok) h').1
  exact ⟨isectBUFrom_lang hok' h, isectBUFrom_map_inj hok' h, isectBUFrom_ext hok' h⟩

example : (isectBUFrom IsectBUFromEx.exA IsectBUFromEx.exA [] 6).map (fun r => r.2) = some [((0, 0), 0), ((1, 1), 1)] ∧
    IsectBUFromEx.obs (isectBUFrom IsectBUFromEx.exA IsectBUFromEx.exA [((0, 0), 0), ((1, 1), 1)] 6) =
      some ([⟨0, [], 0⟩, ⟨2, [0], 1⟩], [1], [((0, 0), 0), ((1, 1), 1)]) := by decide

/-- **totality**: the explicit fuel `isectBUFromFuel A B m0` is enough for EVERY entry map (no `pmapOkB`, keys need not be
distinct nor pairs of states) -/
theorem C02_isectBU_prefilled_total (A B : TA) (m0 : PMap) (fuel : Nat) (hf : isectBUFromFuel A B m0 ≤ fuel) :
    (isectBUFrom A B m0 fuel).isSome = true := isectBUFrom_total A B m0 fuel hf

example : isectBUFromFuel IsectBUFromEx.exA IsectBUFromEx.exA [((0, 0), 0), ((1, 1), 0)] = 29 := by decide
example (A B : TA) : isectBUFromFuel A B [] = isectBUFuel A B := isectBUFromFuel_nil A B
-- also for the map of the collision counterexample (not `pmapOkB`) a result is returned
example : pmapOkB [((1, 1), 1)] = false ∧ (isectBUFromRef IsectBUFromEx.exA IsectBUFromEx.exA [((1, 1), 1)]).isSome = true :=
  ⟨by decide, isectBUFromRef_isSome _ _ _⟩

/-- total and exact: with the fuel `isectBUFromFuel` and a `pmapOkB` entry map the call returns the exact product -/
theorem C02_isectBU_prefilled_ref (A B : TA) (m0 : PMap) (hok : pmapOkB m0 = true) :
    ∃ P m, isectBUFromRef A B m0 = some (P, m) ∧ (∀ t, accepts P t = (accepts A t && accepts B t)) ∧
      InjOn (lookupF m) m.dom ∧ Isx.Ext m0 m := isectBUFromRef_lang A B m0 (pmapOkB_sound hok)

/-! ### the hypothesis `pmapOkB m0` cannot be dropped: one counterexample for each half -/

/-- numbers not below the size: `C02_isectBU_prefilled_collision_counterexample` (`m = {(1,1) ↦ 1}`, size 1) -/
theorem C02_isectBU_prefilled_numbers_counterexample :
    pmapInjB [((1, 1), 1)] = true ∧ pmapOkB [((1, 1), 1)] = false ∧
    (isectBUFrom IsectBUFromEx.exA IsectBUFromEx.exA [((1, 1), 1)] 6).map (fun r => accepts r.1 IsectBUFromEx.tHA) =
      some false ∧
    accepts IsectBUFromEx.exA IsectBUFromEx.tHA = true :=
  ⟨by decide, by decide, IsectBUFromEx.bu_collision_counterexample.2.1, IsectBUFromEx.bu_collision_counterexample.2.2⟩

/-- **counterexample (finding): a map that is not injective.**  `A = {a → 0, h(0) → 1; F = {1}}`,
`m = {(0,0) ↦ 0, (1,1) ↦ 0}` on entry (all numbers below the size 2): after `(0,0)` has been processed the number `0` is in
`newStates`; the entry of `(1,1)` is skipped by `newStates.count(p->second)` and never marked final.  The result
`a → 0, h(0) → 0; F = {}` has the empty language although `h(a)` is in the intersection. -/
theorem C02_isectBU_prefilled_noninjective_counterexample :
    ([((0, 0), 0), ((1, 1), 0)] : PMap).all (fun e => e.2 < 2) = true ∧ pmapInjB [((0, 0), 0), ((1, 1), 0)] = false ∧
    IsectBUFromEx.obs (isectBUFrom IsectBUFromEx.exA IsectBUFromEx.exA [((0, 0), 0), ((1, 1), 0)] 6) =
      some ([⟨0, [], 0⟩, ⟨2, [0], 0⟩], [], [((0, 0), 0), ((1, 1), 0)]) ∧
    (isectBUFrom IsectBUFromEx.exA IsectBUFromEx.exA [((0, 0), 0), ((1, 1), 0)] 6).map
      (fun r => accepts r.1 IsectBUFromEx.tHA) = some false ∧
    accepts IsectBUFromEx.exA IsectBUFromEx.tHA = true := ⟨by decide, by decide, by decide, by decide, by decide⟩

/-! ### what a pre-filled map changes although the language stays right -/

namespace IsectBUDeadEx
/-- `a → 0`, `b → 1`, `g(0,1) → 2`; final `2`: the language is `{g(a,b)}` -/
def gA : TA := ⟨[⟨0, [], 0⟩, ⟨1, [], 1⟩, ⟨3, [0, 1], 2⟩], [2]⟩
/-- `a → 0`, `c → 1`, `g(0,1) → 2`; final `2`: the language is `{g(a,c)}` -/
def gB : TA := ⟨[⟨0, [], 0⟩, ⟨2, [], 1⟩, ⟨3, [0, 1], 2⟩], [2]⟩
end IsectBUDeadEx

/-- **dead rules.**  `L(A) ∩ L(B) = ∅`, the pair `(1,1)` is not reachable bottom-up.  With the empty map `IntersectionBU` returns
the single rule `a → 0` and no final state.  With `m = {(1,1) ↦ 0}` on entry the children lookup `pTranslMap->find` succeeds
for `(1,1)`: the rule `g(1, 0) → 2` is written, `(2,2)` enters the map and is marked final.  State `0` has no rule, so the
language is still empty (`C02_isectBU_prefilled_lang`), but rules, final states and map differ from the call with the empty
map: the result is not the product on a bottom-up closed set of reachable pairs. -/
theorem C02_isectBU_prefilled_dead_rule_example :
    pmapOkB [((1, 1), 0)] = true ∧
    IsectBUFromEx.obs (isectBUFrom IsectBUDeadEx.gA IsectBUDeadEx.gB [] 10) = some ([⟨0, [], 0⟩], [], [((0, 0), 0)]) ∧
    IsectBUFromEx.obs (isectBUFrom IsectBUDeadEx.gA IsectBUDeadEx.gB [((1, 1), 0)] 10) =
      some ([⟨0, [], 1⟩, ⟨3, [1, 0], 2⟩], [2], [((1, 1), 0), ((0, 0), 1), ((2, 2), 2)]) :=
  ⟨by decide, by decide, by decide⟩

/-- **rules and final states of the result, exactly** (as sets; the analogue of `C02_isect_prefilled_is_explored_product`).
Call a pair POPPED when it is in the map on exit and its number is the parent of a rule of the result.  The rules are the
product rules `f(m(c₁),…,m(cₙ)) → m(p)` of matching rules (`Isx.Matching`: same symbol, same arity) all of whose children
pairs are in the map on exit and which are leaf rules or have a popped children pair; the final states are the numbers of
the popped pairs of two final states.  Rules with a children pair that is pre-filled and never popped are dead. -/
theorem C02_isectBU_prefilled_rules {A B : TA} {m0 : PMap} {fuel : Nat} {P : TA} {m : PMap}
    (hok : pmapOkB m0 = true) (h : isectBUFrom A B m0 fuel = some (P, m)) :
    (∀ ρ, ρ ∈ P.rules ↔ ∃ r r', Isx.Matching A B r r' ∧ (∀ x, x ∈ r.kids.zip r'.kids → x ∈ m.dom) ∧
      (r.kids = [] ∨ ∃ x, x ∈ r.kids.zip r'.kids ∧ x ∈ m.dom ∧ ∃ σ, σ ∈ P.rules ∧ σ.parent = lookupF m x) ∧
      ρ = Isx.PRule m r r') ∧
    (∀ x, x ∈ P.final ↔ ∃ pr, pr ∈ m.dom ∧ (∃ σ, σ ∈ P.rules ∧ σ.parent = lookupF m pr) ∧
      pr.1 ∈ A.final ∧ pr.2 ∈ B.final ∧ lookupF m pr = x) :=
  isectBUFrom_rules (pmapOkB_sound hok) h

-- the dead rule `g(1, 0) → 2` of `C02_isectBU_prefilled_dead_rule_example` is such a product rule: the children pair `(0,0)` is
-- popped (`a → 1` has its number as parent), the children pair `(1,1)` is only in the map
example : Isx.PRule [((1, 1), 0), ((0, 0), 1), ((2, 2), 2)] ⟨3, [0, 1], 2⟩ ⟨3, [0, 1], 2⟩ = ⟨3, [1, 0], 2⟩ := by decide

/-! ### summary -/

/-- **`IntersectionBU` × map situation**, completing `C02_maps_statement` (which is the first conjunct):
* map absent / empty: exact, injective map (already there);
* pre-filled with `pmapOkB m0`: exact, the map on exit is injective, extends `m0`, and names the states: on every tree the
  states of the result are the numbers of the pairs reached by the operands;
* every entry map: a result is returned with the fuel `isectBUFromFuel A B m0`. -/
theorem C02_maps_statement_bu (A B : TA) :
    -- `Union` (two maps / one map), `Intersection` (empty / pre-filled / total), `IntersectionBU` (empty)
    ((∀ mL mR, Um.Inj mL → Um.Inj mR → Um.Disj mL mR →
      ∀ t, accepts (unionModel A B mL mR).1 t = (accepts A t || accepts B t)) ∧
    (∀ t, accepts (unionModel A B [] []).1 t = (accepts A t || accepts B t)) ∧
    (∀ m0, Um.Inj m0 → (∀ t, accepts (unionSameMap A B m0).1 t = accepts (unionDisjoint A B) t) ∧
      ((∀ q, q ∈ A.states → q ∉ B.states) → ∀ t, accepts (unionSameMap A B m0).1 t = (accepts A t || accepts B t))) ∧
    (∀ fuel P m, isectTDFrom A B [] fuel = some (P, m) →
      (∀ t, accepts P t = (accepts A t && accepts B t)) ∧ InjOn (lookupF m) m.dom) ∧
    (∀ m0 fuel P m, pmapOkB m0 = true → isectTDFrom A B m0 fuel = some (P, m) →
      (∀ t, accepts P t = true → accepts A t = true ∧ accepts B t = true) ∧ InjOn (lookupF m) m.dom ∧ Isx.Ext m0 m ∧
      (prefillOkB A B m0 = true → ∀ t, accepts P t = (accepts A t && accepts B t))) ∧
    (∀ m0 fuel, isectFromFuel A B ≤ fuel → (isectTDFrom A B m0 fuel).isSome = true) ∧
    (∀ fuel P m, isectBUFrom A B [] fuel = some (P, m) →
      (∀ t, accepts P t = (accepts A t && accepts B t)) ∧ InjOn (lookupF m) m.dom)) ∧
    -- `IntersectionBU`, pre-filled
    (∀ m0 fuel P m, pmapOkB m0 = true → isectBUFrom A B m0 fuel = some (P, m) →
      (∀ t, accepts P t = (accepts A t && accepts B t)) ∧ InjOn (lookupF m) m.dom ∧ Isx.Ext m0 m ∧
      (∀ t, (∀ x, x ∈ reach P t → ∃ pr, m.lookup pr = some x ∧ pr.1 ∈ reach A t ∧ pr.2 ∈ reach B t) ∧
        (∀ p q, p ∈ reach A t → q ∈ reach B t → ∃ n, m.lookup (p, q) = some n ∧ n ∈ reach P t))) ∧
    -- `IntersectionBU`, total
    (∀ m0 fuel, isectBUFromFuel A B m0 ≤ fuel → (isectBUFrom A B m0 fuel).isSome = true) := by
  refine ⟨C02_maps_statement A B, ?_, fun m0 fuel hf => isectBUFrom_total A B m0 fuel hf⟩
  intro m0 fuel P m hok h
  obtain ⟨h1, h2, _, h4⟩ := C02_isectBU_prefilled_lang hok h
  exact ⟨h1, h2, h4, fun t => C02_isectBU_prefilled_states hok h t⟩

-- the statement speaks about runs that exist
example : pmapOkB [((0, 1), 0)] = true ∧ (isectBUFrom IsectBUFromEx.exA IsectBUFromEx.exA [((0, 1), 0)] 6).isSome = true ∧
    isectBUFromFuel IsectBUFromEx.exA IsectBUFromEx.exA [((0, 1), 0)] = 25 := by decide

/-!
## still not proved

* `pmapOkB m0` is a SUFFICIENT condition; both halves are necessary in general (the two counterexamples above), but no
  "iff" is proved: a map with a number `≥ size()` on a pair that is never reached and never collides with a fresh number is
  harmless.
* The rule set is characterised relative to the map on exit and to "popped" (`C02_isectBU_prefilled_rules`); WHICH
  pre-filled pairs get popped is not characterised further than: every pair reached by the operands on a common tree
  (`C02_isectBU_prefilled_states`), plus the parents of dead rules and what follows from them bottom-up.
* The fuel bound is generous (it counts `|m0|` possible numbers although only numbers of pairs that get pushed matter); no
  lower bound is proved.
* As in `C02_Maps.lean`: entry maps are association lists (the theorems do not assume distinct keys, but only lists with
  distinct keys stand for a C++ map); hash iteration orders are list orders (the theorems do not depend on the order, the
  concrete numbers do).
-/
end Vata.Props
