import Vata.Proofs.LtsUtil
/-!
# Utility classes inside the LTS simulation engine (support C16, C04): `SmartSet`, `SharedCounter`, `SharedList`,
# `CachingAllocator` / `CachingArrayAllocator`, `SplittingRelation`

> `Vata/LtsEngine.lean` (the model of `SimulationEngine`, property C16, whose output feeds the simulation-based
> reductions of C04) treats five helper classes as VALUES: a `SmartSet` is a list of `(key, count)` pairs in iteration
> order, the `SharedCounter`s are a table of numbers, a `SharedList` is a list of segments that is shared iff its id occurs
> elsewhere, the `SplittingRelation` is the list of its rows, the allocators do not exist.  This file states what makes that
> reading of the real classes legitimate.

## How the statement is read into the model

* **Specification (L0 / value).**  `Vata/LtsUtil.lean`, second half of each section: `SS.A`/`SS.aStep` (`aAdd`, `aRemove` ARE
  `insAdd`, `insRemove` of the engine model: `Util_LtsUtil_values_are_engine_values`), `SC.A`/`SC.aStep` (a number per key
  index), `SL.A`/`SL.aStep` (segments, `sharedId`), `SR.A`/`SR.aStep` (`aSplit` IS `relSplit`; erasing through the row
  iterator is `filter`), `CA.A` (the set of live objects).  The CALL DISCIPLINE of the engine is the Boolean `ok` of each
  section (e.g. `decr` only on a positive counter of a running block, `copyLabels` only into a freshly copy-constructed
  counter from a running one, `set` once per key before `init()`, `erase` only through the iterator of the row being
  iterated, `split(i)` only for a reflexive `i` below the capacity, insertion of a NEW key into a `SmartSet` only while
  `last_` is intact).
* **Model of the code (L2).**  `Vata/LtsUtil.lean`, first half of each section: the classes AS CODED – heaps of cells with
  explicit addresses, `index_`/`key_`/`labelMap_` arithmetic (`locate`: `index / rowSize`, `index % rowSize`), the
  reference count in the last cell of a counter row, `refCount_` of list nodes, the four links of every relation cell and
  the `offsetof` sentinels (`rowEnd(i)` and `rowBegin(i+1)` are the same address), free lists that keep stale content.
  `none` = the C++ has no defined behaviour (violated `assert`, out-of-range index, dangling pointer).
* **Correspondence (L3).**  kind `ltsutil` (`harness/op_ltsutil.inc`, `Driver/LtsUtilChk.lean`, `tools/gen_ltsutil.py`):
  histories of calls on the REAL classes; after every step the whole state is read back – iteration order and counts of
  every set; master, row pointer, every cell and the reference count of every counter row, `get` of every keyed pair, the
  allocator's free list; `next_`/`refCount_`/`subList_` of every list node, every vector, both free lists; rows AND columns
  of the relation by iteration, all four links of every cell, the sentinels, the free list – and compared with `step`
  exactly and with `aStep` where the theorems below decide.
-/
namespace Vata.Props
open Vata.LU

/-! ## the values are the engine model's values -/

/-- the value-side functions of `Vata/LtsUtil.lean` are the functions `Vata/LtsEngine.lean` computes with -/
theorem Util_LtsUtil_values_are_engine_values :
    (∀ s a, SS.aAdd s a = Vata.LE.insAdd s a) ∧ (∀ s a, SS.aRemove s a = Vata.LE.insRemove s a) ∧
    (∀ s, SS.aKeys s = Vata.LE.insKeys s) ∧ (∀ rel i, SR.aSplit rel i = Vata.LE.relSplit rel i) ∧
    (∀ r : SL.RemList, SL.flat r = Vata.LE.flat r) ∧
    (∀ mask row, Glue.eraseEach mask row = row.filter (fun c => !mask.contains c)) :=
  ⟨Glue.aAdd_eq_insAdd, Glue.aRemove_eq_insRemove, Glue.aKeys_eq_insKeys, Glue.aSplit_eq_relSplit, Glue.flat_eq,
    Glue.eraseEach_eq_filter⟩

example : SS.aAdd [(3, 1), (5, 2)] 5 = [(3, 1), (5, 3)] ∧ SR.aSplit [[0, 1], [1]] 1 = [[0, 1, 2], [1, 2], [1, 2]] := by decide

/-! ## `CachingAllocator` -/

/-- for every history of `operator()` / `reclaim` in which only live objects are reclaimed: the free list never holds a
live object nor an object twice, live objects are pairwise different – so an allocation never hands out a live object -/
theorem Util_LtsUtil_CachingAllocator_history (ops : List CA.Op) {a : CA.T} {live : CA.A}
    (h : CA.run CA.mk [] ops = some (a, live)) :
    CA.Inv a live ∧ (CA.alloc a).1 ∉ live ∧ CA.Inv (CA.alloc a).2 ((CA.alloc a).1 :: live) :=
  ⟨CA.run_refines CA.inv_mk ops h, (CA.alloc_spec (CA.run_refines CA.inv_mk ops h)).1,
    (CA.alloc_spec (CA.run_refines CA.inv_mk ops h)).2.1⟩

example : CA.run CA.mk [] [.alloc, .alloc, .reclaim 0, .alloc, .reclaim 1] = some (⟨[1], 2, 3⟩, [0]) := by decide

/-- recycling is LIFO and leaves the object's content alone; the initializer runs once per allocation -/
theorem Util_LtsUtil_CachingAllocator_lifo (a : CA.T) (p : Nat) :
    CA.alloc (CA.reclaim a p) = (p, { a with inits := a.inits + 1 }) := CA.alloc_reclaim a p

/-! ## `SmartSet` -/

/-- HISTORY THEOREM.  Every history of `SmartSet` calls inside the discipline (`SS.ok`) is defined on the class as coded,
and afterwards every live set shows exactly its value: iteration order with counts, `size`, `empty`, `contains`, `count` -/
theorem Util_LtsUtil_SmartSet_history {ops : List SS.Op} (hok : SS.okAll [] ops = true) :
    ∃ w, SS.run [] ops = some w ∧ w.length = (SS.aRun [] ops).length ∧
      ∀ (i : Nat) (s : SS.T) (a : SS.A), w[i]? = some s → (SS.aRun [] ops)[i]? = some a →
        SS.toList s = some a.items ∧ s.size = a.items.length ∧ SS.isEmpty s = some a.items.isEmpty ∧
        s.index.length = a.range ∧
        ∀ k, k < a.range → SS.contains s k = some ((SS.aKeys a.items).contains k) ∧
          SS.count s k = some (SS.aCount a.items k) :=
  SS.run_observe hok

/-- one call: defined, and the representation invariant / refinement relation `SS.RW` is re-established for the value
after the abstract step (the relation contains: the cells behind `head_` are pairwise different live cells with pairwise
different keys and positive counts, `index_[k]` is the predecessor of the cell of `k` or null, `size_` is their number,
`last_` is the last cell unless the value is flagged `dangling`) -/
theorem Util_LtsUtil_SmartSet_step {w : SS.World} {aw : SS.AWorld} {op : SS.Op} (h : SS.RW w aw)
    (hok : SS.ok aw op = true) : ∃ w', SS.step w op = some w' ∧ SS.RW w' (SS.aStep aw op) :=
  SS.step_refines h hok

/-- FINDING (outside the engine's discipline): `erase()` does not repair `last_` when the erased element is the last one;
the next insertion of a new key dereferences the deleted cell.  On the model: no defined behaviour.  The engine never
inserts into a set it has removed from (`Block` constructors: the parent only `removeStrict`s, the child only `add`s;
`init`: `assignFlat` clears first), so C16 is not affected. -/
theorem Util_LtsUtil_SmartSet_dangling_last :
    ((SS.add (SS.mk 4) 1).bind (fun s => SS.remove s 1 false)).bind (fun s => SS.add s 2) = none ∧
    (∀ {s : SS.T} {a : SS.A} {k : Nat}, SS.R s a → a.dangling = true → k < a.range →
      (SS.aKeys a.items).contains k = false → SS.add s k = none) := by
  refine ⟨by decide, ?_⟩
  intro s a k hr hd hk hc
  apply SS.add_undefined hr
  rintro ⟨_, h | h⟩
  · rw [hc] at h; cases h
  · rw [hd] at h; cases h

/-- the discipline is exactly the domain on which the class as coded is defined (histories without self-assignment) -/
theorem Util_LtsUtil_SmartSet_discipline_tight {ops : List SS.Op} (hself : ∀ i, SS.Op.assign i i ∈ ops → False) :
    (SS.run [] ops).isSome = SS.okAll [] ops := SS.run_defined_iff hself

example : SS.okAll [] [.new 4, .add 0 1, .add 0 3, .add 0 1, .removeStrict 0 1, .new 4, .assignFlat 1 0, .copy 0] = true := by
  decide

/-! ## `SharedCounter` (with the `CachingArrayAllocator` it draws its rows from) -/

/-- HISTORY THEOREM.  Every history of counter calls inside the engine's discipline (`resize`, `set` once per key with a
positive count, `init()`; `decr` only on a positive counter of a running block; `copyLabels` only into a freshly
copy-constructed counter from a running one; destructor) is defined on the class as coded, every `decr` returns what the
plain table of numbers returns (old value - 1), and the final world satisfies the invariant `SC.Inv` against the final
table – for any key layout and any row size (31, 63, …), labels sharing a row or spanning several rows included -/
theorem Util_LtsUtil_SharedCounter_history {cfg : SC.Cfg} (ops : List SC.Op) (hok : SC.okAll cfg [] ops = true) :
    ∃ w', SC.run cfg SC.World.empty ops = some (w', (SC.aRun cfg [] ops).2) ∧ SC.Inv cfg w' (SC.aRun cfg [] ops).1 :=
  SC.run_refines_empty ops hok

/-- in every world satisfying the invariant, `get` of a positive counter is the number in the table (a counter that is 0
in a row that still has data may read anything: poison, stale or decremented cells – the engine never reads it) -/
theorem Util_LtsUtil_SharedCounter_get {cfg : SC.Cfg} {w : SC.World} {aw : SC.AWorld} {i l q idx : Nat} {a : SC.A} {c : SC.Cnt}
    (hinv : SC.Inv cfg w aw) (ha : aw.getD i none = some a) (hc : w.cnt i = some c) (hk : SC.keyIdx cfg l q = some idx)
    (hidx : idx < a.rows * cfg.rowSize) (hpos : 0 < a.at idx) : SC.get cfg w.mem c l q = some (a.at idx) :=
  SC.get_refines hinv ha hc hk hidx hpos

/-- REFERENCE COUNT = NUMBER OF SHARERS: the last cell of a row that a running counter points to holds the number of
(counter, row) pairs of the whole world that point to it (≥ 1); a row in the allocator's free list is referenced by no live
counter and is there once ("no row freed while shared", "no double free"); every referenced row is allocated and has
`rowSize + 1` cells -/
theorem Util_LtsUtil_SharedCounter_refcount {cfg : SC.Cfg} {w : SC.World} {aw : SC.AWorld} (hinv : SC.Inv cfg w aw) :
    (∀ {i r p : Nat} {a : SC.A} {c : SC.Cnt} {row : SC.Row}, aw.getD i none = some a → w.cnt i = some c →
      a.phase = .running → c[r]? = some row → row.data = some p →
      SC.cell w.mem p cfg.rowSize = SC.P.refs p w.cnts ∧ 1 ≤ SC.P.refs p w.cnts) ∧
    w.mem.free.Nodup ∧
    (∀ p, p ∈ w.mem.free → ∀ (i : Nat) (c : SC.Cnt) (r : Nat) (row : SC.Row),
      w.cnt i = some c → c[r]? = some row → row.data ≠ some p) ∧
    (∀ {i r p : Nat} {c : SC.Cnt} {row : SC.Row}, w.cnt i = some c → c[r]? = some row → row.data = some p →
      p < w.mem.next ∧ (w.mem.cells.get p).length = cfg.rowSize + 1) :=
  ⟨fun ha hc hph hr hd => SC.refcount_eq_sharers hinv ha hc hph hr hd, (SC.free_not_referenced hinv).1,
    (SC.free_not_referenced hinv).2, fun hc hr hd => SC.row_wellformed hinv hc hr hd⟩

/-- COPY ON WRITE: a `decr` inside the discipline never writes a data column of a row that has two or more sharers, and
changes nothing another live counter observes -/
theorem Util_LtsUtil_SharedCounter_copy_on_write {cfg : SC.Cfg} {w w' : SC.World} {aw : SC.AWorld} {i l q : Nat}
    {out : List Nat} (hinv : SC.Inv cfg w aw) (hok : SC.ok cfg aw (.decr i l q) = true)
    (h : SC.step cfg w (.decr i l q) = some (w', out)) :
    (∀ p, 2 ≤ SC.P.refs p w.cnts → ∀ col, col < cfg.rowSize → SC.cell w'.mem p col = SC.cell w.mem p col) ∧
    (∀ {j : Nat} {a : SC.A} {c : SC.Cnt}, j ≠ i → aw.getD j none = some a → w.cnt j = some c →
      w'.cnt j = some c ∧ (SC.aStep cfg aw (.decr i l q)).getD j none = some a ∧
      ∀ l' q' idx', SC.keyIdx cfg l' q' = some idx' → idx' < a.rows * cfg.rowSize → 0 < a.at idx' →
        SC.get cfg w'.mem c l' q' = SC.get cfg w.mem c l' q') :=
  ⟨SC.decr_no_shared_write hinv hok h, fun hji ha hc => SC.decr_other_unchanged hinv hok h hji ha hc⟩

example : SC.okAll SC.Ex.exCfg [] SC.Ex.exOps = true := by decide

/-- THE KEY LAYOUT of `SimulationEngine::init` as coded (`key_`, `labelMap_`; `delta1[a]` duplicate-free with states below
`states`): the `j`-th state of `delta1[a]` gets key index `off a + j` (consecutive, label after label), and its row
`(off a + j) / rowSize` lies in `[labelMap_[a].first, labelMap_[a].second)` – also when the label ends exactly at a row
boundary or spans several rows.  Hence `copyLabels(labels, parent)` copies the row of every keyed pair of every label in
`labels`, and the new block's value agrees with the parent's there -/
theorem Util_LtsUtil_SharedCounter_layout {rowSize states poison : Nat} {delta1 : List (List Nat)}
    (hd : ∀ d ∈ delta1, d.Nodup ∧ ∀ q ∈ d, q < states) {a j : Nat} (ha : a < delta1.length)
    (hj : j < (delta1.getD a []).length)
    (hsmall : SC.Layout.off delta1 a + (delta1.getD a []).length < 2 ^ 64) :
    (SC.mkCfg rowSize states poison delta1).key.getD (a * states + (delta1.getD a []).getD j 0) 0 =
        SC.Layout.off delta1 a + j ∧
    ((SC.mkCfg rowSize states poison delta1).labelMap.getD a (0, 0)).1 ≤ (SC.Layout.off delta1 a + j) / rowSize ∧
    (SC.Layout.off delta1 a + j) / rowSize < ((SC.mkCfg rowSize states poison delta1).labelMap.getD a (0, 0)).2 ∧
    (∀ {labels : List Nat} {srcRows : Nat}, a ∈ labels →
      ((SC.mkCfg rowSize states poison delta1).labelMap.getD a (0, 0)).2 ≤ srcRows →
      (SC.Layout.off delta1 a + j) / rowSize ∈ SC.copiedRows (SC.mkCfg rowSize states poison delta1) labels srcRows) :=
  ⟨SC.Layout.layout_key hd ha hj, (SC.Layout.layout_row_in_range hd ha hj hsmall).1,
    (SC.Layout.layout_row_in_range hd ha hj hsmall).2,
    fun hal hrows => SC.Layout.copiedRows_covers hd hal ha hj hsmall hrows⟩

/-- … and on values: after `copyLabels i j labels` the new counter holds the parent's number at every key index whose row was
copied, is `running`, and has that row -/
theorem Util_LtsUtil_SharedCounter_copyLabels_value (cfg : SC.Cfg) (aw : SC.AWorld) (i j : Nat) (labels : List Nat)
    (s : SC.A) (idx : Nat) (hi : i < aw.length) (hs : aw.getD j none = some s) (hrs : 0 < cfg.rowSize)
    (hrow : idx / cfg.rowSize ∈ SC.copiedRows cfg labels s.rows) :
    ∃ child, (SC.aStep cfg aw (.copyLabels i j labels)).getD i none = some child ∧ child.at idx = s.at idx ∧
      idx < child.rows * cfg.rowSize ∧ child.phase = .running :=
  SC.Layout.aStep_copyLabels_at cfg aw i j labels s idx hi hs hrs hrow

/-- 31 counters per row (plus the reference count) below 4096 states, 63 from 4096 states on -/
theorem Util_LtsUtil_getRowSize {n : Nat} : (n < 4096 → SC.getRowSize n = 31) ∧ (4096 ≤ n → n < 16384 → SC.getRowSize n = 63) :=
  ⟨SC.getRowSize_small, SC.getRowSize_medium⟩

example : (SC.mkLayout 31 31 [List.range 31, [0, 5]]).2 = [(0, 1), (1, 2)] := by decide

/-! ## `SharedList` -/

/-- HISTORY THEOREM.  Every history of the engine's `SharedList` calls (`append` = `enqueueToRemove`, `copy`, the lists made by
`init`, detaching a list, iterating it, `unsafeRelease` with the reclaiming deleter) inside the discipline is defined on
the class as coded, keeps the invariant `SL.Inv`, and every observable result (the flag of `append`, the elements
iterated) is what the value – lists of segments, a head being shared iff its id occurs behind another handle – says -/
theorem Util_LtsUtil_SharedList_history (n : Nat) (ops : List SL.Op) (hok : SL.okAll (SL.A.mk0 n) ops = true) :
    ∃ W' outs, SL.run (SL.World.mk0 n) ops = some (W', outs) ∧ SL.Inv W' (SL.aRun (SL.A.mk0 n) ops) ∧
      SL.Agree outs (SL.aOuts (SL.A.mk0 n) ops) :=
  SL.run_refines n ops hok

/-- in every reachable world the stored reference count of a node on a chain is the number of its referrers: handles
pointing to it plus nodes on chains whose `next_` points to it -/
theorem Util_LtsUtil_SharedList_refcount {n : Nat} {ops : List SL.Op} {W : SL.World} {outs : List (List Nat)}
    (hok : SL.okAll (SL.A.mk0 n) ops = true) (hrun : SL.run (SL.World.mk0 n) ops = some (W, outs)) :
    ∃ liveN : List Nat, liveN.Nodup ∧ (∀ m, m ∈ liveN ↔ SL.OnChain W m) ∧
      ∀ m ∈ liveN, (W.w.nodes.get m).rc =
        (W.detached :: W.slots).count (some m) + liveN.countP (fun m' => (W.w.nodes.get m').next == some m) :=
  SL.reachable_rc hok hrun

/-- in every reachable world the two free lists hold nothing twice, no node that is on a chain, and no vector of such a
node -/
theorem Util_LtsUtil_SharedList_free_lists {n : Nat} {ops : List SL.Op} {W : SL.World} {outs : List (List Nat)}
    (hok : SL.okAll (SL.A.mk0 n) ops = true) (hrun : SL.run (SL.World.mk0 n) ops = some (W, outs)) :
    W.w.nfree.Nodup ∧ W.w.vfree.Nodup ∧
    (∀ m, SL.OnChain W m → m ∉ W.w.nfree ∧ ∃ v, (W.w.nodes.get m).sub = some v ∧ v ∉ W.w.vfree) :=
  SL.reachable_free hok hrun

example : SL.okAll (SL.A.mk0 3) SL.Ex.ops = true := by decide

/-! ## `SplittingRelation` -/

/-- HISTORY THEOREM.  Every history on a new `SplittingRelation(m)` inside the discipline (one `init(index)` with in-range,
duplicate-free rows; `split(i)` of a reflexive index below the capacity; erasing through the iterator of the row being
iterated – the engine's loop, which reads `right_` of the cell it has just reclaimed) is defined on the class as coded,
`split` returns the old `size()`, and afterwards `size()`, every `row(i)` AND every `column(i)` iterate exactly the value:
the rows as lists, `split` = `relSplit` of the engine model, the erase loop = `filter`; column `j` lists the rows containing
`j` in increasing order -/
theorem Util_LtsUtil_SplittingRelation_history (m : Nat) (ops : List SR.Op) (hok : SR.okAll ⟨[], m, false⟩ ops = true)
    (hin : (SR.aRun ⟨[], m, false⟩ ops).1.inited = true) :
    ∃ s', SR.run (SR.mk m) ops = some (s', (SR.aRun ⟨[], m, false⟩ ops).2) ∧
      s'.size = (SR.aRun ⟨[], m, false⟩ ops).1.rel.length ∧
      ∀ i, i < (SR.aRun ⟨[], m, false⟩ ops).1.rel.length →
        (SR.rowCells s' i).map (·.map (·.2)) = some ((SR.aRun ⟨[], m, false⟩ ops).1.rel.getD i []) ∧
        (SR.colCells s' i).map (·.map (·.2)) = some (SR.aCol (SR.aRun ⟨[], m, false⟩ ops).1.rel i) :=
  SR.run_observe_mk m ops hok hin

/-- … and the final state satisfies the invariant `SR.Inv` (inside `SR.Rep`): the row lists and the column lists hold the
same cells, each closed doubly linked list runs between its two sentinels with `left_`/`right_` resp. `up_`/`down_`
mutually inverse, `rows_[i]`/`columns_[j]` point to the first and last cell (or to the sentinels when empty), cells are
allocated, pairwise different and not in the free list -/
theorem Util_LtsUtil_SplittingRelation_invariant (m : Nat) (ops : List SR.Op) (hok : SR.okAll ⟨[], m, false⟩ ops = true) :
    ∃ s', SR.run (SR.mk m) ops = some (s', (SR.aRun ⟨[], m, false⟩ ops).2) ∧ SR.Rep s' (SR.aRun ⟨[], m, false⟩ ops).1 :=
  SR.run_refines_mk m ops hok

/-- the single operations, from any state that satisfies the invariant -/
theorem Util_LtsUtil_SplittingRelation_ops {s : SR.T} {rel : List (List Nat)} (h : SR.Inv s rel) {i : Nat}
    (hi : i < rel.length) :
    (∀ mask, ∃ s', SR.eraseRow s i mask = some s' ∧
      SR.Inv s' (rel.set i ((rel.getD i []).filter (fun c => !mask.contains c)))) ∧
    (rel.length < s.rows.length → (rel.getD i []).contains i = true →
      ∃ s', SR.split s i = some s' ∧ SR.Inv s' (SR.aSplit rel i)) :=
  ⟨fun mask => SR.eraseRow_refines h hi mask, fun hcap hrefl => SR.split_refines h hi hcap hrefl⟩

/-- `split(i)` makes the new index related exactly like `i` plus both directions between them: the new row is the row of
`i` followed by the new index (so it contains `i`, `i` being reflexive), and an old row contains the new index iff it
contains `i` (row `i` itself does) -/
theorem Util_LtsUtil_SplittingRelation_split_value (rel : List (List Nat)) (i : Nat) :
    (SR.aSplit rel i).length = rel.length + 1 ∧
    (SR.aSplit rel i).getD rel.length [] = rel.getD i [] ++ [rel.length] ∧
    (∀ {r : Nat}, r < rel.length → (∀ c ∈ rel.getD r [], c < rel.length) →
      (rel.length ∈ (SR.aSplit rel i).getD r [] ↔ i ∈ rel.getD r [])) :=
  ⟨SR.aSplit_length rel i, SR.aSplit_last rel i, fun hr hlt => SR.aSplit_mem_new rel i hr hlt⟩

/-- the free list of the relation's allocator holds nothing twice and never a cell that is linked into a row -/
theorem Util_LtsUtil_SplittingRelation_free_list {s : SR.T} {rel : List (List Nat)} (h : SR.Inv s rel) :
    s.free.Nodup ∧ (∀ a ∈ s.free, a < s.next) ∧
    ∀ i, i < rel.length → ∀ l, SR.rowCells s i = some l → ∀ ac ∈ l, ac.1 ∉ s.free ∧ ac.1 < s.next := by
  obtain ⟨R, C, hs, _⟩ := h
  refine ⟨hs.mem.fnd, hs.mem.flt, ?_⟩
  intro i hi l hl ac hac
  rw [hs.rowCells_eq hi] at hl
  obtain rfl := Option.some.inj hl
  obtain ⟨a, ha, rfl⟩ := List.mem_map.1 hac
  exact ⟨hs.mem.nfree i a ha, hs.mem.lt i a ha⟩

example : SR.okAll ⟨[], 5, false⟩ SR.Ex.ops = true := by decide

/-! ## what is NOT covered

* The engine's own code around the classes (which calls it makes, in which order) is `Vata/LtsEngine.lean` with the proofs in
  `Vata/Proofs/LtsEngine*.lean`; that every call sequence of the engine satisfies the `ok` predicates of this file is read off
  the C++ (`SimulationEngine::init`, `split`, `processRemove`) and checked by the `lts` histories of the harness, not proved.
* `SharedCounter`: 64-bit wrap-around of `master_ += count` / of the reference count is not modelled (`Nat`); outside the
  discipline the model mirrors the code (e.g. `get` of a counter that is 0 in a row with data returns the cell content).
* `SmartSet::operator<<`, `SharedList::release` (does not compile: refers to a member `counter_` that does not exist; never
  instantiated), `SharedCounter::operator<<`, the private `checkCol`/`checkRow` (assert-only) are not modelled.
-/

end Vata.Props
