import Vata.Proofs.UnionIsectMaps
import Vata.Proofs.UnionIsectMapsTD
import Vata.Proofs.UnionIsectMapsTotal
import Vata.Proofs.UnionIsectMapsBU
import Vata.Proofs.UnionModel
/-!
# C02 (translation maps) – `Union`, `Intersection`, `IntersectionBU` with caller-supplied maps AS CODED

> C02: For any explicit tree automata A and B, Union … return an automaton accepting exactly L(A) ∪ L(B), and Intersection
> and IntersectionBU return automata accepting exactly L(A) ∩ L(B).  The state-translation maps they report name, for every
> state of the result, the operand state or state pair it stands for …

`Vata/Properties/C02.lean` covers the calls without maps, with two SEPARATE (possibly pre-filled) union maps and with an
EMPTY product map.  This file closes its open item "`Union` called with the SAME map object for both operands, or
`Intersection` / `IntersectionBU` called with a pre-filled `ProductTranslMap`, are not modelled".

## How the C++ is read into the model (`Vata/UnionIsectMaps.lean`, the quoted lines are there)

* **`Union(lhs, rhs, &m, &m)`** (`src/explicit_tree_union.cc`): both `StateToStateTranslWeak` objects hold a reference to the
  same `unordered_map`, so the pass over `rhs` starts from the map the pass over `lhs` left.  `unionSameMapOrd oA oB A B m0`:
  counter from `max(second+1)` over the entry map, `weakTrAll` over `lhs` then over `rhs` continuing map AND counter; the
  result is `ReindexStates` of both operands into one automaton, and the one map.  The visiting orders (hash order) are
  parameters; `unionSameMap` instantiates them with list order.
* **`Intersection(lhs, rhs, &m)`** (`src/explicit_tree_isect.cc`): fresh numbers are `pTranslMap->size()` – there is NO counter
  and no look at the numbers already in the map; every pair of final states is inserted-or-found and ALWAYS pushed
  (`stack.push_back(&*u)`); a child pair is pushed only `if (u.second)`, i.e. only when it was not in the map.
  `isectTDFrom A B m0 fuel` = `initPairs` (first loop) + `isectLoop` of `Vata/IsectModel.lean` (unchanged) from `m0`, output
  returned as it is.  Fuel: `none` only when the fuel is too small; `isectFromFuel A B = |F_A×F_B| + |Q_A|·|Q_B|` always
  suffices (`C02_isect_prefilled_total`), for every entry map.
* **`IntersectionBU(lhs, rhs, &m)`** (`src/explicit_tree_isect_bu.cc`): `isectBUFrom A B m0 fuel` = leaf phase + `buLoop` of
  `Vata/IsectBU.lean` (unchanged) from `m0`, output returned as it is (no certificate check).
* A `PMap` / `SMap` is an association list standing for an `unordered_map`: keys are meant to be distinct, `length` is
  `size()`.  Hash iteration orders are list orders (the union theorems hold for all orders; the product theorems
  characterise the rules as a set).

All runs quoted in the `…_counterexample` theorems were replayed on the real library (`/repo/_build/src/libvata.a`,
public API `ExplicitTreeAut::Union / Intersection / IntersectionBU`): rules, final states and maps agree with the model
number by number.

## Findings (API preconditions the C++ neither documents precisely nor checks)

* `Union` with one map object: state NUMBERS shared by the operands are identified; the result is the two rule sets glued
  on common numbers (`C02_union_same_map_glues`), exact iff that juxtaposition is exact, in particular for disjoint state
  sets (`C02_union_same_map_lang`); otherwise the language can be too large (`C02_union_same_map_counterexample`).  The
  header says the operands' states "may be overlapping" – true only for two different map objects.
* `Intersection` with a non-empty map (header: `@param[out]`): pre-filled pairs other than pairs of final states are never
  explored ⇒ language too small (`C02_isect_prefilled_unexplored_counterexample`); in particular passing the map filled by
  a previous `Intersection` of the same operands returns an automaton with the empty language
  (`C02_isect_prefilled_reuse_counterexample`).  Numbers not below `size()` collide with fresh numbers ⇒ language too large
  (`C02_isect_prefilled_collision_counterexample`).  Precondition for exactness: `MapOk m0` and every pre-filled pair is a
  pair of final states or has no matching rules (`C02_isect_prefilled_lang`) – in practice "empty on entry".
* `IntersectionBU` with a non-empty map: collisions as above, language too small
  (`C02_isectBU_prefilled_collision_counterexample`); pre-filled pairs ARE processed when reached (examples in
  `Vata/Proofs/UnionIsectMapsBU.lean`).
-/
namespace Vata.Props
open Vata

/-! ### Union, one map for both operands -/

/-- `Union(lhs, rhs, &m, &m)` **glues**: the result IS the image of the juxtaposed rule sets `unionDisjoint A B`
(`A.rules ++ B.rules`, `A.final ++ B.final`) under the one map on exit; that map is injective, extends the (injective) map
on entry and knows every state of both operands.  For all visiting orders that cover the states. -/
theorem C02_union_same_map_glues (oA oB : List Nat) (A B : TA) (m0 : SMap)
    (hoA : ∀ q, q ∈ A.states → q ∈ oA) (hoB : ∀ q, q ∈ B.states → q ∈ oB) (hi : Um.Inj m0) :
    (unionSameMapOrd oA oB A B m0).1 = reindex (applyMap (unionSameMapOrd oA oB A B m0).2) (unionDisjoint A B) ∧
    Um.Inj (unionSameMapOrd oA oB A B m0).2 ∧ Um.Ext m0 (unionSameMapOrd oA oB A B m0).2 ∧
    InjOnStates (applyMap (unionSameMapOrd oA oB A B m0).2) (unionDisjoint A B) ∧
    (∀ q, q ∈ A.states ∨ q ∈ B.states → ∃ n, (unionSameMapOrd oA oB A B m0).2.lookup q = some n) :=
  unionSameMapOrd_glues oA oB A B m0 hoA hoB hi

example : (unionSameMap UnionSameEx.exA UnionSameEx.exB []).1 =
    reindex (applyMap (unionSameMap UnionSameEx.exA UnionSameEx.exB []).2) (unionDisjoint UnionSameEx.exA UnionSameEx.exB) :=
  (unionSameMap_glues _ _ [] Um.inj_nil).1
example : (unionSameMap UnionSameEx.exA UnionSameEx.exB []).2 = [(1, 0), (0, 1)] := by decide

/-- `Union(lhs, rhs, &m, &m)` accepts exactly `L(A) ∪ L(B)` when no state number occurs in both operands (the API
precondition of the aliased call); the pre-filled map only has to be injective -/
theorem C02_union_same_map_lang (oA oB : List Nat) (A B : TA) (m0 : SMap)
    (hoA : ∀ q, q ∈ A.states → q ∈ oA) (hoB : ∀ q, q ∈ B.states → q ∈ oB) (hi : Um.Inj m0)
    (hdis : ∀ q, q ∈ A.states → q ∉ B.states) (t : Tree) :
    accepts (unionSameMapOrd oA oB A B m0).1 t = (accepts A t || accepts B t) :=
  unionSameMapOrd_lang oA oB A B m0 hoA hoB hi hdis t

example : (∀ q, q ∈ UnionSameEx.exA.states → q ∉ UnionSameEx.exB7.states) ∧ Um.Inj [(0, 4)] :=
  ⟨by decide, smapInjB_sound (by decide)⟩
example (t : Tree) : accepts (unionSameMap UnionSameEx.exA UnionSameEx.exB7 [(0, 4)]).1 t =
    (accepts UnionSameEx.exA t || accepts UnionSameEx.exB7 t) :=
  unionSameMap_lang _ _ _ (smapInjB_sound (by decide)) (by decide) t

/-- in general the aliased call is exact if and only if juxtaposing the two rule sets (identifying equal state numbers)
is exact -/
theorem C02_union_same_map_exact_iff (oA oB : List Nat) (A B : TA) (m0 : SMap)
    (hoA : ∀ q, q ∈ A.states → q ∈ oA) (hoB : ∀ q, q ∈ B.states → q ∈ oB) (hi : Um.Inj m0) :
    (∀ t, accepts (unionSameMapOrd oA oB A B m0).1 t = (accepts A t || accepts B t)) ↔
    (∀ t, accepts (unionDisjoint A B) t = (accepts A t || accepts B t)) :=
  unionSameMapOrd_exact_iff oA oB A B m0 hoA hoB hi

/-- **counterexample (finding, API precondition).**  `A = {a → 0, h(0) → 1; F = {1}}` (`L = {h(a)}`),
`B = {b → 0; F = {0}}` (`L = {b}`): `Union(A, B, &m, &m)` with an empty `m` returns `a → 1, h(1) → 0, b → 1; F = {0, 1}`, which
accepts `a` and `h(b)`; `Union(A, B, &m1, &m2)` with two maps does not.  The hypothesis `hdis` of
`C02_union_same_map_lang` cannot be dropped. -/
theorem C02_union_same_map_counterexample :
    accepts (unionSameMap UnionSameEx.exA UnionSameEx.exB []).1 UnionSameEx.tA = true ∧
    accepts UnionSameEx.exA UnionSameEx.tA = false ∧ accepts UnionSameEx.exB UnionSameEx.tA = false ∧
    accepts (unionSameMap UnionSameEx.exA UnionSameEx.exB []).1 UnionSameEx.tHB = true ∧
    accepts UnionSameEx.exA UnionSameEx.tHB = false ∧ accepts UnionSameEx.exB UnionSameEx.tHB = false ∧
    accepts (unionModel UnionSameEx.exA UnionSameEx.exB [] []).1 UnionSameEx.tA = false ∧
    accepts (unionModel UnionSameEx.exA UnionSameEx.exB [] []).1 UnionSameEx.tHB = false :=
  UnionSameEx.same_map_counterexample

/-! ### Intersection, pre-filled map -/

/-- what `Intersection(lhs, rhs, &m)` returns for a map that is `MapOk` on entry (numbers below the size, injective – e.g.
empty, or returned by an earlier product): the map on exit is `MapOk`, extends the map on entry and contains all pairs
of final states; the result is, as a set of rules and of final states, the product restricted to the EXPLORED pairs –
the pairs of final states and the pairs that were not in the map on entry – numbered by the map; the children of its
rules are in the map -/
theorem C02_isect_prefilled_is_explored_product {A B : TA} {m0 : PMap} {fuel : Nat} {P : TA} {m : PMap}
    (hok : Isx.MapOk m0) (h : isectTDFrom A B m0 fuel = some (P, m)) :
    Isx.MapOk m ∧ Isx.Ext m0 m ∧ (∀ p, p ∈ A.final → ∀ p', p' ∈ B.final → (p, p') ∈ m.dom) ∧
    (∀ ρ, ρ ∈ P.rules ↔ ρ ∈ (prodOn A B (exploredPairs A B m0 m) (lookupF m)).rules) ∧
    (∀ x, x ∈ P.final ↔ x ∈ (prodOn A B (exploredPairs A B m0 m) (lookupF m)).final) ∧
    (∀ r, r ∈ A.rules → ∀ r', r' ∈ B.rules → r'.sym = r.sym → r'.kids.length = r.kids.length →
      (r.parent, r'.parent) ∈ exploredPairs A B m0 m → ∀ pr, pr ∈ r.kids.zip r'.kids → pr ∈ m.dom) :=
  isectTDFrom_spec hok h

example : exploredPairs IsectFromEx.exA IsectFromEx.exA [((0, 0), 0)] [((0, 0), 0), ((1, 1), 1)] = [(1, 1)] := by decide

/-- **exactness with a pre-filled map**: `MapOk m0` and every pre-filled pair is a pair of final states or has no pair
of matching rules.  Both hypotheses are necessary (`C02_isect_prefilled_unexplored_counterexample`,
`C02_isect_prefilled_collision_counterexample`); both are decidable (`pmapOkB`, `prefillOkB`). -/
theorem C02_isect_prefilled_lang {A B : TA} {m0 : PMap} {fuel : Nat} {P : TA} {m : PMap}
    (hok : pmapOkB m0 = true) (hpre : prefillOkB A B m0 = true)
    (h : isectTDFrom A B m0 fuel = some (P, m)) (t : Tree) : accepts P t = (accepts A t && accepts B t) :=
  isectTDFrom_lang (pmapOkB_sound hok) (prefillOkB_sound hpre) h t

example : pmapOkB [((8, 9), 0)] = true ∧ prefillOkB IsectFromEx.exA IsectFromEx.exA [((8, 9), 0)] = true ∧
    (isectTDFrom IsectFromEx.exA IsectFromEx.exA [((8, 9), 0)] 6).isSome = true := by decide
example : pmapOkB [((1, 1), 0)] = true ∧ prefillOkB IsectFromEx.exA IsectFromEx.exA [((1, 1), 0)] = true := by decide

/-- for every `MapOk` entry map the result accepts ONLY trees of the intersection (it can only lose trees), and the
reported map is injective -/
theorem C02_isect_prefilled_sound {A B : TA} {m0 : PMap} {fuel : Nat} {P : TA} {m : PMap}
    (hok : pmapOkB m0 = true) (h : isectTDFrom A B m0 fuel = some (P, m)) :
    (∀ t, accepts P t = true → accepts A t = true ∧ accepts B t = true) ∧ InjOn (lookupF m) m.dom :=
  ⟨fun t ht => isectTDFrom_sound (pmapOkB_sound hok) h t ht, isectTDFrom_map_inj (pmapOkB_sound hok) h⟩

example : pmapOkB [((0, 0), 0)] = true ∧ (isectTDFrom IsectFromEx.exA IsectFromEx.exA [((0, 0), 0)] 6).isSome = true := by
  decide

/-- totality: the fuel `|F_A × F_B| + |Q_A|·|Q_B|` is enough for every entry map -/
theorem C02_isect_prefilled_total (A B : TA) (m0 : PMap) (fuel : Nat) (hf : isectFromFuel A B ≤ fuel) :
    (isectTDFrom A B m0 fuel).isSome = true := isectTDFrom_total A B m0 fuel hf

example : isectFromFuel IsectFromEx.exA IsectFromEx.exA = 5 := by decide

/-- **counterexample (finding).**  `A = {a → 0, h(0) → 1; F = {1}}`, `m = {(0,0) ↦ 0}` on entry (a `MapOk` map):
`Intersection(A, A, &m)` returns the single rule `h(0) → 1`, `F = {1}`, map `{(0,0) ↦ 0, (1,1) ↦ 1}` – the empty language,
but `h(a) ∈ L(A) ∩ L(A)`.  The hypothesis `hpre` of `C02_isect_prefilled_lang` cannot be dropped. -/
theorem C02_isect_prefilled_unexplored_counterexample :
    pmapOkB [((0, 0), 0)] = true ∧
    IsectFromEx.obs (isectTDFrom IsectFromEx.exA IsectFromEx.exA [((0, 0), 0)] 6) =
      some ([⟨2, [0], 1⟩], [1], [((0, 0), 0), ((1, 1), 1)]) ∧
    (isectTDFrom IsectFromEx.exA IsectFromEx.exA [((0, 0), 0)] 6).map (fun r => accepts r.1 IsectFromEx.tHA) = some false ∧
    accepts IsectFromEx.exA IsectFromEx.tHA = true := IsectFromEx.unexplored_counterexample

/-- **counterexample (finding): re-using the map object.**  `AutBase::ProductTranslMap m; Intersection(A, A, &m);
Intersection(A, A, &m);` – the second call finds every child pair in the map, explores the pair of final states only
and returns `h(1) → 0; F = {0}`: the empty language. -/
theorem C02_isect_prefilled_reuse_counterexample :
    IsectFromEx.obs (isectTDFrom IsectFromEx.exA IsectFromEx.exA [] 6) =
      some ([⟨2, [1], 0⟩, ⟨0, [], 1⟩], [0], [((1, 1), 0), ((0, 0), 1)]) ∧
    pmapOkB [((1, 1), 0), ((0, 0), 1)] = true ∧
    IsectFromEx.obs (isectTDFrom IsectFromEx.exA IsectFromEx.exA [((1, 1), 0), ((0, 0), 1)] 6) =
      some ([⟨2, [1], 0⟩], [0], [((1, 1), 0), ((0, 0), 1)]) ∧
    (isectTDFrom IsectFromEx.exA IsectFromEx.exA [((1, 1), 0), ((0, 0), 1)] 6).map (fun r => accepts r.1 IsectFromEx.tHA) =
      some false ∧
    accepts IsectFromEx.exA IsectFromEx.tHA = true := IsectFromEx.reuse_counterexample

/-- **counterexample (finding): numbers not below the size.**  `m = {(1,1) ↦ 1}` on entry: the fresh number `size() = 1`
is given to `(0,0)` as well; the result `h(1) → 1, a → 1; F = {1}` accepts `a` and `h(h(a))`.  The hypothesis `hok` of
`C02_isect_prefilled_lang` / `C02_isect_prefilled_sound` cannot be dropped. -/
theorem C02_isect_prefilled_collision_counterexample :
    prefillOkB IsectFromEx.exA IsectFromEx.exA [((1, 1), 1)] = true ∧ pmapOkB [((1, 1), 1)] = false ∧
    IsectFromEx.obs (isectTDFrom IsectFromEx.exA IsectFromEx.exA [((1, 1), 1)] 6) =
      some ([⟨2, [1], 1⟩, ⟨0, [], 1⟩], [1], [((1, 1), 1), ((0, 0), 1)]) ∧
    (isectTDFrom IsectFromEx.exA IsectFromEx.exA [((1, 1), 1)] 6).map
      (fun r => (accepts r.1 IsectFromEx.tA, accepts r.1 IsectFromEx.tHHA)) = some (true, true) ∧
    accepts IsectFromEx.exA IsectFromEx.tA = false ∧ accepts IsectFromEx.exA IsectFromEx.tHHA = false :=
  IsectFromEx.collision_counterexample

/-! ### IntersectionBU -/

/-- from the empty map the as-coded `IntersectionBU` (no certificate check) is the certified model `isectBU`, hence exact
with an injective map -/
theorem C02_isectBU_from_empty (A B : TA) (fuel : Nat) :
    isectBUFrom A B [] fuel = isectBU A B fuel ∧
    (∀ P m, isectBUFrom A B [] fuel = some (P, m) →
      (∀ t, accepts P t = (accepts A t && accepts B t)) ∧ InjOn (lookupF m) m.dom) :=
  ⟨isectBUFrom_nil A B fuel, fun _ _ h => ⟨isectBUFrom_lang_empty h, isectBUFrom_map_inj_empty h⟩⟩

example : (isectBUFrom IsectBUFromEx.exA IsectBUFromEx.exA [] 6).isSome = true := by decide

/-- **counterexample (finding): `IntersectionBU` with numbers not below the size.**  `m = {(1,1) ↦ 1}` on entry: the leaf
pair `(0,0)` gets `size() = 1`; the entry of `(1,1)` is skipped by `newStates.count(p->second)` and never marked final:
`a → 1, h(1) → 1; F = {}`, the empty language, but `h(a)` is in the intersection -/
theorem C02_isectBU_prefilled_collision_counterexample :
    IsectBUFromEx.obs (isectBUFrom IsectBUFromEx.exA IsectBUFromEx.exA [((1, 1), 1)] 6) =
      some ([⟨0, [], 1⟩, ⟨2, [1], 1⟩], [], [((1, 1), 1), ((0, 0), 1)]) ∧
    (isectBUFrom IsectBUFromEx.exA IsectBUFromEx.exA [((1, 1), 1)] 6).map (fun r => accepts r.1 IsectBUFromEx.tHA) =
      some false ∧
    accepts IsectBUFromEx.exA IsectBUFromEx.tHA = true := IsectBUFromEx.bu_collision_counterexample

/-! ### what a caller may rely on -/

/-- **entry point × map situation**, in one statement.
* `Union`, maps absent / fresh (empty) / pre-filled, TWO map objects: exact when the pre-filled maps are injective with
  disjoint images (trivial for empty maps).
* `Union`, ONE map object for both operands: the language of the two rule sets glued on common state numbers; exact
  when the operands' state sets are disjoint.
* `Intersection`, map absent / empty: exact, injective map.  Pre-filled: with `pmapOkB m0` never too large and the map
  stays injective; exact when moreover `prefillOkB A B m0`.  A result is returned for every entry map with the fuel
  `isectFromFuel`.
* `IntersectionBU`, map absent / empty: exact, injective map.  (Pre-filled: examples and counterexample only.) -/
theorem C02_maps_statement (A B : TA) :
    -- Union, two maps
    (∀ mL mR, Um.Inj mL → Um.Inj mR → Um.Disj mL mR →
      ∀ t, accepts (unionModel A B mL mR).1 t = (accepts A t || accepts B t)) ∧
    (∀ t, accepts (unionModel A B [] []).1 t = (accepts A t || accepts B t)) ∧
    -- Union, one map
    (∀ m0, Um.Inj m0 → (∀ t, accepts (unionSameMap A B m0).1 t = accepts (unionDisjoint A B) t) ∧
      ((∀ q, q ∈ A.states → q ∉ B.states) → ∀ t, accepts (unionSameMap A B m0).1 t = (accepts A t || accepts B t))) ∧
    -- Intersection
    (∀ fuel P m, isectTDFrom A B [] fuel = some (P, m) →
      (∀ t, accepts P t = (accepts A t && accepts B t)) ∧ InjOn (lookupF m) m.dom) ∧
    (∀ m0 fuel P m, pmapOkB m0 = true → isectTDFrom A B m0 fuel = some (P, m) →
      (∀ t, accepts P t = true → accepts A t = true ∧ accepts B t = true) ∧ InjOn (lookupF m) m.dom ∧ Isx.Ext m0 m ∧
      (prefillOkB A B m0 = true → ∀ t, accepts P t = (accepts A t && accepts B t))) ∧
    (∀ m0 fuel, isectFromFuel A B ≤ fuel → (isectTDFrom A B m0 fuel).isSome = true) ∧
    -- IntersectionBU
    (∀ fuel P m, isectBUFrom A B [] fuel = some (P, m) →
      (∀ t, accepts P t = (accepts A t && accepts B t)) ∧ InjOn (lookupF m) m.dom) := by
  refine ⟨fun mL mR hL hR hD t => unionModel_lang A B mL mR hL hR hD t, fun t => unionModel_lang_empty A B t, ?_, ?_, ?_,
    fun m0 fuel hf => isectTDFrom_total A B m0 fuel hf, fun fuel P m h => (C02_isectBU_from_empty A B fuel).2 P m h⟩
  · intro m0 hi
    exact ⟨fun t => unionSameMap_lang_glued A B m0 hi t, fun hdis t => unionSameMap_lang A B m0 hi hdis t⟩
  · intro fuel P m h
    exact ⟨fun t => isectTDFrom_lang_empty h t, isectTDFrom_map_inj Isx.mapOk_nil h⟩
  · intro m0 fuel P m hok h
    exact ⟨fun t ht => isectTDFrom_sound (pmapOkB_sound hok) h t ht, isectTDFrom_map_inj (pmapOkB_sound hok) h,
      (isectTDFrom_spec (pmapOkB_sound hok) h).2.1, fun hpre t => C02_isect_prefilled_lang hok hpre h t⟩

-- the statement speaks about runs that exist
example : (isectTDFrom IsectFromEx.exA IsectFromEx.exA [] 6).isSome = true ∧
    (isectTDFrom IsectFromEx.exA IsectFromEx.exA [((8, 9), 0)] 6).isSome = true ∧
    (isectBUFrom IsectBUFromEx.exA IsectBUFromEx.exA [] 6).isSome = true := by decide

/-!
## still not proved

* **`IntersectionBU` with a non-empty entry map.**  No general theorem.  Conjecture (supported by the `decide`d runs in
  `Vata/Proofs/UnionIsectMapsBU.lean`, by the replay on the real library, and by a random comparison of 4000 pairs of
  3-state automata with `pmapOkB` entry maps against the reference `isIsectM`: no difference, whereas `isectTDFrom`
  differed on 226 of them): `pmapOkB m0` alone makes `isectBUFrom A B m0` exact, because every written rule pushes its
  parent entry whether or not the pair was new.  The proof needs the invariant of `Vata/Proofs/IsectBUInv.lean` redone
  without `NumOk` (entry `i` carries number `i`) and with "popped" in place of "in the map" in the completeness clause.
  Fuel / totality of `isectBUFrom` for non-empty maps is not proved either.
* `C02_isect_prefilled_lang` is a sufficient condition; the exact characterisation is
  `C02_isect_prefilled_is_explored_product` (product restricted to the explored pairs).  No "iff" in terms of the
  languages is proved (a pre-filled unexplored pair is harmless also when it is useless in the product).
* The union theorems are stated for visiting orders as parameters, the product models use list order for the hash
  iteration orders; the theorems do not depend on the order, the concrete numbers do.
* The entry maps are association lists; the theorems do not assume distinct keys, but only lists with distinct keys stand
  for a C++ map (`length = size()`).
* `Union` with one map is modelled for the explicit tree automata only; the NFA `Union`
  (`src/explicit_finite_union.cc`) also builds two weak translators over the caller's maps and is not covered here.
-/
end Vata.Props
