import Vata.Proofs.OrdVector
/-!
# Utility class `VATA::Util::OrdVector<Key>` – a set kept as a strictly increasing vector (supports C07, C08, C09)

> `OrdVector` is the container of the macro-states of the antichain inclusion algorithms (`StateSet`, C07/C09) and of the
> state tuples / tuple sets of the BDD encodings (C08).  The models of those algorithms treat a macro-state as "a sorted
> duplicate-free list compared by value"; this file states what makes that reading of the real class legitimate.

## How the statement is read into the model

* **Specification (L0).**  An object denotes the finite set `abs v = fun x => x ∈ v` of the elements of its private vector
  `vec_`.  The abstract machine `OrdVec.aStep` keeps a list read as a set per object (`insert` conses, `Union` appends);
  its observations `OrdVec.aObserve` are defined from membership only (`OrdVec.enum a` = the members of `a` in increasing
  order, obtained by filtering an initial segment of ℕ).
* **Model of the code (L2).**  `Vata/OrdVector.lean`: every public member function the way it is coded, on
  `Vec = List Nat` – the binary-search loop of `insert(x)` / `find` on indices (`bsearch`, out-of-range reads visible as
  `BS.oob`), `resize` + `std::copy_backward` + assignment (`copyBackward`), the merge loop of `Union` followed by the
  sorting constructor, `std::sort` (insertion sort; `Util_OrdVector_sort_canonical`: ANY sorted permutation is the same
  list), `std::unique`, `std::includes`, `std::lexicographical_compare`, `std::equal`, the loop of
  `HaveEmptyIntersection` exactly as written, `operator<<`, `boost::hash_range` of Boost 1.83.
* **Correspondence (L3).**  kind `ordvec` (`harness/op_ordvec.inc`, `Driver/OrdVecChk.lean`, `tools/gen_ordvec.py`):
  histories over several live `OrdVector<size_t>`; after every step every live object is read back (iteration order
  included) and compared with `OrdVec.step` and with the abstract sets.

The class of this library version has no `erase`/`remove`, `count`, `Intersection` or `back`.
-/
namespace Vata.Props
open Vata.OrdVec

/-! ### representation invariant -/

/-- every constructor establishes the invariant "strictly increasing" (what the private `vectorIsSorted()` tests) … -/
theorem Util_OrdVector_ctor_invariant (l : List Nat) (x : Nat) :
    Sorted mkEmpty ∧ Sorted (ofVector l) ∧ Sorted (ofInitList l) ∧ Sorted (ofKey x) ∧ Sorted (ofRange l) ∧
      (vectorIsSorted (ofVector l) = true) :=
  ⟨mkEmpty_sorted, ofVector_sorted l, ofInitList_sorted l, ofKey_sorted x, ofRange_sorted l,
    (vectorIsSorted_iff _).2 (ofVector_sorted l)⟩

/-- … and denotes exactly the given elements (input unsorted, with duplicates) -/
theorem Util_OrdVector_ctor_abs (l : List Nat) (x y : Nat) :
    (¬ abs mkEmpty y) ∧ (abs (ofVector l) y ↔ y ∈ l) ∧ (abs (ofInitList l) y ↔ y ∈ l) ∧ (abs (ofKey x) y ↔ y = x) ∧
      (abs (ofRange l) y ↔ y ∈ l) :=
  ⟨mem_mkEmpty y, mem_ofVector, mem_ofInitList, mem_ofKey, mem_ofRange⟩

example : ofVector [5, 1, 3, 1, 5, 5] = [1, 3, 5] := by decide

/-- the result of `std::sort` is determined by its specification, so modelling it by insertion sort loses nothing -/
theorem Util_OrdVector_sort_canonical {l s : List Nat} (hp : s.Perm l) (hs : s.Pairwise (· ≤ ·)) : s = stdSort l :=
  stdSort_unique hp hs

example : ([1, 1, 3] : List Nat).Perm [3, 1, 1] ∧ ([1, 1, 3] : List Nat).Pairwise (· ≤ ·) := by decide

/-- every mutator keeps the invariant (`insert(OrdVector)`, `Union` and `clear` even without assuming it) -/
theorem Util_OrdVector_mutator_invariant {v w : Vec} (hv : Sorted v) (hw : Sorted w) (x : Nat) (self : Bool) :
    Sorted (insert v x) ∧ Sorted (insertAll v w) ∧ Sorted (union v w) ∧ Sorted (clear v) ∧ Sorted (assign self v w) :=
  ⟨insert_sorted hv x, insertAll_sorted v w, union_sorted v w, clear_sorted v, assign_sorted hv hw⟩

example : Sorted [1, 3, 5] ∧ Sorted [2, 3] := by decide

/-- memory safety of the binary search of `insert` / `find`: no read outside `[0, size())` -/
theorem Util_OrdVector_bsearch_in_bounds (v : Vec) (x : Nat) : bsearch v.length v x 0 v.length ≠ .oob :=
  bsearch_safe _ _ _ _ _ (Nat.le_refl _)

/-! ### the operations on the denoted sets -/

/-- `insert(x)` adds exactly `x` -/
theorem Util_OrdVector_insert {v : Vec} (hv : Sorted v) (x y : Nat) : abs (insert v x) y ↔ y = x ∨ abs v y :=
  mem_insert hv

example : insert [1, 3, 5] 4 = [1, 3, 4, 5] ∧ insert [1, 3, 5] 3 = [1, 3, 5] ∧ insert [1, 3, 5] 9 = [1, 3, 5, 9] := by decide

/-- `Union` is ∪, `insert(OrdVector)` is ∪= -/
theorem Util_OrdVector_union (v w : Vec) (y : Nat) :
    (abs (union v w) y ↔ abs v y ∨ abs w y) ∧ (abs (insertAll v w) y ↔ abs v y ∨ abs w y) :=
  ⟨mem_union, mem_insertAll⟩

example : union [1, 3] [2, 3] = [1, 2, 3] := by
  simp [union, unionLoop, ofVector, stdSort, insSorted, stdUnique, uniqueAux]

/-- `find` returns an iterator to the key exactly when the key is a member (`end()` otherwise); its offset is the rank of
the key -/
theorem Util_OrdVector_find {v : Vec} (hv : Sorted v) (x : Nat) :
    ((find v x).isSome = true ↔ abs v x) ∧ (∀ i, find v x = some i → v[i]? = some x ∧ i = (v.filter (· < x)).length) :=
  ⟨find_isSome_iff hv, fun _ h => ⟨find_some h, find_rank hv h⟩⟩

example : find [1, 3, 5] 5 = some 2 ∧ find [1, 3, 5] 4 = none := by decide

/-- `IsSubsetOf` ⇔ ⊆ -/
theorem Util_OrdVector_isSubsetOf {v w : Vec} (hv : Sorted v) (hw : Sorted w) :
    isSubsetOf v w = true ↔ ∀ x, abs v x → abs w x := isSubsetOf_iff hv hw

example : isSubsetOf [3] [1, 3] = true ∧ isSubsetOf [2] [1, 3] = false := by decide

/-- `operator==` ⇔ the same set (extensionality under the invariant) -/
theorem Util_OrdVector_eq {v w : Vec} (hv : Sorted v) (hw : Sorted w) : eq v w = true ↔ ∀ x, abs v x ↔ abs w x :=
  eq_iff_ext hv hw

/-- `operator<` is the lexicographic order of the vectors: irreflexive, transitive, total – a strict total order on the
sets (`lt_irrefl_sets`, `lt_total_sets`), usable as the order of `std::set`/`std::map` keys -/
theorem Util_OrdVector_lt_strict_total_order :
    (∀ a b : Vec, lt a b = true ↔ a < b) ∧ (∀ a : Vec, lt a a = false) ∧
      (∀ a b c : Vec, lt a b = true → lt b c = true → lt a c = true) ∧
      (∀ a b : Vec, lt a b = true ∨ a = b ∨ lt b a = true) ∧
      (∀ a b : Vec, Sorted a → Sorted b → (∀ x, abs a x ↔ abs b x) → lt a b = false) ∧
      (∀ a b : Vec, (¬ ∀ x, abs a x ↔ abs b x) → lt a b = true ∨ lt b a = true) :=
  ⟨lt_iff, lt_irrefl, fun _ _ _ => lt_trans, lt_trichotomy, fun _ _ ha hb h => lt_irrefl_sets ha hb h,
    fun _ _ h => lt_total_sets h⟩

example : lt [1, 3] [2] = true ∧ lt [1] [1, 2] = true ∧ lt [2] [1, 3] = false := by decide

/-- iteration yields every element exactly once, in increasing order -/
theorem Util_OrdVector_iteration {v : Vec} (hv : Sorted v) :
    (iterate v).Pairwise (· < ·) ∧ (∀ x, (iterate v).count x = if x ∈ v then 1 else 0) ∧ toVector v = iterate v ∧
      size v = (iterate v).length :=
  ⟨(iterate_spec hv).1, (iterate_spec hv).2.2.2, rfl, rfl⟩

/-- equal sets have equal hashes -/
theorem Util_OrdVector_hash {v w : Vec} (hv : Sorted v) (hw : Sorted w) (h : ∀ x, abs v x ↔ abs w x) :
    hashValue v = hashValue w := hashValue_ext hv hw h

/-! ### `HaveEmptyIntersection`: a defect of the real member function -/

/-- the loop the comment intends (`&&`) ⇔ the sets are disjoint -/
theorem Util_OrdVector_haveEmptyIntersection_intended {v w : Vec} (hv : Sorted v) (hw : Sorted w) :
    haveEmptyIntersectionFixed v w = true ↔ ∀ x, abs v x → ¬ abs w x :=
  haveEmptyIntersectionFixed_iff v w hv hw

/-- THE LOOP AS CODED (`while (itLhs != end() || itRhs != rhs.end())`): whenever the two sets are disjoint and not both
empty it dereferences an iterator equal to `end()`; it returns `true` only for two empty objects.  Observed on the real
class (kind `ordvec`, `ORDVEC_DISJ=full`): heap-buffer-overflow reports of AddressSanitizer, null dereference for a
never-filled left operand, and the WRONG answer `false` when the stale element behind `end()` (after `clear()`) equals an
element of the other operand (`ordvec vec!0,1 clear!0 key!0 disj!0!1`). -/
theorem Util_OrdVector_haveEmptyIntersection_defect {v w : Vec} (hv : Sorted v) (hw : Sorted w)
    (hdisj : ∀ x, abs v x → ¬ abs w x) (hne : ¬ (v = [] ∧ w = [])) : haveEmptyIntersection v w = none :=
  haveEmptyIntersection_reads_past_end hv hw hdisj hne

example : haveEmptyIntersection [1] [2] = none ∧ haveEmptyIntersection [] [5] = none := by
  simp [haveEmptyIntersection]

/-- where the loop as coded returns at all, the answer is right (a common element was found, or both are empty) -/
theorem Util_OrdVector_haveEmptyIntersection_partial {v w : Vec} (hv : Sorted v) (hw : Sorted w) {r : Bool}
    (h : haveEmptyIntersection v w = some r) : r = true ↔ ∀ x, abs v x → ¬ abs w x :=
  haveEmptyIntersection_some hv hw h

example : haveEmptyIntersection [1, 3] [2, 3] = some false := by simp [haveEmptyIntersection]

/-! ### histories -/

/-- after any list of operations (the five constructors, copy, assignment incl. self-assignment, `insert(x)`,
`insert(OrdVector)` incl. `v.insert(v)`, `Union` into a new object, `clear`) every live object satisfies the invariant
and every observation – `size`, `empty`, the iteration / `ToVector` (ORDER included), `find`, `==`, `<`, `IsSubsetOf`,
`HaveEmptyIntersection` (as coded: possibly "reads past the end"; as intended), `hash_value`, `operator<<` – equals the
observation of the abstract finite sets -/
theorem Util_OrdVector_history (ops : List Op) :
    (∀ v ∈ run ops, Sorted v) ∧ (∀ q : Query, observe (run ops) q = aObserve (aRun ops) q) :=
  ⟨history_invariant ops, history_observe ops⟩

example : run [.mkVector [3, 1, 2, 3], .mkKey 7, .insert 0 0, .copy 0, .clear 1, .assign 1 0, .insert 1 9]
    = [[0, 1, 2, 3], [0, 1, 2, 3, 9], [0, 1, 2, 3]] := by decide

/-- what the driver tests on a read-back iteration is "it is the increasing enumeration of the abstract set" -/
theorem Util_OrdVector_driver_check (c : List Nat) (a : ASet) : isEnumOf c a = true ↔ c = enum a := isEnumOf_iff c a

/-!
## not proved / outside the model

* `Key` is `Nat` (the harness uses `size_t`; all keys are below 2^64, arithmetic on keys does not occur, the index
  arithmetic `first + (last - first) / 2` cannot overflow for indices into a vector).  libvata instantiates the class
  with `StateType` (macro-states, `StateSet`, `StateSetLight`) and with `StateTuple = std::vector<StateType>` ordered
  lexicographically (`StateTupleSet` of the BDD encodings); the second instantiation, and key types with a user-defined
  `<` in general, are not modelled (the proofs use the order of ℕ through `omega`).
* `std::sort`, `std::unique`, `std::includes`, `std::lexicographical_compare`, `std::equal`, `std::copy_backward`,
  `std::vector` itself and `boost::hash` are modelled from their specification / reference loops, not from the library
  sources; allocation, capacity and iterator invalidation are not modelled.
* `operator<<` and the numeric `hash_value` are only transcribed and compared at run time (`mismatch` class); no theorem
  beyond "a function of the denoted set" (injectivity of the printed form is not proved).
* The non-const `begin()`/`end()` do not exist; `ToVector()` returns a reference whose lifetime is not modelled.
* `HaveEmptyIntersection` is NOT correct in the real class (see `Util_OrdVector_haveEmptyIntersection_defect`); nothing in
  libvata calls it.
-/
end Vata.Props
