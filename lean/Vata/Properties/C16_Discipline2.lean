import Vata.Proofs.LtsEngineCallsDelta
import Vata.Proofs.LtsEngineCallsSR2
import Vata.Properties.C16_Discipline
/-!
# C16 / C20 – the simulation engine ON its helper classes: `SmartSet` unconditionally, `SplittingRelation` run by run

> C16: `computeSimulation(partition, relation, size)` returns the greatest simulation inside the initial relation.
> C20: the helper classes of the LTS simulation (`SmartSet`, `SplittingRelation`, …) behave like the values they stand for,
> for the calls the engine makes.
> `Vata/Properties/C16_Discipline.lean`, "still not proved": *`DeltaOK L` for every `L` with `ltsOKB L`; the discipline of
> `SplittingRelation` (its history is emitted in `Tr.sr` but nothing is proved about it).*

## How the C++ is read into the model

* The instrumented engine is that of `Vata/LtsEngineCalls.lean` (unchanged): `Tr.ss` is the history of all `SmartSet` calls,
  `Tr.sr` the history of the calls on `relation_` (`src/explicit_lts_sim.cc`):
  `this->relation_.init(index)` (l. 669) → `SR.Op.init e.rel`; `this->relation_.split(block->index_)` (l. 399 `fastSplit`,
  l. 429 `split`) → `SR.Op.split b`; the loops
  `for (col = row.begin(); col != row.end(); ++col) { if (!mask[*col]) continue; … this->relation_.erase(col); }`
  (l. 471–481 `processRemove`, one per `b1 ∈ preList`, mask `removeMask`; l. 704–720 `init`, one per block and per
  `a ∈ pre[b1]`, mask `noPreMask[a]`) → `SR.Op.eraseRow b1 mask` (`SR.eraseRow` of `Vata/LtsUtil.lean` IS that loop on the
  doubly linked cells: it reads `right_` of the cell just reclaimed, as the C++ iterator does).  In `init` the C++ fetches
  `auto row = relation_.row(b1->index_)` ONCE in front of the loop over `a ∈ pre[b1]`; `Row::begin_` is a REFERENCE
  (`Element*& begin_`, `src/util/splitting_relation.hh` l. 206) to `rows_[index].first`, so every `row.begin()` re-reads the
  current first cell – which is what `SR.eraseRow` does (`s.rows[i]` is read at the start of every loop).
* `ExplicitLTS::buildDelta1` (`delta1T`): `SmartSet(states_)`, `labels()` copies, then for every label `a` the calls
  `delta1[a].init(q, count)` for `q = 0 … data_[a].first.size() - 1` in increasing order.
* The discipline of `SplittingRelation` is `SR.okAll ⟨[], L.n, false⟩ history` (`Vata/Proofs/LtsUtilSR6.lean`): from the object
  as constructed by `relation_(lts.states())` – capacity `L.n`, not initialised –: exactly one `init` with at most `L.n`
  duplicate-free in-range rows, `split(i)` only of an index that is in its own row and only below the capacity, erase loops
  only over existing rows.  On such histories the class AS CODED (`SR.run`: cells with `left/right/up/down`, the row / column
  sentinels with the `rowE i = rowB (i+1)` aliasing, the free list) is defined and refines the value
  (`SR.run_refines_mk`, built from `SR.init_refines`, `SR.split_refines`, `SR.eraseRow_refines_cap`).

## What is abstracted

* As in `C16_Discipline.lean`: read-only calls (`row(i)`, `size()`, iteration) and destructors are not history entries; one
  history per class (no interleaving between classes); `SharedCounter` / `SharedList` calls are not emitted.
* The value returned by `split` (the new index) is ignored by the C++ and by the model; `C16_engine_on_heaps_SR` nevertheless
  states that the coded class returns what the value side returns (`(SR.aRun …).2`).
-/
namespace Vata.Props
open Vata.L Vata.LE Vata.LU Vata.LEC

/-- **`buildDelta1` is inside the `SmartSet` discipline, for every LTS with in-range edges.**  The calls
`delta1[a].init(q, count)` visit every `q` once, in increasing order: no call meets a member, none erases, `last_` never
dangles; the set `delta1[a]` ends as the states with an outgoing `a`-edge (increasing) with their numbers of `a`-successors.
This discharges the hypothesis `hΔ` of `C16_engine_discipline_partial` / `C16_engine_on_heaps_partial`. -/
theorem C16_deltaOK (L : LTS) (hL : ltsOKB L = true) : DeltaOK L := deltaOK_of_ltsOK hL

/-- **the `SmartSet` call discipline holds along the whole run** (`C16_engine_discipline_partial` without `hΔ`): for every
LTS / partition / block relation satisfying the engine's preconditions the history of ALL `SmartSet` calls – `buildDelta1`,
`init`, the first `k` iterations of `run()` for every `k`, and the history of a completed `computeSimulation` – is inside
`SS.ok`. -/
theorem C16_engine_discipline (L : LTS) (part : List (List Nat)) (rel : Rel)
    (hL : ltsOKB L = true) (hp : isPartition part L.n = true) (hc : isConsistent part rel = true)
    (ht : isTransB rel = true) :
    (∀ k, SS.okAll [] (stateAfterI L part rel k).2.ss = true) ∧
    (∀ size R t, computeSimulationI L part rel size = some (R, t) → SS.okAll [] t.ss = true) :=
  C16_engine_discipline_partial L part rel hL hp hc ht (deltaOK_of_ltsOK hL)

/-- **the engine on heaps (`SmartSet`)** (`C16_engine_on_heaps_partial` without `hΔ`): the class AS CODED runs on the engine's
`SmartSet` history without reaching an undefined outcome, and afterwards the set of every block shows the inset the engine
model computes, the sets `delta1[a]` the states with an outgoing `a`-edge in increasing order. -/
theorem C16_engine_on_heaps (L : LTS) (part : List (List Nat)) (rel : Rel)
    (hL : ltsOKB L = true) (hp : isPartition part L.n = true) (hc : isConsistent part rel = true)
    (ht : isTransB rel = true) (k : Nat) :
    ∃ w, SS.run [] (stateAfterI L part rel k).2.ss = some w ∧
      (∀ i, i < (stateAfter L part rel k).part.length → ∃ s, w[objR L (nb0 L part rel) i]? = some s ∧
        SS.toList s = some ((stateAfter L part rel k).inset.getD i []) ∧
        s.size = ((stateAfter L part rel k).inset.getD i []).length ∧
        ∀ a, a < labels L → SS.contains s a = some (((stateAfter L part rel k).ins i).contains a)) ∧
      (∀ a, a < labels L → ∃ s, w[a + 1]? = some s ∧ (SS.toList s).map (·.map (·.1)) = some (delta1 L a)) :=
  C16_engine_on_heaps_partial L part rel hL hp hc ht (deltaOK_of_ltsOK hL) k

/-- **the `SplittingRelation` call discipline holds along the whole run.**  For every LTS / partition / block relation
satisfying the engine's preconditions, the history of all calls on `relation_` after `init` and the first `k` iterations of
`run()` (every `k`), and the history of a completed `computeSimulation`, is inside `SR.ok` from the object as constructed
(capacity `L.n`), and the value it leads to is the list of rows of the engine model.  In particular every
`relation_.split(block->index_)` finds `block` in its own row (no pruning loop ever erased the diagonal) and finds room for the
new index (there are never more than `L.n` blocks), and `init` is called with duplicate-free in-range rows. -/
theorem C16_engine_discipline_SR (L : LTS) (part : List (List Nat)) (rel : Rel)
    (hL : ltsOKB L = true) (hp : isPartition part L.n = true) (hc : isConsistent part rel = true)
    (ht : isTransB rel = true) :
    (∀ k, SR.okAll ⟨[], L.n, false⟩ (stateAfterI L part rel k).2.sr = true ∧
      (SR.aRun ⟨[], L.n, false⟩ (stateAfterI L part rel k).2.sr).1 = ⟨(stateAfter L part rel k).rel, L.n, true⟩) ∧
    (∀ size R t, computeSimulationI L part rel size = some (R, t) → SR.okAll ⟨[], L.n, false⟩ t.sr = true) := by
  have hg := stateAfter_goodR (ltsOK_of_B hL) hp hc (relTrans_of_B (part := part) ht)
  refine ⟨fun k => ⟨(hg k).1, by rw [← stateAfterI_fst]; exact (hg k).2⟩, ?_⟩
  intro size R t h
  unfold computeSimulationI at h
  split at h
  · cases h; rfl
  · cases hr : engineRunI L (objR L (nb0 L part rel)) (fuelBound L) (engineInitI L part rel) with
    | none => rw [hr] at h; cases h
    | some et =>
      rw [hr] at h
      obtain ⟨k, hk⟩ := engineRunI_some _ _ _ hr
      rw [← stateAfterI_iter] at hk
      have : t = et.2 := by cases h; rfl
      rw [this, hk]; exact (hg k).1

/-- **the engine on heaps (`SplittingRelation`).**  Running the class AS CODED (`SR.run` from `SR.mk L.n`: doubly linked cells,
row / column sentinels with the aliasing `rowE i = rowB (i + 1)`, free list) on the engine's `relation_` history never
reaches an undefined outcome; every call returns what the value side returns; and after `init` and after every iteration of
`run()` the heap shows exactly the relation of the engine model: `size()` is the number of blocks (the C++
`assert(this->relation_.size() == this->partition_.size())`), iterating `row(i)` yields row `i` of the model in the model's
order (what `processRemove`, `init` and `buildResult` read), iterating `column(i)` yields the rows containing `i`. -/
theorem C16_engine_on_heaps_SR (L : LTS) (part : List (List Nat)) (rel : Rel)
    (hL : ltsOKB L = true) (hp : isPartition part L.n = true) (hc : isConsistent part rel = true)
    (ht : isTransB rel = true) (k : Nat) :
    ∃ s', SR.run (SR.mk L.n) (stateAfterI L part rel k).2.sr =
        some (s', (SR.aRun ⟨[], L.n, false⟩ (stateAfterI L part rel k).2.sr).2) ∧
      SR.Inv s' (stateAfter L part rel k).rel ∧
      s'.size = (stateAfter L part rel k).part.length ∧
      ∀ i, i < (stateAfter L part rel k).part.length →
        (SR.rowCells s' i).map (·.map (·.2)) = some ((stateAfter L part rel k).row i) ∧
        (SR.colCells s' i).map (·.map (·.2)) = some (SR.aCol (stateAfter L part rel k).rel i) := by
  obtain ⟨hok, hval⟩ := (C16_engine_discipline_SR L part rel hL hp hc ht).1 k
  have hw := (engine_invariant_always (ltsOK_of_B hL) hp hc (relTrans_of_B (part := part) ht) k).wf
  obtain ⟨s', h1, h2⟩ := SR.run_refines_mk L.n _ hok
  have hinv : SR.Inv s' (stateAfter L part rel k).rel := by
    have := h2.2
    rw [hval] at this
    simpa using this
  refine ⟨s', h1, hinv, by rw [SR.size_refines hinv, hw.hrel], fun i hi => ?_⟩
  rw [← hw.hrel] at hi
  exact ⟨SR.rowCells_refines hinv hi, SR.colCells_refines hinv hi⟩

/-- the same for a completed `computeSimulation` (non-empty output): the coded `SplittingRelation` ends in a state whose rows
are the rows of the final engine state `e`, from which `buildResult` produced the answer -/
theorem C16_engine_on_heaps_SR_final (L : LTS) (part : List (List Nat)) (rel : Rel)
    (hL : ltsOKB L = true) (hp : isPartition part L.n = true) (hc : isConsistent part rel = true)
    (ht : isTransB rel = true) (size : Nat) (hs : size ≠ 0) (R : Rel) (t : Tr)
    (h : computeSimulationI L part rel size = some (R, t)) :
    ∃ e s' outs, SR.run (SR.mk L.n) t.sr = some (s', outs) ∧ R = buildResult e size ∧ e.queue = [] ∧
      s'.size = e.rel.length ∧
      ∀ i, i < e.rel.length → (SR.rowCells s' i).map (·.map (·.2)) = some (e.row i) := by
  unfold computeSimulationI at h
  have hs' : (size == 0) = false := by simpa using hs
  rw [hs'] at h
  simp only [Bool.false_eq_true, if_false] at h
  cases hr : engineRunI L (objR L (nb0 L part rel)) (fuelBound L) (engineInitI L part rel) with
  | none => rw [hr] at h; cases h
  | some et =>
    rw [hr] at h
    obtain ⟨k, hk⟩ := engineRunI_some _ _ _ hr
    rw [← stateAfterI_iter] at hk
    have hR : R = buildResult et.1 size := by cases h; rfl
    have ht' : t = et.2 := by cases h; rfl
    obtain ⟨s', h1, hinv, _, _⟩ := C16_engine_on_heaps_SR L part rel hL hp hc ht k
    rw [← stateAfterI_fst, ← hk] at hinv
    rw [← hk] at h1
    have hq : et.1.queue = [] := engineRunI_queue _ _ _ hr
    refine ⟨et.1, s', _, by rw [ht']; exact h1, hR, hq, SR.size_refines hinv, fun i hi => ?_⟩
    exact SR.rowCells_refines hinv hi

/-! ### non-vacuity -/

-- `buildDelta1` for a system where a source state has no `a`-successor below `data_[a].first.size()` (the `init(q, 0)` case)
example : ltsOKB ⟨3, [(2, 0, 0), (0, 1, 1), (2, 0, 1)]⟩ = true ∧
    delta1T ⟨3, [(2, 0, 0), (0, 1, 1), (2, 0, 1)]⟩ =
      [.new 3, .copy 0, .copy 0, .init 1 0 0, .init 1 1 0, .init 1 2 2, .init 2 0 1] ∧
    SS.aRun [] (delta1T ⟨3, [(2, 0, 0), (0, 1, 1), (2, 0, 1)]⟩) =
      [⟨[], 3, false⟩, ⟨[(2, 2)], 3, false⟩, ⟨[(0, 1)], 3, false⟩] := by decide

-- the run of `EngEx.L3`: hypotheses hold; the `relation_` history has `init`, three `split`s and five erase loops, it is
-- inside the discipline, and it ends in the rows of the engine model
example : ltsOKB EngEx.L3 = true ∧ isPartition [[0, 1, 2, 3]] EngEx.L3.n = true ∧ isConsistent [[0, 1, 2, 3]] [(0, 0)] = true ∧
    isTransB [(0, 0)] = true ∧
    (stateAfterI EngEx.L3 [[0, 1, 2, 3]] [(0, 0)] 2).2.sr =
      [.init [[0]], .split 0, .eraseRow 1 [0], .eraseRow 1 [0], .eraseRow 1 [0], .split 1, .eraseRow 1 [2], .split 1,
        .eraseRow 1 [3]] ∧
    SR.okAll ⟨[], 4, false⟩ (stateAfterI EngEx.L3 [[0, 1, 2, 3]] [(0, 0)] 2).2.sr = true ∧
    (stateAfterI EngEx.L3 [[0, 1, 2, 3]] [(0, 0)] 2).1.rel = [[0, 1, 2, 3], [1], [1, 2, 3], [1, 3]] := by decide

-- the coded class on this history: defined, and row 2 reads back as the model's row 2
example : (SR.run (SR.mk 4) (stateAfterI EngEx.L3 [[0, 1, 2, 3]] [(0, 0)] 2).2.sr).bind
    (fun r => (SR.rowCells r.1 2).map (·.map (·.2))) = some [1, 2, 3] := by decide

-- the discipline is not vacuous on the class: a `split` of an index whose diagonal element was erased, or a `split` at full
-- capacity, is outside the discipline (this is what the engine avoids: it never erases `(b, b)` and never has more than
-- `L.n` blocks)
example : SR.okAll ⟨[], 3, false⟩ [.init [[0, 1], [1]], .eraseRow 1 [1], .split 1] = false ∧
    SR.okAll ⟨[], 2, false⟩ [.init [[0, 1], [1]], .split 1] = false ∧
    SR.run (SR.mk 2) [.init [[0, 1], [1]], .split 1] = none := by decide

/-!
## which "still not proved" items of `C16_Discipline.lean` this file closes

* `DeltaOK L` for every `L` with `ltsOKB L`: `C16_deltaOK`; hence `C16_engine_discipline`, `C16_engine_on_heaps` without the
  hypothesis `hΔ`.
* The discipline of `SplittingRelation` along the run: `C16_engine_discipline_SR`; the coded class on the engine's history:
  `C16_engine_on_heaps_SR`, `C16_engine_on_heaps_SR_final`.

## still not proved

* The discipline of `SharedCounter` (`SC.ok`) and `SharedList` (`SL.ok`) along the run: their calls are not emitted by the
  instrumented engine.
* The value of the scratch set `s` of `init` after its `remove` calls (= `initRemove`) is not stated; only that all calls on
  it are inside the discipline.
* The interleaving of the histories of different classes is not recorded (the classes share no memory); destructors and
  read-only calls are not history entries.
-/
end Vata.Props
