import Vata.Proofs.FunctorCaches
import Vata.Properties.C09
/-!
# C09 – the caches inside the two inclusion functors of the word automata are transparent

Corollaries of `Vata/Proofs/FunctorCaches.lean` (model: `Vata/FunctorCaches.lean`) for the item **"Transparent caches are
assumed transparent"** of the "not yet proved" block of `Vata/Properties/C09.lean`.

How the statement is read into the model.  `Vata/NfaIncl.lean` (the models behind `C09_antichain_model_exact`,
`C09_congruence_model_exact`) compares macro-states by value.  `Vata/FunctorCaches.lean` models the same two functors with
their caches as coded:

* `MacroStateCache` (objects never die, never change; identity = address; `areEqual` answers `false` on empty sets – parameter
  `se = false`; `se = true` is a cache that interns the empty set too),
* the antichain functor's `subsetMap_` / `subsetNotMap_`, consulted and filled by the lambdas `lte` / `gte` inside
  `Antichain2Cv2::contains` (stops at the first hit) and `refine` (`MemoMode.lib` = repository, `MemoMode.preRepair` = before
  the repair of defect D8),
* the congruence functor's `visitedPairs_` and `usedRules_` (`UsedMode.lib`, `UsedMode.swapped` = the seeded change of the
  argument order of `usedRules_.contains`), with the re-interning of the copied sets at the start of `MakePost`.

`checkNfaInclACc`, `checkNfaInclCongrC` are `CheckInclusion` (sanitise, explore, certificate check) with these caches;
`FC.runACc`, `FC.runCongrC` the explorations alone, `FC.rawVerdictA` / `FC.rawVerdictC` their `return true` / `return false`
BEFORE the certificate check (the regressions are stated there: the certificate check of the models would hide them).
-/
namespace Vata.Props
open Vata Vata.W Vata.FC

/-! ### the antichain functor -/

/-- **`MacroStateCache`, `subsetMap_`, `subsetNotMap_` are transparent (ANTICHAINS_NOSIM).**  For all operands, every fuel and
both variants of `areEqual`, `CheckInclusion` with the caches as coded returns exactly what the cache-free model
`checkNfaInclAC` returns – the same verdict with the same antichain, the same witness, `none` at the same fuel; the same
holds for the exploration alone on any operands.  Hence everything `C09_antichain_model_exact` says holds with caches. -/
theorem C09_antichain_caches_transparent (se : Bool) (A B : NFA) (fuel : Nat) :
    checkNfaInclACc .lib se A B fuel = checkNfaInclAC A B fuel ∧
    nfaInclACc .lib se A B fuel = nfaInclAC A B fuel ∧
    viewA (runACc .lib se A B fuel) = NfaIncl.runAC A B fuel :=
  ⟨checkNfaInclAC_cached_eq se A B fuel, nfaInclAC_cached_eq se A B fuel, runACc_eq se A B fuel⟩

/-- … in the form of `C09_antichain_model_exact`: exact and total with the caches -/
theorem C09_antichain_cached_exact (se : Bool) (A B : NFA) :
    (∀ fuel b c, checkNfaInclACc .lib se A B fuel = some (b, c) → (b = true ↔ InclW A B)) ∧
    (∀ fuel, NfaIncl.fuelBoundAC (nfaSanitize A B).1 (nfaSanitize A B).2 < fuel →
      (InclW A B → ∃ c, checkNfaInclACc .lib se A B fuel = some (true, c)) ∧
      (¬ InclW A B → ∃ c, checkNfaInclACc .lib se A B fuel = some (false, c))) := by
  simp only [checkNfaInclAC_cached_eq]
  exact C09_antichain_model_exact A B

/-- **the invariant behind it**: at the end of every run of the library's code every entry of `subsetMap_` is a true `⊆`
between the values at its two addresses and every entry of `subsetNotMap_` a true `⊄` (the invariant `FC.MemoOK` holds in
every state of the simulation `FC.ARel`; `FC.lteC_spec`, `FC.gteC_spec`: under it the lambdas answer what the comparator
answers on the values) -/
theorem C09_antichain_memo_sound (se : Bool) (A B : NFA) (fuel : Nat) (c : ACaches)
    (h : finalMemoA (runACc .lib se A B fuel) = some c) :
    (∀ a b, (a, b) ∈ c.sub → Vata.subB (val c.mc a) (val c.mc b) = true) ∧
    (∀ a b, (a, b) ∈ c.nsub → Vata.subB (val c.mc a) (val c.mc b) = false) ∧ memoOKB c = true :=
  ⟨fun a b hab => ((runACc_memo_sound se A B fuel h).1.sub a b hab).2.2,
   fun a b hab => ((runACc_memo_sound se A B fuel h).1.nsub a b hab).2.2, (runACc_memo_sound se A B fuel h).2⟩

-- non-vacuity: on the regression pair of D8 the run fills 6 objects, 4 + 9 memo entries, and returns what the model returns
example : (finalMemoA (runACc .lib false NfaInclEx.exSanA NfaInclEx.exSanB 20)).map
    (fun c => (c.mc.length, c.sub.length, c.nsub.length, memoOKB c)) = some (6, 4, 9, true) := by decide +kernel
example : (checkNfaInclACc .lib false NfaInclEx.exMemoA NfaInclEx.exMemoB 20).map (·.1) = some true := by decide +kernel

/-- **Regression D8** (`efa75502`: `lte` / `gte` recorded the converse of a failed comparison as a fact, `gte` read the tables
with swapped meaning).  With the pre-repair recording: (1) on `exD8A`, `exD8B` (`L(A) ⊄ L(B)`, witness `b a a`) the
exploration ends with `return true` where the repaired code says `false`, and its final `subsetMap_` holds the false entry
"`{3} ⊆ {2}`" – the invariant of `C09_antichain_memo_sound` is broken; (2) on the regression pair `exMemoA` / `exMemoB` behind
the dispatcher the exploration is still running after 100 picked pairs where the repaired code is done after 10. -/
theorem C09_regression_D8 :
    (rawVerdictA (runACc .preRepair false FCEx.exD8A FCEx.exD8B 20) = some true ∧
     rawVerdictA (runACc .lib false FCEx.exD8A FCEx.exD8B 20) = some false ∧ ¬ InclW FCEx.exD8A FCEx.exD8B) ∧
    (finalMemoA (runACc .preRepair false FCEx.exD8A FCEx.exD8B 20)).map (fun c => (c.mc, c.sub, memoOKB c)) =
      some ([(2, [2]), (3, [3])], [(1, 1), (1, 0)], false) ∧
    ((runACc .preRepair false NfaInclEx.exSanA NfaInclEx.exSanB 100).isNone = true ∧
     rawVerdictA (runACc .lib false NfaInclEx.exSanA NfaInclEx.exSanB 11) = some true ∧
     (checkNfaInclACc .preRepair false NfaInclEx.exMemoA NfaInclEx.exMemoB 100).isNone = true) :=
  ⟨FCEx.d8_changes_verdict, FCEx.d8_breaks_invariant, FCEx.d8_diverges⟩

/-! ### the congruence functor -/

/-- **`MacroStateCache`, `visitedPairs_`, `usedRules_` are transparent (CONGR_DEPTH_NOSIM, CONGR_BREADTH_NOSIM) on every
positive instance.**  If `L(A) ⊆ L(B)`, `CheckInclusion` with the library's caches (`areEqual` as coded) returns, for both
orders and every fuel, exactly what the cache-free model `checkNfaInclCongr` returns (the same relation, `none` at the same
fuel); in particular it answers `true` above the fuel bound of `C09_congruence_model_exact`. -/
theorem C09_congruence_caches_transparent (A B : NFA) (h : InclW A B) (breadth : Bool) :
    (∀ fuel, checkNfaInclCongrC .lib false A B breadth fuel = checkNfaInclCongr A B breadth fuel) ∧
    (∀ fuel, NfaIncl.fuelBoundCongr (nfaSanitize A B).1 (nfaSanitize A B).2 < fuel →
      ∃ c, checkNfaInclCongrC .lib false A B breadth fuel = some (true, c)) :=
  ⟨fun fuel => checkNfaInclCongr_cached_eq_of_incl A B h breadth fuel,
   fun _ hf => checkNfaInclCongr_cached_complete A B h breadth hf⟩

example : InclW NfaInclEx.exMemoA NfaInclEx.exMemoB := FCEx.exMemo_incl
example : (checkNfaInclCongrC .lib false NfaInclEx.exMemoA NfaInclEx.exMemoB true 20).map (·.1) = some true := by
  decide +kernel

/-- **the general form.**  On operands with disjoint states (what the dispatcher establishes) the functor with its caches
returns exactly what the cache-free model returns – verdict, relation / witness, fuel – whenever the cache interns the empty
set (`se = true`) or no reachable pair of macro-states has exactly one empty component (`FC.NoHalfEmpty`; true when every
state of `A` can reach a final state and `L(A) ⊆ L(B)`: `FC.noHalfEmpty_of_incl`). -/
theorem C09_congruence_caches_transparent_core (se : Bool) (A B : NFA)
    (hdis : ∀ q, q ∈ nfaStates A → q ∈ nfaStates B → False)
    (hne : se = true ∨ NoHalfEmpty (nfaUnionDisjoint A B) B) (breadth : Bool) (fuel : Nat) :
    nfaInclCongrC .lib se A B breadth fuel = nfaInclCongr A B breadth fuel ∧
    viewC (runCongrC .lib se (nfaUnionDisjoint A B) B breadth fuel) =
      NfaIncl.runCongr (nfaUnionDisjoint A B) B breadth fuel :=
  ⟨nfaInclCongr_cached_eq hdis hne breadth fuel, runCongrC_eq hdis hne breadth fuel⟩

example : nfaInclCongrC .lib true FCEx.exSwA FCEx.exSwB false 20 = nfaInclCongr FCEx.exSwA FCEx.exSwB false 20 :=
  (C09_congruence_caches_transparent_core true _ _ FCEx.exSw_disjoint (Or.inl rfl) _ _).1

/-- **on every instance, in every mode: a verdict of the certifying cached model is right** (the certificate check does not
depend on the caches), so with `C09_congruence_model_exact` the cached and the cache-free model never disagree on a verdict -/
theorem C09_congruence_cached_verdicts (um : UsedMode) (se : Bool) (A B : NFA) (breadth : Bool) (fuel fuel' : Nat)
    (b b' : Bool) (c c' : NfaIncl.Cert) (h : checkNfaInclCongrC um se A B breadth fuel = some (b, c))
    (h' : checkNfaInclCongr A B breadth fuel' = some (b', c')) : (b = true ↔ InclW A B) ∧ b = b' := by
  have h1 := checkNfaInclCongrC_iff h
  have h2 := checkNfaInclCongr_iff h'
  refine ⟨h1, ?_⟩
  cases b <;> cases b' <;> simp_all

example : ∃ c, checkNfaInclCongrC .lib false FCEx.exWA FCEx.exWB true 20 = some (false, c) :=
  NfaInclEx.verdict_some (by decide +kernel)

/-- **the invariant of `usedRules_`**: at the end of every run covered by `C09_congruence_caches_transparent_core` every entry
`b ↦ y` is a true fact about the two values, `*y ⊆ *b`.  (Why this is the right reading: in `U = A ⊎ B` a rule `Yᵢ → Xᵢ ∪ Yᵢ`
adds no state of `B` beyond `Yᵢ` – `FC.StructR`, `FC.SweepInv` – so "fired in an earlier closure of `*b`" means `Yᵢ ⊆ *b`;
`FC.firesC_eq`: under the invariant the shortcut answers what `MatchPair` answers.) -/
theorem C09_congruence_used_sound (se : Bool) (A B : NFA) (hdis : ∀ q, q ∈ nfaStates A → q ∈ nfaStates B → False)
    (hne : se = true ∨ NoHalfEmpty (nfaUnionDisjoint A B) B) (breadth : Bool) (fuel : Nat) (c : CCaches)
    (h : finalMemoC (runCongrC .lib se (nfaUnionDisjoint A B) B breadth fuel) = some c) :
    (∀ b y, (b, y) ∈ c.used → ∀ x, x ∈ val c.mc y → x ∈ val c.mc b) ∧ usedOKB c = true :=
  ⟨fun b y hby => ((runCongrC_used_sound hdis hne breadth fuel h).1 b y hby).2.2,
   (runCongrC_used_sound hdis hne breadth fuel h).2⟩

example : (finalMemoC (runCongrC .lib false (nfaUnionDisjoint NfaInclEx.exSanA NfaInclEx.exSanB) NfaInclEx.exSanB true 20)).map
    (fun c => (c.mc.length, c.visited.length, c.used, usedOKB c)) = some (14, 11, [(6, 6), (1, 9), (4, 7)], true) := by
  decide +kernel

/-- **Regression: `usedRules_.contains` with swapped arguments.**  On `exSwA`, `exSwB` (`L(A) ⊄ L(B)`, witness `b a a`) the
breadth-first exploration ends with `return true` where the library's code says `false`; the swapped call reads the true
entry "`{1} ⊆ {1,2}`" as "`{1,2} ⊆ {1}`" and fires a rule `MatchPair` rejects (the library's call does not). -/
theorem C09_regression_usedRules_swapped :
    (rawVerdictC (runCongrC .swapped false (nfaUnionDisjoint FCEx.exSwA FCEx.exSwB) FCEx.exSwB true 20) = some true ∧
     rawVerdictC (runCongrC .lib false (nfaUnionDisjoint FCEx.exSwA FCEx.exSwB) FCEx.exSwB true 20) = some false ∧
     ¬ InclW FCEx.exSwA FCEx.exSwB) ∧
    (usedOKB ⟨[(1, [1]), (3, [1, 2])], [], [(1, 0)]⟩ = true ∧
     firesC .swapped true [(1, [1]), (3, [1, 2])] 0 [(1, 0)] ⟨1, 1, []⟩ [1] = true ∧
     Vata.subB (val [(1, [1]), (3, [1, 2])] 1) [1] = false ∧
     firesC .lib true [(1, [1]), (3, [1, 2])] 0 [(1, 0)] ⟨1, 1, []⟩ [1] = false) :=
  ⟨FCEx.swapped_changes_verdict, FCEx.swapped_misreads⟩

/-- **the empty-set quirk of `MacroStateCache` is observable.**  (1) `exHA`, `exHB` (`L(A) = L(B) = {ε}`, `A` has a useless
state, operands NOT sanitised): the cache-free model and a cache that interns the empty set finish with fuel 3, the
library's cache returns `none` there and `true` with fuel 5 – the pair `({1}, ∅)` is enqueued after each of its expansions.
(2) `exWA`, `exWB` behind the dispatcher, a negative instance, breadth-first: both answer `false`, the cache-free model with
the witness `c a`, the library's cache with `a a` (the order of the exploration changes).  So the side condition of
`C09_congruence_caches_transparent_core` cannot be dropped and `C09_congruence_caches_transparent` does not extend to negative
instances; what holds there is `C09_congruence_cached_verdicts`. -/
theorem C09_empty_set_quirk :
    (NfaInclEx.verdict (nfaInclCongr FCEx.exHA FCEx.exHB true 3) = some true ∧
     nfaInclCongrC .lib false FCEx.exHA FCEx.exHB true 3 = none ∧
     NfaInclEx.verdict (nfaInclCongrC .lib false FCEx.exHA FCEx.exHB true 5) = some true ∧
     ¬ NoHalfEmpty (nfaUnionDisjoint FCEx.exHA FCEx.exHB) FCEx.exHB) ∧
    (NfaInclEx.witness (checkNfaInclCongr FCEx.exWA FCEx.exWB true 20) = some [2, 0] ∧
     NfaInclEx.witness (checkNfaInclCongrC .lib false FCEx.exWA FCEx.exWB true 20) = some [0, 0] ∧
     NfaInclEx.witness (checkNfaInclCongrC .lib true FCEx.exWA FCEx.exWB true 20) = some [2, 0]) :=
  ⟨FCEx.cached_real_ne, FCEx.cached_real_witness_differs⟩

/-!
## which "not yet proved" items of `C09.lean` this file closes

* **"Transparent caches are assumed transparent"** –
  - antichain functor (`MacroStateCache`, `subsetMap_`, `subsetNotMap_`): closed, unconditionally
    (`C09_antichain_caches_transparent`, `C09_antichain_cached_exact`, `C09_antichain_memo_sound`, regression `C09_regression_D8`);
  - congruence functor (`MacroStateCache`, `visitedPairs_`, `usedRules_`): closed for every positive instance behind the
    dispatcher and, in general, under `se = true ∨ NoHalfEmpty` (`C09_congruence_caches_transparent`, `…_core`,
    `C09_congruence_used_sound`, regression `C09_regression_usedRules_swapped`); verdict agreement everywhere
    (`C09_congruence_cached_verdicts`).
  The sentence of that item "the argument why they do not change a verdict is in the header of `Vata/NfaIncl.lean`" needs two
  corrections, both theorems here: `usedRules_` is sound because of the shape of the pairs over `A ⊎ B` (not because closures
  only grow: the rule of the pair being tested was present in earlier closures of the same right component and is absent
  now), and the copies of a pair with an empty component are NOT always discarded (`C09_empty_set_quirk` (2)).

## not proved here

* Congruence functor with the library's `areEqual` on NEGATIVE instances (or unsanitised operands) where a pair with exactly
  one empty component is reachable: no lock-step equality (it is false, `C09_empty_set_quirk`) and no totality theorem for the
  cached model (`checkNfaInclCongrC .lib false` could in principle run out of any fuel there; every verdict it returns is right).
* Divergence under D8 is the bounded statement (100 picks), not "for every fuel".
* Still abstracted exactly as in `Vata/NfaIncl.lean`: iteration orders of hash containers (list order), the third ordering
  criterion of `next_` (insertion order instead of the address), `Init` of the antichain functor stops at the first bad start
  state, sums as natural numbers.  The simulation-based selections and the tree side (`lteCache`, `evalTransitionsCache` of
  `explicit_tree_incl_up.cc`, property C01) are not covered by this file.
-/
end Vata.Props
