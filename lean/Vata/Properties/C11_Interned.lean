import Vata.Proofs.CowInternedStep
/-!
# C11 (and C12) – several NAMED automata sharing tuple sets copy-on-write over ONE tuple cache

> C11.  Explicit tree automata are values: after copy construction / assignment the copy and the original can be modified
> (AddTransition, SetStateFinal, Clear, destruction) independently of one another, although the implementation shares the
> transition storage copy-on-write at three levels …
> C12.  … iterating the automaton yields each distinct rule added since the last Clear exactly once …

`Vata/Properties/C12_Interned.lean` ("still not proved"): *"a copy of the automaton is modelled as an eager copy of its tuple
sets; the equivalence with copy-on-write sharing of tuple sets (`CowHeap`) for tuple liveness is argued in the header, not
proved.  Named automata with assignment between them, and `internalAddTransition` with a foreign pointer, are not
modelled."*  `Vata/Properties/C11*.lean` treat the copy-on-write heap with tuple sets of tuple VALUES.  This file closes the
gap: the copy-on-write heap whose tuple SETS hold identities of the one process-wide tuple cache.

## How the C++ is read into the model (`Vata/CowInterned.lean`)

* `Sys.hx` is literally the heap of `Vata/CowHeapX.lean` (`CowHeap3.Heap`: handle → map node → cluster node → tuple-set
  node, a `use_count` per node, plus the member `finalStates_` per handle).  An element of a tuple-set node is the
  one-element list `cell p = [p]`, `p` the address of the interned tuple – `insTuple (cell p)` is `std::set<TuplePtr>::insert`
  comparing POINTERS.  `Sys.cache` is literally `StoreI.CacheSt` = `CM.Sys.store` (`Cache::store_`: tuple ↦ (address,
  `use_count`)) with `lookupC` / `acquireC` / `releaseC` of `Vata/StoreInterned.lean`.  `Sys.ext`: `TuplePtr`s held outside
  of tuple sets (temporaries, `info->children_` of `RemoveUselessStates`).
* The heap primitives of `CowHeap3` are re-coded THREADED with their effect on the cache, in the order of the C++:
  `releaseTsI` (`~TuplePtrSet()` inside the release of the last `TuplePtrSetPtr`: every `TuplePtr` of the set destroyed),
  the cascades `releaseClusterI` / `releaseMapI`; `addToClusterUniqueI` = `uniqueTuplePtrSet(f)->insert(p)`
  (`new TuplePtrSet()` / in place when `unique()` / `new TuplePtrSet(*tupleSet)`: every pointer of the shared set copied;
  then `insert`: the pointer copied iff no equal pointer is there; the old `TuplePtrSetPtr` released).  Clones of map and
  cluster nodes, copy construction and assignment of automata copy `shared_ptr`s to NODES only – no `acquireC` there; an
  off-by-one in any of the use counts, or a set copy that forgets the tuple pointers (`Mode.rawCopy`), is a different model.
  `…_fst` (`Vata/Proofs/CowInterned.lean`): the heap component of every threaded primitive IS the `CowHeap3` primitive.
* Calls (`Op`): `new`, `copy`, `assign`, `destroy`, `add` (= `AddTransition`: temporary `tupleLookup(children)`,
  `internalAddTransition`, death of the temporary), `addPtr` (= `internalAddTransition(p, f, q)` with a `TuplePtr` of the
  caller: `src/explicit_tree_useless.cc:167`, `src/explicit_tree_candidate.cc:170`), `clear`, `setFinal`, and what anybody may
  do with tuple pointers at any time: `envLookup`, `envCopy`, `envRelease`.
* **Allocator**: a call that may create a cache node carries the address offered; `stepC = none` iff it is the address of a
  live tuple (`C11_interned_total`).  Theorems "for all `ops` with `run .lib ops = some s`" hold for every allocator.
* **Abstracted**: pointer / hash ORDER in the containers (lists in insertion order); the weak-pointer control block of the
  cache is folded into the map entry; calls on dead automata, constructors over live names and `addPtr` with a pointer the
  caller does not hold are not C++ programs (no-ops); move operations and the storage-sharing library operations of
  `CowHeapX` (`shareAll`, `shareClusters`, `unionDisj`) are not threaded here.

## What is proved

`C11_interned_refines_values` (+ `_noPtr`, `_step`, `_isolated`), `C11_interned_cache_inv`, `C11_interned_no_leak`,
`C11_interned_pointer_eq_iff_tuple_eq`, `C11_interned_total`, `C11_interned_fair_allocator`,
`C11_interned_heap_is_CowHeapX`, and the regression `C11_interned_regression_rawCopy`.
-/
namespace Vata.Props
open Vata Vata.CowI
open Vata.CowHeapX (specStepX specInitX HOpX ValX)

theorem C11_absV_init : absV CowI.init = specInitX := by
  funext h
  show (CowHeapX.absX CowHeapX.initX h).map _ = _
  rw [CowHeapX.absX_init]
  rfl

/-- **Every automaton denotes the value the value-level specification gives it.**  For every history of calls on named
    automata (construction, copy, assignment, destruction, `AddTransition`, `internalAddTransition` with a foreign pointer,
    `Clear`, `SetStateFinal`, pointer traffic of the environment), every allocator and every interleaving: the store of tuple
    VALUES seen through the pointers of automaton `h` (`absV s h`; `none` = dead) is what the specification of independent
    values `CowHeapX.specStepX` (each call changes the value of its target only) computes from the value-level reading of
    the history – so copies stay isolated although they share map / cluster / tuple-set nodes and tuple identities. -/
theorem C11_interned_refines_values {ops : List Op} {s : Sys} (h : run .lib ops = some s) :
    absV s = (valOps CowI.init ops).foldl specStepX specInitX := by
  rw [← C11_absV_init]
  exact (runFrom_lib inv_init h).2

/-- without `addPtr` the value-level reading of the history is the call-by-call translation `valOp0` -/
theorem C11_interned_refines_values_noPtr {ops : List Op} {s : Sys} (h : run .lib ops = some s)
    (hnp : ∀ op, op ∈ ops → noPtr op = true) :
    absV s = (ops.filterMap valOp0).foldl specStepX specInitX := by
  rw [C11_interned_refines_values h, valOps_noPtr hnp h]

/-- one call in a reachable state: the values change as specified (for `addPtr`: the inserted tuple is what the pointer of
    the caller denotes at the time of the call) -/
theorem C11_interned_refines_values_step {ops : List Op} {s s' : Sys} {op : Op} (h : run .lib ops = some s)
    (hs : stepC .lib s op = some s') : absV s' = specV (absV s) (valOp s op) :=
  (stepC_lib (runFrom_lib inv_init h).1 hs).2

/-- isolation, read off: an automaton that is not the target of the call keeps its value – whatever it shares -/
theorem C11_interned_isolated {ops : List Op} {s s' : Sys} {op : Op} (h : run .lib ops = some s)
    (hs : stepC .lib s op = some s') (x : Nat)
    (hx : ∀ o, valOp s op = some o → x ∉ CowHeapX.targets o) : absV s' x = absV s x := by
  rw [C11_interned_refines_values_step h hs]
  cases hv : valOp s op with
  | none => rfl
  | some o => exact CowHeapX.specStepX_other _ o x (hx o hv)

/-- **The cache invariant under sharing.**  In every reachable state, for every cache entry `(v, id, rc)`:
    `rc` = number of tuple-set CELLS holding `id`, every live tuple-set node counted ONCE however many clusters / maps /
    automata share it, + number of outside holders (temporaries); `rc > 0`;
    and no entry dies while a live set (or a temporary) holds it: every such pointer is an entry and dereferences to its
    tuple. -/
theorem C11_interned_cache_inv {ops : List Op} {s : Sys} (h : run .lib ops = some s) :
    (∀ v id rc, (v, id, rc) ∈ s.cache → rc = (refsT s.hx.core).count id + s.ext.count id ∧ 0 < rc) ∧
    (∀ id, id ∈ refsT s.hx.core ++ s.ext → ∃ v rc, (v, id, rc) ∈ s.cache ∧ StoreI.derefC s.cache id = v) ∧
    CowHeapX.InvX s.hx := by
  have hi := (runFrom_lib inv_init h).1
  exact ⟨fun v id rc hm => use_count hi hm, fun id hid => held_is_live hi hid, hi.heap⟩

/-- **All entries die when all automata die**: when the last automaton is gone (and no temporary is left) every node of
    every level has been freed and the cache is empty – the `assert(this->empty())` of `~Cache()`.  (`s.ext = []` cannot be
    dropped: `C11_interned_holder_keeps_entry`.) -/
theorem C11_interned_no_leak {ops : List Op} {s : Sys} (h : run .lib ops = some s) (hl : s.hx.core.hl = [])
    (he : s.ext = []) : s.cache = [] ∧ s.hx.core.ml = [] ∧ s.hx.core.cl = [] ∧ s.hx.core.tl = [] := by
  have hi := (runFrom_lib inv_init h).1
  exact ⟨no_leak hi hl he, CowHeapX.no_garbageX hi.heap hl⟩

/-- a pointer held outside keeps its entry alive after the death of all automata -/
theorem C11_interned_holder_keeps_entry :
    (run .lib [.new 1, .add 1 ⟨7, [3, 4], 5⟩ 100, .envCopy 100, .destroy 1]).map
      (fun s => (s.hx.core.hl, s.cache, s.ext)) = some ([], [([3, 4], 100, 1)], [100]) := by decide

/-- two entries hold equal tuples iff they have the same address; two pointers held anywhere (in tuple sets of whatever
    automata, or outside) are equal iff the tuples they denote are equal – what makes the pointer comparison of
    `std::set<TuplePtr>` a comparison of tuples across ALL automata of the process -/
theorem C11_interned_pointer_eq_iff_tuple_eq {ops : List Op} {s : Sys} (h : run .lib ops = some s) :
    (∀ v v' id id' rc rc', (v, id, rc) ∈ s.cache → (v', id', rc') ∈ s.cache → (v = v' ↔ id = id')) ∧
    (∀ a b, a ∈ refsT s.hx.core ++ s.ext → b ∈ refsT s.hx.core ++ s.ext →
      (StoreI.derefC s.cache a = StoreI.derefC s.cache b ↔ a = b)) := by
  have hc : StoreI.CInv s.cache (refsT s.hx.core ++ s.ext) := (runFrom_lib inv_init h).1.cache
  refine ⟨?_, fun a b ha hb => ⟨fun e => hc.deref_inj ha hb e, fun e => by rw [e]⟩⟩
  intro v v' id id' rc rc' hm hm'
  constructor
  · intro e
    subst e
    have := hc.fk _ _ _ hm hm'
    simp only [Prod.mk.injEq] at this
    exact this.1
  · intro e
    subst e
    exact hc.fid _ _ _ _ _ hm hm'

/-- a call fails only on an impossible allocator choice (the address of a live tuple) -/
theorem C11_interned_total (md : Mode) (s : Sys) (op : Op)
    (h : ∀ ch, opChoice op = some ch → ch ∉ StoreI.liveIds s.cache) : (stepC md s op).isSome = true :=
  stepC_isSome md s op h

/-- the hypothesis of `C11_interned_total` is needed: the allocator cannot return the address of a live tuple -/
theorem C11_interned_total_sharp :
    run .lib [.new 1, .add 1 ⟨7, [3, 4], 5⟩ 100, .add 1 ⟨7, [4], 5⟩ 100] = none := by decide

/-- against every fair allocator (never the address of a live tuple; dead addresses may be recycled at once) every history
    runs to its end, keeps the invariants and refines the values -/
theorem C11_interned_fair_allocator {alloc : List Nat → Nat} (hf : ∀ l, alloc l ∉ l) (ops : List Op) :
    ∃ s, runA .lib alloc CowI.init ops = some s ∧ Inv' s ∧
      absV s = (valOps CowI.init (playedOps alloc CowI.init ops)).foldl specStepX specInitX := by
  obtain ⟨s, h1, h2, h3⟩ := runA_lib hf inv_init ops
  exact ⟨s, h1, h2, by rw [h3, C11_absV_init]⟩

/-- the heap component of a call of the library IS the call of the copy-on-write heap of `Vata/CowHeapX.lean` on cells
    (so all theorems of `Vata/Properties/C11*.lean` about node sharing and use counts of nodes apply verbatim) -/
theorem C11_interned_heap_is_CowHeapX {s s' : Sys} {op : Op} (hs : stepC .lib s op = some s') :
    s'.hx = match heapOp s op with
            | some o => CowHeapX.stepX s.hx o
            | none => s.hx := by
  cases op with
  | new h => simp only [stepC, Option.some.injEq] at hs; subst hs; simp [heapOp]
  | copy src dst => simp only [stepC, Option.some.injEq] at hs; subst hs; simp [heapOp]
  | setFinal h q => simp only [stepC, Option.some.injEq] at hs; subst hs; simp [heapOp]
  | assign src dst =>
    simp only [stepC, Option.some.injEq] at hs; subst hs
    rw [assign_eq]; simp [heapOp]
  | destroy h =>
    simp only [stepC, Option.some.injEq] at hs; subst hs
    rw [destroy_eq]; simp [heapOp]
  | clear h =>
    simp only [stepC, Option.some.injEq] at hs; subst hs
    rw [clear_eq]; simp [heapOp]
  | add h r ch =>
    simp only [stepC] at hs
    by_cases hh : h ∈ s.hx.core.hl
    · simp only [hh, if_true] at hs
      cases hl : StoreI.lookupC s.cache r.kids ch with
      | none => simp [hl] at hs
      | some x =>
        obtain ⟨c₁, p⟩ := x
        simp only [hl, Option.some.injEq] at hs
        subst hs
        rw [add_eq s hh]
        simp [heapOp, hl]
    · simp only [hh, if_false, Option.some.injEq] at hs
      subst hs
      cases hl : StoreI.lookupC s.cache r.kids ch <;> simp [heapOp, hl, CowHeapX.stepX, CowHeap3.step, hh]
  | addPtr h q f p =>
    simp only [stepC] at hs
    by_cases hc : h ∈ s.hx.core.hl ∧ p ∈ s.ext
    · simp only [hc, and_self, if_true, Option.some.injEq] at hs
      subst hs
      rw [add_eq s hc.1]
      simp [heapOp, hc.2]
    · simp only [hc, if_false, Option.some.injEq] at hs
      subst hs
      by_cases hp : p ∈ s.ext
      · have hh : h ∉ s.hx.core.hl := fun x => hc ⟨x, hp⟩
        simp [heapOp, hp, CowHeapX.stepX, CowHeap3.step, hh]
      · simp [heapOp, hp]
  | envLookup t ch =>
    simp only [stepC] at hs
    cases hl : StoreI.lookupC s.cache t ch with
    | none => simp [hl] at hs
    | some x => simp only [hl, Option.some.injEq] at hs; subst hs; simp [heapOp]
  | envCopy p =>
    simp only [stepC] at hs
    split at hs <;> (simp only [Option.some.injEq] at hs; subst hs; simp [heapOp])
  | envRelease p =>
    simp only [stepC] at hs
    split at hs <;> (simp only [Option.some.injEq] at hs; subst hs; simp [heapOp])

/-! ### regression and non-vacuity -/

/-- automaton 2 is a copy of automaton 1 (they share everything), gets a second rule (which clones map, cluster and tuple
    set), then automaton 1 is cleared -/
def C11_opsR : List Op :=
  [.new 1, .add 1 ⟨7, [3, 4], 5⟩ 100, .copy 1 2, .add 2 ⟨7, [4], 5⟩ 101, .clear 1]

/-- **Regression.**  A copy of the tuple set that duplicates the set WITHOUT acquiring the tuple pointers
    (`Mode.rawCopy`): the use count of the tuple `[3, 4]` stays 1 although two sets hold its address, `Clear` of the original
    destroys the entry, and the copy holds a dangling identity (its rule `7([3, 4]) → 5` reads as garbage).  The library
    keeps the entry (use count 1 after the clear) and the copy keeps both rules. -/
theorem C11_interned_regression_rawCopy :
    ((run .rawCopy C11_opsR).map (fun s => (danglingB s, invB s)) = some (true, false) ∧
     (run .rawCopy C11_opsR).map (fun s => s.cache) = some [([4], 101, 1)] ∧
     (run .rawCopy C11_opsR).map (fun s => absV s 2) = some (some ⟨[(5, [(7, [[], [4]])])], []⟩)) ∧
    ((run .lib C11_opsR).map (fun s => (danglingB s, invB s)) = some (false, true) ∧
     (run .lib C11_opsR).map (fun s => s.cache) = some [([4], 101, 1), ([3, 4], 100, 1)] ∧
     (run .lib C11_opsR).map (fun s => absV s 1) = some (some ⟨[], []⟩) ∧
     (run .lib C11_opsR).map (fun s => absV s 2) = some (some ⟨[(5, [(7, [[3, 4], [4]])])], []⟩)) := by
  refine ⟨⟨by decide, by decide, by decide⟩, ⟨by decide, by decide, by decide, by decide⟩⟩

/-- sharing is real: after the copy ONE tuple-set node holds the one pointer, the use count of the tuple is 1 (an eager copy
    would give 2), and both automata denote the same value -/
example : (run .lib (C11_opsR.take 3)).map (fun s => (s.hx.core.tl, refsT s.hx.core)) = some ([2], [100]) ∧
    (run .lib (C11_opsR.take 3)).map (fun s => s.cache) = some [([3, 4], 100, 1)] ∧
    (run .lib (C11_opsR.take 3)).map (fun s => (s.hx.core.hmap 1 == s.hx.core.hmap 2, absV s 1 == absV s 2)) =
      some (true, true) := by
  refine ⟨by decide, by decide, by decide⟩

/-- a history with a foreign pointer: the caller copies the pointer out of automaton 1, inserts it into automaton 2, drops
    it; automaton 1 dies – automaton 2 keeps the tuple alive; address 102 is fresh, 100 would be refused -/
def C11_opsP : List Op :=
  [.new 1, .add 1 ⟨7, [3, 4], 5⟩ 100, .envCopy 100, .new 2, .addPtr 2 6 8 100, .envRelease 100, .destroy 1,
   .add 2 ⟨9, [], 6⟩ 102, .setFinal 2 6]

example : (run .lib C11_opsP).map (fun s => s.cache) = some [([3, 4], 100, 1), ([], 102, 1)] ∧
    (run .lib C11_opsP).map (fun s => (refsT s.hx.core, s.ext, invB s)) = some ([102, 100], [], true) ∧
    (run .lib C11_opsP).map (fun s => absV s 1) = some none ∧
    (run .lib C11_opsP).map (fun s => absV s 2) = some (some ⟨[(6, [(8, [[3, 4]]), (9, [[]])])], [6]⟩) := by
  refine ⟨by decide, by decide, by decide, by decide⟩

/-- the hypotheses of the theorems are satisfiable: the two histories run, and the value-level reading of the second is -/
example : (run .lib C11_opsR).isSome = true ∧ (run .lib C11_opsP).isSome = true ∧
    valOps CowI.init C11_opsP =
      [.new 1, .add 1 5 (7, [3, 4]), .new 2, .add 2 6 (8, [3, 4]), .destroy 1, .add 2 6 (9, []), .setFinal 2 6] := by
  refine ⟨by decide, by decide, by rfl⟩

example : absV ((run .lib C11_opsP).getD CowI.init) 2 = some ⟨[(6, [(8, [[3, 4]]), (9, [[]])])], [6]⟩ := by decide

/-- with the recycling allocator of `Vata/StoreInterned.lean` -/
example : (runA .lib StoreI.lowAlloc CowI.init C11_opsR).map (fun s => s.cache) =
      some [([4], 1, 1), ([3, 4], 0, 1)] ∧
    (runA .lib StoreI.lowAlloc CowI.init C11_opsR).map (fun s => absV s 2) =
      some (some ⟨[(5, [(7, [[3, 4], [4]])])], []⟩) := by
  refine ⟨by decide, by decide⟩

/-!
## still not proved

* Move construction / move assignment and the storage-sharing library operations of `Vata/CowHeapX.lean` (`shareAll`,
  `shareClusters`, `unionDisj`, selective copy) are not threaded with the cache (they copy node pointers only, so the
  threading would be the identity on the cache; not done).  `ContainsTransition` (a temporary interned for the duration of
  the call) is in `Vata/StoreInterned.lean` for one automaton, not here.
* The eager-copy model of `Vata/StoreInterned.lean` (`copyOutI`) is not formally related to this one (both are proved to
  refine the value store; no theorem states "a tuple is live here iff it is live there" directly).
* `invB s = true` is proved for reachable states only as far as `InvX` and `CInv` go (`C11_interned_cache_inv`); the
  duplicate-freeness of the cache LIST that `StoreI.cacheInvB` also tests follows from the map discipline of `aset` / `adel`
  and is not proved here (it is evaluated on the examples).
* The pointer ORDER of `std::set<TuplePtr>` (iteration order depends on addresses) is abstracted to insertion order.
-/

end Vata.Props
