import Vata.Proofs.NfaLoadDumpLang
/-!
# C13 (continued) – dump and load of the explicit WORD automaton (`-r expl_fa`) through the dictionaries, as coded

> … and for every automaton in any of the four encodings, dumping it and loading the text again yields the same rules
> and final states under the same state names.

This file covers the clause for the **explicit finite (word) automaton** encoding: `ExplicitFiniteAutCore::
loadFromAutDescInternal` / `dumpToAutDescInternal` (`src/explicit_finite_aut_core.hh`) called through `LoadableAut`
(`src/loadable_aut.hh`) with the state dictionary and the alphabet `ExplicitFiniteAut::OnTheFlyAlphabet`.  The code differs
from the tree encoding (`C13_LoadDump.lean`): the alphabet's keys are symbol NAMES (no rank); a nullary rule `a -> q` makes
`q` a START state with the START SYMBOL `a` (`SetStateStart`); a unary rule `a(p) -> q` is a transition; a rule with two or more
children makes the load throw; the dump writes one nullary rule per start symbol of every start state (after the repair
`3dfc5d43`; before, a `break` kept only the first), the literal `x -> q` for a start state without symbols, and the unary rules.

## How the statement is read into the model

* **Model** (`Vata/NfaLoadDump.lean`, executable; the C++ lines are quoted there).  The automaton is a `Vata.NFAS`
  (`Vata/NfaStart.lean`: start, final, transitions as lists read as sets, and the map `startStateToSymbols_` as an association
  list), the dictionaries are the `Dict` of `Vata/LoadDump.lean` (`StateDict := Dict String`, `WSymDict := Dict String`).
  `loadNFA rtl d stateDict symDict : Except String (NFAS × StateDict × WSymDict)`; the state counter starts at 0 whatever the
  dictionary contains (same `LoadableAut` code as for trees, see `C13_prefilled_state_dictionary_clash`); `rtl` is the order in
  which the three translator calls inside `AddTransition(stateTransl(l), symbolTransl(a), stateTransl(r))` are evaluated
  (unspecified in C++; it only decides which numbers new names get) – every theorem holds for both values.
  `dumpNFA A stateDict symDict : Except String AutDesc` translates back strictly (`.error "No translation for n"` where the C++
  throws), fields in `std::set` order, no name / symbols / states.  `dumpNFAOld` is the dump with the `break`.
* **"word-automaton shaped"**: `d.WordShaped` – every rule has at most one child.  For any other description the load
  throws `"Not a finite automaton"` (`C13_nfa_load_rank2_throws`), so the hypothesis cannot be dropped.
* **"the same rules and final states under the same state names"**: `d'.final ≈ d.final ∧ d'.trans ≈ d.trans` (`≈`: the same
  set), as in `C13.lean`.
* **language**: `acceptsW A.toNFA w` (`Vata/Nfa.lean`): a word is accepted when it labels a path from a start state to a final
  state; the start symbols are not part of the word (as in `C10.lean`).  Their preservation is stated separately.
* `Dumpable A sd yd`: every state of `A` has a name in `sd`, every transition symbol and every start symbol of a start state
  a name in `yd`;  `NamesInj A sd`: different states have different names.  Both hold for a loaded automaton with the
  dictionaries the load left (used in `C13_nfa_load_dump_load_lang`), and `Dumpable` is what makes the C++ dump not throw.
-/
namespace Vata.Props
open Vata Vata.Timbuk Vata.LoadDump Vata.Dict Vata.NfaLD Vata.W

/-- **load then dump** of a word-shaped description (fresh state dictionary, an alphabet that may already be in use, either
evaluation order): the load succeeds, the dictionaries are `Ok` (injective both ways) afterwards and extend the old alphabet,
the dump with them succeeds and has the same final states and the same rules – nullary rules (all start symbols of all start
states) and unary rules – under the same names; its name, symbols and states are empty. -/
theorem C13_nfa_load_dump_roundtrip (rtl : Bool) (d : AutDesc) (yd : WSymDict) (hyd : yd.Ok) (hw : d.WordShaped) :
    ∃ A sd yd' d', loadNFA rtl d [] yd = .ok (A, sd, yd') ∧ sd.Ok ∧ yd'.Ok ∧ Dict.Sub yd yd' ∧
      dumpNFA A sd yd' = .ok d' ∧ d'.final ≈ d.final ∧ d'.trans ≈ d.trans ∧
      d'.name = "" ∧ d'.symbols = [] ∧ d'.states = [] :=
  nfa_load_dump_roundtrip rtl d yd hyd hw

/-- non-vacuity: a description with two start symbols on one start state, on an alphabet in use -/
example : NfaLDTest.dW.WordShaped ∧ Dict.Ok ([("b", 0), ("zz", 1)] : WSymDict) := ⟨by decide, by decide, by decide⟩

/-- executed: the numbers (final states first; `a`, `b` from the symbol list) and the dump -/
example : loadNFA true NfaLDTest.dW [] [] = .ok
    (⟨⟨[1], [0], [(1, 0, 0), (0, 1, 0)]⟩, [(1, [2, 3])]⟩, [("q", 0), ("p", 1)], [("a", 0), ("b", 1), ("s", 2), ("t", 3)]) ∧
    dumpNFA ⟨⟨[1], [0], [(1, 0, 0), (0, 1, 0)]⟩, [(1, [2, 3])]⟩ [("q", 0), ("p", 1)]
      [("a", 0), ("b", 1), ("s", 2), ("t", 3)] = .ok
    ⟨"", [], [], ["q"], [([], "s", "p"), ([], "t", "p"), (["p"], "a", "q"), (["q"], "b", "q")]⟩ := ⟨rfl, rfl⟩

/-- **what the loader does with a rule of rank ≥ 2**: `LoadFromAutDesc` throws `std::runtime_error ("Not a finite
automaton")` – exactly for the descriptions that are not word-shaped, whatever the dictionaries hold – and never throws
anything else.  (The exception is thrown at the first such rule in `std::set` order; the rules before it have already been
entered into the automaton and the dictionaries, which the caller – `vata` reports the error and exits – does not look at.) -/
theorem C13_nfa_load_rank2_throws (rtl : Bool) (d : AutDesc) (sd : StateDict) (yd : WSymDict) :
    (loadNFA rtl d sd yd = .error "Not a finite automaton" ↔ ¬ d.WordShaped) ∧
    (∀ e, loadNFA rtl d sd yd = .error e → e = "Not a finite automaton") :=
  nfa_load_error_iff rtl d sd yd

example : ¬ TimbukEx.exE.WordShaped := by decide

/-- **dump then load: the language and the start symbols.**  For any automaton with dictionaries that name its states
injectively and its symbols (`Dumpable`, `NamesInj`; `yd.Ok`: the alphabet as its weak translator keeps it): the dump succeeds;
loading the dumped description (fresh state dictionary, the same alphabet, either evaluation order) succeeds; the loaded
automaton accepts exactly the same words; its start states are the old ones renamed (`reName`, injective on the states), each
with exactly its old SET of start symbols – except that a start state WITHOUT symbols (such states arise from `Reverse`) comes
back with the single symbol that the name `x` has in the alphabet after the load. -/
theorem C13_nfa_dump_load_lang (rtl : Bool) (A : NFAS) (sd : StateDict) (yd : WSymDict) (hyd : yd.Ok)
    (hD : Dumpable A sd yd) (hinj : NamesInj A sd) :
    ∃ d₁ A' sd' yd', dumpNFA A sd yd = .ok d₁ ∧ loadNFA rtl d₁ [] yd = .ok (A', sd', yd') ∧
      (∀ w, acceptsW A'.toNFA w = acceptsW A.toNFA w) ∧
      NfaInjOn (reName sd sd') (nfaStates A.toNFA) ∧
      (∀ q, q ∈ A'.start ↔ q ∈ A.start.map (reName sd sd')) ∧
      (∀ s, s ∈ A.start → A.symsOf s ≠ [] → ∀ a, a ∈ A'.symsOf (reName sd sd' s) ↔ a ∈ A.symsOf s) ∧
      (∀ s, s ∈ A.start → A.symsOf s = [] → ∀ a, a ∈ A'.symsOf (reName sd sd' s) ↔ a = yd'.get "x") :=
  nfa_dump_load_lang rtl A sd yd hyd hD hinj

namespace NfaLDEx
/-- an automaton that was not loaded: states 5, 7 named `q5`, `top`; the start state 5 has two start symbols, the start state
7 none -/
def exA : NFAS := ⟨⟨[5, 7], [7], [(5, 0, 7), (7, 1, 7)]⟩, [(5, [2, 0]), (7, [])]⟩
def exSd : StateDict := [("q5", 5), ("top", 7), ("other", 1)]
def exYd : WSymDict := [("a", 0), ("b", 1), ("s", 2)]

theorem exYd_ok : exYd.Ok := ⟨by decide, by decide⟩

theorem exA_dumpable : Dumpable exA exSd exYd := by
  refine ⟨?_, ?_, ?_⟩
  · intro q hq
    have : q = 5 ∨ q = 7 := by
      simp only [nfaStates, exA, List.flatMap_cons, List.flatMap_nil, List.mem_append, List.mem_cons, List.not_mem_nil,
        or_false] at hq
      omega
    rcases this with rfl | rfl
    · exact ⟨"q5", rfl⟩
    · exact ⟨"top", rfl⟩
  · intro e he
    simp only [exA, List.mem_cons, List.not_mem_nil, or_false] at he
    rcases he with rfl | rfl
    · exact ⟨"a", rfl⟩
    · exact ⟨"b", rfl⟩
  · intro s hs a ha
    simp only [exA, List.mem_cons, List.not_mem_nil, or_false] at hs
    rcases hs with rfl | rfl
    · have : a = 2 ∨ a = 0 := by
        simp only [NFAS.symsOf, smGet, smFind, exA] at ha
        simpa using ha
      rcases this with rfl | rfl
      · exact ⟨"s", rfl⟩
      · exact ⟨"a", rfl⟩
    · simp [NFAS.symsOf, smGet, smFind, exA] at ha

theorem exA_namesInj : NamesInj exA exSd := by
  intro q q' hq hq' e
  have h1 : q = 5 ∨ q = 7 := by
    simp only [nfaStates, exA, List.flatMap_cons, List.flatMap_nil, List.mem_append, List.mem_cons, List.not_mem_nil,
      or_false] at hq
    omega
  have h2 : q' = 5 ∨ q' = 7 := by
    simp only [nfaStates, exA, List.flatMap_cons, List.flatMap_nil, List.mem_append, List.mem_cons, List.not_mem_nil,
      or_false] at hq'
    omega
  rcases h1 with rfl | rfl <;> rcases h2 with rfl | rfl
  · rfl
  · exact absurd e (by decide)
  · exact absurd e (by decide)
  · rfl
end NfaLDEx

/-- non-vacuity of `C13_nfa_dump_load_lang`, and the executed instance: `x -> top` is written for the start state without
symbols, and after the reload `top` carries the new symbol `x ↦ 3` -/
example : NfaLDEx.exYd.Ok ∧ Dumpable NfaLDEx.exA NfaLDEx.exSd NfaLDEx.exYd ∧ NamesInj NfaLDEx.exA NfaLDEx.exSd ∧
    dumpNFA NfaLDEx.exA NfaLDEx.exSd NfaLDEx.exYd = .ok
      ⟨"", [], [], ["top"], [([], "a", "q5"), ([], "s", "q5"), ([], "x", "top"), (["q5"], "a", "top"), (["top"], "b", "top")]⟩ ∧
    loadNFA true ⟨"", [], [], ["top"],
        [([], "a", "q5"), ([], "s", "q5"), ([], "x", "top"), (["q5"], "a", "top"), (["top"], "b", "top")]⟩ [] NfaLDEx.exYd = .ok
      (⟨⟨[1, 0], [0], [(1, 0, 0), (0, 1, 0)]⟩, [(1, [0, 2]), (0, [3])]⟩, [("top", 0), ("q5", 1)],
        [("a", 0), ("b", 1), ("s", 2), ("x", 3)]) :=
  ⟨NfaLDEx.exYd_ok, NfaLDEx.exA_dumpable, NfaLDEx.exA_namesInj, rfl, rfl⟩

/-- the same through the text (`DumpToString`, `LoadFromString`), when the names can be written in Timbuk -/
theorem C13_nfa_dump_text_load_lang (rtl : Bool) (A : NFAS) (sd : StateDict) (yd : WSymDict) (hyd : yd.Ok)
    (hD : Dumpable A sd yd) (hinj : NamesInj A sd)
    (hwf : (dumpOf (A.final.map (nameOf sd)) (dumpRules false sd yd A)).WellFormed) :
    ∃ txt A' sd' yd', dumpNFAString A sd yd = .ok txt ∧ loadNFAString rtl txt [] yd = .ok (A', sd', yd') ∧
      ∀ w, acceptsW A'.toNFA w = acceptsW A.toNFA w :=
  nfa_dump_load_text_lang rtl A sd yd hyd hD hinj hwf

example : (dumpOf (NfaLDEx.exA.final.map (nameOf NfaLDEx.exSd)) (dumpRules false NfaLDEx.exSd NfaLDEx.exYd NfaLDEx.exA)).WellFormed := by
  decide

/-- **the whole chain for loaded automata**: load a word-shaped description, dump, load the dump (fresh state dictionary,
the alphabet as the first load left it): the two automata accept the same words -/
theorem C13_nfa_load_dump_load_lang (rtl : Bool) (d : AutDesc) (yd : WSymDict) (hyd : yd.Ok) (hw : d.WordShaped) :
    ∃ A sd yd' d₁ A' sd' yd'', loadNFA rtl d [] yd = .ok (A, sd, yd') ∧ dumpNFA A sd yd' = .ok d₁ ∧
      loadNFA rtl d₁ [] yd' = .ok (A', sd', yd'') ∧ ∀ w, acceptsW A'.toNFA w = acceptsW A.toNFA w :=
  nfa_load_dump_load_lang rtl d yd hyd hw

example : NfaLDTest.dW.WordShaped := by decide

/-- **Regression (repair `3dfc5d43`).**  Before the repair the loop over the start symbols of a start state ended with
`break` after its first round.  For the description `s -> p, t -> p, a(p) -> q, b(q) -> q, Final q` the old dump of the loaded
automaton lacks the rule `t -> p` (the round trip of `C13_nfa_load_dump_roundtrip` fails), and reloading it gives an automaton
whose start state has lost the start symbol `t`; the current dump returns all four rules. -/
theorem C13_nfa_dump_first_symbol_only_counterexample :
    NfaLDTest.dW.WordShaped ∧
    (∃ A sd yd d', loadNFA true NfaLDTest.dW [] [] = .ok (A, sd, yd) ∧ dumpNFAOld A sd yd = .ok d' ∧
      ([], "t", "p") ∈ NfaLDTest.dW.trans ∧ ([], "t", "p") ∉ d'.trans ∧
      (∃ A' sd' yd', loadNFA true d' [] yd = .ok (A', sd', yd') ∧ A.symsOf 1 = [2, 3] ∧ A'.symsOf 1 = [2])) ∧
    (∃ A sd yd d', loadNFA true NfaLDTest.dW [] [] = .ok (A, sd, yd) ∧ dumpNFA A sd yd = .ok d' ∧
      d'.trans = [([], "s", "p"), ([], "t", "p"), (["p"], "a", "q"), (["q"], "b", "q")]) := by
  refine ⟨by decide, ⟨_, _, _, _, rfl, rfl, by decide, by decide, ⟨_, _, _, rfl, rfl, rfl⟩⟩, ⟨_, _, _, _, rfl, rfl, rfl⟩⟩

/-!
## which "not yet proved" items of `C13.lean` / `C13_LoadDump.lean` this file closes, and what remains

* closes "Dump / load of the other three encodings as coded" for the **explicit finite automaton**: `loadNFA` / `dumpNFA`
  mirror the C++ (start states = parents of nullary rules with their start symbols, the exception for rank ≥ 2, the `x`
  rule, the `break` of the old dump), load ∘ dump gives the description back, dump ∘ load preserves the language and the
  start symbols, also through the text.

## still not proved

* the two BDD encodings (`Vata/BddLoad.lean` has their loaders; the dump ∘ load statement as coded is not proved here);
* a PRE-FILLED state dictionary: `loadNFA` starts the state counter at 0 like the tree loader, so the clash of
  `C13_prefilled_state_dictionary_clash` happens here too (same `LoadableAut` code); no separate theorem;
* the exact LIST the dump returns (`std::set` order) is only characterised up to `≈` here, except on the executed examples;
* which exception text comes first when several translations are missing in a dump (hash order in the C++, list order in
  the model), and the half-filled dictionaries after the "Not a finite automaton" exception;
* the correspondence of `loadNFA` / `dumpNFA` with the C++ on generated inputs has not been run in the driver (functions to
  call: `loadNFAString true txt [] [] `, `dumpNFAString`).
-/
end Vata.Props
