import Vata.Proofs.BddLoad
/-!
# C08 / C13 (continued) – the Timbuk layer of the BDD encodings

> A Timbuk automaton loaded into either BDD encoding and dumped again denotes the same language as in the explicit
> encoding.  (C08)
> … and for every automaton in any of the four encodings, dumping it and loading the text again yields the same rules and
> final states under the same state names.  (C13)

`C08.lean` and `C08_Tables.lean` start from rule lists with symbol NUMBERS.  This file covers what lies between an
`AutDescription` and the tables, for both symbolic encodings (`-r bdd-bu`, `-r bdd-td`): `LoadableAut::LoadFromAutDesc` /
`DumpToAutDesc`, `loadFromAutDescExplicit` / `…Symbolic`, `dumpToAutDescExplicit` / `…Symbolic`, the symbol dictionary of
`SymbolicTreeAutBase::OnTheFlyAlphabet` with its 16-bit counter, the state dictionary, `addArityToSymbol`.  Composed with
the text layer of `C13.lean` (`parse_serialize`) it gives the round trips through the text.

## How the statements are read into the model

* **Model** (`Vata/BddLoad.lean`, executable; `Driver/BddLoadChk.lean` compares it with the real classes after every
  step of generated histories, kind `bddload`).  `loadBU par A sd yd d` / `loadTD …` is `LoadFromAutDesc (desc, stateDict,
  params)` into the automaton `A` on the alphabet `yd`; the result is a `Run`: the automaton (`BddAbs.Table` /
  `BddAbsTD.TableTD` and the final states), the translators (`st.sd` the state dictionary, `st.yd` the alphabet) and the
  exception `err` that ended the load (the automaton and the dictionaries are then what the C++ leaves behind).
  `dumpBU par names yd A` / `dumpTD …` is `DumpToAutDesc`, with `names = .dict sd` (`StateBackTranslStrict`) or
  `.numeric` (`Convert::ToString`).
* **The alphabet** `yd : Dict String` maps a symbol NAME to the number `k` of its allocation; the code the class stores is
  `BddAbs.symAsgn k`, the 16 low bits of `k` (`C08_load_alphabet_as_coded`).  `yd.Ok` (distinct names, `i`-th number `i`) is
  the invariant of every alphabet that loads have filled; it holds for the empty one.
* **"the same rules and final states under the same names"** is `d'.final ≈ d.final ∧ d'.trans ≈ d.trans` (`≈`: the same
  set), as in `C13.lean`.
* **Rules of a table**: `BddAbs.HasRule T ρ ks p` ("the table has `ρ(ks) → p`", `ρ` a valuation of the 16 symbol variables)
  and `BddAbsTD.HasRuleTD T ρ p ks` (`ρ` a valuation of the 16 symbol and the 6 arity variables; `bitsAr k n` = symbol `k`
  with arity prefix `n`).

## The limits of the code (answers to the questions of the task)

* **Number of symbols.**  Exactly `2^16 = 65 536` names per alphabet (which is process-wide for the library's
  `globalAlphabet_`).  The 65 537th name gets the code of the FIRST name again (`operator++` drops the carry), the load
  succeeds, the library only logs `backward mapping for … already found`; from then on the dump lists every transition
  under all names that share its code (`C08_load_dump_exact`, `C08_load_alphabet_wraps`).  Confirmed on the real library
  (`bddload` cases with the step `F:65535:1024:0`).
* **Arity.**  None for the round trip, in either encoding: bottom-up the arity is the length of the key tuple; top-down
  `addArityToSymbol` keeps the 6 low bits of the arity (the `assert` is compiled out) and the dump ignores the arity
  variables, so transitions with 64, 65, 128 children come back (`C08_load_dump_roundtrip` has no arity hypothesis).  What
  breaks at 64 is the SEPARATION by the prefix: the rule with 64 children sits under the prefix of arity 0
  (`C08_load_arity_prefix`), where `GetMtbddForArity (mtbdd, 0)` – used by the top-down inclusion, intersection and
  simulation code – finds it among the leaf rules.
* **Equal names, different arities**: ONE symbol (the dictionary is keyed by the name, `ToStringSymbolType` drops the
  rank); no `Ranked` hypothesis is needed anywhere (`C08_load_names_not_ranks`).
* **Don't-care positions in the dump.**  The explicit dump emits one rule per NAME of the alphabet whose code lies in the
  cube (for symbolically loaded rules: possibly several names, possibly none); the symbolic dump emits one rule per PATH of
  the MTBDD (per parent state in its leaf), not per concrete symbol – and cuts the path at the variable of the root
  (`C08_load_symbolic_roundtrip_fails`).
-/
namespace Vata.Props
open Vata Vata.Timbuk Vata.Dict Vata.M Vata.BddAbs Vata.BddAbsTD Vata.BddLoad

/-- **load, then dump** – both encodings.  A description loaded with the explicit parameter into a new automaton with a
fresh state dictionary, on an alphabet that may be in use but holds at most `2^16` names after the load: the load does
not throw, the dump with the dictionaries of the load succeeds and has the same final states and the same transitions
under the same names; `name` and `symbols` are empty; `states` lists the final states and the children (bottom-up; a
state that is only a parent is NOT listed) resp. all states (top-down).  No hypothesis on ranks or arities. -/
theorem C08_load_dump_roundtrip (d : AutDesc) (yd : BddLoad.SymDict) (hyd : yd.Ok) :
    ((loadBU .explicit {} [] yd d).st.yd.length ≤ symbolCodes →
      ∃ d', dumpBU .explicit (.dict (loadBU .explicit {} [] yd d).st.sd) (loadBU .explicit {} [] yd d).st.yd
          (loadBU .explicit {} [] yd d).aut = .ok d' ∧ (loadBU .explicit {} [] yd d).err = none ∧
        d'.final ≈ d.final ∧ d'.trans ≈ d.trans ∧ d'.states ≈ d.final ++ d.trans.flatMap (·.1) ∧
        d'.name = "" ∧ d'.symbols = []) ∧
    ((loadTD .explicit {} [] yd d).st.yd.length ≤ symbolCodes →
      ∃ d', dumpTD .explicit (.dict (loadTD .explicit {} [] yd d).st.sd) (loadTD .explicit {} [] yd d).st.yd
          (loadTD .explicit {} [] yd d).aut = .ok d' ∧ (loadTD .explicit {} [] yd d).err = none ∧
        d'.final ≈ d.final ∧ d'.trans ≈ d.trans ∧ d'.states ≈ d.final ++ d.trans.flatMap (fun t => t.2.2 :: t.1) ∧
        d'.name = "" ∧ d'.symbols = []) :=
  ⟨load_dump_bu d yd hyd, load_dump_td d yd hyd⟩

/-- `exD`: `f` with 2 and 3 children, `a` with 0 and 1, duplicates, a final state in no transition; an alphabet in use -/
example : BddLoadEx.ydUsed.Ok ∧ (loadBU .explicit {} [] BddLoadEx.ydUsed BddLoadEx.exD).st.yd.length ≤ symbolCodes ∧
    (loadTD .explicit {} [] BddLoadEx.ydUsed BddLoadEx.exD).st.yd.length ≤ symbolCodes :=
  ⟨BddLoadEx.ydUsed_ok, BddLoadEx.exD_bound_bu, BddLoadEx.exD_bound_td⟩
/-- executed: the parent is numbered before the children (`r ↦ 0` from the final states, `lonely ↦ 1`, `q ↦ 2`); `f` is
the 4th name of the alphabet, `a` was there -/
example : (loadBU .explicit {} [] BddLoadEx.ydUsed BddLoadEx.exD).st.sd = [("r", 0), ("lonely", 1), ("q", 2)] ∧
    (loadBU .explicit {} [] BddLoadEx.ydUsed BddLoadEx.exD).st.yd = [("g", 0), ("a", 1), ("h", 2), ("f", 3)] := by
  decide +kernel

/-- **what the dump of a loaded automaton is, exactly** – no bound on the alphabet.  The dump succeeds, has the final
states of the description, and lists every transition of the description under EVERY name of the alphabet whose
allocation number has the same 16 low bits as that of its symbol (`k % 2^16`: the same code).  Within `2^16` names that is
the symbol itself (`C08_load_dump_roundtrip`); beyond, names share codes. -/
theorem C08_load_dump_exact (d : AutDesc) (yd : BddLoad.SymDict) (hyd : yd.Ok) :
    (∃ d', dumpBU .explicit (.dict (loadBU .explicit {} [] yd d).st.sd) (loadBU .explicit {} [] yd d).st.yd
        (loadBU .explicit {} [] yd d).aut = .ok d' ∧ (loadBU .explicit {} [] yd d).err = none ∧ d'.final ≈ d.final ∧
      (∀ x, x ∈ d'.trans ↔ ∃ t, t ∈ d.trans ∧ ∃ f k, (f, k) ∈ (loadBU .explicit {} [] yd d).st.yd ∧
        k % 2 ^ 16 = (loadBU .explicit {} [] yd d).st.yd.get t.2.1 % 2 ^ 16 ∧ x = (t.1, f, t.2.2))) ∧
    (∃ d', dumpTD .explicit (.dict (loadTD .explicit {} [] yd d).st.sd) (loadTD .explicit {} [] yd d).st.yd
        (loadTD .explicit {} [] yd d).aut = .ok d' ∧ (loadTD .explicit {} [] yd d).err = none ∧ d'.final ≈ d.final ∧
      (∀ x, x ∈ d'.trans ↔ ∃ t, t ∈ d.trans ∧ ∃ f k, (f, k) ∈ (loadTD .explicit {} [] yd d).st.yd ∧
        k % 2 ^ 16 = (loadTD .explicit {} [] yd d).st.yd.get t.2.1 % 2 ^ 16 ∧ x = (t.1, f, t.2.2))) := by
  obtain ⟨d₁, a1, a2, a3, a4, _⟩ := dump_load_bu_exact d yd hyd
  obtain ⟨d₂, b1, b2, b3, b4, _⟩ := dump_load_td_exact d yd hyd
  exact ⟨⟨d₁, a1, a2, a3, a4⟩, ⟨d₂, b1, b2, b3, b4⟩⟩

example : (fillAlphabet 70000).Ok := fillAlphabet_ok _

/-- **Finding (limit of the code): the 65 537th symbol.**  On an alphabet that holds `2^16` names more than the number `k`
of the name `a` – e.g. exactly `2^16` names and `a` the first one – a new name `b` gets the code of `a`.  The load of
`b -> q` succeeds, and the dump of the loaded automaton contains `a -> q` besides `b -> q`: a transition the description
does not have, under a symbol it does not mention.  Both encodings.  (The alphabet of the library is global: the limit is
on all symbol names a process ever loads into BDD automata.) -/
theorem C08_load_alphabet_wraps (yd : BddLoad.SymDict) (hyd : yd.Ok) (a b q : String) (k : Nat) (ha : (a, k) ∈ yd)
    (hb : b ∉ yd.keys) (hlen : yd.length = k + symbolCodes) :
    (∃ d', dumpBU .explicit (.dict (loadBU .explicit {} [] yd (leafDesc b q)).st.sd)
        (loadBU .explicit {} [] yd (leafDesc b q)).st.yd (loadBU .explicit {} [] yd (leafDesc b q)).aut = .ok d' ∧
      ([], b, q) ∈ d'.trans ∧ ([], a, q) ∈ d'.trans ∧ ([], a, q) ∉ (leafDesc b q).trans) ∧
    (∃ d', dumpTD .explicit (.dict (loadTD .explicit {} [] yd (leafDesc b q)).st.sd)
        (loadTD .explicit {} [] yd (leafDesc b q)).st.yd (loadTD .explicit {} [] yd (leafDesc b q)).aut = .ok d' ∧
      ([], b, q) ∈ d'.trans ∧ ([], a, q) ∈ d'.trans ∧ ([], a, q) ∉ (leafDesc b q).trans) ∧
    symAsgn (k + symbolCodes) = symAsgn k :=
  ⟨alias_at_wrap_bu yd hyd q ha hb hlen, alias_at_wrap_td yd hyd q ha hb hlen, symAsgn_wrap k⟩

/-- an alphabet of exactly `2^16` names whose first name is `""`, and the new name `b` -/
example : (fillAlphabet symbolCodes).Ok ∧ (fillAlphabet symbolCodes).length = 0 + symbolCodes ∧
    ("", 0) ∈ fillAlphabet symbolCodes ∧ "b" ∉ (fillAlphabet symbolCodes).keys := alias_at_wrap_instance

/-- **equal names with different arities are ONE symbol.**  The cube of a transition's symbol depends on the symbol NAME
alone; two transitions with the same name and any numbers of children are stored under the same symbol code `k`
(bottom-up under their two tuples, top-down under their two arity prefixes); two transitions with different names get
different numbers and – on an alphabet within `2^16` names – disjoint cubes. -/
theorem C08_load_names_not_ranks (d : AutDesc) (yd : BddLoad.SymDict) (hyd : yd.Ok) (t t' : BddLoad.Trans) (ht : t ∈ d.trans)
    (ht' : t' ∈ d.trans) :
    (t.2.1 = t'.2.1 →
      (∃ k, HasRule (loadBU .explicit {} [] yd d).aut.tbl (bits k)
          (t.1.map (loadBU .explicit {} [] yd d).st.sd.get) ((loadBU .explicit {} [] yd d).st.sd.get t.2.2) ∧
        HasRule (loadBU .explicit {} [] yd d).aut.tbl (bits k)
          (t'.1.map (loadBU .explicit {} [] yd d).st.sd.get) ((loadBU .explicit {} [] yd d).st.sd.get t'.2.2)) ∧
      (∃ k, HasRuleTD (loadTD .explicit {} [] yd d).aut.tbl (bitsAr k (t.1.length % 64))
          ((loadTD .explicit {} [] yd d).st.sd.get t.2.2) (t.1.map (loadTD .explicit {} [] yd d).st.sd.get) ∧
        HasRuleTD (loadTD .explicit {} [] yd d).aut.tbl (bitsAr k (t'.1.length % 64))
          ((loadTD .explicit {} [] yd d).st.sd.get t'.2.2) (t'.1.map (loadTD .explicit {} [] yd d).st.sd.get))) ∧
    (t.2.1 ≠ t'.2.1 →
      (loadBU .explicit {} [] yd d).st.yd.get t.2.1 ≠ (loadBU .explicit {} [] yd d).st.yd.get t'.2.1 ∧
      ((loadBU .explicit {} [] yd d).st.yd.length ≤ symbolCodes → ∀ ρ,
        ¬ (agrees ρ (cube .explicit (loadBU .explicit {} [] yd d).st t) 0 = true ∧
           agrees ρ (cube .explicit (loadBU .explicit {} [] yd d).st t') 0 = true))) :=
  ⟨fun h => ⟨unranked_one_symbol_bu d yd hyd ht ht' h, unranked_one_symbol_td d yd hyd ht ht' h⟩,
   fun h => different_names_different_codes d yd hyd ht ht' h⟩

/-- `f(q, q) -> r` and `f(q, r, q) -> r` of `exD` -/
example : ((["q", "q"], "f", "r") : BddLoad.Trans) ∈ BddLoadEx.exD.trans ∧ ((["q", "r", "q"], "f", "r") : BddLoad.Trans) ∈ BddLoadEx.exD.trans ∧
    ¬ BddLoadEx.exD.Ranked := by decide

/-- **the arity prefix keeps rules of different arity apart in the top-down table** (either parameter): two rules that
the loaded table holds for the same valuation of the 22 variables have the same number of children modulo 64 – the same
number when every transition has fewer than 64 children.  **At 64** the separation fails: the rule of a transition with
64 children is stored under the arity prefix 0 (`addArityToSymbol` keeps the 6 low bits; the assertion
`arity <= MAX_SYMBOL_ARITY` is compiled out), together with the leaf rules. -/
theorem C08_load_arity_prefix (par : Param) (d : AutDesc) (yd : BddLoad.SymDict) (hyd : yd.Ok) :
    (∀ ρ p p' ks ks', HasRuleTD (loadTD par {} [] yd d).aut.tbl ρ p ks → HasRuleTD (loadTD par {} [] yd d).aut.tbl ρ p' ks' →
      ks.length % 64 = ks'.length % 64) ∧
    ((∀ t, t ∈ d.trans → t.1.length < arityCodes) →
      ∀ ρ p p' ks ks', HasRuleTD (loadTD par {} [] yd d).aut.tbl ρ p ks → HasRuleTD (loadTD par {} [] yd d).aut.tbl ρ p' ks' →
        ks.length = ks'.length) ∧
    (∀ t, t ∈ d.trans → t.1.length = 64 →
      HasRuleTD (loadTD .explicit {} [] yd d).aut.tbl (bitsAr ((loadTD .explicit {} [] yd d).st.yd.get t.2.1) 0)
        ((loadTD .explicit {} [] yd d).st.sd.get t.2.2) (t.1.map (loadTD .explicit {} [] yd d).st.sd.get) ∧
      (t.1.map (loadTD .explicit {} [] yd d).st.sd.get).length = 64) :=
  ⟨fun _ _ _ _ _ h h' => td_arity_mod par d yd hyd h h', fun har _ _ _ _ _ h h' => td_arity_disjoint par d yd hyd har h h',
   fun _ ht h64 => td_arity_64_collides d yd hyd ht h64⟩

/-- `ex64`: the leaf rule `a -> q` and `f(q, …, q) -> q` with 64 children share the arity prefix 0 -/
example : ((List.replicate 64 "q", "f", "q") : BddLoad.Trans) ∈ BddLoadEx.ex64.trans ∧
    (List.replicate 64 "q").length = 64 ∧ (([], "a", "q") : BddLoad.Trans) ∈ BddLoadEx.ex64.trans := by decide

/-- **the reader of the arity prefix**, `BDDTDTreeAutCore::GetMtbddForArity (GetMtbdd (p), n)` (`tuplesForArity`: the tuples
in the leaves of `GetMtbddForPrefix (SymbolicVarAsgn (6, n), 16)`; the top-down inclusion, intersection and simulation
code reads the table through it): of a loaded table it shows only tuples with `n` children modulo 64, and it shows the
tuple of every transition under the prefix of its number of children modulo 64 – 64 children under 0, 65 under 1. -/
theorem C08_load_arity_reader (par : Param) (d : AutDesc) (yd : BddLoad.SymDict) (hyd : yd.Ok) :
    (∀ p n ks, ks ∈ tuplesForArity (loadTD par {} [] yd d).aut.tbl p n → ks.length % 64 = n % 64) ∧
    (∀ t, t ∈ d.trans → t.1.map (loadTD .explicit {} [] yd d).st.sd.get ∈
      tuplesForArity (loadTD .explicit {} [] yd d).aut.tbl ((loadTD .explicit {} [] yd d).st.sd.get t.2.2)
        (t.1.length % 64)) :=
  ⟨fun _ _ _ h => tuplesForArity_mod par d yd hyd h, fun _ ht => tuplesForArity_of_trans d yd hyd ht⟩

/-- executed on `ex64`: under the prefix 0 the leaf rule and the rule with 64 children, nothing under 1 -/
example : arityLens (loadTD .explicit {} [] [] BddLoadEx.ex64).aut 0 = [0, 64] ∧
    arityLens (loadTD .explicit {} [] [] BddLoadEx.ex64).aut 1 = [] := by decide +kernel

/-- **the order of the rules does not matter.**  Two descriptions with the same sets of final states and transitions
(permutations of each other, repetitions allowed), loaded with the explicit parameter from the same alphabet on fresh
state dictionaries (alphabets within `2^16` names afterwards): the tree automaton that the second table denotes
(`absBU` / `absTD` over all symbols of the alphabet) accepts exactly the `g`-renamed trees of the first, where `g` is the
bijection of the symbol numbers that translates the first numbering to the second, name by name.  Top-down: transitions
with fewer than 64 children (`absTD` reads the rules off the arity prefixes `0 … 63`).  And the two encodings of one
description denote the same language. -/
theorem C08_load_order_independent (d₁ d₂ : AutDesc) (yd : BddLoad.SymDict) (hyd : yd.Ok) (hf : d₁.final ≈ d₂.final)
    (ht : d₁.trans ≈ d₂.trans) :
    ((loadBU .explicit {} [] yd d₁).st.yd.length ≤ symbolCodes → (loadBU .explicit {} [] yd d₂).st.yd.length ≤ symbolCodes →
      ∃ g, (Function.Injective g ∧ Function.Surjective g) ∧
        (∀ k, k ∈ (loadBU .explicit {} [] yd d₁).st.yd.keys →
          g ((loadBU .explicit {} [] yd d₁).st.yd.get k) = (loadBU .explicit {} [] yd d₂).st.yd.get k) ∧
        ∀ t, accepts (absBU (loadBU .explicit {} [] yd d₂).st.yd.vals (loadBU .explicit {} [] yd d₂).aut.tbl
            (loadBU .explicit {} [] yd d₂).aut.fin) (t.mapSyms g) =
          accepts (absBU (loadBU .explicit {} [] yd d₁).st.yd.vals (loadBU .explicit {} [] yd d₁).aut.tbl
            (loadBU .explicit {} [] yd d₁).aut.fin) t) ∧
    ((loadTD .explicit {} [] yd d₁).st.yd.length ≤ symbolCodes → (loadTD .explicit {} [] yd d₂).st.yd.length ≤ symbolCodes →
      (∀ t, t ∈ d₁.trans → t.1.length < arityCodes) →
      ∃ g, (Function.Injective g ∧ Function.Surjective g) ∧
        (∀ k, k ∈ (loadTD .explicit {} [] yd d₁).st.yd.keys →
          g ((loadTD .explicit {} [] yd d₁).st.yd.get k) = (loadTD .explicit {} [] yd d₂).st.yd.get k) ∧
        ∀ t, accepts (absTD (loadTD .explicit {} [] yd d₂).st.yd.vals (loadTD .explicit {} [] yd d₂).aut.tbl
            (loadTD .explicit {} [] yd d₂).aut.fin) (t.mapSyms g) =
          accepts (absTD (loadTD .explicit {} [] yd d₁).st.yd.vals (loadTD .explicit {} [] yd d₁).aut.tbl
            (loadTD .explicit {} [] yd d₁).aut.fin) t) ∧
    ((loadBU .explicit {} [] yd d₁).st.yd.length ≤ symbolCodes → (∀ t, t ∈ d₁.trans → t.1.length < arityCodes) →
      ∀ t, accepts (absTD (loadTD .explicit {} [] yd d₁).st.yd.vals (loadTD .explicit {} [] yd d₁).aut.tbl
          (loadTD .explicit {} [] yd d₁).aut.fin) t =
        accepts (absBU (loadBU .explicit {} [] yd d₁).st.yd.vals (loadBU .explicit {} [] yd d₁).aut.tbl
          (loadBU .explicit {} [] yd d₁).aut.fin) t) :=
  ⟨fun h1 h2 => load_perm_lang_bu d₁ d₂ yd hyd hf ht h1 h2, fun h1 h2 har => load_perm_lang_td d₁ d₂ yd hyd hf ht h1 h2 har,
   fun h1 har t => bu_td_same_lang d₁ yd hyd h1 har t⟩

example : BddLoadEx.exD.final ≈ BddLoadEx.exD'.final ∧ BddLoadEx.exD.trans ≈ BddLoadEx.exD'.trans ∧
    (loadBU .explicit {} [] BddLoadEx.ydUsed BddLoadEx.exD').st.yd.length ≤ symbolCodes ∧
    (loadTD .explicit {} [] BddLoadEx.ydUsed BddLoadEx.exD').st.yd.length ≤ symbolCodes ∧
    (∀ t, t ∈ BddLoadEx.exD.trans → t.1.length < arityCodes) :=
  ⟨BddLoadEx.exD_exD'.1, BddLoadEx.exD_exD'.2, BddLoadEx.exD'_bound_bu, BddLoadEx.exD'_bound_td, by decide⟩
/-- the two loads number the states differently (`r ↦ 0, lonely ↦ 1, q ↦ 2` against `lonely ↦ 0, r ↦ 1, q ↦ 2`) -/
example : (loadBU .explicit {} [] BddLoadEx.ydUsed BddLoadEx.exD').st.sd = [("lonely", 0), ("r", 1), ("q", 2)] := by
  decide +kernel

/-- **dump, load, dump.**  The explicit dump of a loaded automaton, loaded again (explicit parameter, fresh state
dictionary, the alphabet as it is) and dumped: the same final states and transitions – as long as the alphabet holds at
most `2^16` names at the end.  With `C13.lean` (`parse_serialize`; the dump of a description with good names is well
formed) this is the round trip "dumping it and loading the text again" for the two BDD encodings. -/
theorem C08_load_dump_reload (d : AutDesc) (yd : BddLoad.SymDict) (hyd : yd.Ok) :
    (∃ d', dumpBU .explicit (.dict (loadBU .explicit {} [] yd d).st.sd) (loadBU .explicit {} [] yd d).st.yd
        (loadBU .explicit {} [] yd d).aut = .ok d' ∧
      ((loadBU .explicit {} [] (loadBU .explicit {} [] yd d).st.yd d').st.yd.length ≤ symbolCodes →
        ∃ d'', dumpBU .explicit (.dict (loadBU .explicit {} [] (loadBU .explicit {} [] yd d).st.yd d').st.sd)
            (loadBU .explicit {} [] (loadBU .explicit {} [] yd d).st.yd d').st.yd
            (loadBU .explicit {} [] (loadBU .explicit {} [] yd d).st.yd d').aut = .ok d'' ∧
          d''.final ≈ d'.final ∧ d''.trans ≈ d'.trans ∧ d''.final ≈ d.final ∧ d''.trans ≈ d.trans)) ∧
    (∃ d', dumpTD .explicit (.dict (loadTD .explicit {} [] yd d).st.sd) (loadTD .explicit {} [] yd d).st.yd
        (loadTD .explicit {} [] yd d).aut = .ok d' ∧
      ((loadTD .explicit {} [] (loadTD .explicit {} [] yd d).st.yd d').st.yd.length ≤ symbolCodes →
        ∃ d'', dumpTD .explicit (.dict (loadTD .explicit {} [] (loadTD .explicit {} [] yd d).st.yd d').st.sd)
            (loadTD .explicit {} [] (loadTD .explicit {} [] yd d).st.yd d').st.yd
            (loadTD .explicit {} [] (loadTD .explicit {} [] yd d).st.yd d').aut = .ok d'' ∧
          d''.final ≈ d'.final ∧ d''.trans ≈ d'.trans ∧ d''.final ≈ d.final ∧ d''.trans ≈ d.trans)) :=
  ⟨reload_dump_bu d yd hyd, reload_dump_td d yd hyd⟩

/-- executed through the text (`step`: dump, `serialize`, `parseTimbuk`, load): the reloaded automaton 1 dumps as 0 does -/
example : (let w := BddLoad.run {} [.loadDesc true true .explicit BddLoadEx.exD, .reload 0 .explicit]
    (w.objs.map (fun o => (dumpObj w.yd o .explicit).toOption.map (fun d => (d.final, d.trans))))) =
    [some (["lonely", "r"], [([], "a", "q"), (["q", "q"], "f", "r"), (["q", "r", "q"], "f", "r"), (["r"], "a", "q")]),
     some (["lonely", "r"], [([], "a", "q"), (["q", "q"], "f", "r"), (["q", "r", "q"], "f", "r"), (["r"], "a", "q")])] := by
  decide +kernel

/-- **the loaded tables, for every valuation and either parameter, exceptions included.**  After `LoadFromAutDesc` (fresh
state dictionary) into an automaton `A` the table holds the old rules and, for every transition that was loaded – all
of them, or those before the first one whose symbol `loadFromAutDescSymbolic` rejects (`loaded`) –, the rules
`ρ(children) → parent` for the valuations `ρ` in the cube of its symbol (`cube`: the code of its name, or the assignment
its 16 characters spell); top-down with the number of children in the arity variables.  The exception is that of the
rejected symbol; the symbolic parameter leaves the alphabet alone. -/
theorem C08_load_tables (par : Param) (yd : BddLoad.SymDict) (hyd : yd.Ok) (d : AutDesc) :
    (∀ (A : AutBU) ρ ks p, HasRule (loadBU par A [] yd d).aut.tbl ρ ks p ↔ HasRule A.tbl ρ ks p ∨
      ∃ t, t ∈ (loaded par d.trans).1 ∧ t.1.map (loadBU par A [] yd d).st.sd.get = ks ∧
        (loadBU par A [] yd d).st.sd.get t.2.2 = p ∧ agrees ρ (cube par (loadBU par A [] yd d).st t) 0 = true) ∧
    (∀ (A : AutTD) ρ p ks, HasRuleTD (loadTD par A [] yd d).aut.tbl ρ p ks ↔ HasRuleTD A.tbl ρ p ks ∨
      ∃ t, t ∈ (loaded par d.trans).1 ∧ t.1.map (loadTD par A [] yd d).st.sd.get = ks ∧
        (loadTD par A [] yd d).st.sd.get t.2.2 = p ∧ agrees ρ (cube par (loadTD par A [] yd d).st t) 0 = true ∧
        arOK ρ ks.length = true) ∧
    (∀ (A : AutBU), (loadBU par A [] yd d).err = (loaded par d.trans).2.map (·.2) ∧
      (par = .explicit → (loadBU par A [] yd d).err = none) ∧ (par = .symbolic → (loadBU par A [] yd d).st.yd = yd)) ∧
    (∀ (A : AutBU) (B : AutTD) sd, (loadBU par A sd yd d).st = (loadTD par B sd yd d).st ∧
      (loadBU par A sd yd d).err = (loadTD par B sd yd d).err) :=
  ⟨fun A ρ ks p => hasRule_loadBU par A yd hyd d ρ ks p, fun A ρ p ks => hasRuleTD_loadTD par A yd hyd d ρ p ks,
   fun A => loadBU_err par A yd hyd d, fun A B sd => loadBU_st_eq_loadTD par A B sd yd d⟩

/-- `exSBad`: the second transition in the list has the symbol `01`: the first is loaded, the exception is the size error -/
example : (loaded .symbolic BddLoadEx.exSBad.trans).1 = [([], "0000000000000000", "q")] ∧
    (loadBU .symbolic {} [] [] BddLoadEx.exSBad).err = some (errSymbolSize "01") ∧
    (loadBU .symbolic {} [] [] BddLoadEx.exSBad).st.sd = [("q", 0), ("p", 1)] := by decide +kernel

/-- **the symbolic parameter: what load and dump denote** (bottom-up).  (1) A description whose symbols are all accepted
(16 characters out of `0 1 X`), loaded with the symbolic parameter into a new automaton with a fresh state dictionary:
the alphabet is not touched, the symbolic dump succeeds, has the same final states and denotes the same rules – for every
valuation `ρ` of the 16 symbol variables, the (children, parent) pairs of the dumped transitions whose symbol string has
`ρ` in its cube (a string of whatever length, don't-care beyond its end) are those of the transitions of the description
whose symbol has.  (2) For ANY bottom-up automaton with a well-formed table the symbolic dump denotes the table. -/
theorem C08_load_symbolic_denotation (d : AutDesc) (yd : BddLoad.SymDict) (hyd : yd.Ok) (hv : SymValid d) :
    (∃ d', dumpBU .symbolic (.dict (loadBU .symbolic {} [] yd d).st.sd) (loadBU .symbolic {} [] yd d).st.yd
        (loadBU .symbolic {} [] yd d).aut = .ok d' ∧
      (loadBU .symbolic {} [] yd d).err = none ∧ (loadBU .symbolic {} [] yd d).st.yd = yd ∧
      d'.final ≈ d.final ∧ d'.name = "" ∧ d'.symbols = [] ∧
      ∀ (ρ : Nat → Bool) (ks : List String) (p : String),
        (∃ f a, (ks, f, p) ∈ d'.trans ∧ cubeOfStr f = some a ∧ agrees ρ a 0 = true) ↔
        (∃ t a, t ∈ d.trans ∧ t.1 = ks ∧ t.2.2 = p ∧ symOfStr t.2.1 = .ok a ∧ agrees ρ a 0 = true)) ∧
    (∀ (A : AutBU), TableOk A.tbl → TableWF A.tbl → ∀ ρ ks p, HasRule A.tbl ρ ks p ↔
      ∃ f a, (ks, f, p) ∈ (rawSymBU A).trans ∧ cubeOfStr f = some a ∧ agrees ρ a 0 = true) :=
  ⟨sym_load_dump_denotes d yd hyd hv, fun _ hT hW ρ ks p => sym_dump_denotes hT hW ρ ks p⟩

example : SymValid BddLoadEx.exS := BddLoadEx.exS_valid
/-- executed: the cubes `0X0…01` and `1X0…01` of `exS` stay apart (different tuples), every path has 16 characters -/
example : (dumpBU .symbolic (.dict (loadBU .symbolic {} [] [] BddLoadEx.exS).st.sd) [] (loadBU .symbolic {} [] [] BddLoadEx.exS).aut).toOption.map
    (·.trans) = some [([], "0000000000000000", "q"), (["p"], "1X00000000000001", "q"), (["q", "q"], "0X00000000000001", "p")] := by
  decide +kernel

/-- **symbolic dump, symbolic load – partial.**  The round trip through the symbolic format holds for the dumps all of
whose symbols have the full 16 characters: then `loadFromAutDescSymbolic` accepts the dumped description (same alphabet,
fresh state dictionary), and the symbolic dump of the reloaded automaton has the same final states and denotes the same
rules as the original description. -/
theorem C08_load_symbolic_roundtrip_partial (d : AutDesc) (yd : BddLoad.SymDict) (hyd : yd.Ok) (hv : SymValid d) :
    ∃ d', dumpBU .symbolic (.dict (loadBU .symbolic {} [] yd d).st.sd) (loadBU .symbolic {} [] yd d).st.yd
        (loadBU .symbolic {} [] yd d).aut = .ok d' ∧
      ((∀ x, x ∈ d'.trans → x.2.1.toList.length = 16) →
        ∃ d'', (loadBU .symbolic {} [] yd d').err = none ∧
          dumpBU .symbolic (.dict (loadBU .symbolic {} [] yd d').st.sd) (loadBU .symbolic {} [] yd d').st.yd
            (loadBU .symbolic {} [] yd d').aut = .ok d'' ∧
          d''.final ≈ d.final ∧
          ∀ (ρ : Nat → Bool) (ks : List String) (p : String),
            (∃ f a, (ks, f, p) ∈ d''.trans ∧ cubeOfStr f = some a ∧ agrees ρ a 0 = true) ↔
            (∃ t a, t ∈ d.trans ∧ t.1 = ks ∧ t.2.2 = p ∧ symOfStr t.2.1 = .ok a ∧ agrees ρ a 0 = true)) :=
  sym_roundtrip_partial d yd hyd hv

/-- `exS` satisfies the hypothesis (see the executed dump above) -/
example : SymValid BddLoadEx.exS := BddLoadEx.exS_valid

/-- **Finding: the symbolic dump of the bottom-up encoding does not round-trip; the top-down encoding has none.**
`GetPaths` starts from the empty assignment and extends it only up to the variable of the ROOT of the MTBDD
(`AddVariablesUpTo`), so `dumpToAutDescSymbolic` prints symbols SHORTER than `SYMBOL_SIZE` whenever the highest variables
are don't-cares: the rule `XXXXXXXXXXXXXXXX -> q` is dumped with the EMPTY symbol (the Timbuk parser rejects the line
` -> q`), `01XXXXXXXXXXXXXX(p) -> q` as `01(p) -> q` (`loadFromAutDescSymbolic` throws `Invalid symbols size (symbol =
01).  The symbol size needs to be 16.`).  `BDDTDTreeAutCore::dumpToAutDescSymbolic` throws `NotImplementedException`. -/
theorem C08_load_symbolic_roundtrip_fails :
    SymValid exAllX ∧ SymValid exHighX ∧
    (dumpBU .symbolic (.dict (loadBU .symbolic {} [] [] exAllX).st.sd) [] (loadBU .symbolic {} [] [] exAllX).aut).toOption.map
        (·.trans) = some [([], "", "q")] ∧
    (loadBU .symbolic {} [] [] { exAllX with trans := [([], "", "q")] }).err = some (errSymbolSize "") ∧
    (dumpBU .symbolic (.dict (loadBU .symbolic {} [] [] exHighX).st.sd) [] (loadBU .symbolic {} [] [] exHighX).aut).toOption.map
        (·.trans) = some [(["p"], "01", "q")] ∧
    (loadBU .symbolic {} [] [] { exHighX with trans := [(["p"], "01", "q")] }).err = some (errSymbolSize "01") ∧
    (BddLoad.step (BddLoad.run {} [.loadDesc true true .symbolic exAllX]) (.reload 0 .symbolic)).2 =
      some ("Error: 'parse_timbuk: invalid transition \" -> q\"' while parsing \n" ++
        "Ops \nAutomaton anonymous\nStates q \nFinal States q \nTransitions\n -> q\n") ∧
    (BddLoad.step (BddLoad.run {} [.loadDesc true true .symbolic exHighX]) (.reload 0 .symbolic)).2 = some (errSymbolSize "01") ∧
    (∀ nm yd A, dumpTD .symbolic nm yd A = .error errNotImplSymbolicTD) :=
  ⟨exAllX_valid, exHighX_valid, sym_roundtrip_fails.1, sym_roundtrip_fails.2.1, sym_roundtrip_fails.2.2.1,
   sym_roundtrip_fails.2.2.2, sym_roundtrip_fails_text.1, sym_roundtrip_fails_text.2, fun _ _ _ => rfl⟩

/-- **the numbering** (both encodings, both parameters): the translators keep their invariants, translate exactly the
state names of the final states and of the loaded transitions (parent first) and – with the explicit parameter – the
symbol names of the loaded transitions; the automaton is the result of `AddTransition` for the loaded transitions under
the dictionaries the load leaves. -/
theorem C08_load_numbering {τ : Type} (setFinal : τ → Nat → τ) (add : τ → CRule → τ) (par : Param) (A : τ) (yd : BddLoad.SymDict)
    (hyd : yd.Ok) (d : AutDesc) :
    Step ⟨[], 0, yd⟩ (loadDesc setFinal add par A ⟨[], 0, yd⟩ d).st (stateNames par d)
        ((loaded par d.trans).1.flatMap (symNames par)) ∧
      (loadDesc setFinal add par A ⟨[], 0, yd⟩ d).aut =
        ((loaded par d.trans).1.map (crule par (loadDesc setFinal add par A ⟨[], 0, yd⟩ d).st)).foldl add
          ((d.final.map (loadDesc setFinal add par A ⟨[], 0, yd⟩ d).st.sd.get).foldl setFinal A) ∧
      (loadDesc setFinal add par A ⟨[], 0, yd⟩ d).err = (loaded par d.trans).2.map (·.2) ∧
      ∀ t, t ∈ (loaded par d.trans).1 → Covers par (loadDesc setFinal add par A ⟨[], 0, yd⟩ d).st t :=
  loadDesc_spec setFinal add par A ⟨[], 0, yd⟩ (init_ok hyd) d

example : (⟨[], 0, BddLoadEx.ydUsed⟩ : LSt).Ok := init_ok BddLoadEx.ydUsed_ok

/-- **the dictionary of assignments as coded.**  The class stores 16-variable assignments and increments `nextSymbol_`
with `SymbolicVarAsgn::operator++` (which drops the carry out of variable 15); the model stores allocation numbers.
Translating a name in the dictionary of assignments (`AlphaC.tr`, on top of `Glue.postInc`) gives the assignment of the
number the model hands out and the dictionary the new model dictionary stands for; the fresh alphabet is `absAlpha []`;
and the number `k + 2^16` stands for the assignment of `k`. -/
theorem C08_load_alphabet_as_coded (s : LSt) (f : String) (k : Nat) :
    (absAlpha s.yd).tr f = (symAsgn (trSym s f).1, absAlpha (trSym s f).2.yd) ∧
    AlphaC.init = some (absAlpha []) ∧ symAsgn (k + symbolCodes) = symAsgn k ∧
    Glue.inc (symAsgn k) = symAsgn (k + 1) :=
  ⟨alphaC_refines s f, alphaC_init, symAsgn_wrap k, inc_symAsgn k⟩

/-- the counter after `2^16 - 1` increments is `1…1`; one more and it is `0…0` again -/
example : Glue.inc (symAsgn 65535) = symAsgn 0 ∧ symAsgn 65535 = List.replicate 16 (some true) := by
  refine ⟨?_, by decide⟩
  rw [inc_symAsgn]; exact symAsgn_wrap 0

/-!
## what this file closes, and what stays open

Closes, from the "not yet proved" block of `C08.lean`: "the Timbuk layer (`addArityToSymbol`, the symbol dictionary that
hands out the 16-bit numbers, state names) is not modelled here" and "Symbols `≥ 2^16` are outside the theorems" (now:
`C08_load_dump_exact`, `C08_load_alphabet_wraps`); from `C08_Tables.lean` the hypothesis `r.kids.length < 64` is explained
(`C08_load_arity_prefix`).

Not proved here:
* the dumps with numeric state names (`DumpToAutDesc (params)`, `Names.numeric`) are modelled and checked by the driver;
  the theorems are stated for the dictionary of the load (a round trip "under the same names" needs names);
* a state dictionary that is not fresh (`LoadFromAutDesc` into a loaded automaton with its dictionary: the counter
  restarts at 0 and names clash – the finding `C13_prefilled_state_dictionary_clash` applies verbatim, the translator is
  the same template); modelled (`Op.load (some k)`) and checked by the driver, no theorem;
* the textual (not only denotational) equality `dumpSym (loadSym (dumpSym A)) = dumpSym A` for full-width dumps (it needs
  the canonicity of the MTBDDs under an injective renaming of the leaves);
* the symbolic load into the TOP-DOWN encoding has the table theorem (`C08_load_tables`) but no dump to round-trip with
  (`NotImplementedException`); its explicit dump lists a symbolic rule under every name whose code lies in the cube
  (`mem_rawExplTD`), not stated as a property;
* the text layer (parser / serializer) is `C13.lean`; `C08_load_dump_reload` is stated on descriptions.
-/
end Vata.Props
