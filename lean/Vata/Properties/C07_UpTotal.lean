import Vata.Proofs.InclUpBddTotal
import Vata.Properties.C07
/-!
# C07 – the bottom-up upward inclusion terminates within an explicit bound and always returns the exact verdict

Property served (C07): *for any two tree automata loaded into the top-down or the bottom-up BDD encoding, each implemented
inclusion algorithm … returns true exactly when the language of the first is contained in the language of the second.*
`Vata/Properties/C07.lean` proves that every verdict the models RETURN is exact, and lists under "not yet proved" that no fuel
is proved to suffice for the bottom-up upward exploration `InclUpBdd.run`, so that the selections `C07Sel.buUp`
(`ANTICHAINS_UP_NOSIM`) and `C07Sel.buUpSim` (`ANTICHAINS_UP_SIM`) were missing from `C07_total_selections`.  This file closes
that item: "returns true exactly when" now also has its "returns" half for these two selections.

## How the C++ is read into the model

Nothing new is modelled: `InclUpBdd.run` (`Vata/InclUpBdd.lean`) is the existing as-coded model of
`CheckUpwardTreeInclusion` (`src/tree_incl_up.hh`) with `UpwardInclusionFunctor` (`src/up_tree_incl_fctor.hh`), the repaired
version; `while (workset.get(procState, procSet))` is `InclUpBdd.loop`, ONE unit of fuel per pair taken from `workset`, `none`
= fuel exhausted.  The fuel is the only artefact of the model the C++ does not have; the theorems below say it is harmless:
with more than `fuelBoundBdd A B = 2 · |Δ_A| · 2^|Δ_B|` units (`|Δ|` = number of rules) the model never runs out, hence the C++
loop performs at most that many iterations (on the abstract reading of the encoding, see below).

The measure argument (`Vata/Proofs/InclUpBddTotal.lean`): a pair enters `workset` only in `addToWorkset`, which the functor
reaches only after `antichain.contains(…)` failed, i.e. together with `cachePair` putting the pair into `antichain`; then
the number of pairs (state of `A`, set of states of `B`) not subsumed by `antichain` drops (`refine` erases only pairs above
the new one).  `2 · (#pairs not subsumed) + |workset|` therefore never grows inside an iteration and drops by one when the
iteration takes its pair from `workset`.

## What is abstracted

As everywhere in C07 the BDD encoding is read as the identity on `TA` (justified by C08 and, for the traversal,
`Vata/Properties/C07_Traverse.lean`); hash-container order is list order (the bound holds for every order, since it is a bound
on a measure, not on a particular run).  States/sets are counted through the RULES (`parents`): the bound is in the number of
rules, which is at least the number of states that can occur in a pair.  The bound is not tight (`C07_bu_upward_bound_generous`).

No hypothesis on the operands is needed (contrast the explicit upward model, `inclUp_total`, which needs `Trimmed A`): this
code has no exit on an empty macro-state, it returns `false` only for a pair whose `A`-state is final, and the tree of that
pair is itself the counterexample (`InclUpBdd.run_error_ok`).
-/
namespace Vata.Props
open Vata Vata.InclUp Vata.InclUpBdd

/-- **termination of the exploration.**  With more than `2 · |Δ_A| · 2^|Δ_B|` units of fuel (one unit = one pair taken from
`workset`) `InclUpBdd.run` – and likewise the code before the repair, `runOld` – ends with a result; above the bound the result
does not depend on the fuel.  No hypothesis on `A`, `B` -/
theorem C07_bu_upward_terminates (A B : TA) :
    fuelBoundBdd A B = 2 * (A.rules.length * 2 ^ B.rules.length) ∧
    (∀ fuel, fuelBoundBdd A B < fuel → ∃ r, InclUpBdd.run A B fuel = some r) ∧
    (∀ fuel, fuelBoundBdd A B < fuel → ∃ r, InclUpBdd.runOld A B fuel = some r) ∧
    (∀ f₁ f₂, fuelBoundBdd A B < f₁ → fuelBoundBdd A B < f₂ → InclUpBdd.run A B f₁ = InclUpBdd.run A B f₂) :=
  ⟨rfl, fun _ h => InclUpBdd.run_terminates h, fun _ h => InclUpBdd.runOld_terminates h,
    fun _ _ h₁ h₂ => InclUpBdd.run_fuel_irrelevant h₁ h₂⟩

example : fuelBoundBdd InclUpBddEx.cexA InclUpBddEx.cexB = 96 := by decide
example : ∃ r, InclUpBdd.run InclUpBddEx.cexA InclUpBddEx.cexB 97 = some r :=
  (C07_bu_upward_terminates _ _).2.1 97 (by decide)

/-- **the measure behind the bound**, as a statement about one iteration of `while (workset.get(…))`: when the body
(`procTuples`, all tuples of the transition table) ends without `failProcessing`, the measure `phiB` of the state after the
iteration is strictly smaller than before it; at the start it is at most `fuelBoundBdd A B` -/
theorem C07_bu_upward_measure (A B : TA) (P : List Item) (it : Item) (rest : List Item) (st' : InclUpBdd.St)
    (h : procTuples (procTuple A B) it (tuplesOf A) ⟨P, rest⟩ = .ok st') :
    phiB A B st' < phiB A B ⟨P, it :: rest⟩ ∧ phiB A B ⟨[], []⟩ ≤ fuelBoundBdd A B := by
  refine ⟨?_, phiB_init_le A B⟩
  have h1 := phiB_procTuples (procTuple_phi A B) h
  have h2 : phiB A B ⟨P, rest⟩ + 1 = phiB A B ⟨P, it :: rest⟩ := by
    unfold phiB; simp only [List.length_cons]; omega
  omega

/-- **the certified model on ANY operands**: above the bound `inclUpBdd A B fuel` returns `(true, _)` when `L(A) ⊆ L(B)` and
`(false, _)` when not, and the answer (with its certificate) does not depend on the fuel -/
theorem C07_bu_upward_model_total (A B : TA) (fuel : Nat) (hf : fuelBoundBdd A B < fuel) :
    (Incl A B → ∃ c, inclUpBdd A B fuel = some (true, c)) ∧
    (¬ Incl A B → ∃ c, inclUpBdd A B fuel = some (false, c)) ∧
    (∀ fuel', fuelBoundBdd A B < fuel' → inclUpBdd A B fuel' = inclUpBdd A B fuel) :=
  ⟨(inclUpBdd_complete A B hf).1, (inclUpBdd_complete A B hf).2, fun _ hf' => inclUpBdd_fuel_irrelevant hf' hf⟩

/-- **the two upward selections of the bottom-up encoding return the exact verdict above the bound**:
`C07Sel.buUp` (`ANTICHAINS_UP_NOSIM`, `CheckInclusion` sanitises first: the bound is that of the sanitised operands) and
`C07Sel.buUpSim` (`ANTICHAINS_UP_SIM`, the operands as passed, whatever relation `R` the caller passes).  No hypothesis on
`A`, `B`, `R` -/
theorem C07_bu_upward_total (A B : TA) (R : Rel) :
    (∀ fuel, fuelBoundBdd (removeUseless A) (removeUseless B) < fuel →
      (Incl A B → ∃ c, C07Sel.buUp.model R A B fuel = some (true, c)) ∧
      (¬ Incl A B → ∃ c, C07Sel.buUp.model R A B fuel = some (false, c))) ∧
    (∀ fuel, fuelBoundBdd A B < fuel →
      (Incl A B → ∃ c, C07Sel.buUpSim.model R A B fuel = some (true, c)) ∧
      (¬ Incl A B → ∃ c, C07Sel.buUpSim.model R A B fuel = some (false, c))) :=
  ⟨fun _ hf => checkInclUpBdd_complete A B hf, fun _ hf => inclUpBddSim_complete A B R hf⟩

/-- the same for `ANTICHAINS_UP_SIM` as the COMMAND LINE runs it (operands prepared by `sanitize`, the upward simulation of the
union computed and ignored) -/
theorem C07_bu_upward_sim_cli_total (A B : TA) (fuel : Nat)
    (hf : fuelBoundBdd (sanitize A B).1 (sanitize A B).2.1 < fuel) :
    (Incl A B → ∃ c, checkInclUpBddSim A B fuel = some (true, c)) ∧
    (¬ Incl A B → ∃ c, checkInclUpBddSim A B fuel = some (false, c)) :=
  checkInclUpBddSim_complete A B hf

-- both polarities, with `decide`d bounds
example : fuelBoundBdd (removeUseless InclUpBddEx.cexA) (removeUseless InclUpBddEx.cexB) < 97 ∧
    fuelBoundBdd (removeUseless InclUpBddEx.cexB) (removeUseless InclUpBddEx.cexA) < 97 := by decide
example : ∃ c, C07Sel.buUp.model [] InclUpBddEx.cexA InclUpBddEx.cexB 97 = some (false, c) :=
  ((C07_bu_upward_total InclUpBddEx.cexA InclUpBddEx.cexB []).1 97 (by decide)).2
    (inclUpBdd_false (fuel := 10) (c := .witness (.node 2 [.node 1 [], .node 0 []])) rfl)
example : ∃ c, C07Sel.buUp.model [] InclUpBddEx.cexB InclUpBddEx.cexA 97 = some (true, c) :=
  ((C07_bu_upward_total InclUpBddEx.cexB InclUpBddEx.cexA []).1 97 (by decide)).1
    (inclUpBdd_true (fuel := 10) (c := .closed [(3, [1]), (4, [1]), (9, [2])]) rfl)
example : ∃ c, C07Sel.buUpSim.model [(1, 9)] InclUpBddEx.cexA InclUpBddEx.cexB 97 = some (false, c) :=
  ((C07_bu_upward_total InclUpBddEx.cexA InclUpBddEx.cexB [(1, 9)]).2 97 (by decide)).2
    (inclUpBdd_false (fuel := 10) (c := .witness (.node 2 [.node 1 [], .node 0 []])) rfl)
example : ∃ c, C07Sel.buUpSim.model [(1, 9)] InclUpBddEx.cexB InclUpBddEx.cexA 97 = some (true, c) :=
  ((C07_bu_upward_total InclUpBddEx.cexB InclUpBddEx.cexA [(1, 9)]).2 97 (by decide)).1
    (inclUpBdd_true (fuel := 10) (c := .closed [(3, [1]), (4, [1]), (9, [2])]) rfl)
-- the verdicts themselves, computed at the bound
example : (C07Sel.buUp.model [] InclUpBddEx.cexA InclUpBddEx.cexB 97).map (·.1) = some false ∧
    (C07Sel.buUp.model [] InclUpBddEx.cexB InclUpBddEx.cexA 97).map (·.1) = some true ∧
    (C07Sel.buUpSim.model [(1, 9)] InclUpBddEx.cexA InclUpBddEx.cexB 97).map (·.1) = some false ∧
    (C07Sel.buUpSim.model [(1, 9)] InclUpBddEx.cexB InclUpBddEx.cexA 97).map (·.1) = some true := ⟨rfl, rfl, rfl, rfl⟩
-- no trimming hypothesis: on the untrimmed `exU ⊆ {a}` the selection without sanitising (`buUpSim`) answers `true` as well
example : allUsefulB InclUp.TotalEx.exU = false ∧ fuelBoundBdd InclUp.TotalEx.exU InclUpEx.exA < 9 ∧
    (C07Sel.buUpSim.model [] InclUp.TotalEx.exU InclUpEx.exA 9).map (·.1) = some true := ⟨by decide, by decide, rfl⟩

/-- the bound is sufficient, not necessary: on the pair of defect D9 (bound 96) ten units suffice; and some fuel IS needed:
with one unit the model of `exEven ⊆ exAll` gives up -/
theorem C07_bu_upward_bound_generous :
    fuelBoundBdd InclUpBddEx.cexA InclUpBddEx.cexB = 96 ∧
    (inclUpBdd InclUpBddEx.cexA InclUpBddEx.cexB 10).map (·.1) = some false ∧
    inclUpBdd InclUpBddEx.exEven InclUpBddEx.exAll 1 = none := ⟨by decide, rfl, rfl⟩

/-! ### all seven selections -/

/-- the fuel bound of a selection (number of pairs taken from the work-list for the upward selections, nesting depth of the
calls for the downward ones), on the operands the selection really runs on -/
def C07Sel.bound (s : C07Sel) (A B : TA) : Nat :=
  match s with
  | .tdRec | .tdRecOpt => InclDown.fuelBoundD (removeUseless A) (removeUseless B)
  | .tdRecSim | .tdRecOptSim => InclDown.fuelBoundD A B
  | .buUp => fuelBoundBdd (removeUseless A) (removeUseless B)
  | .buUpSim => fuelBoundBdd A B
  | .buDownSim => InclDown.fuelBoundD (sanitize A B).1 (sanitize A B).2.1

/-- what a selection needs from its caller for a GUARANTEED verdict: nothing, except for the two top-down `SIM` selections,
which pass the caller's relation and operands through unchecked – there the relation must be a downward simulation of the
disjoint union, the operands disjoint and the rule children of `A` productive -/
def C07Sel.Pre (s : C07Sel) (R : Rel) (A B : TA) : Prop :=
  match s with
  | .tdRecSim | .tdRecOptSim =>
    InclDown.KidsProductive A ∧ isDownSimB (unionDisjoint A B) R = true ∧ InclDown.disjointB A B = true
  | _ => True

/-- **every implemented BDD selection returns the exact verdict for every fuel above its explicit bound** – the five
selections that prepare their operands or need no preparation (`tdRec`, `tdRecOpt`, `buUp`, `buUpSim`, `buDownSim`)
unconditionally, the two top-down `SIM` selections under `C07Sel.Pre`.  Combines `C07_total_selections`,
`C07_td_downward_models_exact` and `C07_bu_upward_total` -/
theorem C07_total_all_selections (s : C07Sel) (R : Rel) (A B : TA) (hpre : s.Pre R A B) (fuel : Nat)
    (hf : s.bound A B < fuel) :
    (Incl A B → ∃ c, s.model R A B fuel = some (true, c)) ∧
    (¬ Incl A B → ∃ c, s.model R A B fuel = some (false, c)) := by
  have hT := C07_total_selections A B R
  have hU := C07_bu_upward_total A B R
  have hS := (C07_td_downward_models_exact A B R).2.2.2.2
  cases s with
  | tdRec => exact ⟨fun hi => ((hT.1 fuel hf).1 hi).1, fun hn => ((hT.1 fuel hf).2 hn).1⟩
  | tdRecOpt => exact ⟨fun hi => ((hT.1 fuel hf).1 hi).2, fun hn => ((hT.1 fuel hf).2 hn).2⟩
  | tdRecSim => exact hS hpre.1 hpre.2.1 hpre.2.2 fuel hf
  | tdRecOptSim => exact hS hpre.1 hpre.2.1 hpre.2.2 fuel hf
  | buUp => exact hU.1 fuel hf
  | buUpSim => exact hU.2 fuel hf
  | buDownSim => exact hT.2 fuel hf

/-- … hence above the bound, under the precondition, a selection's verdict is a function of `Incl A B` alone: two runs
(any fuels above the bound, any admissible relations) give the same Boolean, which is `true` exactly for inclusion -/
theorem C07_all_selections_decide (s : C07Sel) (R : Rel) (A B : TA) (hpre : s.Pre R A B) (fuel : Nat)
    (hf : s.bound A B < fuel) : ∃ b c, s.model R A B fuel = some (b, c) ∧ (b = true ↔ Incl A B) := by
  have h := C07_total_all_selections s R A B hpre fuel hf
  by_cases hi : Incl A B
  · obtain ⟨c, hc⟩ := h.1 hi
    exact ⟨true, c, hc, ⟨fun _ => hi, fun _ => rfl⟩⟩
  · obtain ⟨c, hc⟩ := h.2 hi
    exact ⟨false, c, hc, ⟨fun hb => Bool.noConfusion hb, fun hi' => absurd hi' hi⟩⟩

-- the precondition and the bound hold for all seven selections on the trimmed, disjoint pair `exS1`, `exS2` with `{(5,6)}`
example : ∀ s : C07Sel, s.Pre [(5, 6)] InclDownEx.exS1 InclDownEx.exS2 := by
  intro s
  cases s
  case tdRecSim => exact ⟨(trimmed_of_allUsefulB (by decide)).1, by decide, by decide⟩
  case tdRecOptSim => exact ⟨(trimmed_of_allUsefulB (by decide)).1, by decide, by decide⟩
  all_goals exact True.intro
example : ∀ s : C07Sel, s.bound InclDownEx.exS1 InclDownEx.exS2 < 400 := by
  intro s; cases s <;> decide
-- the precondition of the `SIM` selections cannot be dropped from the model's guarantee: a relation that is no simulation
-- is refused by the validation (`none` for every fuel), see `inclDownSim` in `Vata/InclDown.lean`
example : (C07Sel.tdRecSim.model [(1, 3)] InclDownEx.exS1 InclDownEx.exS2 400) = none := by decide

/-!
## closes (of the "not yet proved" list of `Vata/Properties/C07.lean`)

* "**No termination bound for the bottom-up upward exploration** `InclUpBdd.run` … So `buUp` and `buUpSim` are missing from
  `C07_total_selections`" – closed by `C07_bu_upward_terminates`, `C07_bu_upward_total`, `C07_total_all_selections`.
* In the item on `ANTICHAINS_UP_SIM` the sentence "`inclUpBdd` is exact on any operands but a verdict is only guaranteed on
  trimmed ones" is superseded: a verdict is guaranteed on ANY operands (`C07_bu_upward_model_total`).

## still not proved

* The bound is in the number of RULES (`2 · |Δ_A| · 2^|Δ_B|`), not of states, and is not tight
  (`C07_bu_upward_bound_generous`); no lower bound on the number of iterations is proved.
* The fuel counts pairs taken from `workset` only; the work INSIDE an iteration (the `for` over the transition table, the
  `pick` loop over the choices, the MTBDD traversal) is a terminating structural recursion in the model, but no bound on its
  cost is stated.
* All of it is about the model on the abstract automaton (identity reading of the encoding; see the first item of the "not yet
  proved" list of `Vata/Properties/C07.lean` and `Vata/Properties/C07_Traverse.lean`): that the real MTBDD traversal delivers
  the events the model iterates over is not part of this file.
* The two top-down `SIM` selections stay conditional (`C07Sel.Pre`); outside the precondition only exactness of returned
  verdicts is known (`C07_td_downward_models_exact`).
-/
end Vata.Props
