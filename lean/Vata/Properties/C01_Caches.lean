import Vata.Proofs.FunctorCachesUp
import Vata.Properties.C01
import Vata.Properties.CacheWiring
/-!
# C01 – the caches of the upward tree inclusion algorithm are transparent (with the library's deleter)

Corollaries of `Vata/Proofs/FunctorCachesUp.lean` (model: `Vata/FunctorCachesUp.lean`) for the selection "upward, no
simulation" of property C01.  The model `inclUp` / `checkInclUp` behind `C01_upward_model_exact` compares macro-states by value;
the code interns them in `biggerTypeCache` (a `Util::Cache`: objects held by `shared_ptr`s, they DIE, addresses are recycled)
and memoises `lte` and `evalTransitions` in two `CachedBinaryOp` tables keyed by those addresses.

How the statement is read into the model.  `checkInclUpC w pick A B fuel` is `CheckInclusion` (upward, no simulation) with the
three caches as coded: `w : CM.Wiring` is what the deleter handed to `biggerTypeCache` does (`.lib`: the library's –
`Vata.CacheWiring.cache_wiring_is_lib` proves that the deleters regenerated from the sources denote it), `pick` is the
allocator (which address a new macro-state gets, given the live ones; every allocator is some `pick`).  Reference counting is
modelled by its effect (the objects without a handle die where the handles are dropped).  `FCU.runC` is the exploration alone,
`FCU.rawVerdictU` its `return true` / `return false` before the certificate check of the model.
-/
namespace Vata.Props
open Vata Vata.InclUp Vata.FCU Vata.CM

/-- **`biggerTypeCache`, `lteCache`, `evalTransitionsCache` are transparent (upward, no simulation) – for every allocator.**
With the library's deleter, `CheckInclusion` with the caches as coded returns, for all operands and every fuel, exactly what the
cache-free model `checkInclUp` returns (the same verdict with the same antichain / witness, `none` at the same fuel), however
the addresses of dead macro-states are recycled; the same for the exploration alone. -/
theorem C01_upward_caches_transparent (pick : List Nat → Nat) (A B : TA) (fuel : Nat) :
    checkInclUpC .lib pick A B fuel = checkInclUp A B fuel ∧
    inclUpC .lib pick A B fuel = inclUp A B fuel ∧
    viewU (runC .lib pick A B fuel) = InclUp.run A B fuel :=
  ⟨checkInclUp_cached_eq pick A B fuel, inclUp_cached_eq pick A B fuel, runC_eq pick A B fuel⟩

/-- … in the form of `C01_upward_model_exact`: exact and total with the caches -/
theorem C01_upward_cached_exact (pick : List Nat → Nat) (A B : TA) :
    (∀ fuel b c, checkInclUpC .lib pick A B fuel = some (b, c) → (b = true ↔ Incl A B)) ∧
    (∀ fuel, fuelBound (removeUseless A) (removeUseless B) < fuel →
      (Incl A B → ∃ c, checkInclUpC .lib pick A B fuel = some (true, c)) ∧
      (¬ Incl A B → ∃ c, checkInclUpC .lib pick A B fuel = some (false, c))) := by
  simp only [checkInclUp_cached_eq]
  exact C01_upward_model_exact A B

/-- the wiring the theorem assumes is the one in the sources -/
example : Vata.Gen.cacheWiring.map Vata.CacheWiring.wiringOf = [.lib, .lib, .lib] := Vata.CacheWiring.cache_wiring_is_lib

-- non-vacuity: a run in which macro-states die and their addresses are reused at once
example : (checkInclUpC .lib pickLeast FCUEx.exWA FCUEx.exWB 20).map (·.1) = some false := by decide +kernel
example : (finalHeap (runC .lib pickLeast FCUEx.exSA FCUEx.exSB 20)).map
    (fun h => (h.store.length, h.lte.store.length, h.ev.store.length)) = some (1, 0, 2) := by decide +kernel

/-- **the invariant behind it** (the one of `Util_Cache_memo_sound`, here along the run of the algorithm): at the end of every
run with the library's deleter, for every allocator, every entry of `lteCache` is about two LIVE macro-states and holds `⊆` of
their current values, every entry of `evalTransitionsCache` is about a live macro-state and holds `noncachedEvalTransitions` of
its current value (`FCU.HInv`, kept by every step of the simulation `FCU.URel`; `FCU.hCollect_spec` is the step where objects die) -/
theorem C01_upward_memo_sound (pick : List Nat → Nat) (A B : TA) (fuel : Nat) (h : Heap)
    (hf : finalHeap (runC .lib pick A B fuel) = some h) :
    (∀ a b r, aget h.lte.store (a, b) = some r → a ∈ h.addrs ∧ b ∈ h.addrs ∧ r = subB (hval h a) (hval h b)) ∧
    (∀ k b r, aget h.ev.store (k, b) = some r → b ∈ h.addrs ∧ r = evalT B k (hval h b)) ∧ heapOKB B h = true :=
  ⟨(runC_heap_sound pick A B fuel hf).1.sl, (runC_heap_sound pick A B fuel hf).1.se, (runC_heap_sound pick A B fuel hf).2⟩

/-- **the computation behind `evalTransitionsCache`**: `evalTransitions` for every position, `intersectionByLookup`, the states
of the transitions that are left, sorted – is the macro-state `post_B f (S₁ … Sₙ)` of the model (`n ≥ 1`; the rank is part of the
key, as it is part of a symbol in the library) -/
theorem C01_upward_eval_is_post (B : TA) (f : Nat) (Ss : List (List Nat)) (hne : Ss ≠ []) :
    normS (parentsOf B (interAll (evalPure B f Ss.length Ss 0))) = macroPost B f Ss :=
  macroPost_pure B f hne

example : normS (parentsOf InclUpEx.exH (interAll (evalPure InclUpEx.exH 2 2 [[3, 4], [3]] 0))) = [9] := by decide

/-- **the wiring matters at the level of the algorithm** (the statement `Util_Cache_wiring_counterexample` makes about a
history of the two classes, here about `checkInternal`).  With an allocator that recycles the address of a dead macro-state
at once, the default deleter (`.none`) and the one-word slip (`.firstTwice`: `invalidateFirst` twice) (1) make the exploration
of `exWA ⊆ exWB` end with `return true` although `f(g(a), f(a, g(a)))` is accepted by `A` only – the library's deleter answers
`false` –, and (2) leave, on `exSA ⊆ exSB`, a memo table with an entry that is not the value of the memoised function on the
objects now at its addresses. -/
theorem C01_upward_wiring_matters :
    (rawVerdictU (runC .none pickLeast FCUEx.exWA FCUEx.exWB 20) = some true ∧
     rawVerdictU (runC .firstTwice pickLeast FCUEx.exWA FCUEx.exWB 20) = some true ∧
     rawVerdictU (runC .lib pickLeast FCUEx.exWA FCUEx.exWB 20) = some false ∧ ¬ Incl FCUEx.exWA FCUEx.exWB) ∧
    ((finalHeap (runC .none pickLeast FCUEx.exSA FCUEx.exSB 20)).map (heapOKB FCUEx.exSB) = some false ∧
     (finalHeap (runC .firstTwice pickLeast FCUEx.exSA FCUEx.exSB 20)).map (heapOKB FCUEx.exSB) = some false ∧
     (finalHeap (runC .lib pickLeast FCUEx.exSA FCUEx.exSB 20)).map (heapOKB FCUEx.exSB) = some true) :=
  ⟨FCUEx.wiring_changes_verdict, FCUEx.wiring_breaks_invariant⟩

/-- whatever the wiring and the allocator: a verdict that passes the certificate check of the model is right -/
theorem C01_upward_cached_verdicts (w : Wiring) (pick : List Nat → Nat) (A B : TA) (fuel : Nat) (b : Bool) (c : Cert)
    (h : inclUpC w pick A B fuel = some (b, c)) : b = true ↔ Incl A B :=
  inclUpC_iff h

example : inclUpC .none pickLeast FCUEx.exWA FCUEx.exWB 20 = none := FCUEx.wiring_certificate_rejects.1

/-!
## which "not yet proved" items of `C01.lean` this file closes

* `C01.lean` has no item of its own for the caches of the UPWARD algorithm – `Vata/InclUp.lean` compares macro-states by value
  without saying so in that block (the item on "address-keyed caches … replaced by value comparison" is about the downward
  algorithm).  This file supplies the missing statement for the selection "upward, no simulation": interning with deaths and
  address reuse, `lteCache`, `evalTransitionsCache` are transparent under the library's deleter, for every allocator
  (`C01_upward_caches_transparent`), and the deleter's wiring is needed (`C01_upward_wiring_matters`).

## not proved here

* the upward algorithm WITH a simulation (`inclUpSim`) and the downward algorithms (`lteCache` of `tree_incl_down.hh` /
  `explicit_tree_incl_down.cc`): no cached model;
* reference counting is modelled by its effect (`hCollect` at the points where handles are dropped), not by counters; the
  `shared_ptr` mechanics themselves are in `Vata/CacheModel.lean` (`Util_Cache_*`).  The leaf phase acquires `ptr` once per leaf
  rule (the C++: once per symbol); iteration orders as in `Vata/InclUp.lean`.
-/
end Vata.Props
