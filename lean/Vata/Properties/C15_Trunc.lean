import Vata.Lang
import Vata.CandidateTrunc
import Vata.Proofs.CandidateTrunc
import Vata.Properties.C15
/-!
# C15 – state numbers as machine integers in the witness search

> For any explicit tree automaton A, GetCandidateTree returns an automaton whose every accepted tree is accepted by A,
> and which accepts at least one tree whenever A does.

## How the C++ is read into the model

`GetCandidateTree` (`src/explicit_tree_candidate.cc`) keeps one bookkeeping record `TransitionInfo` per transition; the
parent state is stored in it by the member initialiser `state_(state)` (field `StateType state_`, `StateType = size_t`) and
read back as `info->state_` in phase 2 (mark reached, queue, `IsStateFinal`) and when the recorded transitions are added to
the result.  `candidateTrunc w` (`Vata/CandidateTrunc.lean`) is the model `candidate` of `Vata/Candidate.lean` with the
parent reduced modulo `2^w` at exactly that place – the construction of the record in phase 1 (`candInitStepT`); what the
C++ takes from the map key (`stateClusterPair.first`: marking and queueing the parent of a leaf rule) and from the shared
`transitions_` (result with `remaining = 0`) is not reduced.  Phase 2 and the assembly are the functions of `candidate`.
`w = 64` is the code as it is, `w = 32` a field declared `unsigned state_`.

## What is abstracted

State numbers of the unbounded model are `Nat`; nothing else of the C++ is narrowed here (children, symbols, the counter
`remaining` stay unbounded).  The enumeration order is the list order of `A.rules` (for other orders apply the theorems to
`⟨ord A.rules, A.final⟩`, as `candidateOrd` does).
-/
namespace Vata.Props
open Vata

/-- If the parent of every rule of `A` is `< 2^w` (in particular if every state of `A` is), the model with a `w`-bit parent
field is the unbounded model: with `w = 64` the code is `candidate` for every automaton whose states are `size_t` values.
Only parents are constrained – children and final states never pass through the field. -/
theorem C15_trunc_faithful (w : Nat) (A : TA) (h : ∀ r, r ∈ A.rules → r.parent < 2 ^ w) :
    candidateTrunc w A = candidate A := candidateTrunc_eq A h

/-- hence all of `C15_witness` holds for the `w`-bit code on such automata -/
theorem C15_trunc_witness (w : Nat) (A : TA) (h : ∀ r, r ∈ A.rules → r.parent < 2 ^ w) :
    Incl (candidateTrunc w A) A ∧ ((∃ t, accepts A t = true) → ∃ t, accepts (candidateTrunc w A) t = true) := by
  rw [C15_trunc_faithful w A h]
  exact ⟨(C15_witness A).2.1, (C15_witness A).2.2.1⟩

-- non-vacuity: the hypothesis holds for the example of C15 with `w = 3` (states 0..7), and the results coincide
example : (∀ r, r ∈ CandEx.exA.rules → r.parent < 2 ^ 3) ∧ candidateTrunc 3 CandEx.exA = candidate CandEx.exA :=
  ⟨by decide, C15_trunc_faithful 3 _ (by decide)⟩
example : (candidateTrunc 3 CandEx.exA).rules = [⟨0, [], 0⟩, ⟨3, [], 4⟩, ⟨1, [0, 0], 1⟩, ⟨4, [1, 4], 5⟩] := by decide

/-- The hypothesis of `C15_trunc_faithful` cannot be dropped – the two failure modes of a too narrow field, `w = 3`:
* `exLost` (`a → 8`, `g(5) → 5`, final `8`) accepts `a`, but the witness automaton has no rule at all (the recorded rule is
  `a → 0`, the only final state is `8`, and `RemoveUnreachableStates` drops what is not below a final state): it is empty (`isEmptyRef`, hence `LangEmpty`, see `C15_trunc_lost_langEmpty`);
* `exWrong` (`a → 8`, `b → 0`, `f(0) → 1`, `g(1) → 2`, final `1`) rejects `f(a)`, the witness automaton accepts it.
In both the only state `≥ 8` is the parent of one leaf rule. -/
theorem C15_trunc_counterexample :
    (accepts CandTruncEx.exLost CandTruncEx.tA = true ∧
      isEmptyRef (candidateTrunc 3 CandTruncEx.exLost) = true ∧
      (candidateTrunc 3 CandTruncEx.exLost).rules = [] ∧
      (∃ r, r ∈ CandTruncEx.exLost.rules ∧ ¬ r.parent < 2 ^ 3)) ∧
    (accepts CandTruncEx.exWrong CandTruncEx.tFA = false ∧
      accepts (candidateTrunc 3 CandTruncEx.exWrong) CandTruncEx.tFA = true ∧
      (∃ r, r ∈ CandTruncEx.exWrong.rules ∧ ¬ r.parent < 2 ^ 3)) := by decide

/-- first failure mode at L0: the language of `exLost` is not empty, that of its 3-bit witness automaton is -/
theorem C15_trunc_lost_langEmpty :
    (∃ t, accepts CandTruncEx.exLost t = true) ∧ LangEmpty (candidateTrunc 3 CandTruncEx.exLost) :=
  ⟨⟨CandTruncEx.tA, by decide⟩, (isEmptyRef_iff _).mp (by decide)⟩

/-- second failure mode at L0: the 3-bit witness automaton of `exWrong` is not a sub-language -/
theorem C15_trunc_wrong_not_incl : ¬ Incl (candidateTrunc 3 CandTruncEx.exWrong) CandTruncEx.exWrong := by
  intro h
  have := h CandTruncEx.tFA (by decide)
  revert this
  decide

-- the unbounded model is right on both (so the failures are caused by the narrow field alone)
example : accepts (candidate CandTruncEx.exLost) CandTruncEx.tA = true ∧
    accepts (candidate CandTruncEx.exWrong) CandTruncEx.tFA = false := by decide
-- and a field that is wide enough repairs them
example : candidateTrunc 4 CandTruncEx.exLost = candidate CandTruncEx.exLost ∧
    candidateTrunc 4 CandTruncEx.exWrong = candidate CandTruncEx.exWrong :=
  ⟨C15_trunc_faithful 4 _ (by decide), C15_trunc_faithful 4 _ (by decide)⟩

/-!
## still not proved

* A characterisation of `candidateTrunc w A` when some parent is `≥ 2^w` (e.g. "it is `candidate` of the automaton with the
  truncated parents, except for the states marked in phase 1") is not stated; only the two concrete failures are exhibited.
* Narrowing of other integers of the function (`size_t remaining`, symbols, children in `childrenSet_`) is not modelled.
* For an enumeration order other than the list order no separate theorem is stated (apply `C15_trunc_faithful` to
  `⟨ord A.rules, A.final⟩`; the hypothesis is then about the rules of `ord A.rules`).
-/
end Vata.Props
