import Vata.Proofs.RcStoreXRefine
import Vata.Proofs.RcStoreXHist
/-!
# C17 at STORE level – unary / ternary apply, Project, Rename, ExtendWith, GetMtbddForPrefix

> (C17) The MTBDD operations compute the pointwise / documented functions: `apply` computes the leaf operation pointwise,
> `Project` combines the cofactors, `Rename` substitutes variables, `ExtendWith` / `GetMtbddForPrefix` add / strip a prefix.

`Vata/Properties/C17.lean` proves the value equations for the TREE model (`M.apply1`, `M.apply3`, `M.project`, `M.rename`,
`M.extendWith`, `M.getPrefix` of `Vata/MtbddOps.lean`) and, at store level, only for the constructor and the binary apply.
This file closes the "not yet proved" item "unary/ternary apply, `Project`, `Rename`, `ExtendWith`, `GetMtbddForPrefix` exist
at tree level only": each of them is modelled on the reference-counted hash-consed node store (`Vata/RcStoreX.lean`, the
C++ is quoted there) and REFINES its tree-level counterpart: after any history, the root given to the new handle unfolds
(`RcS.unfold`) to the tree operation applied to the unfolding of the operand roots.  The value equations then follow from
the tree-level theorems.

Reading of the C++: see the header of `Vata/Properties/C18_Extended.lean`.  `runX F ops` = state after the history `ops`
(`F` = the leaf operations); `find h s.hs` = `getRoot()` of handle `h` (`none` for a dead handle); `unfold s.dat (r+1) r` =
the diagram below node `r`; `denote s r ρ` = its value under the total assignment `ρ`.
Only the counting invariant is used, so every theorem holds also in stores with garbage left by earlier `Project`s and
after renamings with a non-monotone table.  The history-level hypotheses are satisfiable: examples below.
-/
namespace Vata.RcSX
open Vata Vata.RcS

theorem runX_snoc (F : Fns) (ops : List RcSX.Op) (op : RcSX.Op) :
    (runX F (ops ++ [op])).st = stepS F (runX F ops).dv (runX F ops).st op := by
  rw [runX_append]; rfl

theorem predOf_single (x : Nat) : predOf [x] = fun y => y == x := by
  funext y; simp only [predOf, List.mem_singleton]; exact (Bool.beq_eq_decide_eq y x).symm

namespace Ex
/-- `x₀ ∧ ¬x₂ ↦ 5`, `¬x₀ ∧ x₁ ↦ 7`, their maximum -/
def exS : List RcSX.Op :=
  [.construct 0 [some true, none, some false] 5 0, .construct 1 [some false, some true] 7 0, .apply 0 1 2]

end Ex

end Vata.RcSX

namespace Vata.Props
open Vata Vata.RcS Vata.RcSX Vata.RcSX.Ex

/-- `MTBDDOut dst = apply1(a)` after any history: the new root unfolds to `M.apply1 f1` of the operand's diagram and
denotes the pointwise `f1` -/
theorem C17_store_apply1 (F : Fns) (ops : List RcSX.Op) (a dst ra : Nat) (ha : find a (runX F ops).st.hs = some ra)
    (hd : find dst (runX F ops).st.hs = none) :
    ∃ r, find dst (runX F (ops ++ [.apply1 a dst])).st.hs = some r ∧
      unfold (runX F (ops ++ [.apply1 a dst])).st.dat (r+1) r = M.apply1 F.f1 (unfold (runX F ops).st.dat (ra+1) ra) ∧
      ∀ ρ, denote (runX F (ops ++ [.apply1 a dst])).st r ρ = F.f1 (denote (runX F ops).st ra ρ) := by
  rw [runX_snoc]
  exact apply1_refines F.f1 (runX_winv F ops) ha hd

/-- `MTBDDOut dst = apply3(a, b, c)` after any history: the new root unfolds to `M.apply3 f3` of the operands' diagrams
and denotes the pointwise `f3` -/
theorem C17_store_apply3 (F : Fns) (ops : List RcSX.Op) (a b c dst ra rb rc : Nat)
    (ha : find a (runX F ops).st.hs = some ra) (hb : find b (runX F ops).st.hs = some rb)
    (hc : find c (runX F ops).st.hs = some rc) (hd : find dst (runX F ops).st.hs = none) :
    ∃ r, find dst (runX F (ops ++ [.apply3 a b c dst])).st.hs = some r ∧
      unfold (runX F (ops ++ [.apply3 a b c dst])).st.dat (r+1) r =
        M.apply3 F.f3 (unfold (runX F ops).st.dat (ra+1) ra) (unfold (runX F ops).st.dat (rb+1) rb)
          (unfold (runX F ops).st.dat (rc+1) rc) ∧
      ∀ ρ, denote (runX F (ops ++ [.apply3 a b c dst])).st r ρ =
        F.f3 (denote (runX F ops).st ra ρ) (denote (runX F ops).st rb ρ) (denote (runX F ops).st rc ρ) := by
  rw [runX_snoc]
  exact apply3_refines F.f3 (runX_winv F ops) ha hb hc hd

/-- the same in terms of the observer `getValue` (`GetValue` of a handle under a total assignment) -/
theorem C17_store_apply1_getValue (F : Fns) (ops : List RcSX.Op) (a dst : Nat) (ρ : Nat → Bool) (va : Nat)
    (ha : getValue (runX F ops).st a ρ = some va) (hd : find dst (runX F ops).st.hs = none) :
    getValue (runX F (ops ++ [.apply1 a dst])).st dst ρ = some (F.f1 va) := by
  cases hfa : find a (runX F ops).st.hs with
  | none => simp [getValue, hfa] at ha
  | some ra =>
    obtain ⟨r, h1, _, h3⟩ := C17_store_apply1 F ops a dst ra hfa hd
    rw [getValue_of_find hfa] at ha
    cases ha
    rw [getValue_of_find h1, h3]

theorem C17_store_apply3_getValue (F : Fns) (ops : List RcSX.Op) (a b c dst : Nat) (ρ : Nat → Bool) (va vb vc : Nat)
    (ha : getValue (runX F ops).st a ρ = some va) (hb : getValue (runX F ops).st b ρ = some vb)
    (hc : getValue (runX F ops).st c ρ = some vc) (hd : find dst (runX F ops).st.hs = none) :
    getValue (runX F (ops ++ [.apply3 a b c dst])).st dst ρ = some (F.f3 va vb vc) := by
  cases hfa : find a (runX F ops).st.hs with
  | none => simp [getValue, hfa] at ha
  | some ra =>
    cases hfb : find b (runX F ops).st.hs with
    | none => simp [getValue, hfb] at hb
    | some rb =>
      cases hfc : find c (runX F ops).st.hs with
      | none => simp [getValue, hfc] at hc
      | some rc =>
        obtain ⟨r, h1, _, h3⟩ := C17_store_apply3 F ops a b c dst ra rb rc hfa hfb hfc hd
        rw [getValue_of_find hfa] at ha
        rw [getValue_of_find hfb] at hb
        rw [getValue_of_find hfc] at hc
        cases ha; cases hb; cases hc
        rw [getValue_of_find h1, h3]

/-- `dst = a.Project(pred, applyFunc)` with `pred(var) = var ∈ vars`, `applyFunc` = binary apply with `f2`: the new root
unfolds to `M.project` of the operand's diagram (whose value is characterised by `C17_project` / `C17_project_lub`) -/
theorem C17_store_project (F : Fns) (ops : List RcSX.Op) (a dst ra : Nat) (vars : List Nat)
    (ha : find a (runX F ops).st.hs = some ra) (hd : find dst (runX F ops).st.hs = none) :
    ∃ r, find dst (runX F (ops ++ [.project a dst vars])).st.hs = some r ∧
      unfold (runX F (ops ++ [.project a dst vars])).st.dat (r+1) r =
        M.project (predOf vars) F.f2 (unfold (runX F ops).st.dat (ra+1) ra) := by
  rw [runX_snoc]
  exact project_refines F.f2 (predOf vars) (runX_winv F ops) ha hd

/-- value of the projection of ONE variable `x` with an idempotent `f2`, for an operand whose diagram is ordered and
reduced (`M.WF`; true for every diagram built by constructors and applies, `RcS.unfold_wf`): `f2` of the two cofactors -/
theorem C17_store_project_value (F : Fns) (idem : ∀ v, F.f2 v v = v) (ops : List RcSX.Op) (a dst ra x : Nat)
    (ha : find a (runX F ops).st.hs = some ra) (hd : find dst (runX F ops).st.hs = none)
    (hwf : M.WF (unfold (runX F ops).st.dat (ra+1) ra)) :
    ∃ r, find dst (runX F (ops ++ [.project a dst [x]])).st.hs = some r ∧
      ∀ ρ, denote (runX F (ops ++ [.project a dst [x]])).st r ρ =
        F.f2 (denote (runX F ops).st ra (M.upd ρ x false)) (denote (runX F ops).st ra (M.upd ρ x true)) := by
  obtain ⟨r, h1, h2⟩ := C17_store_project F ops a dst ra [x] ha hd
  refine ⟨r, h1, fun ρ => ?_⟩
  unfold denote
  rw [h2, predOf_single]
  exact M.project_eval x F.f2 idem ρ hwf

/-- `dst = a.Rename(renamer)` with `renamer(var) = tab[var]`: the new root unfolds to `M.rename`, and its value under `σ`
is the operand's value under `σ ∘ renamer` – for EVERY table (monotone or not) -/
theorem C17_store_rename (F : Fns) (ops : List RcSX.Op) (a dst ra : Nat) (tab : List Nat)
    (ha : find a (runX F ops).st.hs = some ra) (hd : find dst (runX F ops).st.hs = none) :
    ∃ r, find dst (runX F (ops ++ [.rename a dst tab])).st.hs = some r ∧
      unfold (runX F (ops ++ [.rename a dst tab])).st.dat (r+1) r =
        M.rename (renOf tab) (unfold (runX F ops).st.dat (ra+1) ra) ∧
      ∀ σ, denote (runX F (ops ++ [.rename a dst tab])).st r σ = denote (runX F ops).st ra (σ ∘ renOf tab) := by
  rw [runX_snoc]
  exact rename_refines (renOf tab) (runX_winv F ops) ha hd

/-- `dst = a.ExtendWith(asgn, offset)`: the new root unfolds to `M.extendWith` with the operand's `defaultValue_`
(`(runX F ops).dv a`); its value is the operand's value on the assignments whose variables `offset, offset+1, …` agree
with `asgn`, and the default value elsewhere -/
theorem C17_store_extendWith (F : Fns) (ops : List RcSX.Op) (a dst ra : Nat) (asgn : List (Option Bool)) (offset : Nat)
    (ha : find a (runX F ops).st.hs = some ra) (hd : find dst (runX F ops).st.hs = none) :
    ∃ r, find dst (runX F (ops ++ [.extendWith a dst asgn offset])).st.hs = some r ∧
      unfold (runX F (ops ++ [.extendWith a dst asgn offset])).st.dat (r+1) r =
        M.extendWith asgn offset (unfold (runX F ops).st.dat (ra+1) ra) ((runX F ops).dv a) ∧
      ∀ ρ, denote (runX F (ops ++ [.extendWith a dst asgn offset])).st r ρ =
        if M.agrees (fun j => ρ (j + offset)) asgn 0 = true then denote (runX F ops).st ra ρ else (runX F ops).dv a := by
  rw [runX_snoc]
  exact extendWith_refines asgn offset ((runX F ops).dv a) (runX_winv F ops) ha hd

/-- `dst = a.GetMtbddForPrefix(asgn, offset)`: the new root is the node `M.getPrefix` reaches -/
theorem C17_store_getPrefix (F : Fns) (ops : List RcSX.Op) (a dst ra : Nat) (asgn : List (Option Bool)) (offset : Nat)
    (ha : find a (runX F ops).st.hs = some ra) (hd : find dst (runX F ops).st.hs = none) :
    ∃ r, find dst (runX F (ops ++ [.getPrefix a dst asgn offset])).st.hs = some r ∧
      unfold (runX F (ops ++ [.getPrefix a dst asgn offset])).st.dat (r+1) r =
        M.getPrefix asgn offset (unfold (runX F ops).st.dat (ra+1) ra) := by
  rw [runX_snoc]
  exact getPrefix_refines asgn offset (runX_winv F ops) ha hd

/-- value of the prefix diagram for an ordered, reduced operand: the variables `≥ offset` are fixed by `asgn` (`ONE` →
true, `ZERO` / `DONT_CARE` / out of range → false) -/
theorem C17_store_getPrefix_value (F : Fns) (ops : List RcSX.Op) (a dst ra : Nat) (asgn : List (Option Bool))
    (offset : Nat) (ha : find a (runX F ops).st.hs = some ra) (hd : find dst (runX F ops).st.hs = none)
    (hwf : M.WF (unfold (runX F ops).st.dat (ra+1) ra)) :
    ∃ r, find dst (runX F (ops ++ [.getPrefix a dst asgn offset])).st.hs = some r ∧
      ∀ ρ, denote (runX F (ops ++ [.getPrefix a dst asgn offset])).st r ρ =
        denote (runX F ops).st ra
          (fun i => if i < offset then ρ i else decide (asgn[i - offset]? = some (some true))) := by
  obtain ⟨r, h1, h2⟩ := C17_store_getPrefix F ops a dst ra asgn offset ha hd
  refine ⟨r, h1, fun ρ => ?_⟩
  unfold denote
  rw [h2]
  exact M.getPrefix_eval asgn offset ρ hwf

/-- the default value tracked for a handle written by an enabled operation is the one the C++ computes (`dvNew`), and
the other handles keep theirs -/
theorem C17_store_default_value (F : Fns) (ops : List RcSX.Op) (op : RcSX.Op) (h : Nat) :
    (runX F (ops ++ [op])).dv h =
      if op.enabled (runX F ops).st = true ∧ h = op.target then dvNew F (runX F ops).dv op else (runX F ops).dv h := by
  rw [runX_append]
  show (stepX F (runX F ops) op).dv h = _
  unfold stepX
  by_cases he : op.enabled (runX F ops).st = true
  · by_cases ht : h = op.target
    · simp [he, ht, setF]
    · simp [he, ht, setF]
  · simp [he]

/-! ### non-vacuity -/

example : find 2 (runX stdFns exS).st.hs = some 9 ∧ find 0 (runX stdFns exS).st.hs = some 3 ∧
    find 1 (runX stdFns exS).st.hs = some 6 ∧ find 3 (runX stdFns exS).st.hs = none := by decide
example : unfold (runX stdFns exS).st.dat 10 9 =
    .node 2 (.node 1 (.node 0 (.leaf 0) (.leaf 5)) (.node 0 (.leaf 7) (.leaf 5))) (.node 1 (.leaf 0) (.node 0 (.leaf 7) (.leaf 0))) := by
  decide
-- unary apply (`v ↦ 2v+1`), ternary apply (`x + 2y + 3z`): the theorems apply, and the results are as computed
example : ∃ r, find 3 (runX stdFns (exS ++ [.apply1 2 3])).st.hs = some r ∧
    ∀ ρ, denote (runX stdFns (exS ++ [.apply1 2 3])).st r ρ = 2 * denote (runX stdFns exS).st 9 ρ + 1 :=
  let ⟨r, h1, _, h3⟩ := C17_store_apply1 stdFns exS 2 3 9 (by decide) (by decide)
  ⟨r, h1, h3⟩
example : getValue (runX stdFns (exS ++ [.apply1 2 3])).st 3 (asgnOf 1) = some 11 ∧
    getValue (runX stdFns (exS ++ [.apply3 0 1 2 3])).st 3 (asgnOf 2) = some (0 + 2 * 7 + 3 * 7) := by decide
-- projection of x₁ with `max` (idempotent); the operand's diagram is ordered and reduced
example : M.WF (unfold (runX stdFns exS).st.dat 10 9) := by
  have : unfold (runX stdFns exS).st.dat 10 9 =
    .node 2 (.node 1 (.node 0 (.leaf 0) (.leaf 5)) (.node 0 (.leaf 7) (.leaf 5))) (.node 1 (.leaf 0) (.node 0 (.leaf 7) (.leaf 0))) := by
    decide
  rw [this]; simp [M.WF, M.Below]
example : ∀ v, stdFns.f2 v v = v := fun v => Nat.max_self v
example : getValue (runX stdFns (exS ++ [.project 2 3 [1]])).st 3 (asgnOf 0) = some 7 ∧
    getValue (runX stdFns exS).st 2 (asgnOf 0) = some 0 ∧ getValue (runX stdFns exS).st 2 (asgnOf 2) = some 7 := by decide
-- renaming with a NON-monotone table (x₀ ↦ 2, x₂ ↦ 0), extension by a prefix, stripping it again
example : unfold (runX stdFns (exS ++ [.rename 0 3 [2, 1, 0]])).st.dat 12 11 = .node 0 (.node 2 (.leaf 0) (.leaf 5)) (.leaf 0) := by
  decide
example : find 4 (runX stdFns (exS ++ [.extendWith 1 3 [some true, none] 3, .getPrefix 3 4 [some true, none] 3])).st.hs
    = find 1 (runX stdFns exS).st.hs := by decide
example : (runX stdFns (exS ++ [.apply1 2 3])).dv 3 = 1 ∧ (runX stdFns (exS ++ [.apply1 2 3])).dv 2 = 0 := by decide

/-!
## still not proved

* `M.WF` of the operand is a HYPOTHESIS of `C17_store_project_value` / `C17_store_getPrefix_value`: the second store invariant
  (`WfInv`, "every allocated inner node is reduced and ordered") is proved for histories over construct / copy / assign /
  apply2 / destroy only (`RcS.unfold_wf`); it is not extended to the new operations (after a `rename` with a non-monotone
  table it is false – example above).  The refinement theorems themselves need no such hypothesis.
* Projection is characterised through the tree-level theorems (`C17_project`, `C17_project_lub`); for a non-idempotent
  `f2` only the refinement `C17_store_project` is available.
* The `VoidApply` traversals have no store-level model (they do not modify the store); the memo tables `ht` are not
  modelled.
* That the store model and `OndriksMTBDD<T>` agree step by step is the correspondence check of a driver
  (`RcSX.runTrace`), not a theorem.
-/
end Vata.Props
