import Vata.Proofs.BinRel
/-!
# Utility classes `BinaryRelation`, `Identity`, `DiscontBinaryRelation` – the matrices that carry every simulation

Supports **C04** (the simulations are returned as a `DiscontBinaryRelation` and read through `get`), **C05** (`Reduce` =
`RestrictToSymmetric` + `GetQuotientProjection` on that relation) and **C16** (the LTS engine writes its result into a
`BinaryRelation` with `resize` + `set`).  Those property files model the relations as lists of pairs / lists of rows and
take the container for granted; this file is about the container: `include/vata/util/binary_relation.hh` modelled AS
CODED (`Vata/BinRel.lean`: one flat `Array Bool` of `rowSize²` cells, entry `(r, c)` in cell `r * rowSize + c`,
reallocation by `realloc`, the loops of the member functions), with the theorems of `Vata/Proofs/BinRel.lean`.  The
correspondence with the real classes is checked by the `binrel` histories (`harness/op_binrel.inc`,
`Driver/BinRelChk.lean`, `tools/gen_binrel.py`): after every step the whole observable state of every live object is
compared with the model.

The corollaries below restate the main results in the vocabulary of the three properties.  `WF m` is the class
invariant (`size ≤ rowSize`, `data.size = rowSize²`); `0 < rowSize` excludes the constructor argument `rowSize = 0`, from
which `grow` would not terminate.

## What the code does NOT promise (modelled as coded, see `BinRelEx` in `Vata/Proofs/BinRel.lean`)

* `resize(n, defVal)` and `alloc()` initialise the new entries only when the capacity is exceeded; otherwise the new
  entries show what the cells hold (`stale1_shows_old_entry`, `stale2_all_true`).
* `buildIndex`/`buildInvIndex` append to the rows the output vector already has (`Util_BinRel_index`).
* `r.transposed(r)` is not the transposed relation (`transposedSelf_not_transposed`).
* `GetQuotientProjection` on a relation that is not an equivalence: `Util_BinRel_quotient_any`.
* `DiscontBinaryRelation(rel, dict)` starts its index counter at 0: `set` on a state outside the dictionary aliases the
  state with inner index 0 (`counter_restarts_at_zero`); `set` on two new states numbers them in the unspecified order
  of evaluation of two function arguments.
-/
namespace Vata.Props
open Vata Vata.BinRel Vata.BinRel.Mat

/-- **get after set** (C04, C16: every entry written is the entry read, no other entry moves) -/
theorem Util_BinRel_get_set {m : Mat} (h : WF m) {r c r' c' : Nat} (hr : r < m.size) (hc : c < m.size)
    (hr' : r' < m.size) (hc' : c' < m.size) (v : Bool) :
    (m.set r c v).get r' c' = if (r', c') = (r, c) then v else m.get r' c' := get_set h hr hc hr' hc' v

example : WF BinRelEx.exM ∧ 1 < BinRelEx.exM.size ∧ 2 < BinRelEx.exM.size := ⟨BinRelEx.exM_wf.1, by decide, by decide⟩

/-- **resize**: old entries survive every `resize`; a `resize` that exceeds the capacity fills all new entries with
`defVal`; a `resize` inside the capacity does not touch `data_` at all (so the new entries are whatever the cells held:
nothing is promised about them) -/
theorem Util_BinRel_resize {m : Mat} (h : WF m) (hp : 0 < m.rowSize) (n : Nat) (d : Bool) :
    (m.resize n d).size = n ∧ WF (m.resize n d) ∧
    (∀ r c, r < m.size → c < m.size → (m.resize n d).get r c = m.get r c) ∧
    (m.rowSize < n → ∀ r c, r < n → c < n → (m.size ≤ r ∨ m.size ≤ c) → (m.resize n d).get r c = d) ∧
    (n ≤ m.rowSize → m.resize n d = { m with size := n }) :=
  ⟨rfl, (wf_resize h hp n d).1, fun _ _ hr hc => get_resize_old h hp n d hr hc,
   fun hn _ _ hr hc hnew => get_resize_new h hp d hn hr hc hnew, fun hn => resize_nogrow d hn⟩

example : BinRelEx.exM.rowSize < 6 ∧ BinRelEx.stale1.get 1 1 = true := ⟨by decide, BinRelEx.stale1_shows_old_entry.2⟩

/-- **C16, `buildResult`**: a FRESH relation, `resize(n)`, then `set(r, s, true)` for a list of pairs below `n` holds
exactly those pairs – this is how the LTS engine hands its result over (the pairs may repeat) -/
theorem Util_BinRel_buildResult (n : Nat) (ps : List (Nat × Nat)) (hb : ∀ p, p ∈ ps → p.1 < n ∧ p.2 < n) {r c : Nat}
    (hr : r < n) (hc : c < n) :
    (ps.foldl (fun m p => m.set p.1 p.2 true) ((Mat.mk' 0 false 16).resize n false)).get r c = decide ((r, c) ∈ ps) := by
  obtain ⟨w1, w2, _, _, w5⟩ := mk'_spec 0 false (rs := 16) (by omega)
  obtain ⟨v1, v2⟩ := wf_resize w1 w2 n false
  obtain ⟨_, _, _, i4⟩ := foldl_set_fun (fun _ _ => true) ps ((Mat.mk' 0 false 16).resize n false) v1 hb
  have hcap : n ≤ ((Mat.mk' 0 false 16).resize n false).rowSize := by have := v1.1; rw [resize_size] at this; exact this
  rw [i4 r c (by omega)]
  by_cases hin : (r, c) ∈ ps
  · simp [hin]
  · rw [if_neg hin]
    have hfalse : ((Mat.mk' 0 false 16).resize n false).get r c = false := by
      by_cases hg : (Mat.mk' 0 false 16).rowSize < n
      · rw [(resize_grow w1 w2 false hg).2.2 r c (by omega) (by omega)]
        have : (Mat.mk' 0 false 16).size = 0 := rfl
        rw [this, if_neg (by omega)]
      · rw [get_resize_nogrow false (by omega)]
        exact w5 r c (by omega) (by omega)
    simp [hfalse, hin]

example : ([(0, 1), (2, 2), (0, 1)].foldl (fun m p => m.set p.1 p.2 true) ((Mat.mk' 0 false 4).resize 3 false)).toBMat =
    [[false, true, false], [false, false, false], [false, false, true]] := by decide

/-- **split** (the block-splitting step of simulation engines): the new index `size` copies row and column `i`, its
diagonal entry is `reflexive`, every old entry is kept, the old size is returned -/
theorem Util_BinRel_split {m : Mat} (h : WF m) (hp : 0 < m.rowSize) {i : Nat} (hi : i < m.size) (refl : Bool) :
    (m.split i refl).2 = m.size ∧ (m.split i refl).1.size = m.size + 1 ∧ WF (m.split i refl).1 ∧
    ∀ r c, r ≤ m.size → c ≤ m.size → (m.split i refl).1.get r c =
      if r = m.size ∧ c = m.size then refl
      else m.get (if r = m.size then i else r) (if c = m.size then i else c) :=
  ⟨(split_spec h hp hi refl).1, (split_spec h hp hi refl).2.1, (split_spec h hp hi refl).2.2.1,
   (split_spec h hp hi refl).2.2.2.2⟩

example : WF (Mat.mk' 2 true 2) ∧ 0 < (Mat.mk' 2 true 2).rowSize ∧ 1 < (Mat.mk' 2 true 2).size ∧
    (Mat.mk' 2 true 2).size ≥ (Mat.mk' 2 true 2).rowSize := by unfold WF; decide

/-- **buildIndex / buildInvIndex** (C04: the inclusion checkers read the simulation through these indices): row `x` of
the index lists exactly the `y` with `x R y`, row `x` of the inverted index exactly the `y` with `y R x`, both in
increasing order – appended to whatever the output vector held -/
theorem Util_BinRel_index (m : Mat) (pre : List (List Nat)) :
    m.buildIndex pre = (List.range m.size).map (fun r => pre.getD r [] ++ (List.range m.size).filter (fun c => m.get r c)) ∧
    m.buildInvIndex pre = (List.range m.size).map (fun c => pre.getD c [] ++ (List.range m.size).filter (fun r => m.get r c)) ∧
    m.buildIndex [] = (List.range m.size).map (fun r => (List.range m.size).filter (fun c => m.get r c)) ∧
    m.buildInvIndex [] = (List.range m.size).map (fun c => (List.range m.size).filter (fun r => m.get r c)) ∧
    ∀ pre2, m.buildIndex2 pre pre2 = (m.buildIndex pre, m.buildInvIndex pre2) :=
  ⟨buildIndex_spec m pre, buildInvIndex_spec m pre, buildIndex_nil m, buildInvIndex_nil m, fun p2 => buildIndex2_spec m pre p2⟩

example : BinRelEx.exM.buildIndex [] = [[1], [0, 2], []] ∧ BinRelEx.exM.buildIndex [[7], [], [8, 9], [5]] = [[7, 1], [0, 2], [8, 9]] := by
  decide

/-- **transposed** into another object (upward simulation = transposed relation in several callers) -/
theorem Util_BinRel_transposed {m dst : Mat} (hd : WF dst) (hp : 0 < dst.rowSize) :
    (m.transposedInto dst).size = m.size ∧ WF (m.transposedInto dst) ∧
    ∀ r c, r < m.size → c < m.size → (m.transposedInto dst).get r c = m.get c r := by
  obtain ⟨t1, t2, t3, _, t5⟩ := transposedInto_spec (m := m) hd hp
  refine ⟨t1, t3, ?_⟩
  intro r c hr hc
  have := t3.1
  rw [t5 r c (by omega), if_pos ⟨hr, hc⟩]

example : WF (Mat.mk' 1 true 2) ∧ 0 < (Mat.mk' 1 true 2).rowSize := by unfold WF; decide

/-- **C05, step 2: `RestrictToSymmetric` = R ∩ R⁻¹**, and the flat loops are the loops of `Vata.restrictToSymmetric`
(`Vata/ReduceModel.lean`) on the corner -/
theorem Util_BinRel_restrictToSymmetric {m : Mat} (h : WF m) :
    m.restrictToSymmetric.size = m.size ∧ WF m.restrictToSymmetric ∧
    m.restrictToSymmetric.toBMat = Vata.restrictToSymmetric m.toBMat ∧
    ∀ r c, r < m.size → c < m.size → m.restrictToSymmetric.get r c = (m.get r c && m.get c r) :=
  ⟨(restrictToSymmetric_refines h).2.1, (restrictToSymmetric_refines h).1, (restrictToSymmetric_refines h).2.2.2.1,
   fun _ _ hr hc => restrictToSymmetric_spec h hr hc⟩

example : BinRelEx.exM.restrictToSymmetric.toBMat = [[false, true, false], [true, false, false], [false, false, false]] := by
  decide

/-- **C05, step 3: `GetQuotientProjection` on an equivalence** maps every index to the least index of its class; it
is `Vata.quotientProjectionIdx` of the corner; `buildClasses(headIndex)` computes the same vector -/
theorem Util_BinRel_quotient_equiv {m : Mat} (h : IsEquiv m) :
    m.quotProj = quotientProjectionIdx m.toBMat ∧ m.quotProj = (classes1 m.sym m.size).map some ∧
    ∀ i, i < m.size → ∃ k, m.quotProj.getD i none = some k ∧ k ≤ i ∧ m.get k i = true ∧
      (∀ j, j < m.size → m.get j i = true → k ≤ j) ∧
      (∀ j, j < m.size → (m.get i j = true ↔ m.quotProj.getD j none = some k)) :=
  ⟨quotProj_refines m, quotProj_eq_classes1 h, (quotProj_equiv h).2⟩

example : IsEquiv BinRelEx.exE ∧ BinRelEx.exE.quotProj = [some 0, some 1, some 0, some 1] :=
  ⟨BinRelEx.exE_equiv, by decide +kernel⟩

/-- **`GetQuotientProjection` on ANY relation** ("the result is undefined otherwise" – this is what the release build
computes): heads are the indices no earlier head is related to; every index goes to itself if it is a head and
otherwise to the LAST earlier head related to it; only entries above the diagonal are read -/
theorem Util_BinRel_quotient_any (m : Mat) :
    m.quotProj.length = m.size ∧
    ∀ i, i < m.size → ∃ k, m.quotProj.getD i none = some k ∧ k ≤ i ∧ m.isHead k ∧ (k = i ∨ m.get k i = true) ∧
      (∀ k', m.isHead k' → k < k' → k' < i → m.get k' i = false) ∧
      (k = i → ∀ k', m.isHead k' → k' < i → m.get k' i = false) := quotProj_general m

example : BinRelEx.exP.quotProj = [some 0, some 0, some 0] := by decide +kernel

/-- **C04 / C05: `DiscontBinaryRelation`**: `get` reads the inner relation at the indices of the dictionary; and
`GetQuotientProjection` is `projToMap order` (`Vata/ReduceModel.lean`) of the inner projection when the dictionary
numbers the states in the order `order` – i.e. `quotientMapWith` of the `Reduce` model is what the two classes compute -/
theorem Util_BinRel_discont {rel : Mat} {ps : List (Nat × Nat)} (n1 : (ps.map (·.1)).Nodup) (n2 : (ps.map (·.2)).Nodup) :
    (∀ x y i j, (x, i) ∈ ps → (y, j) ∈ ps → (Disc.ofRel rel (Dict.ofList ps)).get x y = .ok (rel.get i j)) ∧
    (∀ order : List Nat, order.length = rel.size →
      (∀ i, i < order.length → (Dict.ofList ps).bwd.lookup i = order[i]?) →
      (Disc.ofRel rel (Dict.ofList ps)).quotProj = .ok (projToMap order (quotientProjectionIdx rel.toBMat))) :=
  ⟨fun _ _ _ _ hx hy => Disc.get_ofRel n1 n2 hx hy,
   fun order hlen hb => Disc.quotProj_eq_projToMap (Disc.ofRel rel (Dict.ofList ps)) order hlen hb⟩

example : ([(5, 0), (9, 1), (7, 2), (4, 3)].map (·.1)).Nodup ∧ ([(5, 0), (9, 1), (7, 2), (4, 3)].map (·.2)).Nodup ∧
    [5, 9, 7, 4].length = BinRelEx.exE.size ∧
    ∀ i, i < [5, 9, 7, 4].length → (Dict.ofList [(5, 0), (9, 1), (7, 2), (4, 3)]).bwd.lookup i = [5, 9, 7, 4][i]? := by
  decide +kernel

/-- **`Identity`** (the relation used when no simulation is given): every index is its own class -/
theorem Util_BinRel_identity (a : Ident) :
    a.classes1 = List.range a.size ∧ a.classes2 = (List.range a.size, List.range a.size) :=
  ⟨Ident.classes1_eq_range a, Ident.classes2_eq_range a⟩

example : (Ident.mk 3).classes1 = [0, 1, 2] := by decide

/-- **the history theorem**: for every list of operations (constructors, copy, assignment, `set`, `reset`, `resize`,
`alloc`, `split`, `transposed` – also into the object itself –, `&=`, `RestrictToSymmetric`, and all queries) applied
to a pool of live relations, the flat matrices and the abstract model (`ARel`: size, capacity and a function
`Nat → Nat → Bool`; every operation defined by a closed formula) refuse the same steps, return the same values, and
show the same observable state (size and all entries below the size of every live relation) -/
theorem Util_BinRel_history (ops : List Op) :
    (runC [] ops).2 = (runA [] ops).2 ∧
    (runC [] ops).1.map (fun m => (m.size, m.toBMat)) = (runA [] ops).1.map (fun a => (a.size, a.rows)) := history ops

example : (runC [] BinRelEx.exOps).2.length = 14 ∧ (runC [] BinRelEx.exOps).2[8]? = some none := by decide +kernel

/-!
## Not proved

* Nothing is proved about the C++ itself: the tie between `Vata/BinRel.lean` and `binary_relation.hh` is the `binrel`
  correspondence check (histories, every step compared).
* `size_t` overflow (`rowSize * rowSize`, `r * rowSize + c`) and allocation failure are outside the model (`Nat`).
* The constructor argument `rowSize = 0` is excluded (`0 < rowSize`): `grow` would loop for ever.
* Preconditions (`assert`s: indices below `size`, equal sizes for `&=`, `i < size` for `split`) are hypotheses; the
  release build does not check them and the model says nothing about calls that violate them.
* `DiscontBinaryRelation`: only `get` on a relation built from (relation, dictionary) and `GetQuotientProjection` have
  theorems; `set` (with its evaluation-order dependent numbering and the counter that restarts at 0), the index
  builders with their `std::out_of_range`, `ToString` are modelled and checked against the C++ but have no theorem
  beyond the examples.  The unordered-map iteration order of `ToString`/`operator<<` is not modelled (compared as a set).
* `Identity::buildIndex` and the `operator<<` of the three classes are modelled (`Ident.buildIndex`, `print`) and
  compared, without a theorem.
-/

end Vata.Props
