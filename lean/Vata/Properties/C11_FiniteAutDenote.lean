import Vata.Proofs.CowHeapFADenote4
import Vata.Properties.C10
import Vata.Properties.C11_FiniteAut
/-!
# C11 (finite automata) – what the values of the heap model DENOTE

> After an explicit tree or finite automaton is copied, assigned or moved, any later modification of one object is never
> visible through another object, and automata returned by operations stay unchanged when their operands are modified or
> destroyed afterwards.

`Vata/Properties/C11_FiniteAut.lean` proves this for the heap model `Vata/CowHeapFA.lean` of `ExplicitFiniteAutCore`, on the
VALUES `FAVal` read through the handles (the container contents in insertion order), with the value-level functions `vAdd`,
`vReverse`, `vUnionDisj`, `vReindex`, `vUnreach`, `vUseless`, `vCandidate` that mirror the C++ loops.  It left open that these
functions compute the automata operations of C10.  This file serves that item.

## how the C++ is read into the model

Nothing new is modelled: the C++ is read as in `Vata/CowHeapFA.lean` (every quoted line is there).  An object denotes the
automaton `FAVal.toNFAS` = (`startStates_`, `finalStates_`, the triples yielded by
`for (ls : *transitions_) for (s : *ls.second) for (rs : s.second)`, `startStateToSymbols_`) – an `NFAS` of
`Vata/NfaStart.lean`, whose operations `nfas…` are the C10 models with their language theorems.

* `NEquiv A B` ("the same up to list order"): the same SETS of start states, final states, transitions, and the same
  start-symbol map as a function (`smFind`, i.e. `find` on the map: the same keys with the same sets).  The language depends
  on this only (`C11_fa_denote_lang`).
* the value-level functions work on the hash containers (`lookup` = `find`, `upsert` = `uniqueCluster`, `missing` =
  `insert` that never overwrites, the work-list loop `reachLoop`); the `nfas…` operations are list comprehensions.  The
  theorems below say the two agree: e.g. that the stack-driven loop of `RemoveUnreachableStates`, run on its fuel, returns
  exactly the states reachable from the start states (`C11_fa_reach_exact`).
* representation invariant `WFV`: one cluster per state (`KeysNodup`: the container is a map) and no empty tuple among the
  right-hand sides (they are singletons `[r]`).  It holds for every value of every history (`C11_fa_history_wf`) and is needed
  where stated (`C11_fa_denote_unreach_needs_keys`, `C11_fa_denote_reindex_needs_tuples`: values that are not container
  contents).

## what is abstracted

As in `C11_FiniteAut.lean`.  In addition: `ReindexStates(dst, idx)` into an EXISTING object has no name in `NfaStart.lean`;
it is stated as `nfasUnionDisjoint dst (nfasMap idx src)` (componentwise union with the image), and `Union` =
two of these into a fresh object = `nfasUnionWith` (`C11_fa_denote_union`).
-/
namespace Vata.Props
open Vata Vata.W
open Vata.CowHeapFA

/-- automata that are the same up to list order have the same language, the same symbols at every state, the same
reachable states -/
theorem C11_fa_denote_lang {A B : NFAS} (h : NEquiv A B) (w : List Nat) :
    acceptsW A.toNFA w = acceptsW B.toNFA w ∧ (∀ q, A.symsOf q = B.symsOf q) ∧
    (∀ q, NfaReach A.toNFA q ↔ NfaReach B.toNFA q) :=
  ⟨h.lang w, h.symsOf, h.reach⟩

/-! ### the operations, one by one -/

/-- `AddTransition(l, a, r)`: the transition is added – in whatever state the containers are (no hypothesis) -/
theorem C11_fa_denote_add (l a r : Nat) (v : FAVal) (w : List Nat) :
    NEquiv (vAdd l a r v).toNFAS (nfasAddTrans v.toNFAS l a r) ∧
    acceptsW (vAdd l a r v).toNFA w = acceptsW (nfasAddTrans v.toNFAS l a r).toNFA w :=
  ⟨vAdd_denote l a r v, (vAdd_denote l a r v).lang w⟩

example : (vAdd 0 5 1 (vAdd 0 5 2 vNew)).toNFA.trans = [(0, 5, 2), (0, 5, 1)] ∧
    (nfasAddTrans (nfasAddTrans vNew.toNFAS 0 5 2) 0 5 1).trans = [(0, 5, 2), (0, 5, 1)] := by decide +kernel

/-- `Reverse()`: the value-level loop (`AddTransition(r, a, l)` for every transition, the start-symbol map extended by an
empty entry per final state) builds `nfasReverse`; its language is the mirror image (C10) – no hypothesis -/
theorem C11_fa_denote_reverse (v : FAVal) (w : List Nat) :
    NEquiv (vReverse v).toNFAS (nfasReverse v.toNFAS) ∧
    acceptsW (vReverse v).toNFA w = acceptsW v.toNFA w.reverse := by
  refine ⟨vReverse_denote v, ?_⟩
  refine ((vReverse_denote v).lang w).trans ?_
  exact C10_reverse_exact v.toNFA w

/-- the lists differ (the value groups the transitions by cluster), the sets do not -/
example : (vReverse ⟨⟨[2], [0], [(0, [7])]⟩, [(0, [(5, [[1]]), (6, [[2]])]), (1, [(6, [[2]])])]⟩).toNFA.trans =
      [(1, 5, 0), (2, 6, 0), (2, 6, 1)] ∧
    (nfasReverse (FAVal.toNFAS ⟨⟨[2], [0], [(0, [7])]⟩, [(0, [(5, [[1]]), (6, [[2]])]), (1, [(6, [[2]])])]⟩)).trans =
      [(1, 5, 0), (2, 6, 0), (2, 6, 1)] := by decide +kernel

/-- the work-list loop of `RemoveUnreachableStates` (a `std::vector` used as a stack, run on the fuel of `reachStates`)
ends with exactly the states reachable from the start states, for a value whose container has one cluster per state -/
theorem C11_fa_reach_exact (v : FAVal) (hk : Store.KeysNodup v.trans) (q : Nat) :
    q ∈ reachStates v ↔ NfaReach v.toNFA q :=
  mem_reachStates v hk q

/-- `RemoveUnreachableStates()`: for a value with one cluster per state, the result (the reachable final states, the
operand's clusters of the reachable states, the whole start-symbol map) is `nfasRemoveUnreachable`; the language is kept -/
theorem C11_fa_denote_unreach (v : FAVal) (hk : Store.KeysNodup v.trans) (w : List Nat) :
    NEquiv (vUnreach v).toNFAS (nfasRemoveUnreachable v.toNFAS) ∧
    acceptsW (vUnreach v).toNFA w = acceptsW v.toNFA w := by
  refine ⟨vUnreach_denote v hk, ?_⟩
  refine ((vUnreach_denote v hk).lang w).trans ?_
  exact (C10_trimming_preserves v.toNFA w).1

example : Store.KeysNodup (FAVal.mk ⟨[2], [0], []⟩ [(0, [(5, [[1]])]), (1, [(6, [[2], [0]])]), (3, [(5, [[0]])])]).trans := by
  unfold Store.KeysNodup; decide
example : (vUnreach ⟨⟨[2, 3], [0], []⟩, [(0, [(5, [[1]])]), (1, [(6, [[2], [0]])]), (3, [(5, [[0]])])]⟩).toNFA.trans =
    [(0, 5, 1), (1, 6, 2), (1, 6, 0)] := by decide +kernel

/-- the hypothesis is needed: a "value" with two clusters for state 0 (not the contents of a map) – `find` sees the first
cluster only, the denoted automaton has the transitions of both -/
theorem C11_fa_denote_unreach_needs_keys :
    let v : FAVal := ⟨⟨[], [0], []⟩, [(0, [(5, [[1]])]), (0, [(6, [[2]])])]⟩
    (0, 6, 2) ∈ (nfasRemoveUnreachable v.toNFAS).trans ∧ (0, 6, 2) ∉ (vUnreach v).toNFAS.trans := by decide +kernel

/-- `RemoveUselessStates()` = `RemoveUnreachableStates().Reverse().RemoveUnreachableStates().Reverse()`, as coded, is
`nfasRemoveUseless`; the language is kept (the intermediate results of `Reverse` have one cluster per state by
construction, so only the operand needs the hypothesis) -/
theorem C11_fa_denote_useless (v : FAVal) (hk : Store.KeysNodup v.trans) (w : List Nat) :
    NEquiv (vUseless v).toNFAS (nfasRemoveUseless v.toNFAS) ∧
    acceptsW (vUseless v).toNFA w = acceptsW v.toNFA w := by
  refine ⟨vUseless_denote v hk, ?_⟩
  refine ((vUseless_denote v hk).lang w).trans ?_
  exact (C10_trimming_preserves v.toNFA w).2

example : (vUseless ⟨⟨[2], [0, 3], []⟩, [(0, [(5, [[1]])]), (1, [(6, [[2], [4]])]), (3, [(5, [[0]])]), (7, [(5, [[2]])])]⟩).toNFA.trans =
    [(1, 6, 2), (0, 5, 1), (3, 5, 0)] := by decide +kernel

/-- `UnionDisjointStates(lhs, rhs)`: when no state has a cluster in both operands (and `rhs` has one cluster per state) the
result is `nfasUnionDisjoint`; if moreover the operands have no state in common – the C++ precondition – the language is the
union (C10).  In any case the transitions of the result are among those of `nfasUnionDisjoint`. -/
theorem C11_fa_denote_unionDisj (s t : FAVal) (ht : Store.KeysNodup t.trans) (hd : DisjKeys s t) (w : List Nat) :
    NEquiv (vUnionDisj s t).toNFAS (nfasUnionDisjoint s.toNFAS t.toNFAS) ∧
    ((∀ q, q ∈ nfaStates s.toNFA → q ∈ nfaStates t.toNFA → False) →
      acceptsW (vUnionDisj s t).toNFA w = (acceptsW s.toNFA w || acceptsW t.toNFA w)) ∧
    (∀ s' t' : FAVal, ∀ e, e ∈ (vUnionDisj s' t').toNFAS.trans → e ∈ (nfasUnionDisjoint s'.toNFAS t'.toNFAS).trans) := by
  refine ⟨vUnionDisj_denote s t ht hd, fun hdis => ?_, vUnionDisj_sub⟩
  refine ((vUnionDisj_denote s t ht hd).lang w).trans ?_
  exact (C10_unionDisjoint_exact s.toNFA t.toNFA w).1 hdis

example : Store.KeysNodup (FAVal.mk ⟨[11], [10], [(10, [7])]⟩ [(10, [(5, [[11]])])]).trans ∧
    DisjKeys ⟨⟨[2], [0], [(0, [7])]⟩, [(0, [(5, [[1]])]), (1, [(6, [[2]])])]⟩ ⟨⟨[11], [10], [(10, [7])]⟩, [(10, [(5, [[11]])])]⟩ := by
  unfold Store.KeysNodup DisjKeys; decide

/-- `DisjKeys` is needed: `insert` does not overwrite – the cluster of state 0 of the right operand is dropped -/
theorem C11_fa_denote_unionDisj_needs_disjoint :
    let s : FAVal := ⟨⟨[], [0], []⟩, [(0, [(5, [[1]])])]⟩
    let t : FAVal := ⟨⟨[], [0], []⟩, [(0, [(6, [[2]])])]⟩
    (0, 6, 2) ∈ (nfasUnionDisjoint s.toNFAS t.toNFAS).trans ∧ (0, 6, 2) ∉ (vUnionDisj s t).toNFAS.trans := by decide +kernel

/-- `src.ReindexStates(dst, idx)`: `dst` becomes the componentwise union of `dst` and the image `nfasMap idx src` (start
symbols: `insert` of `(idx s, GetStartSymbols(s))` per start state, an entry of `dst` wins); if `idx` is injective on the
states of `src` and the image avoids the states of `dst`, the language is the union (C10).  `src` must not hold an empty
tuple. -/
theorem C11_fa_denote_reindex (idx : Nat → Nat) (s d : FAVal) (hs : TuplesOk s.trans) (w : List Nat) :
    NEquiv (vReindex idx s d).toNFAS (nfasUnionDisjoint d.toNFAS (nfasMap idx s.toNFAS)) ∧
    (NfaInjOn idx (nfaStates s.toNFA) →
      (∀ q, q ∈ nfaStates d.toNFA → q ∈ nfaStates (nfaMap idx s.toNFA) → False) →
      acceptsW (vReindex idx s d).toNFA w = (acceptsW d.toNFA w || acceptsW s.toNFA w)) := by
  refine ⟨vReindex_denote idx s d hs, fun hinj hdis => ?_⟩
  refine ((vReindex_denote idx s d hs).lang w).trans ?_
  show acceptsW (nfaUnionDisjoint d.toNFA (nfaMap idx s.toNFA)) w = _
  rw [(C10_unionDisjoint_exact d.toNFA (nfaMap idx s.toNFA) w).1 hdis, (C10_reindex_exact idx s.toNFA w).1 hinj]

example : TuplesOk (FAVal.mk ⟨[11], [10], [(10, [7])]⟩ [(10, [(5, [[11]])])]).trans := by unfold TuplesOk; decide
example : (vReindex (fun q => q + 1) ⟨⟨[11], [10], [(10, [7])]⟩, [(10, [(5, [[11]])])]⟩ (vAdd 0 5 1 vNew)).toNFAS.trans =
    [(0, 5, 1), (11, 5, 12)] := by decide +kernel

/-- the hypothesis is needed: an empty "tuple" is read as state 0 and reindexed as nothing -/
theorem C11_fa_denote_reindex_needs_tuples :
    let s : FAVal := ⟨⟨[], [], []⟩, [(0, [(5, [[]])])]⟩
    (1, 5, 1) ∈ (nfasUnionDisjoint vNew.toNFAS (nfasMap (fun q => q + 1) s.toNFAS)).trans ∧
    (1, 5, 1) ∉ (vReindex (fun q => q + 1) s vNew).toNFAS.trans := by decide +kernel

/-- `GetCandidateTree()` – PARTIAL.  Proved: the result is (up to list order) `nfasRemoveUseless` of the local `res`, and
`res` is a sub-automaton of the object, so the language of the result is a subset of the language of the object.
Full statement, NOT proved: `NEquiv (vCandidate v).toNFAS (nfasCandidate v.toNFAS)` for `WFV v` (the breadth-first search of
`candSearch` visits the states in the order of `nfaCandLoop`), which would give with `C10_witness` that the result is empty
only if the language of the object is. -/
theorem C11_fa_denote_candidate_partial (v : FAVal) :
    NEquiv (vCandidate v).toNFAS (nfasRemoveUseless (vCandRaw v).toNFAS) ∧
    NfaSub (vCandRaw v).toNFA v.toNFA ∧
    ∀ w, acceptsW (vCandidate v).toNFA w = true → acceptsW v.toNFA w = true :=
  ⟨vCandidate_denote_useless v, vCandRaw_sub v, vCandidate_sub_lang v⟩

example : (vCandidate ⟨⟨[2], [0], [(0, [7])]⟩, [(0, [(5, [[1]])]), (1, [(6, [[2], [0]])]), (3, [(5, [[0]])])]⟩).toNFA.trans =
    [(1, 6, 2), (1, 6, 0), (0, 5, 1)] := by decide +kernel

/-! ### histories -/

/-- in every history every live value is the contents of a map with non-empty right-hand sides: the hypotheses of the
theorems above hold for every object a program can build -/
theorem C11_fa_history_wf (ops : List Op) (h : Nat) (v : FAVal) (hv : absFA (exec ops) h = some v) :
    Store.KeysNodup v.trans ∧ TuplesOk v.trans :=
  ⟨(envWF_history ops h v hv).keys, (envWF_history ops h v hv).tup⟩

/-- **after any operation list, one more operation**: the automata denoted by the live handles are, handle by handle and up
to list order, what `denStep` – `specStep` with `nfasAddTrans`, `nfasSetFinal`, `nfasSetStart`, `nfasSetExistingStart`,
`nfasUnionDisjoint`, `nfasMap`, `nfasRemoveUnreachable`, `nfasReverse`, `nfasRemoveUseless` in place of the value-level
functions – makes of the automata denoted before; hence every live handle's language is the language of that automaton, and
liveness agrees.  Hypotheses: for `UnionDisjointStates` the operands have no common source state (`OpOk`, part of what the
C++ `assert`s); the operation is not `GetCandidateTree` (`NotCand`, see `C11_fa_denote_candidate_partial`).  Since `ops` is
arbitrary this is the statement for every step of every history. -/
theorem C11_fa_history_languages (ops : List Op) (op : Op) (hok : OpOk (absFA (exec ops)) op) (hnc : NotCand op) :
    EnvEq (den (absFA (exec (ops ++ [op])))) (denStep (den (absFA (exec ops))) op) ∧
    ∀ h w, langOf (den (absFA (exec (ops ++ [op])))) h w = langOf (denStep (den (absFA (exec ops))) op) h w :=
  ⟨fa_history_denote_step ops op hok hnc, fun h w => (fa_history_denote_step ops op hok hnc).lang h w⟩

/-- handles other than the target of an operation keep their automaton, hence their language (every operation, including
`GetCandidateTree`); and `denStep` changes nothing else either -/
theorem C11_fa_language_isolation (ops : List Op) (op : Op) (x : Nat) (hx : x ≠ target op) (w : List Nat) :
    den (absFA (exec (ops ++ [op]))) x = den (absFA (exec ops)) x ∧
    langOf (den (absFA (exec (ops ++ [op])))) x w = langOf (den (absFA (exec ops))) x w ∧
    ∀ a : Nat → Option NFAS, denStep a op x = a x := by
  have e : absFA (exec (ops ++ [op])) x = absFA (exec ops) x := by
    have := C11_fa_result_keeps_value ops [op] x (fun o ho => by
      rw [List.mem_singleton] at ho; rw [ho]; exact hx)
    exact this
  refine ⟨?_, ?_, fun a => denStep_other a op x hx⟩
  · simp only [den, e]
  · simp only [langOf, den, e]

/-- the language read through handle 7 after `.reverse 1 7` at the end of the history `faOps.take 17` is the mirror image of
the language of object 1, and object 1 keeps its language -/
example : langOf (den (absFA (exec (faOps.take 17 ++ [.reverse 1 7])))) 7 [6, 5] = some true ∧
    langOf (den (absFA (exec (faOps.take 17)))) 1 [5, 6] = some true ∧
    langOf (den (absFA (exec (faOps.take 17 ++ [.reverse 1 7])))) 1 [5, 6] = some true := by decide +kernel
example : OpOk (absFA (exec (faOps.take 17))) (.reverse 1 7) ∧ NotCand (.reverse 1 7) := ⟨trivial, trivial⟩
/-- the precondition of `UnionDisjointStates` at its place in `faOps` -/
example : OpOk (absFA (exec (faOps.take 10))) (.unionDisj 1 2 3) := by
  intro s t hs ht
  have e1 : absFA (exec (faOps.take 10)) 1 =
      some ⟨⟨[2], [0], [(0, [7])]⟩, [(0, [(5, [[1]])]), (1, [(6, [[2]])]), (3, [(5, [[0]])])]⟩ := by decide +kernel
  have e2 : absFA (exec (faOps.take 10)) 2 = some ⟨⟨[11], [10], [(10, [7])]⟩, [(10, [(5, [[11]])])]⟩ := by decide +kernel
  rw [e1] at hs; rw [e2] at ht
  cases hs; cases ht
  unfold DisjKeys; decide

/-!
## still not proved

* `GetCandidateTree`: `NEquiv (vCandidate v).toNFAS (nfasCandidate v.toNFAS)` (and the same for the internal step
  `vCandRaw` / `nfasCandidateRaw`).  Proved is only `C11_fa_denote_candidate_partial` (result = `nfasRemoveUseless` of the
  local `res`; sub-automaton; sub-language).  Missing: the lock-step simulation of `candStart` / `candLoop` / `candInner`
  (queue, `reachableStates`, early `return`) with `nfaCandLoop` (which also needs that the fuel `|states| + 1` of
  `nfaCandidateRaw` suffices when the language is empty), and therefore "the witness is non-empty iff the language is".
  Consequently `C11_fa_history_languages` excludes the operations `candRaw` / `candidate` (`NotCand`).
* The composed statement is given per step after an ARBITRARY history (`C11_fa_history_languages`), not as one equation
  between `exec ops` and `ops.foldl denStep`: that form would need every `nfas…` operation to respect `NEquiv`, which
  `nfasMap` with a non-injective `idx` and `nfasCandidate` (both depend on the ORDER of the lists) do not; proved congruences:
  `nfasReverse_congr`, `nfasRemoveUnreachable_congr`, `nfasRemoveUseless_congr` (`Vata/Proofs/CowHeapFADenote2.lean`).
* `Union(lhs, rhs)` = `unionOps` is covered step by step (`new`, `reindex`, `reindex`: the result denotes
  `nfasUnionDisjoint (nfasUnionDisjoint nfasEmpty (nfasMap fA a)) (nfasMap fB b)`); that this is `nfasUnionWith fA fB a b`
  up to `NEquiv` is not stated as a theorem.
* `OpOk` asks of `UnionDisjointStates` only that no state has a cluster in both operands; the C++ `assert`s more (no common
  state at all), which is what the language statement of `C11_fa_denote_unionDisj` uses.
* As before: that `step` is a faithful transcription of the C++ is not a theorem; the link is the driver comparison of
  `CowHeapFA.run` with the real class.
-/
end Vata.Props
