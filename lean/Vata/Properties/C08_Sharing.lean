import Vata.Proofs.BddShare
/-!
# C08 – BDD automata are handles on SHARED transition tables: isolation and the precondition of the in-place operations

Corollaries of `Vata/Proofs/BddShare.lean` (model: `Vata/BddShare.lean`) for the clause of property C08

> None of these calls changes the language of an operand [or of any other live automaton]

and for "Union and UnionDisjointStates yield exactly the union" when automata SHARE a transition table.

How the statement is read into the model.  `BDDBUTreeAutCore` / `BDDTDTreeAutCore` hold a `shared_ptr` to a table; copies share
it.  The model is a heap of tables (a table = a list of rules, with `use_count`) and a pool of handles (table id, own final
states and – bottom-up only – own leaf rules: `TransTableWrapper::nullaryMtbdd_` is a member of the object, not of the
table); `step` is every operation of the `bddh` histories as coded with respect to sharing (`Vata/BddShare.lean`, table in
the header).  The language of a handle is the language of (rules of its table + its leaf rules, its final states) – the
automaton its dump shows.  ONE operation writes into a possibly shared table without copying it: `UnionDisjointStates` on
operands with distinct tables copies the LEFT operand (sharing its table) and `SetMtbdd`s every entry of the right operand's
table into it.  `AddTransition` (loading into an existing object) copies a shared table first (repair 810f4347).

## The precondition `pre` (exact statement)

Write `T(x)` for the rules of the table of `x`, `N(x)` for its own leaf rules, `F(x)` for its final states, and
`st(b) = states of T(b) ∪ parents of N(b) ∪ F(b)` (all states of the automaton `b` denotes – of its WHOLE table).

* `uniondisj!a!b`, distinct tables:
  **T** no state of `st(b)` occurs in a rule of `T(a)` (the whole table: rules written by earlier in-place unions whose
  results are long dead included);
  **A** no state of `st(b)` is the parent of a leaf rule in `N(a)` or in `F(a)`;
  **H** no OTHER live handle on `a`'s table has a final state that is the parent of a rule of `T(b)`.
* `union!a!b` / `uniondisj!a!b`, one table (result: that table, `N(a) ∪ N(b)`, `F(a) ∪ F(b)`):
  **S** with `C₁` = upward closure, under the rules of the table, of the parents of `N(b) \ N(a)` and `C₂` the same for
  `N(a) \ N(b)`: every final state of the result is in `F(a) \ C₁` or in `F(b) \ C₂`.  (Top-down: `N = ∅`, so S always
  holds – the shared-table branch of the top-down encoding is exact.)
* `loadinto!a!B`: **L** the numbers of `B` do not occur in `st(a)`.
* all other steps (`def`, `copy`, `assign`, `kill`, `final`, `union` of distinct tables, `isect`, `unreach`, `useless`): none.

Sufficiency: `C08_sharing_history`, `C08_sharing_isolation`, `C08_sharing_results`.  Necessity of every clause:
`C08_sharing_necessity_*` (kernel-checked histories violating exactly one clause).
-/
namespace Vata.Props
open Vata Vata.BddShare

/-- **History theorem.**  For every `bddh` history (from the empty pool) whose steps are inside `pre`, in either encoding: the
history is defined; afterwards the `use_count` of every table equals the number of live handles on it, allocated tables
have an owner and owners have an allocated table (`Inv`); and every entry denotes exactly the language that the
specification of the operations (`specStep`: a copy / `assign` the language of its source, `Union` and
`UnionDisjointStates` the union, `Intersection` the intersection, the trimmings the language of the operand, loading into
an object the union with the loaded automaton, EVERY OTHER ENTRY its previous language) assigns to it. -/
theorem C08_sharing_history (enc : Enc) (ss : List Step) (hp : preRun enc init ss = true) :
    ∃ σ Ls, run enc init ss = some σ ∧ Inv σ ∧ specRun enc init [] ss = some Ls ∧ Agree σ Ls :=
  history_correct enc ss hp

example (enc : Enc) : preRun enc init BddShareEx.good = true := BddShareEx.good_pre enc

/-- **Isolation.**  After ANY defined history (inside the precondition or not), a step inside its precondition leaves every
live entry other than its target (`assign`, `kill`, `loadinto`, `final` have a target; results are new entries) alive with
exactly the language it had.  (The DUMP of a bystander may change: after an in-place `UnionDisjointStates` every handle on
the written table lists the new rules.) -/
theorem C08_sharing_isolation {enc : Enc} {ss : List Step} {σ σ' : St} (hr : run enc init ss = some σ) (s : Step)
    (hpre : pre enc σ s = true) (hs : BddShare.step enc σ s = some σ') {k : Nat} {h : Hnd} (hk : σ.hnd k = some h)
    (ht : target s ≠ some k) : ∃ h', σ'.hnd k = some h' ∧ ∀ t, σ'.lang h' t = σ.lang h t :=
  step_isolation (run_inv ss inv_init hr) s hpre hs hk ht

example : ∃ σ, run .td init (BddShareEx.good.take 4) = some σ ∧ pre .td σ (.uniondisj 0 1) = true ∧
    (BddShare.step .td σ (.uniondisj 0 1)).isSome = true ∧ (σ.hnd 3).isSome = true := by
  refine ⟨_, (Option.eq_some_of_isSome (o := run .td init (BddShareEx.good.take 4)) (by decide)), ?_⟩
  decide

/-- **Results.**  In a state reached by any defined history, for live operands `i`, `j` and a step inside its precondition:
`Union` and `UnionDisjointStates` (shared-table branch, fresh-table branch, in-place branch alike) create an entry whose
language is the union, `Intersection` the intersection, the trimmings and `copy` the language of the operand;
`loadinto!i!B` makes entry `i` accept `L(i) ∪ L(B)`. -/
theorem C08_sharing_results {enc : Enc} {ss : List Step} {σ σ' : St} (hr : run enc init ss = some σ) {i j : Nat} {hi hj : Hnd}
    (h1 : σ.hnd i = some hi) (h2 : σ.hnd j = some hj) :
    (∀ s, s = Step.union i j ∨ s = Step.uniondisj i j → pre enc σ s = true → BddShare.step enc σ s = some σ' →
      ∃ h', σ'.hnd σ.pool.length = some h' ∧ ∀ t, σ'.lang h' t = (σ.lang hi t || σ.lang hj t)) ∧
    (BddShare.step enc σ (.isect i j) = some σ' →
      ∃ h', σ'.hnd σ.pool.length = some h' ∧ ∀ t, σ'.lang h' t = (σ.lang hi t && σ.lang hj t)) ∧
    (∀ s, s = Step.unreach i ∨ s = Step.useless i ∨ s = Step.copy i → BddShare.step enc σ s = some σ' →
      ∃ h', σ'.hnd σ.pool.length = some h' ∧ ∀ t, σ'.lang h' t = σ.lang hi t) ∧
    (∀ B, pre enc σ (.loadinto i B) = true → BddShare.step enc σ (.loadinto i B) = some σ' →
      ∃ h', σ'.hnd i = some h' ∧ ∀ t, σ'.lang h' t = (σ.lang hi t || accepts B t)) := by
  have I := run_inv ss inv_init hr
  have gi : getS (semOf σ) i = some (σ.lang hi) := by rw [getS_semOf, h1]; rfl
  have gj : getS (semOf σ) j = some (σ.lang hj) := by rw [getS_semOf, h2]; rfl
  have len : (semOf σ).length = σ.pool.length := by simp [semOf]
  have hil : i < (semOf σ).length := by rw [len]; exact hnd_lt σ h1
  have last : ∀ x, getS (semOf σ ++ [x]) σ.pool.length = x := fun x => by rw [getS_push, len, if_pos rfl]
  refine ⟨?_, ?_, ?_, ?_⟩
  · rintro s (rfl | rfl) hpre hs
    · exact step_result I _ hpre hs (by simp only [specStep, gi, gj, Option.bind_some, Option.map_some]) (last _)
    · exact step_result I _ hpre hs (by simp only [specStep, gi, gj, Option.bind_some, Option.map_some]) (last _)
  · intro hs
    exact step_result I _ rfl hs (by simp only [specStep, gi, gj, Option.bind_some, Option.map_some]) (last _)
  · rintro s (rfl | rfl | rfl) hs
    · exact step_result I _ rfl hs (by simp only [specStep, gi, Option.map_some]) (last _)
    · exact step_result I _ rfl hs (by simp only [specStep, gi, Option.map_some]) (last _)
    · exact step_result I _ rfl hs (by simp only [specStep, gi, Option.map_some]) (last _)
  · intro B hpre hs
    exact step_result I _ hpre hs
      (Ls' := (semOf σ).set i (some (fun t => σ.lang hi t || accepts B t)))
      (by simp only [specStep, gi, Option.map_some])
      (by rw [getS_set _ hil, if_pos rfl])

/-- **Reference counts.**  After every defined history (no precondition): the `use_count` of every table is the number of
live handles on it; a live handle's table is allocated (nothing is freed while shared); an allocated table has an owner (no
leak). -/
theorem C08_sharing_refcount {enc : Enc} {ss : List Step} {σ : St} (hr : run enc init ss = some σ) :
    (∀ t, σ.rcOf t = σ.refs t) ∧
    (∀ k h, σ.hnd k = some h → ∃ c, σ.tabs h.tid = some c ∧ c.rc = σ.refs h.tid ∧ 0 < c.rc) ∧
    (∀ t c, σ.tabs t = some c → 0 < σ.refs t) :=
  ⟨(run_inv ss inv_init hr).rc, fun _ _ hk => live_table_allocated hr hk, fun _ _ hc => no_leak hr hc⟩

example (enc : Enc) :
    (run enc init BddShareEx.good).map (fun σ => (List.range σ.next).map σ.rcOf) = some [5, 0, 1, 1, 1, 1, 1, 1] :=
  (BddShareEx.good_sharing enc).2

/-- under clause T nothing is replaced: the in-place write appends the right operand's table (the entries of the right table
REPLACE entries with the same key otherwise – `overwrite`) -/
theorem C08_sharing_write_appends {enc : Enc} {σ : St} {hi hj : Hnd} (hT : clauseT σ hi hj = true) :
    overwrite enc (σ.trules hi.tid) (σ.trules hj.tid) = σ.trules hi.tid ++ σ.trules hj.tid :=
  clauseT_overwrite hT

example : overwrite .td [⟨1, [], 5⟩, ⟨2, [5], 6⟩] [⟨3, [], 5⟩] = [⟨2, [5], 6⟩, ⟨3, [], 5⟩] := by decide

/-! ## necessity of the clauses

Every theorem: the history is inside the precondition up to its last step, the last step violates exactly the named clause
(the triple is `(T, A, H)`), and afterwards a language is wrong.  `BddShareEx.hT` … are the histories; see their doc comments
in `Vata/Proofs/BddShare.lean`. -/

open BddShareEx in
/-- **clause T – the stale-rule scenario** (both encodings): after `r = UnionDisjointStates(a, b)` the table of `a` keeps `b`'s
rules even when `r` is destroyed; `UnionDisjointStates(a, b2)` with a `b2` reusing `b`'s numbers yields a result that accepts
`9(3(6))`, which neither `a` nor `b2` accepts.  Only the TABLE of `a` knows the numbers: clauses A and H hold. -/
theorem C08_sharing_necessity_T (enc : Enc) :
    preRun enc init (hT.take 5) = true ∧ clausesAt enc (hT.take 5) 0 3 = some (false, true, true) ∧
    langAfter enc hT 4 wT = some true ∧ langAfter enc (hT.take 5) 0 wT = some false ∧
    langAfter enc (hT.take 5) 3 wT = some false := necessity_T enc

open BddShareEx in
/-- **clause A, final states**: a final state of the left operand (set by `SetStateFinal`, unreachable there) is a state of the
right operand: the result accepts the leaf `2`; in the top-down encoding the left operand itself now accepts it too. -/
theorem C08_sharing_necessity_A_final (enc : Enc) :
    preRun enc init (hA.take 3) = true ∧ clausesAt enc (hA.take 3) 0 1 = some (true, false, true) ∧
    langAfter enc hA 2 (lf 2) = some true ∧ langAfter enc (hA.take 3) 0 (lf 2) = some false ∧
    langAfter enc (hA.take 3) 1 (lf 2) = some false ∧ langAfter .td hA 0 (lf 2) = some true :=
  ⟨(necessity_A_final enc).1, (necessity_A_final enc).2.1, (necessity_A_final enc).2.2.1, (necessity_A_final enc).2.2.2.1,
   (necessity_A_final enc).2.2.2.2, necessity_A_final_td_operand.1⟩

open BddShareEx in
/-- **clause A, leaf rules** (bottom-up: leaf rules are not in the table, so clause T does not see them) -/
theorem C08_sharing_necessity_A_leaf :
    preRun .bu init (hAn.take 2) = true ∧ clausesAt .bu (hAn.take 2) 0 1 = some (true, false, true) ∧
    langAfter .bu hAn 2 (un 3 (lf 5)) = some true ∧ langAfter .bu (hAn.take 2) 0 (un 3 (lf 5)) = some false ∧
    langAfter .bu (hAn.take 2) 1 (un 3 (lf 5)) = some false := necessity_A_leaf

open BddShareEx in
/-- **clause H – a bystander changes its language** (top-down: a copy of the left operand with one more final state;
bottom-up: an earlier result on the left operand's table) -/
theorem C08_sharing_necessity_H :
    (preRun .td init (hH.take 4) = true ∧ clausesAt .td (hH.take 4) 0 2 = some (true, true, false) ∧
      langAfter .td (hH.take 4) 1 (lf 2) = some false ∧ langAfter .td hH 1 (lf 2) = some true) ∧
    (preRun .bu init (hHb.take 4) = true ∧ clausesAt .bu (hHb.take 4) 0 3 = some (true, true, false) ∧
      langAfter .bu (hHb.take 4) 2 (un 3 (lf 2)) = some false ∧ langAfter .bu hHb 2 (un 3 (lf 2)) = some true) :=
  ⟨necessity_H_td, necessity_H_bu.1, necessity_H_bu.2.1, necessity_H_bu.2.2.1, necessity_H_bu.2.2.2.1⟩

open BddShareEx in
/-- **clause S – `Union` of two bottom-up automata on ONE table with different leaf rules returns a wrong language**: the
result accepts the leaf `3`, neither operand does; the top-down encoding is not affected.  This history is emitted by the
generator's heuristic (`heurRun`), and the real library returns the same automaton (see the report below). -/
theorem C08_sharing_necessity_S :
    preRun .bu init (hS.take 6) = true ∧ preAt .bu (hS.take 6) (.union 3 4) = some false ∧
    langAfter .bu hS 5 (lf 3) = some true ∧ langAfter .bu (hS.take 6) 3 (lf 3) = some false ∧
    langAfter .bu (hS.take 6) 4 (lf 3) = some false ∧ preRun .td init hS = true ∧ heurRun ⟨[], []⟩ hS = true :=
  ⟨necessity_S.1, necessity_S.2.1, necessity_S.2.2.1, necessity_S.2.2.2.1, necessity_S.2.2.2.2.1, necessity_S.2.2.2.2.2,
   heuristic_gap.1⟩

open BddShareEx in
/-- **clause L** – loading an automaton whose (fresh-dictionary) numbers occur in the target -/
theorem C08_sharing_necessity_L (enc : Enc) :
    preAt enc (hL.take 1) (.loadinto 0 bL) = some false ∧ langAfter enc hL 0 (un 2 (lf 3)) = some true ∧
    langAfter enc (hL.take 1) 0 (un 2 (lf 3)) = some false ∧ accepts bL (un 2 (lf 3)) = false := necessity_L enc

/-!
## which "not yet proved" items this closes

* `C08.lean`: "'None of these calls changes the language of an operand' concerns transition tables shared between copies
  […]; the sharing of BDD transition tables is not modelled (tables are values here […])" – modelled in
  `Vata/BddShare.lean`; `C08_sharing_isolation`, `C08_sharing_history`, `C08_sharing_refcount`.
* `C08_Isect.lean` ("still open"): "'None of these calls changes the language of an operand': the operand tables are values in
  the model" – same.

## comparison with the generator's heuristic (`tools/gen.py`, `g_bddh`) and with the driver's check

* The heuristic ("table families", "number blocks") implies clauses T, A, H and L: different families never share a table,
  the block set of a family over-approximates the numbers in all tables, leaf rules and final sets of its members (dead
  ones included), `loadinto` is emitted only for families without small numbers.  (Argued, and checked on 20 000 generated
  histories: all inside `pre` evaluated exactly on the library's dumps; `Driver/BddShareChk.lean`.)  It is stronger than
  needed: it never emits `uniondisj` within a family, although the shared-table branch is exact under clause S.
* It does NOT imply clause S: `final!i!q` is always emitted and `union` within a family too.  `C08_sharing_necessity_S` /
  `BddShareEx.heuristic_gap` is such a history; on the real library
  `bddh bu def!1:>0|0 def!2:>0|0 def!3:>0;4:0>1|1 uniondisj!0!1 uniondisj!0!2 final!3!300 union!3!4`
  gives `violation step 7 union-language 1:>100;2:>200;3:>300;4:300>301|100,200,300,301`: a genuine defect of the
  bottom-up shared-table branch of `Union` / `UnionDisjointStates` (it merges the per-object leaf rules of BOTH operands under
  the final states of BOTH), reachable with probability of the order 10⁻⁵ per generated history.
* The driver's own check for `uniondisj` (`Driver/BddChk.lean`: the state sets of the two DUMPS are disjoint) is clauses T and
  A, not H (the bystanders' final states are not in the operands' dumps; a violation then shows as "the language of entry k
  changed"), and it rejects same-table operands, which clause S allows.

## not proved / not modelled

* Table entries whose MTBDD has only empty leaves (a key without rules: `Intersection` and the trimmings may leave them)
  are invisible at the abstraction "table = list of rules"; in the library they REPLACE an entry with the same key as well.
  Inside the precondition this cannot happen: the states of such a key are states of rules of the same table, parents of
  leaf rules or final states of every handle on that table (argued from the code, not proved), so clause T excludes a
  common key.  Outside the precondition the model may keep rules the library deletes (observed: 13 of 4 000 unrestricted
  histories, all outside `pre`; on the other 3 987, and on 20 000 generated ones, the model predicts the dump of EVERY
  entry after EVERY step exactly).
* The fresh-table operations are represented by the reference constructions (`unionModel`, `isectFull`, `removeUnreachable`,
  `restrict · (prodStates ·)`, `removeUseless`), not by the symbolic algorithms (those are `C08_Tables.lean`,
  `C08_Isect.lean`); the numbers they hand out are not the library's.  `GetTopDownAut` (another fresh-table operation, across
  encodings) is not a step of the model.
* The steps carry automata WITH their numbers (`def`: after `ReindexStates`; `loadinto`: after the fresh dictionary): that
  `def` at step `k` uses `100k…` and a fresh dictionary `0…` is the harness' / `LoadFromAutDesc`'s doing, not modelled.
* `Driver/BddShareChk.precondition` (the replay from the steps alone, on sets of numbers) is a safe approximation of `pre`
  by construction; that it implies `pre` is tested (no history accepted by it and rejected by the exact evaluation among
  24 000), not proved.
* `pre` is sufficient and each clause is necessary in the sense above; it is not an "iff" for single histories (a history
  outside `pre` can be harmless, e.g. when the colliding state is unreachable on both sides).
-/
end Vata.Props
