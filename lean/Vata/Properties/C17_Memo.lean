import Vata.Proofs.ApplyMemo
/-!
# C17 – the memo tables of the apply functors

`Apply1Functor`, `Apply2Functor`, `Apply3Functor` memoise `recDescend` in a hash table `ht` keyed by node ADDRESSES, cleared at every
top-level call (`ht.clear()` in `operator()`); the nodes spawned during a call have reference count 0 until they are linked.
`Vata/Properties/C17.lean` works with the memo-free `recDescend` of the store model (`Vata/RcStore.lean`) and lists the tables as
"not modelled".  `Vata/ApplyMemo.lean` models the three `recDescend`s WITH their tables on the store model (node ids as keys);
here are the consequences (theorems: `Vata/Proofs/ApplyMemo.lean`).
-/
namespace Vata.Props
open Vata Vata.RcS

/-- **a cached result is the result that would be recomputed.**  After any history, the binary apply as coded – table cleared,
`recDescend` looking every pair of node ids up and inserting every result – leaves exactly the store the memo-free apply
leaves: the same nodes, counters and unique tables, the same root under the new handle.  So everything C17/C18 prove about
`RcS.apply2` (`C17_store_apply`: the root unfolds to `apply2 f` of the operands) holds for the code with the table -/
theorem C17_memo_apply2 (f : Nat → Nat → Nat) (ops : List Op) (a b dst : Nat) :
    apply2M f (runF f ops) a b dst = apply2 f (runF f ops) a b dst ∧
    apply2M f (runF f ops) a b dst = runF f (ops ++ [.apply a b dst]) :=
  ⟨apply2Memo_eq f (runF_inv f ops) a b dst, apply2Memo_run f ops a b dst⟩

-- a history with sharing; the pair `(7, 7)` reaches the pair of leaves `(0, 0)` twice: six table entries for seven calls
example : (recDescendM applyOp 20 (runF applyOp RefineEx.ops) [] 7 7).2.2.map (·.1) =
    [(7, 7), (6, 6), (3, 3), (2, 2), (0, 0), (1, 1)] := by decide
example : find 7 (apply2M applyOp (runF applyOp RefineEx.ops) 5 1 7).hs = some 9 := by decide

/-- … at the level of one `recDescend`, from ANY table whose entries are replayable (`MemoOK`: the memo-free `recDescend` on
the key returns the entry without changing the store, now and in every store that arises by allocations only): the same
store, the same node, and the table left behind is replayable again.  The empty table of `ht.clear()` is replayable -/
theorem C17_memo_recDescend (f : Nat → Nat → Nat) {fuel : Nat} {s : Store} {ht : Memo} {n1 n2 : Nat} (h : WInv s [])
    (h1 : n1 ∈ s.ids) (h2 : n2 ∈ s.ids) (hf : n1 + n2 < fuel) (hm : MemoOK f s ht) :
    (recDescendM f fuel s ht n1 n2).1 = (recDescend f fuel s n1 n2).1 ∧
    (recDescendM f fuel s ht n1 n2).2.1 = (recDescend f fuel s n1 n2).2 ∧
    MemoOK f (recDescend f fuel s n1 n2).1 (recDescendM f fuel s ht n1 n2).2.2 ∧ MemoOK f s [] :=
  ⟨(recDescendM_eq f fuel s ht n1 n2 h h1 h2 hf hm).1, (recDescendM_eq f fuel s ht n1 n2 h h1 h2 hf hm).2.1,
    (recDescendM_eq f fuel s ht n1 n2 h h1 h2 hf hm).2.2, memoOK_nil f s⟩

example : WInv (runF applyOp RefineEx.ops) [] ∧ 7 ∈ (runF applyOp RefineEx.ops).ids := ⟨(runF_inv _ _).1, by decide⟩

/-- **why the entries stay valid during the call**: (1) a finished `recDescend` can be replayed in every later store that arose
by allocations only – it returns the same node and changes nothing (all its spawns hit the unique tables); (2) between
`ht.clear()` and the end of the call the store ONLY grows: every allocated node stays allocated with its contents, the
handles are untouched, nothing is released (`freed` unchanged) although the fresh nodes have counter 0 – so no node id in
the table can die, let alone be re-used -/
theorem C17_memo_call_invariant (f : Nat → Nat → Nat) {fuel : Nat} {s : Store} {ht : Memo} {n1 n2 : Nat} (h : WInv s [])
    (h1 : n1 ∈ s.ids) (h2 : n2 ∈ s.ids) (hf : n1 + n2 < fuel) (hm : MemoOK f s ht) :
    (∀ fuel' s', WInv s' [] → Ext (recDescend f fuel s n1 n2).1 s' → n1 + n2 < fuel' →
      recDescend f fuel' s' n1 n2 = (s', (recDescend f fuel s n1 n2).2)) ∧
    Ext s (recDescendM f fuel s ht n1 n2).1 ∧ (recDescendM f fuel s ht n1 n2).1.freed = s.freed ∧
    WInv (recDescendM f fuel s ht n1 n2).1 [] ∧ (recDescendM f fuel s ht n1 n2).2.1 ∈ (recDescendM f fuel s ht n1 n2).1.ids :=
  ⟨recDescend_replay f fuel s n1 n2 h h1 h2 hf, recDescendM_grows f h h1 h2 hf hm⟩

/-- the unary and the ternary apply (store-level models new in `Vata/ApplyMemo.lean`, each in a memo-free version and a
version with its table keyed by node ids / triples of node ids): the version with the table leaves the same store -/
theorem C17_memo_apply1_apply3 (g : Nat → Nat) (f₃ : Nat → Nat → Nat → Nat) {s : Store} (hi : Inv s) (a b c dst : Nat) :
    apply1M g s a dst = apply1 g s a dst ∧ apply3M f₃ s a b c dst = apply3 f₃ s a b c dst :=
  ⟨apply1Memo_eq g hi a dst, apply3Memo_eq f₃ hi a b c dst⟩

example : Inv (runF applyOp RefineEx.ops) := runF_inv _ _
example : find 7 (apply3M (fun x y z => x + y + z) (runF applyOp RefineEx.ops) 5 1 6 7).hs = some 15 := by decide
-- the new store-level models against the tree-level `M.apply1`, `M.apply3` (evaluated)
#guard diagram (apply3M (fun x y z => x + y + z) (runF applyOp RefineEx.ops) 5 1 6 7) 15 ==
  M.apply3 (fun x y z => x + y + z) (diagram (runF applyOp RefineEx.ops) 8) (diagram (runF applyOp RefineEx.ops) 2)
    (diagram (runF applyOp RefineEx.ops) 9)
#guard diagram (apply1M (fun v => v % 2) (runF applyOp RefineEx.ops) 5 7) 11 ==
  M.apply1 (fun v => v % 2) (diagram (runF applyOp RefineEx.ops) 8)

/-- **`ht.clear()` is needed.**  A table that survives across calls is wrong as soon as a result node dies and its address is
re-used: `1 + 2` is computed (node 2, remembered under the addresses `(0, 1)`), the result handle is destroyed (node 2 is
released), the constant 7 is constructed by an allocator that hands the address 2 out again, and the surviving table
answers the repeated `1 + 2` with the node at that address – the value 7, no assertion fails.  The table cleared per call
answers 3.  Without address re-use (the ids of `RcStore` are never re-used) the surviving table hands out a node that is not
allocated any more -/
theorem C17_memo_must_be_cleared :
    MemoEx.r₃.2 = [((0, 1), 2)] ∧ MemoEx.s₄.freed = [2] ∧ find 3 MemoEx.s₅.hs = some 2 ∧
    getValue MemoEx.r₆.1 4 MemoEx.zeroAsgn = some 7 ∧ MemoEx.r₆.1.err = false ∧
    getValue (apply2M MemoEx.fadd MemoEx.s₅ 0 1 4) 4 MemoEx.zeroAsgn = some 3 ∧
    (find 4 MemoEx.r₆'.1.hs = some 2 ∧ 2 ∉ MemoEx.r₆'.1.ids) :=
  memo_survives_wrong

/-!
## what this file closes / leaves open in `Vata/Properties/C17.lean` ("not yet proved")

* CLOSES the item *"The memo tables `ht` of the apply functors are not modelled (so 'a cached result is the result that would be
  recomputed' is not a theorem …)"*: the tables are modelled for the unary, binary and ternary apply and proved transparent
  (`C17_memo_apply2`, `C17_memo_recDescend`, `C17_memo_apply1_apply3`), with the invariant of a call (`C17_memo_call_invariant`)
  and the counterexample for a table that is not cleared (`C17_memo_must_be_cleared`).
* touches the item *"The store model has the binary apply … only; unary/ternary apply … exist at tree level only"*: store-level
  models `RcS.apply1`, `RcS.apply3` now exist (memo-free and with table) but their REFINEMENT to the tree-level `M.apply1` /
  `M.apply3` (the analogue of `recDescend_diagram`) is NOT proved – it is checked on examples by evaluation only – and `Inv` is
  not proved to be preserved by `apply1` / `apply3` (only `WInv`, `Ext` and "the result is allocated" for their `recDescend`s).
* not modelled: the tables of `VoidApply1Functor` / `VoidApply2Functor` (visited sets; for the binary one see
  `Vata/BddTraverse.lean`, `voidApply2C`), the hash function / collisions of `unordered_map` (the model is an association
  list), and the link to the C++ (the `mth` / `mthrc` history checks of `Driver/MtHist.lean` run
  the real functors, i.e. the code WITH the tables, against the memo-free tree-level model `Vata/MtbddOps.lean`;
  `C17_memo_apply2` with `C17_store_apply` explains why they agree; there is no check that compares `RcS.recDescendM` with the
  real table contents).
-/
end Vata.Props
