import Vata.Generated.Tables
/-!
# Dispatch tables (C01, C07, C09): theorems over the table REGENERATED from /repo's sources on every run

`Vata.Gen` is produced by `tools/extract_tables.py` from `include/vata/incl_param.hh` and the four
`switch (params.GetOptions())` dispatchers.  Everything below is closed by `decide` over the complete 2⁷ option space,
so an edit of a dispatcher or of the flag words changes the regenerated table and breaks these theorems before any input
is tried; the harness validates the table itself against run-time behaviour (`inclall`, `bddinclall`: which option words
return a verdict and which throw `NotImplementedException`).
-/
namespace Vata.Dispatch
open Vata.Gen

def flag (n : String) : Nat := (flags.lookup n).getD 0
def fAlg := flag "FLAG_MASK_ALGORITHM"
def fDir := flag "FLAG_MASK_DIRECTION"
def fCache := flag "FLAG_MASK_DOWNWARD_CACHE_IMPL"
def fRec := flag "FLAG_MASK_RECURSIVE"
def fSim := flag "FLAG_MASK_SIMULATION"
def fOrder := flag "FLAG_MASK_SEARCH_ORDER"
def fEquiv := flag "FLAG_MASK_EQUIV"

def has (w f : Nat) : Bool := w &&& f != 0

/-- the translator parsed every source -/
theorem parsed : parseErrors = [] := by decide

/-- the seven flags are seven distinct bits: option words are exactly the numbers below 128 -/
theorem flags_are_bits : [fAlg, fDir, fCache, fRec, fSim, fOrder, fEquiv] = [1, 2, 4, 8, 16, 32, 64] := by decide

def words (t : List Case) : List Nat := t.map (·.word)

/-- same set of option words (the order of the `case` labels in the source is irrelevant) -/
def sameWords (l₁ l₂ : List Nat) : Bool := l₁.all (fun x => l₂.contains x) && l₂.all (fun x => l₁.contains x)

/-- which option words each encoding implements (C01: 8 selections; C07: 4 + 3; C09: antichains, congruence depth / breadth) -/
theorem implemented_expl : sameWords (words explDispatch) [0, 16, 2, 18, 10, 26, 14, 30] = true := by decide
theorem implemented_td : sameWords (words tdDispatch) [10, 14, 26, 30] = true := by decide
theorem implemented_bu : sameWords (words buDispatch) [0, 16, 26] = true := by decide
theorem implemented_fa : sameWords (words faDispatch) [0, 16, 33, 1, 17, 65, 97] = true := by decide

/-- every other option word reaches `default`, which throws `NotImplementedException` -/
theorem default_throws : explDispatchDefaultThrows = true ∧ tdDispatchDefaultThrows = true ∧
    buDispatchDefaultThrows = true ∧ faDispatchDefaultThrows = true := by decide

/-- no case label occurs twice -/
theorem no_duplicate_cases : (words explDispatch).Nodup ∧ (words tdDispatch).Nodup ∧ (words buDispatch).Nodup ∧
    (words faDispatch).Nodup := by decide

/-- a case is consistent with its option word: simulation bit ⇔ the given relation and the ORIGINAL operands are passed;
no simulation ⇔ `Identity(states)` and the SANITISED copies; (the bottom-up "downward with simulation" case computes its
own relation on sanitised copies) -/
def simConsistent (c : Case) : Bool :=
  if c.callee == "viaTopDown" then has c.word fSim && c.sanitized == "true" && c.rel == "computed"
  else if has c.word fSim then c.rel == "given" && c.sanitized == "false"
  else c.rel == "identity" && c.sanitized == "true"

set_option maxRecDepth 100000 in
theorem sim_consistent : (explDispatch ++ tdDispatch ++ buDispatch ++ faDispatch).all simConsistent = true := by decide +kernel

/-- tree automata: the callee matches direction, recursion and cache bits -/
def treeConsistent (c : Case) : Bool :=
  !has c.word fAlg && !has c.word fOrder && !has c.word fEquiv &&
  (match c.callee with
   | "explUp" | "bddUp" => !has c.word fDir && !has c.word fRec && !has c.word fCache
   | "explDownNonrec" => has c.word fDir && !has c.word fRec && !has c.word fCache
   | "downRec" => has c.word fDir && has c.word fRec &&
       (if has c.word fCache then c.functor == "OptDownwardInclusionFunctor" else c.functor == "DownwardInclusionFunctor")
   | "viaTopDown" => has c.word fDir && has c.word fRec && !has c.word fCache &&
       c.functor == "SetAlgorithm=antichains;SetDirection=downward;SetUseRecursion=true;SetUseSimulation=true;SetUseDownwardCacheImpl=false"
   | _ => false)

set_option maxRecDepth 100000 in
theorem tree_consistent : (explDispatch ++ tdDispatch ++ buDispatch).all treeConsistent = true := by decide +kernel

/-- the word the bottom-up "via top-down" case builds for the nested call is one the top-down dispatcher implements -/
theorem via_topdown_target_implemented : (words tdDispatch).contains (fDir ||| fRec ||| fSim) = true := by decide

/-- word automata: algorithm and search-order bits match the functor and the product-set order -/
def faConsistent (c : Case) : Bool :=
  !has c.word fDir && !has c.word fRec && !has c.word fCache &&
  (match c.callee with
   | "faAntichain" => !has c.word fAlg && !has c.word fEquiv && !has c.word fOrder
   | "faCongr" => has c.word fAlg && !has c.word fEquiv && (if has c.word fOrder then c.order == "breadth" else c.order == "depth")
   | "faCongrEquiv" => has c.word fAlg && has c.word fEquiv && (if has c.word fOrder then c.order == "breadth" else c.order == "depth")
   | _ => false)

set_option maxRecDepth 100000 in
theorem fa_consistent : faDispatch.all faConsistent = true := by decide +kernel

/-- the named option words mean what their names say -/
theorem named_words :
    namedWords.lookup "ANTICHAINS_UP_NOSIM" = some 0 ∧
    namedWords.lookup "ANTICHAINS_UP_SIM" = some fSim ∧
    namedWords.lookup "ANTICHAINS_DOWN_NONREC_NOSIM" = some fDir ∧
    namedWords.lookup "ANTICHAINS_DOWN_NONREC_SIM" = some (fDir ||| fSim) ∧
    namedWords.lookup "ANTICHAINS_DOWN_REC_NOSIM" = some (fDir ||| fRec) ∧
    namedWords.lookup "ANTICHAINS_DOWN_REC_OPT_NOSIM" = some (fDir ||| fRec ||| fCache) ∧
    namedWords.lookup "ANTICHAINS_DOWN_REC_SIM" = some (fDir ||| fRec ||| fSim) ∧
    namedWords.lookup "ANTICHAINS_DOWN_REC_OPT_SIM" = some (fDir ||| fRec ||| fCache ||| fSim) ∧
    namedWords.lookup "ANTICHAINS_NOSIM" = some 0 ∧
    namedWords.lookup "CONGR_DEPTH_NOSIM" = some fAlg ∧
    namedWords.lookup "CONGR_BREADTH_NOSIM" = some (fAlg ||| fOrder) := by decide

end Vata.Dispatch
