import Vata.NfaStart
import Vata.Proofs.NfaStart
/-!
# C10 (also C09, C13) – the word automata WITH their start symbols

> C10: for nondeterministic finite word automata, Union / UnionDisjointStates / Intersection / Reverse /
> RemoveUnreachableStates / RemoveUselessStates / GetCandidateTree are exact.

`Vata/Properties/C10.lean` proves the language statements on `Vata.W.NFA`, a model WITHOUT the start symbols of the C++
(`startStateToSymbols_ : start state ↦ set of symbols`, the nullary Timbuk rules `sym -> q`; three of the defects found in
this library – D4 / D15, D5, D12 – lived there).  This file closes that gap.

## How the statement is read into the model

* **Model of the code.**  `Vata.NFAS` (`Vata/NfaStart.lean`) = `Vata.W.NFA` + `startSyms`, the map as an association list in
  which the first entry of a key counts (`unordered_map::insert` never overwrites, nothing erases).  `NFAS.toNFA` is the
  projection; `A.symsOf q` is `GetStartSymbols (q)`; `A.dumpSyms q` what the dump writes for the start state `q` (the symbol
  `x`, protocol number `NFAS.xSym = 12`, for an empty set).  Every operation `nfas…` is the operation of `Vata/NfaOps.lean` on
  `toNFA` paired with what the current C++ does to the map – INCLUDING the entries of non-start states (*stale* entries)
  that `Reverse` and `RemoveUnreachableStates` leave behind.
* **Correspondence.**  Kind `nfas` of the check (`harness/op_nfas.inc`, `Driver/NfaStartChk.lean`, `tools/gen_nfas.py`): histories
  of all these operations on the real class, with several start symbols; after every step the dump AND `GetStartSymbols` of
  every start state of every live object are compared with the model exactly.
* **What is specification.**  For each operation: the start symbols every start state of the result shows, in terms of what
  the operands showed (`C10_start_*_spec`); dump / load (`C10_start_dump_load`, C13); the invariants of histories
  (`C10_start_history_*`).  The specifications of `SetStateStart`, `SetExistingStateStart` and `UnionDisjointStates` carry a
  hypothesis "no stale entry is hit" that cannot be checked through the API; `C10_start_stale_observable` shows that it is
  needed – and the real class breaks the hypothesis-free reading too (finding, `harness/nfas_witness_stale.txt`).
-/
namespace Vata.Props
open Vata Vata.W Vata.NfaS

/-! ### (1) the language does not depend on the start symbols -/

/-- `toNFA` commutes with every operation: the automaton without symbols of a result is the result of the operation of
`Vata/NfaOps.lean` on the automata without symbols of the operands – whatever the start symbols are -/
theorem C10_start_language_independent (A B : NFAS) :
    (∀ fA fB, (nfasUnionWith fA fB A B).toNFA = nfaUnionWith fA fB A.toNFA B.toNFA) ∧
    (nfasUnion A B).toNFA = nfaUnion A.toNFA B.toNFA ∧
    (nfasUnionDisjoint A B).toNFA = nfaUnionDisjoint A.toNFA B.toNFA ∧
    (∀ f, (nfasMap f A).toNFA = nfaMap f A.toNFA) ∧
    (∀ fuel, (nfasIntersection A B fuel).map NFAS.toNFA = nfaIntersection A.toNFA B.toNFA fuel) ∧
    (nfasIsect A B).toNFA = nfaIsect A.toNFA B.toNFA ∧
    (nfasReverse A).toNFA = nfaReverse A.toNFA ∧
    (nfasRemoveUnreachable A).toNFA = nfaRemoveUnreachable A.toNFA ∧
    (nfasRemoveUseless A).toNFA = nfaRemoveUseless A.toNFA ∧
    (nfasCandidate A).toNFA = nfaCandidate A.toNFA :=
  ⟨fun _ _ => rfl, rfl, rfl, fun _ => rfl, nfasIntersection_toNFA A B, nfasIsect_toNFA A B, rfl, rfl, rfl, rfl⟩

/-- … so the language statements of C10 hold for the automata with start symbols -/
theorem C10_start_languages (A B : NFAS) (w : List Nat) :
    acceptsW (nfasUnion A B).toNFA w = (acceptsW A.toNFA w || acceptsW B.toNFA w) ∧
    acceptsW (nfasIsect A B).toNFA w = (acceptsW A.toNFA w && acceptsW B.toNFA w) ∧
    acceptsW (nfasReverse A).toNFA w = acceptsW A.toNFA w.reverse ∧
    acceptsW (nfasRemoveUnreachable A).toNFA w = acceptsW A.toNFA w ∧
    acceptsW (nfasRemoveUseless A).toNFA w = acceptsW A.toNFA w ∧
    (acceptsW (nfasCandidate A).toNFA w = true → acceptsW A.toNFA w = true) ∧
    ((∃ w, acceptsW (nfasCandidate A).toNFA w = true) ↔ ∃ w, acceptsW A.toNFA w = true) :=
  ⟨nfasUnion_lang A B w, nfasIsect_lang A B w, nfasReverse_lang A w, nfasRemoveUnreachable_lang A w,
    nfasRemoveUseless_lang A w, (nfasCandidate_lang A).1 w, (nfasCandidate_lang A).2⟩

example : acceptsW (nfasIsect NfaSEx.exA NfaSEx.exB).toNFA [0, 1] = true ∧
    acceptsW (nfasReverse NfaSEx.exA).toNFA [1, 0] = true := by decide

/-- the same statement as an independence: two automata that differ in their start symbols only give results that differ in
their start symbols only -/
theorem C10_start_symbols_irrelevant (A A' B B' : NFAS) (hA : A.toNFA = A'.toNFA) (hB : B.toNFA = B'.toNFA) :
    (nfasUnion A B).toNFA = (nfasUnion A' B').toNFA ∧ (nfasIsect A B).toNFA = (nfasIsect A' B').toNFA ∧
    (nfasReverse A).toNFA = (nfasReverse A').toNFA ∧ (nfasRemoveUseless A).toNFA = (nfasRemoveUseless A').toNFA ∧
    (nfasCandidate A).toNFA = (nfasCandidate A').toNFA := by
  refine ⟨?_, ?_, ?_, ?_, ?_⟩
  · rw [nfasUnion_toNFA, nfasUnion_toNFA, hA, hB]
  · rw [nfasIsect_toNFA, nfasIsect_toNFA, hA, hB]
  · rw [nfasReverse_toNFA, nfasReverse_toNFA, hA]
  · rw [nfasRemoveUseless_toNFA, nfasRemoveUseless_toNFA, hA]
  · rw [nfasCandidate_toNFA, nfasCandidate_toNFA, hA]

example : NfaSEx.exA.toNFA = (NfaSEx.exA.clean).toNFA := rfl

/-! ### (2) the start symbols of the results -/

/-- `Union` (and `ReindexStates`): the start states of the result are the images of the start states of the operands, and
each image shows exactly the symbols of its source (translation maps injective on the start states, images disjoint – the
code hands out fresh numbers) -/
theorem C10_start_union_spec (fA fB : Nat → Nat) (A B : NFAS)
    (hA : NfaInjOn fA A.start) (hB : NfaInjOn fB B.start) (hdis : ∀ p, p ∈ A.start → ∀ q, q ∈ B.start → fA p ≠ fB q) :
    (∀ t, t ∈ (nfasUnionWith fA fB A B).start ↔ (∃ s, s ∈ A.start ∧ fA s = t) ∨ (∃ s, s ∈ B.start ∧ fB s = t)) ∧
    (∀ s, s ∈ A.start → (nfasUnionWith fA fB A B).symsOf (fA s) = A.symsOf s) ∧
    (∀ s, s ∈ B.start → (nfasUnionWith fA fB A B).symsOf (fB s) = B.symsOf s) :=
  ⟨fun _ => mem_nfasUnionWith_start,
    fun s hs => nfasUnionWith_symsOf_left fA fB A B hs (fun p hp he => hA p hp s hs he),
    fun s hs => nfasUnionWith_symsOf_right fA fB A B hs (fun p hp he => hB p hp s hs he) (fun p hp => hdis p hp s hs)⟩

example : (nfasUnion NfaSEx.exA NfaSEx.exB).start = [0, 1, 4] ∧ (nfasUnion NfaSEx.exA NfaSEx.exB).symsOf 0 = [8, 9] ∧
    (nfasUnion NfaSEx.exA NfaSEx.exB).symsOf 4 = [11] := by decide

theorem C10_start_reindex_spec (f : Nat → Nat) (A : NFAS) (hf : NfaInjOn f A.start) :
    (∀ t, t ∈ (nfasMap f A).start ↔ ∃ s, s ∈ A.start ∧ f s = t) ∧
    ∀ s, s ∈ A.start → (nfasMap f A).symsOf (f s) = A.symsOf s :=
  ⟨fun _ => mem_nfasMap_start, fun s hs => nfasMap_symsOf f A hs (fun p hp he => hf p hp s hs he)⟩

example : (nfasMap (· + 10) NfaSEx.exA).start = [10, 13] ∧ (nfasMap (· + 10) NfaSEx.exA).symsOf 10 = [8, 9] := by decide

/-- `UnionDisjointStates`: the start states are those of the two operands; a start state shows the set the LEFT operand's
map holds for it if it holds one, else the right operand's.  Hence: the left operand's start states keep their symbols
(every start state has an entry, `C10_start_history_keys`), and a start state of the right operand keeps its symbols
**provided the left operand's map has no (stale) entry for it** – state-disjointness of the operands does NOT imply this
(`C10_start_stale_observable`). -/
theorem C10_start_unionDisjoint_spec (A B : NFAS) :
    (∀ q, q ∈ (nfasUnionDisjoint A B).start ↔ q ∈ A.start ∨ q ∈ B.start) ∧
    (∀ q, (nfasUnionDisjoint A B).symsOf q = if smHas A.startSyms q = true then A.symsOf q else B.symsOf q) ∧
    (KeysCover A → ∀ q, q ∈ A.start → (nfasUnionDisjoint A B).symsOf q = A.symsOf q) ∧
    (∀ q, smHas A.startSyms q = false → (nfasUnionDisjoint A B).symsOf q = B.symsOf q) := by
  refine ⟨fun _ => mem_nfasUnionDisjoint_start, nfasUnionDisjoint_symsOf A B, ?_, ?_⟩
  · intro hk q hq; rw [nfasUnionDisjoint_symsOf, if_pos (hk q hq)]
  · intro q hq; rw [nfasUnionDisjoint_symsOf, hq]; rfl

example : (nfasUnionDisjoint NfaSEx.exA (nfasMap (· + 10) NfaSEx.exB)).start = [0, 3, 10] ∧
    (nfasUnionDisjoint NfaSEx.exA (nfasMap (· + 10) NfaSEx.exB)).symsOf 10 = [11] ∧
    smHas NfaSEx.exA.startSyms 10 = false := by decide

/-- `Intersection`: every start state of the result is the number of a pair of start states and carries exactly the union
of the two components' sets (the current code, after the fixes D4 / D15); `m` is the numbering of the pairs, injective -/
theorem C10_start_intersection_spec (A B : NFAS) :
    (∀ fuel P, nfasIntersection A B fuel = some P → ∃ m : Nat × Nat → Nat,
      (∀ p, p ∈ nfaStartPairs A.toNFA B.toNFA → ∀ p', p' ∈ nfaStartPairs A.toNFA B.toNFA → m p = m p' → p = p') ∧
      ∀ t, t ∈ P.start → ∃ l r, l ∈ A.start ∧ r ∈ B.start ∧ t = m (l, r) ∧ P.symsOf t = A.symsOf l ++ B.symsOf r) ∧
    (∀ (D : List (Nat × Nat)) (m : Nat × Nat → Nat),
      (∀ p, p ∈ nfaStartPairs A.toNFA B.toNFA → ∀ p', p' ∈ nfaStartPairs A.toNFA B.toNFA → m p = m p' → p = p') →
      ∀ t, t ∈ (nfasRemoveUseless (nfasProdOn A B D m)).start → ∃ l r, l ∈ A.start ∧ r ∈ B.start ∧ t = m (l, r) ∧
        (nfasRemoveUseless (nfasProdOn A B D m)).symsOf t = A.symsOf l ++ B.symsOf r) :=
  ⟨fun fuel P h => nfasIntersection_start_syms A B fuel P h, fun D m hinj _ ht => nfasProd_start_syms A B D m hinj ht⟩

example : (nfasIntersection NfaSEx.exA NfaSEx.exB 5).isSome = true ∧ (nfasIsect NfaSEx.exA NfaSEx.exB).start = [0, 1] ∧
    (nfasIsect NfaSEx.exA NfaSEx.exB).symsOf 0 = [8, 9, 11] := by decide

/-- `Reverse`: the start states of the result are the final states of the operand.  The map, read as a function
`state ↦ set`, is UNCHANGED: a new start state shows what the operand's map holds for it – nothing if it holds nothing (the
one way, besides an empty set handed to `SetExistingStateStart`, in which a start state without symbols arises), its start
symbols if it was a start state of the operand too, a stale entry if there is one.  The entries of the old start states
stay (stale).  `Reverse ∘ Reverse` therefore restores start states and symbols. -/
theorem C10_start_reverse_spec (A : NFAS) :
    (nfasReverse A).start = A.final ∧ (∀ q, (nfasReverse A).symsOf q = A.symsOf q) ∧
    (∀ q, smHas A.startSyms q = false → (nfasReverse A).symsOf q = []) ∧
    (∀ q, smHas (nfasReverse A).startSyms q = (smHas A.startSyms q || A.final.contains q)) ∧
    ((nfasReverse (nfasReverse A)).start = A.start ∧ ∀ q, (nfasReverse (nfasReverse A)).symsOf q = A.symsOf q) :=
  ⟨rfl, nfasReverse_symsOf A, (nfasReverse_start_syms A).2.2, nfasReverse_has A,
    (nfasReverse_reverse A).1, (nfasReverse_reverse A).2.2⟩

example : (nfasReverse NfaSEx.exA).start = [2, 3] ∧ (nfasReverse NfaSEx.exA).symsOf 2 = [] ∧
    (nfasReverse NfaSEx.exA).symsOf 3 = [10] ∧ smHas (nfasReverse NfaSEx.exA).startSyms 0 = true := by decide

/-- trimming: `RemoveUnreachableStates` keeps all start states, `RemoveUselessStates` those from which a final state is
reachable; each keeps its symbols (the map read as a function is unchanged).  The map of the result still has the entries
of the removed states, and `RemoveUselessStates` adds an (empty) entry for every final state of the result. -/
theorem C10_start_trim_spec (A : NFAS) :
    ((nfasRemoveUnreachable A).start = A.start ∧ ∀ q, (nfasRemoveUnreachable A).symsOf q = A.symsOf q) ∧
    (∀ s, (s ∈ (nfasRemoveUseless A).start ↔ s ∈ A.start ∧ NfaCoReach A.toNFA s) ∧
      (nfasRemoveUseless A).symsOf s = A.symsOf s) ∧
    (KeysCover A → ∀ q, smHas (nfasRemoveUseless A).startSyms q =
      (smHas A.startSyms q || (nfasRemoveUseless A).final.contains q)) :=
  ⟨nfasRemoveUnreachable_start_syms A, nfasRemoveUseless_start_syms A, nfasRemoveUseless_has A⟩

example : (nfasRemoveUseless NfaSEx.exA).start = [0, 3] ∧ (nfasRemoveUseless NfaSEx.exA).symsOf 0 = [8, 9] := by decide

/-- `GetCandidateTree`: the start states of the witness are start states of the operand with the symbols they carry there -/
theorem C10_start_witness_spec (A : NFAS) (s : Nat) (hs : s ∈ (nfasCandidate A).start) :
    s ∈ A.start ∧ (nfasCandidate A).symsOf s = A.symsOf s := nfasCandidate_start_syms A hs

example : 3 ∈ (nfasCandidate NfaSEx.exA).start ∧ (nfasCandidate NfaSEx.exA).symsOf 3 = [10] := by decide

/-- `SetStateStart (q, a)`: `a` joins whatever the MAP holds for `q`.  Observable form: if `q` is a start state, or has no
entry at all, the new set is the set `q` showed before (nothing for a non-start state) plus `a`.  The hypothesis fails for a
non-start state with a stale entry (`C10_start_stale_observable`). -/
theorem C10_start_setStart_spec (A : NFAS) (q a : Nat) :
    (∀ p, (nfasSetStart A q a).symsOf p = if p = q then insN (A.symsOf q) a else A.symsOf p) ∧
    (q ∈ A.start ∨ smHas A.startSyms q = false →
      (nfasSetStart A q a).symsOf q = insN (if A.start.contains q then A.symsOf q else []) a) :=
  ⟨nfasSetStart_symsOf A q a, nfasSetStart_spec A q a⟩

example : (nfasSetStart NfaSEx.exA 0 11).symsOf 0 = [8, 9, 11] ∧ (nfasSetStart NfaSEx.exA 7 11).symsOf 7 = [11] ∧
    (0 ∈ NfaSEx.exA.start ∨ smHas NfaSEx.exA.startSyms 0 = false) := by decide

/-- `SetExistingStateStart (q, S)`: the set given is stored only if the map holds NOTHING for `q` (the `assert` demanding
this is compiled out); otherwise the call only makes `q` a start state, with the old – possibly stale – entry -/
theorem C10_start_setExistingStart_spec (A : NFAS) (q : Nat) (S : List Nat) :
    (∀ p, (nfasSetExistingStart A q S).symsOf p = if smHas A.startSyms q = false ∧ p = q then S else A.symsOf p) ∧
    (smHas A.startSyms q = false → (nfasSetExistingStart A q S).symsOf q = S) :=
  ⟨nfasSetExistingStart_symsOf A q S, nfasSetExistingStart_spec A q S⟩

example : (nfasSetExistingStart NfaSEx.exA 7 [9, 10]).symsOf 7 = [9, 10] ∧ smHas NfaSEx.exA.startSyms 7 = false := by decide

/-! ### (3) dump and load (C13) -/

/-- construction and load: the start states are the states named in nullary rules, each with exactly the symbols of its
rules – several per state included (the point of defect D12) -/
theorem C10_start_load_spec (f : Nat → Nat) (d : NDesc) :
    (nfasLoad f d).final = d.final.map f ∧ (nfasLoad f d).trans = d.unary.map (fun e => (f e.1, e.2.1, f e.2.2)) ∧
    (∀ q, q ∈ (nfasLoad f d).start ↔ ∃ r, r ∈ d.nullary ∧ f r.2 = q) ∧
    (∀ q a, a ∈ (nfasLoad f d).symsOf q ↔ ∃ r, r ∈ d.nullary ∧ f r.2 = q ∧ r.1 = a) :=
  ⟨(nfasLoad_spec f d).1, (nfasLoad_spec f d).2.1, (nfasLoad_spec f d).2.2.1, (nfasLoad_spec f d).2.2.2.1⟩

example : (nfasLoad id ⟨[2], [(8, 0), (9, 0), (8, 1)], [(0, 0, 2)]⟩).start = [0, 1] ∧
    (nfasLoad id ⟨[2], [(8, 0), (9, 0), (8, 1)], [(0, 0, 2)]⟩).symsOf 0 = [8, 9] := by decide

/-- **dump ∘ load = id and load ∘ dump = id on the pair (automaton, symbols), for good names** (the state translator of the
load and the back translator of the dump undo each other on the names / states concerned).
First part: a description is dumped back with the same final states, unary rules and the same SET of nullary rules.
Second part: an automaton is reloaded with the same final states, transitions, start states, and every start state carries
the symbols the dump wrote for it – its own set if that is not empty; a start state WITHOUT symbols (made by `Reverse`) comes
back with the one symbol `x`.  Third part: a load with an empty dictionary (names numbered in order of first occurrence)
has good names. -/
theorem C10_start_dump_load :
    (∀ (f g : Nat → Nat) (d : NDesc), (∀ n, n ∈ d.names → g (f n) = n) →
      (nfasDump g (nfasLoad f d)).final = d.final ∧ (nfasDump g (nfasLoad f d)).unary = d.unary ∧
      ∀ r, r ∈ (nfasDump g (nfasLoad f d)).nullary ↔ r ∈ d.nullary) ∧
    (∀ (f g : Nat → Nat) (A : NFAS), (∀ q, q ∈ nfaStates A.toNFA → f (g q) = q) →
      (nfasLoad f (nfasDump g A)).final = A.final ∧ (nfasLoad f (nfasDump g A)).trans = A.trans ∧
      (∀ q, q ∈ (nfasLoad f (nfasDump g A)).start ↔ q ∈ A.start) ∧
      ∀ q, q ∈ A.start →
        (A.symsOf q ≠ [] → ∀ a, a ∈ (nfasLoad f (nfasDump g A)).symsOf q ↔ a ∈ A.symsOf q) ∧
        (A.symsOf q = [] → ∀ a, a ∈ (nfasLoad f (nfasDump g A)).symsOf q ↔ a = NFAS.xSym)) ∧
    (∀ d : NDesc, ∀ n, n ∈ d.names → (fun i => d.names.getD i 0) (d.names.idxOf n) = n) :=
  ⟨nfas_dump_load, fun f g A hf => ⟨(nfas_load_dump f g A hf).1, (nfas_load_dump f g A hf).2.1,
    (nfas_load_dump f g A hf).2.2.1, fun _ hq => nfas_load_dump_syms f g A hf hq⟩, nfasLoadFresh_good⟩

example : nfasObsEqB (nfasLoad id (nfasDump id NfaSEx.exA)) NfaSEx.exA = true ∧
    (nfasLoad id (nfasDump id (nfasReverse NfaSEx.exA))).symsOf 2 = [12] ∧ (nfasReverse NfaSEx.exA).symsOf 2 = [] := by
  decide

/-! ### (4) histories -/

/-- **in every history every start state has an entry in the map**: `GetStartSymbols` on a start state – which the dump,
`ReindexStates`, `Union`, `Intersection` and `GetCandidateTree` call without a check (`assert` compiled out) – never reads
past the end of the map.  (Before the fix of D5 `Reverse` broke this.) -/
theorem C10_start_history_keys {A : NFAS} (h : NfasHist A) : ∀ q, q ∈ A.start → smHas A.startSyms q = true :=
  nfas_history_keys h

example : NfasHist (nfasSetStart (nfasReverse NfaSEx.exA) 0 9) := .setStart 0 9 (.reverse (.build _ _ _))

/-- **in every history every start state has a NON-EMPTY symbol set, unless** the user called `Reverse` (which makes the
final states start states and has no symbols to give them), handed an empty set to `SetExistingStateStart`, or hit a stale
entry with `SetExistingStateStart` / `UnionDisjointStates` (`NfasHistNR` excludes exactly these).  `RemoveUselessStates`,
`Intersection` and `GetCandidateTree`, which call `Reverse` internally, are covered. -/
theorem C10_start_history_nonempty {A : NFAS} (h : NfasHistNR A) : ∀ q, q ∈ A.start → A.symsOf q ≠ [] :=
  nfas_history_nonempty h

example : NfasHistNR (nfasRemoveUseless (nfasUnionDisjoint NfaSEx.exA (nfasMap (· + 10) NfaSEx.exB))) :=
  .removeUseless (.unionDisjoint (by decide) (.build _ _ _) (.map _ (.build _ _ _)))
-- … and `Reverse` does create a start state without symbols
example : NfasHist (nfasReverse NfaSEx.exA) ∧ 2 ∈ (nfasReverse NfaSEx.exA).start ∧ (nfasReverse NfaSEx.exA).symsOf 2 = [] :=
  ⟨.reverse (.build _ _ _), by decide, by decide⟩

/-- **no entry of a non-start state is observable** through `AddTransition`, `SetStateFinal`, `ReindexStates`, `Union`,
`RemoveUnreachableStates`, `RemoveUselessStates`, `Intersection`, `GetCandidateTree`, the dump: values that show the same
automaton and the same symbols at their start states (`ObsEq`) – e.g. a value and the same value without its stale
entries – are taken to such values by any sequence of these operations; the operations that start from a fresh map even
give THE SAME result. -/
theorem C10_start_history_stale_unobservable :
    (∀ A : NFAS, ObsEq A A.clean) ∧
    (∀ {A B : NFAS}, ObsHist A B → ObsEq A B) ∧
    (∀ {A B : NFAS}, ObsEq A B → ∀ g, nfasDump g A = nfasDump g B) ∧
    (∀ {A A' B B' : NFAS}, ObsEq A A' → ObsEq B B' →
      (∀ fA fB, nfasUnionWith fA fB A B = nfasUnionWith fA fB A' B') ∧
      (∀ fuel, nfasIntersection A B fuel = nfasIntersection A' B' fuel) ∧
      (∀ f, nfasMap f A = nfasMap f A') ∧ nfasCandidate A = nfasCandidate A') :=
  ⟨obsEq_clean, nfas_history_stale_unobservable, fun h g => nfasDump_congr h g,
    fun hA hB => ⟨nfasUnionWith_congr hA hB, nfasIntersection_congr hA hB, nfasMap_congr hA, nfasCandidate_congr hA⟩⟩

example : ObsHist (nfasRemoveUseless (nfasReverse NfaSEx.exA)) (nfasRemoveUseless (nfasReverse NfaSEx.exA).clean) :=
  .removeUseless (.base (obsEq_clean _))

/-- … and the remaining writers are stale-blind exactly where no stale entry is hit -/
theorem C10_start_writers_congruent {A A' B B' : NFAS} (hA : ObsEq A A') (hB : ObsEq B B') :
    (∀ q a, (q ∈ A.start ∨ smHas A.startSyms q = false) → (q ∈ A'.start ∨ smHas A'.startSyms q = false) →
      ObsEq (nfasSetStart A q a) (nfasSetStart A' q a)) ∧
    (∀ q S, smHas A.startSyms q = false → smHas A'.startSyms q = false →
      ObsEq (nfasSetExistingStart A q S) (nfasSetExistingStart A' q S)) ∧
    (KeysCover A → KeysCover A' → (∀ q, q ∈ B.start → smHas A.startSyms q = true → q ∈ A.start) →
      (∀ q, q ∈ B'.start → smHas A'.startSyms q = true → q ∈ A'.start) →
      ObsEq (nfasUnionDisjoint A B) (nfasUnionDisjoint A' B')) :=
  ⟨fun q a h h' => obsEq_setStart hA q a h h', fun q S h h' => obsEq_setExistingStart hA q S h h',
    fun k k' c c' => obsEq_unionDisjoint hA hB k k' c c'⟩

/-- **stale entries ARE observable** through `SetStateStart`, `SetExistingStateStart`, `UnionDisjointStates` (and, benignly,
through `Reverse`): in each line the same call on the value and on the value without its stale entries shows different
symbols.  `stR` = the reverse of `x0 -> 0, a0 (0) -> 1, final 1`; `stL` = `RemoveUnreachableStates (Reverse (x0 -> 0, final 1))`,
an automaton whose only state is 1; `stB` = `x1 -> 0, final 0`.  The real class behaves like the model
(`harness/nfas_witness_stale.txt`): a finding – symbols invented (x0 for a state that was given x1 only), symbols lost (the set
handed to `SetExistingStateStart`, the symbols of the right operand of a union of state-disjoint automata). -/
theorem C10_start_stale_observable :
    ((nfasSetStart NfaSEx.stR 0 9).symsOf 0 = [8, 9] ∧ (nfasSetStart NfaSEx.stR.clean 0 9).symsOf 0 = [9]) ∧
    ((nfasSetExistingStart NfaSEx.stR 0 [9, 10]).symsOf 0 = [8] ∧
      (nfasSetExistingStart NfaSEx.stR.clean 0 [9, 10]).symsOf 0 = [9, 10]) ∧
    ((∀ q, q ∈ nfaStates NfaSEx.stL.toNFA → q ∈ nfaStates NfaSEx.stB.toNFA → False) ∧ NfaSEx.stB.symsOf 0 = [9] ∧
      (nfasUnionDisjoint NfaSEx.stL NfaSEx.stB).symsOf 0 = [8] ∧ (nfasUnionDisjoint NfaSEx.stL.clean NfaSEx.stB).symsOf 0 = [9]) ∧
    ((nfasReverse NfaSEx.stR).symsOf 0 = [8] ∧ (nfasReverse NfaSEx.stR.clean).symsOf 0 = []) ∧
    (NfasHist NfaSEx.stR ∧ NfasHist NfaSEx.stL ∧ NfasHist NfaSEx.stB) :=
  ⟨NfaSEx.stale_setStart, NfaSEx.stale_setExistingStart,
    ⟨NfaSEx.stale_unionDisjoint.1, NfaSEx.stale_unionDisjoint.2.1, NfaSEx.stale_unionDisjoint.2.2.2.1,
      NfaSEx.stale_unionDisjoint.2.2.2.2⟩,
    NfaSEx.stale_reverse,
    ⟨.reverse (.build _ _ _), .removeUnreachable (.reverse (.build _ _ _)), .build _ _ _⟩⟩

/-!
## which "not yet proved" items of `C10.lean` this file closes

* **Start symbols** – closed: the model `NFAS` carries the map; (1) language independence, (2) the symbols of the results of
  every operation, (3) dump / load, (4) history invariants, and the correspondence kind `nfas`.
* (`C13.lean`: the round trip of the word automata WITH several start symbols per state, `C10_start_dump_load`.)

## not proved here

* The numbering of `Union` / `Intersection` and the scan order of `GetCandidateTree` are parameters (`fA fB`, `D m`, the order
  of the list `start`), as in `C10.lean`; the driver takes them from the implementation (reported maps, iteration order of
  `GetStartStates`) and checks the certificate (injective, disjoint images, closed).
* `nfasLoad` / `nfasDump` abstract the dictionaries to a pair of functions `f`, `g` with `g ∘ f = id` on the names (the
  dictionaries themselves are modelled for the tree automata in `Vata/LoadDump.lean`); the symbol alphabet (process-wide,
  on-the-fly numbering) is abstracted to the protocol numbers of the check.
* No statement that the hypothesis "no stale entry is hit" of `C10_start_setStart_spec`, `C10_start_setExistingStart_spec`,
  `C10_start_unionDisjoint_spec` follows from anything the API shows – it does not (`C10_start_stale_observable`).
-/
end Vata.Props
