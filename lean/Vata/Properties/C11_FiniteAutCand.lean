import Vata.Proofs.CowHeapFACand2
import Vata.Properties.C11_FiniteAutDenote
import Vata.Properties.C10_Coded
/-!
# C11 / C10 (finite automata) – `GetCandidateTree` in the heap model; one equation for whole histories

> C11: After an explicit tree or finite automaton is copied, assigned or moved, any later modification of one object is never
> visible through another object, and automata returned by operations stay unchanged when their operands are modified or
> destroyed afterwards.
>
> C10: … and GetCandidateTree returns an automaton whose language is a subset of the original that is empty only if the
> original language is empty.

`Vata/Properties/C11_FiniteAutDenote.lean` links every value-level operation of the heap model `Vata/CowHeapFA.lean` of
`ExplicitFiniteAutCore` to its `nfas…` counterpart, EXCEPT `GetCandidateTree`, and composes the links per step.  Its "still
not proved" list names three gaps; this file serves them:

1. `C11_fa_denote_candidate` – the value-level `GetCandidateTree` (`vCandidate`, and its local `res` = `vCandRaw`) satisfies
   the SPECIFICATION of `C10_coded_candidate_spec` / `C10_witness`: a sub-automaton of the object whose language is non-empty
   exactly when the object's is; `C11_fa_candidate_total`: the search ends by a `return` or `newStates.empty()` within its fuel.
2. `C11_fa_history_languages_all` – the per-step statement for EVERY operation (no `NotCand`): for `GetCandidateTree` the target
   denotes some automaton with the two guarantees of `C10_witness` (`WitnessSpec`), all other handles keep theirs.
3. `C11_fa_history_fold` – for operation lists without `GetCandidateTree` steps: `den (absFA (exec ops))` is `EnvEq` to
   `ops.foldl denStep den0`, using the congruences `C11_fa_denote_congr` (new: `nfasUnionDisjoint`, `nfasMap` for index
   functions injective on the START states, the four mutators).  `C11_fa_history_run`: histories WITH `GetCandidateTree`
   steps are runs of the relational specification `DenStepRel` (inductive closure `DenRun`).

## how the C++ is read into the model

Nothing new is modelled.  `src/explicit_finite_candidate.cc` is read as in `Vata/CowHeapFA.lean` (`candStart`: the scan of
the start states with `SetExistingStateStart` and the early `return` at a final start state; `candLoop`: the FIFO
`std::list newStates`, `transitions_->find(actState)`, `continue`; `candInner`: the two nested loops over the cluster
flattened to the sequence `targets c`, `reachableStates.insert`, `SetStateFinal` + `insert` + `return` at the first final
target, `res.transitions_->insert(make_pair(actState, cluster))` (recorded as the list `keys`; `insert` does not overwrite:
`missing [] (pick …)`); `vCandidate = vUseless ∘ vCandRaw`).  The iteration order of the hash containers IS the order of the
lists of the value (`FAVal.trans` in container order): the theorems hold for every value, hence for every order.

Route chosen for item 1: the SPEC is proved directly on the value-level search (invariants `CI`, `CL`, `CM` in
`Vata/Proofs/CowHeapFACand.lean`: every state of `reachableStates` is reached inside `res` from a start state of `res`; no
reached state is final before a `return`; a reached state is in the queue, or being expanded, or has all its successors
reached), not via `NEquiv` with `NfaC.nfasCandidateCoded o` for an induced scan order `o`.

## what is abstracted

As in `C11_FiniteAut.lean` / `C11_FiniteAutDenote.lean`.  In `C11_fa_history_languages_all` the result of `GetCandidateTree`
is specified by a RELATION (`WitnessSpec`: sub-language, empty only if the object's language is empty), not by a function of
the denoted automaton: which witness is returned depends on the container order, which `NEquiv` forgets.
-/
namespace Vata.Props
open Vata Vata.W
open Vata.CowHeapFA

/-! ### 1. `GetCandidateTree` -/

/-- **totality of the search of `GetCandidateTree`** (no hypothesis): run on the fuel of `candSearch`
(`|startStates_| + |transitions| + 1`), the loop ends because a `return` was reached or because `newStates` is empty – never
because the fuel ran out; any larger fuel gives the same state -/
theorem C11_fa_candidate_total (v : FAVal) :
    ((candSearch v).done = true ∨ (candSearch v).queue = []) ∧
    ∀ k, candLoop v (v.mem.start.length + (transOf v.trans).length + 1 + k)
        (candStart v v.mem.start ⟨[], [], ⟨[], [], []⟩, [], false⟩) = candSearch v :=
  ⟨candSearch_end v, candSearch_fuel v⟩

/-- **`GetCandidateTree()` in the heap model meets the specification of `C10_coded_candidate_spec`**, for every value with
one cluster per state (`KeysNodup`: the container is a map – true for every object of every history,
`C11_fa_history_wf`): the local `res` is a sub-automaton of the object; the result is `nfasRemoveUseless` of `res` up to list
order; the result accepts only words of the object, and accepts some word exactly when the object does; the same for `res`. -/
theorem C11_fa_denote_candidate (v : FAVal) (hk : Store.KeysNodup v.trans) :
    NfaSub (vCandRaw v).toNFA v.toNFA ∧
    NEquiv (vCandidate v).toNFAS (nfasRemoveUseless (vCandRaw v).toNFAS) ∧
    (∀ w, acceptsW (vCandidate v).toNFA w = true → acceptsW v.toNFA w = true) ∧
    ((∃ w, acceptsW (vCandidate v).toNFA w = true) ↔ ∃ w, acceptsW v.toNFA w = true) ∧
    ((∃ w, acceptsW (vCandRaw v).toNFA w = true) ↔ ∃ w, acceptsW v.toNFA w = true) :=
  ⟨vCandRaw_sub v, vCandidate_denote_useless v, vCandidate_sub_lang v, vCandidate_nonempty_iff v hk,
    ⟨fun ⟨w, hw⟩ => ⟨w, (vCandRaw_sub v).lang w hw⟩, vCandRaw_nonempty v hk⟩⟩

/-- … in the words of the property: the witness is empty only if the language of the object is empty -/
theorem C11_fa_candidate_empty_only_if_empty (v : FAVal) (hk : Store.KeysNodup v.trans)
    (h : ∀ w, acceptsW (vCandidate v).toNFA w = false) (w : List Nat) : acceptsW v.toNFA w = false := by
  cases hw : acceptsW v.toNFA w
  · rfl
  · obtain ⟨u, hu⟩ := (vCandidate_nonempty_iff v hk).mpr ⟨w, hw⟩
    rw [h u] at hu; cases hu

/-- the state of the search at its `return` (the invariants the proof rests on): every state of `reachableStates` is reached
from a start state of `res` by transitions of `res`; after an early `return` one of them is a final state of `res`; otherwise
the queue is empty, no reached state is final, all start states are reached and the reached states are closed under the
transitions of the object -/
theorem C11_fa_candidate_search_inv (v : FAVal) (hk : Store.KeysNodup v.trans) :
    (∀ q, q ∈ (candSearch v).reach → ∃ s0, s0 ∈ (vCandRaw v).toNFA.start ∧ ∃ w, Path (vCandRaw v).toNFA s0 w q) ∧
    ((candSearch v).done = true → ∃ q, q ∈ (vCandRaw v).toNFA.final ∧ q ∈ (candSearch v).reach) ∧
    ((candSearch v).done = false → (candSearch v).queue = [] ∧
      (∀ q, q ∈ (candSearch v).reach → q ∉ v.mem.final) ∧ (∀ q, q ∈ v.mem.start → q ∈ (candSearch v).reach) ∧
      ∀ p, p ∈ (candSearch v).reach → ∀ a q, (p, a, q) ∈ v.toNFA.trans → q ∈ (candSearch v).reach) := by
  obtain ⟨hi, hl⟩ := candSearch_inv v hk
  refine ⟨fun q hq => ?_, hi.hdone, fun hd => ?_⟩
  · obtain ⟨s0, h0, w, hp⟩ := hi.hreach q hq
    exact ⟨s0, h0, w, Path.mono (N := KT v (candSearch v).keys) (M := (vCandRaw v).toNFA) (fun _ h => h) hp⟩
  · obtain ⟨L, hq⟩ := hl hd
    refine ⟨hq, L.hnf, L.hst, fun p hp a q he => ?_⟩
    rcases L.hexp p hp with h' | h'
    · rw [hq] at h'; exact nomatch h'
    · exact h' a q he

/-- non-vacuity: an object with two ways to a final state; the search returns at the first final target (state 2, reached
from the cluster of state 1), the branch via 3 is cut off; the object accepts `[7, 9, 7]`, the witness does not -/
example :
    let v : FAVal := ⟨⟨[2, 4], [0], [(0, [3])]⟩, [(0, [(7, [[1]])]), (1, [(8, [[2]]), (9, [[3]])]), (3, [(7, [[4]])])]⟩
    Store.KeysNodup v.trans ∧ (candSearch v).done = true ∧ (candSearch v).keys = [0, 1] ∧
    (vCandRaw v).toNFA.trans = [(0, 7, 1), (1, 8, 2), (1, 9, 3)] ∧ (vCandidate v).toNFA.trans = [(1, 8, 2), (0, 7, 1)] ∧
    acceptsW (vCandidate v).toNFA [7, 8] = true ∧ acceptsW v.toNFA [7, 9, 7] = true ∧
    acceptsW (vCandidate v).toNFA [7, 9, 7] = false := by
  refine ⟨by unfold Store.KeysNodup; decide, ?_⟩
  decide +kernel

/-- an object with the empty language (the final state is not reachable): the search ends with `newStates.empty()` -/
example :
    let v : FAVal := ⟨⟨[2], [0], []⟩, [(0, [(5, [[1]])]), (2, [(5, [[2]])])]⟩
    (candSearch v).done = false ∧ (candSearch v).queue = [] ∧ (candSearch v).reach = [0, 1] ∧
    (vCandidate v).toNFA.final = [] := by decide +kernel

/-- **`KeysNodup` is needed**: a "value" with two clusters for state 0 (not the contents of a map) – `find` sees the first
cluster only, the search never sees `0 -6-> 2`, and the witness is empty although the denoted automaton accepts `[6]` -/
theorem C11_fa_denote_candidate_needs_keys :
    let v : FAVal := ⟨⟨[2], [0], []⟩, [(0, [(5, [[1]])]), (0, [(6, [[2]])])]⟩
    acceptsW v.toNFA [6] = true ∧ (vCandidate v).toNFA.final = [] ∧ (vCandRaw v).toNFA.final = [] := by decide +kernel

/-! ### 2. every step of every history, `GetCandidateTree` included -/

/-- **after any operation list, one more operation – ANY operation.**  `DenStepRel a op b`: for every operation other than
`GetCandidateTree` the environment `b` of denoted automata is `denStep a op` up to list order (as in
`C11_fa_history_languages`, so the language of every handle is the language of the spec-level result); for
`op = candidate src dst` (`candRaw src dst`) with `src` live and `dst` dead the target denotes SOME automaton `R` with
`WitnessSpec A R` – the two guarantees of `C10_witness`: `L(R) ⊆ L(A)` and `L(R) ≠ ∅ ↔ L(A) ≠ ∅`, `A` the automaton of `src`
(for `candRaw` moreover `R` is a sub-automaton of `A`) – and every other handle denotes what it denoted; otherwise nothing
changes.  Only hypothesis: `OpOk` (for `UnionDisjointStates`, no common source state). -/
theorem C11_fa_history_languages_all (ops : List Op) (op : Op) (hok : OpOk (absFA (exec ops)) op) :
    DenStepRel (den (absFA (exec ops))) op (den (absFA (exec (ops ++ [op])))) ∧
    (NotCand op → ∀ h w,
      langOf (den (absFA (exec (ops ++ [op])))) h w = langOf (denStep (den (absFA (exec ops))) op) h w) ∧
    (∀ src dst, op = .candidate src dst ∨ op = .candRaw src dst →
      ∀ A, den (absFA (exec ops)) src = some A → den (absFA (exec ops)) dst = none →
        (∃ R, den (absFA (exec (ops ++ [op]))) dst = some R ∧ WitnessSpec A R) ∧
        ∀ x, x ≠ dst → den (absFA (exec (ops ++ [op]))) x = den (absFA (exec ops)) x) := by
  have h := fa_history_step_all ops op hok
  refine ⟨h, fun hnc hh w => (fa_history_denote_step ops op hok hnc).lang hh w, ?_⟩
  rintro src dst (e | e) A hA hd
  · subst e
    exact dResRel_elim h hA hd
  · subst e
    obtain ⟨⟨R, hR, hS⟩, h2⟩ := dResRel_elim h hA hd
    exact ⟨⟨R, hR, hS.2⟩, h2⟩

/-- the step `.candidate 1 6` of the history `faOps` (position 16): object 1 is live, 6 is not; the witness read through
handle 6 accepts `[5, 6]`, a word of object 1 -/
example : faOps[16]? = some (.candidate 1 6) ∧
    OpOk (absFA (exec (faOps.take 16))) (.candidate 1 6) ∧
    (den (absFA (exec (faOps.take 16))) 1).isSome = true ∧ den (absFA (exec (faOps.take 16))) 6 = none ∧
    langOf (den (absFA (exec (faOps.take 16 ++ [.candidate 1 6])))) 6 [5, 6] = some true ∧
    langOf (den (absFA (exec (faOps.take 16)))) 1 [5, 6] = some true := by
  refine ⟨rfl, trivial, ?_⟩
  decide +kernel

/-! ### 3. whole histories as one fold -/

/-- **the `nfas…` operations respect "the same up to list order"** (`NEquiv`): the mutators, `UnionDisjointStates` in both
arguments, `ReindexStates` for an index function injective on the START states of the operand (transitions, start and final
states need nothing; the start-symbol map is written per start state in list order and the first state with a given image
decides), and the three trimming / reversing functions (`C11_FiniteAutDenote.lean`) -/
theorem C11_fa_denote_congr {A B : NFAS} (h : NEquiv A B) :
    (∀ q, NEquiv (nfasSetFinal A q) (nfasSetFinal B q)) ∧
    (∀ q a, NEquiv (nfasSetStart A q a) (nfasSetStart B q a)) ∧
    (∀ q S, NEquiv (nfasSetExistingStart A q S) (nfasSetExistingStart B q S)) ∧
    (∀ p a q, NEquiv (nfasAddTrans A p a q) (nfasAddTrans B p a q)) ∧
    (∀ C D, NEquiv C D → NEquiv (nfasUnionDisjoint A C) (nfasUnionDisjoint B D) ∧
      NEquiv (nfasUnionDisjoint C A) (nfasUnionDisjoint D B)) ∧
    (∀ f, NfaInjOn f A.start → NEquiv (nfasMap f A) (nfasMap f B)) ∧
    NEquiv (nfasReverse A) (nfasReverse B) ∧ NEquiv (nfasRemoveUnreachable A) (nfasRemoveUnreachable B) ∧
    NEquiv (nfasRemoveUseless A) (nfasRemoveUseless B) :=
  ⟨nfasSetFinal_congr h, nfasSetStart_congr h, nfasSetExistingStart_congr h, nfasAddTrans_congr h,
    fun _ _ h' => ⟨nfasUnionDisjoint_congr h h', nfasUnionDisjoint_congr h' h⟩, fun f hf => Vata.CowHeapFA.nfasMap_congr f h hf,
    nfasReverse_congr h, nfasRemoveUnreachable_congr h, nfasRemoveUseless_congr h⟩

/-- injectivity on the start states cannot be dropped from the congruence of `nfasMap`: two automata with the same start
states in a different ORDER, merged by the index function – the merged start state gets the symbols of whichever comes first -/
theorem C11_fa_denote_congr_map_needs_inj :
    let A : NFAS := ⟨⟨[0, 1], [], []⟩, [(0, [7]), (1, [8])]⟩
    let B : NFAS := ⟨⟨[1, 0], [], []⟩, [(0, [7]), (1, [8])]⟩
    (∀ q, q ∈ A.start ↔ q ∈ B.start) ∧ A.startSyms = B.startSyms ∧
    smFind (nfasMap (fun _ => 0) A).startSyms 0 = some [7] ∧ smFind (nfasMap (fun _ => 0) B).startSyms 0 = some [8] :=
  nfasMap_congr_needs_inj

/-- `denStep` respects `EnvEq` (every operation but `GetCandidateTree`; `DenOk`: the index function of a `ReindexStates`
step is injective on the start states of its source) -/
theorem C11_fa_denStep_congr {a b : Nat → Option NFAS} (hab : EnvEq a b) (op : Op) (hok : DenOk a op) (hnc : NotCand op) :
    EnvEq (denStep a op) (denStep b op) :=
  denStep_congr hab op hok hnc

/-- **one equation for a whole history.**  For every operation list in which every step satisfies `FoldOk` in the state it
is executed in – it is not `GetCandidateTree` / its internal step; the operands of a `UnionDisjointStates` have no source
state in common; the index function of a `ReindexStates` is injective on the start states of its source – the automata
denoted by the live handles at the end are, handle by handle and up to list order, the fold of `denStep` (the C10 models
`nfasAddTrans`, `nfasSetFinal`, `nfasSetStart`, `nfasSetExistingStart`, `nfasUnionDisjoint`, `nfasMap`,
`nfasRemoveUnreachable`, `nfasReverse`, `nfasRemoveUseless`) over the operation list, started with no object; liveness
agrees, and so does the language read through every handle. -/
theorem C11_fa_history_fold (ops : List Op)
    (hok : ∀ n (h : n < ops.length), FoldOk (absFA (exec (ops.take n))) ops[n]) :
    EnvEq (den (absFA (exec ops))) (ops.foldl denStep den0) ∧
    ∀ h w, langOf (den (absFA (exec ops))) h w = langOf (ops.foldl denStep den0) h w :=
  ⟨fa_history_fold ops hok, fun h w => (fa_history_fold ops hok).lang h w⟩

/-- **whole histories WITH `GetCandidateTree` steps**: every history of the heap model (`OpOk` at every step) is a run of the
relational specification `DenStepRel` on automata, started with no object (`DenRun`: the inductive closure "`[]` leads to no
object; if `ops` leads to `a` and `DenStepRel a op b` then `ops ++ [op]` leads to `b`") -/
theorem C11_fa_history_run (ops : List Op)
    (hok : ∀ n (h : n < ops.length), OpOk (absFA (exec (ops.take n))) ops[n]) :
    DenRun ops (den (absFA (exec ops))) :=
  fa_history_run ops hok

/-- the hypothesis holds trivially for histories without `UnionDisjointStates`, e.g. with a `GetCandidateTree` step -/
example : ∀ n (h : n < [Op.new 1, .setStart 1 0 7, .add 1 0 5 1, .setFinal 1 1, .candidate 1 2].length),
    OpOk (absFA (exec ([Op.new 1, .setStart 1 0 7, .add 1 0 5 1, .setFinal 1 1, .candidate 1 2].take n)))
      [Op.new 1, .setStart 1 0 7, .add 1 0 5 1, .setFinal 1 1, .candidate 1 2][n] := by
  intro n h
  match n, h with
  | 0, _ => trivial
  | 1, _ => trivial
  | 2, _ => trivial
  | 3, _ => trivial
  | 4, _ => trivial
  | n + 5, h => exact absurd h (by simp)

namespace FoldEx
/-- a history with a `ReindexStates` (into a fresh object: `Union`'s first half), a `Reverse` and a `RemoveUselessStates` -/
def ops : List Op :=
  [.new 1, .setStart 1 0 7, .add 1 0 5 1, .add 1 1 6 2, .setFinal 1 2, .new 2, .reindex 1 2 (fun q => q + 3),
   .reverse 1 3, .useless 2 4, .add 1 2 5 2]
end FoldEx

/-- the hypotheses of `C11_fa_history_fold` hold for `FoldEx.ops` (`q ↦ q + 3` is injective everywhere) -/
example : ∀ n (h : n < FoldEx.ops.length), FoldOk (absFA (exec (FoldEx.ops.take n))) FoldEx.ops[n] := by
  intro n h
  match n, h with
  | 0, _ => trivial
  | 1, _ => trivial
  | 2, _ => trivial
  | 3, _ => trivial
  | 4, _ => trivial
  | 5, _ => trivial
  | 6, _ => exact fun s _ p _ q _ e => Nat.add_right_cancel e
  | 7, _ => trivial
  | 8, _ => trivial
  | 9, _ => trivial
  | n + 10, h => exact absurd h (by simp [FoldEx.ops])

/-- … and the fold computes: handle 4 (the trimmed reindexed copy) accepts `[5, 6]`, handle 3 its mirror image, object 1
has its later transition -/
example : langOf (FoldEx.ops.foldl denStep den0) 4 [5, 6] = some true ∧
    langOf (FoldEx.ops.foldl denStep den0) 3 [6, 5] = some true ∧
    langOf (FoldEx.ops.foldl denStep den0) 1 [5, 6, 5] = some true ∧
    langOf (FoldEx.ops.foldl denStep den0) 3 [5, 6, 5] = some false ∧
    langOf (FoldEx.ops.foldl denStep den0) 5 [] = none ∧
    langOf (den (absFA (exec FoldEx.ops))) 4 [5, 6] = some true := by decide +kernel

/-!
## still not proved

* `GetCandidateTree`: the link is to the SPECIFICATION (`C11_fa_denote_candidate`: sub-automaton, same emptiness), not to a
  particular model: neither `NEquiv (vCandidate v).toNFAS (nfasCandidate v.toNFAS)` (list-order model of `NfaStart.lean`) nor
  `NEquiv (vCandidate v).toNFAS (NfaC.nfasCandidateCoded o v.toNFAS)` for the scan order `o` the containers of `v` induce is
  proved (the latter would need `o` as a function of the element LISTS that reproduces the cluster order of `v`, and symbols /
  targets without repetition inside a cluster, which `WFV` does not state).  Nothing is stated about the start-symbol map of
  the witness (the entries `SetExistingStateStart (s, GetStartSymbols (s))` writes are modelled in `candStart`).
* `C11_fa_history_fold` excludes `GetCandidateTree` steps (`FoldOk`): `denStep` uses the order-dependent `nfasCandidate` there,
  which does not respect `NEquiv`; for such steps only the relational per-step statement `C11_fa_history_languages_all` is
  available, composed along a history by `C11_fa_history_run` (a RELATION: the witness is not determined).
* `FoldOk` asks injectivity of the index function of `ReindexStates` on the START states of the source
  (`C11_fa_denote_congr_map_needs_inj`: needed for the congruence of `nfasMap`).  Whether the per-step statement composed along
  a history could do without it (by tracking the list order of the start states) is not investigated.
* `Union(lhs, rhs)` = `unionOps` is covered by the fold step by step; that the result is `nfasUnionWith fA fB a b` up to
  `NEquiv` is still not stated as a theorem.
* As before: that `step` is a faithful transcription of the C++ is not a theorem; the link is the driver comparison of
  `CowHeapFA.run` with the real class.
-/
end Vata.Props
