import Vata.Proofs.RenameCodedMain
import Vata.Proofs.IsectModel
/-!
# C14 – `ReindexStates` / `CollapseStates` / `TranslateSymbols` AS CODED on the rule store, with translators that may throw

> ReindexStates and CollapseStates return exactly the image of the automaton under the given state map: a rule or final
> state is in the result if and only if it is the image of a rule or final state of the input, and TranslateSymbols
> does the same for a symbol map.  Consequently an injective renaming yields an isomorphic automaton with the same
> language and the same number of states and rules, and a non-injective state map yields an automaton whose language
> contains the original one.

## How the C++ is read into the model (`Vata/RenameCoded.lean`)

* `reindexInto T src dst st addFinalStates` mirrors `src.ReindexStates(dst, index, addFinalStates)` loop by loop on
  `Vata.Store` values: the final states FIRST (`SetStateFinal(index.at(state))`), then for every cluster `index.at(parent)`
  followed by `uniqueCluster` (the cluster is CREATED before any child is translated), for every symbol `uniqueTuplePtrSet`
  (the tuple set is CREATED), for every tuple the children left to right, then the `insert`.  The list order of the source store
  is the iteration order of the hash containers – every theorem holds for every order.
* A translator object is `Transl σ` (`app st key = none` = throws); `strictT` = `TranslatorStrict<map>` (`Glue.strict`),
  `weakT f` = `TranslatorWeak<map>` with a functor of `Glue.Alloc` (one step of `Glue.weakMapSeq`), `totalT h` = a total functor.
* The outcome is a `Run`: the thrown key, `dst` AT THAT MOMENT, the translator's container.  `reindexCoded` / `collapseCoded` /
  `translateSymbolsCoded` wrap it as `Except (key × dst × translator) (result × translator)`; `…TA` are entry points on `TA` values.
* "The SOURCE is unchanged": `ReindexStates` is a `const` method and the source is only read; in the model the source store is an
  argument that is not part of the result, so this is true by construction (the sharing side – no OTHER object changes – is
  `C11_ext_reindex_into`).
* Abstracted: `shared_ptr` sharing (C11), alphabet pointer, tuple cache, `dst` aliasing `*this`.

## Finding (documented by `C14_coded_thrown_dst_breaks_invariant`)

When the strict translator throws while translating the CHILDREN of a tuple, `dst` already contains the cluster and the tuple set
created by `uniqueCluster` / `uniqueTuplePtrSet` – possibly EMPTY.  An empty tuple set / cluster violates the representation
invariant of the store (`Store.Inv`, C12) on which the iterators rely.  Only the `dst` overload can expose this (the value-returning
overloads destroy `res` during unwinding).
-/
namespace Vata.Props
open Vata Vata.Store Vata.RenameCoded

/-- which states are looked up, in which order: the translator sees exactly `lookupOrder src addFinalStates` (final states if asked
for, then per cluster the parent and the children symbol by symbol, tuple by tuple, left to right) up to the first key that
throws – for ANY translator object that behaves like a growing map (`Lawful`) -/
theorem C14_coded_lookup_order {σ : Type} {T : Transl σ} {view : σ → Nat → Option Nat} (L : Lawful T view)
    (src dst : Store) (st : σ) (af : Bool) :
    ((reindexInto T src dst st af).thrown, (reindexInto T src dst st af).tr) = appSeq T (lookupOrder src af) st :=
  (reindexInto_gen L src dst st af).1

example : lookupOrder ⟨[(1, [(7, [[], [1, 2]])]), (3, [(8, [[2]])])], [3, 5]⟩ true = [3, 5, 1, 1, 2, 3, 2] := by decide

/-- a total translator (`ReindexStates` with a functor, `CollapseStates`): nothing is thrown, and the destination holds what it
held plus exactly the image; each rule is yielded once.  (`WInv` = keys unique at both levels, no duplicate tuple, no duplicate
final state.)  Hypothesis: the destination satisfies the weak invariant (true for every store built by the API). -/
theorem C14_coded_reindex_image (h : Nat → Nat) (src dst : Store) (af : Bool) (hd : WInv dst) :
    (reindexInto (totalT h) src dst () af).thrown = none ∧
    WInv (reindexInto (totalT h) src dst () af).dst ∧ (iterate (reindexInto (totalT h) src dst () af).dst).Nodup ∧
    (∀ x, x ∈ iterate (reindexInto (totalT h) src dst () af).dst ↔
      x ∈ iterate dst ∨ ∃ r, r ∈ iterate src ∧ x = mapRule h r) ∧
    (∀ q, q ∈ (reindexInto (totalT h) src dst () af).dst.final ↔
      q ∈ dst.final ∨ (af = true ∧ ∃ p, p ∈ src.final ∧ q = h p)) := by
  have hthr : (reindexInto (totalT h) src dst () af).thrown = none := by
    have := (reindexInto_gen (lawful_totalT h) src dst () af).1
    have e : (appSeq (totalT h) (lookupOrder src af) ()).1 = (reindexInto (totalT h) src dst () af).thrown := by rw [← this]
    rw [← e]
    exact appSeq_total_none h _
  have hl : Left h src dst af _ _ := reindexInto_lawful (lawful_totalT h) src dst () af
  obtain ⟨⟨fpre, fsuf, rpre, rsuf, e1, e2, e3, _, e5, e6⟩, hw⟩ := hl
  obtain ⟨h1, h2⟩ := e3 hthr
  subst h1; subst h2
  rw [List.append_nil] at e1 e2
  have hw' := hw hd
  refine ⟨hthr, hw', nodup_iterate_w hw', ?_, ?_⟩
  · intro x
    rw [← contains_iff_mem_iterate_w hw', ← contains_iff_mem_iterate_w hd, e5, e2]
  · intro q
    rw [e6, ← e1]
    cases af <;> simp

/-- the value-returning overload on the protocol level: the rules and final states of the result are those of the relation-level
`reindex h`, hence (C14) for `h` injective on the states the result has the same language -/
theorem C14_coded_reindex_lang (h : Nat → Nat) (src : Store) :
    (∀ x, x ∈ (toTA (reindexInto (totalT h) src empty () true).dst).rules ↔ x ∈ (reindex h (toTA src)).rules) ∧
    (∀ q, q ∈ (toTA (reindexInto (totalT h) src empty () true).dst).final ↔ q ∈ (reindex h (toTA src)).final) ∧
    (InjOnStates h (toTA src) → LangEq (toTA (reindexInto (totalT h) src empty () true).dst) (toTA src)) := by
  obtain ⟨_, _, _, hr, hf⟩ := C14_coded_reindex_image h src empty true winv_empty
  have h1 : ∀ x, x ∈ (toTA (reindexInto (totalT h) src empty () true).dst).rules ↔ x ∈ (reindex h (toTA src)).rules := by
    intro x
    simp only [toTA, reindex, List.mem_map]
    rw [hr]
    simp only [iterate, empty, List.flatMap_nil, List.not_mem_nil, false_or]
    exact ⟨fun ⟨r, a, b⟩ => ⟨r, a, b.symm⟩, fun ⟨r, a, b⟩ => ⟨r, a, b.symm⟩⟩
  have h2 : ∀ q, q ∈ (toTA (reindexInto (totalT h) src empty () true).dst).final ↔ q ∈ (reindex h (toTA src)).final := by
    intro q
    simp only [toTA, reindex, List.mem_map]
    rw [hf]
    simp only [empty, List.not_mem_nil, false_or, true_and]
    exact ⟨fun ⟨r, a, b⟩ => ⟨r, a, b.symm⟩, fun ⟨r, a, b⟩ => ⟨r, a, b.symm⟩⟩
  refine ⟨h1, h2, fun hinj t => ?_⟩
  rw [Isx.accepts_congr_sets h1 h2 t]
  exact reindex_inj_lang h _ hinj t

/-- explicit isomorphism: if `h` is injective on the states there is an inverse `g` such that renaming back gives the SAME rule
list and final-state list (relation level), and running the coded `ReindexStates` twice (with `h`, then with `g`) gives a store
that yields exactly the rules and final states of the source -/
theorem C14_coded_isomorphism (h : Nat → Nat) (src : Store) (hinj : InjOnStates h (toTA src)) :
    ∃ g : Nat → Nat,
      (reindex g (reindex h (toTA src))).rules = (toTA src).rules ∧
      (reindex g (reindex h (toTA src))).final = (toTA src).final ∧
      (∀ x, x ∈ iterate (reindexInto (totalT g) (reindexInto (totalT h) src empty () true).dst empty () true).dst ↔
        x ∈ iterate src) ∧
      (∀ q, q ∈ (reindexInto (totalT g) (reindexInto (totalT h) src empty () true).dst empty () true).dst.final ↔
        q ∈ src.final) := by
  refine ⟨invOn h (toTA src), (reindex_invOn hinj).1, (reindex_invOn hinj).2, ?_, ?_⟩
  · intro x
    obtain ⟨_, _, _, hr1, _⟩ := C14_coded_reindex_image h src empty true winv_empty
    obtain ⟨_, _, _, hr2, _⟩ := C14_coded_reindex_image (invOn h (toTA src))
      (reindexInto (totalT h) src empty () true).dst empty true winv_empty
    rw [hr2]
    simp only [iterate, empty, List.flatMap_nil, List.not_mem_nil, false_or]
    constructor
    · rintro ⟨r1, hr, e⟩
      have := (hr1 r1).mp hr
      simp only [iterate, empty, List.flatMap_nil, List.not_mem_nil, false_or] at this
      obtain ⟨r, hr', e'⟩ := this
      rw [e, e', mapRule_invOn hinj (A := toTA src) hr']
      exact hr'
    · intro hx
      refine ⟨mapRule h x, (hr1 _).mpr (Or.inr ⟨x, hx, rfl⟩), ?_⟩
      rw [mapRule_invOn hinj (A := toTA src) hx]
  · intro q
    obtain ⟨_, _, _, _, hf1⟩ := C14_coded_reindex_image h src empty true winv_empty
    obtain ⟨_, _, _, _, hf2⟩ := C14_coded_reindex_image (invOn h (toTA src))
      (reindexInto (totalT h) src empty () true).dst empty true winv_empty
    rw [hf2]
    simp only [empty, List.not_mem_nil, false_or, true_and]
    constructor
    · rintro ⟨p, hp, e⟩
      have := (hf1 p).mp hp
      simp only [empty, List.not_mem_nil, false_or, true_and] at this
      obtain ⟨p0, hp0, e0⟩ := this
      rw [e, e0, invOn_apply hinj (Rn.final_mem_states (A := toTA src) hp0)]
      exact hp0
    · intro hq
      refine ⟨h q, (hf1 _).mpr (Or.inr ⟨rfl, q, hq, rfl⟩), ?_⟩
      rw [invOn_apply hinj (Rn.final_mem_states (A := toTA src) hq)]

/-- `TranslatorStrict`: the call throws iff some looked-up key is not in the map – the thrown key is the FIRST such key in lookup
order, the container is unchanged –, and `dst` then holds what it held plus the images of a PREFIX of the final states and (only
if all final states went through) of a PREFIX of the rules in iteration order (`Left`), and still satisfies the weak invariant.
With `addFinalStates` and a source satisfying the store invariant the looked-up keys are exactly `GetUsedStates()`. -/
theorem C14_coded_strict_throws (src dst : Store) (m : List (Nat × Nat)) (af : Bool) :
    (reindexInto strictT src dst m af).thrown = (lookupOrder src af).find? (fun k => (m.lookup k).isNone) ∧
    (reindexInto strictT src dst m af).tr = m ∧
    ((reindexInto strictT src dst m af).thrown ≠ none ↔ ∃ k, k ∈ lookupOrder src af ∧ m.lookup k = none) ∧
    (Inv src → ((reindexInto strictT src dst m true).thrown ≠ none ↔ ∃ k, k ∈ usedStates src ∧ m.lookup k = none)) ∧
    Left (gd (fun k => m.lookup k)) src dst af (reindexInto strictT src dst m af).thrown (reindexInto strictT src dst m af).dst := by
  have hg : ∀ af, ((reindexInto strictT src dst m af).thrown, (reindexInto strictT src dst m af).tr) =
      ((lookupOrder src af).find? (fun k => (m.lookup k).isNone), m) := by
    intro af
    rw [(reindexInto_gen lawful_strictT src dst m af).1, appSeq_strict]
  have h1 : ∀ af, (reindexInto strictT src dst m af).thrown = (lookupOrder src af).find? (fun k => (m.lookup k).isNone) :=
    fun af => congrArg Prod.fst (hg af)
  have h2 : (reindexInto strictT src dst m af).tr = m := congrArg Prod.snd (hg af)
  have h3 : ∀ af, ((reindexInto strictT src dst m af).thrown ≠ none ↔ ∃ k, k ∈ lookupOrder src af ∧ m.lookup k = none) := by
    intro af
    rw [h1 af, Option.ne_none_iff_isSome, List.find?_isSome]
    constructor
    · rintro ⟨k, hk, hp⟩
      exact ⟨k, hk, Option.isNone_iff_eq_none.mp hp⟩
    · rintro ⟨k, hk, hp⟩
      exact ⟨k, hk, Option.isNone_iff_eq_none.mpr hp⟩
  refine ⟨h1 af, h2, h3 af, ?_, ?_⟩
  · intro hs
    rw [h3 true]
    simp only [mem_lookupOrder hs]
  · have := reindexInto_lawful lawful_strictT src dst m af
    rw [h2] at this
    exact this

/-- the finding: `7(5) → 1` with `1` translated and `5` not – after the exception `dst` holds the cluster of `10` with an EMPTY
tuple set for symbol `7`: the store invariant of C12 is broken (while the weak invariant holds, as proved above) -/
theorem C14_coded_thrown_dst_breaks_invariant :
    reindexStrictIntoTA ⟨[⟨7, [5], 1⟩], []⟩ ⟨[], []⟩ [(1, 10)] true = (some 5, ⟨[(10, [(7, [])])], []⟩) ∧
    invB ⟨[(10, [(7, [])])], []⟩ = false := by decide

/-- … and when the parent is translated but the cluster loop has not started a symbol yet the cluster itself is empty; when the
exception comes from a final state nothing but a prefix of the final states was written -/
example : reindexStrictIntoTA ⟨[⟨7, [1], 1⟩, ⟨8, [1, 6], 2⟩], [1]⟩ ⟨[], []⟩ [(1, 10), (2, 20)] true =
    (some 6, ⟨[(10, [(7, [[10]])]), (20, [(8, [])])], [10]⟩) := by decide
example : reindexStrictIntoTA ⟨[⟨7, [1], 1⟩], [1, 4, 1]⟩ ⟨[], []⟩ [(1, 10)] true = (some 4, ⟨[], [10]⟩) := by decide
example : reindexStrictTA ⟨[⟨7, [1], 1⟩, ⟨8, [1, 2], 2⟩], [2]⟩ [(1, 10), (2, 20)] =
    .ok ⟨[⟨7, [10], 10⟩, ⟨8, [10, 20], 20⟩], [20]⟩ := by rfl
example : reindexStrictTA ⟨[⟨7, [1], 1⟩, ⟨8, [1, 2], 2⟩], [2]⟩ [(1, 10)] = .error 2 := by rfl

/-- `TranslatorWeak` with the library's counter functor: never throws; the map afterwards EXTENDS the given one, contains every
looked-up key, and – if the given map is injective with all values below the counter (`WeakOk`: the functor's numbers avoid its
values) – is again injective with all values below the new counter; `dst` holds the image under the final map -/
theorem C14_coded_weak_extends (src dst : Store) (m : List (Nat × Nat)) (cnt : Nat) (af : Bool) :
    (reindexInto (weakT .counter) src dst ⟨m, cnt⟩ af).thrown = none ∧
    Le (fun k => m.lookup k) (fun k => (reindexInto (weakT .counter) src dst ⟨m, cnt⟩ af).tr.map.lookup k) ∧
    (∀ k, k ∈ lookupOrder src af → (reindexInto (weakT .counter) src dst ⟨m, cnt⟩ af).tr.map.lookup k ≠ none) ∧
    (WeakOk ⟨m, cnt⟩ → WeakOk (reindexInto (weakT .counter) src dst ⟨m, cnt⟩ af).tr) ∧
    Left (gd (fun k => (reindexInto (weakT .counter) src dst ⟨m, cnt⟩ af).tr.map.lookup k)) src dst af none
      (reindexInto (weakT .counter) src dst ⟨m, cnt⟩ af).dst := by
  have hg := (reindexInto_gen (lawful_weakT .counter) src dst ⟨m, cnt⟩ af).1
  have e1 : (reindexInto (weakT .counter) src dst ⟨m, cnt⟩ af).thrown = (appSeq (weakT .counter) (lookupOrder src af) ⟨m, cnt⟩).1 :=
    congrArg Prod.fst hg
  have e2 : (reindexInto (weakT .counter) src dst ⟨m, cnt⟩ af).tr = (appSeq (weakT .counter) (lookupOrder src af) ⟨m, cnt⟩).2 :=
    congrArg Prod.snd hg
  have hthr : (reindexInto (weakT .counter) src dst ⟨m, cnt⟩ af).thrown = none := by
    rw [e1]; exact appSeq_weak_none _ _ _
  refine ⟨hthr, ?_, ?_, ?_, ?_⟩
  · rw [e2]
    exact appSeq_le (lawful_weakT .counter) (lookupOrder src af) ⟨m, cnt⟩
  · rw [e2]
    exact appSeq_hit (lawful_weakT .counter) _ _ (appSeq_weak_none _ _ _)
  · intro h
    rw [e2]
    exact appSeq_pres (T := weakT .counter) (P := WeakOk) (fun st q q' st' hP ha => weakOk_step st q q' st' hP ha) _ _ h
  · have := reindexInto_lawful (lawful_weakT .counter) src dst ⟨m, cnt⟩ af
    rw [hthr] at this
    exact this

example : WeakOk ⟨[(1, 0), (5, 3)], 4⟩ := by
  have hm : Glue.IsMap [(1, 0), (5, 3)] := by simp [Glue.IsMap]
  constructor
  · intro x x' y h1 h2
    change List.lookup x [(1, 0), (5, 3)] = some y at h1
    change List.lookup x' [(1, 0), (5, 3)] = some y at h2
    rw [Glue.lookup_eq_some_iff_mem hm] at h1 h2
    simp at h1 h2
    omega
  · intro x y h1
    change List.lookup x [(1, 0), (5, 3)] = some y at h1
    rw [Glue.lookup_eq_some_iff_mem hm] at h1
    simp at h1
    show y < 4
    omega

example : reindexWeakTA ⟨[⟨7, [1], 1⟩, ⟨8, [1, 2], 2⟩], [2]⟩ [(1, 0)] 1 =
    (⟨[⟨7, [0], 0⟩, ⟨8, [0, 1], 1⟩], [1]⟩, [(1, 0), (2, 1)], 2) := by rfl

/-- `TranslateSymbols` with a total symbol functor: the result satisfies the full store invariant, keeps the final states, and
yields exactly the images of the rules – in particular a NON-INJECTIVE symbol map MERGES: two rules `f₁(t₁) → q`, `f₂(t₂) → q`
with `g f₁ = g f₂` both end up in the ONE tuple set of `g f₁` under `q` (union, not overwrite) -/
theorem C14_coded_translate_symbols_merge (g : Nat → Nat) (src : Store) (hs : src.final.Nodup) :
    (translateSymbolsRun (totalT g) src ()).thrown = none ∧
    Inv (translateSymbolsRun (totalT g) src ()).dst ∧
    (translateSymbolsRun (totalT g) src ()).dst.final = src.final ∧
    (∀ x, x ∈ iterate (translateSymbolsRun (totalT g) src ()).dst ↔ ∃ r, r ∈ iterate src ∧ x = mapSym g r) ∧
    (∀ r₁ r₂, r₁ ∈ iterate src → r₂ ∈ iterate src → r₁.parent = r₂.parent → g r₁.sym = g r₂.sym →
      r₁.kids ∈ tuplesOf (clusterOf (translateSymbolsRun (totalT g) src ()).dst r₁.parent) (g r₁.sym) ∧
      r₂.kids ∈ tuplesOf (clusterOf (translateSymbolsRun (totalT g) src ()).dst r₁.parent) (g r₁.sym)) := by
  have hgen := symLoop_gen (lawful_totalT g) (iterate src) ⟨[], src.final⟩ ()
  have hthr : (translateSymbolsRun (totalT g) src ()).thrown = none := by
    have e : (appSeq (totalT g) ((iterate src).map Rule.sym) ()).1 = (symLoop (totalT g) (iterate src) ⟨[], src.final⟩ ()).thrown := by
      rw [← hgen.1]
    unfold translateSymbolsRun
    rw [← e]
    exact appSeq_total_none g _
  have hrep := hgen.2 (fun q => some (g q)) (Le.refl _) (by intro k hk; rw [translateSymbolsRun] at hthr; rw [hthr] at hk; cases hk)
  obtain ⟨pre, suf, e1, e2, e3⟩ := symLoop_opt (fun q => some (g q)) (iterate src) ⟨[], src.final⟩
  rw [hrep] at e2 e3
  simp only at e2 e3
  have := e2 hthr
  subst this
  rw [List.append_nil] at e1
  subst e1
  have hgd : gd (fun q => some (g q)) = g := rfl
  rw [hgd] at e3
  have hd : (translateSymbolsRun (totalT g) src ()).dst = ((iterate src).map (mapSym g)).foldl addTransition ⟨[], src.final⟩ := e3
  have hi0 : Inv (⟨[], src.final⟩ : Store) := inv_noTrans _ hs
  have hmem : ∀ x, x ∈ iterate (translateSymbolsRun (totalT g) src ()).dst ↔ ∃ r, r ∈ iterate src ∧ x = mapSym g r := by
    intro x
    rw [hd, mem_iterate_foldl_add hi0]
    simp only [iterate, List.flatMap_nil, List.not_mem_nil, false_or, List.mem_map]
    exact ⟨fun ⟨r, a, b⟩ => ⟨r, a, b.symm⟩, fun ⟨r, a, b⟩ => ⟨r, a, b.symm⟩⟩
  have hinv : Inv (translateSymbolsRun (totalT g) src ()).dst := by rw [hd]; exact inv_foldl_add hi0 _
  refine ⟨hthr, hinv, ?_, hmem, ?_⟩
  · rw [hd]
    have : ∀ (rs : List Rule) (s : Store), (rs.foldl addTransition s).final = s.final := by
      intro rs
      induction rs with
      | nil => intro s; rfl
      | cons r rs ih => intro s; rw [List.foldl_cons, ih]; rfl
    rw [this]
  · intro r₁ r₂ h1 h2 hp hsym
    have c1 := (contains_iff_mem_iterate hinv (mapSym g r₁)).mpr ((hmem _).mpr ⟨r₁, h1, rfl⟩)
    have c2 := (contains_iff_mem_iterate hinv (mapSym g r₂)).mpr ((hmem _).mpr ⟨r₂, h2, rfl⟩)
    rw [contains_eq, List.contains_iff_mem] at c1 c2
    simp only [mapSym] at c1 c2
    rw [← hp, ← hsym] at c2
    exact ⟨c1, c2⟩

/-- regression: the seeded variant that REPLACES the tuple set of the translated symbol loses `7(1) → 1` when `7` and `8` are
mapped to the same symbol; the coded function keeps both -/
theorem C14_coded_translate_symbols_overwrite_regression :
    let A : TA := ⟨[⟨7, [1], 1⟩, ⟨8, [2], 1⟩, ⟨9, [], 2⟩], [1]⟩
    translateSymbolsTA A (fun _ => 0) = ⟨[⟨0, [1], 1⟩, ⟨0, [2], 1⟩, ⟨0, [], 2⟩], [1]⟩ ∧
    toTA (translateSymbolsOverwrite (fun _ => 0) (ofTA A)) = ⟨[⟨0, [2], 1⟩, ⟨0, [], 2⟩], [1]⟩ := ⟨by rfl, by rfl⟩

example : (ofTA ⟨[⟨7, [1], 1⟩, ⟨8, [2], 1⟩], [1, 1]⟩).final.Nodup := by decide
example : reindexTotalTA ⟨[⟨7, [1], 1⟩, ⟨8, [1, 2], 2⟩], [2]⟩ (fun _ => 0) = ⟨[⟨7, [0], 0⟩, ⟨8, [0, 0], 0⟩], [0]⟩ := by rfl
example : translateSymbolsStrictTA ⟨[⟨7, [1], 1⟩, ⟨8, [1, 2], 2⟩], [2]⟩ [(7, 70)] = .error 8 := by rfl

/-!
## Hypotheses

* `WInv dst` in `C14_coded_reindex_image`: needed to pass from `ContainsTransition` to the iterator (a destination with a duplicate
  key would yield rules `contains` does not see).  Satisfied by every `Store.run ops` (`WInv.of_inv (store_inv ops)`), by `empty`.
* `Inv src` in the `usedStates` clause of `C14_coded_strict_throws`: a source with an EMPTY cluster `(q, [])` has the parent `q`
  looked up although no rule mentions it.  `Inv` holds for every `Store.run ops`.
* `src.final.Nodup` in `C14_coded_translate_symbols_merge`: the final-state set is copied as it is (it is an `unordered_set`).
* `Lawful`: shown for all four translator instances (`lawful_totalT`, `lawful_optT`, `lawful_strictT`, `lawful_weakT`).

## still not proved

* The FULL store invariant (`Store.Inv`: no empty cluster / tuple set) of the destination after a SUCCESSFUL `ReindexStates` is not
  proved (only the weak invariant `WInv`, exact content and "each rule once"); it needs `Inv src` and the absorption of the
  `unique…` calls by the following `insert`.  For `TranslateSymbols` the full invariant IS proved.
* `C14_coded_weak_extends` is proved for the library's counter functor (`Glue.Alloc.counter`); for an arbitrary fresh-number functor
  only the extension part (`Le`, every key present, exact content under the final map) follows (from `lawful_weakT f`, any `f`),
  injectivity is not proved in that generality.
* The language isomorphism for the weak translator (injective final map ⇒ `InjOnStates` ⇒ same language) is not assembled into one
  statement; the pieces are `C14_coded_weak_extends` and `C14_coded_reindex_lang`.
* Sharing (`shared_ptr`) effects of the `dst` variant and `dst` aliasing the source are outside this model (C11).
* Translators whose answers change over time (not `Lawful`) are covered only by `C14_coded_lookup_order`-style reasoning, not by the
  content theorems.
-/
end Vata.Props
