import Vata.Spec
import Vata.Proofs.SimModel
import Vata.Proofs.TaLts
import Vata.Proofs.Equivariance
/-!
# C04 – Tree-automata simulations returned are the greatest downward/upward simulations

> For an explicit tree automaton whose states are numbered 0..n-1 and n is passed as the number of states, the downward
> simulation returned relates q to r exactly when every rule a(q1..qk)->q can be answered by a rule a(r1..rk)->r whose
> children pairwise simulate q1..qk, taken as the greatest such relation.  For an automaton without useless states the
> upward simulation returned is the greatest relation in which q related to r implies that r is final whenever q is and
> that every rule using q at some child position is answered by a rule using r at the same position with identical
> siblings and a related parent.  Both results are therefore reflexive and transitive and do not depend on how the
> states happen to be numbered.

## How the statement is read into the model

* **Specification (L0).**  `DownSim A S` (`Vata/Reduce.lean`; alias `IsDownSim` in `Vata/Spec.lean`): `S q r` implies
  that every rule `a(q₁..qₖ) → q` is answered by a rule `a(r₁..rₖ) → r` with `S qᵢ rᵢ` for all `i`.
  `IsUpSim A S` (`Vata/Spec.lean`): `S q r` implies `q ∈ F → r ∈ F` and every rule with `q` at child position `i` is
  answered by a rule with the same symbol, `r` at position `i`, *identical* siblings (`setAt ρ.kids i r`) and `S`-related
  parents.  "The greatest such relation" is the union of all relations with the property; the theorems characterise
  membership by `∃ S, … ∧ S q r`.
* **Model of the code.**  `downSimRef A`, `upSimRef A` (`Vata/Ref.lean`): start from all pairs of states of `A` and
  delete pairs that violate the condition until nothing changes (`refineIter`, `|Q|²+1` rounds).  They are the relations
  the output of `ComputeSimulation` is compared with pair by pair (`relEq`).  `RelOf R q r` is `(q, r) ∈ R`.
  The relations are on `A.states` (the states occurring in `A`); the preconditions of the C++ interface ("numbered
  `0..n-1`", "`n` passed as the number of states", "no useless states" for the upward direction) are preconditions of
  the *call*, the model needs none of them, so the theorems hold for every `A`.
* **Checkers.**  `isDownSimB`, `isUpSimB`: the Boolean tests "is a downward / upward simulation" applied to the
  relation the real code returns.
* **The route of the C++.**  Second half of this file: the translation to an LTS as coded, with the engine represented by
  its specification.  `Vata/Properties/C04_Pipeline.lean` (which imports this file) closes the route: the fresh translator,
  the translations as coded, the MODEL of the engine (`Vata/LtsEngine.lean`, C16), the matrix `buildResult` fills and the
  `StateDiscontBinaryRelation` read through `get` (class model `Vata/BinRel.lean`, `Vata/Properties/Util_BinRel.lean`) –
  `C04_pipeline_statement` there is the property in its own words for that composition.
-/
namespace Vata.Props
open Vata

/-- the downward simulation of the model relates `q` to `r` exactly when `q`, `r` are states of `A` and *some* downward
simulation relates them – it is the greatest downward simulation (on the states of `A`), and it is one itself -/
theorem C04_downward_greatest (A : TA) :
    DownSim A (RelOf (downSimRef A)) ∧
    ∀ q r, (q, r) ∈ downSimRef A ↔ q ∈ A.states ∧ r ∈ A.states ∧ ∃ S, DownSim A S ∧ S q r :=
  ⟨downSimRef_sim A, fun q r =>
    ⟨fun h => ⟨(downSimRef_sub A h).1, (downSimRef_sub A h).2, RelOf (downSimRef A), downSimRef_sim A, h⟩,
     fun ⟨hq, hr, S, hS, hqr⟩ => downSimRef_contains A S hS q r hq hr hqr⟩⟩

example : DownSim SimModel.exA (RelOf [(0, 1), (1, 0), (2, 3)]) ∧ 2 ∈ SimModel.exA.states ∧ 3 ∈ SimModel.exA.states :=
  ⟨(isDownSimB_iff _ _).mp (by decide), by decide, by decide⟩
example : (2, 3) ∈ downSimRef SimModel.exA ∧ (0, 1) ∈ downSimRef SimModel.exA ∧ (4, 2) ∉ downSimRef SimModel.exA := by
  decide

/-- the same for the upward simulation (identity on siblings, finality respected) -/
theorem C04_upward_greatest (A : TA) :
    IsUpSim A (RelOf (upSimRef A)) ∧
    ∀ q r, (q, r) ∈ upSimRef A ↔ q ∈ A.states ∧ r ∈ A.states ∧ ∃ S, IsUpSim A S ∧ S q r :=
  ⟨upSimRef_sim A, fun q r =>
    ⟨fun h => ⟨(upSimRef_sub A h).1, (upSimRef_sub A h).2, RelOf (upSimRef A), upSimRef_sim A, h⟩,
     fun ⟨hq, hr, S, hS, hqr⟩ => upSimRef_contains A S hS q r hq hr hqr⟩⟩

example : IsUpSim SimModel.exA (RelOf [(3, 2), (4, 0)]) ∧ 3 ∈ SimModel.exA.states ∧ 2 ∈ SimModel.exA.states :=
  ⟨(isUpSimB_iff _ _).mp (by decide), by decide, by decide⟩
example : (3, 2) ∈ upSimRef SimModel.exA ∧ (4, 0) ∈ upSimRef SimModel.exA ∧ (0, 1) ∉ upSimRef SimModel.exA := by decide

/-- both results are reflexive (on the states of `A`) and transitive -/
theorem C04_preorder (A : TA) :
    ((∀ q, q ∈ A.states → (q, q) ∈ downSimRef A) ∧
      ∀ a b c, (a, b) ∈ downSimRef A → (b, c) ∈ downSimRef A → (a, c) ∈ downSimRef A) ∧
    ((∀ q, q ∈ A.states → (q, q) ∈ upSimRef A) ∧
      ∀ a b c, (a, b) ∈ upSimRef A → (b, c) ∈ upSimRef A → (a, c) ∈ upSimRef A) :=
  ⟨greatest_downSim_preorder A, greatest_upSim_preorder A⟩

example : SimModel.exA.states = [0, 1, 2, 3, 4] ∧ (0, 1) ∈ downSimRef SimModel.exA ∧ (1, 0) ∈ downSimRef SimModel.exA := by
  decide

/-- the Boolean checkers applied to a returned relation decide exactly the two specifications -/
theorem C04_checkers_exact (A : TA) (R : Rel) :
    (isDownSimB A R = true ↔ DownSim A (RelOf R)) ∧ (isUpSimB A R = true ↔ IsUpSim A (RelOf R)) :=
  ⟨isDownSimB_iff A R, isUpSimB_iff A R⟩

example : isDownSimB SimModel.exA [(0, 1), (1, 0), (2, 3)] = true ∧ isDownSimB SimModel.exA [(2, 4)] = false ∧
    isUpSimB SimModel.exA [(3, 2), (4, 0)] = true ∧ isUpSimB SimModel.exA [(0, 1)] = false := by decide

/-- what a downward simulation is for: a related state accepts (reaches the root of) every tree the smaller one does -/
theorem C04_downward_simulation_language (A : TA) (S : Nat → Nat → Prop) (hS : DownSim A S) (t : Tree) (q r : Nat)
    (hqr : S q r) (hq : q ∈ reach A t) : r ∈ reach A t := downSim_lang A S hS t q r hqr hq

example : (2, 3) ∈ downSimRef SimModel.exA ∧ 2 ∈ reach SimModel.exA (.node 1 [.node 0 [], .node 0 []]) := by decide

/-! ## the route of the C++: translation to an LTS, LTS engine, reading the result back

`TaLts.translateDownward A size idx` / `TaLts.translateUpward A idx` (`Vata/TaLts.lean`) mirror `TranslateDownward` /
`TranslateUpward` of `src/explicit_tree_transl.hh` (nodes for the states through the translation map `idx`, one node per
child tuple of length `≠ 1` resp. one node per environment plus the leaf node, symbol and position labels, the initial
partition and the relation on its blocks); `TaLts.downSimViaLts` / `TaLts.upSimViaLts` add the LTS engine – represented
by its specification `ltsSimRef` (C16), output restricted to the indices `< size` – and the reading back through the
translation map (`StateDiscontBinaryRelation(ltsSim, translMap)`).  `TaLts.IdxOk A b idx`: `idx` is injective on
`A.states` with values `< b`. -/

/-- downward route: for a ranked automaton (each symbol has one arity – always the case for the explicit encoding, whose
symbols are (name, rank) pairs) and EVERY numbering of the states that is injective with values below the `size` passed,
the relation obtained through the LTS is `downSimRef A`, the greatest downward simulation -/
theorem C04_downward_via_lts (A : TA) (size : Nat) (idx : Nat → Nat) (hidx : TaLts.IdxOk A size idx)
    (hrk : TaLts.Ranked A) :
    (∀ q r, q ∈ A.states → r ∈ A.states →
      ((idx q, idx r) ∈ L.ltsSimOut (TaLts.translateDownward A size idx)
        (L.fullRel (TaLts.translateDownward A size idx).n) size ↔ (q, r) ∈ downSimRef A)) ∧
    ∀ q r, (q, r) ∈ TaLts.downSimViaLts A size idx ↔ (q, r) ∈ downSimRef A :=
  ⟨fun q r hq hr => TaLts.translateDownward_correct A size idx hidx hrk q r hq hr,
   fun q r => TaLts.downSimViaLts_iff A size idx hidx hrk q r⟩

example : TaLts.IdxOk TaLtsEx.exA 5 (TaLtsEx.perm [3, 0, 4, 1, 2]) ∧ TaLts.Ranked TaLtsEx.exA ∧
    (2, 3) ∈ TaLts.downSimViaLts TaLtsEx.exA 5 (TaLtsEx.perm [3, 0, 4, 1, 2]) :=
  ⟨TaLts.idxOkB_iff.mp (by decide), TaLts.rankedB_iff.mp (by decide), by decide⟩

/-- the hypothesis "ranked" cannot be dropped: with one symbol used with two arities the downward encoding relates
states that no downward simulation relates -/
theorem C04_downward_via_lts_needs_ranked :
    TaLts.IdxOk TaLtsEx.exU 3 id ∧ ¬ TaLts.Ranked TaLtsEx.exU ∧
    (1, 2) ∈ TaLts.downSimViaLts TaLtsEx.exU 3 id ∧ (1, 2) ∉ downSimRef TaLtsEx.exU :=
  TaLts.translateDownward_unranked_counterexample

/-- upward route (the repaired code): for an automaton in which every state owns a rule (true without useless states) and
EVERY numbering of the states that is injective with values `< N`, `N` = the number of states owning a rule
(`transitions_->size()`), `N ≤ size`: the relation obtained through the LTS is `upSimRef A`, the greatest upward
simulation -/
theorem C04_upward_via_lts (A : TA) (size : Nat) (idx : Nat → Nat)
    (hidx : TaLts.IdxOk A (TaLts.parents A).length idx) (hsize : (TaLts.parents A).length ≤ size)
    (hown : TaLts.AllOwnRule A) :
    (∀ q r, q ∈ A.states → r ∈ A.states →
      ((idx q, idx r) ∈ L.ltsSimOut (TaLts.translateUpward A idx).1
        (TaLts.blockRel (TaLts.translateUpward A idx).2.1 (TaLts.translateUpward A idx).2.2) size ↔
       (q, r) ∈ upSimRef A)) ∧
    ∀ q r, (q, r) ∈ TaLts.upSimViaLts A size idx ↔ (q, r) ∈ upSimRef A :=
  ⟨fun q r hq hr => TaLts.translateUpward_correct A size idx hidx hsize hown q r hq hr,
   fun q r => TaLts.upSimViaLts_iff A size idx hidx hsize hown q r⟩

example : TaLts.IdxOk TaLtsEx.exB (TaLts.parents TaLtsEx.exB).length (TaLtsEx.perm [2, 9, 3, 1, 0]) ∧
    (TaLts.parents TaLtsEx.exB).length ≤ 4 ∧ TaLts.AllOwnRule TaLtsEx.exB ∧
    (3, 4) ∈ TaLts.upSimViaLts TaLtsEx.exB 4 (TaLtsEx.perm [2, 9, 3, 1, 0]) :=
  ⟨TaLts.idxOkB_iff.mp (by decide), by decide, TaLts.allOwnRuleB_iff.mp (by decide), by decide⟩

/-- consequently the relations do not depend on the numbering chosen by the translation map -/
theorem C04_via_lts_numbering_independent (A : TA) (size : Nat) (idx idx' : Nat → Nat) :
    (TaLts.IdxOk A size idx → TaLts.IdxOk A size idx' → TaLts.Ranked A →
      ∀ q r, (q, r) ∈ TaLts.downSimViaLts A size idx ↔ (q, r) ∈ TaLts.downSimViaLts A size idx') ∧
    (TaLts.IdxOk A (TaLts.parents A).length idx → TaLts.IdxOk A (TaLts.parents A).length idx' →
      (TaLts.parents A).length ≤ size → TaLts.AllOwnRule A →
      ∀ q r, (q, r) ∈ TaLts.upSimViaLts A size idx ↔ (q, r) ∈ TaLts.upSimViaLts A size idx') :=
  ⟨fun h h' hrk q r => (TaLts.downSimViaLts_iff A size idx h hrk q r).trans
      (TaLts.downSimViaLts_iff A size idx' h' hrk q r).symm,
   fun h h' hs ho q r => (TaLts.upSimViaLts_iff A size idx h hs ho q r).trans
      (TaLts.upSimViaLts_iff A size idx' h' hs ho q r).symm⟩

example : TaLts.IdxOk TaLtsEx.exB 4 (TaLtsEx.perm [2, 9, 3, 1, 0]) ∧ TaLts.IdxOk TaLtsEx.exB 4 (TaLtsEx.perm [0, 9, 1, 2, 3]) ∧
    TaLts.Ranked TaLtsEx.exB ∧ TaLts.AllOwnRule TaLtsEx.exB ∧ (TaLts.parents TaLtsEx.exB).length = 4 :=
  ⟨TaLts.idxOkB_iff.mp (by decide), TaLts.idxOkB_iff.mp (by decide), TaLts.rankedB_iff.mp (by decide),
    TaLts.allOwnRuleB_iff.mp (by decide), by decide⟩

/-- the code BEFORE the repair of `TranslateUpward` (finding D3: `stateIndex[envIndexPair.first.state_]` translates the
parent of an environment a second time) returns a wrong relation for a non-identity numbering, and the right one for the
identity numbering – which is why the defect is invisible when the states are met in the order `0, 1, 2, …` -/
theorem C04_upward_via_lts_old_code_wrong :
    TaLts.IdxOk TaLtsEx.exB (TaLts.parents TaLtsEx.exB).length (TaLtsEx.perm [2, 9, 3, 1, 0]) ∧
    (TaLts.parents TaLtsEx.exB).length = 4 ∧ TaLts.AllOwnRule TaLtsEx.exB ∧
    (∀ e, e ∈ TaLts.envList TaLtsEx.exB (TaLtsEx.perm [2, 9, 3, 1, 0]) → e.state ∈ TaLtsEx.exB.states) ∧
    (2, 4) ∈ TaLts.upSimViaLtsOld TaLtsEx.exB 4 (TaLtsEx.perm [2, 9, 3, 1, 0]) ∧
    (2, 4) ∉ upSimRef TaLtsEx.exB ∧
    (2, 4) ∉ TaLts.upSimViaLts TaLtsEx.exB 4 (TaLtsEx.perm [2, 9, 3, 1, 0]) ∧
    TaLts.upSimViaLtsOld TaLtsEx.exB 4 id = TaLts.upSimViaLts TaLtsEx.exB 4 id :=
  TaLts.translateUpward_old_counterexample

/-! ## "do not depend on how the states happen to be numbered" -/

/-- renaming the automaton itself: for every map `f` that is injective on the states of `A`, the greatest downward /
upward simulation of the renamed automaton relates `f q` to `f r` exactly when the one of `A` relates `q` to `r`, and it
consists of nothing but such pairs – the relation is determined by the automaton up to the names of its states.
(`C04_via_lts_numbering_independent` above is the other reading: the numbering chosen INSIDE `ComputeSimulation`.) -/
theorem C04_numbering_independent (f : Nat → Nat) (A : TA) (hf : InjOnStates f A) :
    (∀ q r, q ∈ A.states → r ∈ A.states →
      (((f q, f r) ∈ downSimRef (reindex f A) ↔ (q, r) ∈ downSimRef A) ∧
       ((f q, f r) ∈ upSimRef (reindex f A) ↔ (q, r) ∈ upSimRef A))) ∧
    (∀ x y, (x, y) ∈ downSimRef (reindex f A) ↔ ∃ q r, (q, r) ∈ downSimRef A ∧ x = f q ∧ y = f r) ∧
    (∀ x y, (x, y) ∈ upSimRef (reindex f A) ↔ ∃ q r, (q, r) ∈ upSimRef A ∧ x = f q ∧ y = f r) :=
  ⟨fun _ _ hq hr => ⟨downSim_equivariant f A hf hq hr, upSim_equivariant f A hf hq hr⟩,
   downSimRef_reindex_image f A hf, upSimRef_reindex_image f A hf⟩

example : InjOnStates EqvEx.exF SimModel.exA := EqvEx.exF_inj_simA
example : (reindex EqvEx.exF SimModel.exA).states = [40, 33, 26, 19, 12] ∧
    (26, 19) ∈ downSimRef (reindex EqvEx.exF SimModel.exA) ∧ (2, 3) ∈ downSimRef SimModel.exA := by decide

/-!
## closed since the last refresh of this file

* **"The LTS engine inside the route is represented by its specification `ltsSimRef` …, not by a model of the
  partition-refinement code"** – closed in `Vata/Properties/C04_Pipeline.lean`: `SimPipe.computeSimDown` /
  `SimPipe.computeSimUp` run the MODEL of the engine (`LE.computeSimulation1` / `LE.computeSimulation`, C16) between the
  translations as coded and the result classes; `C04_pipeline_downward`, `C04_pipeline_upward` (the composition returns a
  relation and it is the greatest simulation), `C04_pipeline_downward_total`.
* **"that the partition is a partition of ALL nodes … and that the relation on the block numbers is itself reflexive and
  transitive … is only tested, not proved"** – closed: `C04_pipeline_engine_preconditions` (`LtsOK`, `isPartition`,
  `isConsistent`, `RelTrans`, and `LE.initRel` = `TaLts.blockRel`); the hypotheses on the numbering are discharged for the
  fresh translators by `C04_pipeline_numbering`.
* The property in its own words for the composition ("states numbered `0..n-1` and `n` passed"; "an automaton without
  useless states"; "reflexive and transitive"): `C04_pipeline_statement`; independence of the names of the states and of
  `n` for the composition: `C04_pipeline_numbering_independent`, `C04_pipeline_preorder_and_independence`.
* `C04_numbering_independent`, which this block used to cite, was missing from the file; it is stated above.
* The containers the relation travels in are modelled as coded (`Vata/Properties/Util_BinRel.lean`: `Util_BinRel_buildResult`,
  `Util_BinRel_discont`, `Util_BinRel_index`), and so are the helper classes inside the engine
  (`Vata/Properties/Util_LtsUtil.lean`).
* The same relation for the BDD bottom-up encoding: the model of `BDDBUTreeAutCore::ComputeDownwardSimulation` returns
  `downSimRef` restricted to the states that own a top-down entry (`C07_bddsim_greatest_on_entry_states` in
  `Vata/Properties/C07_BddSim.lean`).

## not yet proved

* The numberings "in order of first encounter" of the C++ hash tables are modelled by the order of `A.rules`
  (`SimPipe.downOrder`, `SimPipe.upOrder`); the theorems hold for every `A`, hence for every order of the rules, but "the
  rule list of the model is the iteration order of the hash tables" is not an object of the model.  The environment table
  of `TranslateUpward` is modelled with all four fields of `Env` as the key (the C++ hashes all four but its `operator==`
  omits `state_`; with cached hash codes this is the same unless two 64-bit hashes collide).
* Outside `A.states` (e.g. numbers below `n` that occur nowhere in the automaton; for the upward route also final states
  that occur in no rule) the model relation is empty and the dictionary of the result has no entry: `SimPipe.discRel` lists
  pairs of translated states only and `Disc.get` throws (`BinRel.Disc.get_unknown`), as the C++ does.
* **Preconditions that cannot be dropped.**  `Ranked A` for the downward route (`C04_downward_via_lts_needs_ranked`; it
  always holds for the explicit encoding).  For the upward route every state must own a rule and – unless `n = 0` – there
  must be a leaf rule (`SimPipe.LeafOk`, `C04_pipeline_upward_needs_leaf`): both hold for an automaton without useless
  states with `n` = its number of states (`C04_pipeline_upward_trimmed`); on `a(0) → 0` with `n = 1`, or on the automaton
  without rules with `n > 0`, the C++ violates the engine's preconditions (observed: out-of-bounds write in
  `SimulationEngine::makeBlock` resp. an empty block).  Both inputs have useless states and are outside the property.
* The engine model inside the pipeline treats the helper classes (`SmartSet`, `SharedCounter`, `SharedList`,
  `SplittingRelation`) as values; that the classes as coded implement these values is `Util_LtsUtil_*`, that every call the
  engine makes is inside the discipline those theorems assume is read off the sources (see C16).
-/
end Vata.Props
